SPECIFICATION TSpec
CONSTANTS MaxLen = 0
 Values = {}
 StrictIds = FALSE
INVARIANT TInv
