-------------------------- MODULE LifetimeTableTrace --------------------------
(* Trace specification of properties C04 (Lifetime) and C05 (Stability) for nstd::HashMap / HashSet / PoolMap: validates
   executions recorded from the real classes (harness/hashtab) against OrderedTable run with STRICT identities plus the
   ghost specifications Lifetime and Stability.  Prop selects the property whose clauses are evaluated ("C04" | "C05").
   An observed entry is <<key, value, serial of the value instance, address id, serial of the key instance>> (a HashSet
   entry is one instance: its key).  Reasons of a <<"MISMATCH", line, why>>: see LifetimeSeqTrace.                    *)
EXTENDS OrderedTable, Json, IOUtils
CONSTANT Prop
VARIABLES l, nbad, pcs, plt, pov, first
L == INSTANCE Lifetime
S == INSTANCE Stability
T == ndJsonDeserialize(IOEnv.TRACE)

HoldOf(e) == [j \in 1..2 |-> L!Holding(e.kind[j],
                [x \in 1..Len(e.c[j]) |-> L!Entry(e.c[j][x][3], IF e.kind[j] = "hashset" THEN 0 ELSE e.c[j][x][5], e.c[j][x][4])])]
\* a HashSet entry is its key: the fifth component must repeat the third
SetShapeOK(e) == \A j \in 1..2 : e.kind[j] = "hashset" => \A x \in 1..Len(e.c[j]) : e.c[j][x][5] = e.c[j][x][3]
World0 == <<L!Holding("hashmap", <<>>), L!Holding("hashmap", <<>>)>>
Lt0 == L!Lt(<<0, 0, 0, 0, 0>>)

Why(e) ==
  LET cs == HoldOf(e)  lt == L!Lt(e.lt)  i == e.i
      loose == \E o \in Step(e.op, st, e.i, e.k, e.v, e.p, e.kd) : Match(o, e, FALSE, AllIds(st))
      strict == (\E o \in Step(e.op, st, e.i, e.k, e.v, e.p, e.kd) : Match(o, e, TRUE, AllIds(st))) /\ SetShapeOK(e)
      untouched == e.op \in {"swap", "fini"} \/ cs[Other(i)] = pcs[Other(i)]
      rw == L!RegistryWhy(cs, lt, e.ov, e.ld)
      sw == IF first THEN "" ELSE L!StepWhy(pcs, plt, pov, cs, lt, e.ov)
      aw == S!StableWhy(pcs, cs)
      K == e.kind[i]
      pool == S!PoolKind(K) /\ st.kind[i] = K /\ e.op \notin {"new", "fini", "nop"} /\ ~first
      created == Cardinality({x \in 1..Len(e.c[i]) : e.c[i][x][3] \notin AllIds(st)})      \* entries that are new
  IN IF ~loose THEN e.op
     ELSE IF ~strict THEN e.op \o ":identity"
     ELSE IF ~untouched THEN e.op \o ":source-changed"
     ELSE IF Prop = "C04" THEN
            IF rw # "" THEN e.op \o ":" \o rw
            ELSE IF sw # "" THEN e.op \o ":" \o sw
            ELSE IF e.op = "fini" /\ ~L!QuiescentOK(e.q) THEN e.op \o ":not-quiescent"
            ELSE ""
     ELSE   IF aw # "" THEN e.op \o ":" \o aw
            ELSE IF ~S!ItersOK(e.its) THEN e.op \o ":iterator"
            ELSE IF pool /\ ~S!InPlaceOK(K, created, plt.cop, plt.asg, lt.cop, lt.asg) THEN e.op \o ":inplace"
            ELSE ""

TInit == l = 1 /\ nbad = 0 /\ st = Init0 /\ last = <<"init", 0, 0, 0, 0, NoRes, NoB>> /\ pcs = World0 /\ plt = Lt0
         /\ pov = <<0, 0>> /\ first = TRUE
TStep ==
  /\ l <= Len(T)
  /\ l' = l + 1
  /\ LET e == T[l] IN
     IF e.op = "reset" THEN st' = Init0 /\ pcs' = World0 /\ plt' = Lt0 /\ pov' = <<0, 0>> /\ first' = TRUE /\ UNCHANGED <<nbad, last>>
     ELSE LET why == Why(e)
          IN /\ last' = <<e.op, e.i, e.k, e.v, e.p, e.r, e.b>>
             /\ st' = Concrete(e) /\ pcs' = HoldOf(e) /\ plt' = L!Lt(e.lt) /\ pov' = e.ov /\ first' = FALSE
             /\ IF why = "" THEN UNCHANGED nbad
                ELSE PrintT(<<"MISMATCH", l, why>>) /\ nbad' = nbad + 1
TDone == l = Len(T) + 1 /\ PrintT(<<"TRACE-DONE", Len(T), nbad>>) /\ l' = l + 1 /\ UNCHANGED <<st, last, nbad, pcs, plt, pov, first>>
TNext == TStep \/ TDone
TSpec == TInit /\ [][TNext]_<<vars, l, nbad, pcs, plt, pov, first>>
TInv == (\A i \in 1..2 : st.kind[i] \in Kinds) /\ Prop \in {"C04", "C05"}
================================================================================
