---------------------------- MODULE AvlImplTrace ----------------------------
(* Layer-2 conformance of the transcription (drift detection, never a verdict about the library):
   for every event of a recorded execution the concrete tree observed *before* the operation (key sequence + the
   [parent position, stored height] of every item, logged by the driver as "shape") is loaded into the AvlImpl model,
   the transcribed code is applied, and the predicted tree is compared node for node with the tree observed after the
   operation; for find / contains also the predicted number of key comparisons.  A difference is printed as
   <<"MISMATCH", line, op>> (vlib.validate_trace collects these lines; c01.py reports them as DRIFT): the model no longer describes the code (or the code changed its algorithm).
   Multi selects which pair of containers is followed (1,2 = Map or 3,4 = MultiMap).                              *)
EXTENDS AvlImpl, Json, IOUtils
VARIABLES l, ndrift, nchk, os, shp
T == ndJsonDeserialize(IOEnv.TRACE)

Mine(c) == c \in {C, C + 1}
FromShape(ks, sh) ==
  LET m == Len(sh)
      Ch(i, left) == LET S == {j \in 1..m : sh[j][1] = i /\ (IF left THEN j < i ELSE j > i)} IN
                     IF S = {} THEN 0 ELSE CHOOSE j \in S : TRUE
      Hh(j) == IF j = 0 THEN 0 ELSE sh[j][2]
  IN [n |-> [i \in 1..m |-> [key |-> ks[i].k, l |-> Ch(i, TRUE), r |-> Ch(i, FALSE), p |-> sh[i][1], h |-> sh[i][2],
                             s |-> Hh(Ch(i, TRUE)) - Hh(Ch(i, FALSE)), nx |-> IF i = m THEN 0 ELSE i + 1, pv |-> i - 1]],
      root |-> (IF m = 0 THEN 0 ELSE CHOOSE j \in 1..m : sh[j][1] = 0),
      first |-> (IF m = 0 THEN 0 ELSE 1), lastn |-> m]
ShapeOf(ts) == [i \in 1..Size(ts) |-> <<ts.n[i].p, ts.n[i].h>>]
Modelled == {"insert", "insertHint", "removeKey", "removeAt", "removeFront", "removeBack", "clear", "copy", "assign",
             "bulk", "find", "contains", "count", "front", "back"}

XInit == /\ l = 1 /\ ndrift = 0 /\ nchk = 0 /\ os = Init0 /\ shp = [c \in 1..NC |-> <<>>]
         /\ n = <<>> /\ root = 0 /\ first = 0 /\ lastn = 0 /\ refOK = TRUE
         /\ st = Init0 /\ last = <<"init", 0, 0, 0, 0, NoIt, NoVal>>
XStep ==
  /\ l <= Len(T)
  /\ l' = l + 1
  /\ UNCHANGED <<n, root, first, lastn, refOK, st, last>>
  /\ LET e == T[l] IN
     IF e.op = "reset" THEN os' = Init0 /\ shp' = [c \in 1..NC |-> <<>>] /\ UNCHANGED <<ndrift, nchk>>
     ELSE LET os2 == FromObs(os, e)
              known == e.bal /\ Len(e.shape) = e.n                   \* the tree after the operation was logged
              shp2 == [c \in 1..NC |-> IF c = e.c THEN (IF known THEN e.shape ELSE <<-1>>)
                                       ELSE IF os2[c] = os[c] THEN shp[c] ELSE <<-1>>]
              usable == /\ Mine(e.c) /\ e.op \in Modelled /\ known
                        /\ Len(shp[e.c]) = Len(os[e.c]) /\ (e.op = "count" => Multi) /\ (e.op = "bulk" => ~Multi)
                        \* observations of a damaged container (list and size counter disagree, ...) are not modelled
                        /\ e.size[e.c] = e.n /\ Len(os2[e.c]) = e.n /\ e.bwd /\ \A j \in 1..NC : Len(os[j]) = e.size[j] \/ j = e.c
                        /\ (e.op = "removeAt" => e.p \in 1..Len(os[e.c]))
                        /\ (e.op = "insertHint" => e.p \in 1..Len(os[e.c]) + 1)
                        /\ (e.op \in {"removeFront", "removeBack", "front", "back"} => Len(os[e.c]) > 0)
          IN /\ os' = (IF e.op = "fini" THEN Init0 ELSE os2)
             /\ shp' = (IF e.op = "fini" THEN [c \in 1..NC |-> <<>>] ELSE shp2)
             /\ IF ~usable THEN UNCHANGED <<ndrift, nchk>>
                ELSE LET ts == FromShape(os[e.c], shp[e.c])
                         oq == os[Other(e.c)]
                         k == IF e.op \in {"copy", "assign", "bulk"} THEN [i \in 1..Len(oq) |-> oq[i].k] ELSE e.k
                         r == ImplOn(ts, e.op, k, e.p)
                         t2 == Normalise(r.ts)
                         same == /\ ShapeOf(t2) = e.shape
                                 /\ [i \in 1..Size(t2) |-> t2.n[i].key] = [i \in 1..Len(os2[e.c]) |-> os2[e.c][i].k]
                                 /\ (e.op \in {"find", "contains"} => Find(ts, e.k).cmp = e.cmp)
                                 /\ (e.op = "count" => r.rv = e.rv)
                     IN /\ nchk' = nchk + 1
                        /\ IF same THEN UNCHANGED ndrift
                           ELSE PrintT(<<"MISMATCH", l, e.op>>) /\ ndrift' = ndrift + 1
XDone == /\ l = Len(T) + 1 /\ PrintT(<<"TRACE-DONE", Len(T), nchk, ndrift>>) /\ l' = l + 1
         /\ UNCHANGED <<ndrift, nchk, os, shp, n, root, first, lastn, refOK, st, last>>
XSpec == XInit /\ [][XStep \/ XDone]_<<l, ndrift, nchk, os, shp, n, root, first, lastn, refOK, st, last>>
================================================================================
