SPECIFICATION ISpec
CONSTANTS MaxLen = 4
 Values = {1}
 MaxCap = 4
 MaxLen2 = 2
 CapArgs = {0, 4}
 UVars = {1}
 BVars = {1, 2}
 FillArgs = {}
INVARIANTS RefinementOK NoOverflow BlockOK
CONSTRAINT IBound
