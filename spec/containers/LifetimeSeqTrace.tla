--------------------------- MODULE LifetimeSeqTrace ---------------------------
(* Trace specification of properties C04 (Lifetime) and C05 (Stability) for nstd::List / Array / PoolList: validates
   executions recorded from the real classes (harness/seq) against RefSeq run with STRICT identities plus the ghost
   specifications Lifetime and Stability.  Prop selects the property whose clauses are evaluated ("C04" | "C05").
   An event the specification does not allow is reported as <<"MISMATCH", line, why>>,
     why = "<op>"            contents / returned iterator not allowed by RefSeq at all (C04: copies, self-forms "as if copied")
           "<op>:identity"   contents right, but a surviving element is not the instance it was, or a created one is not new
           "<op>:source-changed"  the variable that is only an argument of the operation changed (instances or addresses)
           "<op>:<Lifetime clause>"   lifetime-error, destroyed-but-held, shared-instance, balance, counters, adopted-instance,
                                      exactly-once, key-instance, not-quiescent            (C04)
           "<op>:<Stability clause>"  address, address-shared, iterator, inplace            (C05)
   and the abstract state is re-synchronised from the observation.                                                    *)
EXTENDS RefSeq, Json, IOUtils
CONSTANT Prop
VARIABLES l, nbad, pcs, plt, pov, first
L == INSTANCE Lifetime
S == INSTANCE Stability
T == ndJsonDeserialize(IOEnv.TRACE)

HoldOf(e) == [j \in 1..2 |-> L!Holding(e.kind[j], [x \in 1..Len(e.c[j]) |-> L!Entry(e.c[j][x][2], 0, e.c[j][x][3])])]
World0 == <<L!Holding("list", <<>>), L!Holding("list", <<>>)>>
Lt0 == L!Lt(<<0, 0, 0, 0, 0>>)
IdSet(q) == {q[k].id : k \in 1..Len(q)}

Why(e) ==
  LET cs == HoldOf(e)  lt == L!Lt(e.lt)  i == e.i
      loose == IF e.op = "sort" THEN SortMatch(st, e, FALSE)
               ELSE \E o \in Step(e.op, st, e.i, e.v, e.p, e.kd) : Match(o, e, FALSE, AllIds(st))
      strict == IF e.op = "sort" THEN SortMatch(st, e, TRUE) /\ IdSet(ObsSeq(e.c[i])) = IdSet(st.c[i])
                ELSE \E o \in Step(e.op, st, e.i, e.v, e.p, e.kd) : Match(o, e, TRUE, AllIds(st))
      untouched == \/ e.op \in {"swap", "fini"} \/ cs[Other(i)] = pcs[Other(i)]
                   \/ (Prop = "C05" /\ ~S!NodeKind(pcs[Other(i)].kind))            \* C05 does not judge an Array
      rw == L!RegistryWhy(cs, lt, e.ov, e.ld)
      sw == IF first THEN "" ELSE L!StepWhy(pcs, plt, pov, cs, lt, e.ov)
      aw == S!StableWhy(pcs, cs)
      K == e.kind[i]
      pool == S!PoolKind(K) /\ st.kind[i] = K /\ e.op \notin {"new", "fini", "nop"} /\ ~first
      created == Cardinality({x \in 1..Len(e.c[i]) : e.c[i][x][2] \notin AllIds(st)})      \* entries that are new
  IN IF ~loose THEN e.op
     ELSE IF ~strict THEN e.op \o ":identity"
     ELSE IF ~untouched THEN e.op \o ":source-changed"
     ELSE IF Prop = "C04" THEN
            IF rw # "" THEN e.op \o ":" \o rw
            ELSE IF sw # "" THEN e.op \o ":" \o sw
            ELSE IF e.op = "fini" /\ ~L!QuiescentOK(e.q) THEN e.op \o ":not-quiescent"
            ELSE ""
     ELSE   IF aw # "" THEN e.op \o ":" \o aw
            ELSE IF ~S!ItersOK(e.its) THEN e.op \o ":iterator"
            ELSE IF pool /\ ~S!InPlaceOK(K, created, plt.cop, plt.asg, lt.cop, lt.asg) THEN e.op \o ":inplace"
            ELSE ""

TInit == l = 1 /\ nbad = 0 /\ st = Init0 /\ last = <<"init", 0, 0, 0, NoRes, NoB>> /\ pcs = World0 /\ plt = Lt0
         /\ pov = <<0, 0>> /\ first = TRUE
TStep ==
  /\ l <= Len(T)
  /\ l' = l + 1
  /\ LET e == T[l] IN
     IF e.op = "reset" THEN st' = Init0 /\ pcs' = World0 /\ plt' = Lt0 /\ pov' = <<0, 0>> /\ first' = TRUE /\ UNCHANGED <<nbad, last>>
     ELSE LET why == Why(e)
          IN /\ last' = <<e.op, e.i, e.v, e.p, e.r, e.b>>
             /\ st' = Concrete(e) /\ pcs' = HoldOf(e) /\ plt' = L!Lt(e.lt) /\ pov' = e.ov /\ first' = FALSE
             /\ IF why = "" THEN UNCHANGED nbad
                ELSE PrintT(<<"MISMATCH", l, why>>) /\ nbad' = nbad + 1
TDone == l = Len(T) + 1 /\ PrintT(<<"TRACE-DONE", Len(T), nbad>>) /\ l' = l + 1 /\ UNCHANGED <<st, last, nbad, pcs, plt, pov, first>>
TNext == TStep \/ TDone
TSpec == TInit /\ [][TNext]_<<vars, l, nbad, pcs, plt, pov, first>>
TInv == (\A i \in 1..2 : st.kind[i] \in Kinds) /\ Prop \in {"C04", "C05"}
================================================================================
