SPECIFICATION ISpec
CONSTANTS IKeys = {1, 2, 3, 4, 5, 6, 7, 8, 9}
 Multi = FALSE
 MaxN = 9
 OtherMax = 1
 OpSet = {"insert", "insertHint", "removeKey", "removeAt", "removeFront", "removeBack", "clear", "copy", "assign", "bulk", "find", "contains", "front", "back"}
 OrigFind = FALSE
 Keys = {}
 Vals = {}
 MaxLen = 0
 Cs = {}
INVARIANTS RefinementOK TreeOK ThreadOK BalanceOK ParentOK LookupOK
CONSTRAINT IBound
