----------------------------- MODULE OrderedTableTrace -----------------------------
(* Trace specification: validates executions recorded from the real nstd::HashMap / HashSet / PoolMap (harness/hashtab)
   against OrderedTable.  Every event carries the operation, its arguments, its result and the projected state of both
   variables.  An event that OrderedTable does not allow is reported as <<"MISMATCH", line, op>> and the abstract state is
   re-synchronised from the observation so that the rest of the trace is still checked.                          *)
EXTENDS OrderedTable, Json, IOUtils
CONSTANT StrictIds
VARIABLES l, nbad
T == ndJsonDeserialize(IOEnv.TRACE)

TInit == l = 1 /\ nbad = 0 /\ st = Init0 /\ last = <<"init", 0, 0, 0, 0, NoRes, NoB>>
TStep ==
  /\ l <= Len(T)
  /\ l' = l + 1
  /\ LET e == T[l] IN
     IF e.op = "reset" THEN st' = Init0 /\ UNCHANGED <<nbad, last>>
     ELSE LET ok == \E o \in Step(e.op, st, e.i, e.k, e.v, e.p, e.kd) : Match(o, e, StrictIds, AllIds(st))
          IN /\ last' = <<e.op, e.i, e.k, e.v, e.p, e.r, e.b>>
             /\ st' = Concrete(e)
             /\ IF ok THEN UNCHANGED nbad
                ELSE PrintT(<<"MISMATCH", l, e.op>>) /\ nbad' = nbad + 1
TDone == l = Len(T) + 1 /\ PrintT(<<"TRACE-DONE", Len(T), nbad>>) /\ l' = l + 1 /\ UNCHANGED <<st, last, nbad>>
TNext == TStep \/ TDone
TSpec == TInit /\ [][TNext]_<<vars, l, nbad>>
\* (key uniqueness of every observed table is part of Match -- ObsShapeOK -- so that a duplicate key is reported as a
\*  MISMATCH of the step that produced it instead of stopping the validation)
TInv == \A i \in 1..2 : st.kind[i] \in Kinds
================================================================================
