SPECIFICATION ISpec
CONSTANTS Kind = "hashset"
 Keys = {1, 2, 3}
 Vals = {0}
 CapArgs = {1, 2, 3}
 MaxBlocks = 1
 UVars = {1}
 BVars = {}
 OpSet <- AllOps
INVARIANTS RefinementOK ChainsOK OrderOK FreeOK StoresOK TypeOK
VIEW IView
