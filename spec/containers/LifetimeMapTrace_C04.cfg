SPECIFICATION TSpec
CONSTANTS Keys = {}
 Vals = {}
 MaxLen = 0
 Cs = {}
 Prop = "C04"
INVARIANT TInv
