SPECIFICATION ISpec
CONSTANTS Kind = "poolmap"
 Keys = {1, 2, 3, 4, 5}
 Vals = {1}
 CapArgs = {2}
 MaxBlocks = 2
 UVars = {1}
 BVars = {}
 OpSet <- FewOps
INVARIANTS RefinementOK ChainsOK OrderOK FreeOK StoresOK TypeOK
VIEW IView
