----------------------------- MODULE OrderedTable -----------------------------
(* Layer 1 (property level) specification of nstd::HashMap, nstd::HashSet and nstd::PoolMap for property C02:
   insertion-ordered tables with unique keys.

   Two container variables (index 1, 2).  Abstract state:
     kind[i] : "hashmap" | "hashset" | "poolmap"
     c[i]    : the reference table = sequence of entries [k |-> key, v |-> value, id |-> identity of the stored
               instance] with pairwise different keys, in iteration order.  For a HashSet v = k.
   The id is what the harness observes of an entry's identity (serial number of the stored value instance; of the
   key instance for a HashSet); it says which entry a returned iterator / reference designates.  Outcomes give the
   id Fresh to entries they create; ids of an observed state are taken from the observation.

   Step(op, s, i, k, v, p, kd) = the set of allowed outcomes [kind, c, r, b] of one public operation on variable i:
     r : position (1-based, in the new c[i]) of the entry the returned iterator/reference designates, EndPos for
         end(), NoRes when the operation returns nothing;   b : integer result (contains, ==: 0/1), NoB when none.
   Inserting a key that is present keeps the entry's position; HashMap assigns the new value to it, HashSet and
   PoolMap leave the entry untouched.  An operation that the class does not offer, or whose documented precondition
   does not hold, has no outcome (Step = {}); the harness logs such a request as "nop" without executing it.     *)
EXTENDS Integers, Sequences, FiniteSets, TLC

Other(i) == 3 - i
Fresh == 0
NoRes == -2
NoB == -2
EndPos == 0
Kinds == {"hashmap", "hashset", "poolmap"}

E(k, v, id) == [k |-> k, v |-> v, id |-> id]
KV(q) == [j \in 1..Len(q) |-> <<q[j].k, q[j].v>>]
KeysOf(q) == {q[j].k : j \in 1..Len(q)}
IdsOf(q) == [j \in 1..Len(q) |-> q[j].id]
FreshCopy(q) == [j \in 1..Len(q) |-> E(q[j].k, q[j].v, Fresh)]
InsertSeq(q, p, x) == SubSeq(q, 1, p) \o x \o SubSeq(q, p + 1, Len(q))        \* x: a sequence, p in 0..Len(q)
RemoveAt(q, p) == SubSeq(q, 1, p - 1) \o SubSeq(q, p + 1, Len(q))             \* p in 1..Len(q)
KeyIdx(q, k) == IF \E j \in 1..Len(q) : q[j].k = k THEN CHOOSE j \in 1..Len(q) : q[j].k = k ELSE 0
PosOrEnd(q, p) == IF p >= 1 /\ p <= Len(q) THEN p ELSE EndPos
UniqueKeys(q) == \A a, b \in 1..Len(q) : a # b => q[a].k # q[b].k

\* insertion of (k, v) before position p + 1 into a table of class K: [q |-> new table, pos |-> position of key k]
Ins(K, q, p, k, v) ==
  LET j == KeyIdx(q, k)  vv == IF K = "hashset" THEN k ELSE v IN
  IF j # 0 THEN [q |-> IF K = "hashmap" THEN [q EXCEPT ![j].v = v] ELSE q, pos |-> j]
  ELSE [q |-> InsertSeq(q, p, <<E(k, vv, Fresh)>>), pos |-> p + 1]
Without(q, ks) == SelectSeq(q, LAMBDA e : e.k \notin ks)

Out(s, i, q, r, b) == [kind |-> s.kind, c |-> [s.c EXCEPT ![i] = q], r |-> r, b |-> b]

Step(op, s, i, k, v, p, kd) ==
  LET q == s.c[i]  o == Other(i)  oq == s.c[o]  K == s.kind[i]  n == Len(q)
      same == s.kind[o] = K
      MS == K \in {"hashmap", "hashset"}                         \* classes with prepend / copy / assignment / ==
  IN
  CASE op = "new" -> IF kd \in Kinds
                     THEN {[kind |-> [s.kind EXCEPT ![i] = kd], c |-> [s.c EXCEPT ![i] = <<>>], r |-> NoRes, b |-> NoB]}
                     ELSE {}
    \* ---- insertion.  HashMap::append/prepend and PoolMap::append return V& (the entry of the key), HashSet's return void;
    \*      insert(position, ...) returns an iterator to the entry of the key in all three classes
    [] op = "append" -> LET x == Ins(K, q, n, k, v) IN {Out(s, i, x.q, IF K = "hashset" THEN NoRes ELSE x.pos, NoB)}
    [] op = "prepend" /\ MS -> LET x == Ins(K, q, 0, k, v) IN {Out(s, i, x.q, IF K = "hashset" THEN NoRes ELSE x.pos, NoB)}
    [] op = "insert" /\ p \in 0..n -> LET x == Ins(K, q, p, k, v) IN {Out(s, i, x.q, x.pos, NoB)}
    [] op = "appendall" /\ K = "hashset" /\ same -> {Out(s, i, q \o FreshCopy(Without(oq, KeysOf(q))), NoRes, NoB)}
    \* ---- removal
    [] op = "rmkey" -> {Out(s, i, Without(q, {k}), NoRes, NoB)}
    [] op = "rmat" /\ p \in 0..(n - 1) -> {Out(s, i, RemoveAt(q, p + 1), PosOrEnd(RemoveAt(q, p + 1), p + 1), NoB)}
    [] op = "rmref" /\ K = "poolmap" /\ p \in 0..(n - 1) -> {Out(s, i, RemoveAt(q, p + 1), NoRes, NoB)}   \* remove(const V&)
    [] op = "rmfront" /\ n > 0 -> {Out(s, i, Tail(q), PosOrEnd(Tail(q), 1), NoB)}
    [] op = "rmback" /\ n > 0 -> {Out(s, i, SubSeq(q, 1, n - 1), EndPos, NoB)}
    [] op = "rmall" /\ K = "hashset" /\ same -> {Out(s, i, Without(q, KeysOf(oq)), NoRes, NoB)}
    [] op = "clear" -> {Out(s, i, <<>>, NoRes, NoB)}
    \* ---- whole-container operations
    [] op = "swap" /\ same -> {[kind |-> s.kind, c |-> <<s.c[2], s.c[1]>>, r |-> NoRes, b |-> NoB]}
    [] op = "copy" /\ MS /\ same -> {Out(s, i, FreshCopy(oq), NoRes, NoB)}                  \* i := Class(other)
    [] op = "assign" /\ MS /\ same -> {Out(s, i, FreshCopy(oq), NoRes, NoB)}                \* i = other
    \* ---- queries
    [] op = "find" -> {Out(s, i, q, KeyIdx(q, k), NoB)}
    [] op = "contains" -> {Out(s, i, q, NoRes, IF KeyIdx(q, k) # 0 THEN 1 ELSE 0)}
    [] op = "front" /\ n > 0 -> {Out(s, i, q, 1, NoB)}
    [] op = "back" /\ n > 0 -> {Out(s, i, q, n, NoB)}
    [] op = "eq" /\ MS /\ same -> {Out(s, i, q, NoRes, IF KV(q) = KV(oq) THEN 1 ELSE 0)}   \* order-sensitive equality
    \* ---- operations whose argument is the container itself or one of its own entries (property C04: as if the argument
    \*      had been copied first); never generated by the C02 check
    [] op = "swapself" -> {Out(s, i, q, NoRes, NoB)}
    [] op = "assignself" /\ MS -> {Out(s, i, q, NoRes, NoB), Out(s, i, FreshCopy(q), NoRes, NoB)}      \* kept or re-created
    [] op = "appendself" /\ K = "hashset" -> {Out(s, i, q, NoRes, NoB)}
    [] op = "rmself" /\ K = "hashset" -> {Out(s, i, <<>>, NoRes, NoB)}
    [] op = "appendown" /\ MS /\ p \in 0..(n - 1) /\ k \in 0..(n - 1) ->            \* append(key of own entry p, value of own entry k)
         LET x == Ins(K, q, n, q[p + 1].k, q[k + 1].v) IN {Out(s, i, x.q, IF K = "hashset" THEN NoRes ELSE x.pos, NoB)}
    [] op = "rmkeyown" /\ p \in 0..(n - 1) -> {Out(s, i, RemoveAt(q, p + 1), NoRes, NoB)}  \* remove(key of own entry p)
    [] op = "nop" -> {[kind |-> s.kind, c |-> s.c, r |-> NoRes, b |-> NoB]}
    \* both variables destroyed and recreated as default HashMaps (harness operation of the C04 check: lifetime balance)
    [] op = "fini" -> {[kind |-> <<"hashmap", "hashmap">>, c |-> << <<>>, <<>> >>, r |-> NoRes, b |-> NoB]}
    [] OTHER -> {}

\* ------------------------------------------------------------------------------------------------------------
\* Observations.  obs = [i, r, b, kind, c, sz, em, bk ...]; an observed entry is the tuple <<key, value, id, address id>>,
\* sz[j] = size(), em[j] = isEmpty() (0/1), bk[j] = the ids met iterating backwards from end(); r = id of the entry the
\* returned iterator/reference designates, -1 for end(), -2 when nothing is returned.
ObsEl(x) == E(x[1], x[2], x[3])
ObsSeq(cs) == [j \in 1..Len(cs) |-> ObsEl(cs[j])]
Rev(q) == [j \in 1..Len(q) |-> q[Len(q) + 1 - j]]
AllIds(s) == {s.c[1][j].id : j \in 1..Len(s.c[1])} \cup {s.c[2][j].id : j \in 1..Len(s.c[2])}

ObsShapeOK(obs) ==
  /\ \A j \in 1..2 : LET q == ObsSeq(obs.c[j]) IN
       /\ obs.sz[j] = Len(q)
       /\ obs.em[j] = (IF Len(q) = 0 THEN 1 ELSE 0)
       /\ obs.bk[j] = Rev(IdsOf(q))
       /\ \A a, b2 \in 1..Len(q) : a # b2 => q[a].id # q[b2].id
       /\ UniqueKeys(q)                                            \* a table: no key twice
  /\ \A a \in 1..Len(obs.c[1]), b2 \in 1..Len(obs.c[2]) : obs.c[1][a][3] # obs.c[2][b2][3]

ResultOK(o, obs) ==
  /\ obs.b = o.b
  /\ \/ o.r = NoRes /\ obs.r = -2
     \/ o.r = EndPos /\ obs.r = -1
     \/ o.r >= 1 /\ o.r <= Len(obs.c[obs.i]) /\ obs.r = obs.c[obs.i][o.r][3]

\* strict (off in the C02 check; C05/C04 material): surviving entries keep their identity, created ones are new
SeqMatch(ref, got, strict, oldIds) ==
  /\ Len(ref) = Len(got)
  /\ \A j \in 1..Len(ref) :
       /\ ref[j].k = got[j].k /\ ref[j].v = got[j].v
       /\ strict => IF ref[j].id = Fresh THEN got[j].id \notin oldIds ELSE got[j].id = ref[j].id

Match(o, obs, strict, oldIds) ==
  /\ obs.kind = o.kind
  /\ ObsShapeOK(obs)
  /\ \A j \in 1..2 : SeqMatch(o.c[j], ObsSeq(obs.c[j]), strict, oldIds)
  /\ ResultOK(o, obs)

Concrete(obs) == [kind |-> obs.kind, c |-> <<ObsSeq(obs.c[1]), ObsSeq(obs.c[2])>>]
Init0 == [kind |-> <<"hashmap", "hashmap">>, c |-> << <<>>, <<>> >>]

--------------------------------------------------------------------------------
\* Stand-alone bounded model of the reference (ids are not tracked here: every id is Fresh).
CONSTANTS Keys, Vals
VARIABLES st, last
vars == <<st, last>>
MaxN == Cardinality(Keys)
StOf(o) == [kind |-> o.kind, c |-> <<FreshCopy(o.c[1]), FreshCopy(o.c[2])>>]
Do(op, i, k, v, p, kd) == /\ \E o \in Step(op, st, i, k, v, p, kd) : st' = StOf(o) /\ last' = <<op, i, k, v, p, o.r, o.b>>
Init == st = Init0 /\ last = <<"init", 0, 0, 0, 0, NoRes, NoB>>
Ops0 == {"clear", "swap", "copy", "assign", "rmfront", "rmback", "appendall", "rmall", "front", "back", "eq",
         "swapself", "assignself", "appendself", "rmself"}
OpsK == {"rmkey", "find", "contains"}
OpsP == {"rmat", "rmref", "rmkeyown"}
Next == \E i \in 1..2 :
          \/ \E kd \in Kinds : Do("new", i, 0, 0, 0, kd)
          \/ \E op \in Ops0 : Do(op, i, 0, 0, 0, "")
          \/ \E op \in OpsK, k \in Keys : Do(op, i, k, 0, 0, "")
          \/ \E op \in OpsP, p \in 0..MaxN : Do(op, i, 0, 0, p, "")
          \/ \E op \in {"append", "prepend"}, k \in Keys, v \in Vals : Do(op, i, k, v, 0, "")
          \/ \E k \in Keys, v \in Vals, p \in 0..MaxN : Do("insert", i, k, v, p, "")
          \/ \E k \in 0..MaxN, p \in 0..MaxN : Do("appendown", i, k, 0, p, "")
Spec == Init /\ [][Next]_vars
ViewSt == st        \* `last` only records the transition just taken: states are identified by st (cfg: VIEW ViewSt)

\* the reference is a table: keys stay unique, HashSet entries have v = k
TypeOK == /\ \A i \in 1..2 : st.kind[i] \in Kinds /\ UniqueKeys(st.c[i])
          /\ \A i \in 1..2 : st.kind[i] = "hashset" => \A j \in 1..Len(st.c[i]) : st.c[i][j].v = st.c[i][j].k
\* sanity of the reference itself: a present key keeps its position, HashMap takes the new value, the others keep theirs
PresentKeyKeepsPosition ==
  [][\A i \in 1..2 : (last'[1] \in {"append", "prepend", "insert"} /\ last'[2] = i /\ KeyIdx(st.c[i], last'[3]) # 0) =>
        LET j == KeyIdx(st.c[i], last'[3]) IN
        /\ Len(st'.c[i]) = Len(st.c[i]) /\ st'.c[i][j].k = last'[3]
        /\ st'.c[i][j].v = (IF st.kind[i] = "hashmap" THEN last'[4] ELSE st.c[i][j].v)
        /\ \A x \in 1..Len(st.c[i]) : x # j => st'.c[i][x] = st.c[i][x]]_vars
FindAfterInsert ==
  [][\A i \in 1..2 : (last'[1] \in {"append", "prepend", "insert"} /\ last'[2] = i) => KeyIdx(st'.c[i], last'[3]) # 0]_vars
================================================================================
