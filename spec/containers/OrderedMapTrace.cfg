SPECIFICATION TSpec
CONSTANTS Keys = {}
 Vals = {}
 MaxLen = 0
 Cs = {}
INVARIANT TInv
