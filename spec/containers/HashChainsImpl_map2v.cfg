SPECIFICATION ISpec
CONSTANTS Kind = "hashmap"
 Keys = {1, 2}
 Vals = {1}
 CapArgs = {1, 2}
 MaxBlocks = 1
 UVars = {1, 2}
 BVars = {1, 2}
 OpSet <- TwoOps
INVARIANTS RefinementOK ChainsOK OrderOK FreeOK StoresOK TypeOK
VIEW IView
