------------------------------- MODULE Lifetime -------------------------------
(* Property C04, Layer 1 (property level): containers construct and destroy each element exactly once; copies are deep.

   This module is the ghost specification that is laid over the functional container specifications (RefSeq,
   OrderedTable, OrderedMap).  It talks about INSTANCES of the element / key type, identified by the serial number the
   instance registry of the harness element type hands out at construction (serials are handed out consecutively, so an
   instance constructed during a step has a serial greater than the number of instances constructed before the step).

   A "holding" is what one container variable holds:   [kind |-> class name, ent |-> sequence of entries]
   an entry is   [s |-> serial of the stored element (value) instance,
                  ks |-> serial of the stored key instance, 0 when the entry has no separate key instance,
                  a |-> address id of the element (only used by Stability)]
   cs (a "world") is the tuple of the holdings of all container variables of a driver.

   Registry counters  lt = [con, des, cop, asg, err] : instances constructed / destroyed so far, copy constructions,
   copy assignments, lifetime errors (touch after destruction, double destruction, use of unconstructed memory).
   ov = for every container variable the number of instances the empty container OBJECT owns by itself (the classes
   keep a default-constructed end sentinel; measured by the harness, constant per class).
   ld = number of held instances that the registry does not list as alive.

   The property, as predicates over one observed state and over one observed step:
     RegistryOK  the live instances are exactly the instances the containers hold (plus the containers' own fixed
                 members): nothing leaked, nothing destroyed that is still held, nothing held twice (copies are deep),
                 no lifetime error ever
     StepOK      what a step adds to the holdings it has constructed itself during the step (no instance is resurrected
                 or adopted from elsewhere); instances constructed during the step and not held at its end
                 (temporaries) are destroyed during the step; of the instances held before, exactly those that left
                 the holdings are destroyed -- each exactly once (a second destruction or a missing one breaks the
                 count; a destruction of a still-held instance shows in ld / err)
     KeysKept    an entry that survives keeps the key instance it was constructed with
     QuiescentOK after all containers are destroyed no instance is alive
   Which instances may survive a step, and that copies carry fresh serials with equal values and leave the source
   unchanged, is said by the functional specifications run with strict identities (their Step gives the id Fresh to
   every element an operation creates; self-forms are specified there "as if the argument had been copied first").
   Only an Array may relocate its elements: the functional match never demands identities of an Array, and StepOK then
   says that the replacing instances are fresh copies and the replaced ones are destroyed in the same step.          *)
EXTENDS Integers, Sequences, FiniteSets

Lt(t) == [con |-> t[1], des |-> t[2], cop |-> t[3], asg |-> t[4], err |-> t[5]]
Live(lt) == lt.con - lt.des
Entry(s, ks, a) == [s |-> s, ks |-> ks, a |-> a]
Holding(kind, ent) == [kind |-> kind, ent |-> ent]

EntryIds(e) == IF e.ks = 0 THEN {e.s} ELSE {e.s, e.ks}
HeldIds(cs) == UNION {UNION {EntryIds(cs[j].ent[x]) : x \in 1..Len(cs[j].ent)} : j \in 1..Len(cs)}
\* one slot per held instance (an entry with a separate key instance has two)
HeldSlots(cs) == UNION {UNION {{<<j, x, w>> : w \in (IF cs[j].ent[x].ks = 0 THEN {1} ELSE {1, 2})} : x \in 1..Len(cs[j].ent)}
                        : j \in 1..Len(cs)}
HeldCount(cs) == Cardinality(HeldSlots(cs))
RECURSIVE SumSeq(_)
SumSeq(q) == IF q = <<>> THEN 0 ELSE Head(q) + SumSeq(Tail(q))

\* ---- state predicates (each one names a way the registry view can fail)
NoErrors(lt) == lt.err = 0                                             \* touch after destroy, double destroy, unconstructed
NoDeadHeld(ld) == ld = 0                                               \* every held instance is alive
NoSharing(cs) == Cardinality(HeldIds(cs)) = HeldCount(cs)              \* no instance is held by two entries / containers
Balance(cs, lt, ov) == /\ \A id \in HeldIds(cs) : id >= 1 /\ id <= lt.con
                       /\ Live(lt) = SumSeq(ov) + HeldCount(cs)        \* live = held (+ the containers' own members)
RegistryOK(cs, lt, ov, ld) == NoErrors(lt) /\ NoDeadHeld(ld) /\ NoSharing(cs) /\ Balance(cs, lt, ov)
RegistryWhy(cs, lt, ov, ld) ==
  IF ~NoErrors(lt) THEN "lifetime-error" ELSE IF ~NoDeadHeld(ld) THEN "destroyed-but-held"
  ELSE IF ~NoSharing(cs) THEN "shared-instance" ELSE IF ~Balance(cs, lt, ov) THEN "balance" ELSE ""

\* ---- step predicates.  pcs, plt, pov: world, counters and container overheads before the step
Monotone(plt, lt) == lt.con >= plt.con /\ lt.des >= plt.des /\ lt.cop >= plt.cop /\ lt.asg >= plt.asg /\ lt.err >= plt.err
FreshOnly(pcs, plt, cs) == \A id \in HeldIds(cs) \ HeldIds(pcs) : id > plt.con
ExactlyOnce(pcs, plt, pov, cs, lt, ov) ==
  LET born == lt.con - plt.con                                  \* constructions of this step
      died == lt.des - plt.des                                  \* destructions of this step
      new == Cardinality(HeldIds(cs) \ HeldIds(pcs))            \* instances that entered the holdings
      left == Cardinality(HeldIds(pcs) \ HeldIds(cs))           \* instances that left the holdings
      own == SumSeq(ov) - SumSeq(pov)                           \* container objects created / destroyed by the step
      temps == born - new - (IF own > 0 THEN own ELSE 0)        \* constructed and not kept: must die in the step
  IN /\ temps >= 0
     /\ died = left + temps + (IF own < 0 THEN -own ELSE 0)
KeysKept(pcs, cs) ==
  \A j \in 1..Len(pcs), j2 \in 1..Len(cs) : \A x \in 1..Len(pcs[j].ent), x2 \in 1..Len(cs[j2].ent) :
     pcs[j].ent[x].s = cs[j2].ent[x2].s => pcs[j].ent[x].ks = cs[j2].ent[x2].ks
StepOK(pcs, plt, pov, cs, lt, ov) ==
  Monotone(plt, lt) /\ FreshOnly(pcs, plt, cs) /\ ExactlyOnce(pcs, plt, pov, cs, lt, ov) /\ KeysKept(pcs, cs)
StepWhy(pcs, plt, pov, cs, lt, ov) ==
  IF ~Monotone(plt, lt) THEN "counters" ELSE IF ~FreshOnly(pcs, plt, cs) THEN "adopted-instance"
  ELSE IF ~ExactlyOnce(pcs, plt, pov, cs, lt, ov) THEN "exactly-once" ELSE IF ~KeysKept(pcs, cs) THEN "key-instance" ELSE ""

QuiescentOK(q) == q = 0
================================================================================
