SPECIFICATION ISpec
CONSTANTS MaxLen = 4
 Values = {1}
 MaxCap = 5
 MaxLen2 = 2
 CapArgs = {0, 2, 5}
 UVars = {1, 2}
 BVars = {1, 2}
 FillArgs = {}
INVARIANTS RefinementOK NoOverflow BlockOK
CONSTRAINT IBound
