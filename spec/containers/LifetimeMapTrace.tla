--------------------------- MODULE LifetimeMapTrace ---------------------------
(* Trace specification of properties C04 (Lifetime) and C05 (Stability) for nstd::Map / MultiMap: validates executions
   recorded from the real classes (harness/ordmap) against OrderedMap (whose Match demands identities: surviving
   elements keep their id, created ones are new) plus the ghost specifications Lifetime and Stability.
   Prop selects the property whose clauses are evaluated ("C04" | "C05").
   A projected entry is <<key, value, serial of the value instance, address id, serial of the key instance>>; the
   abstract state st of OrderedMap keeps key, value and id, the variable aux keeps key serial and address id alongside
   (same difference encoding pre / mid / suf).  Reasons of a <<"MISMATCH", line, why>>: see LifetimeSeqTrace.         *)
EXTENDS OrderedMap, Json, IOUtils
CONSTANT Prop
VARIABLES l, nbad, aux, plt, first
L == INSTANCE Lifetime
S == INSTANCE Stability
T == ndJsonDeserialize(IOEnv.TRACE)

AuxSeq(pm) == [i \in 1..Len(pm) |-> [ks |-> pm[i][5], a |-> pm[i][4]]]
AuxM(ax, e) == LET q == ax[e.c] IN SubSeq(q, 1, e.pre) \o AuxSeq(e.mid) \o SubSeq(q, Len(q) - e.suf + 1, Len(q))
AuxFrom(ax, e) == [j \in 1..NC |-> IF j = e.c THEN AuxM(ax, e)
                                   ELSE IF \E x \in 1..Len(e.ch) : e.ch[x][1] = j
                                        THEN AuxSeq(e.ch[CHOOSE x \in 1..Len(e.ch) : e.ch[x][1] = j][2]) ELSE ax[j]]
World(s, ax) == [j \in 1..NC |-> L!Holding(IF j <= 2 THEN "map" ELSE "multimap",
                   [x \in 1..Len(s[j]) |-> L!Entry(s[j][x].id, ax[j][x].ks, ax[j][x].a)])]
Aux0 == <<<<>>, <<>>, <<>>, <<>>>>
Lt0 == L!Lt(<<0, 0, 0, 0, 0>>)

\* the functional outcome o explains keys, values, sizes and results of the event (identities not compared)
KVSeq(q) == [i \in 1..Len(q) |-> <<q[i].k, q[i].v>>]
LooseMatch(o, e, obs) ==
  /\ Len(obs) = e.n
  /\ \A x \in 1..Len(e.ch) : KVSeq(ObsSeq(e.ch[x][2])) = KVSeq(o.m[e.ch[x][1]])
  /\ KVSeq(o.m[e.c]) = KVSeq(obs)
  /\ \A j \in 1..NC : e.size[j] = Len(o.m[j]) /\ e.empty[j] = (Len(o.m[j]) = 0)
  /\ e.r = (IF o.rp = NoIt THEN -2 ELSE IF o.rp = EndIt THEN -1 ELSE obs[o.rp].id)
  /\ e.rv = o.rv

Why(e) ==
  LET en == Enabled(e.op, st, e.c, e.k, e.v, e.p)
      obs == ObsM(st, e)
      outs == IF en THEN Step(e.op, st, e.c, e.k, e.v, e.p) ELSE {}
      loose == \E o \in outs : LooseMatch(o, e, obs)
      strict == \E o \in outs : Match(o, e, obs)
      ns == FromObs(st, e)
      pcs == World(st, aux)
      cs == World(ns, AuxFrom(aux, e))
      lt == L!Lt(e.lt)
      rw == L!RegistryWhy(cs, lt, e.ov, e.ld)
      sw == IF first THEN "" ELSE L!StepWhy(pcs, plt, e.ov, cs, lt, e.ov)
      aw == S!StableWhy(pcs, cs)
  IN IF ~loose THEN e.op
     ELSE IF ~strict THEN e.op \o ":identity"
     ELSE IF Prop = "C04" THEN
            IF rw # "" THEN e.op \o ":" \o rw
            ELSE IF sw # "" THEN e.op \o ":" \o sw
            ELSE IF e.op = "fini" /\ ~L!QuiescentOK(e.q) THEN e.op \o ":not-quiescent"
            ELSE ""
     ELSE   IF aw # "" THEN e.op \o ":" \o aw
            ELSE IF e.kept[2] # 0 THEN e.op \o ":iterator"
            ELSE ""

TInit == l = 1 /\ nbad = 0 /\ st = Init0 /\ last = <<"init", 0, 0, 0, 0, NoIt, NoVal>> /\ aux = Aux0 /\ plt = Lt0 /\ first = TRUE
TStep ==
  /\ l <= Len(T)
  /\ l' = l + 1
  /\ LET e == T[l] IN
     IF e.op = "reset" THEN st' = Init0 /\ aux' = Aux0 /\ plt' = Lt0 /\ first' = TRUE /\ UNCHANGED <<nbad, last>>
     ELSE LET why == Why(e)
          IN /\ last' = <<e.op, e.c, e.k, e.v, e.p, NoIt, NoVal>>
             /\ st' = FromObs(st, e) /\ aux' = AuxFrom(aux, e) /\ plt' = L!Lt(e.lt) /\ first' = FALSE
             /\ IF why = "" THEN UNCHANGED nbad
                ELSE PrintT(<<"MISMATCH", l, why>>) /\ nbad' = nbad + 1
TDone == l = Len(T) + 1 /\ PrintT(<<"TRACE-DONE", Len(T), nbad>>) /\ l' = l + 1 /\ UNCHANGED <<st, last, nbad, aux, plt, first>>
TNext == TStep \/ TDone
TSpec == TInit /\ [][TNext]_<<vars, l, nbad, aux, plt, first>>
TInv == (\A j \in 1..NC : Len(st[j]) = Len(aux[j])) /\ Prop \in {"C04", "C05"}
================================================================================
