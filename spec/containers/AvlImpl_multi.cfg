SPECIFICATION ISpec
CONSTANTS IKeys = {0, 1, 2}
 Multi = TRUE
 MaxN = 9
 OtherMax = 3
 OpSet = {"insert", "insertHint", "removeKey", "removeAt", "removeFront", "removeBack", "clear", "copy", "assign", "find", "contains", "count", "front", "back"}
 OrigFind = FALSE
 Keys = {}
 Vals = {}
 MaxLen = 0
 Cs = {}
INVARIANTS RefinementOK TreeOK ThreadOK BalanceOK ParentOK LookupOK
CONSTRAINT IBound
