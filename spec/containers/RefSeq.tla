-------------------------------- MODULE RefSeq --------------------------------
(* Layer 1 (property level) specification of nstd::List, nstd::Array and nstd::PoolList for property C03.

   Two container variables (index 1, 2).  Abstract state:
     kind[i] : "list" | "array" | "poollist"     (which class variable i currently is)
     c[i]    : the reference sequence of elements [v |-> value, id |-> identity of the stored instance]
   The id is what the harness can observe of an element's identity (the serial number of the stored instance);
   it is used to say which element a returned iterator / reference designates.  An operation's outcome gives the
   id Fresh to every instance it creates; the ids of an observed state are taken from the observation.

   Step(op, s, i, v, p, kd) = the set of allowed outcomes [kind, c, r, b] of one public operation on variable i:
     r : the position (1-based, in the new c[i]) of the element that the returned iterator/reference designates,
         EndPos for end(), NoRes when the operation returns nothing
     b : an integer result (equality 0/1), NoB when none
   An operation that the class of variable i does not offer (or whose documented precondition does not hold, e.g.
   removeFront on an empty list) has no outcome: Step = {}; the harness logs such a request as "nop".
   List::sort is specified by its postcondition only (SortPost): an ascending permutation of the previous contents.
   The same operators serve model checking (Next), the Layer-2 refinements (ArrayImpl, ListSortImpl) and trace
   validation (RefSeqTrace).                                                                                       *)
EXTENDS Integers, Sequences, FiniteSets, TLC

Other(i) == 3 - i
Fresh == 0
NoRes == -2
NoB == -2
EndPos == 0
Kinds == {"list", "array", "poollist"}

El(v, id) == [v |-> v, id |-> id]
ValsOf(q) == [k \in 1..Len(q) |-> q[k].v]
IdsOf(q) == [k \in 1..Len(q) |-> q[k].id]
FreshCopy(q) == [k \in 1..Len(q) |-> El(q[k].v, Fresh)]
Rep(x, n) == [k \in 1..n |-> x]
InsertSeq(q, p, x) == SubSeq(q, 1, p) \o x \o SubSeq(q, p + 1, Len(q))        \* x: a sequence, p in 0..Len(q)
RemoveAt(q, p) == SubSeq(q, 1, p - 1) \o SubSeq(q, p + 1, Len(q))             \* p in 1..Len(q)
FirstIdx(q, v) == IF \E k \in 1..Len(q) : q[k].v = v
                  THEN CHOOSE k \in 1..Len(q) : q[k].v = v /\ \A j \in 1..(k - 1) : q[j].v # v
                  ELSE 0
PosOrEnd(q, p) == IF p >= 1 /\ p <= Len(q) THEN p ELSE EndPos

\* ---- List::sort postcondition: ascending permutation (as a multiset of values) of the previous contents
Ascending(vs) == \A k \in 1..(Len(vs) - 1) : vs[k] <= vs[k + 1]
CountOf(vs, x) == Cardinality({k \in 1..Len(vs) : vs[k] = x})
SameBag(a, b) == Len(a) = Len(b) /\ \A k \in 1..Len(a) : CountOf(a, a[k]) = CountOf(b, a[k])
SortPost(before, after) == Ascending(after) /\ SameBag(before, after)

\* "load" is a harness macro: p calls of append() with the decimal digits of v (most significant first) as values
Pow10(n) == IF n = 0 THEN 1 ELSE IF n = 1 THEN 10 ELSE IF n = 2 THEN 100 ELSE IF n = 3 THEN 1000 ELSE IF n = 4 THEN 10000
            ELSE IF n = 5 THEN 100000 ELSE IF n = 6 THEN 1000000 ELSE IF n = 7 THEN 10000000 ELSE 100000000
Digit(v, p, k) == (v \div Pow10(p - k)) % 10
Out(s, i, q, r, b) == [kind |-> s.kind, c |-> [s.c EXCEPT ![i] = q], r |-> r, b |-> b]

Step(op, s, i, v, p, kd) ==
  LET q == s.c[i]  o == Other(i)  oq == s.c[o]  K == s.kind[i]  n == Len(q)
      same == s.kind[o] = K
      LA == K \in {"list", "array"}
  IN
  CASE op = "new" -> IF kd \in Kinds
                     THEN {[kind |-> [s.kind EXCEPT ![i] = kd], c |-> [s.c EXCEPT ![i] = <<>>], r |-> NoRes, b |-> NoB]}
                     ELSE {}
    \* ---- insertion
    [] op = "append" -> {Out(s, i, q \o <<El(v, Fresh)>>, n + 1, NoB)}                       \* returns T& of the new element
    [] op = "prepend" /\ K = "list" -> {Out(s, i, <<El(v, Fresh)>> \o q, 1, NoB)}
    [] op = "insert" /\ K = "list" /\ p \in 0..n -> {Out(s, i, InsertSeq(q, p, <<El(v, Fresh)>>), p + 1, NoB)}
    [] op = "load" /\ LA /\ p \in 0..9 /\ v >= 0 -> {Out(s, i, q \o [k \in 1..p |-> El(Digit(v, p, k), Fresh)], NoRes, NoB)}
    [] op = "appendn" /\ K = "array" /\ p >= 0 -> {Out(s, i, q \o Rep(El(v, Fresh), p), NoRes, NoB)}   \* append(const T*, n)
    [] op = "appendall" /\ LA /\ same -> {Out(s, i, q \o FreshCopy(oq), NoRes, NoB)}
    [] op = "prependall" /\ K = "list" /\ same -> {Out(s, i, FreshCopy(oq) \o q, NoRes, NoB)}
    [] op = "insertall" /\ K = "list" /\ same /\ p \in 0..n ->
         {Out(s, i, InsertSeq(q, p, FreshCopy(oq)), PosOrEnd(InsertSeq(q, p, FreshCopy(oq)), p + 1), NoB)}
    \* ---- removal
    [] op = "rmat" /\ p \in 0..(n - 1) -> {Out(s, i, RemoveAt(q, p + 1), PosOrEnd(RemoveAt(q, p + 1), p + 1), NoB)}
    [] op = "rmidx" /\ K = "array" /\ p >= 0 -> {Out(s, i, IF p < n THEN RemoveAt(q, p + 1) ELSE q, NoRes, NoB)}
    [] op = "rmval" /\ K = "list" -> {Out(s, i, IF FirstIdx(q, v) = 0 THEN q ELSE RemoveAt(q, FirstIdx(q, v)), NoRes, NoB)}
    [] op = "rmref" /\ K = "poollist" /\ p \in 0..(n - 1) -> {Out(s, i, RemoveAt(q, p + 1), NoRes, NoB)}
    [] op = "rmfront" /\ n > 0 -> {Out(s, i, Tail(q), PosOrEnd(Tail(q), 1), NoB)}
    [] op = "rmback" /\ n > 0 -> {Out(s, i, SubSeq(q, 1, n - 1), EndPos, NoB)}
    [] op = "clear" -> {Out(s, i, <<>>, NoRes, NoB)}
    \* ---- Array size management
    [] op = "resize" /\ K = "array" /\ p >= 0 ->
         {Out(s, i, IF p <= n THEN SubSeq(q, 1, p) ELSE q \o Rep(El(v, Fresh), p - n), NoRes, NoB)}
    [] op = "resized" /\ K = "array" /\ p >= 0 ->                                           \* resize(n): fill value T()
         {Out(s, i, IF p <= n THEN SubSeq(q, 1, p) ELSE q \o Rep(El(0, Fresh), p - n), NoRes, NoB)}
    [] op = "reserve" /\ K = "array" /\ p >= 0 -> {Out(s, i, q, NoRes, NoB)}
    \* ---- whole-container operations
    [] op = "swap" /\ same -> {[kind |-> s.kind, c |-> <<s.c[2], s.c[1]>>, r |-> NoRes, b |-> NoB]}
    [] op = "copy" /\ LA /\ same -> {Out(s, i, FreshCopy(oq), NoRes, NoB)}                   \* i := Class(other)
    [] op = "assign" /\ LA /\ same -> {Out(s, i, FreshCopy(oq), NoRes, NoB)}                 \* i = other
    [] op = "sort" /\ K = "list" -> {}                                                      \* specified by SortPost (see DoSort, SortMatch)
    \* ---- queries
    [] op = "find" /\ LA -> {Out(s, i, q, FirstIdx(q, v), NoB)}
    [] op = "front" /\ LA /\ n > 0 -> {Out(s, i, q, 1, NoB)}
    [] op = "back" /\ LA /\ n > 0 -> {Out(s, i, q, n, NoB)}
    [] op = "eq" /\ K = "list" /\ same -> {Out(s, i, q, NoRes, IF ValsOf(q) = ValsOf(oq) THEN 1 ELSE 0)}
    \* ---- operations whose argument is the container itself or one of its own elements (property C04 asks that they
    \*      behave as if the argument had been copied first); never generated by the C03 check
    [] op = "swapself" -> {Out(s, i, q, NoRes, NoB)}
    [] op = "assignself" /\ LA -> {Out(s, i, q, NoRes, NoB), Out(s, i, FreshCopy(q), NoRes, NoB)}      \* kept or re-created
    [] op = "appendself" /\ LA -> {Out(s, i, q \o FreshCopy(q), NoRes, NoB)}
    [] op = "prependself" /\ K = "list" -> {Out(s, i, FreshCopy(q) \o q, NoRes, NoB)}
    [] op = "insertself" /\ K = "list" /\ p \in 0..n ->
         {Out(s, i, InsertSeq(q, p, FreshCopy(q)), PosOrEnd(InsertSeq(q, p, FreshCopy(q)), p + 1), NoB)}
    [] op = "appendown" /\ LA /\ p \in 0..(n - 1) -> {Out(s, i, q \o <<El(q[p + 1].v, Fresh)>>, n + 1, NoB)}
    [] op = "insertown" /\ K = "list" /\ p \in 0..n /\ v \in 0..(n - 1) ->                   \* insert(pos p, own element v)
         {Out(s, i, InsertSeq(q, p, <<El(q[v + 1].v, Fresh)>>), p + 1, NoB)}
    [] op = "resizeown" /\ K = "array" /\ p >= 0 /\ v \in 0..(n - 1) ->                      \* resize(p, a[v])
         {Out(s, i, IF p <= n THEN SubSeq(q, 1, p) ELSE q \o Rep(El(q[v + 1].v, Fresh), p - n), NoRes, NoB)}
    [] op = "appendrange" /\ K = "array" /\ v >= 0 /\ p >= 0 /\ v + p <= n ->                \* append(&a[v], p): a range of its own elements
         {Out(s, i, q \o FreshCopy(SubSeq(q, v + 1, v + p)), NoRes, NoB)}
    \* sortbig: List<int>::sort on a separate list of p items in the order v (0 descending, 1 ascending, 2 saw-tooth), run by a
    \* thread with a small stack: b = 1 iff it returned an ascending permutation (all input orders, also long monotone ones)
    [] op = "sortbig" -> {Out(s, i, q, NoRes, 1)}
    \* poolsmall: PoolList / PoolMap of element types whose size is not a multiple of the pointer size (int, a 5 byte struct),
    \* p appends each, run beside the variables: b = 1 iff every value is still there, in order (the pool's item stride)
    [] op = "poolsmall" -> {Out(s, i, q, NoRes, 1)}
    [] op = "nop" -> {[kind |-> s.kind, c |-> s.c, r |-> NoRes, b |-> NoB]}
    \* both variables destroyed and recreated as empty lists (harness operation of the C04 check: lifetime balance)
    [] op = "fini" -> {[kind |-> <<"list", "list">>, c |-> << <<>>, <<>> >>, r |-> NoRes, b |-> NoB]}
    [] OTHER -> {}

\* ------------------------------------------------------------------------------------------------------------
\* Observations.  obs = [i, r, b, kind |-> <<k1,k2>>, c |-> <<elems1, elems2>>, sz, em, bk ...] where an observed element is
\* the tuple <<value, id, address id>>, sz[j] = size(), em[j] = isEmpty() (0/1), bk[j] = the ids met when iterating
\* backwards from end() (List/PoolList; for Array the same ids reversed), r = id of the element designated by the
\* returned iterator/reference, -1 for end(), -2 when nothing is returned.
ObsEl(x) == El(x[1], x[2])
ObsSeq(cs) == [k \in 1..Len(cs) |-> ObsEl(cs[k])]
Rev(q) == [k \in 1..Len(q) |-> q[Len(q) + 1 - k]]
AllIds(s) == {s.c[1][k].id : k \in 1..Len(s.c[1])} \cup {s.c[2][k].id : k \in 1..Len(s.c[2])}

\* shape of an observed state on its own: size/isEmpty/backward iteration agree with forward iteration, ids unique
ObsShapeOK(obs) ==
  /\ \A j \in 1..2 : LET q == ObsSeq(obs.c[j]) IN
       /\ obs.sz[j] = Len(q)
       /\ obs.em[j] = (IF Len(q) = 0 THEN 1 ELSE 0)
       /\ obs.bk[j] = Rev(IdsOf(q))
       /\ \A a, b2 \in 1..Len(q) : a # b2 => q[a].id # q[b2].id
  /\ \A a \in 1..Len(obs.c[1]), b2 \in 1..Len(obs.c[2]) : obs.c[1][a][2] # obs.c[2][b2][2]

ResultOK(o, obs) ==
  /\ obs.b = o.b
  /\ \/ o.r = NoRes /\ obs.r = -2
     \/ o.r = EndPos /\ obs.r = -1
     \/ o.r >= 1 /\ o.r <= Len(obs.c[obs.i]) /\ obs.r = obs.c[obs.i][o.r][2]

\* StrictIds (a constant of the trace module) additionally demands that surviving instances keep their identity and
\* created ones are new -- this is property C05/C04 material, not C03, so it is off in the C03 check.
SeqMatch(ref, got, strict, oldIds) ==
  /\ Len(ref) = Len(got)
  /\ \A k \in 1..Len(ref) :
       /\ ref[k].v = got[k].v
       /\ strict => IF ref[k].id = Fresh THEN got[k].id \notin oldIds ELSE got[k].id = ref[k].id

Match(o, obs, strict, oldIds) ==
  /\ obs.kind = o.kind
  /\ ObsShapeOK(obs)
  \* an Array may relocate its elements (fresh copies, C04) and shifts values on removal: identities are never demanded of it
  /\ \A j \in 1..2 : SeqMatch(o.c[j], ObsSeq(obs.c[j]), strict /\ o.kind[j] # "array", oldIds)
  /\ ResultOK(o, obs)

\* List::sort: the observation itself must be an ascending permutation (by value) of the previous contents, the other
\* variable is untouched
SortMatch(s, obs, strict) ==
  /\ s.kind[obs.i] = "list" /\ obs.kind = s.kind
  /\ ObsShapeOK(obs)
  /\ SortPost(ValsOf(s.c[obs.i]), ValsOf(ObsSeq(obs.c[obs.i])))
  /\ SeqMatch(s.c[Other(obs.i)], ObsSeq(obs.c[Other(obs.i)]), strict, {})
  /\ obs.r = -2 /\ obs.b = NoB

Concrete(obs) == [kind |-> obs.kind, c |-> <<ObsSeq(obs.c[1]), ObsSeq(obs.c[2])>>]
Init0 == [kind |-> <<"list", "list">>, c |-> << <<>>, <<>> >>]

--------------------------------------------------------------------------------
\* Stand-alone bounded model of the reference (ids are not tracked here: every id is Fresh).
CONSTANTS MaxLen, Values
VARIABLES st, last
vars == <<st, last>>
StOf(o) == [kind |-> o.kind, c |-> <<FreshCopy(o.c[1]), FreshCopy(o.c[2])>>]
BSeqs == UNION { [1..k -> Values] : k \in 0..MaxLen }
Do(op, i, v, p, kd) == /\ \E o \in Step(op, st, i, v, p, kd) : st' = StOf(o) /\ last' = <<op, i, v, p, o.r, o.b>>
DoSort(i) == /\ st.kind[i] = "list"
             /\ \E t \in BSeqs : /\ SortPost(ValsOf(st.c[i]), t)
                                 /\ st' = [st EXCEPT !.c[i] = [k \in 1..Len(t) |-> El(t[k], Fresh)]]
             /\ last' = <<"sort", i, 0, 0, NoRes, NoB>>
Init == st = Init0 /\ last = <<"init", 0, 0, 0, NoRes, NoB>>
Ops0 == {"clear", "swap", "copy", "assign", "rmfront", "rmback", "appendall", "prependall", "front", "back", "eq",
         "swapself", "assignself", "appendself", "prependself"}
OpsV == {"append", "prepend", "rmval", "find"}
OpsP == {"rmat", "rmidx", "rmref", "resized", "reserve", "insertall", "appendown", "insertself"}
OpsVP == {"insert", "resize", "appendn"}
Next == \E i \in 1..2 :
          \/ \E kd \in Kinds : Do("new", i, 0, 0, kd)
          \/ \E op \in Ops0 : Do(op, i, 0, 0, "")
          \/ \E op \in OpsV, v \in Values : Do(op, i, v, 0, "")
          \/ \E op \in OpsP, p \in 0..MaxLen : Do(op, i, 0, p, "")
          \/ \E op \in OpsVP, v \in Values, p \in 0..MaxLen : Do(op, i, v, p, "")
          \/ \E op \in {"insertown", "resizeown", "appendrange"}, v \in 0..MaxLen, p \in 0..MaxLen : Do(op, i, v, p, "")
          \/ DoSort(i)
Spec == Init /\ [][Next]_vars
ViewSt == st        \* `last` only records the transition just taken: states are identified by st (cfg: VIEW ViewSt)
Bound == \A i \in 1..2 : Len(st.c[i]) <= MaxLen

TypeOK == /\ \A i \in 1..2 : st.kind[i] \in Kinds
          /\ \A i \in 1..2 : \A k \in 1..Len(st.c[i]) : st.c[i][k].v \in Values \cup {0}
\* sanity of the reference itself
AppendIsLast == [][\A i \in 1..2 : (last'[1] = "append" /\ last'[2] = i) =>
                    /\ Len(st'.c[i]) = Len(st.c[i]) + 1 /\ st'.c[i][Len(st'.c[i])].v = last'[3]
                    /\ last'[5] = Len(st'.c[i])]_vars
SortSorts == [][\A i \in 1..2 : (last'[1] = "sort" /\ last'[2] = i) =>
                    /\ Ascending(ValsOf(st'.c[i])) /\ Len(st'.c[i]) = Len(st.c[i])
                    /\ st'.c[Other(i)] = st.c[Other(i)]]_vars
RemoveSucc == [][\A i \in 1..2 : (last'[1] = "rmat" /\ last'[2] = i) =>
                    /\ Len(st'.c[i]) = Len(st.c[i]) - 1
                    /\ (last'[5] # EndPos => st'.c[i][last'[5]] = st.c[i][last'[4] + 2])]_vars
================================================================================
