SPECIFICATION SSpec
CONSTANTS MaxLen = 6
 Values = {1, 2, 3}
INVARIANTS PostOK ScanInRange CallsOK BagKept Terminates
