SPECIFICATION SSpec
CONSTANTS BoundedDepth = TRUE
 MaxLen = 6
 Values = {1, 2, 3}
INVARIANTS DepthLog PostOK ScanInRange CallsOK BagKept Terminates
