SPECIFICATION Spec
CONSTANTS Keys = {1, 2}
 Vals = {1}
INVARIANT TypeOK
PROPERTIES PresentKeyKeepsPosition FindAfterInsert
VIEW ViewSt
