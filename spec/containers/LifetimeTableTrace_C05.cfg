SPECIFICATION TSpec
CONSTANTS Keys = {}
 Vals = {}
 Prop = "C05"
INVARIANT TInv
