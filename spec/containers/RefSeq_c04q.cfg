SPECIFICATION Spec
CONSTANTS MaxLen = 2
 Values = {1}
INVARIANT TypeOK
PROPERTIES AppendIsLast SortSorts RemoveSucc
CONSTRAINT Bound
VIEW ViewSt
