SPECIFICATION Spec
CONSTANTS MaxSerial = 10
 MaxLen = 2
 Kinds = {"list", "array", "poollist", "hashmap"}
 Bug = "none"
INVARIANTS RegistryInv QuiescentInv
PROPERTIES StepProp StableProp InPlaceProp IdentityProp
CONSTRAINT Bound
VIEW Canon
