SPECIFICATION Spec
CONSTANTS Keys = {1, 2}
 Vals = {0}
 MaxLen = 2
 Cs = {1, 2}
INVARIANT TypeOK
PROPERTIES OrderKept InsertionOrder QueriesOK
CONSTRAINT Bound
VIEW ViewKV
