----------------------------- MODULE ListSortImpl -----------------------------
(* Layer 2 model of List<T>::sort (include/nstd/List.hpp), the in-place quicksort over the list nodes, transcribed
   statement by statement.  The nodes of the list are 1..n in link order (sort never relinks, it swaps the values
   of nodes), node k's next is k + 1, the node after the last one is the end sentinel n + 1.

     void sort() { if(endItem.prev == 0 || _begin.item == endItem.prev) return;  QuickSort::sort(_begin.item, endItem.prev); }
     static void sort(Item* left, Item* right, usize count) {          // count = items in [left, right]
       for(;;) {
         Item* ptr0, * ptr1, * ptr2;  ptr0 = ptr1 = ptr2 = left;  const T& pivot = left->value;  usize lessCount = 0;
         do { ptr2 = ptr2->next;
              if(ptr2->value < pivot) { ptr0 = ptr1; ptr1 = ptr1->next; swap(ptr1, ptr2); ++lessCount; }
         } while(ptr2 != right);
         swap(left, ptr1);
         if(ptr1 != right) ptr1 = ptr1->next;
         usize greaterCount = count - 1 - lessCount;
         if(lessCount < greaterCount) { if(lessCount > 1) sort(left, ptr0, lessCount);       // the smaller part recursively,
                                        if(greaterCount <= 1) return;  left = ptr1; count = greaterCount; }   // the larger in the loop
         else { if(greaterCount > 1) sort(ptr1, right, greaterCount);
                if(lessCount <= 1) return;  right = ptr0; count = lessCount; } } }
   (BoundedDepth = FALSE is the code as it was: both parts sorted by recursive calls, left part first - one stack frame per
   item on a descending list, a stack overflow at about 20000 items in a thread with a small stack.)

   The recursion is an explicit stack of pending (left, right) calls (the first recursive call runs to completion
   before the second starts, as in the code).  Every initial state is one input sequence; TLC explores ALL inputs up
   to the bounds and checks (a) the Layer-1 postcondition SortPost of RefSeq when the sort has returned, (b) the scan
   pointer never leaves [left, right] (it would read the end sentinel), every recursive call gets at least two
   nodes, (c) termination within a quadratic number of steps.                                                     *)
EXTENDS RefSeq
CONSTANT BoundedDepth      \* TRUE: the repaired code (larger part in the loop); FALSE: the code as found
VARIABLES inp, vals, stack, pc, left, right, p0, p1, p2, steps, dep, maxdep
\* stack: pending calls <<left, right, recursion depth of the frame that will run it>>; dep: depth of the running frame
svars == <<inp, vals, stack, pc, left, right, p0, p1, p2, steps, dep, maxdep, st, last>>

N == Len(inp)
SwapV(f, a, b) == [f EXCEPT ![a] = f[b], ![b] = f[a]]

SInit == /\ inp \in BSeqs /\ vals = inp /\ stack = <<>> /\ pc = "start" /\ left = 0 /\ right = 0
         /\ p0 = 0 /\ p1 = 0 /\ p2 = 0 /\ steps = 0 /\ dep = 0 /\ maxdep = 0
         /\ st = [kind |-> <<"list", "list">>, c |-> <<[k \in 1..Len(inp) |-> El(inp[k], Fresh)], <<>> >>]
         /\ last = <<"sort", 1, 0, 0, NoRes, NoB>>

Start == /\ pc = "start"
         /\ IF N <= 1 THEN pc' = "done" /\ stack' = <<>>                       \* empty or one element: return
            ELSE pc' = "call" /\ stack' = << <<1, N, 1>> >>
         /\ UNCHANGED <<vals, left, right, p0, p1, p2, dep, maxdep>>
Call == /\ pc = "call"
        /\ left' = stack[1][1] /\ right' = stack[1][2] /\ stack' = Tail(stack)
        /\ p0' = stack[1][1] /\ p1' = stack[1][1] /\ p2' = stack[1][1]
        /\ dep' = stack[1][3] /\ maxdep' = IF stack[1][3] > maxdep THEN stack[1][3] ELSE maxdep
        /\ pc' = "loop" /\ UNCHANGED vals
Loop == /\ pc = "loop"
        /\ LET q2 == p2 + 1 IN                                                 \* ptr2 = ptr2->next
           /\ p2' = q2
           /\ IF q2 <= N /\ vals[q2] < vals[left]                              \* ptr2->value < pivot
              THEN p0' = p1 /\ p1' = p1 + 1 /\ vals' = SwapV(vals, p1 + 1, q2)
              ELSE UNCHANGED <<p0, p1, vals>>
           /\ pc' = IF q2 = right THEN "post" ELSE "loop"
        /\ UNCHANGED <<stack, left, right, dep, maxdep>>
Post == /\ pc = "post"
        /\ vals' = SwapV(vals, left, p1)
        /\ LET q1 == IF p1 # right THEN p1 + 1 ELSE p1
               less == p1 - left                                 \* lessCount: the pivot ended up at p1
               greater == right - p1
               \* a part of two or more items is sorted: by a recursive call (depth + 1) or by the next round of the loop (same frame)
               lrec == BoundedDepth => less < greater            \* the left part is the one handed to a recursive call
               fl == IF less > 1 THEN << <<left, p0, IF lrec THEN dep + 1 ELSE dep>> >> ELSE <<>>
               fr == IF greater > 1 THEN << <<q1, right, IF BoundedDepth /\ lrec THEN dep ELSE dep + 1>> >> ELSE <<>>
               pend == IF lrec THEN fl \o fr ELSE fr \o fl         \* the recursive call runs to completion first
           IN /\ p1' = q1
              /\ stack' = pend \o stack
              /\ pc' = IF pend \o stack = <<>> THEN "done" ELSE "call"
        /\ UNCHANGED <<left, right, p0, p2, dep, maxdep>>
SNext == /\ (Start \/ Call \/ Loop \/ Post)
         /\ steps' = steps + 1 /\ UNCHANGED <<inp, st, last>>
SSpec == SInit /\ [][SNext]_svars

\* ---- properties
PostOK == pc = "done" => SortPost(ValsOf(st.c[1]), vals)                       \* the Layer-1 postcondition
ScanInRange == /\ pc = "loop" => (1 <= left /\ left <= p0 /\ p0 <= p1 /\ p1 <= p2 /\ p2 < right /\ right <= N)
               /\ pc = "post" => (left <= p0 /\ p0 <= p1 /\ p1 <= p2 /\ p2 = right)
CallsOK == \A k \in 1..Len(stack) : 1 <= stack[k][1] /\ stack[k][1] < stack[k][2] /\ stack[k][2] <= N
BagKept == SameBag(inp, vals)                                                  \* values are only ever swapped
Terminates == steps <= 2 + 2 * N + N * N
\* the recursion is never deeper than log2 of the length (+ 1): Log2Floor by repeated halving
RECURSIVE Log2F(_)
Log2F(n) == IF n <= 1 THEN 0 ELSE 1 + Log2F(n \div 2)
DepthLog == maxdep <= Log2F(N) + 1
================================================================================
