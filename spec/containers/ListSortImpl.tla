----------------------------- MODULE ListSortImpl -----------------------------
(* Layer 2 model of List<T>::sort (include/nstd/List.hpp), the in-place quicksort over the list nodes, transcribed
   statement by statement.  The nodes of the list are 1..n in link order (sort never relinks, it swaps the values
   of nodes), node k's next is k + 1, the node after the last one is the end sentinel n + 1.

     void sort() { if(endItem.prev == 0 || _begin.item == endItem.prev) return;  QuickSort::sort(_begin.item, endItem.prev); }
     static void sort(Item* left, Item* right) {
       Item* ptr0, * ptr1, * ptr2;  ptr0 = ptr1 = ptr2 = left;  const T& pivot = left->value;
       do { ptr2 = ptr2->next;
            if(ptr2->value < pivot) { ptr0 = ptr1; ptr1 = ptr1->next; swap(ptr1, ptr2); }
       } while(ptr2 != right);
       swap(left, ptr1);
       if(ptr1 != right) ptr1 = ptr1->next;
       if(left != ptr0) sort(left, ptr0);
       if(ptr1 != right) sort(ptr1, right); }

   The recursion is an explicit stack of pending (left, right) calls (the first recursive call runs to completion
   before the second starts, as in the code).  Every initial state is one input sequence; TLC explores ALL inputs up
   to the bounds and checks (a) the Layer-1 postcondition SortPost of RefSeq when the sort has returned, (b) the scan
   pointer never leaves [left, right] (it would read the end sentinel), every recursive call gets at least two
   nodes, (c) termination within a quadratic number of steps.                                                     *)
EXTENDS RefSeq
VARIABLES inp, vals, stack, pc, left, right, p0, p1, p2, steps
svars == <<inp, vals, stack, pc, left, right, p0, p1, p2, steps, st, last>>

N == Len(inp)
SwapV(f, a, b) == [f EXCEPT ![a] = f[b], ![b] = f[a]]

SInit == /\ inp \in BSeqs /\ vals = inp /\ stack = <<>> /\ pc = "start" /\ left = 0 /\ right = 0
         /\ p0 = 0 /\ p1 = 0 /\ p2 = 0 /\ steps = 0
         /\ st = [kind |-> <<"list", "list">>, c |-> <<[k \in 1..Len(inp) |-> El(inp[k], Fresh)], <<>> >>]
         /\ last = <<"sort", 1, 0, 0, NoRes, NoB>>

Start == /\ pc = "start"
         /\ IF N <= 1 THEN pc' = "done" /\ stack' = <<>>                       \* empty or one element: return
            ELSE pc' = "call" /\ stack' = << <<1, N>> >>
         /\ UNCHANGED <<vals, left, right, p0, p1, p2>>
Call == /\ pc = "call"
        /\ left' = stack[1][1] /\ right' = stack[1][2] /\ stack' = Tail(stack)
        /\ p0' = stack[1][1] /\ p1' = stack[1][1] /\ p2' = stack[1][1]
        /\ pc' = "loop" /\ UNCHANGED vals
Loop == /\ pc = "loop"
        /\ LET q2 == p2 + 1 IN                                                 \* ptr2 = ptr2->next
           /\ p2' = q2
           /\ IF q2 <= N /\ vals[q2] < vals[left]                              \* ptr2->value < pivot
              THEN p0' = p1 /\ p1' = p1 + 1 /\ vals' = SwapV(vals, p1 + 1, q2)
              ELSE UNCHANGED <<p0, p1, vals>>
           /\ pc' = IF q2 = right THEN "post" ELSE "loop"
        /\ UNCHANGED <<stack, left, right>>
Post == /\ pc = "post"
        /\ vals' = SwapV(vals, left, p1)
        /\ LET q1 == IF p1 # right THEN p1 + 1 ELSE p1
               fl == IF left # p0 THEN << <<left, p0>> >> ELSE <<>>
               fr == IF q1 # right THEN << <<q1, right>> >> ELSE <<>>
           IN /\ p1' = q1
              /\ stack' = fl \o fr \o stack
              /\ pc' = IF fl \o fr \o stack = <<>> THEN "done" ELSE "call"
        /\ UNCHANGED <<left, right, p0, p2>>
SNext == /\ (Start \/ Call \/ Loop \/ Post)
         /\ steps' = steps + 1 /\ UNCHANGED <<inp, st, last>>
SSpec == SInit /\ [][SNext]_svars

\* ---- properties
PostOK == pc = "done" => SortPost(ValsOf(st.c[1]), vals)                       \* the Layer-1 postcondition
ScanInRange == /\ pc = "loop" => (1 <= left /\ left <= p0 /\ p0 <= p1 /\ p1 <= p2 /\ p2 < right /\ right <= N)
               /\ pc = "post" => (left <= p0 /\ p0 <= p1 /\ p1 <= p2 /\ p2 = right)
CallsOK == \A k \in 1..Len(stack) : 1 <= stack[k][1] /\ stack[k][1] < stack[k][2] /\ stack[k][2] <= N
BagKept == SameBag(inp, vals)                                                  \* values are only ever swapped
Terminates == steps <= 2 + 2 * N + N * N
================================================================================
