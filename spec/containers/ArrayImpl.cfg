SPECIFICATION ISpec
CONSTANTS MaxLen = 5
 Values = {1, 2}
 MaxCap = 8
 MaxLen2 = 0
 CapArgs = {0, 1, 2, 3, 4, 5, 6, 7, 8}
 UVars = {1}
 BVars = {}
 FillArgs = {0, 1, 2, 5}
INVARIANTS RefinementOK NoOverflow BlockOK
CONSTRAINT IBound
