SPECIFICATION SSpec
CONSTANTS MaxLen = 7
 Values = {1, 2, 3, 4}
INVARIANTS PostOK ScanInRange CallsOK BagKept Terminates
