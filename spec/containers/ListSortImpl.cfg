SPECIFICATION SSpec
CONSTANTS BoundedDepth = TRUE
 MaxLen = 7
 Values = {1, 2, 3, 4}
INVARIANTS DepthLog PostOK ScanInRange CallsOK BagKept Terminates
