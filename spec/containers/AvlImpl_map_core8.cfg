SPECIFICATION ISpec
CONSTANTS IKeys = {1, 2, 3, 4, 5, 6, 7, 8}
 Multi = FALSE
 MaxN = 8
 OtherMax = 2
 OpSet = {"insert", "insertHint", "removeKey", "removeAt", "removeFront", "removeBack", "clear"}
 OrigFind = FALSE
 Keys = {}
 Vals = {}
 MaxLen = 0
 Cs = {}
INVARIANTS RefinementOK TreeOK ThreadOK BalanceOK ParentOK LookupOK
CONSTRAINT IBound
