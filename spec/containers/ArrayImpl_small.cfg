SPECIFICATION ISpec
CONSTANTS MaxLen = 4
 Values = {1, 2}
 MaxCap = 5
 MaxLen2 = 0
 CapArgs = {0, 2, 4, 5}
 UVars = {1}
 BVars = {}
 FillArgs = {0, 2}
INVARIANTS RefinementOK NoOverflow BlockOK
CONSTRAINT IBound
