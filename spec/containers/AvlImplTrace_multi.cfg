SPECIFICATION XSpec
CONSTANTS IKeys = {}
 Multi = TRUE
 MaxN = 0
 OtherMax = 0
 OpSet = {}
 OrigFind = FALSE
 Keys = {}
 Vals = {}
 MaxLen = 0
 Cs = {}
