---------------------------- MODULE OrderedMapTrace ----------------------------
(* Trace specification: validates executions recorded from the real nstd::Map / nstd::MultiMap (harness/ordmap)
   against OrderedMap.  Every event carries the operation, its arguments, the returned iterator / number, the
   projection of the container operated on, the projections of all other containers that changed, sizes, the result of
   find() for every present key and the comparison counts.
   An event that OrderedMap does not allow is reported as <<"MISMATCH", line, why>> and the abstract state is
   re-synchronised from the observation so that the rest of the trace is still checked.
     why = the operation name when no allowed outcome explains projection / returned iterator / number / sizes,
           "<op>:find"   when find() of a present key designates a wrong element,
           "<op>:bound"  when a lookup used more than 2*floor(1.4405*log2(n+2)) key comparisons,
           "<op>:bwd"    when backward iteration is not the reverse of forward iteration.                           *)
EXTENDS OrderedMap, Json, IOUtils
VARIABLES l, nbad
T == ndJsonDeserialize(IOEnv.TRACE)

TInit == l = 1 /\ nbad = 0 /\ st = Init0 /\ last = <<"init", 0, 0, 0, 0, NoIt, NoVal>>
TStep ==
  /\ l <= Len(T)
  /\ l' = l + 1
  /\ LET e == T[l] IN
     IF e.op = "reset" THEN st' = Init0 /\ UNCHANGED <<nbad, last>>
     ELSE LET en == Enabled(e.op, st, e.c, e.k, e.v, e.p)
              obs == ObsM(st, e)
              allowed == IF en THEN { o \in Step(e.op, st, e.c, e.k, e.v, e.p) : Match(o, e, obs) } ELSE {}
              npre == Len(st[e.c])
              why == IF allowed = {} THEN e.op
                     ELSE IF ~e.bwd THEN e.op \o ":bwd"
                     ELSE IF ~FindAllOK(e, obs) THEN e.op \o ":find"
                     ELSE IF ~BoundOK(e, npre) THEN e.op \o ":bound" ELSE ""
          IN /\ last' = <<e.op, e.c, e.k, e.v, e.p, NoIt, NoVal>>
             /\ IF why = ""
                THEN st' = Concrete(CHOOSE o \in allowed : TRUE, e, obs) /\ UNCHANGED nbad
                ELSE /\ PrintT(<<"MISMATCH", l, why>>)
                     /\ st' = FromObs(st, e) /\ nbad' = nbad + 1
TDone == l = Len(T) + 1 /\ PrintT(<<"TRACE-DONE", Len(T), nbad>>) /\ l' = l + 1 /\ UNCHANGED <<st, last, nbad>>
TNext == TStep \/ TDone
TSpec == TInit /\ [][TNext]_<<vars, l, nbad>>
\* evaluated on every state the implementation was observed in and that the reference accepted: it follows from
\* Step (checked by the stand-alone model), so a failure here means the check is broken, not the library
TInv == nbad = 0 => (SortedOK(st) /\ IdsOK(st))
================================================================================
