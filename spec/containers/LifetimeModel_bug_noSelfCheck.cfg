SPECIFICATION Spec
CONSTANTS MaxSerial = 16
 MaxLen = 3
 Kinds = {"list", "array", "poollist", "hashmap"}
 Bug = "noSelfCheck"
INVARIANTS RegistryInv QuiescentInv
PROPERTIES StepProp StableProp InPlaceProp IdentityProp
CONSTRAINT Bound
VIEW Canon
