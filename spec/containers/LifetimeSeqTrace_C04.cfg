SPECIFICATION TSpec
CONSTANTS MaxLen = 0
 Values = {}
 Prop = "C04"
INVARIANT TInv
