------------------------------- MODULE Stability -------------------------------
(* Property C05, Layer 1 (property level): elements of node and pool containers never move while they live.

   Ghost specification over the same worlds as Lifetime (holdings with entries [s, ks, a]): a is the address id of the
   stored element instance s (addresses are abstracted by the harness to small integers in first-seen order, so equal ids
   mean equal addresses; a freed node may be reused, so a NEW element may get the address a dead one had).

     AddrStable    while an instance lives -- it is held before and after the step, by whatever container -- its address
                   does not change.  Holders: the functional specification run with strict identities says which
                   container holds which instance after the step (unchanged, except that swap hands all elements of one
                   variable over to the other); together: swap exchanges holders without relocating anything.
     AddrDistinct  two live elements never share an address
     ItersOK       every iterator (and element reference) obtained when an element was inserted, dereferenced now,
                   designates the same instance at the same address (kept only while that element lives)
     InPlaceOK     PoolList / PoolMap construct each element in place and never copy or move it afterwards: an operation
                   on a pool container performs no copy assignment and no copy construction, except the one copy of the
                   key argument into each NEW PoolMap entry
   Array is excluded: its elements may be relocated (Lifetime says how).                                                *)
EXTENDS Integers, Sequences, FiniteSets

NodeKind(kind) == kind # "array"
PoolKind(kind) == kind \in {"poollist", "poolmap"}
\* <<serial, address id>> of every element held by a node / pool container
AddrOf(cs) == UNION {IF NodeKind(cs[j].kind) THEN {<<cs[j].ent[x].s, cs[j].ent[x].a>> : x \in 1..Len(cs[j].ent)} ELSE {}
                     : j \in 1..Len(cs)}
AddrStable(pcs, cs) == LET A == AddrOf(pcs)  B == AddrOf(cs) IN \A p \in A : \A q \in B : p[1] = q[1] => p[2] = q[2]
AddrDistinct(cs) == LET B == AddrOf(cs) IN \A p \in B : \A q \in B : p[2] = q[2] => p[1] = q[1]
\* its: tuples <<serial at insertion, serial designated now, 1 if the address is unchanged>>
ItersOK(its) == \A x \in 1..Len(its) : its[x][1] = its[x][2] /\ its[x][3] = 1
\* an operation on a pool container of class kind that created newEntries entries; cop/asg: copy counters before and after
InPlaceOK(kind, newEntries, pcop, pasg, cop, asg) ==
  /\ asg = pasg
  /\ cop - pcop = (IF kind = "poolmap" THEN newEntries ELSE 0)
StableWhy(pcs, cs) == IF ~AddrStable(pcs, cs) THEN "address" ELSE IF ~AddrDistinct(cs) THEN "address-shared" ELSE ""
================================================================================
