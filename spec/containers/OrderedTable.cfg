SPECIFICATION Spec
CONSTANTS Keys = {1, 2, 3}
 Vals = {1, 2}
INVARIANT TypeOK
PROPERTIES PresentKeyKeepsPosition FindAfterInsert
VIEW ViewSt
