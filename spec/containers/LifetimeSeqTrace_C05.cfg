SPECIFICATION TSpec
CONSTANTS MaxLen = 0
 Values = {}
 Prop = "C05"
INVARIANT TInv
