SPECIFICATION Spec
CONSTANTS MaxLen = 3
 Values = {1, 2}
INVARIANT TypeOK
PROPERTIES AppendIsLast SortSorts RemoveSucc
CONSTRAINT Bound
VIEW ViewSt
