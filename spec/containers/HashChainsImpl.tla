---------------------------- MODULE HashChainsImpl ----------------------------
(* Layer 2 (implementation shaped) model of nstd::HashMap (include/nstd/HashMap.hpp; HashSet.hpp and PoolMap.hpp share
   the structure and differ only where noted), transcribed operation by operation:

     capacity, data      bucket array, allocated lazily by the first real insertion (don), data[b] = head of chain b
     Item                key, value, cell (back-pointer: the cell that refers to this item = &data[b] or
                         &predecessor->nextCell), nextCell (chain link), prev / next (insertion-order list)
     _begin, endItem     order list: first.prev = null, last.next = &endItem, endItem.prev = last or null when empty
     freeItem, blocks    destroyed items are recycled through a list linked by prev; items come in blocks of 4

   Pointers:  item ids are positive integers, Null = 0, &endItem of variable i is -i.
              a cell pointer is  -(b+1) for &data[b]   or   the id of the item whose nextCell field it is.
   Two container variables of one class (constant Kind); each owns a "store" (its blocks), swap() exchanges the
   stores.  The ghost variable st is the Layer-1 reference (OrderedTable) advanced by the same operation: TLC checks
   refinement and the structural invariants after every step, for every capacity in CapArgs (capacity 1: all keys
   collide).  hash(key) = key (the harness key type hashes to its value).                                        *)
EXTENDS OrderedTable
CONSTANTS Kind, CapArgs, MaxBlocks, UVars, BVars, OpSet
VARIABLES hp, refOK
ivars == <<hp, refOK, st, last>>

Null == 0
M == 4 * MaxBlocks                                   \* item slots per store
EndOf(i) == -i
DefaultCap == 500
Buckets(cap) == {k % cap : k \in Keys}               \* only the buckets the model's keys can reach are represented
Item0 == [key |-> 0, val |-> 0, cell |-> 0, nextCell |-> 0, prev |-> 0, next |-> 0, live |-> FALSE]
Ctn0(i, cap, store) == [cap |-> cap, don |-> FALSE, data |-> [b \in Buckets(cap) |-> Null], begin |-> EndOf(i),
                        eprev |-> Null, size |-> 0, free |-> Null, nb |-> 0, store |-> store]
StoreItems(s) == ((s - 1) * M + 1)..(s * M)

\* ---- pointer helpers (H = [c |-> <<ctn1, ctn2>>, it |-> items])
PrevOf(H, x) == IF x < 0 THEN H.c[-x].eprev ELSE H.it[x].prev
SetPrev(H, x, y) == IF x < 0 THEN [H EXCEPT !.c[-x].eprev = y] ELSE [H EXCEPT !.it[x].prev = y]
StoreCell(H, i, cell, x) == IF cell < 0 THEN [H EXCEPT !.c[i].data[-cell - 1] = x] ELSE [H EXCEPT !.it[cell].nextCell = x]

RECURSIVE ChainFind(_, _, _, _)
ChainFind(it, x, key, e) == IF x = Null THEN e ELSE IF it[x].key = key THEN x ELSE ChainFind(it, it[x].nextCell, key, e)
\* ---- find(key)
Find(H, i, key) ==
  IF ~H.c[i].don THEN EndOf(i)
  ELSE ChainFind(H.it, H.c[i].data[key % H.c[i].cap], key, EndOf(i))

\* the order list from item x on (fuel guards against cycles in broken states)
RECURSIVE Walk(_, _, _)
Walk(it, x, fuel) == IF x <= 0 \/ fuel = 0 THEN <<>> ELSE <<x>> \o Walk(it, it[x].next, fuel - 1)
Order(H, i) == Walk(H.it, H.c[i].begin, 2 * M + 1)
ItemAt(H, i, p) == LET o == Order(H, i) IN IF p + 1 <= Len(o) THEN o[p + 1] ELSE EndOf(i)      \* begin() advanced p times
PosOf(H, i, x) == LET o == Order(H, i) IN IF \E j \in 1..Len(o) : o[j] = x THEN CHOOSE j \in 1..Len(o) : o[j] = x ELSE EndPos

\* ---- taking an item: from the free list, else a new block of 4
\*      HashMap/HashSet: the block's first item is used, the other three are pushed on the free list;
\*      PoolMap: all four are pushed (freeItem = the last one) and the head is taken after construction
AllocItem(H, i) ==
  LET c == H.c[i] IN
  IF c.free # Null THEN [h |-> [H EXCEPT !.c[i].free = H.it[c.free].prev], item |-> c.free]
  ELSE LET base == (c.store - 1) * M + c.nb * 4 IN
       IF Kind = "poolmap"
       THEN [h |-> [H EXCEPT !.it[base + 1].prev = Null, !.it[base + 2].prev = base + 1, !.it[base + 3].prev = base + 2,
                             !.it[base + 4].prev = base + 3, !.c[i].free = base + 3, !.c[i].nb = @ + 1],
             item |-> base + 4]
       ELSE [h |-> [H EXCEPT !.it[base + 2].prev = Null, !.it[base + 3].prev = base + 2, !.it[base + 4].prev = base + 3,
                             !.c[i].free = base + 4, !.c[i].nb = @ + 1],
             item |-> base + 1]

\* ---- insert(position, key, value) when the key is absent
InsertNew(H0, i, pos, key, val) ==
  LET H1 == [H0 EXCEPT !.c[i].don = TRUE]                                       \* data allocated and zeroed on first use
      A == AllocItem(H1, i)
      item == A.item
      H2 == [A.h EXCEPT !.it[item].key = key, !.it[item].val = val, !.it[item].live = TRUE]   \* new(item) Item(key, value)
      b == key % H2.c[i].cap
      old == H2.c[i].data[b]
      H3 == [H2 EXCEPT !.it[item].cell = -(b + 1), !.it[item].nextCell = old]   \* item->cell = &data[b]; item->nextCell = *cell
      H4 == IF old # Null THEN [H3 EXCEPT !.it[old].cell = item] ELSE H3        \* item->nextCell->cell = &item->nextCell
      H5 == [H4 EXCEPT !.c[i].data[b] = item]                                   \* *cell = item
      pp == PrevOf(H5, pos)
      H6 == [H5 EXCEPT !.it[item].prev = pp]                                    \* if((item->prev = insertPos->prev))
      H7 == IF pp # Null THEN [H6 EXCEPT !.it[pp].next = item] ELSE [H6 EXCEPT !.c[i].begin = item]
      H8 == [H7 EXCEPT !.it[item].next = pos]
      H9 == SetPrev(H8, pos, item)                                              \* insertPos->prev = item
  IN [h |-> [H9 EXCEPT !.c[i].size = @ + 1], r |-> item]

Insert(H, i, pos, key, val) ==
  LET f == Find(H, i, key) IN
  IF f > 0 THEN [h |-> IF Kind = "hashmap" THEN [H EXCEPT !.it[f].val = val] ELSE H, r |-> f]     \* *it = value (HashMap only)
  ELSE InsertNew(H, i, pos, key, val)

\* ---- remove(iterator)
Remove(H0, i, item) ==
  LET x == H0.it[item]
      H1 == StoreCell(H0, i, x.cell, x.nextCell)                                \* if((*item->cell = item->nextCell))
      H2 == IF x.nextCell # Null THEN [H1 EXCEPT !.it[x.nextCell].cell = x.cell] ELSE H1
      H3 == IF x.prev = Null THEN SetPrev([H2 EXCEPT !.c[i].begin = x.next], x.next, Null)
            ELSE SetPrev([H2 EXCEPT !.it[x.prev].next = x.next], x.next, x.prev)
      H4 == [H3 EXCEPT !.c[i].size = @ - 1,
                       !.it[item] = [Item0 EXCEPT !.prev = H3.c[i].free],        \* item->~Item(); item->prev = freeItem
                       !.c[i].free = item]
  IN [h |-> H4, r |-> x.next]                                                   \* return item->next

\* ---- clear(): every item is destroyed, *i->cell = 0, pushed on the free list
RECURSIVE ClearFrom(_, _, _, _)
ClearFrom(H, i, x, fuel) ==
  IF x <= 0 \/ fuel = 0 THEN H
  ELSE LET nx == H.it[x].next
           H1 == StoreCell(H, i, H.it[x].cell, Null)
           H2 == [H1 EXCEPT !.it[x] = [Item0 EXCEPT !.prev = H1.c[i].free], !.c[i].free = x]
       IN ClearFrom(H2, i, nx, fuel - 1)
Clear(H, i) == LET H1 == ClearFrom(H, i, H.c[i].begin, 2 * M + 1)
               IN [H1 EXCEPT !.c[i].begin = EndOf(i), !.c[i].eprev = Null, !.c[i].size = 0]

\* ---- swap(other), statement by statement (o may be i: self swap)
Swap(H0, i, o) ==
  LET t == H0.c[i]
      H1 == [H0 EXCEPT !.c[i].eprev = H0.c[o].eprev]                             \* if((endItem.prev = other.endItem.prev))
      H2 == IF H1.c[i].eprev # Null
            THEN [H1 EXCEPT !.it[H1.c[i].eprev].next = EndOf(i), !.c[i].begin = H1.c[o].begin]
            ELSE [H1 EXCEPT !.c[i].begin = EndOf(i)]
      H3 == [H2 EXCEPT !.c[i].size = H2.c[o].size, !.c[i].cap = H2.c[o].cap, !.c[i].data = H2.c[o].data,
                       !.c[i].don = H2.c[o].don, !.c[i].free = H2.c[o].free, !.c[i].nb = H2.c[o].nb,
                       !.c[i].store = H2.c[o].store]
      H4 == [H3 EXCEPT !.c[o].eprev = t.eprev]                                   \* if((other.endItem.prev = tmpLast))
      H5 == IF t.eprev # Null
            THEN [H4 EXCEPT !.it[t.eprev].next = EndOf(o), !.c[o].begin = t.begin]
            ELSE [H4 EXCEPT !.c[o].begin = EndOf(o)]
  IN [H5 EXCEPT !.c[o].size = t.size, !.c[o].cap = t.cap, !.c[o].data = t.data, !.c[o].don = t.don,
                !.c[o].free = t.free, !.c[o].nb = t.nb, !.c[o].store = t.store]

\* ---- destruction + construction of variable i (its store is released)
Fresh0(H, i, cap) ==
  LET s == H.c[i].store IN
  [c |-> [H.c EXCEPT ![i] = Ctn0(i, cap, s)], it |-> [x \in DOMAIN H.it |-> IF x \in StoreItems(s) THEN Item0 ELSE H.it[x]]]

\* ---- for(i = other.begin; i != end; ++i) append(i->key, i->value)      (copy constructor, operator=, HashSet::append(other))
RECURSIVE AppendSeq(_, _, _)
AppendSeq(H, i, kvs) == IF kvs = <<>> THEN H ELSE AppendSeq(Insert(H, i, EndOf(i), kvs[1][1], kvs[1][2]).h, i, Tail(kvs))
KVOf(H, i) == LET o == Order(H, i) IN [j \in 1..Len(o) |-> <<H.it[o[j]].key, H.it[o[j]].val>>]
\* ---- HashSet::remove(other): for every key of other: it = find(key); if(it != end) remove(it)
RECURSIVE RemoveSeq(_, _, _)
RemoveSeq(H, i, kvs) ==
  IF kvs = <<>> THEN H
  ELSE LET f == Find(H, i, kvs[1][1]) IN RemoveSeq(IF f > 0 THEN Remove(H, i, f).h ELSE H, i, Tail(kvs))
\* ---- operator==
EqImpl(H, i, o) ==
  IF H.c[i].size # H.c[o].size THEN 0
  ELSE IF KVOf(H, i) = KVOf(H, o) THEN 1 ELSE 0

\* ---- one public operation; result: [h, r (item id / End / NoRes), b]
NoItem == 9999                                        \* the operation returns no iterator/reference
RR(h, r, b) == [h |-> h, r |-> r, b |-> b]
Impl(op, i, k, v, p) ==
  LET H == hp  o == Other(i)  vv == IF Kind = "hashset" THEN k ELSE v IN
  CASE op = "new" -> RR(Fresh0(H, i, IF p < 0 THEN DefaultCap ELSE IF p = 0 THEN 1 ELSE p), NoItem, NoB)   \* capacity |= !capacity
    [] op = "append" -> LET x == Insert(H, i, EndOf(i), k, vv) IN RR(x.h, x.r, NoB)
    [] op = "prepend" -> LET x == Insert(H, i, H.c[i].begin, k, vv) IN RR(x.h, x.r, NoB)
    [] op = "insert" -> LET x == Insert(H, i, ItemAt(H, i, p), k, vv) IN RR(x.h, x.r, NoB)
    [] op = "rmkey" -> LET f == Find(H, i, k) IN RR(IF f > 0 THEN Remove(H, i, f).h ELSE H, NoItem, NoB)
    [] op = "rmat" \/ op = "rmref" -> LET x == Remove(H, i, ItemAt(H, i, p)) IN RR(x.h, x.r, NoB)
    [] op = "rmfront" -> LET x == Remove(H, i, H.c[i].begin) IN RR(x.h, x.r, NoB)
    [] op = "rmback" -> LET x == Remove(H, i, H.c[i].eprev) IN RR(x.h, x.r, NoB)
    [] op = "clear" -> RR(Clear(H, i), NoItem, NoB)
    [] op = "swap" -> RR(Swap(H, i, o), NoItem, NoB)
    [] op = "swapself" -> RR(Swap(H, i, i), NoItem, NoB)
    [] op = "copy" -> RR(AppendSeq(Fresh0(H, i, DefaultCap), i, KVOf(H, o)), NoItem, NoB)
    [] op = "assign" -> RR(AppendSeq(Clear(H, i), i, KVOf(H, o)), NoItem, NoB)
    [] op = "appendall" -> RR(AppendSeq(H, i, KVOf(H, o)), NoItem, NoB)
    [] op = "rmall" -> RR(RemoveSeq(H, i, KVOf(H, o)), NoItem, NoB)
    [] op = "find" -> RR(H, Find(H, i, k), NoB)
    [] op = "contains" -> RR(H, NoItem, IF Find(H, i, k) # EndOf(i) THEN 1 ELSE 0)
    [] op = "front" -> RR(H, H.c[i].begin, NoB)
    [] op = "back" -> RR(H, H.c[i].eprev, NoB)
    [] op = "eq" -> RR(H, NoItem, EqImpl(H, i, o))

\* abstraction of the implementation state: the table variable i holds
Abs(H, i) == LET o == Order(H, i) IN [j \in 1..Len(o) |-> E(H.it[o[j]].key, H.it[o[j]].val, Fresh)]

IDo(op, i, k, v, p, kd) ==
  /\ Step(op, st, i, k, v, p, kd) # {}                      \* the class offers the operation / its precondition holds
  /\ LET x == Impl(op, i, k, v, p)
         rpos == IF x.r = NoItem THEN NoRes ELSE IF x.r <= 0 THEN EndPos ELSE PosOf(x.h, i, x.r)
         cands == { o \in Step(op, st, i, k, v, p, kd) :
                      /\ (o.r = NoRes \/ o.r = rpos) /\ o.b = x.b
                      /\ \A j \in 1..2 : FreshCopy(o.c[j]) = Abs(x.h, j) }
     IN /\ hp' = x.h
        /\ refOK' = (refOK /\ cands # {})
        /\ st' = IF cands # {} THEN StOf(CHOOSE o \in cands : TRUE) ELSE st
        /\ last' = <<op, i, k, v, p, rpos, x.b>>

IInit == /\ hp = [c |-> <<Ctn0(1, DefaultCap, 1), Ctn0(2, DefaultCap, 2)>>, it |-> [x \in 1..(2 * M) |-> Item0]]
         /\ refOK = TRUE
         /\ st = [kind |-> <<Kind, Kind>>, c |-> << <<>>, <<>> >>] /\ last = <<"init", 0, 0, 0, 0, NoRes, NoB>>
En(ops) == ops \cap OpSet
INext == \/ \E i \in UVars :
              \/ \E p \in CapArgs : IDo("new", i, 0, 0, p, Kind)
              \/ \E op \in En({"append", "prepend"}), k \in Keys, v \in Vals : IDo(op, i, k, v, 0, "")
              \/ \E op \in En({"insert"}), k \in Keys, v \in Vals, p \in 0..MaxN : IDo(op, i, k, v, p, "")
              \/ \E op \in En({"rmkey", "find", "contains"}), k \in Keys : IDo(op, i, k, 0, 0, "")
              \/ \E op \in En({"rmat", "rmref"}), p \in 0..MaxN : IDo(op, i, 0, 0, p, "")
              \/ \E op \in En({"rmfront", "rmback", "clear", "front", "back", "swapself"}) : IDo(op, i, 0, 0, 0, "")
         \/ \E i \in BVars : \E op \in En({"swap", "copy", "assign", "appendall", "rmall", "eq"}) : IDo(op, i, 0, 0, 0, "")
AllOps == {"append", "prepend", "insert", "rmkey", "find", "contains", "rmat", "rmref", "rmfront", "rmback", "clear",
           "front", "back", "swapself", "swap", "copy", "assign", "appendall", "rmall", "eq"}
FewOps == {"append", "rmkey", "rmfront", "rmback", "clear", "find"}
TwoOps == {"append", "rmback", "rmkey", "clear", "swap", "copy", "assign", "appendall", "rmall", "eq", "swapself"}
ISpec == IInit /\ [][INext]_ivars
IView == <<hp, st>>

\* ---- invariants
RefinementOK == refOK /\ \A j \in 1..2 : FreshCopy(st.c[j]) = Abs(hp, j)

\* chain b of variable i as a sequence of items (fuel guards against cycles)
RECURSIVE Chain(_, _, _)
Chain(it, x, fuel) == IF x = Null \/ fuel = 0 THEN <<>> ELSE <<x>> \o Chain(it, it[x].nextCell, fuel - 1)
ChainsOK ==
  \A i \in 1..2 : LET c == hp.c[i]  ord == Order(hp, i) IN
    /\ ~c.don => (c.size = 0 /\ \A b \in Buckets(c.cap) : c.data[b] = Null)
    /\ \A b \in Buckets(c.cap) :
         LET ch == Chain(hp.it, c.data[b], 2 * M + 1) IN
         /\ Len(ch) <= M                                                        \* acyclic
         /\ \A j \in 1..Len(ch) :
              /\ hp.it[ch[j]].live /\ hp.it[ch[j]].key % c.cap = b               \* on the chain of hash(key) % capacity
              /\ hp.it[ch[j]].cell = (IF j = 1 THEN -(b + 1) ELSE ch[j - 1])      \* *item.cell = item
              /\ \E z \in 1..Len(ord) : ord[z] = ch[j]                            \* a chained item is in the order list
              /\ \A j2 \in 1..Len(ch) : j2 # j => ch[j2] # ch[j]
    /\ \A z \in 1..Len(ord) :                                                   \* every listed item is on exactly its chain
         LET ch == Chain(hp.it, c.data[hp.it[ord[z]].key % c.cap], 2 * M + 1) IN \E j \in 1..Len(ch) : ch[j] = ord[z]
OrderOK ==
  \A i \in 1..2 : LET c == hp.c[i]  ord == Order(hp, i) IN
    /\ Len(ord) = c.size
    /\ c.size = 0 => (c.begin = EndOf(i) /\ c.eprev = Null)
    /\ c.size > 0 => /\ c.begin = ord[1] /\ c.eprev = ord[Len(ord)]
                     /\ hp.it[ord[1]].prev = Null
                     /\ hp.it[ord[Len(ord)]].next = EndOf(i)                    \* the last item refers to the sentinel of ITS container
                     /\ \A z \in 2..Len(ord) : hp.it[ord[z]].prev = ord[z - 1]
    /\ \A z \in 1..Len(ord) : hp.it[ord[z]].live /\ ord[z] \in StoreItems(c.store)
    /\ \A z, z2 \in 1..Len(ord) : z # z2 => hp.it[ord[z]].key # hp.it[ord[z2]].key          \* unique keys
RECURSIVE FreeList(_, _, _)
FreeList(it, x, fuel) == IF x = Null \/ fuel = 0 THEN <<>> ELSE <<x>> \o FreeList(it, it[x].prev, fuel - 1)
FreeOK ==
  \A i \in 1..2 : LET c == hp.c[i]  fl == FreeList(hp.it, c.free, 2 * M + 1) IN
    /\ \A z \in 1..Len(fl) : ~hp.it[fl[z]].live /\ fl[z] \in StoreItems(c.store)
    /\ \A z, z2 \in 1..Len(fl) : z # z2 => fl[z] # fl[z2]
    /\ Len(fl) + c.size = 4 * c.nb                                              \* every item of every block is live or free
    /\ c.nb <= MaxBlocks
StoresOK == hp.c[1].store # hp.c[2].store
================================================================================
