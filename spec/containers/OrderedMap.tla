------------------------------- MODULE OrderedMap -------------------------------
(* Layer 1 (property level) specification of nstd::Map and nstd::MultiMap for property C01
   ("Map and MultiMap stay sorted, complete and logarithmically deep").

   Four container variables: 1, 2 are Map<K,V>, 3, 4 are MultiMap<K,V>; Other(c) is the sibling used by copy / assign /
   bulk insert.  The abstract state of one variable is a sequence of records [k, v, id] ascending in k:
     k   key,  v  value,  id  identity of the stored element (the harness uses the serial number of the stored value
         object; an element keeps its id as long as it lives, also when its value is overwritten)
   Every public operation is one step   Step(op, s, c, k, v, p)  = the set of allowed outcomes
         [m |-> successor state, rp |-> returned iterator, rv |-> returned scalar]
     rp : position (1-based) in the *successor* sequence of container c of the element the returned iterator designates,
          0 = the end iterator, -1 = the operation returns no iterator
     rv : returned number (count, contains as 0/1), -1 = none
   Elements created by the operation carry the wildcard id NewId (one-sided: see MatchSeq).
   Where the property statement is silent the outcome set is nondeterministic:
     * MultiMap hinted insert: any position among the equal keys (only ascending order is required)
     * MultiMap find / remove(key): any one of the elements with an equal key
   The same operators serve model checking (Next below), trace validation (OrderedMapTrace) and the ghost state of the
   Layer-2 model (AvlImpl).                                                                                          *)
EXTENDS Integers, Sequences, FiniteSets, TLC, SequencesExt, OrderedMapBound

NC == 4
IsMulti(c) == c >= 3
Other(c) == CASE c = 1 -> 2 [] c = 2 -> 1 [] c = 3 -> 4 [] OTHER -> 3
NewId == 0                        \* wildcard identity of an element created by the step
EndIt == 0
NoIt == -1
NoVal == -1

El(k, v, id) == [k |-> k, v |-> v, id |-> id]
\* number of elements with key < k / key <= k (positions lo+1 .. hi hold the keys equal to k)
Lo(q, k) == Cardinality({i \in 1..Len(q) : q[i].k < k})
Hi(q, k) == Cardinality({i \in 1..Len(q) : q[i].k <= k})
InsAfter(q, j, e) == SubSeq(q, 1, j) \o <<e>> \o SubSeq(q, j + 1, Len(q))
RemAt(q, j) == SubSeq(q, 1, j - 1) \o SubSeq(q, j + 1, Len(q))
Set4(s, c, q) == [s EXCEPT ![c] = q]
Out(m, rp, rv) == [m |-> m, rp |-> rp, rv |-> rv]

\* plain insert into one sequence: [q |-> new sequence, pos |-> position of the designated element]
\* Map: an existing key keeps its element (and position) and gets the new value; MultiMap: after all equal keys.
InsPlain(q, multi, k, v) ==
  LET lo == Lo(q, k)  hi == Hi(q, k) IN
  IF ~multi /\ hi > lo THEN [q |-> [q EXCEPT ![lo + 1].v = v], pos |-> lo + 1]
  ELSE [q |-> InsAfter(q, hi, El(k, v, NewId)), pos |-> hi + 1]
\* insert(other): the entries of the other container are inserted in its iteration order
BulkInto(q, multi, oq) == FoldLeft(LAMBDA acc, e : InsPlain(acc, multi, e.k, e.v).q, q, oq)
Fresh(oq) == [i \in 1..Len(oq) |-> El(oq[i].k, oq[i].v, NewId)]

Init0 == <<<<>>, <<>>, <<>>, <<>>>>

Ops == {"insert", "insertHint", "removeKey", "removeAt", "removeFront", "removeBack", "clear", "copy", "assign", "bulk",
        "find", "contains", "count", "front", "back",
        \* self-argument operations (property C04 generates them; C01 only defines their meaning)
        "assignself", "bulkself", "insertref", "insertrefh"}

\* precondition of an operation (the driver logs "nop" instead of executing an operation whose precondition fails)
Enabled(op, s, c, k, v, p) ==
  LET n == Len(s[c]) IN
  CASE op \in {"removeAt", "insertref"} -> p \in 1..n
    [] op = "insertrefh" -> p \in 1..n /\ k \in 1..n + 1
    [] op \in {"removeFront", "removeBack", "front", "back"} -> n > 0
    [] op = "insertHint" -> p \in 1..n + 1
    [] op = "count" -> IsMulti(c)
    [] OTHER -> TRUE

Step(op, s, c, k, v, p) ==
  LET q == s[c]  oq == s[Other(c)]  multi == IsMulti(c)  n == Len(q)  lo == Lo(q, k)  hi == Hi(q, k) IN
  CASE op = "insert"      -> LET r == InsPlain(q, multi, k, v) IN {Out(Set4(s, c, r.q), r.pos, NoVal)}
    [] op = "insertHint"  -> IF multi THEN {Out(Set4(s, c, InsAfter(q, j, El(k, v, NewId))), j + 1, NoVal) : j \in lo..hi}
                             ELSE LET r == InsPlain(q, multi, k, v) IN {Out(Set4(s, c, r.q), r.pos, NoVal)}
    [] op = "removeKey"   -> IF hi = lo THEN {Out(s, NoIt, NoVal)}
                             ELSE {Out(Set4(s, c, RemAt(q, j)), NoIt, NoVal) : j \in lo + 1..hi}
    [] op = "removeAt"    -> {Out(Set4(s, c, RemAt(q, p)), IF p = n THEN EndIt ELSE p, NoVal)}
    [] op = "removeFront" -> {Out(Set4(s, c, RemAt(q, 1)), IF n = 1 THEN EndIt ELSE 1, NoVal)}
    [] op = "removeBack"  -> {Out(Set4(s, c, RemAt(q, n)), EndIt, NoVal)}
    [] op = "clear"       -> {Out(Set4(s, c, <<>>), NoIt, NoVal)}
    [] op \in {"copy", "assign"} -> {Out(Set4(s, c, Fresh(oq)), NoIt, NoVal)}
    [] op = "bulk"        -> {Out(Set4(s, c, BulkInto(q, multi, oq)), NoIt, NoVal)}
    [] op = "find"        -> IF hi = lo THEN {Out(s, EndIt, NoVal)} ELSE {Out(s, j, NoVal) : j \in lo + 1..hi}
    [] op = "contains"    -> {Out(s, NoIt, IF hi > lo THEN 1 ELSE 0)}
    [] op = "count"       -> {Out(s, NoIt, hi - lo)}
    [] op = "front"       -> {Out(s, 1, NoVal)}
    [] op = "back"        -> {Out(s, n, NoVal)}
    [] op = "nop"         -> {Out(s, NoIt, NoVal)}               \* precondition failed / operation not offered by the class
    [] op = "fini"        -> {Out(Init0, NoIt, NoVal)}           \* all four containers destroyed and recreated empty
    [] op = "assignself"  -> {Out(Set4(s, c, Fresh(q)), NoIt, NoVal)}
    [] op = "bulkself"    -> {Out(Set4(s, c, BulkInto(q, multi, q)), NoIt, NoVal)}
    [] op = "insertref"   -> LET r == InsPlain(q, multi, q[p].k, q[p].v) IN {Out(Set4(s, c, r.q), r.pos, NoVal)}
    [] op = "insertrefh"  -> LET kk == q[p].k  vv == q[p].v  l2 == Lo(q, kk)  h2 == Hi(q, kk) IN     \* k = hint position
                             IF multi THEN {Out(Set4(s, c, InsAfter(q, j, El(kk, vv, NewId))), j + 1, NoVal) : j \in l2..h2}
                             ELSE LET r == InsPlain(q, multi, kk, vv) IN {Out(Set4(s, c, r.q), r.pos, NoVal)}

--------------------------------------------------------------------------------
\* Observations.  The driver logs after every operation on container c
\*   n, pre, suf, mid : the projection of container c by forward iteration (a tuple of <<key, value, id, address id>>),
\*          encoded as a difference to the previous observation of c (which is the abstract state, see Concrete):
\*          the first pre entries of the previous projection, then mid, then its last suf entries; n = total length
\*   ch   : <<j, projection>> for every other container whose projection differs from its previous observation
\*   size : the four size() results;  empty : the four isEmpty() results
\*   bwd  : backward iteration from end() visits the same elements in reverse
\*   r    : id designated by the returned iterator, -1 = end(), -2 = no iterator returned;  rv : returned number or -1
\*   frx  : find(key of position i) is executed for every position i; <<i, id>> is listed when it designates an
\*          element other than the one at position i (-1 = end())
\*   cmp  : key comparisons used by the operation;  maxfind : the largest number of comparisons of those find calls
ObsSeq(pm) == [i \in 1..Len(pm) |-> El(pm[i][1], pm[i][2], pm[i][3])]
ObsM(s, e) == LET q == s[e.c] IN SubSeq(q, 1, e.pre) \o ObsSeq(e.mid) \o SubSeq(q, Len(q) - e.suf + 1, Len(q))
IdsOf(q) == {q[i].id : i \in 1..Len(q)}

\* One-sided wildcard: a reference element with id NewId matches an observed element whose id is not the id of any
\* surviving element of any container; distinct new elements have distinct ids.  An observed id never matches a
\* different concrete reference id.
MatchSeq(ref, obs, foreign) ==
  /\ Len(ref) = Len(obs)
  /\ \A i \in 1..Len(ref) : ref[i].k = obs[i].k /\ ref[i].v = obs[i].v /\ (ref[i].id # NewId => ref[i].id = obs[i].id)
  /\ LET W == {i \in 1..Len(ref) : ref[i].id = NewId}
         kept == {ref[i].id : i \in 1..Len(ref) \ W}
         new == {obs[i].id : i \in W}
     IN Cardinality(new) = Cardinality(W) /\ new \cap (kept \cup foreign) = {}

\* the abstract outcome o explains the observed event e (obs = ObsM(pre-state, e)) for the operation on container e.c
Match(o, e, obs) ==
  LET c == e.c IN
  /\ Len(obs) = e.n
  /\ \A x \in 1..Len(e.ch) : ObsSeq(e.ch[x][2]) = o.m[e.ch[x][1]]     \* another container changed: only if allowed
  /\ MatchSeq(o.m[c], obs, UNION {IdsOf(o.m[j]) : j \in (1..NC) \ {c}})
  /\ \A j \in 1..NC : e.size[j] = Len(o.m[j]) /\ e.empty[j] = (Len(o.m[j]) = 0)
  /\ e.r = (IF o.rp = NoIt THEN -2 ELSE IF o.rp = EndIt THEN -1 ELSE obs[o.rp].id)
  /\ e.rv = o.rv

\* observations that do not depend on the outcome chosen: iteration both ways, find of every present key, lookup cost
\* Map: find(key) designates the element with that key; MultiMap: an element with an equal key
FindAllOK(e, obs) ==
  \A x \in 1..Len(e.frx) :
     LET i == e.frx[x][1]  id == e.frx[x][2] IN
     /\ IsMulti(e.c)
     /\ i \in 1..Len(obs)
     /\ \E j \in 1..Len(obs) : obs[j].id = id /\ obs[j].k = obs[i].k
\* finding any key among n entries needs at most 2*floor(1.4405*log2(n+2)) key comparisons
BoundOK(e, npre) ==
  /\ e.maxfind <= CmpBound(e.n)
  /\ (e.op \in {"find", "contains"} => e.cmp <= CmpBound(npre))

\* the abstract state that a matched observation denotes (wildcards become the observed ids)
Concrete(o, e, obs) == Set4(o.m, e.c, obs)
\* the state an observation denotes when no outcome explains it (used to resynchronise)
FromObs(s, e) == [j \in 1..NC |-> IF j = e.c THEN ObsM(s, e)
                                  ELSE IF \E x \in 1..Len(e.ch) : e.ch[x][1] = j
                                       THEN ObsSeq(e.ch[CHOOSE x \in 1..Len(e.ch) : e.ch[x][1] = j][2]) ELSE s[j]]

--------------------------------------------------------------------------------
\* Stand-alone model (bounded) -- sanity of the reference itself.
CONSTANTS Keys, Vals, MaxLen, Cs
VARIABLES st, last
vars == <<st, last>>
AllIds(s) == UNION {IdsOf(s[j]) : j \in 1..NC}
\* resolve the wildcards of an outcome with the smallest unused ids, left to right
Resolve(m, c) ==
  LET q == m[c]
      used == UNION {IdsOf(m[j]) : j \in 1..NC} \ {NewId}
      W == {i \in 1..Len(q) : q[i].id = NewId}
      free == (1..(Cardinality(used) + Cardinality(W))) \ used
      rank(i) == Cardinality({j \in W : j < i}) + 1
      nth(r) == CHOOSE x \in free : Cardinality({y \in free : y < x}) = r - 1
  IN Set4(m, c, [i \in 1..Len(q) |-> IF i \in W THEN [q[i] EXCEPT !.id = nth(rank(i))] ELSE q[i]])
Do(op, c, k, v, p) ==
  /\ Enabled(op, st, c, k, v, p)
  /\ \E o \in Step(op, st, c, k, v, p) : st' = Resolve(o.m, c) /\ last' = <<op, c, k, v, p, o.rp, o.rv>>
Init == st = Init0 /\ last = <<"init", 0, 0, 0, 0, NoIt, NoVal>>
Next == \E c \in Cs :
          \/ \E k \in Keys, v \in Vals : Do("insert", c, k, v, 0) \/ \E p \in 1..MaxLen + 1 : Do("insertHint", c, k, v, p)
          \/ \E k \in Keys : Do("removeKey", c, k, 0, 0) \/ Do("find", c, k, 0, 0) \/ Do("contains", c, k, 0, 0)
                             \/ Do("count", c, k, 0, 0)
          \/ \E p \in 1..MaxLen : Do("removeAt", c, 0, 0, p) \/ Do("insertref", c, 0, 0, p)
                                  \/ \E h \in 1..MaxLen + 1 : Do("insertrefh", c, h, 0, p)
          \/ Do("removeFront", c, 0, 0, 0) \/ Do("removeBack", c, 0, 0, 0) \/ Do("clear", c, 0, 0, 0)
          \/ Do("copy", c, 0, 0, 0) \/ Do("assign", c, 0, 0, 0) \/ Do("bulk", c, 0, 0, 0)
          \/ Do("front", c, 0, 0, 0) \/ Do("back", c, 0, 0, 0) \/ Do("assignself", c, 0, 0, 0) \/ Do("bulkself", c, 0, 0, 0)
Spec == Init /\ [][Next]_vars
Bound == \A c \in 1..NC : Len(st[c]) <= MaxLen
\* keys and values only (cfg: VIEW ViewKV): the graphs dumped for the C04 / C05 replay need the operation sequences, not the ids
ViewKV == [c \in 1..NC |-> [i \in 1..Len(st[c]) |-> <<st[c][i].k, st[c][i].v>>]]

\* ---- properties of the reference
SortedSeq(q) == \A i \in 1..Len(q) - 1 : q[i].k <= q[i + 1].k
StrictSeq(q) == \A i \in 1..Len(q) - 1 : q[i].k < q[i + 1].k
SortedOK(s) == \A c \in 1..NC : IF IsMulti(c) THEN SortedSeq(s[c]) ELSE StrictSeq(s[c])
IdsOK(s) == /\ \A c \in 1..NC : Cardinality(IdsOf(s[c])) = Len(s[c])
            /\ \A c, d \in 1..NC : c # d => IdsOf(s[c]) \cap IdsOf(s[d]) = {}
TypeOK == SortedOK(st) /\ IdsOK(st) /\ NewId \notin AllIds(st)
\* elements that survive a step keep their relative order; a plain MultiMap insert puts the new element after every
\* element with an equal key that was already there ("equal keys in insertion order")
Surv(qa, qb) == SelectSeq(qa, LAMBDA e : e.id \in IdsOf(qb))
OrderKept == [][last'[1] \notin {"copy", "assign", "assignself"} =>
                \A c \in 1..NC : LET a == Surv(st[c], st'[c])  b == Surv(st'[c], st[c]) IN
                  [i \in 1..Len(a) |-> a[i].id] = [i \in 1..Len(b) |-> b[i].id]]_vars
InsertionOrder == [][(last'[1] = "insert" /\ IsMulti(last'[2])) =>
                       LET c == last'[2]  q == st'[c]  pos == last'[6] IN
                       /\ q[pos].k = last'[3] /\ q[pos].id \notin IdsOf(st[c])
                       /\ \A i \in 1..Len(q) : (q[i].k = last'[3] /\ i # pos) => i < pos]_vars
\* find / contains / count agree with the contents
QueriesOK == [][/\ last'[1] = "count" => last'[7] = Cardinality({i \in 1..Len(st[last'[2]]) : st[last'[2]][i].k = last'[3]})
                /\ last'[1] = "find" => IF last'[6] = EndIt THEN \A i \in 1..Len(st[last'[2]]) : st[last'[2]][i].k # last'[3]
                                        ELSE st[last'[2]][last'[6]].k = last'[3]]_vars
================================================================================
