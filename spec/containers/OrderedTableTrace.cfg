SPECIFICATION TSpec
CONSTANTS Keys = {}
 Vals = {}
 StrictIds = FALSE
INVARIANT TInv
