SPECIFICATION Spec
CONSTANTS Keys = {1, 2, 3}
 Vals = {0, 1}
 MaxLen = 3
 Cs = {1, 2}
INVARIANT TypeOK
PROPERTIES OrderKept InsertionOrder QueriesOK
CONSTRAINT Bound
VIEW ViewKV
