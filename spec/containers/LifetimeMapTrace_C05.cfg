SPECIFICATION TSpec
CONSTANTS Keys = {}
 Vals = {}
 MaxLen = 0
 Cs = {}
 Prop = "C05"
INVARIANT TInv
