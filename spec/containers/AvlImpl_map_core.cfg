SPECIFICATION ISpec
CONSTANTS IKeys = {1, 2, 3, 4, 5, 6, 7, 8, 9, 10, 11}
 Multi = FALSE
 MaxN = 11
 OtherMax = 2
 OpSet = {"insert", "removeAt"}
 OrigFind = FALSE
 Keys = {}
 Vals = {}
 MaxLen = 0
 Cs = {}
INVARIANTS RefinementOK TreeOK ThreadOK BalanceOK ParentOK LookupOK
CONSTRAINT IBound
