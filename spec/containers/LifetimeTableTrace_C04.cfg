SPECIFICATION TSpec
CONSTANTS Keys = {}
 Vals = {}
 Prop = "C04"
INVARIANT TInv
