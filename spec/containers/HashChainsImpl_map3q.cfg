SPECIFICATION ISpec
CONSTANTS Kind = "hashmap"
 Keys = {1, 2, 3}
 Vals = {1, 2}
 CapArgs = {1, 2}
 MaxBlocks = 1
 UVars = {1}
 BVars = {}
 OpSet <- AllOps
INVARIANTS RefinementOK ChainsOK OrderOK FreeOK StoresOK TypeOK
VIEW IView
