------------------------------ MODULE AvlImpl ------------------------------
(* Layer 2 (implementation shaped) model of one nstd::Map (Multi = FALSE, include/nstd/Map.hpp) or nstd::MultiMap
   (Multi = TRUE, include/nstd/MultiMap.hpp) object: the AVL tree of items with parent/left/right links, the stored
   height and slope of every item, the doubly linked list threaded through the items (next/prev, _begin, endItem.prev)
   and every branch of every operation as written: private insert (descent, list threading, upward
   updateHeightAndSlope/rebal loop with the "height unchanged" exit), the hinted insert of both classes, the five cases
   of remove with the rebalParent / rebalParentUpwards loops, rotl/rotr/shiftl/shiftr, find, MultiMap::count, the copy
   constructor / operator= / insert(other) loops.

   Items are identified by numbers; 0 is the null pointer in tree links and the end sentinel (&endItem) in list links.
   After every operation the items are renumbered by their position in the list, so a state is a tree shape plus its
   key sequence.  The ghost variable st is the Layer-1 reference (OrderedMap), advanced by OrderedMap!Step with the
   same operation: TLC checks after every step that the result of the transcribed code (new sequence with the
   identity of every surviving item, returned iterator, returned number) is one of the outcomes Layer 1 allows.     *)
EXTENDS OrderedMap
CONSTANTS IKeys,        \* keys the model inserts
          Multi,        \* FALSE = Map.hpp, TRUE = MultiMap.hpp
          MaxN,         \* bound on the number of entries
          OtherMax,     \* the other container (copy / assign / bulk) holds at most this many entries
          OpSet,        \* operations explored
          OrigFind      \* TRUE = MultiMap::find / count as written before commit c4be572 (finding F1/F2)
VARIABLES n, root, first, lastn, refOK
ivars == <<n, root, first, lastn, refOK, st, last>>

EndKey == 0                 \* key of the end sentinel: a default constructed key
C == IF Multi THEN 3 ELSE 1
Max2(a, b) == IF a > b THEN a ELSE b
TS == [n |-> n, root |-> root, first |-> first, lastn |-> lastn]
EmptyTS == [n |-> <<>>, root |-> 0, first |-> 0, lastn |-> 0]
Size(ts) == Cardinality(DOMAIN ts.n)
Key(ts, x) == IF x = 0 THEN EndKey ELSE ts.n[x].key
H(ts, x) == IF x = 0 THEN 0 ELSE ts.n[x].h

\* ---- Item::updateHeightAndSlope
Update(ts, x) == LET lh == H(ts, ts.n[x].l)  rh == H(ts, ts.n[x].r) IN
                 [ts EXCEPT !.n[x].h = 1 + Max2(lh, rh), !.n[x].s = lh - rh]
\* store "new" into the cell (parent->left, parent->right or root) that currently holds "old"
SetCell(ts, par, old, new) ==
  IF par = 0 THEN [ts EXCEPT !.root = new]
  ELSE IF ts.n[par].l = old THEN [ts EXCEPT !.n[par].l = new] ELSE [ts EXCEPT !.n[par].r = new]
SetP(ts, x, p) == IF x = 0 THEN ts ELSE [ts EXCEPT !.n[x].p = p]
\* ---- rotr / rotl / shiftr / shiftl (Map.hpp:496-540)
Rotr(ts, top) ==
  LET res == ts.n[top].l  tmp == ts.n[res].r  par == ts.n[top].p
      a == SetCell(ts, par, top, res)
      b == [a EXCEPT !.n[res].p = par, !.n[res].r = top, !.n[top].l = tmp, !.n[top].p = res]
      c == SetP(b, tmp, top)
  IN Update(Update(c, top), res)
Rotl(ts, top) ==
  LET res == ts.n[top].r  tmp == ts.n[res].l  par == ts.n[top].p
      a == SetCell(ts, par, top, res)
      b == [a EXCEPT !.n[res].p = par, !.n[res].l = top, !.n[top].r = tmp, !.n[top].p = res]
      c == SetP(b, tmp, top)
  IN Update(Update(c, top), res)
Shiftr(ts, top) == LET l == ts.n[top].l IN Rotr(IF ts.n[l].s = -1 THEN Rotl(ts, l) ELSE ts, top)
Shiftl(ts, top) == LET r == ts.n[top].r IN Rotl(IF ts.n[r].s = 1 THEN Rotr(ts, r) ELSE ts, top)
\* ---- rebal(item): [ts, top = the item now in the cell]   (reads the stored slope)
Rebal(ts, x) ==
  IF ts.n[x].s > 1 THEN LET t2 == Shiftr(ts, x) IN [ts |-> t2, top |-> t2.n[x].p]
  ELSE IF ts.n[x].s < -1 THEN LET t2 == Shiftl(ts, x) IN [ts |-> t2, top |-> t2.n[x].p]
  ELSE [ts |-> ts, top |-> x]
\* ---- the upward loop of insert (Map.hpp:437-445) and rebalParentUpwards (Map.hpp:326-334)
RECURSIVE FixUp(_, _)
FixUp(ts, parent) ==
  IF parent = 0 THEN ts ELSE
  LET old == ts.n[parent].h  rb == Rebal(Update(ts, parent), parent) IN
  IF old = rb.ts.n[rb.top].h THEN rb.ts ELSE FixUp(rb.ts, rb.ts.n[rb.top].p)

\* ---- private insert(cell, parent, key, value): descent from a cell = (par, right)
RECURSIVE DescendFrom(_, _, _, _)
DescendFrom(ts, par, right, k) ==
  LET pos == IF par = 0 THEN ts.root ELSE IF right THEN ts.n[par].r ELSE ts.n[par].l IN
  IF pos = 0 THEN [found |-> 0, par |-> par, right |-> right]
  ELSE IF Multi
       THEN IF k < ts.n[pos].key THEN DescendFrom(ts, pos, FALSE, k) ELSE DescendFrom(ts, pos, TRUE, k)
       ELSE IF k > ts.n[pos].key THEN DescendFrom(ts, pos, TRUE, k)
            ELSE IF k < ts.n[pos].key THEN DescendFrom(ts, pos, FALSE, k)
            ELSE [found |-> pos, par |-> par, right |-> right]
NewNode(k, p) == [key |-> k, l |-> 0, r |-> 0, p |-> p, h |-> 1, s |-> 0, nx |-> 0, pv |-> 0]
\* link the new item x under (par, right) and thread it into the list (Map.hpp:410-433)
Attach(ts, par, right, k, x) ==
  IF par = 0 THEN [n |-> (x :> NewNode(k, 0)) @@ ts.n, root |-> x, first |-> x, lastn |-> x]      \* first item
  ELSE LET insPos == IF right THEN ts.n[par].nx ELSE par           \* 0 = end sentinel
           prevOf == IF insPos = 0 THEN ts.lastn ELSE ts.n[insPos].pv
           n1 == (x :> [NewNode(k, par) EXCEPT !.nx = insPos, !.pv = prevOf]) @@ ts.n
           n2 == IF right THEN [n1 EXCEPT ![par].r = x] ELSE [n1 EXCEPT ![par].l = x]
           n3 == IF prevOf # 0 THEN [n2 EXCEPT ![prevOf].nx = x] ELSE n2
           n4 == IF insPos # 0 THEN [n3 EXCEPT ![insPos].pv = x] ELSE n3
       IN [n |-> n4, root |-> ts.root, first |-> IF prevOf = 0 THEN x ELSE ts.first,
           lastn |-> IF insPos = 0 THEN x ELSE ts.lastn]
\* [ts, res = designated item, isnew]
PrivInsert(ts, par, right, k, x) ==
  LET d == DescendFrom(ts, par, right, k) IN
  IF d.found # 0 THEN [ts |-> ts, res |-> d.found, isnew |-> FALSE]            \* position->value = value
  ELSE [ts |-> FixUp(Attach(ts, d.par, d.right, k, x), d.par), res |-> x, isnew |-> TRUE]
RootInsert(ts, k, x) == PrivInsert(ts, 0, FALSE, k, x)
\* ---- insert(position, key, value): Map.hpp:123-153 / MultiMap.hpp:117-142 ; pos = item or 0 = end()
HintInsert(ts, pos, k, x) ==
  IF pos = 0
  THEN LET prev == ts.lastn IN
       IF prev # 0 /\ k > ts.n[prev].key THEN PrivInsert(ts, prev, TRUE, k, x) ELSE RootInsert(ts, k, x)
  ELSE IF ~Multi
  THEN IF k < ts.n[pos].key
       THEN LET prev == ts.n[pos].pv IN
            IF prev = 0 \/ k > ts.n[prev].key THEN PrivInsert(ts, pos, FALSE, k, x) ELSE RootInsert(ts, k, x)
       ELSE IF k > ts.n[pos].key
       THEN LET next == ts.n[pos].nx IN
            IF next = 0 \/ k < ts.n[next].key THEN PrivInsert(ts, pos, TRUE, k, x) ELSE RootInsert(ts, k, x)
       ELSE [ts |-> ts, res |-> pos, isnew |-> FALSE]                          \* insertPos->value = value
  ELSE IF k < ts.n[pos].key
       THEN LET prev == ts.n[pos].pv IN
            IF prev = 0 \/ k >= ts.n[prev].key THEN PrivInsert(ts, pos, FALSE, k, x) ELSE RootInsert(ts, k, x)
       ELSE LET next == ts.n[pos].nx IN
            IF next = 0 \/ k <= ts.n[next].key THEN PrivInsert(ts, pos, TRUE, k, x) ELSE RootInsert(ts, k, x)

\* ---- remove(iterator): Map.hpp:195-346
CellOf(ts, origParent, wasLeft) ==
  IF origParent = 0 THEN ts.root ELSE IF wasLeft THEN ts.n[origParent].l ELSE ts.n[origParent].r
RECURSIVE RebalParent(_, _, _, _)
RebalParent(ts, parent, origParent, wasLeft) ==       \* the do-while loop; [ts, parent] to continue with FixUp
  LET old == ts.n[parent].h  rb == Rebal(Update(ts, parent), parent) IN
  IF old = rb.ts.n[rb.top].h
  THEN LET c == CellOf(rb.ts, origParent, wasLeft)
           rb2 == Rebal(Update(rb.ts, c), c)
       IN [ts |-> rb2.ts, parent |-> rb2.ts.n[rb2.top].p]
  ELSE LET np == rb.ts.n[rb.top].p IN
       IF np = origParent THEN [ts |-> rb.ts, parent |-> np] ELSE RebalParent(rb.ts, np, origParent, wasLeft)
DropNode(f, x) == [y \in DOMAIN f \ {x} |-> f[y]]
Unthread(ts, x) ==
  LET pv == ts.n[x].pv  nx == ts.n[x].nx
      a == IF pv = 0 THEN [ts EXCEPT !.first = nx] ELSE [ts EXCEPT !.n[pv].nx = nx]
      b == IF nx # 0 THEN [a EXCEPT !.n[nx].pv = pv] ELSE [a EXCEPT !.lastn = pv]
  IN [b EXCEPT !.n = DropNode(b.n, x)]
RemoveTS(ts, x) ==
  LET it == ts.n[x]  origParent == it.p  left == it.l  right == it.r
      wasLeft == origParent # 0 /\ ts.n[origParent].l = x
      structural ==
        IF left = 0 /\ right = 0 THEN FixUp(SetCell(ts, origParent, x, 0), origParent)
        ELSE IF left = 0 THEN FixUp(SetP(SetCell(ts, origParent, x, right), right, origParent), origParent)
        ELSE IF right = 0 THEN FixUp(SetP(SetCell(ts, origParent, x, left), left, origParent), origParent)
        ELSE IF H(ts, left) < H(ts, right)
        THEN LET nx == it.nx  nxp == ts.n[nx].p IN
             IF nxp = x
             THEN LET a == SetCell(ts, origParent, x, nx)
                      b == [a EXCEPT !.n[nx].p = origParent, !.n[nx].l = left, !.n[left].p = nx]
                      r == RebalParent(b, nx, origParent, wasLeft)
                  IN FixUp(r.ts, r.parent)
             ELSE LET nxr == ts.n[nx].r
                      a == SetP([ts EXCEPT !.n[nxp].l = nxr], nxr, nxp)
                      b == SetCell(a, origParent, x, nx)
                      c == [b EXCEPT !.n[nx].p = origParent, !.n[nx].l = left, !.n[left].p = nx,
                                     !.n[nx].r = right, !.n[right].p = nx]
                      r == RebalParent(c, nxp, origParent, wasLeft)
                  IN FixUp(r.ts, r.parent)
        ELSE LET pv == it.pv  pvp == ts.n[pv].p IN
             IF pvp = x
             THEN LET a == SetCell(ts, origParent, x, pv)
                      b == [a EXCEPT !.n[pv].p = origParent, !.n[pv].r = right, !.n[right].p = pv]
                      r == RebalParent(b, pv, origParent, wasLeft)
                  IN FixUp(r.ts, r.parent)
             ELSE LET pvl == ts.n[pv].l
                      a == SetP([ts EXCEPT !.n[pvp].r = pvl], pvl, pvp)
                      b == SetCell(a, origParent, x, pv)
                      c == [b EXCEPT !.n[pv].p = origParent, !.n[pv].r = right, !.n[right].p = pv,
                                     !.n[pv].l = left, !.n[left].p = pv]
                      r == RebalParent(c, pvp, origParent, wasLeft)
                  IN FixUp(r.ts, r.parent)
  IN [ts |-> Unthread(structural, x), res |-> it.nx]          \* returns item->next

\* ---- find: [res = item or 0 (end()), cmp = number of key comparisons]
RECURSIVE FindEq(_, _, _, _)
FindEq(ts, item, k, cmp) ==          \* Map::find, and MultiMap::find as originally written
  IF item = 0 THEN [res |-> 0, cmp |-> cmp]
  ELSE IF k > ts.n[item].key THEN FindEq(ts, ts.n[item].r, k, cmp + 1)
  ELSE IF k < ts.n[item].key THEN FindEq(ts, ts.n[item].l, k, cmp + 2)
  ELSE [res |-> item, cmp |-> cmp + 2]
RECURSIVE FindLb(_, _, _, _, _)
FindLb(ts, item, cand, k, cmp) ==    \* MultiMap::find since c4be572: lower-bound descent
  IF item = 0
  THEN IF cand # 0 /\ ~(k < ts.n[cand].key) THEN [res |-> cand, cmp |-> cmp + 1]
       ELSE [res |-> 0, cmp |-> cmp + (IF cand # 0 THEN 1 ELSE 0)]
  ELSE IF k > ts.n[item].key THEN FindLb(ts, ts.n[item].r, cand, k, cmp + 1)
  ELSE FindLb(ts, ts.n[item].l, item, k, cmp + 1)
Find(ts, k) == IF Multi /\ ~OrigFind THEN FindLb(ts, ts.root, 0, k, 0) ELSE FindEq(ts, ts.root, k, 0)
\* ---- MultiMap::count: forward scan from find's result; the original loop only stopped at a null pointer, i.e. it
\*      also looked at the end sentinel (whose key is a default constructed key and whose next is null)
RECURSIVE Scan(_, _, _)
Scan(ts, item, k) ==
  IF item = 0 THEN (IF OrigFind /\ EndKey = k THEN 1 ELSE 0)
  ELSE IF ts.n[item].key = k THEN 1 + Scan(ts, ts.n[item].nx, k) ELSE 0
Count(ts, k) == LET f == Find(ts, k) IN IF f.res = 0 THEN 0 ELSE 1 + Scan(ts, ts.n[f.res].nx, k)

\* ---- Map(const Map&) / operator= / insert(const Map&): ks = key sequence of the other container (its list order)
RECURSIVE PlainAll(_, _, _, _)
PlainAll(ts, ks, i, x) == IF i > Len(ks) THEN ts ELSE PlainAll(RootInsert(ts, ks[i], x).ts, ks, i + 1, x + 1)
RECURSIVE HintAll(_, _, _, _, _)
HintAll(ts, it, ks, i, x) ==
  IF i > Len(ks) THEN ts ELSE LET r == HintInsert(ts, it, ks[i], x) IN HintAll(r.ts, r.res, ks, i + 1, x + 1)
BulkTS(ts, ks, x) == IF ks = <<>> THEN ts ELSE LET r == RootInsert(ts, ks[1], x) IN HintAll(r.ts, r.res, ks, 2, x + 1)

\* ---- renumber the items by list position
RECURSIVE ThreadOf(_, _)
ThreadOf(ts, x) == IF x = 0 THEN <<>> ELSE <<x>> \o ThreadOf(ts, ts.n[x].nx)
Normalise(ts) ==
  LET th == ThreadOf(ts, ts.first)
      inv == [y \in DOMAIN ts.n |-> CHOOSE i \in 1..Len(th) : th[i] = y]
      R(x) == IF x = 0 THEN 0 ELSE inv[x]
  IN [n |-> [i \in 1..Len(th) |-> LET nd == ts.n[th[i]] IN
               [key |-> nd.key, l |-> R(nd.l), r |-> R(nd.r), p |-> R(nd.p), h |-> nd.h, s |-> nd.s,
                nx |-> R(nd.nx), pv |-> R(nd.pv)]],
      root |-> R(ts.root), first |-> R(ts.first), lastn |-> R(ts.lastn)]
AbsOf(ts) == Set4(Init0, C, [i \in 1..Size(ts) |-> El(ts.n[i].key, 0, i)])       \* of a normalised ts

\* ---- one operation: the transcribed code yields [ts (not yet renumbered), res (item, 0 = end, -1 = none), rv];
\*      items that exist before the operation are 1..n0, items it creates are numbered from n0 + 1
OtherSeqs == {q \in UNION {[1..m -> IKeys] : m \in 0..OtherMax} :
                \A i \in 1..Len(q) - 1 : IF Multi THEN q[i] <= q[i + 1] ELSE q[i] < q[i + 1]}
ImplOn(ts, op, k, p) ==
  LET n0 == Size(ts)  x == n0 + 1  pos == IF p = n0 + 1 THEN 0 ELSE p IN
  CASE op = "insert"      -> LET r == RootInsert(ts, k, x) IN [ts |-> r.ts, res |-> r.res, rv |-> NoVal]
    [] op = "insertHint"  -> LET r == HintInsert(ts, pos, k, x) IN [ts |-> r.ts, res |-> r.res, rv |-> NoVal]
    [] op = "removeKey"   -> LET f == Find(ts, k) IN
                             [ts |-> IF f.res = 0 THEN ts ELSE RemoveTS(ts, f.res).ts, res |-> -1, rv |-> NoVal]
    [] op = "removeAt"    -> LET r == RemoveTS(ts, p) IN [ts |-> r.ts, res |-> r.res, rv |-> NoVal]
    [] op = "removeFront" -> LET r == RemoveTS(ts, ts.first) IN [ts |-> r.ts, res |-> r.res, rv |-> NoVal]
    [] op = "removeBack"  -> LET r == RemoveTS(ts, ts.lastn) IN [ts |-> r.ts, res |-> r.res, rv |-> NoVal]
    [] op = "clear"       -> [ts |-> EmptyTS, res |-> -1, rv |-> NoVal]
    [] op \in {"copy", "assign"} -> [ts |-> PlainAll(EmptyTS, k, 1, x), res |-> -1, rv |-> NoVal]
    [] op = "bulk"        -> [ts |-> BulkTS(ts, k, x), res |-> -1, rv |-> NoVal]
    [] op = "find"        -> [ts |-> ts, res |-> Find(ts, k).res, rv |-> NoVal]
    [] op = "contains"    -> [ts |-> ts, res |-> -1, rv |-> IF Find(ts, k).res # 0 THEN 1 ELSE 0]
    [] op = "count"       -> [ts |-> ts, res |-> -1, rv |-> Count(ts, k)]
    [] op = "front"       -> [ts |-> ts, res |-> ts.first, rv |-> NoVal]
    [] op = "back"        -> [ts |-> ts, res |-> ts.lastn, rv |-> NoVal]

Impl(op, k, p) == ImplOn(TS, op, k, p)

\* the Layer-1 outcomes for the same operation (the other container holds the key sequence k for copy/assign/bulk)
RefOutcomes(op, k, p) ==
  IF op \in {"copy", "assign", "bulk"}
  THEN Step(op, Set4(st, Other(C), [i \in 1..Len(k) |-> El(k[i], 0, 1000 + i)]), C, 0, 0, 0)
  ELSE Step(op, st, C, k, 0, p)
Refines(r, n0, o) ==
  LET th == ThreadOf(r.ts, r.ts.first)  q == o.m[C] IN
  /\ Len(q) = Len(th)
  /\ \A i \in 1..Len(th) : /\ q[i].k = r.ts.n[th[i]].key
                           /\ IF q[i].id = NewId THEN th[i] > n0 ELSE q[i].id = th[i]
  /\ o.rp = (IF r.res = -1 THEN NoIt ELSE IF r.res = 0 THEN EndIt ELSE CHOOSE i \in 1..Len(th) : th[i] = r.res)
  /\ o.rv = r.rv

IDo(op, k, p) ==
  /\ op \in OpSet
  /\ LET n0 == Size(TS) IN
     /\ CASE op = "insert" -> n0 < MaxN \/ (~Multi /\ \E y \in DOMAIN n : n[y].key = k)
          [] op = "insertHint" -> p \in 1..n0 + 1 /\ (n0 < MaxN \/ (~Multi /\ \E y \in DOMAIN n : n[y].key = k))
          [] op = "removeAt" -> p \in 1..n0
          [] op \in {"removeFront", "removeBack", "front", "back"} -> n0 > 0
          [] op = "bulk" -> ~Multi /\ n0 + Len(k) <= MaxN
          [] op = "count" -> Multi
          [] OTHER -> TRUE
     /\ LET r == Impl(op, k, p)
            ok == \E o \in RefOutcomes(op, k, p) : Refines(r, n0, o)
            t2 == Normalise(r.ts)
        IN /\ n' = t2.n /\ root' = t2.root /\ first' = t2.first /\ lastn' = t2.lastn
           /\ refOK' = ok
           /\ st' = AbsOf(t2)
           /\ last' = last

IInit == /\ n = <<>> /\ root = 0 /\ first = 0 /\ lastn = 0 /\ refOK = TRUE
         /\ st = Init0 /\ last = <<"init", 0, 0, 0, 0, NoIt, NoVal>>
INext == \/ \E k \in IKeys : IDo("insert", k, 0) \/ IDo("removeKey", k, 0) \/ IDo("find", k, 0) \/ IDo("contains", k, 0)
                             \/ IDo("count", k, 0) \/ \E p \in 1..MaxN + 1 : IDo("insertHint", k, p)
         \/ \E p \in 1..MaxN : IDo("removeAt", 0, p)
         \/ IDo("removeFront", 0, 0) \/ IDo("removeBack", 0, 0) \/ IDo("clear", 0, 0) \/ IDo("front", 0, 0) \/ IDo("back", 0, 0)
         \/ \E ks \in OtherSeqs : IDo("copy", ks, 0) \/ IDo("assign", ks, 0) \/ IDo("bulk", ks, 0)
         \/ \E k \in {EndKey, 99} \ IKeys : IDo("find", k, 0) \/ IDo("count", k, 0)      \* absent keys
ISpec == IInit /\ [][INext]_ivars

\* ---- invariants (the state is renumbered: item i is the i-th entry)
RECURSIVE InOrder(_), TrueHeight(_)
InOrder(x) == IF x = 0 THEN <<>> ELSE InOrder(n[x].l) \o <<x>> \o InOrder(n[x].r)
TrueHeight(x) == IF x = 0 THEN 0 ELSE 1 + Max2(TrueHeight(n[x].l), TrueHeight(n[x].r))
NN == Cardinality(DOMAIN n)
Ident == [i \in 1..NN |-> i]
RefinementOK == refOK                                            \* every step is allowed by OrderedMap
TreeOK == /\ InOrder(root) = Ident                               \* search tree: in-order = list order ...
          /\ \A i \in 1..NN - 1 : IF Multi THEN n[i].key <= n[i + 1].key ELSE n[i].key < n[i + 1].key   \* ... ascending
ThreadOK == /\ first = (IF NN = 0 THEN 0 ELSE 1) /\ lastn = NN
            /\ \A i \in 1..NN : n[i].pv = i - 1 /\ n[i].nx = (IF i = NN THEN 0 ELSE i + 1)
BalanceOK == \A x \in 1..NN : /\ n[x].h = TrueHeight(x)
                              /\ n[x].s = TrueHeight(n[x].l) - TrueHeight(n[x].r)
                              /\ n[x].s \in {-1, 0, 1}
ParentOK == /\ (root # 0 => n[root].p = 0) /\ (root = 0) = (NN = 0)
            /\ \A x \in 1..NN : (n[x].l # 0 => n[n[x].l].p = x) /\ (n[x].r # 0 => n[n[x].r].p = x)
\* the property's cost clause on every reachable shape: finding any present key costs at most 2*B(n) comparisons
LookupOK == /\ H(TS, root) <= B(NN)
            /\ \A x \in 1..NN : Find(TS, n[x].key).cmp <= CmpBound(NN)
IBound == NN <= MaxN
===============================================================================
