----------------------------- MODULE LifetimeModel -----------------------------
(* Stand-alone model of the ghost specifications Lifetime (C04) and Stability (C05).

   A small constructive reference machine: two container variables (classes list / array / poollist / hashmap), an
   instance registry, and the public operations written out as the sequence of constructions, copy constructions,
   copy assignments and destructions a correct implementation performs (temporaries of the caller, the value copy an
   Array takes before it reallocates, the temporary list of List::insert(pos, *this), element shifting of Array::remove,
   end sentinels owned by the container objects ...).  TLC checks that every reachable state and step of this machine
   satisfies the SAME predicates the trace specifications evaluate on the real drivers' traces (Lifetime!RegistryOK,
   Lifetime!StepOK, Lifetime!QuiescentOK, Stability!AddrStable, AddrDistinct, InPlaceOK) -- i.e. the ghost specification
   does not reject correct behaviour -- and, with the constant Bug set to one of the seeded defects, that the predicates
   are violated -- i.e. the ghost specification is not vacuous:
      shallowCopy        the copy constructor shares the source's instances
      noSelfCheck        operator= without the self test (clears, then copies from the now empty self)
      leakTemp           an insertion does not destroy the temporary it made
      clearNoKill        clear() drops the elements without running their destructors
      doubleKill         a removal runs the destructor twice
      valueAfterReserve  Array::append(own element) reads its argument after the reallocation
      rotateCopies       a removal moves the neighbour's payload into the freed node (copy + destroy) instead of relinking
      swapCopies         swap exchanges copies of the elements instead of the nodes
      poolTemp           PoolList::append builds a temporary and copies it into the node
      swapMoves          swap moves the element objects into other nodes (same instances, new addresses)
   IdentityOK is the model's stand-in for the functional specifications run with strict identities: each action states
   how many entries it creates and which instances it removes (act.created, act.gone).                              *)
EXTENDS Integers, Sequences, FiniteSets, TLC
CONSTANTS MaxSerial, MaxLen, Kinds, Bug
L == INSTANCE Lifetime
S == INSTANCE Stability

VARIABLES reg, hold, act
vars == <<reg, hold, act>>

Per(kind) == IF kind = "hashmap" THEN 2 ELSE 1                 \* instances per entry (key + value)
Ov(kind) == CASE kind = "list" -> 1 [] kind = "hashmap" -> 2 [] OTHER -> 0      \* the end sentinel of the container object
Copyable(kind) == kind \in {"list", "array", "hashmap"}
\* capacity growth of the model's Array: to the next odd number (the real class rounds up to 4k+3; the model only needs some
\* appends that reallocate and some that do not within small bounds)
Or3(n) == IF n % 2 = 1 THEN n ELSE n + 1
E(s, ks, a) == L!Entry(s, ks, a)
Other(i) == 3 - i

\* ---- the instance registry
Reg0 == [con |-> 0, des |-> 0, cop |-> 0, asg |-> 0, err |-> 0, live |-> {}]
RBorn(r, n) == [r EXCEPT !.con = @ + n, !.live = @ \cup ((r.con + 1)..(r.con + n))]
RCopy(r, srcs) == LET n == Len(srcs)  bad == Cardinality({x \in 1..n : srcs[x] \notin r.live})
                  IN [RBorn(r, n) EXCEPT !.cop = @ + n, !.err = @ + bad]
RKill(r, ids) == [r EXCEPT !.des = @ + Cardinality(ids \cap r.live), !.err = @ + Cardinality(ids \ r.live), !.live = @ \ ids]
RAssign(r, pairs) == [r EXCEPT !.asg = @ + Len(pairs),
                               !.err = @ + Cardinality({x \in 1..Len(pairs) : pairs[x][1] \notin r.live \/ pairs[x][2] \notin r.live})]

\* ---- holdings:  [kind, ent, cap (Array capacity, 0 otherwise), own (serials of the container object's own members)]
EntIds(ent) == UNION {L!EntryIds(ent[x]) : x \in 1..Len(ent)}
SrcSeq(ent, P) == [y \in 1..(Len(ent) * P) |-> IF P = 1 THEN ent[y].s ELSE IF y % 2 = 1 THEN ent[(y + 1) \div 2].ks ELSE ent[y \div 2].s]
NewEnt(base, n, P, ad) == [x \in 1..n |-> IF P = 1 THEN E(base + x, 0, ad[x]) ELSE E(base + 2 * x, base + 2 * x - 1, ad[x])]
NodeAddrs(h) == UNION {IF h[j].kind # "array" THEN {h[j].ent[x].a : x \in 1..Len(h[j].ent)} ELSE {} : j \in 1..2}
\* the n lowest free node addresses (a freed node is reused first, as the free lists of the classes do)
FreeSeq(used, n) == LET free == (1..(Cardinality(used) + n)) \ used
                    IN [x \in 1..n |-> CHOOSE a \in free : Cardinality({b \in free : b < a}) = x - 1]
ArrAddrs(base, n) == [x \in 1..n |-> 1000 + base + x]          \* Array slots: a new block has new addresses
AddrsFor(kind, used, base, n, P) == IF kind = "array" THEN ArrAddrs(base, n) ELSE FreeSeq(used, n)
InsertAt(q, p, e) == SubSeq(q, 1, p) \o <<e>> \o SubSeq(q, p + 1, Len(q))
RemoveAt(q, x) == SubSeq(q, 1, x - 1) \o SubSeq(q, x + 1, Len(q))

World(h) == [j \in 1..2 |-> L!Holding(h[j].kind, h[j].ent)]
LtOf(r) == [con |-> r.con, des |-> r.con - Cardinality(r.live), cop |-> r.cop, asg |-> r.asg, err |-> r.err]
OvOf(h) == <<Ov(h[1].kind), Ov(h[2].kind)>>
Ld(h, r) == Cardinality(L!HeldIds(World(h)) \ r.live)

\* copies of the entries ent (class kind) constructed into fresh storage:  [reg, ent]
CopyEntries(r, ent, kind, used) ==
  LET P == Per(kind)  n == Len(ent)  r1 == RCopy(r, SrcSeq(ent, P))
  IN [reg |-> r1, ent |-> NewEnt(r.con, n, P, AddrsFor(kind, used, r.con, n, P))]
\* Array reallocation: every element is copied into the new block and the old one destroyed
Relocate(r, ent) == LET c == CopyEntries(r, ent, "array", {}) IN [reg |-> RKill(c.reg, EntIds(ent)), ent |-> c.ent]
\* Array::append(const T& src): the value is copied BEFORE a reallocation that may destroy it
ArrayAppend(r, h, src) ==
  LET n == Len(h.ent) IN
  IF n + 1 > h.cap
  THEN IF Bug = "valueAfterReserve"
       THEN LET rel == Relocate(r, h.ent)  r2 == RCopy(rel.reg, <<src>>)  e == rel.reg.con + 1
            IN [reg |-> r2, ent |-> Append(rel.ent, E(e, 0, 1000 + e)), cap |-> Or3(n + 1)]
       ELSE LET r1 == RCopy(r, <<src>>)  vc == r.con + 1
                rel == Relocate(r1, h.ent)  r2 == RCopy(rel.reg, <<vc>>)  e == rel.reg.con + 1
            IN [reg |-> RKill(r2, {vc}), ent |-> Append(rel.ent, E(e, 0, 1000 + e)), cap |-> Or3(n + 1)]
  ELSE LET r2 == RCopy(r, <<src>>)  e == r.con + 1 IN [reg |-> r2, ent |-> Append(h.ent, E(e, 0, 1000 + e)), cap |-> h.cap]

Act(name, i, created, gone) == [name |-> name, i |-> i, created |-> created, gone |-> gone, q |-> -1]
Set(i, ent, cap) == [hold EXCEPT ![i].ent = ent, ![i].cap = cap]

\* The counters des / cop / asg of the state are those of the LAST step (every operation starts counting from zero); the
\* absolute number of destructions is con - |live| (a second destruction of an instance is an error, not a destruction).
R == [reg EXCEPT !.des = 0, !.cop = 0, !.asg = 0]
\* ---- operations
Insert(i, p) ==                      \* insert / append / prepend of a value the caller passes as a temporary
  LET h == hold[i]  P == Per(h.kind)  n == Len(h.ent) IN
  /\ n < MaxLen /\ p \in 0..n /\ (h.kind \in {"array", "poollist"} => p = n)
  /\ act' = Act("Insert", i, 1, {})
  /\ IF h.kind = "poollist" /\ Bug # "poolTemp"
     THEN /\ reg' = RBorn(R, 1)                                                     \* constructed in place
          /\ hold' = Set(i, Append(h.ent, E(R.con + 1, 0, FreeSeq(NodeAddrs(hold), 1)[1])), 0)
     ELSE LET r1 == RBorn(R, P)  temps == (R.con + 1)..(R.con + P) IN           \* the caller's temporaries
          IF h.kind = "array"
          THEN LET a == ArrayAppend(r1, h, R.con + 1)
               IN reg' = RKill(a.reg, temps) /\ hold' = Set(i, a.ent, a.cap)
          ELSE LET r2 == RCopy(r1, [y \in 1..P |-> R.con + y])
                   e == NewEnt(r1.con, 1, P, FreeSeq(NodeAddrs(hold), 1))[1]
               IN /\ reg' = (IF Bug = "leakTemp" THEN r2 ELSE RKill(r2, temps))
                  /\ hold' = Set(i, InsertAt(h.ent, p, e), 0)
InsertOwn(i, x, p) ==                \* the argument is a reference to the container's own element x
  LET h == hold[i]  n == Len(h.ent) IN
  /\ h.kind \in {"list", "array"} /\ n < MaxLen /\ x \in 1..n /\ p \in 0..n /\ (h.kind = "array" => p = n)
  /\ act' = Act("InsertOwn", i, 1, {})
  /\ IF h.kind = "array"
     THEN LET a == ArrayAppend(R, h, h.ent[x].s) IN reg' = a.reg /\ hold' = Set(i, a.ent, a.cap)
     ELSE LET r2 == RCopy(R, <<h.ent[x].s>>)
          IN reg' = r2 /\ hold' = Set(i, InsertAt(h.ent, p, E(R.con + 1, 0, FreeSeq(NodeAddrs(hold), 1)[1])), 0)
Overwrite(i, x) ==                   \* HashMap insert of a present key: the value is assigned in place
  LET h == hold[i] IN
  /\ h.kind = "hashmap" /\ x \in 1..Len(h.ent)
  /\ act' = Act("Overwrite", i, 0, {})
  /\ LET r1 == RBorn(R, 2)  r2 == RAssign(r1, << <<h.ent[x].s, R.con + 2>> >>)
     IN reg' = RKill(r2, {R.con + 1, R.con + 2}) /\ UNCHANGED hold
Remove(i, x) ==
  LET h == hold[i]  n == Len(h.ent) IN
  /\ x \in 1..n
  /\ IF h.kind = "array"
     THEN \* the values are shifted down by assignment, the last instance is destroyed
          /\ act' = Act("Remove", i, 0, {h.ent[n].s})
          /\ reg' = RKill(RAssign(R, [k \in 1..(n - x) |-> <<h.ent[x + k - 1].s, h.ent[x + k].s>>]), {h.ent[n].s})
          /\ hold' = Set(i, SubSeq(h.ent, 1, n - 1), h.cap)
     ELSE /\ act' = Act("Remove", i, 0, L!EntryIds(h.ent[x]))
          /\ IF Bug = "rotateCopies" /\ n >= 2
             THEN LET y == IF x < n THEN x + 1 ELSE x - 1          \* the neighbour's payload moves into the freed node
                      c == CopyEntries(R, <<h.ent[y]>>, h.kind, {})
                      moved == [c.ent[1] EXCEPT !.a = h.ent[x].a]
                  IN /\ reg' = RKill(c.reg, L!EntryIds(h.ent[x]) \cup L!EntryIds(h.ent[y]))
                     /\ hold' = Set(i, RemoveAt([h.ent EXCEPT ![y] = moved], x), 0)
             ELSE /\ reg' = (IF Bug = "doubleKill" THEN RKill(RKill(R, L!EntryIds(h.ent[x])), L!EntryIds(h.ent[x]))
                             ELSE RKill(R, L!EntryIds(h.ent[x])))
                  /\ hold' = Set(i, RemoveAt(h.ent, x), 0)
Clear(i) ==
  LET h == hold[i] IN
  /\ Len(h.ent) > 0
  /\ act' = Act("Clear", i, 0, EntIds(h.ent))
  /\ reg' = (IF Bug = "clearNoKill" THEN R ELSE RKill(R, EntIds(h.ent)))
  /\ hold' = Set(i, <<>>, h.cap)
CopyCtor(i) ==                       \* variable i := Class(other): a new object is built, then the old one destroyed
  LET h == hold[i]  o == hold[Other(i)] IN
  /\ h.kind = o.kind /\ Copyable(h.kind)
  /\ act' = Act("CopyCtor", i, Len(o.ent), EntIds(h.ent))
  /\ LET r1 == RBorn(R, Ov(h.kind))  own == (R.con + 1)..(R.con + Ov(h.kind))
         c == IF Bug = "shallowCopy" THEN [reg |-> r1, ent |-> o.ent] ELSE CopyEntries(r1, o.ent, h.kind, NodeAddrs(hold))
     IN /\ reg' = RKill(c.reg, EntIds(h.ent) \cup h.own)
        /\ hold' = [hold EXCEPT ![i] = [kind |-> h.kind, ent |-> c.ent, cap |-> o.cap, own |-> own]]
AssignFrom(i, src, name) ==          \* clear(), then copy element by element from src (a holding)
  LET h == hold[i]
      r1 == RKill(R, EntIds(h.ent))
      cleared == [hold EXCEPT ![i].ent = <<>>]
      from == IF src = i THEN <<>> ELSE hold[src].ent              \* a self-assignment without the self test reads the cleared self
      c == CopyEntries(r1, from, h.kind, NodeAddrs(cleared))
  IN /\ reg' = c.reg
     /\ hold' = Set(i, c.ent, IF h.kind = "array" THEN Or3(IF Len(from) > h.cap THEN Len(from) ELSE h.cap) ELSE 0)
Assign(i) ==
  /\ hold[i].kind = hold[Other(i)].kind /\ Copyable(hold[i].kind)
  /\ act' = Act("Assign", i, Len(hold[Other(i)].ent), EntIds(hold[i].ent))
  /\ AssignFrom(i, Other(i), "Assign")
AssignSelf(i) ==
  /\ Copyable(hold[i].kind)
  /\ act' = Act("AssignSelf", i, 0, {})                            \* "as if copied first": the contents are kept
  /\ IF Bug = "noSelfCheck" THEN AssignFrom(i, i, "AssignSelf") ELSE reg' = R /\ UNCHANGED hold
AppendEntries(i, src) ==             \* append copies of the entries src (instances alive now) to variable i
  LET h == hold[i]  n == Len(h.ent)  m == Len(src) IN
  IF h.kind = "array"
  THEN LET rel == IF n + m > h.cap THEN Relocate(R, h.ent) ELSE [reg |-> R, ent |-> h.ent]
           \* append(const Array& values) reads values' begin after reserve(): with values = *this it reads the new block
           from == IF src = h.ent THEN rel.ent ELSE src
           c == CopyEntries(rel.reg, from, "array", {})
       IN reg' = c.reg /\ hold' = Set(i, rel.ent \o c.ent, IF n + m > h.cap THEN Or3(n + m) ELSE h.cap)
  ELSE LET c == CopyEntries(R, src, h.kind, NodeAddrs(hold)) IN reg' = c.reg /\ hold' = Set(i, h.ent \o c.ent, 0)
AppendAll(i) ==
  LET h == hold[i]  o == hold[Other(i)] IN
  /\ h.kind = o.kind /\ h.kind \in {"list", "array"} /\ Len(o.ent) > 0 /\ Len(h.ent) + Len(o.ent) <= MaxLen
  /\ act' = Act("AppendAll", i, Len(o.ent), {})
  /\ AppendEntries(i, o.ent)
AppendSelf(i) ==
  LET h == hold[i]  n == Len(h.ent) IN
  /\ h.kind \in {"list", "array"} /\ n > 0 /\ 2 * n <= MaxLen
  /\ act' = Act("AppendSelf", i, n, {})
  /\ IF h.kind = "array" THEN AppendEntries(i, h.ent)
     ELSE \* List::insert(pos, *this): a temporary copy of the list (object + elements) is inserted and destroyed
          LET r1 == RBorn(R, 1)  tmpOwn == {R.con + 1}
              t == CopyEntries(r1, h.ent, "list", NodeAddrs(hold))
              c == CopyEntries(t.reg, t.ent, "list", NodeAddrs(hold) \cup {t.ent[x].a : x \in 1..n})
          IN /\ reg' = RKill(c.reg, EntIds(t.ent) \cup tmpOwn)
             /\ hold' = Set(i, h.ent \o c.ent, 0)
Swap(i) ==
  LET h == hold[i]  o == hold[Other(i)] IN
  /\ h.kind = o.kind /\ i = 1
  /\ act' = Act("Swap", i, 0, {})
  /\ IF Bug = "swapCopies" /\ Copyable(h.kind)
     THEN LET a == CopyEntries(R, o.ent, h.kind, NodeAddrs(hold))
              used2 == NodeAddrs(hold) \cup {a.ent[x].a : x \in 1..Len(a.ent)}
              b == CopyEntries(a.reg, h.ent, h.kind, IF h.kind = "array" THEN {} ELSE used2)
          IN /\ reg' = RKill(b.reg, EntIds(h.ent) \cup EntIds(o.ent))
             /\ hold' = [hold EXCEPT ![i].ent = a.ent, ![Other(i)].ent = b.ent, ![i].cap = o.cap, ![Other(i)].cap = h.cap]
     ELSE IF Bug = "swapMoves" /\ h.kind # "array"
     THEN LET mv(q) == [x \in 1..Len(q) |-> [q[x] EXCEPT !.a = @ + 50]]      \* the element objects are moved to other nodes
          IN /\ reg' = R
             /\ hold' = [hold EXCEPT ![i].ent = mv(o.ent), ![Other(i)].ent = mv(h.ent), ![i].cap = o.cap, ![Other(i)].cap = h.cap]
     ELSE /\ reg' = R                                              \* the elements are handed over, nothing is touched
          /\ hold' = [hold EXCEPT ![i].ent = o.ent, ![Other(i)].ent = h.ent, ![i].cap = o.cap, ![Other(i)].cap = h.cap]
Reserve(i) ==
  LET h == hold[i] IN
  /\ h.kind = "array" /\ h.cap < 7
  /\ act' = Act("Reserve", i, 0, {})
  /\ LET rel == Relocate(R, h.ent) IN reg' = rel.reg /\ hold' = Set(i, rel.ent, Or3(h.cap + 1))
NewVar(i, kind) ==
  LET h == hold[i] IN
  /\ kind # h.kind \/ Len(h.ent) > 0
  /\ act' = Act("NewVar", i, 0, EntIds(h.ent))
  /\ LET r1 == RKill(R, EntIds(h.ent) \cup h.own) IN
     /\ reg' = RBorn(r1, Ov(kind))
     /\ hold' = [hold EXCEPT ![i] = [kind |-> kind, ent |-> <<>>, cap |-> 0, own |-> (r1.con + 1)..(r1.con + Ov(kind))]]
Fini ==                              \* both containers destroyed (quiescent point), then recreated as empty lists
  LET all == EntIds(hold[1].ent) \cup EntIds(hold[2].ent) \cup hold[1].own \cup hold[2].own
      r1 == RKill(R, all) IN
  /\ act.name # "Fini"
  /\ act' = [Act("Fini", 1, 0, all) EXCEPT !.q = Cardinality(r1.live)]
  /\ reg' = RBorn(r1, 2)
  /\ hold' = <<[kind |-> "list", ent |-> <<>>, cap |-> 0, own |-> {r1.con + 1}],
               [kind |-> "list", ent |-> <<>>, cap |-> 0, own |-> {r1.con + 2}]>>

Init == /\ reg = RBorn(Reg0, 2)
        /\ hold = <<[kind |-> "list", ent |-> <<>>, cap |-> 0, own |-> {1}], [kind |-> "list", ent |-> <<>>, cap |-> 0, own |-> {2}]>>
        /\ act = Act("Init", 0, 0, {})
Next == \/ \E i \in 1..2 :
            \/ \E p \in 0..MaxLen : Insert(i, p) \/ \E x \in 1..MaxLen : InsertOwn(i, x, p)
            \/ \E x \in 1..MaxLen : Overwrite(i, x) \/ Remove(i, x)
            \/ Clear(i) \/ CopyCtor(i) \/ Assign(i) \/ AssignSelf(i) \/ AppendAll(i) \/ AppendSelf(i) \/ Swap(i) \/ Reserve(i)
            \/ \E kind \in Kinds : NewVar(i, kind)
        \/ Fini
Spec == Init /\ [][Next]_vars
Bound == reg.con <= MaxSerial
\* States are identified up to an order-preserving renumbering of the live serials (cfg: VIEW Canon): the behaviour of the
\* machine does not depend on the numbers themselves.  Every explored step is still a genuine (raw) step, and TLC evaluates
\* the action properties on every generated transition, also on those that lead to a state already seen.
Rank(s) == IF s \in reg.live THEN Cardinality({t \in reg.live : t <= s}) ELSE 0
Canon == [live |-> Cardinality(reg.live), err |-> reg.err, name |-> act.name, q |-> act.q,
          hold |-> [j \in 1..2 |-> [kind |-> hold[j].kind, cap |-> hold[j].cap, own |-> {Rank(s) : s \in hold[j].own},
                                    ent |-> [x \in 1..Len(hold[j].ent) |->
                                               [s |-> Rank(hold[j].ent[x].s),
                                                ks |-> IF hold[j].ent[x].ks = 0 THEN 0 ELSE Rank(hold[j].ent[x].ks),
                                                a |-> IF hold[j].kind = "array" THEN 0 ELSE hold[j].ent[x].a]]]]]

\* ---- the properties: the predicates of Lifetime / Stability on every state and step of the machine
RegistryInv == L!RegistryOK(World(hold), LtOf(reg), OvOf(hold), Ld(hold, reg))
QuiescentInv == act.name = "Fini" => L!QuiescentOK(act.q)
StepProp == [][L!StepOK(World(hold), LtOf(R), OvOf(hold), World(hold'), LtOf(reg'), OvOf(hold'))]_vars
StableProp == [][S!AddrStable(World(hold), World(hold')) /\ S!AddrDistinct(World(hold'))]_vars
InPlaceProp == [][(hold[act'.i].kind = "poollist" /\ act'.name \notin {"NewVar", "Fini"}) =>
                    S!InPlaceOK("poollist", act'.created, 0, 0, reg'.cop, reg'.asg)]_vars
\* stand-in for the functional specifications with strict identities: which instances an operation may add / remove
IdentityOK ==
  LET H == L!HeldIds(World(hold))  H2 == L!HeldIds(World(hold'))  a == act'
      arrays == \E j \in 1..2 : hold[j].kind = "array" /\ a.name \notin {"NewVar", "Fini"} /\ (j = a.i \/ a.name = "Swap")
  IN IF a.name = "Fini" THEN H2 = {}
     ELSE IF arrays THEN Cardinality(H2) = Cardinality(H) + a.created - Cardinality(a.gone)      \* an Array may relocate
     ELSE /\ H \ H2 = a.gone
          /\ Cardinality(H2 \ H) = a.created * Per(hold'[a.i].kind)
          /\ (a.name = "Swap" => hold'[1].ent = hold[2].ent /\ hold'[2].ent = hold[1].ent)
IdentityProp == [][IdentityOK]_vars
================================================================================
