SPECIFICATION Spec
CONSTANTS Keys = {1, 2}
 Vals = {0, 1}
 MaxLen = 3
 Cs = {3, 4}
INVARIANT TypeOK
PROPERTIES OrderKept InsertionOrder QueriesOK
CONSTRAINT Bound
VIEW ViewKV
