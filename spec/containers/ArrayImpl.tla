------------------------------- MODULE ArrayImpl -------------------------------
(* Layer 2 (implementation shaped) model of nstd::Array, transcribed from include/nstd/Array.hpp: the storage block
   (alloc = number of element slots of the block _begin points to, 0 = _begin is null), the _capacity field, the
   constructed elements; reserve with the growth rule as written (_capacity = max(size, _capacity) | 0x03, taken when
   size > _capacity or nothing is allocated yet), resize, append, the shifting removal, copy construction and
   assignment (clear + reserve(other.capacity()) + copy), swap.  Every element write is explicit so that "constructs
   outside the block" (oob) is a state predicate.  Two Array variables; the ghost variable st is the Layer-1
   reference (RefSeq) advanced by the same operation: TLC checks refinement after every step.                     *)
EXTENDS RefSeq
CONSTANTS MaxCap, MaxLen2, CapArgs, UVars, BVars, FillArgs
VARIABLES arr, oob, refOK
ivars == <<arr, oob, refOK, st, last>>

Or3(x) == x - (x % 4) + 3                         \* x | 0x03
A(al, cp, es) == [alloc |-> al, cap |-> cp, e |-> es]
Empty0 == A(0, 0, <<>>)

\* ---- Array::reserve(size)
Reserve(a, size) ==
  IF size > a.cap \/ (a.alloc = 0 /\ size > 0)
  THEN LET c == Or3(IF size > a.cap THEN size ELSE a.cap) IN A(c, c, a.e)      \* elements copy-constructed into the new block
  ELSE a
\* constructing n elements xs behind the current end; reports a write outside the block
Construct(a, xs) == [a |-> A(a.alloc, a.cap, a.e \o xs), o |-> Len(a.e) + Len(xs) > a.alloc]
\* ---- the shifting removal: for(end = --_end; pos < end;) { dest = pos; *dest = *(++pos); }  pos->~T();
RECURSIVE Shift(_, _)
Shift(es, pos) == IF pos < Len(es) THEN Shift([es EXCEPT ![pos] = es[pos + 1]], pos + 1) ELSE SubSeq(es, 1, Len(es) - 1)

R(a1, o, r) == [a |-> a1, o |-> o, r |-> r]
Impl(op, i, v, p) ==
  LET a == arr[i]  b == arr[Other(i)]  n == Len(a.e) IN
  CASE op = "new" -> R(A(0, p, <<>>), FALSE, NoRes)                              \* Array() / Array(capacity): no allocation
    [] op = "reserve" -> R(Reserve(a, p), FALSE, NoRes)
    [] op = "resize" \/ op = "resized" ->
         LET x == IF op = "resize" THEN v ELSE 0 IN
         IF p < n THEN R(A(a.alloc, a.cap, SubSeq(a.e, 1, p)), FALSE, NoRes)
         ELSE LET c == Construct(Reserve(a, p), Rep(x, p - n)) IN R(c.a, c.o, NoRes)
    [] op = "append" -> LET c == Construct(Reserve(a, n + 1), <<v>>) IN R(c.a, c.o, n + 1)
    [] op = "appendn" -> LET c == Construct(Reserve(a, n + p), Rep(v, p)) IN R(c.a, c.o, NoRes)
    [] op = "appendall" -> LET c == Construct(Reserve(a, n + Len(b.e)), b.e) IN R(c.a, c.o, NoRes)
    [] op = "rmidx" -> IF p < n THEN R(A(a.alloc, a.cap, Shift(a.e, p + 1)), FALSE, NoRes) ELSE R(a, FALSE, NoRes)
    [] op = "rmat" -> R(A(a.alloc, a.cap, Shift(a.e, p + 1)), FALSE, IF p + 1 <= n - 1 THEN p + 1 ELSE EndPos)
    [] op = "rmfront" -> R(A(a.alloc, a.cap, Shift(a.e, 1)), FALSE, IF n - 1 >= 1 THEN 1 ELSE EndPos)
    [] op = "rmback" -> R(A(a.alloc, a.cap, Shift(a.e, n)), FALSE, EndPos)
    [] op = "clear" -> R(A(a.alloc, a.cap, <<>>), FALSE, NoRes)
    [] op = "copy" -> LET c == Construct(Reserve(Empty0, b.cap), b.e) IN R(c.a, c.o, NoRes)
    [] op = "assign" -> LET c == Construct(Reserve(A(a.alloc, a.cap, <<>>), b.cap), b.e) IN R(c.a, c.o, NoRes)
    [] op = "find" -> R(a, FALSE, IF \E k \in 1..n : a.e[k] = v THEN CHOOSE k \in 1..n : a.e[k] = v /\ \A j \in 1..(k - 1) : a.e[j] # v ELSE EndPos)
    [] op = "front" -> R(a, FALSE, 1)
    [] op = "back" -> R(a, FALSE, n)

IDo(op, i, v, p, kd) ==
  /\ Step(op, st, i, v, p, kd) # {}                      \* the operation is offered / its precondition holds
  /\ LET r == IF op = "swap" THEN R(arr[i], FALSE, NoRes) ELSE Impl(op, i, v, p)
         narr == IF op = "swap" THEN <<arr[2], arr[1]>> ELSE [arr EXCEPT ![i] = r.a]
         cands == { o \in Step(op, st, i, v, p, kd) : o.r = r.r /\ \A j \in 1..2 : ValsOf(o.c[j]) = narr[j].e }
     IN /\ arr' = narr
        /\ oob' = (oob \/ r.o)
        /\ refOK' = (refOK /\ cands # {})
        /\ st' = IF cands # {} THEN StOf(CHOOSE o \in cands : TRUE) ELSE st
        /\ last' = <<op, i, v, p, r.r, NoB>>

IInit == /\ arr = <<Empty0, Empty0>> /\ oob = FALSE /\ refOK = TRUE
         /\ st = [kind |-> <<"array", "array">>, c |-> << <<>>, <<>> >>] /\ last = <<"init", 0, 0, 0, NoRes, NoB>>
INext == \/ \E i \in UVars :
              \/ \E p \in CapArgs : IDo("new", i, 0, p, "array") \/ IDo("reserve", i, 0, p, "")
              \/ \E v \in Values : IDo("append", i, v, 0, "") \/ IDo("find", i, v, 0, "")
              \/ \E v \in Values, p \in 0..MaxLen : IDo("resize", i, v, p, "")
              \/ \E v \in Values, p \in FillArgs : IDo("appendn", i, v, p, "")
              \/ \E p \in FillArgs : IDo("resized", i, 0, p, "")
              \/ \E p \in 0..MaxLen : IDo("rmidx", i, 0, p, "") \/ IDo("rmat", i, 0, p, "")
              \/ \E op \in {"rmfront", "rmback", "clear", "front", "back"} : IDo(op, i, 0, 0, "")
         \/ \E i \in BVars : \E op \in {"appendall", "copy", "assign", "swap"} : IDo(op, i, 0, 0, "")
ISpec == IInit /\ [][INext]_ivars
IBound == Len(arr[1].e) <= MaxLen /\ Len(arr[2].e) <= MaxLen2 /\ arr[1].cap <= Or3(MaxCap) /\ arr[2].cap <= Or3(MaxCap)

\* ---- invariants
RefinementOK == refOK /\ \A j \in 1..2 : ValsOf(st.c[j]) = arr[j].e
NoOverflow == ~oob
BlockOK == \A j \in 1..2 : /\ arr[j].alloc \in {0, arr[j].cap}
                           /\ Len(arr[j].e) <= arr[j].alloc
                           /\ arr[j].alloc > 0 => arr[j].alloc % 4 = 3
================================================================================
