SPECIFICATION Spec
CONSTANTS MaxLen = 2
 Bytes = {1, 2}
 AttLen = 1
 DataMax = 1
INVARIANT TypeOK
PROPERTY FifoStep
CONSTRAINT Bound
