------------------------------- MODULE ByteQueue -------------------------------
(* Layer 1 (property level) specification of nstd::Buffer for property C08.

   Two Buffer variables (index 1, 2).  Abstract state of one variable:
     q    : the exposed bytes (a reference byte queue); the value AnyB stands for a byte whose value is
            unspecified (newly exposed by a growing resize)
     mode : "none"  no storage (default constructed / freed)
            "att"   views attached foreign memory (does not own)
            "own"   owns its storage
   Every public operation is one step  Step(op, s, i, d, n)  = the set of allowed abstract successor states.
   The same operator serves model checking (Next) and trace validation (ByteQueueTrace).                     *)
EXTENDS Integers, Sequences, FiniteSets, TLC

AnyB == -1                       \* wildcard byte in the reference (one-sided: see Match)
AttByte(k) == 65 + k            \* content of the attachable range: byte k (0-based) is 'A'+k
Other(i) == 3 - i

Rep(x, n) == [k \in 1..n |-> x]
Take(q, n) == SubSeq(q, 1, n)
Drop(q, n) == SubSeq(q, n + 1, Len(q))

QResize(q, n) == IF n <= Len(q) THEN Take(q, n) ELSE q \o Rep(AnyB, n - Len(q))
\* (n < 0 in a trace stands for a count close to the maximum of the size type: SIZE_MAX + 1 + n)
QRemoveFront(q, n) == IF n < 0 \/ n >= Len(q) THEN <<>> ELSE Drop(q, n)
QRemoveBack(q, n) == IF n < 0 \/ n >= Len(q) THEN <<>> ELSE Take(q, Len(q) - n)

Set2(f, i, v) == [f EXCEPT ![i] = v]

\* mode after an operation that may have to take ownership: an attached buffer may stay attached only while
\* the result still fits the attached view (the implementation decides); "none" stays "none" only while empty.
ModesAfterGrow(m, newq) ==
  CASE m = "own" -> {"own"}
    [] m = "att" -> {"att", "own"}
    [] OTHER     -> IF newq = <<>> THEN {"none", "own"} ELSE {"own"}

Upd(s, i, newq) == { [q |-> Set2(s.q, i, newq), mode |-> Set2(s.mode, i, m)] : m \in ModesAfterGrow(s.mode[i], newq) }

Ops == {"append", "prepend", "assign", "resize", "reserve", "rmfront", "rmback", "clear", "free", "swap",
        "copy", "assignb", "appendb", "prependb", "attach", "ctor", "ctord", "eq",
        "assignself", "appendself", "prependself", "swapself"}           \* the buffer itself as the argument

Step(op, s, i, d, n) ==
  LET q == s.q[i]  o == Other(i) IN
  CASE op = "append"   -> Upd(s, i, q \o d)
    [] op = "prepend"  -> Upd(s, i, d \o q)
    [] op = "assign"   -> Upd(s, i, d)
    [] op = "resize"   -> Upd(s, i, QResize(q, n))
    [] op = "reserve"  -> Upd(s, i, q)
    [] op = "rmfront"  -> Upd(s, i, QRemoveFront(q, n))
    [] op = "rmback"   -> Upd(s, i, QRemoveBack(q, n))
    [] op = "clear"    -> Upd(s, i, <<>>)
    [] op = "free"     -> { [q |-> Set2(s.q, i, <<>>), mode |-> Set2(s.mode, i, "none")] }
    [] op = "swap"     -> { [q |-> <<s.q[2], s.q[1]>>, mode |-> <<s.mode[2], s.mode[1]>>] }
    [] op = "copy"     -> { [q |-> Set2(s.q, i, s.q[o]), mode |-> Set2(s.mode, i, "own")] }     \* i := Buffer(other)
    [] op = "assignb"  -> Upd(s, i, s.q[o])                                                     \* i = other
    [] op = "appendb"  -> Upd(s, i, q \o s.q[o])
    [] op = "prependb" -> Upd(s, i, s.q[o] \o q)
    [] op = "assignself"  -> { s } \cup Upd(s, i, q)        \* b = b: unchanged (it may take ownership of an attached view)
    [] op = "appendself"  -> Upd(s, i, q \o q)
    [] op = "prependself" -> Upd(s, i, q \o q)
    [] op = "swapself"    -> { s }
    [] op = "attach"   -> { [q |-> Set2(s.q, i, [k \in 1..n |-> AttByte(k - 1)]), mode |-> Set2(s.mode, i, "att")] }
    [] op = "ctor"     -> { [q |-> Set2(s.q, i, <<>>), mode |-> Set2(s.mode, i, "own")] }       \* i := Buffer(capacity n)
    [] op = "ctord"    -> { [q |-> Set2(s.q, i, d), mode |-> Set2(s.mode, i, "own")] }          \* i := Buffer(data, size)
    [] op = "eq"       -> { s }

\* result of a query operation (only "eq" has one)
Result(op, s, i) == IF op = "eq" THEN s.q[1] = s.q[2] ELSE TRUE

\* One-sided wildcard: a reference byte AnyB matches every implementation byte; an implementation byte never
\* matches a different concrete reference byte.  (Uninitialised implementation memory is poisoned with 190 by the
\* harness, which is not in any generated alphabet, so it only matches AnyB.)
MatchBytes(ref, obs) == Len(ref) = Len(obs) /\ \A k \in 1..Len(ref) : ref[k] = AnyB \/ ref[k] = obs[k]

\* obs = [q |-> <<bytes1, bytes2>>, own |-> <<bool, bool>>, term |-> <<int, int>>, guard |-> BOOLEAN]
\*   own[i]  : the variable currently owns heap storage
\*   term[i] : the byte following the last data byte if the variable owns storage or has no storage, else -1
\*             (the property promises the zero byte only for a variable that owns its storage)
\*   guard   : every byte of attachable memory outside the currently attached range still has its original value
Match(o, obs) ==
  /\ \A i \in 1..2 :
       /\ MatchBytes(o.q[i], obs.q[i])
       /\ (o.mode[i] = "own") = obs.own[i]
       /\ (o.mode[i] = "own") => obs.term[i] = 0
  /\ obs.guard

\* the abstract state that a matched observation denotes (wildcards become the observed bytes)
Concrete(o, obs) == [q |-> obs.q, mode |-> o.mode]

Init0 == [q |-> << <<>>, <<>> >>, mode |-> <<"none", "none">>]

--------------------------------------------------------------------------------
\* Stand-alone model (bounded) -- also the reference that BufferImpl refines.
CONSTANTS MaxLen, Bytes, AttLen, DataMax
VARIABLES st, last
vars == <<st, last>>
Data == UNION { [1..k -> Bytes] : k \in 0..DataMax }
Do(op, i, d, n) == /\ \E o \in Step(op, st, i, d, n) : st' = o
                   /\ last' = <<op, i, d, n, Result(op, st, i)>>
Init == st = Init0 /\ last = <<"init", 0, <<>>, 0, TRUE>>
Next == \E i \in 1..2 :
          \/ \E d \in Data : Do("append", i, d, 0) \/ Do("prepend", i, d, 0) \/ Do("assign", i, d, 0) \/ Do("ctord", i, d, 0)
          \/ \E n \in 0..MaxLen : Do("resize", i, <<>>, n) \/ Do("reserve", i, <<>>, n) \/ Do("rmfront", i, <<>>, n)
                                  \/ Do("rmback", i, <<>>, n) \/ Do("ctor", i, <<>>, n)
          \/ \E n \in 0..AttLen : Do("attach", i, <<>>, n)
          \/ Do("clear", i, <<>>, 0) \/ Do("free", i, <<>>, 0) \/ Do("swap", i, <<>>, 0) \/ Do("copy", i, <<>>, 0)
          \/ Do("assignb", i, <<>>, 0) \/ Do("appendb", i, <<>>, 0) \/ Do("prependb", i, <<>>, 0) \/ Do("eq", i, <<>>, 0)
Spec == Init /\ [][Next]_vars
Bound == \A i \in 1..2 : Len(st.q[i]) <= MaxLen

\* sanity properties of the reference itself
TypeOK == /\ \A i \in 1..2 : st.mode[i] \in {"none", "att", "own"}
          /\ \A i \in 1..2 : st.mode[i] = "none" => st.q[i] = <<>>
\* a queue: what is appended at the back comes out at the front in the same order
FifoStep == [][\A i \in 1..2 : (last'[1] = "append" /\ last'[2] = i) =>
                 \E m \in {"none", "att", "own"} : st'.q[i] = st.q[i] \o last'[3]]_vars
================================================================================
