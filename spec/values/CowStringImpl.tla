------------------------------ MODULE CowStringImpl ------------------------------
(* Layer 2 (implementation shaped) model of nstd::String's lazy-copy representation, transcribed from
   include/nstd/String.hpp and src/String.cpp.

   A String handle is one of
     [k |-> "empty"]                     data = &emptyData
     [k |-> "lit", j |-> block]          data = &_data, str = the literal (external block j), len = N - 1
     [k |-> "att", j |-> block, n |-> len]   data = &_data, str = attached memory, len = n (terminated iff the byte
                                             following the range is 0)
     [k |-> "own", b |-> id]             data = heap block id
   blk[id] = [s |-> bytes (Len = data->len), cap |-> data->capacity, ref |-> data->ref, term |-> str[len] = 0 ?]
   Handles 1..NV are the String variables; handles NV+1, NV+2 are the temporaries that live inside one operation
   (prepend's `copy`, replace's `result`, substr's return value, the driver's `new String(...)` before `delete`).
   Every operation is transcribed statement by statement as a composition of the primitives CopyCtor, Detach,
   AssignOp, Unref (destructor), Conv (operator const char* ) ... on a machine record M = [rep, blk, err].
   The ghost variable st is the Layer-1 reference (ByteStrings) advanced by the same operation: TLC checks
   refinement, reference counts, single free, terminator and independence after every step.

   Orig = TRUE transcribes prepend(const String&) and replace(needle, replacement) as they were written before
   the fixes for findings F7 / F8 (CowStringImpl_orig.cfg: TLC reports both); Orig = FALSE is the current code. *)
EXTENDS ByteStrings
\* Configuration: Orig (see above); argument sets of reserve / resize / attach / append(char); Skip = operations
\* left out of a configuration (the cfg files trade variables x string length x operations for graph size: every
\* edge of the dumped graph is replayed on the real class).  MaxLen bounds the strings of the states that are
\* expanded; Bytes gives the one-byte data arguments (DataSet).
CONSTANTS Orig, CapSet, ResizeSet, AttLens, CharSet, Skip
VARIABLES rep, blk, xm, err
ivars == <<rep, blk, xm, err, st>>

G == 190                        \* uninitialised heap byte (the harness poisons fresh memory with the same value)
T1 == NV + 1
T2 == NV + 2
Slots == 1..(NV + 2)
Dead == [k |-> "dead"]
EmptyH == [k |-> "empty"]
BlockIds == 1..(NV + 3)
Cap3(n) == n - (n % 4) + 3      \* n | 0x3
PadG(s, n) == IF Len(s) >= n THEN Take(s, n) ELSE s \o Rep(G, n - Len(s))

\* ---- reading through a handle value r with heap b
ViewR(r, b) == CASE r.k = "lit" -> ExtText(xm[r.j])
                 [] r.k = "att" -> Take(xm[r.j], r.n)
                 [] r.k = "own" -> b[r.b].s
                 [] OTHER -> <<>>
NextByteR(r, b) == CASE r.k = "lit" -> ExtPad(xm[r.j])          \* the byte at data->str[data->len]
                     [] r.k = "att" -> xm[r.j][r.n + 1]
                     [] r.k = "own" -> IF b[r.b].term THEN 0 ELSE G
                     [] OTHER -> 0                               \* emptyData.str points at emptyData.len = 0
ViewS(M, h) == ViewR(M.rep[h], M.blk)
LenS(M, h) == Len(ViewS(M, h))

\* ---- primitives (M -> M)
FreshId(b) == CHOOSE x \in BlockIds \ DOMAIN b : \A y \in BlockIds \ DOMAIN b : x <= y
Alloc(M, h, bytes, cap, term) ==                                 \* new char[...]; fill in; handle h points to it
  LET id == FreshId(M.blk) IN
  [M EXCEPT !.blk = (id :> [s |-> bytes, cap |-> cap, ref |-> 1, term |-> term]) @@ M.blk,
            !.rep[h] = [k |-> "own", b |-> id]]
Unref(M, r) ==                \* if(data->ref && Atomic::decrement(data->ref) == 0) delete[] (char* )data;
  IF r.k # "own" THEN M
  ELSE IF r.b \notin DOMAIN M.blk THEN [M EXCEPT !.err = "use-after-free"]
  ELSE IF M.blk[r.b].ref = 1 THEN [M EXCEPT !.blk = [x \in DOMAIN M.blk \ {r.b} |-> M.blk[x]]]
  ELSE [M EXCEPT !.blk[r.b].ref = @ - 1]
Dtor(M, h) == [Unref(M, M.rep[h]) EXCEPT !.rep[h] = Dead]
Move(M, h, from) == [M EXCEPT !.rep[h] = M.rep[from], !.rep[from] = Dead]   \* S[h] = pointer to the new object

CopyCtor(M, h, src) ==        \* String(const String& other): share owned data, deep-copy non-owned data
  LET r == M.rep[src] IN
  IF r.k = "own" THEN [M EXCEPT !.blk[r.b].ref = @ + 1, !.rep[h] = r]
  ELSE IF r.k = "empty" THEN [M EXCEPT !.rep[h] = EmptyH]
  ELSE LET v == ViewR(r, M.blk) IN Alloc(M, h, v, Cap3(Len(v)), TRUE)
CtorBuf(M, h, d) == Alloc(M, h, d, Cap3(Len(d)), TRUE)           \* String(const char* str, usize length)
CtorCap(M, h, c) == Alloc(M, h, <<>>, c, TRUE)                   \* explicit String(usize capacity)

Detach(M, h, copyLen, minCap) ==                                 \* String::detach(copyLength, minCapacity)
  LET r == M.rep[h] IN
  IF r.k = "own" /\ M.blk[r.b].ref = 1 /\ minCap <= M.blk[r.b].cap
  THEN [M EXCEPT !.blk[r.b].s = PadG(@, copyLen), !.blk[r.b].term = TRUE]        \* in place
  ELSE LET old == ViewR(r, M.blk)
           bytes == IF Len(old) > 0 THEN PadG(old, copyLen)                       \* copy min(len, copyLength), terminate
                    ELSE IF copyLen = 0 THEN <<>> ELSE <<0>> \o Rep(G, copyLen - 1) \* only str[0] = 0 is written
           term == Len(old) > 0 \/ copyLen = 0
           M1 == Alloc(M, h, bytes, Cap3(minCap), term)
       IN Unref(M1, r)

AssignOp(M, h, src) ==                                           \* String::operator=(const String& other)
  LET o == M.rep[src] IN
  IF o.k = "own"
  THEN LET M1 == [M EXCEPT !.blk[o.b].ref = @ + 1]  M2 == Unref(M1, M.rep[h]) IN [M2 EXCEPT !.rep[h] = o]
  ELSE LET M1 == Unref(M, M.rep[h])  v == ViewR(o, M1.blk) IN Alloc(M1, h, v, Cap3(Len(v)), TRUE)

Conv(M, h) ==                 \* operator const char*(): detach when the byte after the text is not 0
  IF NextByteR(M.rep[h], M.blk) # 0 THEN Detach(M, h, LenS(M, h), LenS(M, h)) ELSE M
ConvM(M, h) == Detach(M, h, LenS(M, h), LenS(M, h))              \* operator char*() / detach()

SetBytes(M, h, bytes) == LET b == M.rep[h].b IN [M EXCEPT !.blk[b].s = bytes, !.blk[b].term = TRUE]

AppendS(M, h, src) ==                                            \* append(const String& str)
  LET lh == LenS(M, h)  ls == LenS(M, src)
      M1 == Detach(M, h, lh, lh + ls)
      sv == ViewS(M1, src)                                       \* str.data is read after detach (src = h: the new data)
  IN SetBytes(M1, h, Take(ViewS(M1, h), lh) \o Take(sv, ls))
AppendB(M, h, d) ==                                              \* append(const char* str, usize len) / append(char)
  LET lh == LenS(M, h)  M1 == Detach(M, h, lh, lh + Len(d)) IN SetBytes(M1, h, Take(ViewS(M1, h), lh) \o d)
PrependS(M, h, src) ==                                           \* prepend(const String& str)
  LET M1 == CopyCtor(M, T1, h)                                   \* String copy(*this);
      sv0 == ViewS(M1, src)                                      \* strData / strLen, read before detach
      cv == ViewS(M1, T1)
      newLen == Len(sv0) + Len(cv)
      M2 == Detach(M1, h, 0, newLen)
      sv == IF Orig THEN ViewS(M2, src) ELSE sv0                 \* the original code read str.data after detach
      bytes == IF Orig THEN PadG(sv \o cv, newLen) ELSE sv \o cv
  IN Dtor(SetBytes(M2, h, bytes), T1)
PrependB(M, h, d) ==                                             \* prepend(const char* str, usize len)
  LET M1 == CopyCtor(M, T1, h)  cv == ViewS(M1, T1)
      M2 == Detach(M1, h, 0, Len(d) + Len(cv))
  IN Dtor(SetBytes(M2, h, d \o cv), T1)
ClearOp(M, h) ==
  LET r == M.rep[h] IN
  IF r.k = "own" /\ M.blk[r.b].ref = 1 THEN [M EXCEPT !.blk[r.b].s = <<>>, !.blk[r.b].term = TRUE]
  ELSE [Unref(M, r) EXCEPT !.rep[h] = EmptyH]
AttachOp(M, h, j, n) == [Unref(M, M.rep[h]) EXCEPT !.rep[h] = [k |-> "att", j |-> j, n |-> n]]
MapOp(M, h, F(_)) ==                                             \* detach(len, len); for(str; *str; ++str) *str = F(*str)
  LET M1 == ConvM(M, h) IN SetBytes(M1, h, [p \in 1..LenS(M1, h) |-> F(ViewS(M1, h)[p])])
ReplaceOp(M, i, k, m) ==                                         \* replace(const String& needle, const String& replacement)
  LET M1 == IF Orig THEN M ELSE Conv(M, i)                       \* const char* p = *this;   (originally: data->str)
      over == Orig /\ NextByteR(M.rep[i], M.blk) # 0             \* strstr runs past the text
      M2 == Conv(M1, k)                                          \* strstr(p, needle): needle's conversion
      v == ViewS(M2, i)  nd == ViewS(M2, k)  rp == ViewS(M2, m)
      c0 == Len(v) + 10 * Len(rp)
      res == ReplaceAll(v, nd, rp)
  IN IF over THEN [M2 EXCEPT !.err = "strstr-past-text"]
     \* an empty needle: the loop as first written never ends (strstr(p, "") = p on every round); repaired: unchanged
     ELSE IF nd = <<>> THEN (IF Orig THEN [M2 EXCEPT !.err = "replace-with-empty-needle-never-returns"] ELSE M2)
     ELSE IF IndexFrom(v, nd, 0) = -1 THEN M2
     ELSE IF Len(res) > c0 THEN [M2 EXCEPT !.err = "model-assumption: result fits its initial capacity"]
     ELSE Dtor(AssignOp(Alloc(M2, T2, res, c0, TRUE), i, T2), T2) \* String result(c0); appends; return *this = result;
TrimOp(M, i, d) ==                                               \* trim(chars): scans data->str, *this = substr(...)
  LET v == ViewS(M, i)  t == Trimmed(v, ByteSet(d)) IN
  IF Len(v) = 0 \/ Len(t) = Len(v) THEN M
  ELSE Dtor(AssignOp(CtorBuf(M, T2, t), i, T2), T2)
PrintfOp(M, i, k, n) ==                                          \* i.printf("%s%d", (const char* )k, n)
  LET M1 == Conv(M, k)  arg == ViewS(M1, k)
      M2 == Detach(M1, i, 0, 200)
  IN SetBytes(M2, i, arg \o Dec(n))                              \* fits: capacity >= 203

Impl(op, M, a) ==
  CASE op = "lit"       -> [Dtor(M, a.i) EXCEPT !.rep[a.i] = [k |-> "lit", j |-> a.k]]
    [] op = "assignlit" -> Dtor(AssignOp([M EXCEPT !.rep[T1] = [k |-> "lit", j |-> a.k]], a.i, T1), T1)
    [] op = "attach"    -> AttachOp(M, a.i, a.k, a.n)
    [] op = "ctorbuf"   -> Move(Dtor(CtorBuf(M, T1, a.d), a.i), a.i, T1)
    [] op = "ctorcap"   -> Move(Dtor(CtorCap(M, T1, a.n), a.i), a.i, T1)
    [] op = "copy"      -> Move(Dtor(CopyCtor(M, T1, a.k), a.i), a.i, T1)
    [] op = "assign"    -> AssignOp(M, a.i, a.k)
    [] op = "append"    -> AppendS(M, a.i, a.k)
    [] op = "prepend"   -> PrependS(M, a.i, a.k)
    [] op = "appendb"   -> AppendB(M, a.i, a.d)
    [] op = "appendc"   -> AppendB(M, a.i, <<a.n>>)
    [] op = "prependb"  -> PrependB(M, a.i, a.d)
    [] op = "clear"     -> ClearOp(M, a.i)
    [] op = "resize"    -> Detach(M, a.i, a.n, a.n)
    [] op = "reserve"   -> Detach(M, a.i, LenS(M, a.i), Max2(a.n, LenS(M, a.i)))
    [] op \in {"detach", "cstrm"} -> ConvM(M, a.i)
    [] op = "cstr"      -> Conv(M, a.i)
    [] op = "lower"     -> MapOp(M, a.i, LowerB)
    [] op = "upper"     -> MapOp(M, a.i, UpperB)
    [] op = "replacec"  -> MapOp(M, a.i, LAMBDA x : IF x = a.n THEN a.n2 ELSE x)
    [] op = "replace"   -> ReplaceOp(M, a.i, a.k, a.m)
    [] op = "trim"      -> TrimOp(M, a.i, a.d)
    [] op = "printf"    -> PrintfOp(M, a.i, a.k, a.n)
    [] op \in {"compare", "rel", "cmpx"} -> Conv(Conv(M, a.i), a.k)      \* const char* s1 = *this, * s2 = other;
    [] op \in {"find", "findof"} -> Conv(M, a.i)

\* Block ids are heap addresses: only their identity matters.  After every operation the live blocks are renumbered
\* in the order of the first variable that holds them (symmetry reduction; the temporaries are dead by then).
Canon(M) ==
  LET held == {b \in DOMAIN M.blk : \E h \in Vars : M.rep[h].k = "own" /\ M.rep[h].b = b}
      owner(b) == CHOOSE h \in Vars : M.rep[h].k = "own" /\ M.rep[h].b = b
                                      /\ \A g \in Vars : (M.rep[g].k = "own" /\ M.rep[g].b = b) => h <= g
      nid(b) == Cardinality({c \in held : owner(c) < owner(b)}) + 1
  IN IF held # DOMAIN M.blk \/ \E h \in Slots : M.rep[h].k = "own" /\ M.rep[h].b \notin held
     THEN M                                          \* leaked / dangling: leave as is, the invariants report it
     ELSE [M EXCEPT !.rep = [h \in Slots |-> IF M.rep[h].k = "own" THEN [k |-> "own", b |-> nid(M.rep[h].b)] ELSE M.rep[h]],
                    !.blk = [x \in {nid(b) : b \in held} |-> M.blk[CHOOSE b \in held : nid(b) = x]]]

IBound == \A i \in Vars : Len(st.val[i]) <= MaxLen
IDo(op, i, k, m, d, n, n2) ==
  LET a == Arg(i, k, m, d, n, n2)
      R == Impl(op, [rep |-> rep, blk |-> blk, err |-> err], a)
      C == Canon(R)
  IN /\ op \notin Skip
     \* only states within the bound are expanded; their successors may exceed it, and from those only clear() of
     \* an over-long variable leads on (back into the bound, so that the edge-covering walks do not end there)
     /\ (IBound \/ (op = "clear" /\ Len(st.val[i]) > MaxLen))
     /\ InDomain(op, st, a)
     /\ rep' = C.rep /\ blk' = C.blk /\ err' = (IF err # "none" THEN err ELSE R.err) /\ xm' = xm
     \* (where Layer 1 leaves a choice - replace with an empty needle - the ghost follows this implementation's: unchanged)
     /\ \E o \in Step(op, st, a) : st' = o /\ ((op = "replace" /\ st.val[k] = <<>>) => o.val[i] = st.val[i])

IInit == /\ rep = [h \in Slots |-> IF h \in Vars THEN EmptyH ELSE Dead] /\ blk = <<>> /\ xm = ExtInit /\ err = "none"
         /\ st = [Init0 EXCEPT !.ext = ExtInit]
INext == \E i \in Vars :
   \/ \E j \in Exts : \/ IDo("lit", i, j, 0, <<>>, 0, 0) \/ IDo("assignlit", i, j, 0, <<>>, 0, 0)
                      \/ \E n \in AttLens : IDo("attach", i, j, 0, <<>>, n, 0)
   \/ \E k \in Vars : \/ IDo("copy", i, k, 0, <<>>, 0, 0) \/ IDo("assign", i, k, 0, <<>>, 0, 0)
                      \/ IDo("append", i, k, 0, <<>>, 0, 0) \/ IDo("prepend", i, k, 0, <<>>, 0, 0)
                      \/ IDo("compare", i, k, 0, <<>>, 0, 0) \/ IDo("printf", i, k, 0, <<>>, 7, 0)
                      \/ \E m \in Vars : IDo("replace", i, k, m, <<>>, 0, 0)
   \/ \E d \in DataSet : \/ IDo("ctorbuf", i, 0, 0, d, 0, 0) \/ IDo("appendb", i, 0, 0, d, 0, 0)
                         \/ IDo("prependb", i, 0, 0, d, 0, 0) \/ IDo("trim", i, 0, 0, d, 0, 0)
   \/ \E n \in ResizeSet : IDo("resize", i, 0, 0, <<>>, n, 0)
   \/ \E n \in CapSet : IDo("reserve", i, 0, 0, <<>>, n, 0)
   \/ \E c \in CharSet : IDo("appendc", i, 0, 0, <<>>, c, 0)
   \/ IDo("clear", i, 0, 0, <<>>, 0, 0) \/ IDo("cstr", i, 0, 0, <<>>, 0, 0) \/ IDo("cstrm", i, 0, 0, <<>>, 0, 0)
   \/ IDo("lower", i, 0, 0, <<>>, 0, 0)
ISpec == IInit /\ [][INext]_ivars

\* ---- invariants
Handles(b) == {h \in Slots : rep[h].k = "own" /\ rep[h].b = b}
RefCountOK == \A b \in DOMAIN blk : blk[b].ref = Cardinality(Handles(b)) /\ blk[b].ref >= 1   \* no leak: a live block has a holder
NoDangling == \A h \in Slots : rep[h].k = "own" => rep[h].b \in DOMAIN blk              \* no handle to a freed block
NoErr == err = "none"                                                                   \* no double free / over-read
TempsDead == rep[T1] = Dead /\ rep[T2] = Dead /\ \A i \in Vars : rep[i] # Dead
CapOK == \A b \in DOMAIN blk : Len(blk[b].s) <= blk[b].cap
RefinementOK == \A i \in Vars : MatchBytes(st.val[i], ViewR(rep[i], blk))              \* exposed bytes = reference
ExtUntouched == xm = ExtInit /\ st.ext = xm
\* the C-string view of every variable: same bytes, followed by 0
CStrOK == \A i \in Vars : LET M == Conv([rep |-> rep, blk |-> blk, err |-> err], i) IN
            /\ NextByteR(M.rep[i], M.blk) = 0
            /\ ViewS(M, i) = ViewR(rep[i], blk)
            /\ \A j \in Vars : j # i => ViewS(M, j) = ViewR(rep[j], blk)
\* independence at representation level: one step changes the bytes seen through at most one variable
ViewNow(j) == ViewR(rep[j], blk)
IndepStep == [][\E i \in Vars : \A j \in Vars : j # i => ViewNow(j)' = ViewNow(j)]_ivars
================================================================================
