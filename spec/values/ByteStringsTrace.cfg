SPECIFICATION TSpec
CONSTANTS NV = 3
 NX = 2
 MaxLen = 0
 MaxLst = 0
 Bytes = {}
INVARIANT TInv
