------------------------------- MODULE ByteStrings -------------------------------
(* Layer 1 (property level) specification of nstd::String for property C06.

   NV String variables (index 1..NV), NX external memory blocks (literals / attachable memory) and one
   List<String> (for split / join).  Abstract state:
     val[i] : the byte sequence String variable i holds; the value AnyB stands for a byte whose value is
              unspecified (newly exposed by a growing resize)
     ext[j] : the complete content of external block j = the bytes a literal / an attached range is taken from,
              followed by exactly one more byte (the "pad": 0 for a block usable as a literal, 0 or non-0 for
              attachable memory - the implementation may legitimately peek at the byte after an attached range).
              No String operation may ever change it.
     lst    : the token list (sequence of byte sequences)
   Every public operation is one step  Step(op, s, a)  = the set of allowed abstract successor states, with the
   uniform argument record a = [i, k, m, d, n, n2] (variables i, k, m / external block k; bytes d; integers).
   Result(op, s, a) = [r, rb, rn] is the answer a query has to give.  No representation (sharing, ownership,
   capacity, terminator placement) appears here: that is Layer 2 (CowStringImpl).
   The same operators serve model checking (Next) and trace validation (ByteStringsTrace).                      *)
EXTENDS Integers, Sequences, FiniteSets, TLC

CONSTANTS NV, NX
AnyB == -1                       \* wildcard byte in the reference (one-sided: see MatchBytes)

Vars == 1..NV
Exts == 1..NX
Rep(x, n) == [p \in 1..n |-> x]
Take(v, n) == SubSeq(v, 1, n)
Drop(v, n) == SubSeq(v, n + 1, Len(v))
Min2(a, b) == IF a < b THEN a ELSE b
Max2(a, b) == IF a > b THEN a ELSE b
SetMin(S) == CHOOSE x \in S : \A y \in S : x <= y
SetMax(S) == CHOOSE x \in S : \A y \in S : x >= y
Sign(x) == IF x < 0 THEN -1 ELSE IF x > 0 THEN 1 ELSE 0

Definite(v) == \A p \in 1..Len(v) : v[p] # AnyB
NulFree(v) == \A p \in 1..Len(v) : v[p] # 0 /\ v[p] # AnyB      \* operand of a C-string based operation
ByteSet(d) == {d[q] : q \in 1..Len(d)}

\* ---- the reference byte-string functions -------------------------------------------------------------------
Resized(v, n) == IF n <= Len(v) THEN Take(v, n) ELSE v \o Rep(AnyB, n - Len(v))
\* 0-based position of the first / last occurrence of d in v at or after position from; -1 if none
IndexFrom(v, d, from) ==
  LET S == {p \in from..(Len(v) - Len(d)) : SubSeq(v, p + 1, p + Len(d)) = d} IN IF S = {} THEN -1 ELSE SetMin(S)
LastIndex(v, d) ==
  LET S == {p \in 0..(Len(v) - Len(d)) : SubSeq(v, p + 1, p + Len(d)) = d} IN IF S = {} THEN -1 ELSE SetMax(S)
IndexOfByte(v, c, from) ==
  LET S == {p \in (from + 1)..Len(v) : v[p] = c} IN IF S = {} THEN -1 ELSE SetMin(S) - 1
LastIndexOfByte(v, c) ==
  LET S == {p \in 1..Len(v) : v[p] = c} IN IF S = {} THEN -1 ELSE SetMax(S) - 1
\* all non-overlapping occurrences, left to right (nd non-empty)
RECURSIVE ReplaceAll(_, _, _)
\* the replacement before every byte and at the end ("abc".replace("", "-") = "-a-b-c-" in some languages)
RECURSIVE Interleave(_, _)
Interleave(v, r) == IF v = <<>> THEN r ELSE r \o <<v[1]>> \o Interleave(Tail(v), r)
ReplaceAll(v, nd, rp) ==
  LET p == IndexFrom(v, nd, 0) IN
  IF p = -1 THEN v ELSE Take(v, p) \o rp \o ReplaceAll(Drop(v, p + Len(nd)), nd, rp)
ReplaceByte(v, c1, c2) == [p \in 1..Len(v) |-> IF v[p] = c1 THEN c2 ELSE v[p]]
LowerB(b) == IF b >= 65 /\ b <= 90 THEN b + 32 ELSE b               \* ASCII letters only
UpperB(b) == IF b >= 97 /\ b <= 122 THEN b - 32 ELSE b
Lower(v) == [p \in 1..Len(v) |-> LowerB(v[p])]
Upper(v) == [p \in 1..Len(v) |-> UpperB(v[p])]
Trimmed(v, chars) ==
  LET K == {p \in 1..Len(v) : v[p] \notin chars} IN IF K = {} THEN <<>> ELSE SubSeq(v, SetMin(K), SetMax(K))
\* substr(start, length): negative start counts from the end, negative length = up to the end, both clamped
Substr(v, start, length) ==
  LET len == Len(v)
      st == IF start < 0 THEN Max2(0, len + start) ELSE Min2(start, len)
      en == IF length >= 0 THEN Min2(st + length, len) ELSE len
  IN SubSeq(v, st + 1, en)
\* token starting at 0-based position start (<= Len(v)): up to the next separator; next = position after it
TokenAt(v, seps, start) ==
  LET S == {p \in (start + 1)..Len(v) : v[p] \in seps} IN
  IF S = {} THEN [tok |-> SubSeq(v, start + 1, Len(v)), next |-> Len(v)]
  ELSE [tok |-> SubSeq(v, start + 1, SetMin(S) - 1), next |-> SetMin(S)]
RECURSIVE SplitAll(_, _)
SplitAll(v, seps) ==
  LET S == {p \in 1..Len(v) : v[p] \in seps} IN
  IF S = {} THEN <<v>> ELSE <<Take(v, SetMin(S) - 1)>> \o SplitAll(Drop(v, SetMin(S)), seps)
Split(v, seps, skipEmpty) ==
  IF skipEmpty THEN SelectSeq(SplitAll(v, seps), LAMBDA t : t # <<>>) ELSE SplitAll(v, seps)
RECURSIVE JoinAll(_, _)
JoinAll(ts, c) == IF ts = <<>> THEN <<>> ELSE IF Len(ts) = 1 THEN ts[1] ELSE ts[1] \o <<c>> \o JoinAll(Tail(ts), c)
RECURSIVE DecDigits(_)
DecDigits(n) == IF n < 10 THEN <<48 + n>> ELSE DecDigits(n \div 10) \o <<48 + (n % 10)>>
Dec(n) == IF n < 0 THEN <<45>> \o DecDigits(0 - n) ELSE DecDigits(n)
\* lexicographic comparison of unsigned bytes: -1, 0, 1
Cmp(a, b) ==
  LET n == Min2(Len(a), Len(b))  D == {p \in 1..n : a[p] # b[p]} IN
  IF D = {} THEN Sign(Len(a) - Len(b)) ELSE Sign(a[SetMin(D)] - b[SetMin(D)])
StartsWith(v, d) == Len(v) >= Len(d) /\ Take(v, Len(d)) = d
EndsWith(v, d) == Len(v) >= Len(d) /\ Drop(v, Len(v) - Len(d)) = d

ExtText(x) == Take(x, Len(x) - 1)            \* the bytes of an external block without the pad byte
ExtPad(x) == x[Len(x)]

\* ---- operations ---------------------------------------------------------------------------------------------
Mutators == {"ext", "lit", "assignlit", "attach", "ctorbuf", "ctorfill", "ctorcap", "copy", "assign", "append",
             "prepend", "appendb", "prependb", "appendc", "clear", "resize", "reserve", "detach", "replacec",
             "replace", "lower", "upper", "trim", "printf", "printfw", "join", "split", "lpush"}
Queries == {"cstr", "cstrm", "compare", "cmpx", "rel", "eq", "starts", "ends", "findc", "findlastc", "findcs", "find",
            "finds", "findlast", "findof", "substr", "token", "tokens"}
Ops == Mutators \cup Queries

\* The domain of the property: which operation instances the quantifier ranges over.  Operations that are C-string
\* based in the interface (they take or scan NUL-terminated text) are only in the domain on NUL-free operands;
\* replace with an empty needle has no agreed result (unchanged, or the replacement between all bytes) but it has to
\* return; the byte-wise operations (case mapping, replacing one byte value) cover all length() bytes, also behind an
\* embedded NUL; printf must not be given its own text as argument.
InDomain(op, s, a) ==
  LET v == s.val[a.i] IN
  CASE op = "ext"       -> a.i \in Exts /\ Definite(a.d) /\ a.n \in 0..255
    [] op \in {"lit", "assignlit"} -> a.k \in Exts /\ ExtPad(s.ext[a.k]) = 0
    [] op = "attach"    -> a.k \in Exts /\ a.n \in 0..(Len(s.ext[a.k]) - 1)
    [] op \in {"ctorbuf", "appendb", "prependb"} -> Definite(a.d)
    [] op = "ctorfill"  -> a.n >= 0 /\ a.n2 \in 0..255
    [] op \in {"ctorcap", "resize", "reserve"} -> a.n >= 0
    [] op \in {"copy", "assign", "append", "prepend"} -> a.k \in Vars
    [] op = "appendc"   -> a.n \in 0..255
    [] op \in {"clear", "detach", "lpush", "cstr", "cstrm"} -> TRUE
    [] op = "replacec"  -> a.n \in 1..255 /\ a.n2 \in 0..255
    [] op = "replace"   -> a.k \in Vars /\ a.m \in Vars /\ NulFree(v) /\ NulFree(s.val[a.k])
                           /\ Definite(s.val[a.m])
    [] op \in {"lower", "upper"} -> Definite(v)
    [] op = "trim"      -> NulFree(v) /\ NulFree(a.d)
    [] op = "printf"    -> a.k \in Vars /\ a.k # a.i /\ NulFree(s.val[a.k])
    [] op = "printfw"   -> a.n2 \in 1..400
    [] op = "join"      -> a.n \in 0..255 /\ \A t \in 1..Len(s.lst) : Definite(s.lst[t])
    [] op = "split"     -> NulFree(v) /\ NulFree(a.d) /\ a.n \in {0, 1}
    [] op \in {"compare", "rel"} -> a.k \in Vars /\ NulFree(v) /\ NulFree(s.val[a.k])
    [] op = "cmpx"      -> a.k \in Vars /\ NulFree(v) /\ NulFree(s.val[a.k]) /\ a.n >= 0
    [] op \in {"eq", "starts", "ends"} -> a.k \in Vars /\ Definite(v) /\ Definite(s.val[a.k])
    [] op \in {"findc", "findlastc"} -> Definite(v) /\ a.n \in 0..255
    [] op = "findcs"    -> NulFree(v) /\ a.n \in 1..255 /\ a.n2 >= 0
    [] op \in {"find", "findlast"} -> NulFree(v) /\ NulFree(a.d)
    [] op = "finds"     -> NulFree(v) /\ NulFree(a.d) /\ a.d # <<>> /\ a.n >= 0
    [] op = "findof"    -> NulFree(v) /\ NulFree(a.d) /\ a.n >= 0
    [] op = "substr"    -> Definite(v)
    [] op = "token"     -> NulFree(v) /\ a.n \in 1..255 /\ a.n2 \in 0..Len(v)
    [] op = "tokens"    -> NulFree(v) /\ NulFree(a.d) /\ a.n2 \in 0..Len(v)
    [] OTHER -> FALSE

SetVal(s, i, v) == { [s EXCEPT !.val[i] = v] }

Step(op, s, a) ==
  LET v == s.val[a.i] IN
  CASE op = "ext"       -> { [s EXCEPT !.ext[a.i] = a.d \o <<a.n>>] }    \* harness set-up, before any String operation
    [] op = "lit"       -> SetVal(s, a.i, ExtText(s.ext[a.k]))           \* i := String(literal k)
    [] op = "assignlit" -> SetVal(s, a.i, ExtText(s.ext[a.k]))           \* i = literal k
    [] op = "attach"    -> SetVal(s, a.i, Take(s.ext[a.k], a.n))
    [] op = "ctorbuf"   -> SetVal(s, a.i, a.d)                           \* i := String(data, length)
    [] op = "ctorfill"  -> SetVal(s, a.i, Rep(a.n2, a.n))                \* i := String(length n, char n2)
    [] op = "ctorcap"   -> SetVal(s, a.i, <<>>)                          \* i := String(capacity)
    [] op = "copy"      -> SetVal(s, a.i, s.val[a.k])                    \* i := String(k)   (k = i allowed)
    [] op = "assign"    -> SetVal(s, a.i, s.val[a.k])
    [] op = "append"    -> SetVal(s, a.i, v \o s.val[a.k])
    [] op = "prepend"   -> SetVal(s, a.i, s.val[a.k] \o v)
    [] op = "appendb"   -> SetVal(s, a.i, v \o a.d)
    [] op = "prependb"  -> SetVal(s, a.i, a.d \o v)
    [] op = "appendc"   -> SetVal(s, a.i, v \o <<a.n>>)
    [] op = "clear"     -> SetVal(s, a.i, <<>>)
    [] op = "resize"    -> SetVal(s, a.i, Resized(v, a.n))
    [] op \in {"reserve", "detach"} -> { s }
    [] op = "replacec"  -> SetVal(s, a.i, ReplaceByte(v, a.n, a.n2))
    [] op = "replace"   -> IF s.val[a.k] = <<>>
                           THEN SetVal(s, a.i, v) \cup SetVal(s, a.i, Interleave(v, s.val[a.m]))      \* empty needle: either reading
                           ELSE SetVal(s, a.i, ReplaceAll(v, s.val[a.k], s.val[a.m]))
    [] op = "lower"     -> SetVal(s, a.i, Lower(v))
    [] op = "upper"     -> SetVal(s, a.i, Upper(v))
    [] op = "trim"      -> SetVal(s, a.i, Trimmed(v, ByteSet(a.d)))
    [] op = "printf"    -> SetVal(s, a.i, s.val[a.k] \o Dec(a.n))        \* i.printf("%s%d", (const char* )k, n)
    [] op = "printfw"   -> LET t == Dec(a.n) IN                          \* i.printf("%*d", n2, n)
                           SetVal(s, a.i, Rep(32, Max2(0, a.n2 - Len(t))) \o t)
    [] op = "join"      -> SetVal(s, a.i, JoinAll(s.lst, a.n))
    [] op = "split"     -> { [s EXCEPT !.lst = Split(v, ByteSet(a.d), a.n = 1)] }
    [] op = "lpush"     -> { [s EXCEPT !.lst = @ \o <<v>>] }
    [] op \in Queries   -> { s }

NoRes == [r |-> 0, rb |-> <<>>, rn |-> 0]
Result(op, s, a) ==
  LET v == s.val[a.i]  w == IF a.k \in Vars THEN s.val[a.k] ELSE <<>> IN
  CASE op \in {"cstr", "cstrm"} -> [NoRes EXCEPT !.rb = v]      \* r = the byte at view[length()], must be 0
    [] op = "compare"  -> [NoRes EXCEPT !.r = Cmp(v, w)]
    \* the length-limited and the case-insensitive comparisons (members in r, static const char* versions in rn), base 3 digits
    \* sign + 1 of: compare(w, n), compareIgnoreCase(w), compareIgnoreCase(w, n) [, static compare(v, w)]; then
    \* equalsIgnoreCase(w) + 2 * equalsIgnoreCase(w, n).  Comparing at most n bytes of terminated texts = comparing prefixes.
    [] op = "cmpx"     -> LET vn == Take(v, Min2(a.n, Len(v)))  wn == Take(w, Min2(a.n, Len(w)))
                              cn == Cmp(vn, wn)  ci == Cmp(Lower(v), Lower(w))  cin == Cmp(Lower(vn), Lower(wn))
                              tri == (cn + 1) + 3 * (ci + 1) + 9 * (cin + 1) IN
                          [NoRes EXCEPT !.r = tri + 27 * ((IF ci = 0 THEN 1 ELSE 0) + (IF cin = 0 THEN 2 ELSE 0)),
                                        !.rn = tri + 27 * (Cmp(v, w) + 1)]
    [] op = "rel"      -> LET c == Cmp(v, w) IN                  \* bit mask  <  <=  >  >=
                          [NoRes EXCEPT !.r = (IF c < 0 THEN 1 ELSE 0) + (IF c <= 0 THEN 2 ELSE 0)
                                               + (IF c > 0 THEN 4 ELSE 0) + (IF c >= 0 THEN 8 ELSE 0)]
    [] op = "eq"       -> [NoRes EXCEPT !.r = IF v = w THEN 1 ELSE 2]      \* bit 0: ==, bit 1: !=
    [] op = "starts"   -> [NoRes EXCEPT !.r = IF StartsWith(v, w) THEN 1 ELSE 0]
    [] op = "ends"     -> [NoRes EXCEPT !.r = IF EndsWith(v, w) THEN 1 ELSE 0]
    [] op = "findc"    -> [NoRes EXCEPT !.r = IndexOfByte(v, a.n, 0)]
    [] op = "findlastc" -> [NoRes EXCEPT !.r = LastIndexOfByte(v, a.n)]
    [] op = "findcs"   -> [NoRes EXCEPT !.r = IndexOfByte(v, a.n, a.n2)]
    [] op = "find"     -> [NoRes EXCEPT !.r = IndexFrom(v, a.d, 0)]
    [] op = "finds"    -> [NoRes EXCEPT !.r = IndexFrom(v, a.d, a.n)]
    [] op = "findlast" -> [NoRes EXCEPT !.r = LastIndex(v, a.d)]
    \* findOneOf(chars) and findOneOf(chars, n) in r (base Len + 2 digits of index + 1), findLastOf(chars) in rn
    [] op = "findof"   -> LET S0 == {p \in 1..Len(v) : v[p] \in ByteSet(a.d)}  Sn == {p \in S0 : p > a.n}
                              f0 == IF S0 = {} THEN -1 ELSE SetMin(S0) - 1  fn == IF Sn = {} THEN -1 ELSE SetMin(Sn) - 1 IN
                          [NoRes EXCEPT !.r = (f0 + 1) + (Len(v) + 2) * (fn + 1), !.rn = IF S0 = {} THEN -1 ELSE SetMax(S0) - 1]
    [] op = "substr"   -> [NoRes EXCEPT !.rb = Substr(v, a.n, a.n2)]
    [] op = "token"    -> LET t == TokenAt(v, {a.n}, a.n2) IN [NoRes EXCEPT !.rb = t.tok, !.rn = t.next]
    [] op = "tokens"   -> LET t == TokenAt(v, ByteSet(a.d), a.n2) IN [NoRes EXCEPT !.rb = t.tok, !.rn = t.next]
    [] op = "split"    -> [NoRes EXCEPT !.r = Len(Split(v, ByteSet(a.d), a.n = 1))]
    [] op = "printf"   -> [NoRes EXCEPT !.r = Len(w) + Len(Dec(a.n))]
    [] op = "printfw"  -> [NoRes EXCEPT !.r = Max2(a.n2, Len(Dec(a.n)))]
    [] OTHER -> NoRes

\* One-sided wildcard: a reference byte AnyB matches every implementation byte; an implementation byte never
\* matches a different concrete reference byte.  (Uninitialised implementation memory is poisoned with 190 by the
\* harness, which is not in any generated alphabet, so it only matches AnyB.)
MatchBytes(ref, obs) == Len(ref) = Len(obs) /\ \A p \in 1..Len(ref) : ref[p] = AnyB \/ ref[p] = obs[p]

\* obs = [val |-> <<bytes...>>, len |-> <<int...>>, ext |-> <<bytes...>>, lst |-> <<bytes...>>]: what the driver
\* read from every variable (bytes without conversions, length()), every external block and the list after the op
Match(o, obs) ==
  /\ \A i \in Vars : MatchBytes(o.val[i], obs.val[i]) /\ obs.len[i] = Len(o.val[i])
  /\ obs.ext = o.ext
  /\ Len(obs.lst) = Len(o.lst) /\ \A t \in 1..Len(o.lst) : MatchBytes(o.lst[t], obs.lst[t])
ResultMatch(res, obs) ==
  /\ obs.r = res.r /\ obs.rn = res.rn /\ MatchBytes(res.rb, obs.rb)
\* the abstract state that a matched observation denotes (wildcards become the observed bytes)
Concrete(o, obs) == [val |-> obs.val, ext |-> o.ext, lst |-> obs.lst]

Init0 == [val |-> [i \in Vars |-> <<>>], ext |-> [j \in Exts |-> <<0>>], lst |-> <<>>]
Arg(i, k, m, d, n, n2) == [i |-> i, k |-> k, m |-> m, d |-> d, n |-> n, n2 |-> n2]

--------------------------------------------------------------------------------
\* Stand-alone bounded model: sanity of the reference itself (also the ghost that CowStringImpl refines).
CONSTANTS MaxLen, Bytes, MaxLst
VARIABLE st
vars == <<st>>
ExtInit == << <<97, 0>>, <<66, 44, 35>> >>      \* block 1: literal "a";  block 2: attachable "B," followed by '#'
DataSet == {<<>>} \cup [1..1 -> Bytes]
Do(op, i, k, m, d, n, n2) ==
  LET a == Arg(i, k, m, d, n, n2) IN
  /\ InDomain(op, st, a)
  /\ Result(op, st, a).r \in Int          \* the answer is defined on every operation instance in the domain
  /\ \E o \in Step(op, st, a) : st' = o
Init == st = [Init0 EXCEPT !.ext = ExtInit]
Next == \E i \in Vars :
   \/ \E k \in Exts : Do("lit", i, k, 0, <<>>, 0, 0) \/ Do("assignlit", i, k, 0, <<>>, 0, 0)
                      \/ \E n \in 0..2 : Do("attach", i, k, 0, <<>>, n, 0)
   \/ \E k \in Vars : \/ Do("copy", i, k, 0, <<>>, 0, 0) \/ Do("assign", i, k, 0, <<>>, 0, 0)
                      \/ Do("append", i, k, 0, <<>>, 0, 0) \/ Do("prepend", i, k, 0, <<>>, 0, 0)
                      \/ Do("compare", i, k, 0, <<>>, 0, 0) \/ Do("eq", i, k, 0, <<>>, 0, 0)
                      \/ Do("starts", i, k, 0, <<>>, 0, 0) \/ Do("ends", i, k, 0, <<>>, 0, 0)
                      \/ Do("printf", i, k, 0, <<>>, 7, 0)
                      \/ \E m \in Vars : Do("replace", i, k, m, <<>>, 0, 0)
   \/ \E d \in DataSet : \/ Do("ctorbuf", i, 0, 0, d, 0, 0) \/ Do("appendb", i, 0, 0, d, 0, 0)
                         \/ Do("prependb", i, 0, 0, d, 0, 0) \/ Do("trim", i, 0, 0, d, 0, 0)
                         \/ Do("find", i, 0, 0, d, 0, 0) \/ Do("findlast", i, 0, 0, d, 0, 0)
                         \/ Do("split", i, 0, 0, d, 0, 0) \/ Do("split", i, 0, 0, d, 1, 0)
                         \/ Do("tokens", i, 0, 0, d, 0, 0)
   \/ \E n \in 0..MaxLen : Do("resize", i, 0, 0, <<>>, n, 0) \/ Do("reserve", i, 0, 0, <<>>, n, 0)
                           \/ Do("substr", i, 0, 0, <<>>, n, -1) \/ Do("substr", i, 0, 0, <<>>, 0 - n, 1)
   \/ \E c \in Bytes \ {0} : \/ Do("appendc", i, 0, 0, <<>>, c, 0) \/ Do("replacec", i, 0, 0, <<>>, c, 66)
                             \/ Do("findc", i, 0, 0, <<>>, c, 0) \/ Do("findlastc", i, 0, 0, <<>>, c, 0)
                             \/ Do("token", i, 0, 0, <<>>, c, 0) \/ Do("join", i, 0, 0, <<>>, c, 0)
   \/ Do("clear", i, 0, 0, <<>>, 0, 0) \/ Do("detach", i, 0, 0, <<>>, 0, 0) \/ Do("lower", i, 0, 0, <<>>, 0, 0)
   \/ Do("upper", i, 0, 0, <<>>, 0, 0) \/ Do("cstr", i, 0, 0, <<>>, 0, 0) \/ Do("lpush", i, 0, 0, <<>>, 0, 0)
Spec == Init /\ [][Next]_vars
Bound == /\ \A i \in Vars : Len(st.val[i]) <= MaxLen
         /\ Len(st.lst) <= MaxLst /\ \A t \in 1..Len(st.lst) : Len(st.lst[t]) <= MaxLen

\* ---- properties of the reference itself
TypeOK == /\ DOMAIN st.val = Vars /\ DOMAIN st.ext = Exts
          /\ \A i \in Vars : \A p \in 1..Len(st.val[i]) : st.val[i][p] \in (0..255) \cup {AnyB}
\* the literal / attached source memory never changes, whatever is done to the Strings made from it
ExtStable == [][st'.ext = st.ext]_vars
\* value semantics: one operation changes at most one variable (also when that variable is its own argument)
Independent == [][\E i \in Vars : \A j \in Vars : j # i => st'.val[j] = st.val[j]]_vars
\* algebra of the reference functions on every reachable NUL-free value: joining what was split gives the original,
\* replacing a needle by itself changes nothing, substr(0) is the identity, upper/lower are idempotent
Algebra == \A i \in Vars : LET v == st.val[i] IN NulFree(v) =>
             /\ JoinAll(SplitAll(v, {44}), 44) = v
             /\ (\A k \in Vars : NulFree(st.val[k]) /\ st.val[k] # <<>> => ReplaceAll(v, st.val[k], st.val[k]) = v)
             /\ Substr(v, 0, -1) = v /\ Lower(Lower(v)) = Lower(v) /\ Upper(Lower(v)) = Upper(v)
             /\ Cmp(v, v) = 0 /\ StartsWith(v, <<>>) /\ EndsWith(v, v)
             /\ (\A k \in Vars : NulFree(st.val[k]) => Cmp(v, st.val[k]) = 0 - Cmp(st.val[k], v))
================================================================================
