SPECIFICATION TSpec
CONSTANTS MaxLen = 0
 MaxNodes = 0
 MaxStr = 0
INVARIANT TInv
