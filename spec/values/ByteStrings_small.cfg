SPECIFICATION Spec
CONSTANTS NV = 2
 NX = 2
 MaxLen = 1
 MaxLst = 1
 Bytes = {44, 97}
INVARIANTS TypeOK Algebra
PROPERTIES ExtStable Independent
CONSTRAINT Bound
