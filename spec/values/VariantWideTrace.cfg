SPECIFICATION TSpec
