SPECIFICATION ISpec
CONSTANTS NV = 2
 NX = 2
 MaxLen = 1
 MaxLst = 0
 Bytes = {44}
 CharSet = {97}
 AttLens = {0, 1, 2}
 ResizeSet = {0, 1, 2, 5}
 CapSet = {0, 4}
 Orig = FALSE
 Skip = {}
INVARIANTS RefCountOK NoDangling NoErr TempsDead CapOK RefinementOK ExtUntouched CStrOK
PROPERTY IndepStep
