SPECIFICATION ISpec
CONSTANTS MaxLen = 3
 Bytes = {1, 2}
 AttLen = 2
 DataMax = 1
 E = 2
 MaxCap = 3
INVARIANTS RefinementOK TermOK NoStrayWrite WindowOK CapOK ForeignUntouched TypeOK
CONSTRAINT IBound
