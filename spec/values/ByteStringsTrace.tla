---------------------------- MODULE ByteStringsTrace ----------------------------
(* Trace specification: validates executions recorded from real nstd::String objects (harness/string) against
   ByteStrings.  Every event carries the operation, its arguments [i, k, m, d, n, n2], its answer [r, rb, rn] and
   the projected state after the operation: the bytes and length() of every variable, every external block and
   the token list.  An event that ByteStrings does not allow is reported as <<"MISMATCH", line, "op:cause">> and the
   abstract state is re-synchronised from the observation so that the rest of the trace is still checked.
   cause = "state"  (a variable / external block / the list does not hold what the reference holds),
           "result" (a query or return value differs),  "domain" (harness generated an operation outside the
           property's domain - a defect of the harness, reported all the same).
   An event "nop" is an operation the driver refused (outside the domain): nothing may have changed.          *)
EXTENDS ByteStrings, Json, IOUtils
VARIABLES l, nbad
T == ndJsonDeserialize(IOEnv.TRACE)

Resync(e) == [val |-> e.val, ext |-> e.ext, lst |-> e.lst]

TInit == l = 1 /\ nbad = 0 /\ st = Init0
TStep ==
  /\ l <= Len(T)
  /\ l' = l + 1
  /\ LET e == T[l] IN
     IF e.op = "reset" THEN st' = Init0 /\ UNCHANGED nbad
     ELSE IF e.op = "nop" THEN
       IF Match(st, e) THEN st' = Concrete(st, e) /\ UNCHANGED nbad
       ELSE PrintT(<<"MISMATCH", l, "nop:state">>) /\ st' = Resync(e) /\ nbad' = nbad + 1
     ELSE LET a == Arg(e.i, e.k, e.m, e.d, e.n, e.n2)
              dom == e.op \in Ops /\ InDomain(e.op, st, a)
              allowed == IF dom THEN { o \in Step(e.op, st, a) : Match(o, e) } ELSE {}
              resOK == dom /\ ResultMatch(Result(e.op, st, a), e)
                           /\ (e.op \in {"cstr", "cstrm"} => e.r = 0)
          IN IF allowed # {} /\ resOK
             THEN st' = Concrete(CHOOSE o \in allowed : TRUE, e) /\ UNCHANGED nbad
             ELSE /\ PrintT(<<"MISMATCH", l, e.op \o (IF ~dom THEN ":domain" ELSE IF allowed = {} THEN ":state" ELSE ":result")>>)
                  /\ st' = Resync(e) /\ nbad' = nbad + 1
TDone == l = Len(T) + 1 /\ PrintT(<<"TRACE-DONE", Len(T), nbad>>) /\ l' = l + 1 /\ UNCHANGED <<st, nbad>>
TNext == TStep \/ TDone
TSpec == TInit /\ [][TNext]_<<vars, l, nbad>>
\* the reference's own invariant is evaluated on every state the implementation was observed in
TInv == DOMAIN st.val = Vars /\ DOMAIN st.ext = Exts
================================================================================
