SPECIFICATION TSpec
CONSTANTS MaxLen = 0
 Bytes = {}
 AttLen = 0
 DataMax = 0
INVARIANT TInv
