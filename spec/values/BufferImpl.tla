------------------------------ MODULE BufferImpl ------------------------------
(* Layer 2 (implementation shaped) model of one nstd::Buffer object, transcribed from include/nstd/Buffer.hpp:
   the allocation (size _capacity+1 or none), the window offsets bufferStart/bufferEnd, the _capacity field, the
   attached foreign range and the &_capacity empty sentinel; every branch of every operation as written.
   Memory regions: "A" own allocation, "X" attached range (E bytes, of which the first attl are attached),
   "Z" the empty sentinel.  Every write is explicit so that "never writes outside its allocation or the attached
   range" (oob) is a state predicate.  The ghost variable st is the Layer-1 reference (ByteQueue) advanced by the
   same operation: TLC checks refinement after every step.                                                      *)
EXTENDS ByteQueue
CONSTANTS E, MaxCap
VARIABLES alloc, reg, s0, en, cap, ext, attl, oob, refOK
ivars == <<alloc, reg, s0, en, cap, ext, attl, oob, refOK, st, last>>

G == 190                       \* uninitialised heap byte (the harness poisons fresh memory with the same value)
Fill(n) == [k \in 1..n |-> G]
Owned == alloc # <<>>
Size == en - s0
Min(a, b) == IF a < b THEN a ELSE b
Max(a, b) == IF a > b THEN a ELSE b
View == IF reg = "A" THEN SubSeq(alloc, s0 + 1, en) ELSE IF reg = "X" THEN SubSeq(ext, s0 + 1, en) ELSE <<>>
WriteAt(m, o, d) == [k \in 1..Len(m) |-> IF k > o /\ k <= o + Len(d) THEN d[k - o] ELSE m[k]]
InRange(m, o, n) == o >= 0 /\ o + n <= Len(m)
ExtInit == [k \in 1..E |-> AttByte(k - 1)]

\* the record of implementation fields an operation produces
Rec(a, r, s, e, c, x, al, o) == [a |-> a, r |-> r, s |-> s, e |-> e, c |-> c, x |-> x, al |-> al, o |-> o]
Cur == Rec(alloc, reg, s0, en, cap, ext, attl, "none")

\* ---- Buffer::resize(size)
Resize(size) ==
  LET old == View  oldSize == Size IN
  IF size > cap
  THEN LET na == WriteAt(WriteAt(Fill(size + 1), 0, SubSeq(old, 1, Min(oldSize, size))), size, <<0>>)
       IN Rec(na, "A", 0, size, size, ext, attl, "none")
  ELSE IF Owned
  THEN IF s0 + size <= cap
       THEN Rec(WriteAt(alloc, s0 + size, <<0>>), "A", s0, s0 + size, cap, ext, attl, "none")
       ELSE Rec(WriteAt(WriteAt(alloc, 0, old), size, <<0>>), "A", 0, size, cap, ext, attl, "none")
  ELSE Rec(alloc, reg, s0, s0, cap, ext, attl, "none")

\* ---- Buffer::append(data, size): resize(old + size); copy to bufferEnd - size; terminate if owning
BAppend(d) ==
  LET n == Len(d)  r == Resize(Size + n)  wo == r.e - n IN
  IF r.r = "A"
  THEN IF InRange(r.a, wo, n) /\ InRange(r.a, r.e, 1) THEN [r EXCEPT !.a = WriteAt(WriteAt(r.a, wo, d), r.e, <<0>>)]
       ELSE [r EXCEPT !.o = "append-outside-allocation"]
  ELSE IF n = 0 THEN r ELSE [r EXCEPT !.o = "append-into-foreign-memory"]

\* ---- Buffer::prepend(data, size)
BPrepend(d) ==
  LET n == Len(d)  oldSize == Size  req == n + oldSize  old == View IN
  IF Owned /\ s0 >= n THEN Rec(WriteAt(alloc, s0 - n, d), "A", s0 - n, en, cap, ext, attl, "none")
  ELSE IF Owned /\ cap >= req
  THEN Rec(WriteAt(WriteAt(WriteAt(alloc, n, old), 0, d), req, <<0>>), "A", 0, req, cap, ext, attl, "none")
  ELSE Rec(WriteAt(WriteAt(WriteAt(Fill(req + 1), 0, d), n, old), req, <<0>>), "A", 0, req, req, ext, attl, "none")

\* ---- Buffer::assign(data, size) (operator= is the same code)
BAssign(d) ==
  LET n == Len(d) IN
  IF n > cap THEN Rec(WriteAt(WriteAt(Fill(n + 1), 0, d), n, <<0>>), "A", 0, n, n, ext, attl, "none")
  ELSE IF ~Owned THEN Rec(alloc, reg, s0, s0, cap, ext, attl, "none")
  ELSE Rec(WriteAt(WriteAt(alloc, 0, d), n, <<0>>), "A", 0, n, cap, ext, attl, "none")

EmptyWindow == IF Owned THEN Rec(WriteAt(alloc, 0, <<0>>), "A", 0, 0, cap, ext, attl, "none")
               ELSE Rec(alloc, "Z", 0, 0, cap, ext, attl, "none")
RemoveFront(n) == IF s0 + n >= en THEN EmptyWindow ELSE Rec(alloc, reg, s0 + n, en, cap, ext, attl, "none")
RemoveBack(n) ==
  IF s0 + n >= en THEN EmptyWindow
  ELSE IF Owned THEN Rec(WriteAt(alloc, en - n, <<0>>), reg, s0, en - n, cap, ext, attl, "none")
  ELSE Rec(alloc, reg, s0, en - n, cap, ext, attl, "none")
Reserve(c0) ==
  LET size == Size  c == Max(c0, size) IN
  IF c <= cap THEN Cur
  ELSE Rec(WriteAt(WriteAt(Fill(c + 1), 0, View), size, <<0>>), "A", 0, size, c, ext, attl, "none")
Clear == IF Owned THEN Rec(WriteAt(alloc, 0, <<0>>), "A", 0, 0, cap, ext, attl, "none")
         ELSE Rec(alloc, reg, s0, s0, cap, ext, attl, "none")
Free == Rec(<<>>, "Z", 0, 0, 0, ext, attl, "none")
Attach(len) == Rec(<<>>, "X", 0, len, 0, ExtInit, len, "none")
Ctor(n) == Rec(WriteAt(Fill(n + 1), 0, <<0>>), "A", 0, 0, n, ext, attl, "none")
CtorD(d) == Rec(d \o <<0>>, "A", 0, Len(d), Len(d), ext, attl, "none")

Impl(op, d, n) ==
  CASE op = "append" -> BAppend(d) [] op = "prepend" -> BPrepend(d) [] op = "assign" -> BAssign(d)
    [] op = "resize" -> Resize(n) [] op = "reserve" -> Reserve(n) [] op = "rmfront" -> RemoveFront(n)
    [] op = "rmback" -> RemoveBack(n) [] op = "clear" -> Clear [] op = "free" -> Free
    [] op = "attach" -> Attach(n) [] op = "ctor" -> Ctor(n) [] op = "ctord" -> CtorD(d)

IDo(op, i, d, n) ==
  LET r == Impl(op, d, n)
      cands == { o \in Step(op, st, 1, d, n) : (o.mode[1] = "own") = (r.a # <<>>) }
  IN /\ alloc' = r.a /\ reg' = r.r /\ s0' = r.s /\ en' = r.e /\ cap' = r.c /\ ext' = r.x /\ attl' = r.al
     /\ oob' = IF oob # "none" THEN oob ELSE r.o
     /\ refOK' = (refOK /\ cands # {})
     /\ st' = IF cands # {} THEN CHOOSE o \in cands : TRUE ELSE st
     /\ last' = <<op, 1, d, n, TRUE>>

IInit == /\ alloc = <<>> /\ reg = "Z" /\ s0 = 0 /\ en = 0 /\ cap = 0 /\ ext = ExtInit /\ attl = 0 /\ oob = "none"
         /\ refOK = TRUE /\ st = Init0 /\ last = <<"init", 0, <<>>, 0, TRUE>>
INext == \/ \E d \in Data : IDo("append", 1, d, 0) \/ IDo("prepend", 1, d, 0) \/ IDo("assign", 1, d, 0) \/ IDo("ctord", 1, d, 0)
         \/ \E n \in 0..MaxLen : IDo("resize", 1, <<>>, n) \/ IDo("rmfront", 1, <<>>, n) \/ IDo("rmback", 1, <<>>, n)
         \/ \E n \in 0..MaxCap : IDo("reserve", 1, <<>>, n) \/ IDo("ctor", 1, <<>>, n)
         \/ \E n \in 0..AttLen : IDo("attach", 1, <<>>, n)
         \/ IDo("clear", 1, <<>>, 0) \/ IDo("free", 1, <<>>, 0)
ISpec == IInit /\ [][INext]_ivars
IBound == Len(st.q[1]) <= MaxLen /\ cap <= MaxCap

\* ---- invariants
RefinementOK == refOK /\ MatchBytes(st.q[1], View)             \* exposed bytes = reference (one-sided wildcard)
TermOK == Owned => (en + 1 <= Len(alloc) /\ alloc[en + 1] = 0) \* one readable zero byte follows the data when owning
NoStrayWrite == oob = "none"
WindowOK == /\ 0 <= s0 /\ s0 <= en
            /\ en <= (IF reg = "A" THEN Len(alloc) - 1 ELSE IF reg = "X" THEN attl ELSE 0)
            /\ (reg = "A") = Owned
            /\ Owned => Len(alloc) = cap + 1
CapOK == ~Owned => cap = 0                                     \* what makes growing operations reallocate
ForeignUntouched == \A k \in 1..E : ext[k] = AttByte(k - 1)    \* the model's Buffer never writes attached memory
================================================================================
