-------------------------- MODULE VariantWideTrace --------------------------
(* Property C07, integers beyond TLC's 32 bits: the events of the driver's "wide" operation (harness/variant) judged
   against Decimal.tla (two's-complement limb vectors, least significant limb first; a copy of spec/text/Decimal.tla).
   A Variant given a 32- or 64-bit integer reports that alternative, its decimal text is the canonical decimal text of
   the value (signed for int / int64, unsigned for uint / uint64) through the const and the mutable string accessor,
   toInt64 / toUInt64 return the value (the same bit pattern), and it equals its copy.                              *)
EXTENDS Decimal, Json, IOUtils, TLC
VARIABLES l, nbad
T == ndJsonDeserialize(IOEnv.TRACE)
Signed(k) == k \in {"i32", "i64"}
Why(e) ==
  IF e.ty # e.kind THEN "type"
  ELSE IF e.txt # ToDecimal(e.v, Signed(e.kind)) THEN "text"
  ELSE IF e.mtxt # e.txt THEN "mutable-text"
  ELSE IF e.i64 # e.v \/ e.u64 # e.v THEN "conversion"
  ELSE IF ~e.eq THEN "copy-equality"
  ELSE "ok"
TInit == l = 1 /\ nbad = 0
TStep ==
  /\ l <= Len(T) /\ l' = l + 1
  /\ LET e == T[l] IN
     IF e.op # "wide" \/ Why(e) = "ok" THEN UNCHANGED nbad
     ELSE PrintT(<<"MISMATCH", l, Why(e)>>) /\ nbad' = nbad + 1
TDone == l = Len(T) + 1 /\ PrintT(<<"TRACE-DONE", Len(T), nbad>>) /\ l' = l + 1 /\ UNCHANGED nbad
TSpec == TInit /\ [][TStep \/ TDone]_<<l, nbad>>
=============================================================================
