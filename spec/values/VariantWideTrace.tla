-------------------------- MODULE VariantWideTrace --------------------------
(* Property C07, integers beyond TLC's 32 bits: the events of the driver's "wide" operation (harness/variant) judged
   against Decimal.tla (two's-complement limb vectors, least significant limb first; a copy of spec/text/Decimal.tla).
   A Variant given a 32- or 64-bit integer reports that alternative, its decimal text is the canonical decimal text of
   the value (signed for int / int64, unsigned for uint / uint64) through the const and the mutable string accessor,
   toInt64 / toUInt64 return the value (the same bit pattern), toDouble returns the value rounded to 53 significant
   bits, ties to even (the driver logs the double as sign + exact integer magnitude in five limbs), and it equals
   its copy.                                                                                                        *)
EXTENDS Decimal, Json, IOUtils, TLC
VARIABLES l, nbad
T == ndJsonDeserialize(IOEnv.TRACE)
Signed(k) == k \in {"i32", "i64"}
\* toDouble (round 7): bit i (1 = least significant) of a limb vector, the double nearest to an integer magnitude
Bit(vv, i) == (vv[((i - 1) \div 16) + 1] \div (2 ^ ((i - 1) % 16))) % 2
BitsOf(vv) == [i \in 1..(16 * Len(vv)) |-> Bit(vv, i)]
Top(b) == IF \A i \in 1..Len(b) : b[i] = 0 THEN 0 ELSE CHOOSE i \in 1..Len(b) : b[i] = 1 /\ \A j \in (i + 1)..Len(b) : b[j] = 0
IncAt(b, p) == LET j == CHOOSE j \in p..Len(b) : b[j] = 0 /\ \A m \in p..(j - 1) : b[m] = 1
               IN [i \in 1..Len(b) |-> IF i < p THEN b[i] ELSE IF i < j THEN 0 ELSE IF i = j THEN 1 ELSE b[i]]
RoundDouble(b) ==
  LET n == Top(b) IN
  IF n <= 53 THEN b
  ELSE LET k == n - 53
           up == b[k] = 1 /\ ((\E i \in 1..(k - 1) : b[i] = 1) \/ b[k + 1] = 1)
           tr == [i \in 1..Len(b) |-> IF i <= k THEN 0 ELSE b[i]]
       IN IF up THEN IncAt(tr, k + 1) ELSE tr
Mag(e) == IF Signed(e.kind) /\ IsNeg(e.v) THEN Negate(e.v) ELSE e.v
DoubleOk(e) == /\ e.dint
               /\ e.dneg = (Signed(e.kind) /\ IsNeg(e.v))
               /\ BitsOf(e.dabs) = RoundDouble(BitsOf(Mag(e) \o <<0>>))
Why(e) ==
  IF e.ty # e.kind THEN "type"
  ELSE IF e.txt # ToDecimal(e.v, Signed(e.kind)) THEN "text"
  ELSE IF e.mtxt # e.txt THEN "mutable-text"
  ELSE IF e.i64 # e.v \/ e.u64 # e.v THEN "conversion"
  ELSE IF ~DoubleOk(e) THEN "double"
  ELSE IF ~e.eq THEN "copy-equality"
  ELSE "ok"
TInit == l = 1 /\ nbad = 0
TStep ==
  /\ l <= Len(T) /\ l' = l + 1
  /\ LET e == T[l] IN
     IF e.op # "wide" \/ Why(e) = "ok" THEN UNCHANGED nbad
     ELSE PrintT(<<"MISMATCH", l, Why(e)>>) /\ nbad' = nbad + 1
TDone == l = Len(T) + 1 /\ PrintT(<<"TRACE-DONE", Len(T), nbad>>) /\ l' = l + 1 /\ UNCHANGED nbad
TSpec == TInit /\ [][TStep \/ TDone]_<<l, nbad>>
=============================================================================
