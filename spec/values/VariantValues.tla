----------------------------- MODULE VariantValues -----------------------------
(* Layer 1 (property level) specification of nstd::Variant for property C07.

   Three Variant variables (index 1..3).  The abstract state is a tuple of three VALUE TREES; a value tree is the very
   tuple that the driver logs as nested JSON arrays:
     <<"null">>  <<"bool", TRUE>>  <<"int", n>>  <<"uint", n>>  <<"i64", n>>  <<"u64", n>>     (the C++ type is part of the value)
     <<"dbl", m>>            the double m/2 (only halves are stored in variables)
     <<"str", <<bytes>>>>
     <<"list", <<v1, ..>>>>  <<"arr", <<v1, ..>>>>  <<"map", << <<key bytes, v1>>, .. >> >>   (map: iteration order of the
                             real HashMap<String,Variant> = order of first insertion; a repeated key is replaced in place)
     <<"strany">>            only in the reference: "some string" (text of a double; the property does not fix its format)
   Numbers are restricted to |n| <= 2^31-1 (TLC integers); conversion results are logged as <<1, n>> (in that range) or
   <<0, 0>> (outside); the reference answers <<1, n>>, <<0, 0>> or <<2, 0>> = "not decided by the property".
   Every public operation is one step  Step(op, s, i, j, x, key) = set of allowed successor states; the same operator
   serves model checking (Next), the Layer-2 refinement (CowVariantImpl) and trace validation (VariantValuesTrace).      *)
EXTENDS Integers, Sequences, FiniteSets, TLC

NV == 3
Vars == 1..NV
Null == <<"null">>
Wild == <<"strany">>
ContTags == {"list", "arr", "map"}
IntTags == {"int", "uint", "i64", "u64"}
IsCont(v) == v[1] \in ContTags
IsWild(v) == v = Wild

\* element values of a container, in iteration order
Elems(v) == IF v[1] = "map" THEN [k \in 1..Len(v[2]) |-> v[2][k][2]] ELSE v[2]
Keys(v) == [k \in 1..Len(v[2]) |-> v[2][k][1]]
MaxOf(S) == IF S = {} THEN 0 ELSE CHOOSE m \in S : \A y \in S : y <= m

RECURSIVE Depth(_), HasWild(_), Nodes(_)
Depth(v) == IF ~IsCont(v) THEN 0 ELSE 1 + MaxOf({Depth(Elems(v)[k]) : k \in 1..Len(v[2])})
HasWild(v) == IF IsWild(v) THEN TRUE ELSE IF ~IsCont(v) THEN FALSE ELSE \E k \in 1..Len(v[2]) : HasWild(Elems(v)[k])
RECURSIVE SumSeq(_, _)
SumSeq(f, n) == IF n = 0 THEN 0 ELSE f[n] + SumSeq(f, n - 1)
Nodes(v) == IF ~IsCont(v) THEN 1 ELSE 1 + SumSeq([k \in 1..Len(v[2]) |-> Nodes(Elems(v)[k])], Len(v[2]))

\* ---------------------------------------------------------------- decimal text
RECURSIVE DecNat(_), PN(_, _)
DecNat(n) == IF n < 10 THEN <<48 + n>> ELSE DecNat(n \div 10) \o <<48 + (n % 10)>>
Dec(n) == IF n < 0 THEN <<45>> \o DecNat(-n) ELSE DecNat(n)
PN(s, k) == IF k = 0 THEN 0 ELSE PN(s, k - 1) * 10 + (s[k] - 48)
IsDigits(s) == Len(s) >= 1 /\ \A k \in 1..Len(s) : s[k] >= 48 /\ s[k] <= 57
CanonNat(s) == IsDigits(s) /\ Len(s) <= 9 /\ (Len(s) > 1 => s[1] # 48)           \* as printed by %d / %u
CanonInt(s) == CanonNat(s) \/ (Len(s) >= 2 /\ s[1] = 45 /\ CanonNat(Tail(s)) /\ Tail(s) # <<48>>)
IntOf(s) == IF s[1] = 45 THEN -PN(Tail(s), Len(s) - 1) ELSE PN(s, Len(s))
\* "<canonical integer>.5" or ".0" (also "-0.5")
CanonHalf(s) == /\ Len(s) >= 3 /\ s[Len(s) - 1] = 46 /\ s[Len(s)] \in {48, 53}
                /\ LET ip == SubSeq(s, 1, Len(s) - 2) IN CanonNat(ip) \/ (Len(ip) >= 2 /\ ip[1] = 45 /\ CanonNat(Tail(ip)))
HalfOf(s) == LET ip == SubSeq(s, 1, Len(s) - 2)
                 neg == ip[1] = 45
                 a == IF neg THEN PN(Tail(ip), Len(ip) - 1) ELSE PN(ip, Len(ip))
                 m == 2 * a + (IF s[Len(s)] = 53 THEN 1 ELSE 0)
             IN IF neg THEN -m ELSE m
STrue == <<116, 114, 117, 101>>
SFalse == <<102, 97, 108, 115, 101>>

\* ---------------------------------------------------------------- coercions (Variant.hpp 128-300, 438-452)
R(n) == <<1, n>>
OutR == <<0, 0>>           \* a value outside |n| <= 2^31-1 (e.g. a negative number converted to an unsigned type)
AnyR == <<2, 0>>           \* not decided
Trunc(m) == IF m >= 0 THEN m \div 2 ELSE -((-m) \div 2)      \* (int)(m/2.)
ToSigned(v) ==             \* toInt, toInt64
  CASE v[1] = "bool" -> R(IF v[2] THEN 1 ELSE 0)
    [] v[1] \in IntTags -> R(v[2])
    [] v[1] = "dbl" -> R(Trunc(v[2]))
    [] v[1] = "str" -> IF CanonInt(v[2]) THEN R(IntOf(v[2])) ELSE AnyR
    [] IsWild(v) -> AnyR
    [] OTHER -> R(0)       \* null, map, list, array
ToUnsigned(v) ==           \* toUInt, toUInt64
  CASE v[1] = "bool" -> R(IF v[2] THEN 1 ELSE 0)
    [] v[1] \in IntTags -> IF v[2] >= 0 THEN R(v[2]) ELSE OutR           \* modular: 2^32 - |n| or 2^64 - |n|
    [] v[1] = "dbl" -> IF v[2] >= -1 THEN R(Trunc(v[2])) ELSE AnyR         \* negative -> unsigned is undefined in C++
    [] v[1] = "str" -> IF CanonInt(v[2]) /\ IntOf(v[2]) >= 0 THEN R(IntOf(v[2])) ELSE AnyR
    [] IsWild(v) -> AnyR
    [] OTHER -> R(0)
Dbl(n) == IF n >= -1073741823 /\ n <= 1073741823 THEN R(2 * n) ELSE AnyR
ToDbl(v) ==                \* toDouble, result as numerator over 2
  CASE v[1] = "bool" -> R(IF v[2] THEN 2 ELSE 0)
    [] v[1] \in IntTags -> Dbl(v[2])
    [] v[1] = "dbl" -> R(v[2])
    [] v[1] = "str" -> IF CanonInt(v[2]) THEN Dbl(IntOf(v[2])) ELSE IF CanonHalf(v[2]) THEN R(HalfOf(v[2])) ELSE AnyR
    [] IsWild(v) -> AnyR
    [] OTHER -> R(0)
ToBool(v) ==               \* 0 / 1 / 2 = not decided
  CASE v[1] = "bool" -> IF v[2] THEN 1 ELSE 0
    [] v[1] \in IntTags \cup {"dbl"} -> IF v[2] # 0 THEN 1 ELSE 0
    [] v[1] = "str" -> IF v[2] = <<>> \/ v[2] = SFalse THEN 0 ELSE IF v[2] = STrue THEN 1
                       ELSE IF CanonInt(v[2]) THEN (IF IntOf(v[2]) # 0 THEN 1 ELSE 0) ELSE 2
    [] IsWild(v) -> 2
    [] OTHER -> 0
ToStr(v) ==                \* toString() const: <<1, bytes>> or <<2, <<>>>> = not decided
  CASE v[1] = "bool" -> <<1, IF v[2] THEN STrue ELSE SFalse>>
    [] v[1] \in IntTags -> <<1, Dec(v[2])>>
    [] v[1] = "dbl" -> <<2, <<>>>>
    [] v[1] = "str" -> <<1, v[2]>>
    [] IsWild(v) -> <<2, <<>>>>
    [] OTHER -> <<1, <<>>>>
\* cv = <<toBool, toInt, toUInt, toInt64, toUInt64, toDouble, toString>>
Conv(v) == <<ToBool(v), ToSigned(v), ToUnsigned(v), ToSigned(v), ToUnsigned(v), ToDbl(v), ToStr(v)>>
MatchR(exp, obs) == exp[1] = 2 \/ exp = obs
MatchConv(v, cv) == /\ (ToBool(v) = 2 \/ ToBool(v) = cv[1])
                    /\ MatchR(ToSigned(v), cv[2]) /\ MatchR(ToUnsigned(v), cv[3])
                    /\ MatchR(ToSigned(v), cv[4]) /\ MatchR(ToUnsigned(v), cv[5])
                    /\ MatchR(ToDbl(v), cv[6])
                    /\ (ToStr(v)[1] = 2 \/ ToStr(v)[2] = cv[7])

\* ---------------------------------------------------------------- equality (Variant.hpp 477-514)
\* 1: must compare equal (the same value of the same type, in particular every copy); 0: must compare unequal (same
\* type, different value); 2: not decided (comparisons across types go through the coercions and are not symmetric)
RECURSIVE EqS(_, _)
EqS(a, b) ==
  IF a = b THEN (IF HasWild(a) THEN 2 ELSE 1)
  ELSE IF a[1] # b[1] \/ IsWild(a) THEN 2
  ELSE IF ~IsCont(a) THEN 0
  ELSE IF Len(a[2]) # Len(b[2]) THEN 0
  ELSE IF a[1] = "map" /\ {Keys(a)[k] : k \in 1..Len(a[2])} # {Keys(b)[k] : k \in 1..Len(b[2])} THEN 0
  ELSE IF a[1] = "map" /\ Keys(a) # Keys(b) THEN 2             \* same keys inserted in another order: not decided
  ELSE LET rs == {EqS(Elems(a)[k], Elems(b)[k]) : k \in 1..Len(a[2])}
       IN IF 0 \in rs THEN 0 ELSE IF 2 \in rs THEN 2 ELSE 1

\* ---------------------------------------------------------------- mutable accessors (Variant.hpp 310-324,350-364,390-404,422-436)
ConvTo(kind, v) == IF v[1] = kind THEN v ELSE <<kind, <<>>>>       \* toList()/toArray()/toMap() on another type: empty
ConvStr(v) == IF v[1] = "str" \/ IsWild(v) THEN v ELSE IF ToStr(v)[1] = 2 THEN Wild ELSE <<"str", ToStr(v)[2]>>
MapSet(m, key, x) == IF \E k \in 1..Len(m) : m[k][1] = key
                     THEN [k \in 1..Len(m) |-> IF m[k][1] = key THEN <<key, x>> ELSE m[k]]
                     ELSE m \o << <<key, x>> >>
\* mutable access (m...) and mutable access followed by one mutation (app.../mapset)
Mut(op, v, x, key) ==
  CASE op = "mlist" -> ConvTo("list", v)
    [] op = "marr" -> ConvTo("arr", v)
    [] op = "mmap" -> ConvTo("map", v)
    [] op = "mstr" -> ConvStr(v)
    [] op = "applist" -> <<"list", ConvTo("list", v)[2] \o <<x>> >>
    [] op = "apparr" -> <<"arr", ConvTo("arr", v)[2] \o <<x>> >>
    [] op = "mapset" -> <<"map", MapSet(ConvTo("map", v)[2], key, x)>>
    [] op = "appstr" -> IF ConvStr(v) = Wild THEN Wild ELSE <<"str", ConvStr(v)[2] \o key>>
NonEmptyCont(v) == IsCont(v) /\ Len(v[2]) > 0
LastElem(v) == Elems(v)[Len(v[2])]
\* the same on the last element of the container held by the variable (reached through the mutable accessor of the
\* container's own type and back())
Inner(op, v, x, key) ==
  IF ~NonEmptyCont(v) THEN v
  ELSE LET n == Len(v[2]) IN
       IF v[1] = "map" THEN <<"map", [v[2] EXCEPT ![n] = <<v[2][n][1], Mut(op, v[2][n][2], x, key)>>]>>
       ELSE <<v[1], [v[2] EXCEPT ![n] = Mut(op, v[2][n], x, key)]>>

MutOps == {"mlist", "marr", "mmap", "mstr", "applist", "apparr", "mapset", "appstr"}
VarOps == [applistv |-> "applist", apparrv |-> "apparr", mapsetv |-> "mapset"]         \* append a copy of variable j
InOps == [in_mlist |-> "mlist", in_marr |-> "marr", in_mmap |-> "mmap", in_mstr |-> "mstr", in_applist |-> "applist",
          in_apparr |-> "apparr", in_mapset |-> "mapset", in_appstr |-> "appstr"]
Set1(s, i, v) == [s EXCEPT ![i] = v]

Step(op, s, i, j, x, key) ==
  CASE op \in {"ctor", "assign"} -> {Set1(s, i, x)}                     \* Variant(x) / operator=(T)
    [] op \in {"copy", "asg"} -> {Set1(s, i, s[j])}                     \* Variant(const Variant&) / operator=(const Variant&)
    [] op = "clear" -> {Set1(s, i, Null)}
    [] op = "swap" -> {[s EXCEPT ![i] = s[j], ![j] = s[i]]}
    [] op \in MutOps -> {Set1(s, i, Mut(op, s[i], x, key))}
    [] op \in DOMAIN VarOps -> {Set1(s, i, Mut(VarOps[op], s[i], s[j], key))}
    [] op \in DOMAIN InOps -> {Set1(s, i, Inner(InOps[op], s[i], x, key))}
    [] op = "get" -> {IF NonEmptyCont(s[j]) THEN Set1(s, i, LastElem(s[j])) ELSE s}      \* i = element of j (also of itself)
    \* heldapp: the list obtained from variable i through the mutable accessor is kept, variable j becomes a copy of i, then an
    \* element is appended through the kept reference: "changing the list obtained from one Variant through its mutable accessor
    \* never changes any other Variant" - j keeps the list as it was when it was copied
    [] op = "heldapp" -> {[s EXCEPT ![i] = Mut("applist", s[i], x, key), ![j] = <<"list", ConvTo("list", s[i])[2]>>]}
    [] op \in {"smoke", "nop"} -> {s}

\* one-sided wildcard: the reference's "some string" matches every observed string, nothing else is relaxed
RECURSIVE MatchV(_, _)
MatchV(o, obs) ==
  IF IsWild(o) THEN obs[1] = "str"
  ELSE IF IsCont(o) /\ HasWild(o)
  THEN /\ obs[1] = o[1] /\ Len(obs[2]) = Len(o[2])
       /\ (o[1] = "map" => Keys(o) = Keys(obs))
       /\ \A k \in 1..Len(o[2]) : MatchV(Elems(o)[k], Elems(obs)[k])
  ELSE o = obs
Match(o, obs) == \A i \in Vars : MatchV(o[i], obs.v[i])
Concrete(o, obs) == obs.v

TypeName(v) == IF IsWild(v) THEN "str" ELSE v[1]
\* what every variable must report in state c (observation obs):  getType, isNull, the conversions, the equality matrix
ObsOK(c, obs) ==
  /\ \A i \in Vars : /\ obs.ty[i] = TypeName(c[i])
                     /\ obs.nul[i] = (c[i] = Null)
                     /\ MatchConv(c[i], obs.cv[i])
  /\ \A i, k \in Vars : EqS(c[i], c[k]) = 2 \/ (EqS(c[i], c[k]) = 1) = obs.eq[i][k]
  /\ obs.neok                                   \* operator!= is the negation of operator==

Init0 == [i \in Vars |-> Null]

--------------------------------------------------------------------------------
\* Stand-alone bounded model
CONSTANTS MaxLen, MaxNodes, MaxStr
\* literal alphabets of the bounded models (overridden in the cfg: a cfg file cannot contain tuples)
Leaves == {<<"bool", TRUE>>, <<"int", -1>>, <<"u64", 0>>, <<"dbl", 3>>, <<"str", <<49>>>>}
TopLits == Leaves \cup {<<"arr", << <<"int", 1>> >>>>, <<"map", << <<<<97>>, <<"str", <<49>>>>>> >>>>}
ElemLits == {<<"int", 1>>, <<"list", <<>>>>}
KeyLits == {<<97>>}
LeavesQ == {<<"bool", TRUE>>, <<"int", -1>>, <<"str", <<49>>>>}          \* quick tier
StrLits == {<<49>>}

RECURSIVE StrOK(_)
StrOK(v) == IF v[1] = "str" THEN Len(v[2]) <= MaxStr
            ELSE IF IsCont(v) THEN \A k \in 1..Len(v[2]) : StrOK(Elems(v)[k]) /\ (v[1] = "map" => Len(v[2][k][1]) <= MaxStr)
            ELSE TRUE
ValueBound(s) == \A i \in Vars : /\ Depth(s[i]) <= 2 /\ ~HasWild(s[i]) /\ StrOK(s[i])
                                 /\ (IsCont(s[i]) => /\ Len(s[i][2]) <= MaxLen
                                                     /\ \A k \in 1..Len(s[i][2]) : IsCont(Elems(s[i])[k]) => Len(Elems(s[i])[k][2]) <= MaxLen)
NN(v) == IF v = Null THEN 0 ELSE Nodes(v)          \* a null variable costs nothing
TotalNodes(s) == NN(s[1]) + NN(s[2]) + NN(s[3])
InBound(s) == ValueBound(s) /\ TotalNodes(s) <= MaxNodes

VARIABLES st, last
vars == <<st, last>>
StView == st          \* VIEW: `last' only labels the transition (for the action properties), it is not part of the state
\* operations the bounded models do not take: text of a double (keeps the wildcard out), element operations on a variable
\* that holds no element  (guards live inside Do so that TLC labels every transition with its Do(...) instance)
Guard(op, s, i, j) ==
  /\ (op \in {"mstr", "appstr"}) => (s[i][1] # "dbl")
  /\ (op \in DOMAIN InOps) => (NonEmptyCont(s[i]) /\ ((InOps[op] \in {"mstr", "appstr"}) => (LastElem(s[i])[1] # "dbl")))
  /\ (op = "get") => NonEmptyCont(s[j])
Do(op, i, j, x, key) == /\ Guard(op, st, i, j)
                        /\ \E o \in Step(op, st, i, j, x, key) : InBound(o) /\ st' = o     \* only successors inside the bounds
                        /\ last' = <<op, i, j, x, key>>
Init == st = Init0 /\ last = <<"init", 0, 0, Null, <<>>>>
Next == \E i \in Vars :
   \/ \E x \in TopLits : Do("ctor", i, 0, x, <<>>) \/ Do("assign", i, 0, x, <<>>)
   \/ Do("ctor", i, 0, Null, <<>>)
   \/ \E j \in Vars : Do("copy", i, j, Null, <<>>) \/ Do("asg", i, j, Null, <<>>) \/ Do("swap", i, j, Null, <<>>) \/ Do("get", i, j, Null, <<>>)
   \/ Do("clear", i, 0, Null, <<>>)
   \/ \E op \in {"mlist", "marr", "mmap", "mstr", "in_mlist", "in_marr", "in_mmap", "in_mstr"} : Do(op, i, 0, Null, <<>>)
   \/ \E x \in ElemLits : \/ \E op \in {"applist", "apparr", "in_applist", "in_apparr"} : Do(op, i, 0, x, <<>>)
                          \/ \E key \in KeyLits : Do("mapset", i, 0, x, key) \/ Do("in_mapset", i, 0, x, key)
   \/ \E key \in StrLits : Do("appstr", i, 0, Null, key) \/ Do("in_appstr", i, 0, Null, key)
   \/ \E j \in Vars \ {i} : Do("applistv", i, j, Null, <<>>) \/ Do("apparrv", i, j, Null, <<>>)
                            \/ \E key \in KeyLits : Do("mapsetv", i, j, Null, key)
Spec == Init /\ [][Next]_vars


\* ---- properties of the reference itself
\* last assigned type and value
LastAssigned == [][(last'[1] \in {"ctor", "assign"}) => st'[last'[2]] = last'[4]]_vars
\* a variable equals its copy, and the source of a copy is not changed by copying
CopyEqual == [][(last'[1] \in {"copy", "asg"}) =>
                  /\ st'[last'[3]] = st[last'[3]]
                  /\ EqS(st'[last'[2]], st'[last'[3]]) = 1]_vars
\* independence: an operation on variable i (and, for swap, j) never changes another variable
Independent == [][\A k \in Vars : (k # last'[2] /\ ~(last'[1] = "swap" /\ k = last'[3])) => st'[k] = st[k]]_vars
\* mutable access without mutation keeps a value of the accessed type
AccessKeeps == [][\A k \in Vars : /\ (last'[1] = "mlist" /\ last'[2] = k /\ st[k][1] = "list") => st'[k] = st[k]
                                  /\ (last'[1] = "marr" /\ last'[2] = k /\ st[k][1] = "arr") => st'[k] = st[k]
                                  /\ (last'[1] = "mmap" /\ last'[2] = k /\ st[k][1] = "map") => st'[k] = st[k]
                                  /\ (last'[1] = "mstr" /\ last'[2] = k /\ st[k][1] = "str") => st'[k] = st[k]]_vars
\* equality is reflexive on every reachable value and symmetric where the property decides it
EqSane == \A i, k \in Vars : /\ EqS(st[i], st[i]) = 1
                             /\ EqS(st[i], st[k]) = EqS(st[k], st[i])
                             /\ (st[i] = st[k]) = (EqS(st[i], st[k]) = 1)
\* the coercions are total on reachable values and agree on one value across the integer alternatives
ConvSane == \A i \in Vars : /\ ToBool(st[i]) \in {0, 1, 2}
                            /\ (st[i][1] \in IntTags /\ st[i][2] >= 0) => ToStr(st[i])[2] = Dec(st[i][2]) /\ IntOf(Dec(st[i][2])) = st[i][2]
                            /\ (st[i][1] = "str" /\ CanonInt(st[i][2])) => Dec(IntOf(st[i][2])) = st[i][2]
================================================================================
