SPECIFICATION Spec
CONSTANTS MaxLen = 2
 MaxNodes = 5
 MaxStr = 2
INVARIANTS EqSane ConvSane
PROPERTIES LastAssigned CopyEqual Independent AccessKeeps
VIEW StView
CONSTANT Leaves <- LeavesQ
