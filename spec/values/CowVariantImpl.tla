---------------------------- MODULE CowVariantImpl ----------------------------
(* Layer 2 (implementation shaped) model of nstd::Variant's lazy-copy representation, transcribed from
   include/nstd/Variant.hpp.  A Variant object ("slot": the three variables and every element of a container) is
     <<"N">>        data == &nullData                     (default constructed / cleared)
     <<"I", v>>     data == &_data, inline descriptor     (bool, double, the integer types; also a *copied* null)
     <<"H", id>>    data == heap block id                 (String, List, Array, HashMap payloads)
   and the heap is  blk[id] = [t |-> type tag, ref |-> reference count, p |-> payload]; the payload of a container is
   the sequence of its element slots (map: <<key, slot>> in iteration order), of a string its bytes.
   Copying a Variant shares heap blocks (ref + 1) and copies inline descriptors; the mutable accessors clone when the
   type differs or ref > 1; clear() releases by type (destroying a container releases its elements).  Every operation
   is written as the code executes it (order of increment / clear / allocation), the ghost variable st is the
   Layer-1 reference (VariantValues) advanced by the same operation.  TLC checks: reference count = number of
   holders, nothing referenced or read after release, no block without holder, refinement of Layer 1, and that the
   implementation's equality agrees with Layer 1 wherever Layer 1 decides it.

   Two switches reproduce the code before the fixes of finding F9 and of the use-after-free on assignment from an own
   element (cfg CowVariantImpl_orig_*.cfg; TLC must report a violation for them: sensitivity check):
     ReadAfterClear  operator=(const Variant& other) reads other.data after clear()     (other may be an element of this)
     ArrayPtrEq      Array<Variant> has no operator==: arrays compare by their element pointer                        *)
EXTENDS VariantValues
CONSTANTS MaxBlk, ReadAfterClear, ArrayPtrEq
VARIABLES rep, blk, uaf, refOK
ivars == <<rep, blk, uaf, refOK, st, last>>
IView == <<rep, blk, uaf, refOK, st>>

HeapTags == {"str", "list", "arr", "map"}
N0 == <<"N">>
Fresh(b) == CHOOSE x \in 1..MaxBlk : x \notin DOMAIN b /\ \A y \in 1..MaxBlk : y \notin DOMAIN b => x <= y
Drop(f, x) == [y \in DOMAIN f \ {x} |-> f[y]]
Inc(b, id) == [b EXCEPT ![id].ref = @ + 1]
NewBlock(b, t, p) == LET id == Fresh(b) IN [id |-> id, b |-> (id :> [t |-> t, ref |-> 1, p |-> p]) @@ b]
\* the element slots of a block's payload
PSlots(bk) == IF bk.t = "str" THEN <<>> ELSE IF bk.t = "map" THEN [k \in 1..Len(bk.p) |-> bk.p[k][2]] ELSE bk.p
AbsType(s, b) == IF s[1] = "N" THEN "null" ELSE IF s[1] = "I" THEN s[2][1] ELSE b[s[2]].t

RECURSIVE Abs(_, _)
Abs(s, b) ==
  IF s[1] = "N" THEN Null ELSE IF s[1] = "I" THEN s[2]
  ELSE LET bk == b[s[2]] IN
       IF bk.t = "str" THEN <<"str", bk.p>>
       ELSE IF bk.t = "map" THEN <<"map", [k \in 1..Len(bk.p) |-> <<bk.p[k][1], Abs(bk.p[k][2], b)>>]>>
       ELSE <<bk.t, [k \in 1..Len(bk.p) |-> Abs(bk.p[k], b)]>>

\* ---- Variant::clear() (87-102): decrement; at zero destroy the payload by type (which clears the elements), free
RECURSIVE Release(_, _), ReleaseSeq(_, _, _)
Release(s, b) ==
  IF s[1] # "H" THEN b
  ELSE LET id == s[2] IN
       IF b[id].ref > 1 THEN [b EXCEPT ![id].ref = @ - 1]
       ELSE LET slots == PSlots(b[id]) IN ReleaseSeq(slots, Len(slots), Drop(b, id))
ReleaseSeq(slots, n, b) == IF n = 0 THEN b ELSE ReleaseSeq(slots, n - 1, Release(slots[n], b))

\* ---- Variant(const Variant&) (30-42)
CopySlot(s, b) == IF s[1] = "H" THEN [s |-> s, b |-> Inc(b, s[2])]
                  ELSE IF s[1] = "N" THEN [s |-> <<"I", Null>>, b |-> b]       \* _data = nullData: an inline null
                  ELSE [s |-> s, b |-> b]
RECURSIVE IncAll(_, _, _)
IncAll(slots, n, b) == IF n = 0 THEN b ELSE IncAll(slots, n - 1, CopySlot(slots[n], b).b)
\* copy constructor of the container payload: element-wise Variant copy construction
CopyPayload(bk, b) ==
  IF bk.t = "str" THEN [p |-> bk.p, b |-> b]
  ELSE [p |-> IF bk.t = "map" THEN [k \in 1..Len(bk.p) |-> <<bk.p[k][1], CopySlot(bk.p[k][2], b).s>>]
              ELSE [k \in 1..Len(bk.p) |-> CopySlot(bk.p[k], b).s],
        b |-> IncAll(PSlots(bk), Len(bk.p), b)]

\* ---- a literal value built by the caller (temporary Variant / container of Variants), 44-85
RECURSIVE Build(_, _), BuildSeq(_, _, _)
Build(v, b) ==
  IF v[1] = "str" THEN LET nb == NewBlock(b, "str", v[2]) IN [s |-> <<"H", nb.id>>, b |-> nb.b]
  ELSE IF IsCont(v) THEN LET be == BuildSeq(v, Len(v[2]), b)
                             nb == NewBlock(be.b, v[1], be.p)
                         IN [s |-> <<"H", nb.id>>, b |-> nb.b]
  ELSE [s |-> <<"I", v>>, b |-> b]                   \* scalars; an element copied from a null Variant is an inline null
BuildSeq(v, n, b) ==
  IF n = 0 THEN [p |-> <<>>, b |-> b]
  ELSE LET r == BuildSeq(v, n - 1, b)
           e == Build(Elems(v)[n], r.b)
       IN [p |-> Append(r.p, IF v[1] = "map" THEN <<v[2][n][1], e.s>> ELSE e.s), b |-> e.b]
BuildTop(v, b) == IF v = Null THEN [s |-> N0, b |-> b] ELSE Build(v, b)

\* ---- operator=(const Variant& other), &other != this (104-122)
AsgSlot(dst, src, b) ==
  IF src[1] = "H" THEN [s |-> src, b |-> Release(dst, Inc(b, src[2]))]                  \* increment, clear(), data = other.data
  ELSE [s |-> <<"I", IF src[1] = "N" THEN Null ELSE src[2]>>, b |-> Release(dst, b)]     \* clear(), _data = *other.data

\* ---- non-const toMap()/toList()/toArray()/toString() (310-324, 350-364, 390-404, 422-436)
MAccess(kind, s, b) ==
  IF s[1] = "H" /\ b[s[2]].t = kind /\ ~(b[s[2]].ref > 1) THEN [s |-> s, b |-> b]
  ELSE LET src == IF s[1] = "H" /\ b[s[2]].t = kind THEN CopyPayload(b[s[2]], b)       \* copy of the shared payload
                  ELSE IF kind = "str" THEN [p |-> ToStr(Abs(s, b))[2], b |-> b]        \* const toString(): text of the value
                  ELSE [p |-> <<>>, b |-> b]                                            \* the static empty container
           nb == NewBlock(Release(s, src.b), kind, src.p)                               \* clear(); data = newData
       IN [s |-> <<"H", nb.id>>, b |-> nb.b]
KindOf == [mlist |-> "list", marr |-> "arr", mmap |-> "map", mstr |-> "str"]

\* mutable access (+ one mutation) on slot s; src is a live Variant (temporary or variable) whose copy is inserted
MutSlot(op, s, b, src, key) ==
  CASE op \in DOMAIN KindOf -> MAccess(KindOf[op], s, b)
    [] op \in {"applist", "apparr"} ->
         LET a == MAccess(IF op = "applist" THEN "list" ELSE "arr", s, b)
             c == CopySlot(src, a.b)
         IN [s |-> a.s, b |-> [c.b EXCEPT ![a.s[2]].p = Append(@, c.s)]]
    [] op = "mapset" ->                              \* HashMap::append = insert: an existing key is assigned in place
         LET a == MAccess("map", s, b)
             id == a.s[2]
             p == a.b[id].p
         IN IF \E k \in 1..Len(p) : p[k][1] = key
            THEN LET k == CHOOSE k \in 1..Len(p) : p[k][1] = key
                     r == AsgSlot(p[k][2], src, a.b)
                 IN [s |-> a.s, b |-> [r.b EXCEPT ![id].p[k] = <<key, r.s>>]]
            ELSE LET c == CopySlot(src, a.b) IN [s |-> a.s, b |-> [c.b EXCEPT ![id].p = Append(@, <<key, c.s>>)]]
    [] op = "appstr" -> LET a == MAccess("str", s, b) IN [s |-> a.s, b |-> [a.b EXCEPT ![a.s[2]].p = @ \o key]]

\* ---- operator=(T) (144-155 ... 454-468)
AssignLit(s, b, v) ==
  IF v[1] \notin HeapTags THEN [s |-> <<"I", v>>, b |-> Release(s, b)]      \* type differs: clear(); same type: overwrite _data
  ELSE IF AbsType(s, b) # v[1] \/ b[s[2]].ref > 1
  THEN Build(v, Release(s, b))                                              \* clear(); new block holding a copy
  ELSE LET id == s[2] IN                                                    \* assign the payload in place
       IF v[1] = "str" THEN [s |-> s, b |-> [b EXCEPT ![id].p = v[2]]]
       ELSE LET old == PSlots(b[id])
                be == BuildSeq(v, Len(v[2]), ReleaseSeq(old, Len(old), [b EXCEPT ![id].p = <<>>]))
            IN [s |-> s, b |-> [be.b EXCEPT ![id].p = be.p]]

Res(r, b, u) == [rep |-> r, blk |-> b, uaf |-> u]
\* literal operations build their temporary first and destroy it last
WithTemp(i, x, F(_, _)) ==         \* F(tempslot, blk) = [s, b]
  LET t == BuildTop(x, blk)
      m == F(t.s, t.b)
  IN Res([rep EXCEPT ![i] = m.s], Release(t.s, m.b), FALSE)

InnerOn(i, base, src, key, b0) ==   \* the accessor of the container's own type, back(), then the mutation on that element
  LET kind == AbsType(rep[i], b0)
      o == MAccess(kind, rep[i], b0)
      cid == o.s[2]
      n == Len(o.b[cid].p)
      e == PSlots(o.b[cid])[n]
      m == MutSlot(base, e, o.b, src, key)
  IN [s |-> o.s, b |-> [m.b EXCEPT ![cid].p[n] = IF kind = "map" THEN <<@[1], m.s>> ELSE m.s]]

Impl(op, i, j, x, key) ==
  CASE op = "ctor" -> LET t == BuildTop(x, blk) IN Res([rep EXCEPT ![i] = t.s], Release(rep[i], t.b), FALSE)
    [] op = "assign" -> LET a == AssignLit(rep[i], blk, x) IN Res([rep EXCEPT ![i] = a.s], a.b, FALSE)
    [] op = "copy" -> LET c == CopySlot(rep[j], blk) IN Res([rep EXCEPT ![i] = c.s], Release(rep[i], c.b), FALSE)
    [] op = "asg" -> IF i = j THEN Res(rep, blk, FALSE)
                     ELSE LET a == AsgSlot(rep[i], rep[j], blk) IN Res([rep EXCEPT ![i] = a.s], a.b, FALSE)
    [] op = "clear" -> Res([rep EXCEPT ![i] = N0], Release(rep[i], blk), FALSE)
    [] op = "swap" ->                                  \* Variant tmp = other; other = *this; *this = tmp; (470-475)
         LET t == CopySlot(rep[j], blk)
             a1 == IF i = j THEN [s |-> rep[j], b |-> t.b] ELSE AsgSlot(rep[j], rep[i], t.b)
             a2 == AsgSlot(rep[i], t.s, a1.b)
         IN Res([rep EXCEPT ![j] = a1.s, ![i] = a2.s], Release(t.s, a2.b), FALSE)
    [] op \in MutOps -> WithTemp(i, x, LAMBDA ts, b : MutSlot(op, rep[i], b, ts, key))
    [] op \in DOMAIN VarOps -> LET m == MutSlot(VarOps[op], rep[i], blk, rep[j], key) IN Res([rep EXCEPT ![i] = m.s], m.b, FALSE)
    [] op \in DOMAIN InOps -> WithTemp(i, x, LAMBDA ts, b : InnerOn(i, InOps[op], ts, key, b))
    [] op = "get" ->                                   \* *this = element of other's container (other may be this)
         LET cid == rep[j][2]
             e == PSlots(blk[cid])[Len(blk[cid].p)]
             b2 == Release(rep[i], IF e[1] = "H" THEN Inc(blk, e[2]) ELSE blk)
         IN Res([rep EXCEPT ![i] = IF e[1] = "H" THEN e ELSE <<"I", e[2]>>], b2, ReadAfterClear /\ cid \notin DOMAIN b2)

\* ---- canonical block numbering: blocks are renumbered in the order in which they are reached from the variables,
\* so that states that differ only in the addresses of their blocks are one state; a block that is not reached from
\* any variable is a leak
InSeq(x, q) == \E k \in 1..Len(q) : q[k] = x
RECURSIVE Visit(_, _, _), VisitSeq(_, _, _, _)
Visit(s, seen, b) == IF s[1] # "H" \/ InSeq(s[2], seen) THEN seen
                     ELSE VisitSeq(PSlots(b[s[2]]), 1, Append(seen, s[2]), b)
VisitSeq(sl, k, seen, b) == IF k > Len(sl) THEN seen ELSE VisitSeq(sl, k + 1, Visit(sl[k], seen, b), b)
Pos(x, q) == CHOOSE k \in 1..Len(q) : q[k] = x
RenSlot(s, q) == IF s[1] = "H" THEN <<"H", Pos(s[2], q)>> ELSE s
RenBlk(bk, q) == LET p == bk.p IN
  [bk EXCEPT !.p = IF bk.t = "str" THEN p
                   ELSE IF bk.t = "map" THEN [k \in 1..Len(p) |-> <<p[k][1], RenSlot(p[k][2], q)>>]
                   ELSE [k \in 1..Len(p) |-> RenSlot(p[k], q)]]
Canon(r, b) == LET q == Visit(r[3], Visit(r[2], Visit(r[1], <<>>, b), b), b)
               IN [rep |-> [i \in Vars |-> RenSlot(r[i], q)], blk |-> [n \in 1..Len(q) |-> RenBlk(b[q[n]], q)],
                   leak |-> Len(q) # Cardinality(DOMAIN b)]

IDo(op, i, j, x, key) ==
  /\ Guard(op, st, i, j)
  /\ LET r == Impl(op, i, j, x, key)
         c == Canon(r.rep, r.blk)
         ref == CHOOSE o \in Step(op, st, i, j, x, key) : TRUE
     IN /\ InBound(ref)                    \* successors outside the bounds of the model are not generated at all
        /\ rep' = c.rep /\ blk' = c.blk /\ uaf' = (uaf \/ r.uaf)
        /\ st' = ref
        /\ refOK' = (refOK /\ ~c.leak)     \* no block is left behind without a holder
        /\ last' = <<op, i, j, x, key>>

\* ---- bounded model: literal alphabets (a cfg may substitute other sets)
TopLits2 == {<<"bool", TRUE>>, <<"int", 1>>, <<"str", <<49>>>>, <<"list", <<>>>>, <<"arr", << <<"int", 1>> >>>>,
             <<"map", << <<<<97>>, <<"str", <<49>>>>>> >>>>}
ElemLits2 == {<<"int", 1>>, <<"str", <<49>>>>, <<"list", <<>>>>}
KeyLits2 == {<<97>>, <<98>>}
StrLits2 == {<<50>>}
OpVars == Vars                      \* variables that operations are applied to
\* the small alphabets of the quick tier
TopLitsQ == {<<"int", 1>>, <<"str", <<49>>>>, <<"arr", << <<"int", 1>> >>>>}
ElemLitsQ == {<<"int", 1>>}
KeyLitsQ == {<<97>>}
StrLitsQ == {<<49>>}
OpVarsQ == {1, 2}

IInit == /\ rep = [i \in Vars |-> N0] /\ blk = <<>> /\ uaf = FALSE /\ refOK = TRUE
         /\ st = Init0 /\ last = <<"init", 0, 0, Null, <<>>>>
INext == \E i \in OpVars :
   \/ \E x \in TopLits2 \cup {Null} : IDo("ctor", i, 0, x, <<>>) \/ IDo("assign", i, 0, x, <<>>)
   \/ \E j \in Vars : IDo("copy", i, j, Null, <<>>) \/ IDo("asg", i, j, Null, <<>>) \/ IDo("swap", i, j, Null, <<>>) \/ IDo("get", i, j, Null, <<>>)
   \/ IDo("clear", i, 0, Null, <<>>)
   \/ \E op \in {"mlist", "marr", "mmap", "mstr", "in_mlist", "in_marr", "in_mmap", "in_mstr"} : IDo(op, i, 0, Null, <<>>)
   \/ \E x \in ElemLits2 : \/ \E op \in {"applist", "apparr", "in_applist", "in_apparr"} : IDo(op, i, 0, x, <<>>)
                           \/ \E key \in KeyLits2 : IDo("mapset", i, 0, x, key) \/ IDo("in_mapset", i, 0, x, key)
   \/ \E key \in StrLits2 : IDo("appstr", i, 0, Null, key) \/ IDo("in_appstr", i, 0, Null, key)
   \/ \E j \in Vars \ {i} : IDo("applistv", i, j, Null, <<>>) \/ IDo("apparrv", i, j, Null, <<>>)
                            \/ \E key \in KeyLits2 : IDo("mapsetv", i, j, Null, key)
ISpec == IInit /\ [][INext]_ivars

\* ---- invariants
AllSlots == {rep[i] : i \in Vars} \cup UNION {{PSlots(blk[id])[k] : k \in 1..Len(PSlots(blk[id]))} : id \in DOMAIN blk}
Holders(id) == Cardinality({i \in Vars : rep[i] = <<"H", id>>})
               + SumSeq([b2 \in 1..MaxBlk |-> IF b2 \in DOMAIN blk
                                               THEN Cardinality({k \in 1..Len(PSlots(blk[b2])) : PSlots(blk[b2])[k] = <<"H", id>>})
                                               ELSE 0], MaxBlk)
\* no Variant points to a released block, and no released memory was read
NoUseAfterRelease == ~uaf /\ \A s \in AllSlots : s[1] = "H" => s[2] \in DOMAIN blk
\* the reference count of every block is the number of Variants that point to it (so: no leak, no early release)
RefCountOK == \A id \in DOMAIN blk : blk[id].ref = Holders(id) /\ blk[id].ref >= 1
\* scalars are inline, heap blocks hold strings and containers
ShapeOK == /\ \A id \in DOMAIN blk : blk[id].t \in HeapTags
           /\ \A s \in AllSlots : s[1] = "I" => s[2][1] \notin HeapTags
\* the values seen through the representation are the Layer-1 values: copies are independent, the last value is kept
RefinementOK == refOK /\ \A i \in Vars : Abs(rep[i], blk) = st[i]
\* operator== as the implementation computes it for two array variables when Array has no operator==
ImplEq(a, b) == IF ArrayPtrEq /\ a[1] = "H" /\ b[1] = "H" /\ blk[a[2]].t = "arr" /\ blk[b[2]].t = "arr"
                THEN (IF a[2] = b[2] THEN 1 ELSE IF blk[a[2]].p = <<>> \/ blk[b[2]].p = <<>> THEN 2 ELSE 0)
                ELSE EqS(Abs(a, blk), Abs(b, blk))
EqRefines == \A i, k \in Vars : EqS(st[i], st[k]) = 2 \/ ImplEq(rep[i], rep[k]) \in {2, EqS(st[i], st[k])}
================================================================================
