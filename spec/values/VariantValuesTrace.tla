-------------------------- MODULE VariantValuesTrace --------------------------
(* Trace specification: validates executions recorded from three real nstd::Variant objects (harness/variant) against
   VariantValues.  Every event carries the operation, its arguments, the projected value tree of all three variables
   and what they report (getType, isNull, to* conversions, equality matrix).  An event that VariantValues does not allow
   is reported as <<"MISMATCH", line, op, why>> (why = "state": a variable holds a value the operation cannot have
   produced; "obs": a variable reports something else than its value demands) and the abstract state is
   re-synchronised from the observation so that the rest of the trace is still checked.                              *)
EXTENDS VariantValues, Json, IOUtils
VARIABLES l, nbad
T == ndJsonDeserialize(IOEnv.TRACE)

TInit == l = 1 /\ nbad = 0 /\ st = Init0 /\ last = <<"init", 0, 0, Null, <<>>>>
TStep ==
  /\ l <= Len(T)
  /\ l' = l + 1
  /\ LET e == T[l] IN
     IF e.op = "reset" THEN st' = Init0 /\ UNCHANGED <<nbad, last>>
     ELSE LET allowed == { o \in Step(e.op, st, e.i, e.j, e.x, e.k) : Match(o, e) }
              obsOK == ObsOK(e.v, e) /\ (e.op = "smoke" => e.r)
          IN /\ last' = <<e.op, e.i, e.j, e.x, e.k>>
             /\ st' = e.v
             /\ IF allowed # {} /\ obsOK THEN UNCHANGED nbad
                ELSE /\ PrintT(<<"MISMATCH", l, e.op, IF allowed = {} THEN "state" ELSE "obs">>)
                     /\ nbad' = nbad + 1
TDone == l = Len(T) + 1 /\ PrintT(<<"TRACE-DONE", Len(T), nbad>>) /\ l' = l + 1 /\ UNCHANGED <<st, last, nbad>>
TNext == TStep \/ TDone
TSpec == TInit /\ [][TNext]_<<vars, l, nbad>>
\* every observed state is a tuple of well-formed value trees
RECURSIVE WellFormed(_)
WellFormed(v) ==
  CASE v[1] = "null" -> Len(v) = 1
    [] v[1] = "bool" -> v[2] \in BOOLEAN
    [] v[1] \in IntTags \cup {"dbl"} -> v[2] \in Int
    [] v[1] = "str" -> \A k \in 1..Len(v[2]) : v[2][k] \in 0..255
    [] v[1] \in {"list", "arr"} -> \A k \in 1..Len(v[2]) : WellFormed(v[2][k])
    [] v[1] = "map" -> /\ \A k \in 1..Len(v[2]) : WellFormed(v[2][k][2])
                       /\ \A k, m \in 1..Len(v[2]) : k # m => v[2][k][1] # v[2][m][1]       \* keys are unique
    [] v[1] = "big" -> TRUE                \* a number outside the modelled domain: reported as a mismatch, not as a broken trace
    [] OTHER -> FALSE
TInv == \A i \in Vars : WellFormed(st[i])
================================================================================
