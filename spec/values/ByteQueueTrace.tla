---------------------------- MODULE ByteQueueTrace ----------------------------
(* Trace specification: validates executions recorded from the real nstd::Buffer (harness/buffer) against
   ByteQueue.  Every event carries the operation, its arguments and the projected state of both variables.
   An event that ByteQueue does not allow is reported as <<"MISMATCH", line, op>> and the abstract state is
   re-synchronised from the observation so that the rest of the trace is still checked.                     *)
EXTENDS ByteQueue, Json, IOUtils
VARIABLES l, nbad
T == ndJsonDeserialize(IOEnv.TRACE)

ModeFromObs(prev, e, i) ==
  IF e.own[i] THEN "own"
  ELSE IF e.op = "attach" /\ e.i = i THEN "att"
  ELSE IF e.op = "swap" THEN (IF st.mode[Other(i)] = "own" THEN "none" ELSE st.mode[Other(i)])
  ELSE IF prev = "own" THEN "none" ELSE prev
Resync(e) == [q |-> e.q, mode |-> [i \in 1..2 |-> ModeFromObs(st.mode[i], e, i)]]

TInit == l = 1 /\ nbad = 0 /\ st = Init0 /\ last = <<"init", 0, <<>>, 0, TRUE>>
TStep ==
  /\ l <= Len(T)
  /\ l' = l + 1
  /\ LET e == T[l] IN
     IF e.op = "reset" THEN st' = Init0 /\ UNCHANGED <<nbad, last>>
     ELSE LET allowed == { o \in Step(e.op, st, e.i, e.d, e.n) : Match(o, e) }
              resOK == e.op = "eq" => e.r = Result(e.op, st, e.i)
          IN /\ last' = <<e.op, e.i, e.d, e.n, TRUE>>
             /\ IF allowed # {} /\ resOK
                THEN st' = Concrete(CHOOSE o \in allowed : TRUE, e) /\ UNCHANGED nbad
                ELSE /\ PrintT(<<"MISMATCH", l, e.op>>)
                     /\ st' = Resync(e) /\ nbad' = nbad + 1
TDone == l = Len(T) + 1 /\ PrintT(<<"TRACE-DONE", Len(T), nbad>>) /\ l' = l + 1 /\ UNCHANGED <<st, last, nbad>>
TNext == TStep \/ TDone
TSpec == TInit /\ [][TNext]_<<vars, l, nbad>>
\* the reference's own invariant is evaluated on every state the implementation was observed in
TInv == TypeOK
================================================================================
