-------------------------------- MODULE Decimal --------------------------------
(* Property C18 (numeric part) - decimal text of fixed-width integers, executable in TLC (whose integers are 32-bit).

   An integer of width 16*n bits is its two's-complement bit pattern as a little-endian vector of n 16-bit limbs
   (n = 2: int/uint, n = 4: int64/uint64).  ToDecimal(limbs, signed) is the canonical decimal text as a sequence of
   character codes ('-' = 45, '0' = 48), by repeated division by ten; FromDecimal is its inverse.                 *)
EXTENDS Integers, Sequences, SequencesExt

Limb == 65536
IsZero(v) == \A i \in 1..Len(v) : v[i] = 0
IsNeg(v) == v[Len(v)] >= 32768
\* two's-complement negation: ~v + 1
Negate(v) ==
  LET step(acc, i) == LET t == (65535 - v[i]) + acc[1] IN <<t \div Limb, Append(acc[2], t % Limb)>>
  IN FoldLeft(step, <<1, <<>>>>, [i \in 1..Len(v) |-> i])[2]
\* v \div 10 and v % 10, long division from the most significant limb (remainder * 65536 + limb < 2^20)
DivMod10(v) ==
  LET n == Len(v)
      step(acc, k) == LET i == n + 1 - k
                          t == acc[1] * Limb + v[i]
                      IN <<t % 10, [acc[2] EXCEPT ![i] = t \div 10]>>
      r == FoldLeft(step, <<0, v>>, [k \in 1..n |-> k])
  IN [q |-> r[2], r |-> r[1]]
\* v * 10 + d modulo 2^(16 n)
MulAdd10(v, d) ==
  LET step(acc, i) == LET t == v[i] * 10 + acc[1] IN <<t \div Limb, Append(acc[2], t % Limb)>>
  IN FoldLeft(step, <<d, <<>>>>, [i \in 1..Len(v) |-> i])[2]

RECURSIVE Digits(_)                    \* decimal digits (character codes) of an unsigned limb vector, no leading zeros
Digits(v) == IF IsZero(v) THEN <<>> ELSE LET dm == DivMod10(v) IN Append(Digits(dm.q), 48 + dm.r)
Unsigned(v) == IF IsZero(v) THEN <<48>> ELSE Digits(v)
ToDecimal(v, signed) == IF signed /\ IsNeg(v) THEN <<45>> \o Unsigned(Negate(v)) ELSE Unsigned(v)

\* inverse: canonical decimal text -> n limbs (two's complement)
FromDigits(txt, n) == FoldLeft(LAMBDA acc, c : MulAdd10(acc, c - 48), [i \in 1..n |-> 0], txt)
FromDecimal(txt, n) == IF Len(txt) > 0 /\ txt[1] = 45 THEN Negate(FromDigits(Tail(txt), n)) ELSE FromDigits(txt, n)

\* self check: 2^31 - 1, -2^31, 2^64 - 1, -1, 0, 10^19
ASSUME ToDecimal(<<65535, 32767>>, TRUE) = <<50, 49, 52, 55, 52, 56, 51, 54, 52, 55>>                    \* 2147483647
ASSUME ToDecimal(<<0, 32768>>, TRUE) = <<45, 50, 49, 52, 55, 52, 56, 51, 54, 52, 56>>                     \* -2147483648
ASSUME ToDecimal(<<0, 32768>>, FALSE) = <<50, 49, 52, 55, 52, 56, 51, 54, 52, 56>>
ASSUME ToDecimal(<<65535, 65535, 65535, 65535>>, FALSE) =
         <<49, 56, 52, 52, 54, 55, 52, 52, 48, 55, 51, 55, 48, 57, 53, 53, 49, 54, 49, 53>>                \* 18446744073709551615
ASSUME ToDecimal(<<65535, 65535, 65535, 65535>>, TRUE) = <<45, 49>> /\ ToDecimal(<<0, 0>>, TRUE) = <<48>>
ASSUME FromDecimal(<<45, 50, 49, 52, 55, 52, 56, 51, 54, 52, 56>>, 2) = <<0, 32768>>
ASSUME FromDecimal(<<49, 56, 52, 52, 54, 55, 52, 52, 48, 55, 51, 55, 48, 57, 53, 53, 49, 54, 49, 53>>, 4) = <<65535, 65535, 65535, 65535>>
ASSUME FromDecimal(<<45, 49>>, 4) = <<65535, 65535, 65535, 65535>> /\ FromDecimal(<<48>>, 2) = <<0, 0>>
=============================================================================
