SPECIFICATION ISpec
CONSTANTS NV = 3
 NX = 2
 MaxLen = 1
 MaxLst = 0
 Bytes = {44}
 CharSet = {97}
 AttLens = {1, 2}
 ResizeSet = {0, 1, 4}
 CapSet = {0, 4}
 Orig = FALSE
 Skip = {"reserve", "assignlit", "appendc", "cstrm", "lower", "trim", "printf", "compare", "prependb", "appendb", "resize"}
INVARIANTS RefCountOK NoDangling NoErr TempsDead CapOK RefinementOK ExtUntouched CStrOK
PROPERTY IndepStep
