SPECIFICATION ISpec
CONSTANTS MaxLen = 2
 MaxNodes = 4
 MaxStr = 1
 MaxBlk = 12
 ReadAfterClear = TRUE
 ArrayPtrEq = FALSE
INVARIANTS NoUseAfterRelease RefCountOK ShapeOK RefinementOK EqRefines
VIEW IView
CONSTANTS TopLits2 <- TopLitsQ
 ElemLits2 <- ElemLitsQ
 KeyLits2 <- KeyLitsQ
 StrLits2 <- StrLitsQ
