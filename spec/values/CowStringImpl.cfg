SPECIFICATION ISpec
CONSTANTS NV = 2
 NX = 2
 MaxLen = 2
 MaxLst = 0
 Bytes = {44}
 CharSet = {97}
 AttLens = {1, 2}
 ResizeSet = {0, 4}
 CapSet = {4}
 Orig = FALSE
 Skip = {"printf", "lower", "assignlit", "appendc", "trim", "prependb", "appendb", "ctorbuf"}
INVARIANTS RefCountOK NoDangling NoErr TempsDead CapOK RefinementOK ExtUntouched CStrOK
PROPERTY IndepStep
