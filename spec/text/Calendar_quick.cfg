SPECIFICATION Spec
CONSTANT DayRange = 4000
INVARIANTS Closed Shape BackForth
