SPECIFICATION Spec
CONSTANTS MaxNodes = 3
 NRandom = 300
