SPECIFICATION TSpec
CONSTANT DayRange = 0
INVARIANTS Closed Shape
