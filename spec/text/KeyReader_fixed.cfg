SPECIFICATION LSpec
CONSTANTS Sigma = {27, 91, 51, 126, 65, 195, 169}
 N = 6
 CAP = 6
 Variant = "fixed"
 KeyNames = {}
 MaxBuf = 0
 MaxHist = 0
INVARIANT InvBounds
INVARIANT InvProgress
INVARIANT InvRefines
