------------------------------- MODULE LineEdit -------------------------------
(* Extra X05, Layer 1: Console::Prompt::getLine as a line editor behind a terminal (property level).

   The terminal sends BYTES.  The editor frames them into keys ("units") the way every VT100 / UTF-8 terminal
   encodes them, applies each key to the edit buffer and, when it has consumed everything and waits for more,
   the screen shows prompt + buffer with the cursor at the caret.  The screen is observed through the harness
   (harness/console): the emulated VT100 cells from the prompt's first cell on, ROWS JOINED at the width the
   terminal reports, so that "wrapped at the terminal width" is part of the observation and this module is
   width-agnostic: text = prompt \o buffer, cursor = Len(prompt) + caret, as linear indices.

   Differences to the statement in extras.jsonl (written from the header, which documents nothing) - the library's
   evident intent is followed and said here:
    * the Prompt does not scroll a too long line horizontally ("the visible window of it"): it WRAPS the line
      over as many screen rows as needed.  The whole of prompt + buffer is therefore always visible.
    * history: like GNU readline, a history line edited while browsing KEEPS the edit when the user moves on with
      up / down (the code stores the current text into the slot it leaves, also across later getLine calls);
      only enter does not write back.  Empty lines are not added to the history.  Duplicates are kept.
      (So the history is NOT simply "the lines returned earlier": a slot can hold text that was never returned,
      even the empty text.  The statement is silent about edits of history lines; the code is explicit.)
    * nothing is demanded of the screen once getLine has returned (the code erases the prompt and puts the cursor
      back where it found it), nor while a key is only partly received.
    * tab is ignored.  Escape sequences that are not one of the seven keys (ESC [ A B C D H F, ESC [ 3 ~) are
      ignored as a whole: CSI = ESC [ (digit ; ?)* final(0x40..0x7E), and ESC + one byte 0x30..0x7E that does not
      introduce a longer sequence.
    * WELL-FORMED input is judged exactly.  As soon as a byte arrives that cannot continue a well-formed unit
      (ill-formed or truncated UTF-8, a C0 / C1 control other than the keys, a truncated or non-standard escape
      sequence, SS2/SS3/DCS/OSC/... introducers) the line is "lost": its display, content and framing are no
      longer judged - only that nothing is read or written out of bounds (sanitizers), that the terminal mode
      is restored, and that ENTER STILL ENDS THE LINE: of 4 consecutive 0x0D bytes (the longest unit is 4 bytes)
      at least one must make getLine return.  A lost line leaves unknown history entries behind; browsing onto
      one makes the line "tainted" (content unknown, framing known).
   Not modelled: characters that occupy 0 or 2 terminal cells (the library counts one cell per code point),
   output of other threads while the prompt is shown, window size changes.                                     *)
EXTENDS Integers, Sequences, FiniteSets, SequencesExt, TLC

CONSTANTS KeyNames, MaxBuf, MaxHist      \* stand-alone model only

UNKNOWN == <<-1>>
Strip(t) == LET idx == {i \in 1..Len(t) : t[i] # 32} IN IF idx = {} THEN <<>> ELSE SubSeq(t, 1, Max(idx))

\* ------------------------------------------------------------------------------------------------ UTF-8
IsCont(b) == b >= 128 /\ b <= 191
Utf8Len(b) == IF b < 128 THEN 1 ELSE IF b >= 194 /\ b <= 223 THEN 2 ELSE IF b >= 224 /\ b <= 239 THEN 3
              ELSE IF b >= 240 /\ b <= 244 THEN 4 ELSE 0
SecondOK(b1, b2) == CASE b1 = 224 -> b2 >= 160 [] b1 = 237 -> b2 <= 159 [] b1 = 240 -> b2 >= 144 [] b1 = 244 -> b2 <= 143
                      [] OTHER -> TRUE
Utf8Enc(c) == IF c < 128 THEN <<c>>
              ELSE IF c < 2048 THEN <<192 + (c \div 64), 128 + (c % 64)>>
              ELSE IF c < 65536 THEN <<224 + (c \div 4096), 128 + ((c \div 64) % 64), 128 + (c % 64)>>
              ELSE <<240 + (c \div 262144), 128 + ((c \div 4096) % 64), 128 + ((c \div 64) % 64), 128 + (c % 64)>>
EncAll(cps) == FoldLeft(LAMBDA acc, c : acc \o Utf8Enc(c), <<>>, cps)
DecUnit(u) == CASE Len(u) = 1 -> u[1]
                [] Len(u) = 2 -> (u[1] - 192) * 64 + (u[2] - 128)
                [] Len(u) = 3 -> (u[1] - 224) * 4096 + (u[2] - 128) * 64 + (u[3] - 128)
                [] OTHER -> (u[1] - 240) * 262144 + (u[2] - 128) * 4096 + (u[3] - 128) * 64 + (u[4] - 128)
\* one terminal cell, visible: no C0 / DEL / C1 control, no surrogate
IsPrintCp(c) == (c >= 32 /\ c <= 126) \/ (c >= 160 /\ c <= 1114111 /\ ~(c >= 55296 /\ c <= 57343))

\* ------------------------------------------------------------------------------------------------ framing
\* u = the bytes received since the last unit boundary (non-empty).  "unit": a complete well-formed key;
\* "prefix": can still become one; "bad": cannot.
IsParam(b) == (b >= 48 /\ b <= 57) \/ b = 59 \/ b = 63
LongerEsc == {78, 79, 80, 88, 91, 93, 94, 95}      \* SS2 SS3 DCS SOS CSI OSC PM APC: ESC + this byte is not complete
Classify(u) ==
  LET n == Len(u) b1 == u[1] IN
  IF b1 = 27 THEN
    IF n = 1 THEN "prefix"
    ELSE IF u[2] # 91 THEN (IF n = 2 /\ u[2] >= 48 /\ u[2] <= 126 /\ u[2] \notin LongerEsc THEN "unit" ELSE "bad")
    ELSE IF n = 2 THEN "prefix"
    ELSE IF \E i \in 3..(n - 1) : ~IsParam(u[i]) THEN "bad"
    ELSE IF IsParam(u[n]) THEN "prefix"
    ELSE IF u[n] >= 64 /\ u[n] <= 126 /\ u[n] # 91 THEN "unit" ELSE "bad"
  ELSE IF b1 < 128 THEN
    (IF n = 1 /\ ((b1 >= 32 /\ b1 <= 127) \/ b1 \in {8, 9, 13}) THEN "unit" ELSE "bad")
  ELSE
    LET L == Utf8Len(b1) IN
    IF L = 0 \/ n > L THEN "bad"
    ELSE IF \E i \in 2..n : ~IsCont(u[i]) THEN "bad"
    ELSE IF n >= 2 /\ ~SecondOK(b1, u[2]) THEN "bad"
    ELSE IF n < L THEN "prefix"
    ELSE IF IsPrintCp(DecUnit(u)) THEN "unit" ELSE "bad"

Cls(u8, u) == IF ~u8 /\ u[Len(u)] >= 128 THEN "bad" ELSE Classify(u)

KeyOf(u) == CASE u = <<13>> -> "enter" [] u = <<9>> -> "tab" [] u = <<8>> -> "bs" [] u = <<127>> -> "bs"
              [] u = <<27, 91, 65>> -> "up" [] u = <<27, 91, 66>> -> "down" [] u = <<27, 91, 67>> -> "right"
              [] u = <<27, 91, 68>> -> "left" [] u = <<27, 91, 72>> -> "home" [] u = <<27, 91, 70>> -> "end"
              [] u = <<27, 91, 51, 126>> -> "del"
              [] OTHER -> IF u[1] = 27 THEN "none" ELSE "ins"

\* bytes of a String (a history line, a prompt) -> code points; UNKNOWN unless it is well-formed UTF-8 of visible characters
DecStep(acc, b) ==
  IF acc.bad THEN acc
  ELSE LET u == acc.pend \o <<b>> IN
       IF u[1] < 32 \/ u[1] = 127 THEN [acc EXCEPT !.bad = TRUE]
       ELSE LET c == Classify(u) IN
            IF c = "bad" THEN [acc EXCEPT !.bad = TRUE]
            ELSE IF c = "prefix" THEN [acc EXCEPT !.pend = u]
            ELSE [out |-> Append(acc.out, DecUnit(u)), pend |-> <<>>, bad |-> FALSE]
DecodeAll(bs) == LET r == FoldLeft(DecStep, [out |-> <<>>, pend |-> <<>>, bad |-> FALSE], bs)
                 IN IF r.bad \/ r.pend # <<>> THEN UNKNOWN ELSE r.out

\* ------------------------------------------------------------------------------------------------ the editor
\* mode   "idle" (no getLine running) | "edit"
\* sync   "ok" | "lost" (this line: ill-formed input seen) | "dead" (nothing is judged any more until reset)
\* slots  the history as browsed by this getLine: hist with its edits, plus one last slot for the new line
\* hpos   the slot shown;  buf / caret its live text;  taint: buf is unknown
\* pend   bytes of the incomplete unit;  ahead  bytes typed while no getLine runs;  crs  consecutive CRs while lost
\* res    the line returned by the getLine that just ended;  lostret  it ended while lost
\* u8     the locale is UTF-8 (LANG ends with .UTF-8); otherwise the Prompt takes every byte for a character: only ASCII
\*        input is judged then (the statement is about UTF-8 terminals), bytes >= 0x80 count as ill-formed
\* scrok  FALSE once a lost or tainted line may have written control characters to the terminal: from then on the
\*        position of the prompt on the screen is unknown and the display is not judged any more (until reset)
Init0 == [mode |-> "idle", sync |-> "ok", taint |-> FALSE, prompt |-> <<>>, buf |-> <<>>, caret |-> 0,
          slots |-> << <<>> >>, hpos |-> 1, hist |-> <<>>, pend |-> <<>>, ahead |-> <<>>, crs |-> 0, res |-> <<>>,
          lostret |-> FALSE, scrok |-> TRUE, u8 |-> TRUE]

Ins(s, c) == IF s.taint THEN s
             ELSE [s EXCEPT !.buf = SubSeq(s.buf, 1, s.caret) \o <<c>> \o SubSeq(s.buf, s.caret + 1, Len(s.buf)),
                            !.caret = s.caret + 1]
Bs(s) == IF s.taint \/ s.caret = 0 THEN s
         ELSE [s EXCEPT !.buf = SubSeq(s.buf, 1, s.caret - 1) \o SubSeq(s.buf, s.caret + 1, Len(s.buf)), !.caret = s.caret - 1]
Del(s) == IF s.taint \/ s.caret >= Len(s.buf) THEN s
          ELSE [s EXCEPT !.buf = SubSeq(s.buf, 1, s.caret) \o SubSeq(s.buf, s.caret + 2, Len(s.buf))]
Browse(s, d) ==
  LET target == s.hpos + d IN
  IF target < 1 \/ target > Len(s.slots) THEN s
  ELSE LET sl == [s.slots EXCEPT ![s.hpos] = IF s.taint THEN UNKNOWN ELSE s.buf]
           t == sl[target]
           nb == IF t = UNKNOWN THEN <<>> ELSE t
       IN [s EXCEPT !.slots = sl, !.hpos = target, !.taint = (t = UNKNOWN), !.buf = nb, !.caret = Len(nb),
                    !.scrok = s.scrok /\ t # UNKNOWN]
Enter(s) ==
  LET r == IF s.taint THEN UNKNOWN ELSE s.buf
      base == SubSeq(s.slots, 1, Len(s.slots) - 1)
  IN [s EXCEPT !.mode = "idle", !.res = r, !.taint = FALSE,
               !.hist = IF r = UNKNOWN \/ r = <<>> THEN base ELSE Append(base, r)]    \* UNKNOWN: Adopt appends what was observed
ApplyKey(s, u) ==
  LET k == KeyOf(u) IN
  CASE k = "ins" -> Ins(s, DecUnit(u))
    [] k = "bs" -> Bs(s)
    [] k = "del" -> Del(s)
    [] k = "left" -> IF s.taint \/ s.caret = 0 THEN s ELSE [s EXCEPT !.caret = s.caret - 1]
    [] k = "right" -> IF s.taint \/ s.caret >= Len(s.buf) THEN s ELSE [s EXCEPT !.caret = s.caret + 1]
    [] k = "home" -> [s EXCEPT !.caret = 0]
    [] k = "end" -> [s EXCEPT !.caret = Len(s.buf)]
    [] k = "up" -> Browse(s, -1)
    [] k = "down" -> Browse(s, 1)
    [] k = "enter" -> Enter(s)
    [] OTHER -> s                      \* tab, unknown escape sequences

\* the set of states after one more byte from the terminal
FeedLost(s, b) ==
  LET n == IF b = 13 THEN s.crs + 1 ELSE 0
      ret == [s EXCEPT !.mode = "idle", !.sync = "ok", !.res = UNKNOWN, !.lostret = TRUE, !.taint = FALSE, !.pend = <<>>,
                       !.crs = 0, !.scrok = FALSE, !.hist = [i \in 1..(Len(s.slots) - 1) |-> UNKNOWN]]
  IN {ret} \cup (IF n >= 4 THEN {} ELSE {[s EXCEPT !.crs = n]})
Feed(s, b) ==
  IF s.sync = "dead" THEN {s}
  ELSE IF s.mode = "idle" THEN {[s EXCEPT !.ahead = Append(s.ahead, b)]}
  ELSE IF s.sync = "lost" THEN FeedLost(s, b)
  ELSE LET u == s.pend \o <<b>> c == Cls(s.u8, u) IN
       IF c = "prefix" THEN {[s EXCEPT !.pend = u]}
       ELSE IF c = "bad" THEN FeedLost([s EXCEPT !.sync = "lost", !.pend = <<>>, !.crs = 0], b)
       ELSE {ApplyKey([s EXCEPT !.pend = <<>>], u)}
FeedAll(S, bytes) == FoldLeft(LAMBDA acc, b : UNION {Feed(s, b) : s \in acc}, S, bytes)

\* getLine(prompt) starts: it asks the terminal for the cursor position and reads everything typed ahead while it waits
\* for the report; the typed-ahead bytes are consumed first.  The report travels in-band: typed-ahead input that is
\* ill-formed or ends inside an escape sequence swallows it (no terminal protocol can tell them apart) - nothing is
\* judged then.  (Type-ahead that ends inside a UTF-8 character is fine: the rest of the character arrives later.)
FramePend(u8, bytes) ==
  FoldLeft(LAMBDA acc, b : IF acc.bad THEN acc
                           ELSE LET u == acc.pend \o <<b>> c == Cls(u8, u) IN
                                IF c = "bad" THEN [acc EXCEPT !.bad = TRUE]
                                ELSE IF c = "prefix" THEN [acc EXCEPT !.pend = u] ELSE [acc EXCEPT !.pend = <<>>],
           [pend |-> <<>>, bad |-> FALSE], bytes)
StartLine(s, p) ==
  IF s.sync = "dead" THEN {s}
  ELSE LET s0 == [s EXCEPT !.mode = "edit", !.taint = FALSE, !.prompt = p, !.buf = <<>>, !.caret = 0,
                           !.slots = Append(s.hist, <<>>), !.hpos = Len(s.hist) + 1, !.pend = <<>>, !.crs = 0, !.res = <<>>,
                           !.lostret = FALSE, !.ahead = <<>>,
                           !.hist = <<>>]          \* while editing the history lives in slots; hist is rebuilt at the end of the line
           f == FramePend(s.u8, s.ahead)
       IN IF f.bad \/ (f.pend # <<>> /\ f.pend[1] = 27) THEN {[s0 EXCEPT !.sync = "dead"]} ELSE FeedAll({s0}, s.ahead)

\* ------------------------------------------------------------------------------------------------ observation
\* e: event logged by the harness after the prompt went back to sleep or getLine returned
ScreenJudged(o) == o.mode = "edit" /\ o.sync = "ok" /\ ~o.taint /\ o.pend = <<>> /\ o.scrok
Match(o, e) ==
  \/ o.sync = "dead"
  \/ /\ (e.st = 1) <=> (o.mode = "idle")
     /\ ScreenJudged(o) =>
          /\ Strip(e.text) = Strip(o.prompt \o o.buf)
          /\ e.cur = Len(o.prompt) + o.caret
          /\ e.pre = 1
     /\ (o.mode = "idle" /\ o.res # UNKNOWN) => e.ret = EncAll(o.res)
     /\ o.lostret => Len(o.ahead) = e.left
Adopt(o, e) ==
  IF o.sync # "dead" /\ o.mode = "idle" /\ o.res = UNKNOWN
  THEN [o EXCEPT !.res = <<>>, !.lostret = FALSE, !.hist = IF e.ret = <<>> THEN @ ELSE Append(@, DecodeAll(e.ret))]
  ELSE o

StateOK(s) ==
  /\ s.caret >= 0 /\ s.caret <= Len(s.buf)
  /\ s.hpos >= 1 /\ s.hpos <= Len(s.slots)
  /\ s.mode = "edit" => s.hist = <<>>
  \* (a history line can be empty: one that was emptied while browsing - only returned lines are never empty)

\* ------------------------------------------------------------------------------------------------ stand-alone model
\* Keys are fed whole; after enter the next getLine starts at once (same prompt), so every state is an editing state.
VARIABLES st, ok
vars == <<st, ok>>
KeyBytes(k) == CASE k = "a" -> <<97>> [] k = "b" -> <<98>> [] k = "e2" -> <<195, 169>> [] k = "sp" -> <<32>>
                 [] k = "bs" -> <<127>> [] k = "del" -> <<27, 91, 51, 126>> [] k = "left" -> <<27, 91, 68>>
                 [] k = "right" -> <<27, 91, 67>> [] k = "home" -> <<27, 91, 72>> [] k = "end" -> <<27, 91, 70>>
                 [] k = "up" -> <<27, 91, 65>> [] k = "down" -> <<27, 91, 66>> [] k = "enter" -> <<13>>
                 [] k = "tab" -> <<9>> [] k = "pgup" -> <<27, 91, 53, 126>> [] k = "alt" -> <<27, 120>>
ModelPrompt == <<62, 32>>
First0 == CHOOSE s \in StartLine(Init0, ModelPrompt) : TRUE
Init == st = First0 /\ ok = TRUE
Do(k) ==
  /\ KeyOf(KeyBytes(k)) = "ins" => Len(st.buf) < MaxBuf
  /\ (k = "enter" /\ st.buf # <<>>) => Len(st.slots) - 1 < MaxHist
  /\ \E o \in FeedAll({st}, KeyBytes(k)) :
       /\ st' = IF o.mode = "idle" THEN CHOOSE x \in StartLine(o, ModelPrompt) : TRUE ELSE o
       \* enter returns exactly the buffer, appends it (if not empty) behind the history as browsed; nothing else returns
       /\ ok' = /\ (o.mode = "idle") <=> (k = "enter")
                /\ o.mode = "idle" => /\ o.res = st.buf
                                      /\ o.hist = SubSeq(st.slots, 1, Len(st.slots) - 1) \o (IF st.buf = <<>> THEN <<>> ELSE <<st.buf>>)
                /\ o.mode = "edit" /\ k \notin {"up", "down"} => o.slots = st.slots /\ o.hpos = st.hpos
Next == \E k \in KeyNames : Do(k)
Spec == Init /\ [][Next]_vars
Inv == /\ ok
       /\ StateOK(st)
       /\ st.mode = "edit" /\ st.sync = "ok" /\ ~st.taint /\ st.pend = <<>> /\ st.ahead = <<>>
       /\ Len(st.buf) <= MaxBuf /\ Len(st.slots) - 1 <= MaxHist
       /\ Cardinality(FeedAll({st}, <<13>>)) = 1
================================================================================
