SPECIFICATION Spec
CONSTANTS MaxLen = 7
 Alphabet = {60, 62, 33, 45, 63, 97, 10}
 Bugs = {}
INVARIANTS CursorInside NoOverrun NoHang NoStuck Total ErrInside LineTrue StackBound
