------------------------------ MODULE JsonLexImpl ------------------------------
(* Layer 2 (implementation shaped) for the totality/safety clause of property C15: an acceptor that mirrors the
   tokenizer / recursive-descent structure of src/Document/Json.cpp micro-step by micro-step.

   s.text  the bytes of the caller's text known so far (the NUL terminator is the byte 0 and always the last one);
           in exploration mode consumed bytes are blanked (byte 95) so that states merge -- line breaks are kept
   s.pos   the cursor (Private::pos.pos - start), s.line = Private::pos.line
   s.pc    control location inside readToken / skipSpace;  s.k = what the parser does when readToken returns
   s.stack the active parseArray / parseObject invocations ("arr" / "obj"), innermost last
   s.tok   Private::token.token

   One micro-step (Micro) looks at the byte(s) under the cursor exactly as the C++ code does.  When the byte it needs
   has not been supplied yet the machine waits for Feed(b) (exploration: the text is a nondeterministic stream); when
   it needs a byte BEYOND the terminator the machine enters "overrun" -- the memory-safety violation of the property.
   The model mirrors the code WITH the fixes for two defects that TLC exposes on the original code; Bugs re-introduces
   the original behaviour (binding self-test):
     "escnul"  a backslash directly before the terminator steps over the terminator (NoOverrun / CursorInside violated,
               witness  " \ NUL)
     "esclf"   a line break directly after a backslash is not counted (LineTrue violated; ErrInside violated with the
               witness  " \ LF 1 1 1 NUL : error reported at line 1, column 5, but line 1 has two bytes)            *)
EXTENDS Integers, Sequences, FiniteSets, TLC, TextPos

CONSTANTS MaxLen, Alphabet, Bugs

LB == 91  RB == 93  LC == 123  RC == 125  COMMA == 44  COLON == 58  QU == 34  BS == 92  HASH == 35
KwTrue == <<116, 114, 117, 101>>  KwFalse == <<102, 97, 108, 115, 101>>  KwNull == <<110, 117, 108, 108>>
KwOf(c) == IF c = 116 THEN KwTrue ELSE IF c = 102 THEN KwFalse ELSE KwNull
IsDigit(c) == c >= 48 /\ c <= 57
IsHex(c) == IsDigit(c) \/ (c >= 65 /\ c <= 70) \/ (c >= 97 /\ c <= 102)
IsSpace(c) == (c >= 9 /\ c <= 13) \/ c = 32
IsNumChar(c) == IsDigit(c) \/ c \in {69, 101, 45, 43, 46}
SimpleEsc == {34, 92, 47, 98, 102, 110, 114, 116}
HighSur(h) == h[1] \in {68, 100} /\ h[2] \in {56, 57, 65, 66, 97, 98}
LowSur(h) == h[1] \in {68, 100} /\ h[2] \in {67, 68, 69, 70, 99, 100, 101, 102}

Start(text) == [text |-> text, pos |-> 0, line |-> 1, pc |-> "rt_skip", k |-> "pv", stack |-> <<>>, tok |-> 0,
                aux |-> 0, sur |-> 0, h |-> <<>>, errLine |-> 0, errCol |-> 0]

Ended(s) == Len(s.text) > 0 /\ s.text[Len(s.text)] = 0
Terminal(s) == s.pc \in {"accept", "reject", "overrun", "hang"}
Cur(s) == s.text[s.pos + 1]
At(s, off) == s.text[off + 1]
Has(s, off) == off < Len(s.text)

\* Private::syntaxError(pos): column = 1 + number of bytes between the previous '\n' / '\r' (or the start) and p
JColAt(text, p) == LET S == { i \in 1..p : text[i] = 10 \/ text[i] = 13 } IN
                   p - (IF S = {} THEN 0 ELSE CHOOSE i \in S : \A j \in S : j <= i) + 1
Err(s, p) == [s EXCEPT !.pc = "reject", !.errLine = s.line, !.errCol = JColAt(s.text, p)]
Adv(s, n) == [s EXCEPT !.pos = s.pos + n]
ReadToken(s, k) == [s EXCEPT !.pc = "rt_skip", !.k = k]
Push(s, f) == [s EXCEPT !.stack = Append(s.stack, f)]
Pop(s) == [s EXCEPT !.stack = SubSeq(s.stack, 1, Len(s.stack) - 1)]

\* parseValue on the current token
PV(s) == IF s.tok \in {QU, HASH, 116, 102, 110} THEN ReadToken(s, "aft")
         ELSE IF s.tok = LB THEN ReadToken(Push(s, "arr"), "arr0")
         ELSE IF s.tok = LC THEN ReadToken(Push(s, "obj"), "obj0")
         ELSE Err(s, s.pos)
\* what the parser does when readToken has returned true
Dispatch(s) ==
  CASE s.k = "pv"   -> PV(s)
    [] s.k = "arr0" -> IF s.tok = RB THEN ReadToken(Pop(s), "aft") ELSE PV(s)
    [] s.k = "obj0" -> IF s.tok = RC THEN ReadToken(Pop(s), "aft")
                       ELSE IF s.tok # QU THEN Err(s, s.pos) ELSE ReadToken(s, "objc")
    [] s.k = "objc" -> IF s.tok # COLON THEN Err(s, s.pos) ELSE ReadToken(s, "pv")
    [] s.k = "aft"  -> IF s.stack = <<>> THEN [s EXCEPT !.pc = "accept"]
                       ELSE IF s.stack[Len(s.stack)] = "arr"
                       THEN (IF s.tok = RB THEN ReadToken(Pop(s), "aft")
                             ELSE IF s.tok # COMMA THEN Err(s, s.pos) ELSE ReadToken(s, "arr0"))
                       ELSE (IF s.tok = RC THEN ReadToken(Pop(s), "aft")
                             ELSE IF s.tok # COMMA THEN Err(s, s.pos) ELSE ReadToken(s, "obj0"))

\* strncmp(pos, keyword, n): the offset of the first byte it still has to read, or -1 when it is decided
RECURSIVE KwScan(_, _, _)
KwScan(s, kw, i) == IF i > Len(kw) THEN "eq"
                    ELSE IF ~Has(s, s.pos + i - 1) THEN "need"
                    ELSE IF At(s, s.pos + i - 1) # kw[i] THEN "ne" ELSE KwScan(s, kw, i + 1)
RECURSIVE KwNeedOff(_, _, _)
KwNeedOff(s, kw, i) == IF i > Len(kw) THEN -1
                       ELSE IF ~Has(s, s.pos + i - 1) THEN s.pos + i - 1
                       ELSE IF At(s, s.pos + i - 1) # kw[i] THEN -1 ELSE KwNeedOff(s, kw, i + 1)

\* the highest offset the next micro-step reads (-1: none)
Need(s) == CASE s.pc = "disp" -> -1
             [] s.pc = "kw"   -> KwNeedOff(s, KwOf(s.tok), 1)
             [] s.pc = "sur1" -> IF Has(s, s.pos) /\ Cur(s) = BS THEN s.pos + 1 ELSE s.pos
             [] s.pc = "esc"  -> IF "esclf" \notin Bugs /\ Has(s, s.pos) /\ Cur(s) = 13 THEN s.pos + 1 ELSE s.pos
             [] OTHER         -> s.pos

Micro(s) ==
  CASE s.pc = "disp" -> Dispatch(s)
    [] s.pc = "rt_skip" ->                                  \* skipSpace
         LET c == Cur(s) IN
         IF c = 13 THEN [Adv(s, 1) EXCEPT !.pc = "rt_cr"]
         ELSE IF c = 10 THEN [Adv(s, 1) EXCEPT !.line = s.line + 1]
         ELSE IF IsSpace(c) THEN Adv(s, 1)
         ELSE [s EXCEPT !.pc = "rt_tok"]
    [] s.pc = "rt_cr" -> [(IF Cur(s) = 10 THEN Adv(s, 1) ELSE s) EXCEPT !.line = s.line + 1, !.pc = "rt_skip"]
    [] s.pc = "rt_tok" ->                                   \* switch(token.token = *pos.pos)
         LET c == Cur(s) t == [s EXCEPT !.tok = c] IN
         IF c = 0 THEN [t EXCEPT !.pc = "disp"]
         ELSE IF c \in {LC, RC, LB, RB, COMMA, COLON} THEN [Adv(t, 1) EXCEPT !.pc = "disp"]
         ELSE IF c = QU THEN [Adv(t, 1) EXCEPT !.pc = "str"]
         ELSE IF c \in {116, 102, 110} THEN [t EXCEPT !.pc = "kw"]
         ELSE IF c = 45 \/ IsDigit(c) THEN [t EXCEPT !.tok = HASH, !.pc = "num"]
         ELSE Err([t EXCEPT !.tok = HASH], s.pos)
    [] s.pc = "kw" ->
         LET kw == KwOf(s.tok) IN
         IF KwScan(s, kw, 1) = "eq" THEN [Adv(s, Len(kw)) EXCEPT !.pc = "disp"] ELSE Err(s, s.pos)
    [] s.pc = "num" -> IF IsNumChar(Cur(s)) THEN Adv(s, 1) ELSE [s EXCEPT !.pc = "disp"]
    [] s.pc = "str" ->
         LET c == Cur(s) IN
         IF c = 0 THEN Err(s, s.pos)
         ELSE IF c = 13 THEN [Adv(s, 1) EXCEPT !.pc = "str_cr"]
         ELSE IF c = 10 THEN [Adv(s, 1) EXCEPT !.line = s.line + 1]
         ELSE IF c = BS THEN [Adv(s, 1) EXCEPT !.pc = "esc"]
         ELSE IF c = QU THEN [Adv(s, 1) EXCEPT !.pc = "disp"]
         ELSE Adv(s, 1)
    [] s.pc = "str_cr" -> [(IF Cur(s) = 10 THEN Adv(s, 1) ELSE s) EXCEPT !.line = s.line + 1, !.pc = "str"]
    [] s.pc = "esc" ->
         LET c == Cur(s) IN
         IF c \in SimpleEsc THEN [Adv(s, 1) EXCEPT !.pc = "str"]
         ELSE IF c = 117 THEN [Adv(s, 1) EXCEPT !.pc = "hex", !.aux = 0, !.sur = 0, !.h = <<>>]
         ELSE IF c = 0 /\ "escnul" \notin Bugs THEN Err(s, s.pos)
         ELSE IF "esclf" \notin Bugs /\ (c = 10 \/ (c = 13 /\ At(s, s.pos + 1) # 10))
              THEN [Adv(s, 1) EXCEPT !.pc = "str", !.line = s.line + 1]      \* an escaped line break is still a line break
         ELSE [Adv(s, 1) EXCEPT !.pc = "str"]
    [] s.pc = "hex" ->
         LET c == Cur(s) IN
         IF ~IsHex(c) THEN Err(s, s.pos)
         ELSE LET t == [Adv(s, 1) EXCEPT !.aux = s.aux + 1, !.h = IF s.aux < 2 THEN Append(s.h, c) ELSE s.h] IN
              IF t.aux < 4 THEN t
              ELSE IF t.sur = 0 /\ HighSur(t.h) THEN [t EXCEPT !.pc = "sur1", !.aux = 0, !.h = <<>>]
              ELSE IF t.sur = 1 /\ ~LowSur(t.h) THEN Err([t EXCEPT !.aux = 0, !.h = <<>>, !.sur = 0], t.pos - 6)
              ELSE [t EXCEPT !.pc = "str", !.aux = 0, !.h = <<>>, !.sur = 0]
    [] s.pc = "sur1" ->
         IF Cur(s) # BS THEN Err(s, s.pos)
         ELSE IF At(s, s.pos + 1) # 117 THEN Err(s, s.pos)
         ELSE [Adv(s, 2) EXCEPT !.pc = "hex", !.sur = 1]

\* run micro-steps until the machine stops, needs a byte that has not been supplied, or reads beyond the terminator
RECURSIVE Run(_, _)
Run(s, fuel) ==
  IF Terminal(s) THEN s
  ELSE IF Need(s) >= Len(s.text) THEN (IF Ended(s) THEN [s EXCEPT !.pc = "overrun"] ELSE s)
  ELSE IF fuel = 0 THEN [s EXCEPT !.pc = "hang"]
  ELSE Run(Micro(s), fuel - 1)

\* resumable variant for trace validation (the whole text incl. terminator is known): at most `fuel` micro-steps
RECURSIVE RunSome(_, _)
RunSome(s, fuel) ==
  IF Terminal(s) \/ fuel = 0 THEN s
  ELSE IF Need(s) >= Len(s.text) THEN [s EXCEPT !.pc = "overrun"]
  ELSE RunSome(Micro(s), fuel - 1)

\* consumed bytes are forgotten (line breaks and the terminator stay) so that different inputs reach the same state
Blanked(s) == [s EXCEPT !.text = [i \in 1..Len(s.text) |-> IF i <= s.pos /\ s.text[i] \notin {0, 10, 13} THEN 95 ELSE s.text[i]]]

--------------------------------------------------------------------------------
VARIABLE m
Init == m = Start(<<>>)
Feed(b) == /\ ~Terminal(m) /\ ~Ended(m)
           /\ (b = 0 \/ Len(m.text) < MaxLen)
           /\ m' = Blanked(Run([m EXCEPT !.text = Append(m.text, b)], 8 * (MaxLen + 2)))
Next == \E b \in Alphabet \cup {0} : Feed(b)
Spec == Init /\ [][Next]_m

TextOf(s) == IF Ended(s) THEN SubSeq(s.text, 1, Len(s.text) - 1) ELSE s.text
TypeOK == /\ m.pc \in {"rt_skip", "rt_cr", "rt_tok", "kw", "num", "str", "str_cr", "esc", "hex", "sur1", "disp",
                       "accept", "reject", "overrun", "hang"}
          /\ m.k \in {"pv", "arr0", "obj0", "objc", "aft"}
          /\ \A i \in 1..Len(m.stack) : m.stack[i] \in {"arr", "obj"}
\* the cursor never passes the terminator, and nothing beyond the terminator is read
CursorInside == m.pos <= Len(m.text) /\ (Ended(m) => m.pos <= Len(m.text) - 1)
NoOverrun == m.pc # "overrun"
NoHang == m.pc # "hang"
\* once the terminator has been supplied the parser stops: it accepts or rejects
Total == Ended(m) => m.pc \in {"accept", "reject"}
\* a reported error position lies inside the text (Layer-1 predicate), and line is the true line of the cursor
ErrInside == m.pc = "reject" => PosInside(TextOf(m), m.errLine, m.errCol)
LineTrue == m.line = 1 + Cardinality({ i \in BreakEnds(m.text) : i <= m.pos }) \/ m.pc \in {"rt_cr", "str_cr"}
StackBound == Len(m.stack) <= m.pos
================================================================================
