----------------------------- MODULE LineEditTrace -----------------------------
(* Trace specification for X05: events logged by harness/console around the real Console::Prompt on a pty.
     reset                      a new terminal
     open  u8                   the Prompt is constructed (u8 = 1: in a UTF-8 locale)
     line  prompt               the application calls getLine(prompt); observed when the prompt sleeps or has returned
     key   k                    the terminal sent the bytes k while getLine was running; observed likewise
     ahead k                    the terminal sent the bytes k while no getLine was running (type-ahead)
     close modeok               the Prompt is destroyed; modeok = 1 iff the terminal mode found at construction is back
   The abstract state is not fully observable (history, look-ahead, framing): the trace spec tracks the SET of abstract
   states LineEdit allows for the events so far; an event that no candidate explains is a MISMATCH, after which the
   rest of that execution is not judged (the candidates are replaced by a "dead" state).                          *)
EXTENDS LineEdit, Json, IOUtils
VARIABLES cands, l, nbad, nscr, ndead      \* nscr: events whose screen was judged; ndead: events not judged at all
T == ndJsonDeserialize(IOEnv.TRACE)

Dead == [Init0 EXCEPT !.sync = "dead"]
After(e) ==
  CASE e.op = "line" -> LET p == DecodeAll(e.prompt) IN
                        IF p = UNKNOWN THEN {Dead}       \* the harness only uses visible prompts
                        ELSE {Adopt(o, e) : o \in {o \in UNION {StartLine(s, p) : s \in cands} : Match(o, e)}}
    [] e.op = "key" -> {Adopt(o, e) : o \in {o \in FeedAll({s \in cands : s.mode = "edit" \/ s.sync = "dead"}, e.k) : Match(o, e)}}
    [] e.op = "ahead" -> FeedAll({s \in cands : s.mode = "idle" \/ s.sync = "dead"}, e.k)
    [] e.op = "close" -> IF e.modeok = 1 THEN {s \in cands : s.mode = "idle" \/ s.sync = "dead"} ELSE {}
    [] OTHER -> cands

TInit == l = 1 /\ nbad = 0 /\ nscr = 0 /\ ndead = 0 /\ cands = {Init0} /\ st = Init0 /\ ok = TRUE      \* st, ok: variables of the stand-alone model, unused here
TStep ==
  /\ l <= Len(T)
  /\ l' = l + 1
  /\ UNCHANGED vars
  /\ LET e == T[l] IN
     IF e.op = "reset" THEN cands' = {Init0} /\ UNCHANGED <<nbad, nscr, ndead>>
     ELSE IF e.op = "open" THEN cands' = {[Init0 EXCEPT !.u8 = (e.u8 = 1)]} /\ UNCHANGED <<nbad, nscr, ndead>>
     ELSE LET nx == After(e) IN
          /\ nscr' = IF e.op \in {"line", "key"} /\ \E o \in nx : ScreenJudged(o) THEN nscr + 1 ELSE nscr
          /\ ndead' = IF \E o \in nx : o.sync = "dead" THEN ndead + 1 ELSE ndead
          /\ IF nx # {} THEN cands' = nx /\ UNCHANGED nbad
             ELSE PrintT(<<"MISMATCH", l, e.op>>) /\ cands' = {Dead} /\ nbad' = nbad + 1
TDone == l = Len(T) + 1 /\ PrintT(<<"TRACE-DONE", Len(T), nbad, nscr, ndead>>) /\ l' = l + 1 /\ UNCHANGED <<cands, nbad, nscr, ndead, vars>>
TNext == TStep \/ TDone
TSpec == TInit /\ [][TNext]_<<cands, l, nbad, nscr, ndead, vars>>
\* the reference's own invariant on every candidate state
TInv == \A s \in cands : s.sync = "dead" \/ StateOK(s)
================================================================================
