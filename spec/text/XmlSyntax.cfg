SPECIFICATION Spec
CONSTANTS MaxNodes = 4
 NRandom = 8000
