----------------------------- MODULE JsonLexTrace -----------------------------
(* Trace specification for the totality/safety clause of C15.  Every event "parse" carries the text handed to the real
   Json::Parser::parse (exact-size heap copy, ASan), whether it was accepted, and the reported error line / column.
     Layer 1 (property): a rejected text has its error position inside the text (TextPos!PosInside)  -> MISMATCH
     Layer 2 (drift only): the acceptor JsonLexImpl, run over the same text, predicts accept / reject and the exact
                           error line and column                                                        -> DRIFT
   The acceptor is advanced at most Chunk micro-steps per TLC step (deep inputs need thousands of micro-steps).   *)
EXTENDS JsonLexImpl, Json, IOUtils
VARIABLES l, nbad, run
T == ndJsonDeserialize(IOEnv.TRACE)
Chunk == 40
TInit == l = 1 /\ nbad = 0 /\ run = FALSE /\ m = Start(<<>>)
Verdict(e, s) ==
  LET l1 == e.ok \/ PosInside(e.text, e.line, e.col)
      l2 == IF e.ok THEN s.pc = "accept" ELSE s.pc = "reject" /\ s.errLine = e.line /\ s.errCol = e.col
  IN /\ IF l1 THEN TRUE ELSE PrintT(<<"MISMATCH", l, "error-position-outside-text">>)
     /\ IF l2 THEN TRUE ELSE PrintT(<<"DRIFT", l, s.pc, s.errLine, s.errCol>>)
     /\ nbad' = IF l1 THEN nbad ELSE nbad + 1
TStep ==
  /\ l <= Len(T)
  /\ LET e == T[l] IN
     IF e.op # "parse" THEN l' = l + 1 /\ UNCHANGED <<nbad, run, m>>
     ELSE IF ~run THEN /\ m' = RunSome(Start(Append(e.text, 0)), Chunk)
                       /\ run' = TRUE /\ UNCHANGED <<l, nbad>>
     ELSE IF ~Terminal(m) THEN m' = RunSome(m, Chunk) /\ UNCHANGED <<l, nbad, run>>
     ELSE /\ Verdict(e, m)
          /\ l' = l + 1 /\ run' = FALSE /\ m' = Start(<<>>)
TDone == l = Len(T) + 1 /\ PrintT(<<"TRACE-DONE", Len(T), nbad>>) /\ l' = l + 1 /\ UNCHANGED <<m, run, nbad>>
TNext == TStep \/ TDone
TSpec == TInit /\ [][TNext]_<<m, l, nbad, run>>
================================================================================
