------------------------------- MODULE XmlSyntax -------------------------------
(* Layer 1 (property level) for the round-trip clause of property C16:
   (the Rand* operators take a dummy argument: TLC caches the value of parameterless definitions)
     "For every element tree with well-formed names, arbitrary attribute values and non-blank, non-adjacent text nodes,
      parsing the output of toString yields the same names, attribute order and values, text and nesting."
   The layout produced by toString is not prescribed; toString and parse are the REAL functions: TLC enumerates the
   element trees (this module writes them to a file), the driver builds each tree as Xml::Element, serialises it with
   Element::toString / Xml::toString, parses the text with Xml::parse and logs the canonical projection of the result;
   XmlSyntaxTrace compares it with the original using XTreeEq.

   Trees:  element [t |-> "e", n |-> name, a |-> <<[k |-> name, v |-> bytes], ...>>, c |-> <<child, ...>>]
           text    [t |-> "t", v |-> bytes]            (names, values, texts are tuples of byte codes)           *)
EXTENDS Integers, Sequences, FiniteSets, TLC, SequencesExt, Json, IOUtils

Elem(n, a, c) == [t |-> "e", n |-> n, a |-> a, c |-> c]
Text(v) == [t |-> "t", v |-> v]
Attr(k, v) == [k |-> k, v |-> v]

Names == { <<97>>, <<98>> }
\* attribute value symbols: x " ' & < LF e-acute(2 bytes)      text symbols add > space ; # CR
ValSyms == { <<120>>, <<34>>, <<39>>, <<38>>, <<60>>, <<10>>, <<195, 169>> }
TextSyms == ValSyms \cup { <<62>>, <<32>>, <<59>>, <<35>>, <<13>> }
RECURSIVE Words(_, _)
Words(S, n) == IF n = 0 THEN { <<>> } ELSE { w \o x : w \in Words(S, n - 1), x \in S }
WordsUpTo(S, n) == UNION { Words(S, k) : k \in 0..n }
IsBlank(v) == \A i \in 1..Len(v) : v[i] \in {9, 10, 13, 32}

ShapeAttrs == { <<>>, << Attr(<<97>>, <<120>>) >>, << Attr(<<98>>, <<34, 39>>), Attr(<<97>>, <<>>) >> }
ShapeTexts == { Text(<<120>>), Text(<<32, 38, 60, 32>>) }

RECURSIVE ElemsN(_), Forests(_)
NoAdjacentText(f) == \A i \in 1..(Len(f) - 1) : ~(f[i].t = "t" /\ f[i + 1].t = "t")
\* content sequences with m nodes in total (no two text nodes next to each other)
Forests(m) == IF m = 0 THEN { <<>> }
              ELSE { f \in UNION { { <<x>> \o g : x \in (IF k = 1 THEN ElemsN(1) \cup ShapeTexts ELSE ElemsN(k)), g \in Forests(m - k) }
                                   : k \in 1..m } : NoAdjacentText(f) }
ElemsN(n) == { Elem(nm, at, f) : nm \in Names, at \in ShapeAttrs, f \in Forests(n - 1) }
ElemsUpTo(n) == UNION { ElemsN(k) : k \in 1..n }

\* every attribute value (<= 3 symbols) and every non-blank text (<= 2 symbols, and with leading/trailing blanks) once
ValueTrees == { Elem(<<97>>, << Attr(<<98>>, v) >>, <<>>) : v \in WordsUpTo(ValSyms, 3) }
              \cup { Elem(<<97>>, << Attr(<<97>>, v), Attr(<<98, 97>>, w) >>, <<>>) : v \in WordsUpTo(ValSyms, 1), w \in WordsUpTo(ValSyms, 1) }
TextTrees == { Elem(<<98>>, <<>>, << Text(v) >>) : v \in { w \in WordsUpTo(TextSyms, 2) : ~IsBlank(w) } }
             \cup { Elem(<<98>>, <<>>, << Elem(<<97>>, <<>>, <<>>), Text(v), Elem(<<97>>, <<>>, <<>>), Text(w) >>)
                    : v \in { <<32, 120>>, <<10, 120, 10>>, <<61, 120>>, <<47, 62>> }, w \in { <<120, 32>>, <<39, 34>> } }

RECURSIVE XTreeEq(_, _)
XTreeEq(x, y) ==
  /\ x.t = y.t
  /\ IF x.t = "t" THEN x.v = y.v
     ELSE /\ x.n = y.n
          /\ x.a = y.a                                       \* attribute order and values
          /\ Len(x.c) = Len(y.c) /\ \A i \in 1..Len(x.c) : XTreeEq(x.c[i], y.c[i])

RECURSIVE XSize(_)
XSize(x) == IF x.t = "t" THEN 1 ELSE 1 + FoldLeft(LAMBDA acc, ch : acc + XSize(ch), 0, x.c)
RECURSIVE WellFormed(_)
WellFormed(x) == IF x.t = "t" THEN ~IsBlank(x.v)
                 ELSE /\ x.n # <<>> /\ NoAdjacentText(x.c)
                      /\ \A i, j \in 1..Len(x.a) : i # j => x.a[i].k # x.a[j].k
                      /\ \A i \in 1..Len(x.c) : WellFormed(x.c[i])

\* seeded random bigger trees: depth <= 3, up to 4 children, up to 3 attributes
RandName(u) == RandomElement({ <<97>>, <<98>>, <<97, 98>>, <<98, 97, 98>>, <<97, 45, 98>>, <<98, 58, 97>> })
RandAttrs(u) == LET k == RandomElement(0..3)
                 ks == RandomElement({ s \in [1..k -> { <<97>>, <<98>>, <<97, 98>>, <<98, 98>> }] : \A i, j \in 1..k : i # j => s[i] # s[j] })
             IN [i \in 1..k |-> Attr(ks[i], RandomElement(WordsUpTo(ValSyms, 2) \cup { <<120, 10, 13, 120>>, <<38, 97, 109, 112, 59>>, <<38, 35, 49, 48, 59>> }))]
RandText(u) == Text(RandomElement({ w \in WordsUpTo(TextSyms, 2) : ~IsBlank(w) } \cup { <<32, 120, 121, 32>>, <<38, 108, 116, 59>>, <<38, 35, 54, 53, 59>>, <<120, 13, 10, 121>> }))
RECURSIVE RandElem(_)
RandElem(d) ==
  LET k == IF d = 0 THEN 0 ELSE RandomElement(0..4)
  IN Elem(RandName(d), RandAttrs(d), [i \in 1..k |-> IF RandomElement(1..3) = 1 THEN RandText(i) ELSE RandElem(d - 1)])
\* make a random tree well-formed: a text node that directly follows a text node is dropped (deterministic)
RECURSIVE Norm(_), NormC(_, _, _)
NormC(c, i, prevText) == IF i > Len(c) THEN <<>>
                         ELSE IF c[i].t = "t" THEN (IF prevText THEN NormC(c, i + 1, TRUE) ELSE <<c[i]>> \o NormC(c, i + 1, TRUE))
                         ELSE <<Norm(c[i])>> \o NormC(c, i + 1, FALSE)
Norm(x) == IF x.t = "t" THEN x ELSE Elem(x.n, x.a, NormC(x.c, 1, FALSE))

--------------------------------------------------------------------------------
CONSTANTS MaxNodes, NRandom
VARIABLES phase
Enumerated == ElemsUpTo(MaxNodes) \cup ValueTrees \cup TextTrees
Small == ElemsUpTo(IF MaxNodes > 3 THEN 3 ELSE MaxNodes)
ASSUME \A x \in Enumerated : XTreeEq(x, x) /\ WellFormed(x)
ASSUME \A x \in ElemsUpTo(MaxNodes) : XSize(x) <= MaxNodes
ASSUME \A x, y \in Small : XTreeEq(x, y) <=> x = y
RandomTrees == [i \in 1..NRandom |-> Norm(RandElem(3))]
Init == phase = 0
Next == /\ phase = 0
        /\ phase' = 1
        /\ ndJsonSerialize(IOEnv.TREES, SetToSeq(Enumerated) \o RandomTrees)
        /\ PrintT(<<"TREES", Cardinality(Enumerated), NRandom>>)
Spec == Init /\ [][Next]_phase
================================================================================
