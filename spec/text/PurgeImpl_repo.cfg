SPECIFICATION Spec
CONSTANTS U <- U_tree
 Pats = {}
 Raws = {}
 Xs = {0}
 Ms = {1500}
 OpsOn = {"fsmode", "mkdir", "mkfile", "mklink", "rm", "purge"}
 Variant = "repo"
INVARIANT TypeOK
PROPERTIES Refines PurgeSafe
VIEW View
