SPECIFICATION Spec
CONSTANTS MaxLen = 7
 Alphabet = {60, 62, 63, 61, 97, 10}
 Bugs = {"pilf"}
INVARIANTS CursorInside NoOverrun NoHang NoStuck Total ErrInside StackBound
