SPECIFICATION Spec
CONSTANTS MaxLen = 2
 Alphabet = {37, 109, 76, 113, 108}
 Thresholds = {10, 31}
 Levels = {9, 10, 29, 30, 31, 40}
 Guarded = TRUE
INVARIANTS StateAgrees NoOverread OneLine
PROPERTY Refines
