SPECIFICATION Spec
CONSTANTS U <- U_file
 Datas <- Datas_2
 MaxLen = 2
 Depth = 0
 OpsOn = {"open", "write", "seek", "readall", "read", "size", "close", "get", "unlink"}
INVARIANT TypeOK
PROPERTIES FailUnchanged CreateIff UnlinkExact ReadBack
CONSTRAINT Bound
VIEW View
