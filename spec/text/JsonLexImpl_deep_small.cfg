SPECIFICATION Spec
CONSTANTS MaxLen = 14
 Alphabet = {91, 93, 123, 125, 44, 58, 34, 49}
 Bugs = {}
INVARIANTS TypeOK CursorInside NoOverrun NoHang Total ErrInside LineTrue StackBound
