SPECIFICATION Spec
CONSTANTS MaxLen = 11
 Alphabet = {60, 62, 33, 45, 97}
 Bugs = {"cmttext"}
INVARIANTS CursorInside NoOverrun NoHang NoStuck Total ErrInside StackBound
