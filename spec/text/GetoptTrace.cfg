SPECIFICATION TSpec
CONSTANTS Chars = {}
 NW = 0
 WL = 0
