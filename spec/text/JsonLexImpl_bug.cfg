SPECIFICATION Spec
CONSTANTS MaxLen = 5
 Alphabet = {91, 93, 123, 125, 44, 58, 34, 92, 49, 110, 117, 108, 10}
 Bugs = {"escnul"}
INVARIANTS TypeOK CursorInside NoOverrun NoHang Total ErrInside LineTrue StackBound
