---------------------------- MODULE XmlSyntaxTrace ----------------------------
(* Trace specification for the round-trip clause of C16: event "rt" = original element tree (orig), whether the real
   Xml::parse accepted the text produced by the real toString (ok), and the projection of the re-parsed element (got). *)
EXTENDS XmlSyntax
VARIABLES l, nbad
T == ndJsonDeserialize(IOEnv.TRACE)
TInit == l = 1 /\ nbad = 0 /\ phase = 0
TStep ==
  /\ l <= Len(T)
  /\ l' = l + 1
  /\ UNCHANGED phase
  /\ LET e == T[l] IN
     IF e.op # "rt" THEN UNCHANGED nbad
     ELSE IF e.ok /\ XTreeEq(e.orig, e.got) THEN UNCHANGED nbad
     ELSE PrintT(<<"MISMATCH", l, IF ~e.ok THEN "rt-rejected" ELSE "rt-differs">>) /\ nbad' = nbad + 1
TDone == l = Len(T) + 1 /\ PrintT(<<"TRACE-DONE", Len(T), nbad>>) /\ l' = l + 1 /\ UNCHANGED <<phase, nbad>>
TNext == TStep \/ TDone
TSpec == TInit /\ [][TNext]_<<phase, l, nbad>>
================================================================================
