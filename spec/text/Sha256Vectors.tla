---------------------------- MODULE Sha256Vectors ----------------------------
(* Property C17 - self check of the executable specification Sha256.tla against the published vectors:
   FIPS 180-4 / NIST examples ("abc", the empty message, the 448-bit message) and RFC 4231 test cases 1-4, 6, 7
   (key shorter than, and longer than, the block size).  TLC evaluates the ASSUMEs at start-up; a wrong
   specification makes the C17 check a BROKEN-CHECK, never a verdict about libnstd.                              *)
EXTENDS Sha256
VARIABLE done
Rep(b, n) == [i \in 1..n |-> b]

\* SHA-256("abc")
ASSUME Hash(<<97, 98, 99>>) =
  <<\Hba78, \H16bf, \H8f01, \Hcfea, \H4141, \H40de, \H5dae, \H2223, \Hb003, \H61a3, \H9617, \H7a9c, \Hb410, \Hff61, \Hf200, \H15ad>>

\* SHA-256("")
ASSUME Hash(<<>>) =
  <<\He3b0, \Hc442, \H98fc, \H1c14, \H9afb, \Hf4c8, \H996f, \Hb924, \H27ae, \H41e4, \H649b, \H934c, \Ha495, \H991b, \H7852, \Hb855>>

\* SHA-256("abcdbcdecdefdefgefghfghighijhijkijkljklmklmnlmnomnopnopq")
ASSUME Hash(<<97, 98, 99, 100, 98, 99, 100, 101, 99, 100, 101, 102, 100, 101, 102, 103, 101, 102, 103, 104, 102, 103, 104, 105, 103, 104, 105, 106, 104, 105, 106, 107, 105, 106, 107, 108, 106, 107, 108, 109, 107, 108, 109, 110, 108, 109, 110, 111, 109, 110, 111, 112, 110, 111, 112, 113>>) =
  <<\H248d, \H6a61, \Hd206, \H38b8, \He5c0, \H2693, \H0c3e, \H6039, \Ha33c, \He459, \H64ff, \H2167, \Hf6ec, \Hedd4, \H19db, \H06c1>>

\* RFC 4231 test case 1: "Hi There"
ASSUME Hmac(Rep(11, 20),
            <<72, 105, 32, 84, 104, 101, 114, 101>>) =
  <<\Hb034, \H4c61, \Hd8db, \H3853, \H5ca8, \Hafce, \Haf0b, \Hf12b, \H881d, \Hc200, \Hc983, \H3da7, \H26e9, \H376c, \H2e32, \Hcff7>>

\* RFC 4231 test case 2, key "Jefe": "what do ya want for nothing?"
ASSUME Hmac(<<74, 101, 102, 101>>,
            <<119, 104, 97, 116, 32, 100, 111, 32, 121, 97, 32, 119, 97, 110, 116, 32, 102, 111, 114, 32, 110, 111, 116, 104, 105, 110, 103, 63>>) =
  <<\H5bdc, \Hc146, \Hbf60, \H754e, \H6a04, \H2426, \H0895, \H75c7, \H5a00, \H3f08, \H9d27, \H3983, \H9dec, \H58b9, \H64ec, \H3843>>

\* RFC 4231 test case 3, data = 50 x 0xdd
ASSUME Hmac(Rep(170, 20),
            Rep(221, 50)) =
  <<\H773e, \Ha91e, \H3680, \H0e46, \H854d, \Hb8eb, \Hd091, \H81a7, \H2959, \H098b, \H3ef8, \Hc122, \Hd963, \H5514, \Hced5, \H65fe>>

\* RFC 4231 test case 4, data = 50 x 0xcd
ASSUME Hmac([i \in 1..25 |-> i],
            Rep(205, 50)) =
  <<\H8255, \H8a38, \H9a44, \H3c0e, \Ha4cc, \H8198, \H99f2, \H083a, \H85f0, \Hfaa3, \He578, \Hf807, \H7a2e, \H3ff4, \H6729, \H665b>>

\* RFC 4231 test case 6 (131-byte key): "Test Using Larger Than Block-Size Key - Hash Key First"
ASSUME Hmac(Rep(170, 131),
            <<84, 101, 115, 116, 32, 85, 115, 105, 110, 103, 32, 76, 97, 114, 103, 101, 114, 32, 84, 104, 97, 110, 32, 66, 108, 111, 99, 107, 45, 83, 105, 122, 101, 32, 75, 101, 121, 32, 45, 32, 72, 97, 115, 104, 32, 75, 101, 121, 32, 70, 105, 114, 115, 116>>) =
  <<\H60e4, \H3159, \H1ee0, \Hb67f, \H0d8a, \H26aa, \Hcbf5, \Hb77f, \H8e0b, \Hc621, \H3728, \Hc514, \H0546, \H040f, \H0ee3, \H7f54>>

\* RFC 4231 test case 7 (131-byte key): "This is a test using a larger than block-size key and a larger than block-size data. The key needs to be hashed before being used by the HMAC algorithm."
ASSUME Hmac(Rep(170, 131),
            <<84, 104, 105, 115, 32, 105, 115, 32, 97, 32, 116, 101, 115, 116, 32, 117, 115, 105, 110, 103, 32, 97, 32, 108, 97, 114, 103, 101, 114, 32, 116, 104, 97, 110, 32, 98, 108, 111, 99, 107, 45, 115, 105, 122, 101, 32, 107, 101, 121, 32, 97, 110, 100, 32, 97, 32, 108, 97, 114, 103, 101, 114, 32, 116, 104, 97, 110, 32, 98, 108, 111, 99, 107, 45, 115, 105, 122, 101, 32, 100, 97, 116, 97, 46, 32, 84, 104, 101, 32, 107, 101, 121, 32, 110, 101, 101, 100, 115, 32, 116, 111, 32, 98, 101, 32, 104, 97, 115, 104, 101, 100, 32, 98, 101, 102, 111, 114, 101, 32, 98, 101, 105, 110, 103, 32, 117, 115, 101, 100, 32, 98, 121, 32, 116, 104, 101, 32, 72, 77, 65, 67, 32, 97, 108, 103, 111, 114, 105, 116, 104, 109, 46>>) =
  <<\H9b09, \Hffa7, \H1b94, \H2fcb, \H2763, \H5fbc, \Hd5b0, \He944, \Hbfdc, \H6364, \H4f07, \H1393, \H8a7f, \H5153, \H5c3a, \H35e2>>

\* the generator: first bytes of Stream(1, .) are 149, 77, ... (x1 = 149, x2 = 11249, ...)
ASSUME Stream(1, 3) = <<149 % 256, 11249 % 256, ((75 * 11249 + 74) % 65537) % 256>>
ASSUME Stream(7, 0) = <<>>

Init == done = FALSE
Next == done = FALSE /\ done' = TRUE /\ PrintT(<<"VECTORS-OK", 9>>)
Spec == Init /\ [][Next]_done
=============================================================================
