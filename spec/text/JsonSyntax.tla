------------------------------- MODULE JsonSyntax -------------------------------
(* Layer 1 (property level) for the round-trip clause of property C15:
     "For every Variant tree built from null, booleans, 32/64-bit signed integers, NUL-free strings, lists and
      string-keyed maps, parsing the text produced by Json::toString yields an equal tree."
   The text layout produced by toString is NOT prescribed; only Parse(ToString(t)) = t is, and both functions are the
   REAL ones: TLC enumerates the value trees (this module writes them to a file), the driver builds each tree as Variants,
   calls Json::toString and Json::parse and logs the canonical projection of the re-parsed tree, and the trace
   specification JsonSyntaxTrace compares it with the original using TreeEq.

   Value trees: records [t |-> kind, v |-> payload]
     "null" 0 | "bool" BOOLEAN | "int" 32-bit integer | "i64" decimal string of a 64-bit integer outside the 32-bit
     range (TLC integers are 32-bit: the value is opaque and compared textually) | "str" tuple of byte codes |
     "list" tuple of trees | "map" tuple of [k |-> tuple of byte codes, n |-> tree] with pairwise different keys     *)
EXTENDS Integers, Sequences, FiniteSets, TLC, SequencesExt, Json, IOUtils

Node(t, v) == [t |-> t, v |-> v]
Null == Node("null", 0)
StrN(s) == Node("str", s)

\* string symbols: a " \ LF CR TAB 0x01 e-acute (two UTF-8 bytes)
Symbols == { <<97>>, <<34>>, <<92>>, <<10>>, <<13>>, <<9>>, <<1>>, <<195, 169>> }
RECURSIVE StrsOfLen(_)
StrsOfLen(n) == IF n = 0 THEN { <<>> } ELSE { s \o x : s \in StrsOfLen(n - 1), x \in Symbols }
Strs(n) == UNION { StrsOfLen(k) : k \in 0..n }

Ints == { Node("int", 0), Node("int", -1), Node("int", 7), Node("int", 2147483647), Node("int", -2147483647 - 1) }
I64s == { Node("i64", "2147483648"), Node("i64", "-2147483649"), Node("i64", "9223372036854775807"),
          Node("i64", "-9223372036854775808"), Node("i64", "1234567890123") }
AllLeaves == { Null, Node("bool", TRUE), Node("bool", FALSE) } \cup Ints \cup I64s \cup { StrN(s) : s \in Strs(3) }

\* leaves and keys used for the exhaustive enumeration of tree SHAPES
ShapeLeaves == { Null, Node("bool", TRUE), Node("int", -1), Node("i64", "-2147483649"), StrN(<<>>), StrN(<<34, 10>>) }
ShapeKeys == { <<>>, <<97>>, <<34, 92>> }

RECURSIVE KeySeqs(_)
KeySeqs(k) == IF k = 0 THEN { <<>> }
              ELSE { ks \o <<x>> : ks \in KeySeqs(k - 1), x \in ShapeKeys } 
DistinctKeySeqs(k) == { ks \in KeySeqs(k) : \A i, j \in 1..k : i # j => ks[i] # ks[j] }

RECURSIVE TreesN(_), Forests(_)
\* sequences (length >= 1, or empty for m = 0) of trees with m nodes in total
Forests(m) == IF m = 0 THEN { <<>> }
              ELSE UNION { { <<t>> \o f : t \in TreesN(k), f \in Forests(m - k) } : k \in 1..m }
\* trees with exactly n nodes
TreesN(n) == IF n = 1 THEN ShapeLeaves \cup { Node("list", <<>>), Node("map", <<>>) }
             ELSE { Node("list", f) : f \in Forests(n - 1) }
                  \cup UNION { { Node("map", [i \in 1..Len(f) |-> [k |-> ks[i], n |-> f[i]]]) : ks \in DistinctKeySeqs(Len(f)) }
                               : f \in { g \in Forests(n - 1) : Len(g) <= Cardinality(ShapeKeys) } }
TreesUpTo(n) == UNION { TreesN(k) : k \in 1..n }

\* every leaf once, on its own, inside a list, and as a map value / every string also as a map key
LeafTrees == AllLeaves \cup { Node("list", <<x>>) : x \in AllLeaves }
             \cup { Node("map", << [k |-> s, n |-> StrN(s)] >>) : s \in Strs(2) }

\* structural equality used by the trace specification (kinds are compared first, so payloads of different TLA+ types
\* are never compared; maps are compared as maps: the order of the entries is not part of the property)
RECURSIVE TreeEq(_, _)
TreeEq(a, b) ==
  /\ a.t = b.t
  /\ CASE a.t = "list" -> Len(a.v) = Len(b.v) /\ \A i \in 1..Len(a.v) : TreeEq(a.v[i], b.v[i])
       [] a.t = "map"  -> /\ Len(a.v) = Len(b.v)
                          /\ \A i \in 1..Len(a.v) : \E j \in 1..Len(b.v) : a.v[i].k = b.v[j].k /\ TreeEq(a.v[i].n, b.v[j].n)
       [] OTHER        -> a.v = b.v

RECURSIVE Depth(_), Size(_)
Depth(t) == IF t.t = "list" THEN 1 + (IF t.v = <<>> THEN 0 ELSE CHOOSE d \in { Depth(t.v[i]) : i \in 1..Len(t.v) } : \A i \in 1..Len(t.v) : Depth(t.v[i]) <= d)
            ELSE IF t.t = "map" THEN 1 + (IF t.v = <<>> THEN 0 ELSE CHOOSE d \in { Depth(t.v[i].n) : i \in 1..Len(t.v) } : \A i \in 1..Len(t.v) : Depth(t.v[i].n) <= d)
            ELSE 0
Size(t) == IF t.t = "list" THEN 1 + FoldLeft(LAMBDA acc, x : acc + Size(x), 0, t.v)
           ELSE IF t.t = "map" THEN 1 + FoldLeft(LAMBDA acc, x : acc + Size(x.n), 0, t.v)
           ELSE 1

\* seeded random bigger trees ("simulation"): depth <= 3, up to 4 children per node
RandLeaf(u) == IF RandomElement(1..2) = 1 THEN RandomElement({ Null, Node("bool", TRUE), Node("bool", FALSE) } \cup Ints \cup I64s)
               ELSE RandomElement(AllLeaves)      \* dummy argument: TLC caches parameterless definitions
RandKeys(k) == RandomElement({ ks \in [1..k -> Strs(1) \cup { <<97, 97>>, <<34, 92, 10>>, <<195, 169, 97>> }] : \A i, j \in 1..k : i # j => ks[i] # ks[j] })
RECURSIVE RandTree(_)
RandTree(d) ==
  IF d = 0 THEN RandLeaf(d)
  ELSE LET kind == RandomElement({"leaf", "list", "list", "map", "map"})
           k == RandomElement(0..4)
       IN IF kind = "leaf" THEN RandLeaf(k)
          ELSE IF kind = "list" THEN Node("list", [i \in 1..k |-> RandTree(d - 1)])
          ELSE LET ks == RandKeys(k) IN Node("map", [i \in 1..k |-> [k |-> ks[i], n |-> RandTree(d - 1)]])

--------------------------------------------------------------------------------
\* Stand-alone run: enumerate the trees, check the reference's own sanity, and write the trees for the driver.
CONSTANTS MaxNodes, NRandom
VARIABLES phase
Enumerated == TreesUpTo(MaxNodes) \cup LeafTrees
Small == TreesUpTo(IF MaxNodes > 3 THEN 3 ELSE MaxNodes)
\* TreeEq is reflexive, coincides with equality on trees whose maps have at most one entry, and preserves the size;
\* every enumerated tree is within the advertised bounds
ASSUME \A a \in Enumerated : TreeEq(a, a)
ASSUME \A a \in Enumerated : Size(a) <= (IF a \in LeafTrees THEN 3 ELSE MaxNodes)
ASSUME \A a \in Enumerated : Depth(a) <= MaxNodes
RECURSIVE NoWideMap(_)
NoWideMap(t) == IF t.t = "list" THEN \A i \in 1..Len(t.v) : NoWideMap(t.v[i])
                ELSE IF t.t = "map" THEN Len(t.v) <= 1 /\ \A i \in 1..Len(t.v) : NoWideMap(t.v[i].n)
                ELSE TRUE
ASSUME \A a, b \in Small : (a = b => TreeEq(a, b)) /\ (TreeEq(a, b) /\ NoWideMap(a) => a = b) /\ (TreeEq(a, b) => Size(a) = Size(b))
RandomTrees == [i \in 1..NRandom |-> RandTree(3)]
Init == phase = 0
Next == /\ phase = 0
        /\ phase' = 1
        /\ ndJsonSerialize(IOEnv.TREES, SetToSeq(Enumerated) \o RandomTrees)
        /\ PrintT(<<"TREES", Cardinality(Enumerated), NRandom>>)
Spec == Init /\ [][Next]_phase
================================================================================
