SPECIFICATION TSpec
CONSTANTS KeyNames = {}
 MaxBuf = 0
 MaxHist = 0
INVARIANT TInv
