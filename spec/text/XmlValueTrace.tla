----------------------------- MODULE XmlValueTrace -----------------------------
(* Trace specification: executions recorded from three real Xml::Variant objects, validated step by step against
   XmlValue.  Every event carries the projection of ALL three variables (val), so a write through shared storage into
   a variable the operation was not applied to is a mismatch.  After a mismatch the state is re-synchronised.      *)
EXTENDS XmlValue, Json, IOUtils
VARIABLES l, nbad
T == ndJsonDeserialize(IOEnv.TRACE)
TInit == l = 1 /\ nbad = 0 /\ val = Init0 /\ last = <<"init", 0, 0>>
TStep ==
  /\ l <= Len(T)
  /\ l' = l + 1
  /\ LET e == T[l] IN
     IF e.op = "reset" THEN val' = Init0 /\ UNCHANGED <<nbad, last>>
     ELSE LET exp == Step(e.op, val, e.i, e.j, e.s) IN
          /\ last' = <<e.op, e.i, e.j>>
          /\ IF \A k \in 1..3 : exp[k] = e.val[k] THEN val' = exp /\ UNCHANGED nbad
             ELSE /\ PrintT(<<"MISMATCH", l, e.op>>)
                  /\ val' = [k \in 1..3 |-> e.val[k]] /\ nbad' = nbad + 1
TDone == l = Len(T) + 1 /\ PrintT(<<"TRACE-DONE", Len(T), nbad>>) /\ l' = l + 1 /\ UNCHANGED <<vars, nbad>>
TNext == TStep \/ TDone
TSpec == TInit /\ [][TNext]_<<vars, l, nbad>>
TInv == TypeOK
================================================================================
