----------------------------- MODULE Sha256Trace -----------------------------
(* Property C17 - trace specification: validates executions recorded from the real nstd Sha256
   (harness/sha/drv_sha.cpp) against the executable specification Sha256.tla.

   Abstract state of the one hasher object: the message fed since the last finalize()/reset(), identified as
   Stream(st.seed, st.n) (the driver feeds contiguous pieces of one generator stream, so the split into update()
   calls is invisible to the reference - which is exactly the chunking clause).  finalize() must return
   Hash(message) and leave an empty message; reset() leaves an empty message.  hash()/hmac() are functions.
   The reference digest of a message is evaluated once and kept in `ref` while consecutive events ask for the
   same message (the driver groups all chunkings of one message).
   Mismatches are printed as <<"MISMATCH", line, op>> and the abstract state is re-synchronised.                 *)
EXTENDS Sha256, Json, IOUtils
VARIABLES l, nbad, st, ref, nref
tvars == <<l, nbad, st, ref, nref>>
T == ndJsonDeserialize(IOEnv.TRACE)

Empty == [seed |-> 0, n |-> 0]
NormSeed(seed, n) == IF n = 0 THEN 0 ELSE seed
RefOf(key) ==           \* reference digest for a key <<"hash", seed, n>> or <<"hmac", kseed, klen, seed, n>>
  IF key[1] = "hash" THEN Hash(Stream(key[2], key[3]))
  ELSE Hmac(Stream(key[2], key[3]), Stream(key[4], key[5]))
\* Lookup: the successor value of `ref` for a request with this key
Lookup(key) == IF ref.key = key THEN ref ELSE [key |-> key, dig |-> RefOf(key)]

TInit == l = 1 /\ nbad = 0 /\ st = Empty /\ ref = [key |-> <<"none">>, dig |-> <<>>] /\ nref = 0
Bad(e) == PrintT(<<"MISMATCH", l, e.op>>) /\ nbad' = nbad + 1
Judge(e, key) ==
  LET r == Lookup(key) IN
  /\ ref' = r
  /\ nref' = IF r = ref THEN nref ELSE nref + 1
  /\ IF e.d = r.dig THEN UNCHANGED nbad ELSE Bad(e)
TStep ==
  /\ l <= Len(T)
  /\ l' = l + 1
  /\ LET e == T[l] IN
     CASE e.op = "reset" -> st' = Empty /\ UNCHANGED <<nbad, ref, nref>>
       [] e.op = "rst" -> st' = Empty /\ UNCHANGED <<nbad, ref, nref>>
       [] e.op = "upd" ->
            \* the generator of the check only produces contiguous pieces of one stream; anything else is a
            \* broken trace (not a verdict about the library)
            /\ Assert(e.off = st.n /\ (st.n = 0 \/ e.len = 0 \/ e.seed = st.seed), <<"BAD-TRACE", l>>)
            /\ st' = IF e.len = 0 THEN st ELSE [seed |-> e.seed, n |-> st.n + e.len]
            /\ UNCHANGED <<nbad, ref, nref>>
       [] e.op = "fin" -> Judge(e, <<"hash", NormSeed(st.seed, st.n), st.n>>) /\ st' = Empty
       [] e.op = "hash" -> Judge(e, <<"hash", NormSeed(e.seed, e.len), e.len>>) /\ UNCHANGED st
       [] e.op = "hmac" -> Judge(e, <<"hmac", NormSeed(e.kseed, e.klen), e.klen, NormSeed(e.seed, e.len), e.len>>)
                           /\ UNCHANGED st
TDone == l = Len(T) + 1 /\ PrintT(<<"TRACE-DONE", Len(T), nbad, nref>>) /\ l' = l + 1 /\ UNCHANGED <<nbad, st, ref, nref>>
TNext == TStep \/ TDone
TSpec == TInit /\ [][TNext]_tvars
TInv == st.n >= 0 /\ (ref.dig = <<>> \/ Len(ref.dig) = 16)
================================================================================
