----------------------------- MODULE Sha256Trace -----------------------------
(* Property C17 - trace specification: validates executions recorded from the real nstd Sha256
   (harness/sha/drv_sha.cpp) against the executable specification Sha256.tla.

   Abstract state of the one hasher object: the message fed since the last finalize()/reset(), identified as
   Stream(st.seed, st.n) (the driver feeds contiguous pieces of one generator stream, so the split into update()
   calls is invisible to the reference - which is exactly the chunking clause).  finalize() must return
   Hash(message) and leave an empty message; reset() leaves an empty message.  hash()/hmac() are functions.
   The reference digest of a message is evaluated once and kept in `ref` while consecutive events ask for the
   same message (the driver groups all chunkings of one message).
   Mismatches are printed as <<"MISMATCH", line, op>> and the abstract state is re-synchronised.                 *)
EXTENDS Sha256, Json, IOUtils
VARIABLES l, nbad, st, ref, nref
tvars == <<l, nbad, st, ref, nref>>
T == ndJsonDeserialize(IOEnv.TRACE)

\* base.on = FALSE: the message started at the initial hash value; otherwise [S, cnt]: long-message mode (driver ops poke /
\* zeros) - cnt bytes went before, the intermediate hash value after them was S (logged), Stream(seed, n) follows
NoBase == [on |-> FALSE, S |-> <<>>, cnt |-> <<>>]
Empty == [seed |-> 0, n |-> 0, base |-> NoBase]
Pairs(w) == [i \in 1..8 |-> <<w[2 * i - 1], w[2 * i]>>]
MiB(m) == <<0, m \div 4096, (m % 4096) * 16, 0>>         \* m * 2^20 as limbs
NormSeed(seed, n) == IF n = 0 THEN 0 ELSE seed
RefOf(key) ==           \* reference digest for a key <<"hash", seed, n>> or <<"hmac", kseed, klen, seed, n>>
  IF key[1] = "hash" THEN Hash(Stream(key[2], key[3]))
  ELSE IF key[1] = "from" THEN HashFrom(key[2], key[3], Stream(key[4], key[5]))
  ELSE Hmac(Stream(key[2], key[3]), Stream(key[4], key[5]))
\* Lookup: the successor value of `ref` for a request with this key
Lookup(key) == IF ref.key = key THEN ref ELSE [key |-> key, dig |-> RefOf(key)]

TInit == l = 1 /\ nbad = 0 /\ st = Empty /\ ref = [key |-> <<"none">>, dig |-> <<>>] /\ nref = 0
Bad(e) == PrintT(<<"MISMATCH", l, e.op>>) /\ nbad' = nbad + 1
Judge(e, key) ==
  LET r == Lookup(key) IN
  /\ ref' = r
  /\ nref' = IF r = ref THEN nref ELSE nref + 1
  /\ IF e.d = r.dig THEN UNCHANGED nbad ELSE Bad(e)
TStep ==
  /\ l <= Len(T)
  /\ l' = l + 1
  /\ LET e == T[l] IN
     CASE e.op = "reset" -> st' = Empty /\ UNCHANGED <<nbad, ref, nref>>
       [] e.op = "rst" -> st' = Empty /\ UNCHANGED <<nbad, ref, nref>>
       [] e.op = "upd" ->
            \* the generator of the check only produces contiguous pieces of one stream; anything else is a
            \* broken trace (not a verdict about the library)
            /\ Assert(e.off = st.n /\ (st.n = 0 \/ e.len = 0 \/ e.seed = st.seed), <<"BAD-TRACE", l>>)
            /\ st' = IF e.len = 0 THEN st ELSE [st EXCEPT !.seed = e.seed, !.n = st.n + e.len]
            /\ UNCHANGED <<nbad, ref, nref>>
       [] e.op = "poke" ->
            \* injected byte count: the chaining value must be the initial one on a fresh hasher
            /\ Assert(st.n = 0 /\ e.cnt[4] % 64 = 0, <<"BAD-TRACE", l>>)
            /\ st' = [Empty EXCEPT !.base = [on |-> TRUE, S |-> Pairs(e.S), cnt |-> e.cnt]]
            /\ IF ~st.base.on /\ Pairs(e.S) # H0 THEN Bad(e) ELSE UNCHANGED nbad
            /\ UNCHANGED <<ref, nref>>
       [] e.op = "zeros" ->
            \* e.mib MiB went through update(): the byte counter must say so; the chaining value is taken as logged
            /\ Assert(st.n = 0 /\ ~st.base.on, <<"BAD-TRACE", l>>)
            /\ st' = [Empty EXCEPT !.base = [on |-> TRUE, S |-> Pairs(e.S), cnt |-> MiB(e.mib)]]
            /\ IF e.cnt # MiB(e.mib) THEN Bad(e) ELSE UNCHANGED nbad
            /\ UNCHANGED <<ref, nref>>
       [] e.op = "fin" -> /\ IF ~st.base.on THEN Judge(e, <<"hash", NormSeed(st.seed, st.n), st.n>>)
                             ELSE Judge(e, <<"from", st.base.S, st.base.cnt, NormSeed(st.seed, st.n), st.n>>)
                          /\ st' = Empty
       \* two hashers in two threads at the same time: each digest is that of its own message, every repetition the same
       [] e.op = "par" -> /\ IF e.same /\ e.da = Hash(Stream(e.sa, e.la)) /\ e.db = Hash(Stream(e.sb, e.lb)) THEN UNCHANGED nbad ELSE Bad(e)
                          /\ UNCHANGED <<st, ref, nref>>
       [] e.op = "hash" -> Judge(e, <<"hash", NormSeed(e.seed, e.len), e.len>>) /\ UNCHANGED st
       [] e.op = "hmac" -> Judge(e, <<"hmac", NormSeed(e.kseed, e.klen), e.klen, NormSeed(e.seed, e.len), e.len>>)
                           /\ UNCHANGED st
TDone == l = Len(T) + 1 /\ PrintT(<<"TRACE-DONE", Len(T), nbad, nref>>) /\ l' = l + 1 /\ UNCHANGED <<nbad, st, ref, nref>>
TNext == TStep \/ TDone
TSpec == TInit /\ [][TNext]_tvars
TInv == st.n >= 0 /\ (ref.dig = <<>> \/ Len(ref.dig) = 16)
================================================================================
