---------------------------- MODULE JsonStripTrace ----------------------------
(* Trace specification: every logged call of the real Json::stripComments (op "strip": in, out, olen) must produce one
   of the outputs JsonStrip allows for that input; olen (strlen of the result) must equal the logged length.      *)
EXTENDS JsonStrip, Json, IOUtils
VARIABLES l, nbad
T == ndJsonDeserialize(IOEnv.TRACE)
TInit == l = 1 /\ nbad = 0 /\ inp = <<>> /\ cfgs = {Cfg0}
TStep ==
  /\ l <= Len(T)
  /\ l' = l + 1
  /\ UNCHANGED vars
  /\ LET e == T[l] IN
     IF e.op # "strip" THEN UNCHANGED nbad
     ELSE IF e.out \in Allowed(e.in) /\ e.olen = Len(e.out) THEN UNCHANGED nbad
     ELSE PrintT(<<"MISMATCH", l, "strip">>) /\ nbad' = nbad + 1
TDone == l = Len(T) + 1 /\ PrintT(<<"TRACE-DONE", Len(T), nbad>>) /\ l' = l + 1 /\ UNCHANGED <<vars, nbad>>
TNext == TStep \/ TDone
TSpec == TInit /\ [][TNext]_<<vars, l, nbad>>
TInv == TypeOK
================================================================================
