SPECIFICATION LSpec
CONSTANTS Names <- Names3
 PatsL2 <- PatsL2_small
 Variant = "fixed"
 U = {}
 Pats = {}
 Raws = {}
 Xs = {}
 Ms = {}
 OpsOn = {}
INVARIANT Refines
