------------------------------ MODULE DirListTrace ------------------------------
(* Trace specification for extra X01: validates executions of the real Directory::open/read/close, Directory::purge,
   File::time, File::isExecutable, File::getAbsolutePath recorded by harness/dirlist in a scratch tree against
   DirList.  Every event carries the operation, its arguments, the result(s) and a snapshot of the scratch tree; the
   driver compares the outside sentinel tree with its state after set-up (outsame).  A step outside the domain the
   documentation speaks about (DirList!Enabled, or "nop" = refused by the driver's safety guards) is not judged: the
   abstract tree is then taken from the observation; lost = 1 while the state of the open Directory object is
   unknown because of such a step (dread is then not judged until the next dopen / dclose).
   A rejected step is reported as <<"MISMATCH", line, op>> and the state re-synchronised.                      *)
EXTENDS DirList, Json, IOUtils
VARIABLES l, nbad, lost, nskip      \* nskip counts the steps that were not judged (vacuity check)
T == ndJsonDeserialize(IOEnv.TRACE)

Kinds == {"dir", "file", "linkF", "linkD", "linkX"}
SafeTree(e) == LET tr == TreeOf(e.tree) IN [x \in { y \in DOMAIN tr : tr[y].t \in Kinds } |-> tr[x]]
InitLast == [op |-> "init", p |-> <<>>, q |-> <<>>, k |-> 0, o |-> Out(EmptyTree, Closed, 0)]
TInit == l = 1 /\ nbad = 0 /\ lost = 0 /\ nskip = 0 /\ st = Init0 /\ last = InitLast
TStep ==
  /\ l <= Len(T)
  /\ l' = l + 1
  /\ LET e == T[l] IN
     IF e.op = "reset" THEN st' = Init0 /\ lost' = 0 /\ UNCHANGED <<nbad, last, nskip>>
     ELSE IF e.op = "nop" \/ e.op \notin Ops \/ ~Enabled(e.op, st, e.p, e.q, e.k) \/ (lost = 1 /\ e.op = "dread")
     THEN /\ st' = [tree |-> SafeTree(e), h |-> st.h, u |-> e.u] /\ UNCHANGED <<nbad, last>> /\ nskip' = nskip + 1
          /\ lost' = IF e.op = "dopen" /\ e.r = 1 THEN 1 ELSE lost
     ELSE LET allowed == { o \in Step(e.op, st, e.p, e.q, e.k, e.m) : Match(o, e) }
          IN /\ UNCHANGED nskip
             /\ IF allowed # {}
                THEN LET o == CHOOSE o \in allowed : TRUE IN
                     /\ st' = Concrete(o, e) /\ UNCHANGED nbad /\ last' = [op |-> e.op, p |-> e.p, q |-> e.q, k |-> e.k, o |-> o]
                     /\ lost' = IF e.op \in {"dopen", "dclose"} THEN 0 ELSE lost
                ELSE /\ PrintT(<<"MISMATCH", l, e.op>>)
                     /\ st' = [tree |-> SafeTree(e), h |-> IF e.op \in {"dopen", "dread"} THEN Closed ELSE st.h, u |-> e.u]
                     /\ lost' = IF e.op \in {"dopen", "dread"} THEN 1 ELSE IF e.op = "dclose" THEN 0 ELSE lost
                     /\ nbad' = nbad + 1 /\ UNCHANGED last
TDone == l = Len(T) + 1 /\ PrintT(<<"TRACE-DONE", Len(T), nbad, nskip>>) /\ l' = l + 1 /\ UNCHANGED <<st, last, nbad, lost, nskip>>
TNext == TStep \/ TDone
TSpec == TInit /\ [][TNext]_<<vars, l, nbad, lost, nskip>>
\* the reference's own invariant is evaluated on every state the implementation was observed in
TInv == \A x \in DOMAIN st.tree : x # <<>> /\ ParentIsDir(st.tree, x)
================================================================================
