-------------------------------- MODULE FsTrace --------------------------------
(* Trace specification: validates executions of the real nstd::File / nstd::Directory operations recorded by
   harness/fs in a scratch tree against FsModel.  Every event carries the operation, its arguments, the result
   and a snapshot of the scratch tree, of the outside sentinel tree and of the handle.  A step outside the
   domain the property speaks about (FsModel!Enabled, or "nop" = refused by the driver's safety guards) is not
   judged; the abstract state is then taken from the observation, and
     lost = 1  while the open handle refers to a file that such a step moved or removed (handle steps are then
               not judged until the handle is closed),
     lost = 2  once such a step produced names outside the universe U (nothing is judged until the next reset).
   A rejected step is reported as <<"MISMATCH", line, op>> and the state re-synchronised.                    *)
EXTENDS FsModel, Json, IOUtils
VARIABLES l, nbad, lost, nskip      \* nskip counts the steps that were not judged (vacuity check)
T == ndJsonDeserialize(IOEnv.TRACE)

InU(e) == \A x \in Entries(e.tree) : x.p \in U
Resync(e) ==
  [tree |-> [x \in U |-> LET nd == TreeOf(e.tree)[x] IN IF nd.t \in {"none", "dir", "file", "linkF", "linkD"} THEN nd ELSE None],
   h |-> IF e.h # 1 THEN Closed
         ELSE IF st.h.open THEN [st.h EXCEPT !.pos = e.hpos]
         ELSE [open |-> TRUE, p |-> e.p, pos |-> e.hpos, rd |-> HasR(e.k) \/ ~HasW(e.k), wr |-> HasW(e.k)]]
HandleOps == {"write", "seek", "readall", "read", "size"}
TInit == l = 1 /\ nbad = 0 /\ lost = 0 /\ nskip = 0 /\ st = Init0 /\ last = <<"init", <<>>, <<>>, 0, <<>>, 0, <<>>>> /\ n = 0
TStep ==
  /\ l <= Len(T)
  /\ l' = l + 1
  /\ UNCHANGED n
  /\ LET e == T[l] IN
     IF e.op = "reset" THEN st' = Init0 /\ lost' = 0 /\ UNCHANGED <<nbad, last, nskip>>
     ELSE IF lost = 2 THEN UNCHANGED <<st, lost, nbad, last>> /\ nskip' = nskip + 1
     ELSE IF e.op = "nop" \/ ~Enabled(e.op, st, e.p, e.q, e.k) \/ (lost = 1 /\ e.op \in HandleOps)
     THEN /\ st' = Resync(e) /\ UNCHANGED <<nbad, last>> /\ nskip' = nskip + 1
          /\ lost' = IF ~InU(e) THEN 2
                     ELSE IF e.op # "nop" /\ (TouchesHandle(st, e.p) \/ TouchesHandle(st, e.q)) THEN 1 ELSE lost
     ELSE LET allowed == { o \in Step(e.op, st, e.p, e.q, e.k, e.d) : Match(o, e) }
          IN /\ last' = <<e.op, e.p, e.q, e.k, e.d, e.r, e.rd>> /\ UNCHANGED nskip
             /\ lost' = IF e.op = "close" THEN 0 ELSE lost
             /\ IF allowed # {}
                THEN st' = AsState(CHOOSE o \in allowed : TRUE) /\ UNCHANGED nbad
                ELSE /\ PrintT(<<"MISMATCH", l, e.op>>)
                     /\ st' = Resync(e) /\ nbad' = nbad + 1
TDone == l = Len(T) + 1 /\ PrintT(<<"TRACE-DONE", Len(T), nbad, nskip>>) /\ l' = l + 1 /\ UNCHANGED <<st, last, nbad, n, lost, nskip>>
TNext == TStep \/ TDone
TSpec == TInit /\ [][TNext]_<<vars, l, nbad, lost, nskip>>
\* the reference's own invariant is evaluated on every state the implementation was observed in
TInv == lost # 2 => \A x \in U : st.tree[x].t # "none" => ParentIsDir(st.tree, x)
================================================================================
