------------------------------ MODULE GetoptImpl ------------------------------
(* Layer 2 (implementation shaped) for Process::Arguments: the cursor machine of read()/nextChar()
   (src/Process.cpp), transcribed branch by branch.

   State:  ai     index of the next word of argv to fetch (argv/argvEnd of the class)
           cw     the word the cursor `arg` points into (initially the empty string "")
           pos    1-based cursor position in cw; Len(cw) + 1 is the zero terminator; anything larger is OUTSIDE
                  the argument string
           inOpt  inside a cluster of short options;  skipOpt  "--" was seen
   One Read step is one call of read(); it appends the returned (character, argument) event to out or sets done.
   Invariants: CursorOK  the cursor never goes beyond the terminator of the current argument (memory safety),
               Refines   the complete event sequence is one that Getopt (Layer 1) accepts.
   Fixed = TRUE transcribes nextChar() as repaired (the cursor of an unfinished cluster already stands on the
   next option character); Fixed = FALSE is the original code, which steps over it: TLC then reports CursorOK
   for argv = <<"-aa">> (defect F17).                                                                        *)
EXTENDS Getopt

CONSTANT Fixed
VARIABLES argv, s, out, done
ivars == <<argv, s, out, done>>

At(x, k) == LET p == x.pos + k IN IF p <= Len(x.cw) THEN x.cw[p] ELSE IF p = Len(x.cw) + 1 THEN 0 ELSE -1
Cur(x) == At(x, 0)
Rest(x) == SubSeq(x.cw, x.pos, Len(x.cw))           \* the C string at the cursor
Adv(x, k) == [x EXCEPT !.pos = @ + k]
ToEnd(x) == [x EXCEPT !.pos = IF @ <= Len(x.cw) + 1 THEN Len(x.cw) + 1 ELSE @]

\* bool nextChar(): <<result, new state>>
NextChar(x) ==
  IF Cur(x) # 0 THEN <<TRUE, IF Fixed THEN x ELSE Adv(x, 1)>>
  ELSE IF x.ai <= Len(argv) THEN <<TRUE, [x EXCEPT !.cw = argv[x.ai], !.pos = 1, !.ai = @ + 1, !.inOpt = FALSE]>>
  ELSE <<FALSE, x>>

Ret(x, c, a) == [ok |-> TRUE, s |-> x, c |-> c, a |-> a]
End(x) == [ok |-> FALSE, s |-> x, c |-> 0, a |-> <<>>]
FirstOpt(P(_)) == IF \E i \in 1..Len(Table) : P(Table[i])
                  THEN Table[CHOOSE i \in 1..Len(Table) : P(Table[i]) /\ \A j \in 1..(i - 1) : ~P(Table[j])] ELSE [c |-> -1, name |-> NoName, f |-> 0]

\* "find option *str" and "non option argument" parts of read()
Tail2(x) ==
  IF x.inOpt THEN
    LET ch == Cur(x)  x1 == Adv(x, 1)
        o == FirstOpt(LAMBDA t : t.c = ch)
    IN IF o.c = -1 THEN Ret(x1, QM, <<DASH, ch>>)
       ELSE IF o.f = 1 THEN
              IF Cur(x1) = 0 THEN
                LET n == NextChar(x1) IN
                IF ~n[1] THEN Ret(x1, COLON, <<DASH, ch>>) ELSE Ret(ToEnd(n[2]), ch, Rest(n[2]))
              ELSE Ret(ToEnd(x1), ch, Rest(x1))
            ELSE Ret(x1, ch, <<>>)
  ELSE Ret(ToEnd(x), 0, Rest(x))

ReadFn(x0) ==
  LET n0 == NextChar(x0) IN
  IF ~n0[1] THEN End(x0)
  ELSE LET x == n0[2] IN
  IF ~x.inOpt /\ ~x.skipOpt /\ Cur(x) = DASH THEN
    IF At(x, 1) = DASH THEN
      LET x2 == Adv(x, 2) IN
      IF Cur(x2) = 0 THEN
        LET n == NextChar([x2 EXCEPT !.skipOpt = TRUE]) IN IF ~n[1] THEN End(n[2]) ELSE Tail2(n[2])
      ELSE
        LET body == Rest(x2)
            e == IndexOf(body, EQ)
            argLen == IF e = 0 THEN Len(body) ELSE e - 1
            nm == SubSeq(body, 1, argLen)
            o == FirstOpt(LAMBDA t : t.name # NoName /\ t.name = nm)
        IN IF o.c = -1 THEN Ret(ToEnd(x2), QM, <<DASH, DASH>> \o body)
           ELSE LET x3 == Adv(x2, IF e # 0 THEN argLen + 1 ELSE argLen) IN
                IF o.f \in {1, 3} THEN
                  IF e # 0 THEN Ret(ToEnd(x3), o.c, Rest(x3))
                  ELSE IF o.f = 1 THEN
                         LET n == NextChar(x3) IN
                         IF n[1] THEN Ret(ToEnd(n[2]), o.c, Rest(n[2])) ELSE Ret(x3, COLON, <<DASH, DASH>> \o nm)
                  ELSE Ret(x3, o.c, <<>>)
                ELSE Ret(x3, o.c, <<>>)
    ELSE
      LET x1 == Adv(x, 1) IN
      IF Cur(x1) = 0 THEN Ret(x1, 0, <<DASH>>) ELSE Tail2([x1 EXCEPT !.inOpt = TRUE])
  ELSE Tail2(x)

S0 == [ai |-> 1, cw |-> <<>>, pos |-> 1, inOpt |-> FALSE, skipOpt |-> FALSE]
IInit == argv \in Vectors /\ s = S0 /\ out = <<>> /\ done = FALSE /\ st = <<>> /\ last = 0
Read == /\ ~done /\ Len(out) <= NW * (WL + 2)
        /\ LET r == ReadFn(s) IN
           /\ s' = r.s
           /\ IF r.ok THEN out' = Append(out, [c |-> r.c, a |-> r.a]) /\ done' = FALSE
              ELSE out' = out /\ done' = TRUE
        /\ UNCHANGED <<argv, st, last>>
INext == Read
ISpec == IInit /\ [][INext]_<<ivars, vars>>

CursorOK == s.pos <= Len(s.cw) + 1
Refines == done => GetoptOK(argv, out)
Terminates == Len(out) <= NW * (WL + 1)
================================================================================
