------------------------------- MODULE LogLine -------------------------------
(* Extra X03, first part, LAYER 1 (property level): what nstd::Log writes for one logf call (device stdOutErr).

   State of the logger: [fmt |-> line format, tfmt |-> time format, level |-> threshold]  (Init0 = the documented
   defaults "[%t] %L: %m", "%H:%M:%S", Log::info).  One call  logf(level, message format, args...)  with
   level < threshold writes nothing; otherwise it writes exactly one line,
          Expand(line format) \o <<10>>
   to ONE of the two streams, nothing to the other.  Expand copies the format, replacing
          %m by the printf expansion of the message (any length)      %L by the level name
          %t by the current time in the time format                   %P / %T by the decimal process / thread id
          %% by one percent sign
   Byte strings are sequences of character codes.

   Where the sources of truth differ or are silent, this module is deliberately nondeterministic:
     * Log.hpp documents the level placeholder as %l, Log.cpp implements %L (and copies "%l" verbatim).  The statement
       follows the code: %L must expand to the level name; for %l both the level name (documentation) and the
       verbatim copy (code) are accepted.
     * A placeholder letter that is neither documented nor implemented (%q): the statement says "every other character
       copied"; that is what the code's default branch does ("%q" stays "%q") and what is demanded here.
     * A lone percent sign at the END of the format: the text is either that percent sign or nothing - but the line
       ends there (the original code copied the terminator and went on reading behind it: a genuine defect, see
       LogLineImpl.tla).
     * Routing: the statement (and the code) send levels >= warning to standard error; the documentation of
       Log::stdOutErr reads "log messages up to log level warning to stdout and errors to stderr".  Both agree below
       warning (stdout) and from error upwards (stderr); in between (warning <= level < error) either stream is accepted.
     * Level names: the five enumerators have their names; for any other level value the name is not documented
       (the code prints "unknown"): any of the six words is accepted.
     * The time is "now": the driver brackets the call with two clock readings and every second in between is accepted.
   The printf expansion itself is libc's business; the spec models the subset the driver uses (%s with a byte string,
   %d with an int, %%, literals) in Printf, so that the expected message is computed here and not by the code under
   test.                                                                                                          *)
EXTENDS Integers, Sequences, SequencesExt, FiniteSets, TLC
\* calendar arithmetic and the time-text subset (only its pure operators are used)
Cal == INSTANCE Calendar WITH DayRange <- 0, st <- 0

PCT == 37
DefaultFmt == <<91, 37, 116, 93, 32, 37, 76, 58, 32, 37, 109>>          \* "[%t] %L: %m"
DefaultTfmt == <<37, 72, 58, 37, 77, 58, 37, 83>>                       \* "%H:%M:%S"
LvDebug == 10  LvInfo == 20  LvWarning == 30  LvError == 40  LvCritical == 50
Init0 == [fmt |-> DefaultFmt, tfmt |-> DefaultTfmt, level |-> LvInfo]

NmDebug == <<100, 101, 98, 117, 103>>
NmInfo == <<105, 110, 102, 111>>
NmWarning == <<119, 97, 114, 110, 105, 110, 103>>
NmError == <<101, 114, 114, 111, 114>>
NmCritical == <<99, 114, 105, 116, 105, 99, 97, 108>>
NmUnknown == <<117, 110, 107, 110, 111, 119, 110>>
LevelNames(level) == CASE level = LvDebug -> {NmDebug} [] level = LvInfo -> {NmInfo} [] level = LvWarning -> {NmWarning}
                       [] level = LvError -> {NmError} [] level = LvCritical -> {NmCritical}
                       [] OTHER -> {NmDebug, NmInfo, NmWarning, NmError, NmCritical, NmUnknown}
Streams(level) == IF level < LvWarning THEN {"out"} ELSE IF level >= LvError THEN {"err"} ELSE {"out", "err"}

\* decimal text of an int (|n| < 2^31)
RECURSIVE DecDigits(_)
DecDigits(n) == IF n < 10 THEN <<48 + n>> ELSE Append(DecDigits(n \div 10), 48 + (n % 10))
DecInt(n) == IF n < 0 THEN <<45>> \o DecDigits(0 - n) ELSE DecDigits(n)

\* --- the message: printf subset -------------------------------------------------------------------------------------
\* args: a tuple; the k-th conversion (s: byte string, d: int) takes args[k].  Defined = only s, d and the doubled
\* percent sign occur, no percent sign at the end, enough arguments.
PrintfScan(fmt, args) ==
  LET step(acc, c) ==
        IF ~acc.ok THEN acc
        ELSE IF acc.pend
        THEN IF c = PCT THEN [acc EXCEPT !.pend = FALSE, !.txt = Append(@, PCT)]
             ELSE IF c \in {115, 100} /\ acc.k <= Len(args)
             THEN [acc EXCEPT !.pend = FALSE, !.k = @ + 1,
                              !.txt = @ \o (IF c = 115 THEN args[acc.k] ELSE DecInt(args[acc.k]))]
             ELSE [acc EXCEPT !.ok = FALSE]
        ELSE IF c = PCT THEN [acc EXCEPT !.pend = TRUE]
        ELSE [acc EXCEPT !.txt = Append(@, c)]
  IN FoldLeft(step, [txt |-> <<>>, pend |-> FALSE, k |-> 1, ok |-> TRUE], fmt)
PrintfDefined(fmt, args) == LET r == PrintfScan(fmt, args) IN r.ok /\ ~r.pend
Printf(fmt, args) == PrintfScan(fmt, args).txt

\* --- the line -------------------------------------------------------------------------------------------------------
\* one deterministic expansion once the open choices are fixed:
\*   ch = [name |-> level name, lname |-> text for the documented-only placeholder l, time |-> time text, tail |-> text
\*         for a lone percent sign at the end]
ExpandWith(fmt, msg, pid, tid, ch) ==
  LET piece(c) == CASE c = PCT -> <<PCT>>
                    [] c = 109 -> msg                        \* m
                    [] c = 116 -> ch.time                    \* t
                    [] c = 76 -> ch.name                     \* L
                    [] c = 108 -> ch.lname                   \* l
                    [] c = 80 -> DecInt(pid)                 \* P
                    [] c = 84 -> DecInt(tid)                 \* T
                    [] OTHER -> <<PCT, c>>
      step(acc, c) == IF acc.pend THEN [txt |-> acc.txt \o piece(c), pend |-> FALSE]
                      ELSE IF c = PCT THEN [acc EXCEPT !.pend = TRUE]
                      ELSE [acc EXCEPT !.txt = Append(@, c)]
      r == FoldLeft(step, [txt |-> <<>>, pend |-> FALSE], fmt)
  IN IF r.pend THEN r.txt \o ch.tail ELSE r.txt
OpenChoices(level, timeTexts) ==
  { [name |-> nm, lname |-> ln, time |-> tt, tail |-> tl] :
      nm \in LevelNames(level), ln \in LevelNames(level) \cup {<<PCT, 108>>}, tt \in timeTexts, tl \in {<<PCT>>, <<>>} }
Lines(fmt, level, msg, timeTexts, pid, tid) == { ExpandWith(fmt, msg, pid, tid, ch) : ch \in OpenChoices(level, timeTexts) }

\* everything one call may write: a set of [out, err]
Outputs(s, level, msg, timeTexts, pid, tid) ==
  IF level < s.level THEN {[out |-> <<>>, err |-> <<>>]}
  ELSE { IF w = "out" THEN [out |-> Append(ln, 10), err |-> <<>>] ELSE [out |-> <<>>, err |-> Append(ln, 10)] :
           ln \in Lines(s.fmt, level, msg, timeTexts, pid, tid), w \in Streams(level) }
Match(o, obs) == o.out = obs.out /\ o.err = obs.err

\* state changes (setFormat, setLevel); logging does not change the state
Step(op, s, a) == CASE op = "setformat" -> {[s EXCEPT !.fmt = a.fmt, !.tfmt = a.tfmt]}
                    [] op = "setlevel" -> {[s EXCEPT !.level = a.level]}
                    [] OTHER -> {s}

\* self checks
ASSUME DecInt(0) = <<48>> /\ DecInt(-12) = <<45, 49, 50>> /\ DecInt(2147483647) = <<50, 49, 52, 55, 52, 56, 51, 54, 52, 55>>
ASSUME Printf(<<97, 37, 115, 37, 37, 37, 100>>, <<<<120, 121>>, -5>>) = <<97, 120, 121, 37, 45, 53>>
ASSUME PrintfDefined(<<37, 115>>, <<<<1>>>>) /\ ~PrintfDefined(<<37, 115, 37>>, <<<<1>>>>) /\ ~PrintfDefined(<<37, 113>>, <<>>)
ASSUME Lines(DefaultFmt, LvInfo, <<104, 105>>, {<<49>>}, 1, 2) = {<<91, 49, 93, 32>> \o NmInfo \o <<58, 32, 104, 105>>}
ASSUME Lines(<<37, 113, 37>>, LvInfo, <<>>, {<<>>}, 1, 2) = {<<37, 113, 37>>, <<37, 113>>}
ASSUME Outputs(Init0, LvDebug, <<>>, {<<>>}, 1, 2) = {[out |-> <<>>, err |-> <<>>]}
\* sanity of the reference over all formats up to length 3 over {percent, m, a}: something is always allowed, a format
\* without percent signs is copied, the only open choice for a named level is the lone percent sign at the end, and the
\* text never contains a line break of its own
ASSUME \A f \in UNION { [1..k -> {37, 109, 97}] : k \in 0..3 } :
         LET L == Lines(f, LvInfo, <<120>>, {<<84>>}, 1, 2)
         IN /\ L # {} /\ Cardinality(L) <= 2
            /\ (\A i \in 1..Len(f) : f[i] # 37) => L = {f}
            /\ \A ln \in L : \A i \in 1..Len(ln) : ln[i] # 10
================================================================================
