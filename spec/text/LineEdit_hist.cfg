SPECIFICATION Spec
CONSTANTS KeyNames = {"a", "e2", "bs", "del", "left", "right", "home", "end", "up", "down", "enter"}
 MaxBuf = 2
 MaxHist = 2
INVARIANT Inv
