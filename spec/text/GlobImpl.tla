-------------------------------- MODULE GlobImpl --------------------------------
(* Layer 2 for extra X01: the library's own wildcard matcher, PatternMatcher::szWildMatch7 in the Win32 branch of
   Directory::read (src/Directory.cpp), transcribed statement by statement (labels = pc values), and checked to
   compute exactly DirList!GlobR with letter case ignored for every pattern / string within the bounds.
   (The POSIX branch has no matcher of its own: it calls fnmatch(pattern, name, 0).)
   The same (pattern, string) pairs are run through the function text extracted from the tree under test by
   tools/props/x01.py; GlobTrace judges the results against DirList!GlobR.                                      *)
EXTENDS DirList

CONSTANTS PatAlpha, StrAlpha, MaxLen

VARIABLES P, S,           \* the arguments (never change)
          pc, s, p,       \* program counter; the cursors s / p of the for loop (1-based indices, Len + 1 = terminator)
          str, pat,       \* the restart positions after the last '*'
          star, res
gvars == <<P, S, pc, s, p, str, pat, star, res>>

At(q, i) == IF i <= Len(q) THEN q[i] ELSE 0          \* 0 = the terminator
Seqs(A, n) == UNION { [1..k -> A] : k \in 0..n }
RECURSIVE SkipStars(_, _)
SkipStars(q, i) == IF At(q, i) = STAR THEN SkipStars(q, i + 1) ELSE i

GInit == /\ P \in Seqs(PatAlpha, MaxLen) /\ S \in Seqs(StrAlpha, MaxLen)
         /\ pc = "loopStart" /\ s = 1 /\ p = 1 /\ str = 1 /\ pat = 1 /\ star = FALSE /\ res = FALSE
         /\ st = Init0 /\ last = 0            \* DirList's variables are not used here
\* loopStart: for (s = str, p = pat; ...
LoopStart == pc = "loopStart" /\ s' = str /\ p' = pat /\ pc' = "for" /\ UNCHANGED <<P, S, str, pat, star, res>>
\* one evaluation of the loop condition *s and of the switch in the body
ForStep ==
  /\ pc = "for"
  /\ UNCHANGED <<P, S>>
  /\ IF At(S, s) = 0
     THEN pc' = "tail" /\ UNCHANGED <<s, p, str, pat, star, res>>
     ELSE IF At(P, p) = QM
     THEN s' = s + 1 /\ p' = p + 1 /\ pc' = "for" /\ UNCHANGED <<str, pat, star, res>>
     ELSE IF At(P, p) = STAR
     THEN /\ star' = TRUE /\ str' = s
          /\ pat' = SkipStars(P, p + 1)                         \* pat = p; do { ++pat; } while (*pat == '*');
          /\ IF At(P, SkipStars(P, p + 1)) = 0
             THEN pc' = "done" /\ res' = TRUE /\ UNCHANGED <<s, p>>
             ELSE pc' = "loopStart" /\ UNCHANGED <<s, p, res>>
     ELSE IF Fold(At(S, s)) # Fold(At(P, p))
     THEN pc' = "starCheck" /\ UNCHANGED <<s, p, str, pat, star, res>>
     ELSE s' = s + 1 /\ p' = p + 1 /\ pc' = "for" /\ UNCHANGED <<str, pat, star, res>>
\* while (*p == '*') ++p; return !*p;
TailStep == /\ pc = "tail" /\ pc' = "done" /\ res' = (At(P, SkipStars(P, p)) = 0)
            /\ p' = SkipStars(P, p) /\ UNCHANGED <<P, S, s, str, pat, star>>
\* starCheck: if (!star) return false; str++; goto loopStart;
StarCheck == /\ pc = "starCheck" /\ UNCHANGED <<P, S, s, p, pat, star>>
             /\ IF ~star THEN pc' = "done" /\ res' = FALSE /\ UNCHANGED str
                ELSE pc' = "loopStart" /\ str' = str + 1 /\ UNCHANGED res
GNext == (LoopStart \/ ForStep \/ TailStep \/ StarCheck) /\ UNCHANGED vars
GSpec == GInit /\ [][GNext]_<<gvars, vars>> /\ WF_<<gvars, vars>>(GNext)

Refines == pc = "done" => res = GlobR(P, 1, S, 1, TRUE)
InBounds == /\ s <= Len(S) + 1 /\ str <= Len(S) + 1            \* never reads beyond the terminators
            /\ p <= Len(P) + 1 /\ pat <= Len(P) + 1
            /\ (pc = "for" /\ At(S, s) # 0) => p <= Len(P) + 1
Terminates == <>(pc = "done")
================================================================================
