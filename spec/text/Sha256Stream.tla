---------------------------- MODULE Sha256Stream ----------------------------
(* Property C17 - the streaming part of nstd's Sha256 (count, 64-byte buffer, chaining value; update(chunk),
   finalize(), reset()) as a small state machine, model-checked for small abstract block sizes.

   The compression function is abstracted by the *free* one: the chaining value is the sequence of blocks
   compressed so far, so two runs produce the same "digest" iff they compressed the same blocks in the same order.
   Padding (Pad, from Sha256.tla) is generic in the block size B and the length-field width L.

   Checked:  Prefix   - compressed blocks ++ buffered bytes = the message fed so far (a prefix of Pad(message)),
                        count = its length
             Digest   - finalize() yields Blocks(Pad(message)), a function of the message alone: the digest does
                        not depend on how the message was split over update() calls
             Reusable - after finalize()/reset() the object behaves like a fresh one (stale buffer bytes and any
                        earlier history notwithstanding): Prefix/Digest keep holding for the following messages.
   update/finalize follow src/Crypto/Sha256.cpp statement by statement (byte-wise buffering; the padding loop).   *)
EXTENDS Sha256, FiniteSets
CONSTANTS B,          \* block size (a power of two, like 64)
          L,          \* width of the length field in bytes (8 in SHA-256)
          MaxLen,     \* bound on the message length explored
          MaxChunk,   \* bound on the size of one update()
          Bytes       \* byte values used for message content
VARIABLES count, buf, cv, msg, ok, nmsg      \* ok: every finalize() so far produced RefDigest(its message)
vars == <<count, buf, cv, msg, ok, nmsg>>

Flat(blocks) == FoldLeft(LAMBDA a, b : a \o b, <<>>, blocks)
RefDigest(m) == Blocks(Pad(m, B, L), B)             \* fold of the free compression function over the padded blocks

\* buf is a function 0..B-1 -> byte (0-based like the C array)
BufSeq(bf, n) == [i \in 1..n |-> bf[i - 1]]
AsBlock(bf) == BufSeq(bf, B)

\* one byte of update(): p->buffer[pos++] = b; count++; if(pos == B) { pos = 0; WriteByteBlock }
PutByte(s, b) ==
  LET pos == s.count % B
      bf == [s.buf EXCEPT ![pos] = b]
  IN IF pos + 1 = B THEN [count |-> s.count + 1, buf |-> bf, cv |-> Append(s.cv, AsBlock(bf))]
     ELSE [count |-> s.count + 1, buf |-> bf, cv |-> s.cv]
UpdateImpl(s, chunk) == FoldLeft(PutByte, s, chunk)

\* finalize(): buffer[pos++] = 0x80; while(pos != B - L) { pos &= B-1; if(pos == 0) WriteByteBlock; buffer[pos++] = 0; }
RECURSIVE PadLoop(_, _, _)
PadLoop(pos, bf, c) ==
  IF pos = B - L THEN [pos |-> pos, buf |-> bf, cv |-> c]
  ELSE LET p == pos % B
           c2 == IF p = 0 THEN Append(c, AsBlock(bf)) ELSE c
       IN PadLoop(p + 1, [bf EXCEPT ![p] = 0], c2)
FinalizeImpl(s) ==
  LET bits == 8 * s.count
      pos0 == s.count % B
      a == PadLoop(pos0 + 1, [s.buf EXCEPT ![pos0] = 128], s.cv)
      lenb == BigEndian(bits, L)
      bf == [i \in 0..B-1 |-> IF i >= B - L THEN lenb[i - (B - L) + 1] ELSE a.buf[i]]
  IN [digest |-> Append(a.cv, AsBlock(bf)), buf |-> bf]

Chunks == UNION { [1..n -> Bytes] : n \in 0..MaxChunk }

Init == count = 0 /\ buf = [i \in 0..B-1 |-> 0] /\ cv = <<>> /\ msg = <<>> /\ ok = TRUE /\ nmsg = 0
Update(chunk) ==
  /\ Len(msg) + Len(chunk) <= MaxLen
  /\ LET s == UpdateImpl([count |-> count, buf |-> buf, cv |-> cv], chunk)
     IN count' = s.count /\ buf' = s.buf /\ cv' = s.cv
  /\ msg' = msg \o chunk /\ UNCHANGED <<ok, nmsg>>
Finalize ==
  /\ nmsg < 2
  /\ LET f == FinalizeImpl([count |-> count, buf |-> buf, cv |-> cv])
     IN ok' = (ok /\ f.digest = RefDigest(msg) /\ Len(Flat(f.digest)) % B = 0) /\ buf' = f.buf
  /\ count' = 0 /\ cv' = <<>> /\ msg' = <<>> /\ nmsg' = nmsg + 1        \* finalize() ends with reset()
Reset == /\ nmsg < 2 /\ count > 0
         /\ count' = 0 /\ cv' = <<>> /\ msg' = <<>> /\ nmsg' = nmsg + 1 /\ UNCHANGED <<buf, ok>>
Next == (\E c \in Chunks : Update(c)) \/ Finalize \/ Reset
Spec == Init /\ [][Next]_vars

Prefix == /\ count = Len(msg)
          /\ Flat(cv) \o BufSeq(buf, count % B) = msg
          /\ \A i \in 1..Len(cv) : Len(cv[i]) = B
          /\ IsPrefix(msg, Pad(msg, B, L))
DigestOK == ok
\* the padded message is the shortest multiple of B that holds msg, 0x80 and the length field
PadShape == LET p == Pad(msg, B, L) IN Len(p) % B = 0 /\ Len(p) >= Len(msg) + 1 + L /\ Len(p) < Len(msg) + 1 + L + B
=============================================================================
