SPECIFICATION Spec
CONSTANT DayRange = 146500
INVARIANTS Closed Shape BackForth
