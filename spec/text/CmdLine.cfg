SPECIFICATION Spec
CONSTANTS CN = 6
 CChars = {97, 32, 34, 92}
INVARIANTS WordsOK PlainOK
