SPECIFICATION ISpec
CONSTANTS Chars = {45, 97, 98, 61, 118}
 NW = 2
 WL = 4
 Fixed = TRUE
INVARIANTS CursorOK Refines Terminates
