---------------------------- MODULE ProcLifeTrace ----------------------------
(* Trace specification for extra X02: validates executions recorded from the real nstd::Process (harness/proclife)
   against ProcLife.  One event per line; every event carries the operation, its arguments, its result and the projected
   state (isRunning / getProcessId of every handle, existence of the children according to the kernel).

   Blocking operations (join, wait) carry an asynchronous action (at = "release" child ak / "interrupt", optionally
   followed by a second one at2 = "interrupt") that a second thread performs while or after the operation runs; "fired"
   ("fired2") says whether the action had BEGUN before the operation returned.  The event is explained when
     - the operation was allowed to return in the state before the action (then the action is applied afterwards), or
     - fired, and the operation was allowed to return after the action took effect.
   If the operation returned although ProcLife says it must block (Step = {}) the event is a MISMATCH.  (An operation that
   does not return although it must is a hang: the driver's watchdog reports it.)                                     *)
EXTENDS ProcLife, Json, IOUtils
VARIABLES l, nbad, nblk, cands
T == ndJsonDeserialize(IOEnv.TRACE)

Async1(e, s) == IF e.at = "release" THEN ReleaseSt(s, e.ak)
                ELSE IF e.at = "interrupt" THEN [s EXCEPT !.intr = TRUE] ELSE s
Async2(e, s) == IF e.at2 = "interrupt" THEN [s EXCEPT !.intr = TRUE] ELSE s        \* only after Async1
AsyncSt(e, s) == Async2(e, Async1(e, s))

\* outcomes (already in the form of Step's records) that explain an event
Explained(e, s) == {p \in Step(e, s) : Match(p, e)}
OpFirst(e, s) == {[o EXCEPT !.s = AsyncSt(e, Concrete(o, e))] : o \in Explained(e, s)}
ActFirst(e, s) ==
       (IF e.fired /\ e.at # "none"
        THEN {[o EXCEPT !.s = Async2(e, Concrete(o, e))] : o \in Explained(e, Async1(e, s))} ELSE {})
  \cup (IF e.fired /\ e.fired2 /\ e.at2 # "none"
        THEN {[o EXCEPT !.s = Concrete(o, e)] : o \in Explained(e, AsyncSt(e, s))} ELSE {})

\* resynchronisation after a mismatch: believe the observed process ids (0 = idle)
Resync(e, s0) ==
  LET s == AsyncSt(e, IF e.op = "release" THEN ReleaseSt(s0, e.c) ELSE s0) IN
  [s EXCEPT !.ph = [c \in H |-> IF e.pids[c] = 0 THEN "idle" ELSE IF s.ph[c] = "idle" THEN "running" ELSE s.ph[c]],
            !.pid = [c \in H |-> e.pids[c]],
            !.code = [c \in H |-> IF e.op = "start" /\ e.c = c THEN e.x ELSE s.code[c]],
            !.env = [n \in NameSet |-> IF e.op = "setenv" /\ e.name = n THEN e.val ELSE s.env[n]]]

\* ProcLife is nondeterministic (which of "interrupt" / "terminated child" a wait reports; whether an asynchronous
\* interrupt came before or after the operation consumed the pending one), and different explanations of one event can lead
\* to different abstract states: the trace specification therefore tracks the SET of abstract states that explain the
\* events so far (cands); an event is a MISMATCH when no candidate explains it.  st is one of the candidates.
After(e, s) == {o.s : o \in OpFirst(e, s) \cup ActFirst(e, s)}

TInit == l = 1 /\ nbad = 0 /\ nblk = 0 /\ st = Init0 /\ cands = {Init0} /\ last = <<"init", 0>>
TStep ==
  /\ l <= Len(T)
  /\ l' = l + 1
  /\ LET e == T[l] IN
     IF e.op = "reset" THEN st' = Init0 /\ cands' = {Init0} /\ last' = <<"reset", 0>> /\ UNCHANGED <<nbad, nblk>>
     ELSE LET next == UNION {After(e, s) : s \in cands}
              mustblock == \A s \in cands : OpFirst(e, s) = {}      \* the operation demonstrably had to block
          IN /\ last' = <<e.op, e.r>>
             /\ IF next # {}
                THEN /\ cands' = next /\ st' = CHOOSE s \in next : TRUE
                     /\ nblk' = IF mustblock THEN nblk + 1 ELSE nblk
                     /\ UNCHANGED nbad
                ELSE /\ PrintT(<<"MISMATCH", l, e.op>>)
                     /\ cands' = {Resync(e, s) : s \in cands} /\ st' = CHOOSE s \in cands' : TRUE
                     /\ nbad' = nbad + 1 /\ UNCHANGED nblk
TDone == l = Len(T) + 1 /\ PrintT(<<"TRACE-DONE", Len(T), nbad, nblk>>) /\ l' = l + 1 /\ UNCHANGED <<st, cands, last, nbad, nblk>>
TNext == TStep \/ TDone
TSpec == TInit /\ [][TNext]_<<vars, l, nbad, nblk, cands>>
\* the reference's own invariant is evaluated on every state the implementation may have been in
TInv == \A s \in cands : StateOK(s)
================================================================================
