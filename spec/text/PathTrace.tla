------------------------------- MODULE PathTrace -------------------------------
(* Trace specification for the path functions: every logged evaluation of the real File:: functions
   ("path": one string through simplifyPath/getDirectoryName/getBaseName/getStem/getExtension/isAbsolutePath,
    "rel": one pair through getRelativePath) must satisfy the predicates of Path.tla.                      *)
EXTENDS Path, Json, IOUtils
VARIABLES l, nbad
T == ndJsonDeserialize(IOEnv.TRACE)
TInit == l = 1 /\ nbad = 0 /\ st = <<>> /\ last = 0
TStep ==
  /\ l <= Len(T)
  /\ l' = l + 1
  /\ UNCHANGED <<st, last>>
  /\ LET e == T[l]
         why == IF e.op = "path" THEN PathWhy(e) ELSE IF e.op = "rel" THEN RelWhy(e) ELSE "ok"
     IN IF why = "ok" THEN UNCHANGED nbad
        ELSE PrintT(<<"MISMATCH", l, why>>) /\ nbad' = nbad + 1
TDone == l = Len(T) + 1 /\ PrintT(<<"TRACE-DONE", Len(T), nbad>>) /\ l' = l + 1 /\ UNCHANGED <<st, last, nbad>>
TNext == TStep \/ TDone
TSpec == TInit /\ [][TNext]_<<vars, l, nbad>>
================================================================================
