------------------------------- MODULE KeyReader -------------------------------
(* Extra X05, Layer 2: the key reader of Console::Prompt (POSIX branch, UTF-8 locale) transcribed function by function:
     readNextUnbufferedEscapedSequence  (cursor position query: everything typed ahead goes to bufferedInput)
     readBufferedUtf8Char / readUnbufferedUtf8Char / readBufferedEscapedSequence / readUnbufferedEscapedSequence
     handleInput's dispatch + Unicode::length / Unicode::fromString
   as pure operators over  bi = bufferedInput,  tty = the bytes waiting in the terminal queue,  m = the caller's key
   buffer (char buffer[64] in getLine / getCursorPosition; here CAP bytes), pos = index the function writes next.
   Every byte sequence over Sigma up to length N is typed, with every split into "typed ahead before getLine" and "typed
   while getLine runs".  Checked:
     Bounds    every write and every read of the key buffer stays inside its CAP bytes        (all inputs)
     Progress  every readChar call consumes at least one byte                                  (all inputs)
     Refines   for input that LineEdit calls well-formed, the keys dispatched are exactly LineEdit's units, however
               the bytes are split between type-ahead and live typing, and what is left is LineEdit's incomplete unit
   Variant = "repo": read*EscapedSequence as found in the repository (no bound: Bounds fails for a control sequence
   with more than CAP-4 parameter bytes);  "fixed": the excess parameter bytes are dropped (X05-escape-sequence-overflow).  *)
EXTENDS LineEdit

CONSTANTS Sigma, N, CAP, Variant

Max2(a, b) == IF a > b THEN a ELSE b
Attr(b) == (b >= 48 /\ b <= 57) \/ b = 59 \/ b = 63 \/ b = 91                  \* isSeqAttributeChar
ULen(b) == IF b < 128 THEN 1 ELSE IF b >= 192 /\ b <= 223 THEN 2 ELSE IF b >= 224 /\ b <= 239 THEN 3
           ELSE IF b >= 240 /\ b <= 247 THEN 4 ELSE 0                          \* Unicode::length
\* buffer[i] = v  (i counted from 0; the model's memory grows so that writes beyond CAP are seen, not lost)
WriteAt(m, i, v) == IF i + 1 <= Len(m) THEN [m EXCEPT ![i + 1] = v] ELSE m \o [k \in 1..(i - Len(m)) |-> 0] \o <<v>>
Step2(pos) == IF Variant = "fixed" /\ pos >= CAP - 2 THEN pos ELSE pos + 1       \* ++buffer (guarded in the fixed variant)

\* usize readUnbufferedEscapedSequence(seqStart, buffer): seqStart is index 0 in every caller
RECURSIVE UnbufEsc(_, _, _, _, _)
UnbufEsc(m, pos, bi, tty, mw) ==
  IF tty = <<>> THEN [st |-> "blocked", m |-> m, end |-> pos, bi |-> bi, tty |-> tty, mw |-> mw]
  ELSE LET ch == Head(tty) m1 == WriteAt(m, pos, ch) mw1 == Max2(mw, pos) IN
       IF m1[2] # 91 \/ ~Attr(ch)
       THEN [st |-> "ok", m |-> WriteAt(m1, pos + 1, 0), end |-> pos + 1, bi |-> bi, tty |-> Tail(tty), mw |-> Max2(mw1, pos + 1)]
       ELSE UnbufEsc(m1, Step2(pos), bi, Tail(tty), mw1)
\* usize readBufferedEscapedSequence(seqStart, buffer)
RECURSIVE BufEsc(_, _, _, _, _)
BufEsc(m, pos, bi, tty, mw) ==
  IF bi = <<>> THEN UnbufEsc(m, pos, bi, tty, mw)
  ELSE LET ch == Head(bi) m1 == WriteAt(m, pos, ch) mw1 == Max2(mw, pos) IN
       IF m1[2] # 91 \/ ~Attr(ch)
       THEN [st |-> "ok", m |-> WriteAt(m1, pos + 1, 0), end |-> pos + 1, bi |-> Tail(bi), tty |-> tty, mw |-> Max2(mw1, pos + 1)]
       ELSE BufEsc(m1, Step2(pos), Tail(bi), tty, mw1)
\* usize readUnbufferedUtf8Char(start, buffer, len)
RECURSIVE UnbufUtf8(_, _, _, _, _, _)
UnbufUtf8(m, pos, len, bi, tty, mw) ==
  IF pos >= len THEN [st |-> "ok", m |-> WriteAt(m, pos, 0), end |-> len, bi |-> bi, tty |-> tty, mw |-> Max2(mw, pos)]
  ELSE IF tty = <<>> THEN [st |-> "blocked", m |-> m, end |-> pos, bi |-> bi, tty |-> tty, mw |-> mw]
  ELSE UnbufUtf8(WriteAt(m, pos, Head(tty)), pos + 1, len, bi, Tail(tty), Max2(mw, pos))
\* the loop of readBufferedUtf8Char after the first byte
RECURSIVE BufUtf8(_, _, _, _, _, _)
BufUtf8(m, pos, len, bi, tty, mw) ==
  IF pos >= len THEN [st |-> "ok", m |-> WriteAt(m, pos, 0), end |-> len, bi |-> bi, tty |-> tty, mw |-> Max2(mw, pos)]
  ELSE IF bi = <<>> THEN UnbufUtf8(m, pos, len, bi, tty, mw)
  ELSE LET b == Head(bi) m1 == WriteAt(m, pos, b) mw1 == Max2(mw, pos) IN
       IF b = 27
       THEN LET incomplete == SubSeq(m1, 1, pos)                                \* the bytes of the unfinished character
                r == BufEsc(WriteAt(m1, 0, 27), 1, Tail(bi), tty, mw1)
            IN [r EXCEPT !.bi = incomplete \o r.bi]                                \* bufferedInput.prepend(incompleteUtf8)
       ELSE BufUtf8(m1, pos + 1, len, Tail(bi), tty, mw1)
\* usize readBufferedUtf8Char(buffer); the result's end is the returned length
ReadChar(bi, tty) ==
  IF bi = <<>> THEN
    IF tty = <<>> THEN [st |-> "blocked", m |-> <<>>, end |-> 0, bi |-> bi, tty |-> tty, mw |-> 0]
    ELSE LET ch == Head(tty) IN
         IF ch = 27 THEN UnbufEsc(<<27>>, 1, bi, Tail(tty), 0)
         ELSE UnbufUtf8(<<ch>>, 1, ULen(ch), bi, Tail(tty), 0)
  ELSE LET b0 == Head(bi) IN
       IF b0 = 27 THEN BufEsc(<<27>>, 1, Tail(bi), tty, 0)
       ELSE BufUtf8(<<b0>>, 1, ULen(b0), Tail(bi), tty, 0)

\* usize readNextUnbufferedEscapedSequence(buffer, '[', 'R'): returns when the cursor position report has been read
RECURSIVE Capture(_, _, _)
Capture(bi, tty, mw) ==
  IF tty = <<>> THEN [st |-> "blocked", bi |-> bi, tty |-> tty, mw |-> mw]
  ELSE LET ch == Head(tty) IN
       IF ch # 27 THEN Capture(Append(bi, ch), Tail(tty), mw)
       ELSE LET r == UnbufEsc(<<27, 0>>, 1, <<>>, Tail(tty), Max2(mw, 1)) IN
            IF r.st = "blocked" THEN [st |-> "blocked", bi |-> bi, tty |-> r.tty, mw |-> r.mw]
            ELSE IF r.m[r.end] # 82 \/ r.m[2] # 91 THEN Capture(bi \o SubSeq(r.m, 1, r.end), r.tty, r.mw)
            ELSE [st |-> "ok", bi |-> bi, tty |-> r.tty, mw |-> r.mw]

\* Unicode::fromString(ch, len)
FromString(m, len) ==
  IF len = 0 THEN 0
  ELSE IF m[1] < 128 THEN m[1]
  ELSE LET req == ULen(m[1]) IN
       IF len < req THEN 0
       ELSE CASE req = 4 -> (((m[1] * 64 + m[2]) * 64 + m[3]) * 64 + m[4]) - 63447168
              [] req = 3 -> ((m[1] * 64 + m[2]) * 64 + m[3]) - 925824
              [] req = 2 -> (m[1] * 64 + m[2]) - 12416
              [] OTHER -> m[1]
\* handleInput(buffer, len): which key, and the highest buffer index it looks at
Dispatch(m, len) ==
  IF m[1] = 27 THEN
    IF m[2] = 91 THEN
      [rd |-> IF m[3] = 51 THEN 3 ELSE 2, c |-> 0,
       k |-> CASE m[3] = 65 -> "up" [] m[3] = 66 -> "down" [] m[3] = 67 -> "right" [] m[3] = 68 -> "left" [] m[3] = 72 -> "home"
               [] m[3] = 70 -> "end" [] m[3] = 51 -> (IF m[4] = 126 THEN "del" ELSE "none") [] OTHER -> "none"]
    ELSE [rd |-> 1, c |-> 0, k |-> "none"]
  ELSE LET ch == FromString(m, len) IN
       [rd |-> Max2(0, len - 1),
        c |-> IF ch \in {9, 13, 8, 127} THEN 0 ELSE ch,
        k |-> CASE ch = 9 -> "tab" [] ch = 13 -> "enter" [] ch \in {8, 127} -> "bs" [] OTHER -> "ins"]

\* getLine: the cursor position query, then readChar / handleInput while anything is buffered or waiting
Report == <<27, 91, 49, 82>>          \* ESC [ row ; col R, shortened so that it fits the model's small key buffer
RECURSIVE Drain(_, _, _)
Drain(bi, tty, acc) ==
  IF bi = <<>> /\ tty = <<>> THEN acc
  ELSE LET r == ReadChar(bi, tty) IN
       IF r.st = "blocked" THEN [acc EXCEPT !.rest = Len(bi) + Len(tty), !.mw = Max2(@, r.mw)]
       ELSE LET d == Dispatch(r.m, r.end) IN
            Drain(r.bi, r.tty, [acc EXCEPT !.keys = Append(@, [k |-> d.k, c |-> d.c]), !.mw = Max2(@, r.mw),
                                           !.progress = @ /\ Len(r.bi) + Len(r.tty) < Len(bi) + Len(tty),
                                           !.readok = @ /\ d.rd <= r.mw])
Sim(bytes, ta) ==
  LET c == Capture(<<>>, SubSeq(bytes, 1, ta) \o Report, 0)
      acc0 == [keys |-> <<>>, mw |-> c.mw, progress |-> TRUE, readok |-> TRUE, rest |-> 0, captured |-> c.st = "ok"]
  IN IF c.st = "blocked" THEN acc0
     ELSE Drain(c.bi, c.tty \o SubSeq(bytes, ta + 1, Len(bytes)), acc0)

\* Layer 1's framing of the same bytes
L1Step(acc, b) ==
  IF acc.bad THEN acc
  ELSE LET u == acc.pend \o <<b>> c == Classify(u) IN
       IF c = "bad" THEN [acc EXCEPT !.bad = TRUE]
       ELSE IF c = "prefix" THEN [acc EXCEPT !.pend = u]
       ELSE [acc EXCEPT !.pend = <<>>, !.keys = Append(@, [k |-> KeyOf(u), c |-> IF KeyOf(u) = "ins" THEN DecUnit(u) ELSE 0])]
L1(bytes) == FoldLeft(L1Step, [keys |-> <<>>, pend |-> <<>>, bad |-> FALSE], bytes)

VARIABLES inp
Bounds(bytes) == \A t \in 0..Len(bytes) : LET s == Sim(bytes, t) IN s.mw < CAP /\ s.readok
Progress(bytes) == \A t \in 0..Len(bytes) : Sim(bytes, t).progress
Refines(bytes) ==
  LET ref == L1(bytes) IN
  ~ref.bad =>
    \A t \in 0..Len(bytes) :
      LET tp == L1(SubSeq(bytes, 1, t)).pend IN
      (tp = <<>> \/ tp[1] # 27) =>         \* a type-ahead that ends inside an escape sequence swallows the cursor report: not judged
        LET s == Sim(bytes, t) IN s.captured /\ s.keys = ref.keys /\ s.rest = Len(ref.pend)

LInit == inp = <<>> /\ st = Init0 /\ ok = TRUE
Type(b) == Len(inp) < N /\ inp' = Append(inp, b) /\ UNCHANGED vars
LNext == \E b \in Sigma : Type(b)
LSpec == LInit /\ [][LNext]_<<inp, vars>>
InvBounds == Bounds(inp)
InvProgress == Progress(inp)
InvRefines == Refines(inp)
================================================================================
