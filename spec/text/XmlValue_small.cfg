SPECIFICATION Spec
CONSTANTS NSlots = 2
 MaxSize = 2
INVARIANT TypeOK
PROPERTY Independent
CONSTRAINT Bound
