-------------------------------- MODULE DirList --------------------------------
(* Layer 1 (property level) for extra X01: Directory::open/read/close (enumeration with patterns), Directory::purge,
   File::time, File::isExecutable, File::getAbsolutePath.

   Same world as FsModel.tla (property C19): a tree of named nodes below a scratch root plus a fixed "outside" tree
   that symbolic links point to.  Differences: a NAME is a sequence of character codes (patterns look inside names),
   the tree is a function whose DOMAIN is the set of existing paths (so the trace specification needs no universe),
   and a node carries what the observed functions report:
        dir | file(x = execute bits u/g/o as 4/2/1, mt / at = modification / access time in ms)
        | linkF (symlink to the outside file) | linkD (symlink to the outside directory) | linkX (dangling symlink).

   What is demanded (and where the statement in extras.jsonl was corrected from the library's documentation):
   * list = open(dir, pattern, dirsOnly); read() until it fails; close().  open succeeds exactly when dir is (or links
     to) a directory.  The names reported are pairwise different ("exactly once"), every child of dir whose name matches
     the pattern is reported, nothing else is (no ".", "..", no entry of another directory), isDir = the entry is or
     links to a directory, and with dirsOnly exactly the entries with isDir are reported -- INCLUDING symbolic links to
     directories (they are reported with isDir = true without dirsOnly, the Win32 branch reports them, and the POSIX
     branch contains an (unreachable) `else if(dirsOnly) continue` after its stat() that shows the intent).
     A pattern matches as the wildcards * (any sequence) and ? (one character) say; the empty pattern matches every
     name; names starting with '.' are not special (nothing in the documentation says so, fnmatch is called without
     FNM_PERIOD, Win32 does not hide them either).  NOT fixed by the documentation and therefore left open here:
     letter case (the Win32 matcher folds case, fnmatch does not): a name that matches only when case is ignored MAY be
     reported; patterns containing '[' or '\' (fnmatch gives them a meaning the documentation does not mention): every
     child MAY be reported.
   * the same through a persistent Directory object: dopen / dread / dclose.  read() on an object that is not open
     fails; after read() failed it keeps failing.  (open() on an object that is already open, and enumeration while
     the tree changes, are not documented: neither generated nor judged.)
   * purge(p, recursive) -- CORRECTION: the statement says purge "never removes a file".  The header says "Remove a
     directory including its parents.  If recursive is not set to true, the function will fail if the directory is not
     empty.  Parent directories are removed if they would remain empty", purge is unlink(p, recursive) + parents, and
     the repository's TestDirectory purges a directory holding files and sub-directories.  So: purge fails and changes
     nothing when p is not a directory (a link to a directory is not one) or is not empty and recursive is not set;
     otherwise exactly the sub-tree of p disappears (symbolic links in it are removed, never followed: the outside
     tree is unchanged), then every ancestor NAMED IN THE PATH that is empty by then, nearest first, stopping at the
     first one that is not.  Nothing else changes: in particular without `recursive` no file is ever removed, and a
     directory that still contains anything outside p's sub-tree is never removed.
   * time(p): fails when nothing is there; writeTime / accessTime of a file are the times set on it (ms); for every kind
     the three reported times equal what stat() reports (observed by the driver: d?t = 0).  For a symbolic link the
     times of the link itself (lstat, l?t = 0) are accepted as well -- not documented, and the two branches of the
     library differ; for the same reason time() of a dangling link may fail or succeed.
   * isExecutable(p): false when nothing is there or no execute bit is set, true when all are; with only some execute
     bits set, for directories and for dangling links the documentation does not say: left open.
   * getAbsolutePath(q) in working directory c: an absolute path lexically equivalent to q (absolute q) or to c/q.
   * fsmode(u): u = 1 makes the file system one that does not report entry types in readdir (d_type = DT_UNKNOWN, which
     readdir(3) allows on any file system and requires every application to handle; the driver simulates it by
     interposing readdir).  None of the demands above depends on u.                                                *)
EXTENDS Integers, Sequences, FiniteSets, TLC

CONSTANTS U,        \* paths used by the stand-alone model
          Pats,     \* patterns used by the stand-alone model
          Raws,     \* raw path strings given to getAbsolutePath by the stand-alone model
          Xs, Ms,   \* execute bits / modification times used by mkfile in the stand-alone model
          OpsOn     \* operations generated by the stand-alone model

SLASH == 47
DOT == 46
STAR == 42
QM == 63
DOTDOT == <<DOT, DOT>>

\* --- nodes and trees -------------------------------------------------------------------------------------------
Nd(t, x, mt, at) == [t |-> t, x |-> x, mt |-> mt, at |-> at]
DirN == Nd("dir", 0, 0, 0)
LinkN(t) == Nd(t, 0, 0, 0)
FileN(x, m) == Nd("file", x, m, m + 7)          \* the driver sets the access time 7 ms after the modification time
OutFileN == Nd("file", 7, 77123, 77130)         \* the outside file linkF points to
OutDirEnts == { [n |-> <<116>>, d |-> FALSE] }  \* the outside directory linkD points to contains one file "t"
Kind(tr, p) == IF p \in DOMAIN tr THEN tr[p].t ELSE "none"
Parent(p) == SubSeq(p, 1, Len(p) - 1)
IsBelow(x, p) == Len(x) > Len(p) /\ SubSeq(x, 1, Len(p)) = p
Below(tr, p) == { x \in DOMAIN tr : IsBelow(x, p) }
HasChild(tr, p) == Below(tr, p) # {}
ParentIsDir(tr, p) == Len(p) = 1 \/ Kind(tr, Parent(p)) = "dir"
LinkDAbove(tr, p) == \E j \in 1..(Len(p) - 1) : Kind(tr, SubSeq(p, 1, j)) = "linkD"
With(tr, p, n) == [x \in DOMAIN tr \cup {p} |-> IF x = p THEN n ELSE tr[x]]
Without(tr, S) == [x \in DOMAIN tr \ S |-> tr[x]]
EmptyTree == [x \in {} |-> DirN]
IsLink(t) == t \in {"linkF", "linkD", "linkX"}

\* --- wildcard matching ---------------------------------------------------------------------------------------------
Fold(c) == IF c >= 65 /\ c <= 90 THEN c + 32 ELSE c
RECURSIVE GlobR(_, _, _, _, _)
\* does p[i..] match s[j..]?  ci = ignore letter case
GlobR(p, i, s, j, ci) ==
  IF i > Len(p) THEN j > Len(s)
  ELSE IF p[i] = STAR THEN \E k \in j..(Len(s) + 1) : GlobR(p, i + 1, s, k, ci)
  ELSE /\ j <= Len(s)
       /\ (p[i] = QM \/ p[i] = s[j] \/ (ci /\ Fold(p[i]) = Fold(s[j])))
       /\ GlobR(p, i + 1, s, j + 1, ci)
Glob(p, s, ci) == p = <<>> \/ GlobR(p, 1, s, 1, ci)
Special(p) == \E i \in 1..Len(p) : p[i] \in {91, 92}           \* '[' and '\'
MustList(p, s) == ~Special(p) /\ Glob(p, s, FALSE)
MayList(p, s) == Special(p) \/ Glob(p, s, TRUE)

\* --- lexical meaning of path strings (copied from Path.tla, property C19) ---------------------------------------
RECURSIVE SplitR(_, _, _)
SplitR(p, i, cur) == IF i > Len(p) THEN <<cur>>
                     ELSE IF p[i] = SLASH THEN <<cur>> \o SplitR(p, i + 1, <<>>)
                     ELSE SplitR(p, i + 1, cur \o <<p[i]>>)
Comps(p) == SelectSeq(SplitR(p, 1, <<>>), LAMBDA c : c # <<>> /\ c # <<DOT>>)
IsAbs(p) == Len(p) > 0 /\ p[1] = SLASH
StepC(n, c) ==
  IF c = DOTDOT
  THEN IF n.names # <<>> THEN [n EXCEPT !.names = SubSeq(@, 1, Len(@) - 1)]
       ELSE IF n.abs THEN n
       ELSE [n EXCEPT !.ups = @ + 1]
  ELSE [n EXCEPT !.names = @ \o <<c>>]
RECURSIVE WalkR(_, _, _)
WalkR(n, cs, i) == IF i > Len(cs) THEN n ELSE WalkR(StepC(n, cs[i]), cs, i + 1)
NormC(p) == WalkR([abs |-> IsAbs(p), ups |-> 0, names |-> <<>>], Comps(p), 1)
RECURSIVE JoinPath(_, _)
JoinPath(cs, i) == IF i > Len(cs) THEN <<>> ELSE <<SLASH>> \o cs[i] \o JoinPath(cs, i + 1)

\* --- outcomes ----------------------------------------------------------------------------------------------------
NoEnt == [n |-> <<>>, d |-> FALSE]
Closed == [open |-> FALSE, req |-> {}, opt |-> {}]
\* r result; wt / at expected times (-1 = not fixed); req / opt entries that must / may be listed; ent entry read by dread
Out(tr, h, r) == [tree |-> tr, h |-> h, u |-> 0, r |-> r, wt |-> -1, at |-> -1, req |-> {}, opt |-> {}, ent |-> NoEnt]
Fail(s) == Out(s.tree, s.h, 0)
AsState(o) == [tree |-> o.tree, h |-> o.h, u |-> o.u]

\* --- set-up operations (performed by the driver with plain POSIX calls; not under test) ----------------------
MkdirF(s, p) == IF Kind(s.tree, p) = "none" /\ ParentIsDir(s.tree, p) THEN Out(With(s.tree, p, DirN), s.h, 1) ELSE Fail(s)
MkfileF(s, p, x, m) ==
  IF (Kind(s.tree, p) = "none" /\ ParentIsDir(s.tree, p)) \/ Kind(s.tree, p) = "file"
  THEN Out(With(s.tree, p, FileN(x, m)), s.h, 1) ELSE Fail(s)
LinkKind(k) == IF k = 0 THEN "linkF" ELSE IF k = 1 THEN "linkD" ELSE "linkX"
MklinkF(s, p, k) == IF Kind(s.tree, p) = "none" /\ ParentIsDir(s.tree, p) THEN Out(With(s.tree, p, LinkN(LinkKind(k))), s.h, 1) ELSE Fail(s)
RmF(s, p) == IF Kind(s.tree, p) = "none" \/ HasChild(s.tree, p) THEN Fail(s) ELSE Out(Without(s.tree, {p}), s.h, 1)

\* --- enumeration -------------------------------------------------------------------------------------------------
Last(p) == p[Len(p)]
Children(tr, d) == { x \in DOMAIN tr : Len(x) = Len(d) + 1 /\ SubSeq(x, 1, Len(d)) = d }
EntOf(tr, x) == [n |-> Last(x), d |-> tr[x].t \in {"dir", "linkD"}]
\* the entries of the directory that d denotes (d = <<>>: the working directory = root of the tree); "nodir" if none
DirEnts(tr, d) == IF d = <<>> \/ Kind(tr, d) = "dir" THEN { EntOf(tr, x) : x \in Children(tr, d) }
                  ELSE IF Kind(tr, d) = "linkD" THEN OutDirEnts
                  ELSE {}
IsDirLike(tr, d) == d = <<>> \/ Kind(tr, d) \in {"dir", "linkD"}
Req(tr, d, pat, dirsOnly) == { e \in DirEnts(tr, d) : MustList(pat, e.n) /\ (dirsOnly => e.d) }
Opt(tr, d, pat, dirsOnly) == { e \in DirEnts(tr, d) : MayList(pat, e.n) /\ (dirsOnly => e.d) } \ Req(tr, d, pat, dirsOnly)
ListF(s, d, pat, k) ==
  IF ~IsDirLike(s.tree, d) THEN Fail(s)
  ELSE [Out(s.tree, s.h, 1) EXCEPT !.req = Req(s.tree, d, pat, k = 1), !.opt = Opt(s.tree, d, pat, k = 1)]
DOpenF(s, d, pat, k) ==
  IF ~IsDirLike(s.tree, d) THEN Fail(s)
  ELSE Out(s.tree, [open |-> TRUE, req |-> Req(s.tree, d, pat, k = 1), opt |-> Opt(s.tree, d, pat, k = 1)], 1)
DReadF(s) ==
  IF ~s.h.open THEN {Fail(s)}
  ELSE { [Out(s.tree, [s.h EXCEPT !.req = @ \ {x}, !.opt = @ \ {x}], 1) EXCEPT !.ent = x] : x \in s.h.req \cup s.h.opt }
       \cup (IF s.h.req = {} THEN {Out(s.tree, [s.h EXCEPT !.opt = {}], 0)} ELSE {})
DCloseF(s) == Out(s.tree, Closed, 1)

\* --- purge -----------------------------------------------------------------------------------------------------
RECURSIVE PurgeUp(_, _)
PurgeUp(tr, a) == IF a = <<>> \/ HasChild(tr, a) THEN tr ELSE PurgeUp(Without(tr, {a}), Parent(a))
PurgeF(s, p, rec) ==
  IF Kind(s.tree, p) # "dir" \/ (HasChild(s.tree, p) /\ ~rec) THEN Fail(s)
  ELSE Out(PurgeUp(Without(s.tree, {p} \cup Below(s.tree, p)), Parent(p)), s.h, 1)

\* --- stat-like queries (follow links) -----------------------------------------------------------------------------
\* Whether time() / isExecutable() look at a symbolic link itself or at what it points to is not documented (the POSIX
\* branch follows it, the Win32 branch of time() reports the link): both are accepted, see TimeOK.
TimeF(s, p) ==
  LET t == Kind(s.tree, p) IN
  IF t = "none" THEN {Fail(s)}
  ELSE IF t = "linkX" THEN {Fail(s), Out(s.tree, s.h, 1)}
  ELSE IF t = "file" THEN {[Out(s.tree, s.h, 1) EXCEPT !.wt = s.tree[p].mt, !.at = s.tree[p].at]}
  ELSE IF t = "linkF" THEN {[Out(s.tree, s.h, 1) EXCEPT !.wt = OutFileN.mt, !.at = OutFileN.at]}
  ELSE {Out(s.tree, s.h, 1)}
ExeOf(x) == IF x = 0 THEN {0} ELSE IF x = 7 THEN {1} ELSE {0, 1}
IsExeF(s, p) ==
  LET t == Kind(s.tree, p)
      rs == IF t = "none" THEN {0}
            ELSE IF t = "linkX" THEN {0, 1}
            ELSE IF t = "file" THEN ExeOf(s.tree[p].x)
            ELSE IF t = "linkF" THEN ExeOf(OutFileN.x)
            ELSE {0, 1}
  IN { Out(s.tree, s.h, r) : r \in rs }
AbsPathF(s) == Out(s.tree, s.h, 1)          \* the result string is judged by Match

Ops == {"fsmode", "mkdir", "mkfile", "mklink", "rm", "list", "dopen", "dread", "dclose", "purge", "time", "isexe", "abspath"}
Mutating == {"mkdir", "mkfile", "mklink", "rm", "purge"}
\* p path (<<>> when unused), q pattern / raw path string, k integer argument (dirsOnly / recursive / link kind / x bits),
\* m modification time (mkfile)
Step0(op, s, p, q, k, m) ==
  CASE op = "fsmode"  -> {Out(s.tree, s.h, 1)}
    [] op = "mkdir"   -> {MkdirF(s, p)}
    [] op = "mkfile"  -> {MkfileF(s, p, k, m)}
    [] op = "mklink"  -> {MklinkF(s, p, k)}
    [] op = "rm"      -> {RmF(s, p)}
    [] op = "list"    -> {ListF(s, p, q, k)}
    [] op = "dopen"   -> {DOpenF(s, p, q, k)}
    [] op = "dread"   -> DReadF(s)
    [] op = "dclose"  -> {DCloseF(s)}
    [] op = "purge"   -> {PurgeF(s, p, k = 1)}
    [] op = "time"    -> TimeF(s, p)
    [] op = "isexe"   -> IsExeF(s, p)
    [] op = "abspath" -> {AbsPathF(s)}
\* u = 1: the file system does not report entry types (readdir returns d_type = DT_UNKNOWN, which POSIX / Linux allow
\* on every file system; the driver simulates it).  Nothing that is demanded depends on it.
Step(op, s, p, q, k, m) == { [o EXCEPT !.u = IF op = "fsmode" THEN k ELSE s.u] : o \in Step0(op, s, p, q, k, m) }

\* Where the documentation is silent (see header) or the driver's safety guards refuse: neither generated nor judged.
Enabled(op, s, p, q, k) ==
  /\ p # <<>> => ~LinkDAbove(s.tree, p)
  /\ op \in Mutating => ~s.h.open /\ p # <<>>
  /\ op = "fsmode" => ~s.h.open /\ k \in {0, 1}
  /\ op = "dopen" => ~s.h.open
  /\ op \in {"time", "isexe"} => p # <<>>
  /\ op = "abspath" => p = <<>> \/ Kind(s.tree, p) = "dir"

\* --- binding to observations -----------------------------------------------------------------------------------
\* obs.tree: tuple of [p, t, x, mt, at]; obs.ents: tuple of [n, d] (d = 1 iff isDir) in the order read() returned them
Entries(t) == { t[i] : i \in 1..Len(t) }
TreeOf(t) == [x \in { e.p : e \in Entries(t) } |-> LET e == CHOOSE e \in Entries(t) : e.p = x IN Nd(e.t, e.x, e.mt, e.at)]
EntSet(t) == { [n |-> t[i].n, d |-> t[i].d = 1] : i \in 1..Len(t) }
ListOK(o, obs) == /\ \A i, j \in 1..Len(obs.ents) : i # j => obs.ents[i].n # obs.ents[j].n        \* exactly once
                  /\ o.req \subseteq EntSet(obs.ents)
                  /\ EntSet(obs.ents) \subseteq (o.req \cup o.opt)
AbsOK(obs) == /\ IsAbs(obs.res)
              /\ NormC(obs.res) = NormC(IF IsAbs(obs.q) THEN obs.q ELSE obs.root \o JoinPath(obs.p, 1) \o <<SLASH>> \o obs.q)
\* the tree observed is the tree expected; the times a successful set-up step mkfile leaves on its file are taken from
\* the observation (a file system may store them with a coarser granularity than the driver asked for)
TreeOK(o, obs) ==
  LET t == TreeOf(obs.tree) IN
  IF obs.op = "mkfile" /\ o.r = 1
  THEN /\ DOMAIN t = DOMAIN o.tree /\ \A y \in DOMAIN t \ {obs.p} : t[y] = o.tree[y]
       /\ t[obs.p].t = "file" /\ t[obs.p].x = o.tree[obs.p].x
  ELSE t = o.tree
Concrete(o, obs) == [tree |-> TreeOf(obs.tree), h |-> o.h, u |-> o.u]      \* the abstract state after a matched observation
\* d?t = reported time - what stat() says (follows links), l?t = reported time - what lstat() says (the link itself)
TimeOK(o, obs) ==
  \/ /\ obs.dwt = 0 /\ obs.dat = 0 /\ obs.dct = 0 /\ o.wt \in {-1, obs.wt} /\ o.at \in {-1, obs.at}
  \/ /\ IsLink(Kind(o.tree, obs.p)) /\ obs.lwt = 0 /\ obs.lat = 0 /\ obs.lct = 0
Match(o, obs) ==
  /\ o.r = obs.r /\ o.u = obs.u
  /\ TreeOK(o, obs)
  /\ obs.outsame
  /\ obs.op = "list" => (IF o.r = 1 THEN ListOK(o, obs) ELSE obs.ents = <<>>)
  /\ obs.op = "dread" => (IF o.r = 1 THEN EntSet(obs.ents) = {o.ent} /\ Len(obs.ents) = 1 ELSE obs.ents = <<>>)
  /\ (obs.op = "time" /\ o.r = 1) => TimeOK(o, obs)
  /\ obs.op = "abspath" => AbsOK(obs)
Init0 == [tree |-> EmptyTree, h |-> Closed, u |-> 0]

--------------------------------------------------------------------------------
\* Stand-alone model: all histories from the empty tree over the universe U.
VARIABLES st, last
vars == <<st, last>>
Do(op, p, q, k, m) == /\ op \in OpsOn
                      /\ Enabled(op, st, p, q, k)
                      /\ \E o \in Step(op, st, p, q, k, m) : st' = AsState(o) /\ last' = [op |-> op, p |-> p, q |-> q, k |-> k, o |-> o]
Init == st = Init0 /\ last = [op |-> "init", p |-> <<>>, q |-> <<>>, k |-> 0, o |-> Out(EmptyTree, Closed, 0)]
Next == \/ \E p \in U :
            \/ Do("mkdir", p, <<>>, 0, 0) \/ Do("rm", p, <<>>, 0, 0) \/ Do("time", p, <<>>, 0, 0) \/ Do("isexe", p, <<>>, 0, 0)
            \/ \E x \in Xs, m \in Ms : Do("mkfile", p, <<>>, x, m)
            \/ \E k \in {0, 1, 2} : Do("mklink", p, <<>>, k, 0)
            \/ \E k \in {0, 1} : Do("purge", p, <<>>, k, 0)
        \/ \E p \in U \cup {<<>>} :
            \/ \E q \in Pats, k \in {0, 1} : Do("list", p, q, k, 0) \/ Do("dopen", p, q, k, 0)
            \/ \E q \in Raws : Do("abspath", p, q, 0, 0)
        \/ Do("dread", <<>>, <<>>, 0, 0) \/ Do("dclose", <<>>, <<>>, 0, 0)
        \/ \E k \in {0, 1} : Do("fsmode", <<>>, <<>>, k, 0)
Spec == Init /\ [][Next]_vars
View == st                     \* "last" only carries the label and outcome of the incoming step

\* sanity properties of the reference itself (formulated independently of the definitions above)
TypeOK == /\ \A x \in DOMAIN st.tree : st.tree[x].t \in {"dir", "file", "linkF", "linkD", "linkX"} /\ x # <<>> /\ ParentIsDir(st.tree, x)
          /\ st.h.req \cap st.h.opt = {} /\ (~st.h.open => st.h.req = {} /\ st.h.opt = {})
Removed == DOMAIN st.tree \ DOMAIN st'.tree
IsPrefix(a, p) == Len(a) < Len(p) /\ SubSeq(p, 1, Len(a)) = a
PurgeSafe == [][last'.op = "purge" =>
                 LET p == last'.p IN
                 /\ DOMAIN st'.tree \subseteq DOMAIN st.tree /\ \A x \in DOMAIN st'.tree : st'.tree[x] = st.tree[x]
                 /\ last'.o.r = 0 => Removed = {}
                 /\ last'.o.r = 1 => p \in Removed
                 /\ \A x \in Removed : \/ x = p \/ IsBelow(x, p)
                                       \/ IsPrefix(x, p) /\ st.tree[x].t = "dir" /\ Below(st'.tree, x) = {}
                 /\ last'.k = 0 => \A x \in Removed : st.tree[x].t = "dir"                  \* not recursive: no file, no link
                 /\ (last'.o.r = 1 /\ Len(p) > 1 /\ Below(st'.tree, Parent(p)) = {}) => Parent(p) \in Removed]_vars
QueriesPure == [][last'.op \in {"list", "time", "isexe", "abspath", "dread", "dopen", "dclose"} => st'.tree = st.tree]_vars
ListSound == [][last'.op \in {"list", "dopen"} =>
                 LET o == last'.o
                     S == IF last'.op = "list" THEN o.req \cup o.opt ELSE o.h.req \cup o.h.opt IN
                 /\ \A e \in S : e.n \notin {<<DOT>>, DOTDOT} /\ (last'.k = 1 => e.d)
                 /\ Kind(st.tree, last'.p) = "dir" => \A e \in S : (last'.p \o <<e.n>>) \in DOMAIN st.tree
                 /\ (last'.q \in {<<>>, <<STAR>>} /\ last'.k = 0 /\ o.r = 1 /\ last'.op = "list" /\ Kind(st.tree, last'.p) = "dir")
                      => Cardinality(o.req) = Cardinality(Children(st.tree, last'.p))]_vars

\* constants for the configurations (cfg files cannot contain tuples)
NA == <<97>>           \* "a"
NAB == <<97, 98>>      \* "ab"
NB == <<98>>           \* "b"
NHB == <<46, 98>>      \* ".b"
U_tree == {<<NA>>, <<NAB>>, <<NA, NA>>, <<NA, NAB>>, <<NA, NA, NHB>>}
U_flat == {<<NA>>, <<NAB>>, <<NHB>>}
U_mid == {<<NA>>, <<NAB>>, <<NHB>>, <<NA, NA>>, <<NA, NAB>>, <<NAB, NB>>, <<NA, NA, NHB>>}
Pats_small == {<<>>, <<STAR>>, <<97, STAR>>, <<QM>>, <<STAR, 98>>}
Pats_more == Pats_small \cup {<<QM, 98>>, <<65, STAR>>, <<STAR, DOT, STAR>>, <<97, 98>>, <<STAR, STAR>>}
Pats_mid == Pats_small \cup {<<QM, 98>>, <<65, STAR>>, <<STAR, DOT, STAR>>}
Raws_small == {<<>>, <<120>>, <<DOT, DOT, SLASH, 120>>, <<SLASH, 120, SLASH, SLASH, 121>>}
================================================================================
