--------------------------------- MODULE Spawn ---------------------------------
(* Layer 1 (property level) for starting a child through nstd::Process (property C20, first sentence): what the
   child must observe and what the parent must get back.

   A request  q = [form, streams, env, code, nin, nout, nerr, args, exe, xenv]
     form     0 start(exe, argc, argv)   1 open(exe, argc, argv)   2 open(exe, List)   3 start(cmdline)   4 open(cmdline)
     streams  set of redirected streams as bit mask (1 stdout, 2 stderr, 4 stdin); 0 for the start forms
     xenv     the environment the child must see: exactly the given map, or the parent's own when the map is empty
     code     exit code of the child;  nin bytes are written to its stdin (-1: stdin not redirected), it writes nout
              bytes to stdout and nerr bytes to stderr (0 when not redirected).
   The observation adds: started, jr (join succeeded), xc (exit code from join), rep (the child ran and reported),
   cexe/cargs/cenv (argv[0], arguments, environment seen by the child), gin/okin (bytes the child read from stdin,
   intact), sent (bytes the parent could write), gout/okout, gerr/okerr (bytes the parent read up to end-of-file,
   intact), rdok (no read error).                                                                            *)
EXTENDS Integers, Sequences, FiniteSets, TLC

Range(f) == { f[i] : i \in 1..Len(f) }
SpawnWhy(e) ==
  IF ~(e.started /\ e.rep) THEN "spawn-not-run"
  ELSE IF e.cexe # e.exe \/ e.cargs # e.args THEN "spawn-argv"
  ELSE IF Range(e.cenv) # Range(e.xenv) \/ Len(e.cenv) # Len(e.xenv) THEN "spawn-env"
  ELSE IF ~e.jr \/ e.xc # e.code THEN "spawn-exit"
  ELSE IF (e.nin >= 0 /\ (e.sent # e.nin \/ e.gin # e.nin \/ ~e.okin)) \/ (e.nin < 0 /\ e.gin # -1) THEN "spawn-stdin"
  ELSE IF ~e.rdok \/ e.gout # e.nout \/ ~e.okout THEN "spawn-stdout"
  ELSE IF e.gerr # e.nerr \/ ~e.okerr THEN "spawn-stderr"
  ELSE "ok"

\* join() without reading: the child finishes (it can still write its output) and its exit code is reported
SpawnLateWhy(e) == IF ~e.st THEN "spawnlate-not-run" ELSE IF ~e.jr \/ e.xc # e.code THEN "spawnlate-exit" ELSE "ok"

\* two Process objects alive at the same time (driver op spawn2): each child's streams and exit code are its own
Spawn2Why(e) ==
  IF ~(e.st1 /\ e.st2) THEN "spawn2-not-run"
  ELSE IF e.sent # e.nin1 \/ e.go1 # e.nout1 \/ ~e.oko1 \/ ~e.jr1 \/ e.xc1 # e.code1 THEN "spawn2-first"
  ELSE IF e.go2 # e.nout2 \/ ~e.oko2 \/ e.ge2 # e.nerr2 \/ ~e.oke2 \/ ~e.jr2 \/ e.xc2 # e.code2 THEN "spawn2-second"
  ELSE "ok"

--------------------------------------------------------------------------------
\* Stand-alone model: the request space that harness/proc is driven through (one state per request), with the
\* well-formedness conditions the generator has to respect.
Forms == 0..4
Codes == {0, 1, 2, 127, 255}
Sizes == {0, 1, 4095, 4096, 65535, 65536, 200000}
VARIABLES st, last
vars == <<st, last>>
Requests == [form : Forms, streams : 0..7, env : {0, 1, 2, 3}, code : Codes, size : Sizes]
Init == st \in Requests /\ last = 0
Next == UNCHANGED vars
Spec == Init /\ [][Next]_vars
\* the streams actually redirected and the payloads that make sense for a request
EffStreams(q) == IF q.form \in {0, 3} THEN 0 ELSE q.streams
Bit(m, b) == (m \div b) % 2 = 1
Nin(q) == IF Bit(EffStreams(q), 4) THEN q.size ELSE -1
Nout(q) == IF Bit(EffStreams(q), 1) THEN q.size ELSE 0
Nerr(q) == IF Bit(EffStreams(q), 2) THEN q.size ELSE 0
WellFormed == /\ (st.form \in {0, 3} => Nin(st) = -1 /\ Nout(st) = 0 /\ Nerr(st) = 0)
              /\ Nin(st) \in Sizes \cup {-1} /\ Nout(st) \in Sizes /\ Nerr(st) \in Sizes
================================================================================
