SPECIFICATION Spec
CONSTANTS B = 16
 L = 4
 MaxLen = 34
 MaxChunk = 17
 Bytes = {1}
INVARIANT Prefix
INVARIANT PadShape
INVARIANT DigestOK
