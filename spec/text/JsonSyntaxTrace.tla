---------------------------- MODULE JsonSyntaxTrace ----------------------------
(* Trace specification for the round-trip clause: every event "rt" logged by the driver carries the original value
   tree (orig), whether the real Json::parse accepted the text produced by the real Json::toString (ok), the canonical
   projection of the re-parsed Variant tree (got) and the verdict of the real Variant::operator== in both directions (eq).
   The property demands ok, TreeEq(orig, got) and eq.                                                                *)
EXTENDS JsonSyntax
VARIABLES l, nbad
T == ndJsonDeserialize(IOEnv.TRACE)
TInit == l = 1 /\ nbad = 0 /\ phase = 0
TStep ==
  /\ l <= Len(T)
  /\ l' = l + 1
  /\ UNCHANGED phase
  /\ LET e == T[l] IN
     IF e.op = "rtdeep" THEN      \* a deep chain, flat projection: 1 = list of one, 2 = map with the one key "k", 7 = the leaf
        IF e.ok /\ e.orig = e.got /\ e.eq THEN UNCHANGED nbad
        ELSE PrintT(<<"MISMATCH", l, "rtdeep-differs">>) /\ nbad' = nbad + 1
     ELSE IF e.op # "rt" THEN UNCHANGED nbad
     ELSE IF e.ok /\ TreeEq(e.orig, e.got) /\ e.eq THEN UNCHANGED nbad
     ELSE PrintT(<<"MISMATCH", l, IF ~e.ok THEN "rt-rejected" ELSE IF ~TreeEq(e.orig, e.got) THEN "rt-differs" ELSE "rt-variant-eq">>) /\ nbad' = nbad + 1
TDone == l = Len(T) + 1 /\ PrintT(<<"TRACE-DONE", Len(T), nbad>>) /\ l' = l + 1 /\ UNCHANGED <<phase, nbad>>
TNext == TStep \/ TDone
TSpec == TInit /\ [][TNext]_<<phase, l, nbad>>
================================================================================
