-------------------------------- MODULE Getopt --------------------------------
(* Layer 1 (property level) for Process::Arguments (property C20, second sentence): the getopt_long conventions
   as a function from (option table, argument vector) to the sequence of (character, argument) events.

   Words are sequences of character codes.  An option is [c |-> character returned, name |-> long name or NoName,
   f |-> flags] with the flag values of Process::OptionFlags: 0 = plain option, 1 = takes an argument,
   3 = takes an optional argument.  Conventions (in argv order, non-options are reported in place as character 0):
     "--"            ends option parsing, every later word is a non-option;   "-" alone is a non-option
     "--name"        plain / optional option without value; required: the NEXT word is the value, none left => ':'
     "--name=value"  option with value (required or optional)
     "-xyz"          cluster of short options; a short option that requires a value takes the rest of the word,
                     or the next word if nothing is left, none left => ':'
     unknown option  => '?'
   Error events carry the offending option; the exact spelling is not part of the conventions, so a small set of
   spellings is accepted.  Two situations are not settled by the conventions the property names and are left
   open (both the GNU behaviour and "treat it as a plain option and go on" are accepted):
     * a short option with an OPTIONAL value followed by more characters in the same word,
     * a long option that takes no value given as "--name=value".
   Long names are matched exactly (the fixed table below has no unambiguous abbreviations).                 *)
EXTENDS Integers, Sequences, FiniteSets, TLC

DASH == 45
EQ == 61
QM == 63          \* '?'
COLON == 58       \* ':'
NoName == <<0>>
\* the option table used by harness/proc (kept in sync with drv_proc.cpp)
Table == << [c |-> 97,   name |-> <<97, 97>>, f |-> 0],       \* -a  --aa      plain
            [c |-> 98,   name |-> <<97, 98>>, f |-> 1],       \* -b  --ab      required value
            [c |-> 118,  name |-> <<118>>,    f |-> 3],       \* -v  --v       optional value
            [c |-> 1000, name |-> <<98>>,     f |-> 0],       \*     --b       long only, plain
            [c |-> 61,   name |-> NoName,     f |-> 1] >>     \* -=            short only, required value
Opts == { Table[i] : i \in 1..Len(Table) }

Ev(c, as) == [c |-> c, as |-> as]                  \* as = set of accepted argument spellings
IndexOf(w, ch) == IF \E i \in 1..Len(w) : w[i] = ch THEN CHOOSE i \in 1..Len(w) : w[i] = ch /\ \A j \in 1..(i - 1) : w[j] # ch ELSE 0
Tl(ws) == SubSeq(ws, 2, Len(ws))
From(w, i) == SubSeq(w, i, Len(w))
Pre(x, S) == { <<x>> \o s : s \in S }

RECURSIVE Words(_, _), Cluster(_, _, _)
\* all accepted event sequences for the remaining words ws; more = options are still recognised
Words(ws, more) ==
  IF ws = <<>> THEN { <<>> }
  ELSE LET w == ws[1] IN
  IF ~more \/ Len(w) < 2 \/ w[1] # DASH THEN Pre(Ev(0, {w}), Words(Tl(ws), more))
  ELSE IF w = <<DASH, DASH>> THEN Words(Tl(ws), FALSE)
  ELSE IF w[2] = DASH THEN
    LET body == From(w, 3)
        e == IndexOf(body, EQ)
        nm == IF e = 0 THEN body ELSE SubSeq(body, 1, e - 1)
        val == IF e = 0 THEN <<>> ELSE From(body, e + 1)
        cand == { o \in Opts : o.name = nm }
        unknown == Ev(QM, {w, <<DASH, DASH>> \o nm, nm})
    IN IF cand = {} THEN Pre(unknown, Words(Tl(ws), TRUE))
       ELSE LET o == CHOOSE o \in cand : TRUE IN
            IF o.f = 1 THEN
              IF e # 0 THEN Pre(Ev(o.c, {val}), Words(Tl(ws), TRUE))
              ELSE IF Len(ws) >= 2 THEN Pre(Ev(o.c, {ws[2]}), Words(Tl(Tl(ws)), TRUE))
              ELSE Pre(Ev(COLON, {w, nm}), Words(Tl(ws), TRUE))
            ELSE IF o.f = 3 THEN Pre(Ev(o.c, {val}), Words(Tl(ws), TRUE))
            ELSE IF e = 0 THEN Pre(Ev(o.c, {<<>>}), Words(Tl(ws), TRUE))
            ELSE \* plain option with "=value": an error (GNU), or the option followed by the value read as a word
                 Pre(unknown, Words(Tl(ws), TRUE))
                 \cup Pre(Ev(o.c, {<<>>}), Words((IF val = <<>> THEN <<>> ELSE <<val>>) \o Tl(ws), TRUE))
  ELSE Cluster(ws, 2, TRUE)
\* the short options of ws[1] from position j on
Cluster(ws, j, dummy) ==
  LET w == ws[1]
      ch == w[j]
      last == j = Len(w)
      cand == { o \in Opts : o.c = ch }
      go == IF last THEN Words(Tl(ws), TRUE) ELSE Cluster(ws, j + 1, TRUE)
      spell == {<<DASH, ch>>, <<ch>>}
  IN IF cand = {} THEN Pre(Ev(QM, spell), go)
     ELSE LET o == CHOOSE o \in cand : TRUE IN
          IF o.f = 1 THEN
            IF ~last THEN Pre(Ev(ch, {From(w, j + 1)}), Words(Tl(ws), TRUE))
            ELSE IF Len(ws) >= 2 THEN Pre(Ev(ch, {ws[2]}), Words(Tl(Tl(ws)), TRUE))
            ELSE Pre(Ev(COLON, spell), Words(Tl(ws), TRUE))
          ELSE IF o.f = 3 /\ ~last THEN Pre(Ev(ch, {From(w, j + 1)}), Words(Tl(ws), TRUE)) \cup Pre(Ev(ch, {<<>>}), go)
          ELSE Pre(Ev(ch, {<<>>}), go)

Getopt(argv) == Words(argv, TRUE)
\* obs: sequence of [c |-> character, a |-> argument] logged from the real parser
Accepts(ref, obs) == /\ Len(ref) = Len(obs)
                     /\ \A k \in 1..Len(ref) : ref[k].c = obs[k].c /\ obs[k].a \in ref[k].as
GetoptOK(argv, obs) == \E ref \in Getopt(argv) : Accepts(ref, obs)

--------------------------------------------------------------------------------
\* Stand-alone model: sanity of the reference on all vectors of at most NW words of at most WL characters.
CONSTANTS Chars, NW, WL
WordsUpTo(n) == UNION { [1..k -> Chars] : k \in 0..n }
Vectors == UNION { [1..k -> WordsUpTo(WL)] : k \in 0..NW }
VARIABLES st, last
vars == <<st, last>>
Init == st \in Vectors /\ last = 0
Next == UNCHANGED vars
Spec == Init /\ [][Next]_vars
\* every vector has at least one reading; every non-option word and every option value is a word or a suffix of a word
NonEmpty == Getopt(st) # {}
Bounded == \A r \in Getopt(st) : Len(r) <= NW * (WL + 1)
\* without the two open situations the function is deterministic
Deterministic == (\A i \in 1..Len(st) : IndexOf(st[i], EQ) = 0 /\ IndexOf(st[i], 118) = 0) => Cardinality(Getopt(st)) = 1
================================================================================
