------------------------------ MODULE CodecTrace ------------------------------
(* Property C18 - trace specification: validates batches of results recorded from the real nstd code
   (harness/codec/drv_codec.cpp) against the executable specifications Utf8.tla, Decimal.tla and Base64.tla.

   Every event is judged at two levels:
     L1 (property level)  what C18 promises; a failure prints <<"MISMATCH", line, <<op, index in the batch>>>>
     L2 (implementation)  the exact function the code computes on inputs where C18 is silent (arbitrary bytes);
                          a failure prints <<"DRIFT", line, <<op, index>>>> and is never a violation.
   The events are independent of each other (the functions are pure), so the only state is the position.          *)
EXTENDS Utf8, Decimal, Base64, Json, IOUtils, TLC
VARIABLES l, nbad, ndrift
tvars == <<l, nbad, ndrift>>
T == ndJsonDeserialize(IOEnv.TRACE)

Signed(kind) == kind = "i32" \/ kind = "i64"
NLimbs(kind) == IF kind = "i32" \/ kind = "u32" THEN 2 ELSE 4
\* lead bytes of canonical encodings: ASCII, C2..DF, E0..EF, F0..F4
CanonLead(b) == b < 128 \/ (b >= 194 /\ b <= 244)

\* --- L1: the set of batch indexes that violate the property (empty = fine) ---
BadL1(e) ==
  CASE e.op = "cps" ->
         { k \in 1..e.n : LET cp == e.from + k - 1 IN
             cp <= MaxCp /\ ~( /\ e.enc[k] = Encode(cp) /\ e.dec[k] = cp
                               /\ e.len[k] = Len(Encode(cp)) /\ e.valid[k] = 1 ) }
         \cup (IF e.strdiff = 0 THEN {} ELSE {0})
    [] e.op \in {"bs", "bsall"} ->
         { k \in 1..Len(e.s) : LET s == e.s[k] IN
             ~( /\ FirstCanonical(s) => e.dec[k] = Bits(First(s))
                /\ (Len(s) > 0 /\ CanonLead(s[1])) => e.len[k] = LengthOf(s[1])
                /\ Canonical(s) => e.valid[k] = 1
                /\ ~Structural(s) => e.valid[k] = 0 ) }
    [] e.op = "sweep" ->
         IF e.count = 256 ^ e.n /\ e.nvalid >= CanonCount(e.n) /\ e.nvalid <= StructCount(e.n) THEN {} ELSE {0}
    [] e.op = "num" ->
         IF e.txt = ToDecimal(e.v, Signed(e.kind)) /\ e.back = e.v /\ e.sback = e.v /\ e.vback = e.v /\ Len(e.v) = NLimbs(e.kind) THEN {} ELSE {0}
    [] e.op = "parse" ->
         LET v == FromDecimal(e.txt, NLimbs(e.kind)) IN IF e.back = v /\ e.sback = v /\ e.vback = v THEN {} ELSE {0}     \* vback: the String is an unterminated view followed by digits
    [] e.op = "hex" -> { k \in 1..Len(e.s) : e.r[k] # HexOf(e.s[k]) }
    [] e.op = "b64" -> { k \in 1..Len(e.s) : e.r[k] # e.orig[k] }
    [] e.op = "b64sweep" -> IF e.count = (e.hi - e.lo + 1) * 65536 /\ e.bad = 0 THEN {} ELSE {0}
    [] e.op = "b64raw" -> { k \in 1..Len(e.s) : IsEncoding(e.s[k]) /\ e.r[k] # Dec(e.s[k]) }

\* --- L2: implementation-shaped expectations where L1 is silent ---
BadL2(e) ==
  CASE e.op = "cps" ->
         { k \in 1..e.n : LET cp == e.from + k - 1 IN
             cp > MaxCp /\ ~(e.enc[k] = <<>> /\ e.dec[k] = 0 /\ e.len[k] = -1 /\ e.valid[k] = 1) }
    [] e.op \in {"bs", "bsall"} ->
         { k \in 1..Len(e.s) : LET s == e.s[k] IN
             ~( /\ e.dec[k] = DecodeImpl(s)
                /\ e.len[k] = (IF Len(s) = 0 THEN -1 ELSE LengthOf(s[1]))
                /\ e.valid[k] = (IF Structural(s) THEN 1 ELSE 0) ) }
         \cup (IF e.strdiff = 0 THEN {} ELSE {0})
    [] e.op = "sweep" -> IF e.nvalid = StructCount(e.n) THEN {} ELSE {0}
    [] e.op = "b64raw" -> { k \in 1..Len(e.s) : e.r[k] # DecImpl(e.s[k]) }
    [] OTHER -> {}

\* the harness' own encoder (used to produce the inputs of "b64") must be RFC 4648: otherwise the check is broken
HarnessOK(e) == e.op = "b64" => \A k \in 1..Len(e.s) : e.s[k] = Enc(e.orig[k])

TInit == l = 1 /\ nbad = 0 /\ ndrift = 0
TStep ==
  /\ l <= Len(T)
  /\ l' = l + 1
  /\ LET e == T[l] IN
     IF e.op = "reset" THEN UNCHANGED <<nbad, ndrift>>
     ELSE /\ Assert(HarnessOK(e), <<"BAD-HARNESS-ENCODER", l>>)
          /\ LET b1 == BadL1(e) IN
             IF b1 # {} THEN PrintT(<<"MISMATCH", l, <<e.op, Min(b1)>>>>) /\ nbad' = nbad + 1 /\ UNCHANGED ndrift
             ELSE LET b2 == BadL2(e) IN
                  IF b2 # {} THEN PrintT(<<"DRIFT", l, <<e.op, Min(b2)>>>>) /\ ndrift' = ndrift + 1 /\ UNCHANGED nbad
                  ELSE UNCHANGED <<nbad, ndrift>>
TDone == l = Len(T) + 1 /\ PrintT(<<"TRACE-DONE", Len(T), nbad, ndrift>>) /\ l' = l + 1 /\ UNCHANGED <<nbad, ndrift>>
TNext == TStep \/ TDone
TSpec == TInit /\ [][TNext]_tvars
TInv == nbad >= 0
================================================================================
