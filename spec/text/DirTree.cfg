SPECIFICATION Spec
CONSTANTS U <- U_mid
 Pats <- Pats_mid
 Raws <- Raws_small
 Xs = {0, 5}
 Ms = {1500}
 OpsOn = {"mkdir", "mkfile", "mklink", "rm", "list", "purge", "time", "isexe", "abspath"}
INVARIANT TypeOK
PROPERTIES PurgeSafe QueriesPure ListSound
VIEW View
