--------------------------------- MODULE Utf8 ---------------------------------
(* Property C18 (Unicode part) - executable specification of UTF-8 as used by nstd's Unicode class.

   Property level (what C18 promises):
     Encode(cp)        the UTF-8 byte sequence of a code point 0..0x10FFFF, by range (RFC 3629 section 3; like the
                       library - and unlike strict UTF-8 - the range D800..DFFF is encoded like any other three-byte
                       value, so that toString/fromString are inverse on *every* code point up to U+10FFFF)
     Decode(bytes)     inverse of Encode on its image
     Canonical(bytes)  bytes is a concatenation of Encode(cp)'s: Unicode::isValid MUST accept it
     Structural(bytes) every lead byte announces a length, that many bytes are present and all trail bytes are
                       10xxxxxx: what Unicode::isValid checks (Unicode.hpp has no prose; the code is a structural
                       check: no overlong / range test).  isValid MUST reject what is not Structural; between
                       Canonical and Structural (overlong forms, values above 0x10FFFF) the property is silent.
   Implementation shaped (Layer 2; differences are drift, not violations):
     LengthOf(b)       Unicode::length for any byte, DecodeImpl(bytes) = Unicode::fromString for any byte string.  *)
EXTENDS Integers, Sequences

MaxCp == 1114111                      \* 0x10FFFF

Encode(cp) ==
  IF cp < 128 THEN <<cp>>
  ELSE IF cp < 2048 THEN <<192 + (cp \div 64), 128 + (cp % 64)>>
  ELSE IF cp < 65536 THEN <<224 + (cp \div 4096), 128 + ((cp \div 64) % 64), 128 + (cp % 64)>>
  ELSE IF cp <= MaxCp THEN <<240 + (cp \div 262144), 128 + ((cp \div 4096) % 64), 128 + ((cp \div 64) % 64), 128 + (cp % 64)>>
  ELSE <<>>

IsTrail(b) == b >= 128 /\ b < 192
\* length announced by a lead byte (0: not a lead byte)
LengthOf(b) == IF b < 128 THEN 1 ELSE IF b < 192 THEN 0 ELSE IF b < 224 THEN 2 ELSE IF b < 240 THEN 3
               ELSE IF b < 248 THEN 4 ELSE 0

\* value carried by a structurally complete sequence of n = Len(s) bytes (bit extraction, RFC 3629)
Bits(s) ==
  CASE Len(s) = 1 -> s[1]
    [] Len(s) = 2 -> (s[1] - 192) * 64 + (s[2] - 128)
    [] Len(s) = 3 -> (s[1] - 224) * 4096 + (s[2] - 128) * 64 + (s[3] - 128)
    [] Len(s) = 4 -> (s[1] - 240) * 262144 + (s[2] - 128) * 4096 + (s[3] - 128) * 64 + (s[4] - 128)
\* the first character of s is structurally complete
FirstOK(s) == /\ Len(s) > 0
              /\ LengthOf(s[1]) > 0 /\ LengthOf(s[1]) <= Len(s)
              /\ \A i \in 2..LengthOf(s[1]) : IsTrail(s[i])
First(s) == SubSeq(s, 1, LengthOf(s[1]))
FirstCanonical(s) == FirstOK(s) /\ Encode(Bits(First(s))) = First(s)
Decode(s) == Bits(s)                  \* for s in the image of Encode

RECURSIVE Structural(_)
Structural(s) == s = <<>> \/ (FirstOK(s) /\ Structural(SubSeq(s, LengthOf(s[1]) + 1, Len(s))))
RECURSIVE Canonical(_)
Canonical(s) == s = <<>> \/ (FirstCanonical(s) /\ Canonical(SubSeq(s, LengthOf(s[1]) + 1, Len(s))))

\* number of Structural / Canonical byte strings of length n (for the exhaustive sweeps that only report a count)
RECURSIVE StructCount(_)
StructCount(n) == IF n < 0 THEN 0 ELSE IF n = 0 THEN 1
                  ELSE 128 * StructCount(n - 1) + 32 * 64 * StructCount(n - 2) + 16 * 64 * 64 * StructCount(n - 3)
                       + (IF n >= 4 THEN 8 * 64 * 64 * 64 * StructCount(n - 4) ELSE 0)
RECURSIVE CanonCount(_)
CanonCount(n) == IF n < 0 THEN 0 ELSE IF n = 0 THEN 1
                 ELSE 128 * CanonCount(n - 1) + (2048 - 128) * CanonCount(n - 2) + (65536 - 2048) * CanonCount(n - 3)
                      + (IF n >= 4 THEN (MaxCp + 1 - 65536) * CanonCount(n - 4) ELSE 0)

-----------------------------------------------------------------------------
(* Layer 2: Unicode::fromString(ch, len) as implemented (Unicode.hpp:92-126): no validation of trail bytes, the
   sum of the raw bytes shifted by 6 minus a per-length offset.  Values are reduced modulo 2^32 like uint32; the
   spec keeps them below 2^31 by construction (max 255 * 2^18 + ...).                                            *)
Offsets == <<0, 12416, 925824, 63447168>>      \* utf8Offsets[1..4]: 0, 0x3080, 0xE2080, 0x3C82080
DecodeImpl(s) ==
  IF Len(s) = 0 THEN 0
  ELSE IF s[1] < 128 THEN s[1]
  ELSE LET n == LengthOf(s[1]) IN
       IF Len(s) < n THEN 0
       ELSE IF n = 0 THEN s[1]
       ELSE LET raw == CASE n = 2 -> s[1] * 64 + s[2]
                         [] n = 3 -> (s[1] * 64 + s[2]) * 64 + s[3]
                         [] n = 4 -> ((s[1] * 64 + s[2]) * 64 + s[3]) * 64 + s[4]
            IN raw - Offsets[n]        \* may be negative where uint32 wraps: reported modulo 2^32 by the trace spec

ASSUME Encode(36) = <<36>> /\ Encode(162) = <<194, 162>> /\ Encode(8364) = <<226, 130, 172>>      \* $, cent, euro
ASSUME Encode(66376) = <<240, 144, 141, 136>> /\ Encode(MaxCp) = <<244, 143, 191, 191>>         \* U+10348
ASSUME StructCount(3) = 2686976 /\ CanonCount(1) = 128 /\ CanonCount(2) = 128 * 128 + 1920
ASSUME Canonical(<<36, 194, 162, 226, 130, 172>>) /\ ~Canonical(<<192, 128>>) /\ Structural(<<192, 128>>)
ASSUME ~Structural(<<226, 130>>) /\ ~Structural(<<128>>) /\ ~Structural(<<194, 65>>)
=============================================================================
