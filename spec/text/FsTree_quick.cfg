SPECIFICATION Spec
CONSTANTS U <- U_mid
 Datas <- Datas_1
 MaxLen = 1
 Depth = 0
 OpsOn = {"put", "get", "copy", "copylim", "rename", "unlink", "dcreate", "dcreated", "dunlink", "symlink", "fexists", "dexists"}
INVARIANT TypeOK
PROPERTIES FailUnchanged NoNewFileOnFail CreateIff UnlinkExact ReadBack
CONSTRAINT Bound
VIEW View
