-------------------------------- MODULE Base64 --------------------------------
(* Property C18 (binary-to-text part) - RFC 4648 section 4 base64 and section 8 base16 (upper case), executable.
   Texts are sequences of character codes.                                                                       *)
EXTENDS Integers, Sequences, SequencesExt

\* Table 1 of RFC 4648: A-Z a-z 0-9 + /
Alphabet == [i \in 1..26 |-> 64 + i] \o [i \in 1..26 |-> 96 + i] \o [i \in 1..10 |-> 47 + i] \o <<43, 47>>
PadChar == 61
Sym(v) == Alphabet[v + 1]
\* value of a symbol, -1 if it is not in the alphabet
Val(c) == IF c >= 65 /\ c <= 90 THEN c - 65 ELSE IF c >= 97 /\ c <= 122 THEN c - 71
          ELSE IF c >= 48 /\ c <= 57 THEN c + 4 ELSE IF c = 43 THEN 62 ELSE IF c = 47 THEN 63 ELSE -1

\* one group of 1..3 bytes -> 4 characters
EncGroup(g) ==
  LET b1 == g[1]
      b2 == IF Len(g) >= 2 THEN g[2] ELSE 0
      b3 == IF Len(g) >= 3 THEN g[3] ELSE 0
  IN << Sym(b1 \div 4),
        Sym((b1 % 4) * 16 + (b2 \div 16)),
        IF Len(g) >= 2 THEN Sym((b2 % 16) * 4 + (b3 \div 64)) ELSE PadChar,
        IF Len(g) >= 3 THEN Sym(b3 % 64) ELSE PadChar >>
Enc(bytes) ==
  LET n == Len(bytes)
      ng == (n + 2) \div 3
  IN FoldLeft(LAMBDA acc, j : acc \o EncGroup(SubSeq(bytes, 3 * j - 2, IF 3 * j <= n THEN 3 * j ELSE n)),
              <<>>, [j \in 1..ng |-> j])

\* decoding of one 4-character group of a well-formed text
DecGroup(q) ==
  LET v1 == Val(q[1])  v2 == Val(q[2])  v3 == Val(q[3])  v4 == Val(q[4])
  IN IF q[3] = PadChar THEN << v1 * 4 + (v2 \div 16) >>
     ELSE IF q[4] = PadChar THEN << v1 * 4 + (v2 \div 16), (v2 % 16) * 16 + (v3 \div 4) >>
     ELSE << v1 * 4 + (v2 \div 16), (v2 % 16) * 16 + (v3 \div 4), (v3 % 4) * 64 + v4 >>
Dec(text) == FoldLeft(LAMBDA acc, j : acc \o DecGroup(SubSeq(text, 4 * j - 3, 4 * j)), <<>>, [j \in 1..(Len(text) \div 4) |-> j])
\* text is the RFC 4648 encoding of some byte string (canonical: padding only at the end, zero pad bits)
WellFormedGroup(q, last) ==
  /\ Val(q[1]) >= 0 /\ Val(q[2]) >= 0
  /\ IF q[3] = PadChar THEN last /\ q[4] = PadChar /\ Val(q[2]) % 16 = 0
     ELSE /\ Val(q[3]) >= 0
          /\ IF q[4] = PadChar THEN last /\ Val(q[3]) % 4 = 0 ELSE Val(q[4]) >= 0
IsEncoding(text) == /\ Len(text) % 4 = 0
                    /\ \A j \in 1..(Len(text) \div 4) : WellFormedGroup(SubSeq(text, 4 * j - 3, 4 * j), 4 * j = Len(text))

\* base16, upper case
HexDigit(v) == IF v < 10 THEN 48 + v ELSE 55 + v
HexOf(bytes) == FoldLeft(LAMBDA acc, b : acc \o <<HexDigit(b \div 16), HexDigit(b % 16)>>, <<>>, bytes)

-----------------------------------------------------------------------------
(* Layer 2: String::fromBase64 as implemented (String.cpp:393-486) for *any* input: length not a multiple of four
   -> empty; a character above 'z' or outside the table -> empty, except '=' which ends decoding; the bytes completed
   so far are returned (the partially filled last byte is dropped).  With the F15 fix bytes >= 0x80 are "above 'z'". *)
DecImpl(text) ==
  IF Len(text) % 4 # 0 THEN <<>>
  ELSE LET step(acc, i) ==       \* acc = [state |-> "run"|"stop"|"fail", out, cur]
             IF acc.state # "run" THEN acc
             ELSE LET c == text[i] v == Val(c) IN
                  IF v < 0 THEN (IF c = PadChar THEN [acc EXCEPT !.state = "stop"] ELSE [acc EXCEPT !.state = "fail"])
                  ELSE CASE i % 4 = 1 -> [acc EXCEPT !.cur = v * 4]
                         [] i % 4 = 2 -> [acc EXCEPT !.out = Append(acc.out, acc.cur + (v \div 16)), !.cur = (v % 16) * 16]
                         [] i % 4 = 3 -> [acc EXCEPT !.out = Append(acc.out, acc.cur + (v \div 4)), !.cur = (v % 4) * 64]
                         [] i % 4 = 0 -> [acc EXCEPT !.out = Append(acc.out, acc.cur + v), !.cur = 0]
           r == FoldLeft(step, [state |-> "run", out |-> <<>>, cur |-> 0], [i \in 1..Len(text) |-> i])
       IN IF r.state = "fail" THEN <<>> ELSE r.out

\* RFC 4648 section 10 test vectors: "", "f", "fo", "foo", "foob", "fooba", "foobar"
ASSUME Enc(<<>>) = <<>> /\ Enc(<<102>>) = <<90, 103, 61, 61>> /\ Enc(<<102, 111>>) = <<90, 109, 56, 61>>
ASSUME Enc(<<102, 111, 111>>) = <<90, 109, 57, 118>> /\ Enc(<<102, 111, 111, 98>>) = <<90, 109, 57, 118, 89, 103, 61, 61>>
ASSUME Enc(<<102, 111, 111, 98, 97>>) = <<90, 109, 57, 118, 89, 109, 69, 61>>
ASSUME Enc(<<102, 111, 111, 98, 97, 114>>) = <<90, 109, 57, 118, 89, 109, 70, 121>>
ASSUME Dec(<<90, 109, 57, 118, 89, 109, 69, 61>>) = <<102, 111, 111, 98, 97>> /\ IsEncoding(<<90, 109, 57, 118, 89, 109, 69, 61>>)
ASSUME ~IsEncoding(<<90, 61, 61, 61>>) /\ ~IsEncoding(<<90, 104, 61, 61>>) /\ ~IsEncoding(<<90, 103, 61, 61, 90, 103, 61, 61>>)
ASSUME \A v \in 0..63 : Val(Sym(v)) = v
ASSUME HexOf(<<0, 171, 255>>) = <<48, 48, 65, 66, 70, 70>>            \* "00ABFF"
ASSUME DecImpl(<<90, 109, 57, 118, 89, 109, 69, 61>>) = <<102, 111, 111, 98, 97>> /\ DecImpl(<<90, 109, 57>>) = <<>>
=============================================================================
