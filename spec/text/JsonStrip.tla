------------------------------- MODULE JsonStrip -------------------------------
(* Layer 1 (property level) for the comment stripper of property C15:
     "Json::stripComments removes exactly the // and /* */ comments outside string literals and leaves every other
      byte and every line break unchanged."
   The stripper is a byte-at-a-time state machine over the modes
     code | slash (a '/' seen in code, not yet decided) | str | esc | line | block | star ('*' seen inside a block comment)
   Where the statement is silent the machine is nondeterministic (it keeps a SET of configurations):
     - a raw line break inside a string literal: the literal may continue or end there;
     - a block comment that is never closed: either removed up to the end of the text (line breaks kept) or kept verbatim.
   Allowed(input) is the set of outputs the property allows.                                                          *)
EXTENDS Integers, Sequences, FiniteSets, TLC

SL == 47  ST == 42  QU == 34  BS == 92  LF == 10  CR == 13
IsBreak(b) == b = LF \/ b = CR

Cfg(m, o, ci, raw) == [m |-> m, o |-> o, ci |-> ci, raw |-> raw]
Cfg0 == Cfg("code", <<>>, 0, <<>>)
Emit(c, b, m) == Cfg(m, c.o \o <<b>>, c.ci, c.raw)
Goto(c, m) == Cfg(m, c.o, c.ci, c.raw)

CodeStep(c, b) ==
  IF b = SL THEN {Goto(c, "slash")}
  ELSE IF b = QU THEN {Emit(c, b, "str")}
  ELSE {Emit(c, b, "code")}

Step1(c, b) ==
  CASE c.m = "code"  -> CodeStep(c, b)
    [] c.m = "slash" -> IF b = SL THEN {Goto(c, "line")}
                        ELSE IF b = ST THEN {Cfg("block", c.o, Len(c.o), <<SL, ST>>)}
                        ELSE CodeStep(Emit(c, SL, "code"), b)
    [] c.m = "line"  -> IF IsBreak(b) THEN {Emit(c, b, "code")} ELSE {c}
    [] c.m \in {"block", "star"} ->
          LET r == c.raw \o <<b>> IN
          IF b = SL /\ c.m = "star" THEN {Cfg("code", c.o, 0, <<>>)}
          ELSE IF b = ST THEN {Cfg("star", c.o, c.ci, r)}
          ELSE IF IsBreak(b) THEN {Cfg("block", c.o \o <<b>>, c.ci, r)}
          ELSE {Cfg("block", c.o, c.ci, r)}
    [] c.m = "str"   -> IF b = BS THEN {Emit(c, b, "esc")}
                        ELSE IF b = QU THEN {Emit(c, b, "code")}
                        ELSE IF IsBreak(b) THEN {Emit(c, b, "str"), Emit(c, b, "code")}
                        ELSE {Emit(c, b, "str")}
    [] c.m = "esc"   -> {Emit(c, b, "str")}

StepAll(cs, b) == UNION { Step1(c, b) : c \in cs }

Finish(c) ==
  CASE c.m = "slash" -> {c.o \o <<SL>>}
    [] c.m \in {"block", "star"} -> {c.o, SubSeq(c.o, 1, c.ci) \o c.raw}
    [] OTHER -> {c.o}

RECURSIVE FeedFrom(_, _, _)
FeedFrom(cs, s, i) == IF i > Len(s) THEN cs ELSE FeedFrom(StepAll(cs, s[i]), s, i + 1)
Allowed(s) == UNION { Finish(c) : c \in FeedFrom({Cfg0}, s, 1) }

--------------------------------------------------------------------------------
\* Stand-alone bounded model: TLC feeds every input of length <= MaxLen over Alphabet byte by byte.
CONSTANTS MaxLen, Alphabet
VARIABLES inp, cfgs
vars == <<inp, cfgs>>
Init == inp = <<>> /\ cfgs = {Cfg0}
Feed(b) == /\ Len(inp) < MaxLen
           /\ inp' = inp \o <<b>>
           /\ cfgs' = StepAll(cfgs, b)
Next == \E b \in Alphabet : Feed(b)
Spec == Init /\ [][Next]_vars

Outs == UNION { Finish(c) : c \in cfgs }
RECURSIVE IsSubseq(_, _, _, _)
IsSubseq(a, i, b, j) == IF i > Len(a) THEN TRUE ELSE IF j > Len(b) THEN FALSE
                        ELSE IF a[i] = b[j] THEN IsSubseq(a, i + 1, b, j + 1) ELSE IsSubseq(a, i, b, j + 1)
Count(s, P(_)) == Cardinality({ k \in 1..Len(s) : P(s[k]) })
\* sanity properties of the reference itself
TypeOK == cfgs # {} /\ \A c \in cfgs : c.m \in {"code", "slash", "str", "esc", "line", "block", "star"}
OnlyRemoves == \A o \in Outs : IsSubseq(o, 1, inp, 1)
BreaksKept == \A o \in Outs : Count(o, IsBreak) = Count(inp, IsBreak)
NoSlashIdentity == (\A k \in 1..Len(inp) : inp[k] # SL) => Outs = {inp}
Consistency == Outs = Allowed(inp)
================================================================================
