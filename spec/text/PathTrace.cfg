SPECIFICATION TSpec
CONSTANTS N = 0
 Alphabet = {}
