------------------------------ MODULE SpawnTrace ------------------------------
(* Trace specification: every child started through the real Process (harness/proc, op "spawn"), judged against
   Spawn.                                                                                                     *)
EXTENDS Spawn, Json, IOUtils
VARIABLES l, nbad
T == ndJsonDeserialize(IOEnv.TRACE)
TInit == l = 1 /\ nbad = 0 /\ st = <<>> /\ last = 0
TStep ==
  /\ l <= Len(T)
  /\ l' = l + 1
  /\ UNCHANGED <<st, last>>
  /\ LET e == T[l]
         why == IF e.op = "spawn" THEN SpawnWhy(e) ELSE IF e.op = "spawn2" THEN Spawn2Why(e) ELSE IF e.op = "spawnlate" THEN SpawnLateWhy(e) ELSE "ok"
     IN IF why = "ok" THEN UNCHANGED nbad
        ELSE PrintT(<<"MISMATCH", l, why>>) /\ nbad' = nbad + 1
TDone == l = Len(T) + 1 /\ PrintT(<<"TRACE-DONE", Len(T), nbad>>) /\ l' = l + 1 /\ UNCHANGED <<st, last, nbad>>
TNext == TStep \/ TDone
TSpec == TInit /\ [][TNext]_<<vars, l, nbad>>
================================================================================
