SPECIFICATION Spec
CONSTANTS MaxLen = 5
 Alphabet = {60, 62, 47, 61, 34, 33, 45, 63, 97, 98, 32, 10}
 Bugs = {}
INVARIANTS CursorInside NoOverrun NoHang NoStuck Total ErrInside LineTrue StackBound
