----------------------------- MODULE CalendarTrace -----------------------------
(* Trace specification for the calendar part of X03: events logged by harness/logtime from the real nstd::Time.
     reset                      the day cursor of the driver is 1970-01-01
     seek n                     the cursor is put on day n (Layer-1 state by the closed form, which TLC has checked)
     next / prev  sod ms        cursor one day on / back; Time((cursor * 86400 + sod) * 1000 + ms, utc) decomposed:
                                judged by the DEFINITION (NextDay / PrevDay of the Layer-1 state), plus toTimestamp()
     time  q r sod ms           the same for an arbitrary int64 timestamp, judged by the closed forms (CivilBig), which
                                TLC has checked against the definition over a full 400-year cycle
     mk    y m d H M S wd yd    a Time filled in by hand, toTimestamp(); judged only when the fields are a consistent
                                valid date (ndom counts those)
     str   q r sod ms fmt       Time::toString (static and member) in the modelled strftime subset
   Timestamps are logged as q, r, sod, ms with t = ((q * 146097 + r) * 86400 + sod) * 1000 + ms (floor decomposition). *)
EXTENDS Calendar, Json, IOUtils
VARIABLES l, nbad, ndom
T == ndJsonDeserialize(IOEnv.TRACE)

ObsFields(e) == [year |-> e.year, month |-> e.month, day |-> e.day, hour |-> e.hour, min |-> e.min, sec |-> e.sec,
                 wday |-> e.wday, yday |-> e.yday]
ObsStamp(e) == [q |-> e.tq, r |-> e.tr, sod |-> e.tsod]
\* by the closed forms
TimeOK(e) == \E mo \in Moments(e.q, e.r, e.sod, e.ms) :
                /\ ObsFields(e) = Fields(mo)
                /\ ObsStamp(e) = mo /\ e.tms = 0            \* toTimestamp() gives back the (whole) second
                /\ e.utc
\* by the definition: c = the Layer-1 day the cursor is on
DayFields(c, sod) == [year |-> c.y, month |-> c.m, day |-> c.d, hour |-> sod \div 3600, min |-> (sod % 3600) \div 60,
                      sec |-> sod % 60, wday |-> c.wd, yday |-> c.yd]
DayStamp(c, sod) == [q |-> c.n \div Cycle, r |-> c.n % Cycle, sod |-> sod]
WalkOK(c, e) ==
  LET cands == {<<c, e.sod>>} \cup
               (IF c.n < 0 /\ e.ms > 0 THEN {IF e.sod < 86399 THEN <<c, e.sod + 1>> ELSE <<NextDay(c), 0>>} ELSE {})
  IN /\ e.q = c.n \div Cycle /\ e.r = c.n % Cycle               \* driver and spec agree on where the cursor is
     /\ \E x \in cands : ObsFields(e) = DayFields(x[1], x[2]) /\ ObsStamp(e) = DayStamp(x[1], x[2]) /\ e.tms = 0 /\ e.utc
MkDomain(e) == /\ ValidCivil(e.y, e.m, e.d) /\ e.H \in 0..23 /\ e.M \in 0..59 /\ e.S \in 0..59
               /\ LET c == CivilFromDays(DaysFromCivil(e.y % 400, e.m, e.d)) IN e.wd = c.wd /\ e.yd = c.yd
MkOK(e) == MkDomain(e) => /\ <<e.tq, e.tr>> = DaysBig(e.y, e.m, e.d)
                          /\ e.tsod = e.H * 3600 + e.M * 60 + e.S /\ e.tms = 0
StrOK(e) == \/ \A mo \in Moments(e.q, e.r, e.sod, e.ms) : ~StrfDefined(e.fmt, mo)
            \/ \E mo \in Moments(e.q, e.r, e.sod, e.ms) :
                  StrfDefined(e.fmt, mo) /\ e.text = StrfTime(e.fmt, mo) /\ e.mtext = e.text

TInit == l = 1 /\ nbad = 0 /\ ndom = 0 /\ st = Epoch
TStep ==
  /\ l <= Len(T)
  /\ l' = l + 1
  /\ LET e == T[l]
         c == IF e.op = "next" THEN NextDay(st) ELSE IF e.op = "prev" THEN PrevDay(st) ELSE IF e.op = "reset" THEN Epoch
              ELSE IF e.op = "seek" THEN CivilFromDays(e.n) ELSE st
         ok == CASE e.op \in {"next", "prev"} -> WalkOK(c, e)
                 [] e.op = "time" -> TimeOK(e)
                 [] e.op = "mk" -> MkOK(e)
                 [] e.op = "str" -> StrOK(e)
                 [] OTHER -> TRUE
     IN /\ st' = c
        /\ ndom' = IF e.op = "mk" /\ MkDomain(e) THEN ndom + 1 ELSE ndom
        /\ IF ok THEN UNCHANGED nbad ELSE PrintT(<<"MISMATCH", l, e.op>>) /\ nbad' = nbad + 1
TDone == l = Len(T) + 1 /\ PrintT(<<"TRACE-DONE", Len(T), nbad, ndom>>) /\ l' = l + 1 /\ UNCHANGED <<st, nbad, ndom>>
TNext == TStep \/ TDone
TSpec == TInit /\ [][TNext]_<<st, l, nbad, ndom>>
================================================================================
