SPECIFICATION ISpec
CONSTANTS Chars = {45, 97, 98, 61, 118}
 NW = 3
 WL = 2
 Fixed = TRUE
INVARIANTS CursorOK Refines Terminates
