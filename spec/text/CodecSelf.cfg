SPECIFICATION Spec
INVARIANT Laws
