SPECIFICATION Spec
CONSTANTS U <- U_flat
 Pats <- Pats_small
 Raws = {}
 Xs = {0}
 Ms = {1500}
 OpsOn = {"fsmode", "mkdir", "mkfile", "mklink", "rm", "dopen", "dread", "dclose"}
INVARIANT TypeOK
PROPERTIES PurgeSafe QueriesPure ListSound
VIEW View
