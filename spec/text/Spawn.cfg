SPECIFICATION Spec
INVARIANT WellFormed
