SPECIFICATION Spec
CONSTANTS N = 2
 Names <- NamesDef1
 ExplicitEnv <- ExplicitEnvDef
 Vals = {"", "1"}
 Codes = {7}
 WaitSets <- WaitSetsDef
INVARIANT TypeOK
PROPERTY NoLostChild
PROPERTY IntrConsumedByWait
PROPERTY WaitReturnsTerminated
PROPERTY PidStable
VIEW StView
