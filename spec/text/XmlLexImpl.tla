------------------------------ MODULE XmlLexImpl ------------------------------
(* Layer 2 (implementation shaped) for the totality/safety clause of property C16: an acceptor that mirrors
   src/Document/Xml.cpp micro-step by micro-step: skipSpace (white space and comments), readToken, the processing
   instruction loop of parse(), parseElement (attribute loop, content loop with the cursor rewind before text,
   end tag) and parseText.

   s.text           bytes of the caller's text known so far (terminator = byte 0); in exploration mode bytes that can
                    never be read again are blanked (95), line breaks are kept
   s.pos/line/ls    Private::pos (pointer as offset, line, lineStart as offset)
   s.pc             control location; s.ret = where skipSpace returns to; s.k = what follows a completed readToken
   s.stack          names of the open elements (innermost last) = the active parseElement invocations
   s.tokt/tokv      token type and (for names) value; s.tp = token.pos as <<offset, line, lineStart>>
   s.saved          the Position saved by the content loop before readToken (<<>> when none is pending)
   s.ce             Private::commentEnd: where the last comment skipped since then ended (only tracked while saved is
                    pending -- an older value is never in front of the saved position)
   s.sc             scan offset of findOneOf / the name loop;  s.q = quote character of a string token
   s.ts             `start` of parseText;  s.lh = cursor at the previous pass through the content-loop head

   When the machine needs a byte beyond the terminator it enters "overrun"; when the content loop comes round without
   having consumed anything it enters "stuck" (the progress measure: every iteration consumes input).
   The model mirrors the code WITH the fixes; Bugs re-introduces the original behaviour (binding self-test):
     "cmttext"  a comment directly before text: readToken skips the comment, the cursor is rewound in front of it and
                parseText returns an empty text at the '<' -- for ever (NoStuck violated, witness <-><!---->>);
                the fix rewinds to the end of the last comment instead (Private::commentEnd)
     "pilf"     a line break inside a processing instruction is stepped over without counting the line (LineTrue and
                ErrInside violated, witness  <? LF ?> =  : error at line 1, column 6, but line 1 has two bytes)    *)
EXTENDS Integers, Sequences, FiniteSets, TLC, TextPos

CONSTANTS MaxLen, Alphabet, Bugs

LT == 60  GT == 62  SLASH == 47  EQ == 61  DQ == 34  SQ == 39  BANG == 33  DASH == 45  QM == 63
IsSpace(c) == (c >= 9 /\ c <= 13) \/ c = 32
CmtOpen == <<BANG, DASH, DASH>>        \* compared after '<'
CmtClose == <<DASH, GT>>               \* compared after '-'

Start(text) == [text |-> text, pos |-> 0, line |-> 1, ls |-> 0, pc |-> "init", ret |-> "", k |-> "", stack |-> <<>>,
                tokt |-> "", tokv |-> <<>>, tp |-> <<0, 1, 0>>, saved |-> <<>>, ce |-> <<0, 1, 0>>, sc |-> 0, q |-> 0, pi |-> <<>>,
                ts |-> 0, lh |-> -1, errLine |-> 0, errCol |-> 0]

Ended(s) == Len(s.text) > 0 /\ s.text[Len(s.text)] = 0
Terminal(s) == s.pc \in {"accept", "reject", "overrun", "hang", "stuck"}
At(s, off) == s.text[off + 1]
Cur(s) == At(s, s.pos)
Has(s, off) == off < Len(s.text)
PosOf(s) == <<s.pos, s.line, s.ls>>

\* Private::syntaxError(position): line = position.line, column = position.pos - position.lineStart + 1
SetErr(s, p) == [s EXCEPT !.errLine = p[2], !.errCol = p[1] - p[3] + 1]
Reject(s, p) == [SetErr(s, p) EXCEPT !.pc = "reject"]
Adv(s, n) == [s EXCEPT !.pos = s.pos + n]
NewLine(s) == [s EXCEPT !.line = s.line + 1, !.ls = s.pos]          \* after the cursor has been moved behind the break
SkipSpace(s, ret) == [s EXCEPT !.pc = "sp", !.ret = ret]
ReadToken(s, k) == [SkipSpace(s, "tok") EXCEPT !.k = k]
\* readToken() returned false: everywhere but in the content loop the parse fails with the error readToken has set
\* (in the content loop the text then simply does not start with a token: unless the input has ended the cursor goes back to
\* the saved position / the end of the last comment, as after a token that is neither tag start nor tag end, so that white
\* space in front of text such as " /usr/bin" stays part of it; Bugs "norewind" = the code as found, which went on where
\* the failed look-ahead had stopped)
TokFail(s, p) ==
  IF s.k # "cont" THEN Reject(s, p)
  ELSE IF "norewind" \in Bugs \/ Cur(s) = 0 THEN [SetErr(s, p) EXCEPT !.pc = "ptext_start", !.saved = <<>>, !.ce = <<0, 1, 0>>]
  ELSE LET to == IF "cmttext" \notin Bugs /\ s.ce[1] > s.saved[1] THEN s.ce ELSE s.saved IN
       [SetErr(s, p) EXCEPT !.pos = to[1], !.line = to[2], !.ls = to[3], !.saved = <<>>, !.ce = <<0, 1, 0>>, !.pc = "ptext_start"]
TokOk(s, t, n) == [Adv(s, n) EXCEPT !.tokt = t, !.pc = "disp"]

\* strncmp(text + off, kw, Len(kw)): "eq" / "ne", or "need" when the deciding byte has not been supplied yet
RECURSIVE Cmp(_, _, _, _)
Cmp(s, off, kw, i) == IF i > Len(kw) THEN "eq"
                      ELSE IF ~Has(s, off + i - 1) THEN "need"
                      ELSE IF At(s, off + i - 1) # kw[i] THEN "ne" ELSE Cmp(s, off, kw, i + 1)
RECURSIVE CmpNeed(_, _, _, _)
CmpNeed(s, off, kw, i) == IF i > Len(kw) THEN -1
                          ELSE IF ~Has(s, off + i - 1) THEN off + i - 1
                          ELSE IF At(s, off + i - 1) # kw[i] THEN -1 ELSE CmpNeed(s, off, kw, i + 1)

ElementDone(s) == LET t == [s EXCEPT !.stack = SubSeq(s.stack, 1, Len(s.stack) - 1)] IN
                  IF t.stack = <<>> THEN [t EXCEPT !.pc = "accept"] ELSE [t EXCEPT !.pc = "cont_head"]

\* readToken() has returned true
Dispatch(s) ==
  CASE s.k = "top"      -> IF s.tokt # "stb" THEN Reject(s, s.tp) ELSE ReadToken(s, "pe_name")
    [] s.k = "pe_name"  -> IF s.tokt # "name" THEN Reject(s, s.tp)
                           ELSE ReadToken([s EXCEPT !.stack = Append(s.stack, s.tokv), !.tokv = <<>>], "attr")
    [] s.k = "attr"     -> IF s.tokt = "ete" THEN ElementDone(s)
                           ELSE IF s.tokt = "te" THEN [s EXCEPT !.pc = "cont_head"]
                           ELSE IF s.tokt = "name" THEN ReadToken([s EXCEPT !.tokv = <<>>], "attr_eq")
                           ELSE ReadToken(s, "attr")
    [] s.k = "attr_eq"  -> IF s.tokt # "eq" THEN Reject(s, s.tp) ELSE ReadToken(s, "attr_val")
    [] s.k = "attr_val" -> IF s.tokt # "str" THEN Reject(s, s.tp) ELSE ReadToken(s, "attr")
    [] s.k = "cont"     -> IF s.tokt = "etb" THEN ReadToken([s EXCEPT !.saved = <<>>, !.ce = <<0, 1, 0>>], "end_name")
                           ELSE IF s.tokt = "stb" THEN ReadToken([s EXCEPT !.saved = <<>>, !.ce = <<0, 1, 0>>], "pe_name")
                           ELSE LET to == IF "cmttext" \notin Bugs /\ s.ce[1] > s.saved[1] THEN s.ce ELSE s.saved IN
                                [s EXCEPT !.pos = to[1], !.line = to[2], !.ls = to[3], !.saved = <<>>, !.ce = <<0, 1, 0>>,
                                          !.tokv = <<>>, !.pc = "ptext_start"]
    [] s.k = "end_name" -> IF s.tokt # "name" THEN Reject(s, s.tp)
                           ELSE IF s.tokv # s.stack[Len(s.stack)] THEN Reject([s EXCEPT !.tokv = <<>>], s.tp)
                           ELSE ReadToken([s EXCEPT !.tokv = <<>>], "end_te")
    [] s.k = "end_te"   -> IF s.tokt # "te" THEN Reject(s, s.tp) ELSE ElementDone(s)

\* the highest offset the next micro-step reads (-1: none)
Need(s) ==
  CASE s.pc \in {"init", "disp", "cont_head", "ptext_start"} -> -1
    [] s.pc = "pi_check" -> IF Has(s, s.pos) /\ Cur(s) = LT THEN s.pos + 1 ELSE s.pos
    [] s.pc = "pi"       -> IF Has(s, s.pos) /\ Cur(s) = QM THEN s.pos + 1 ELSE s.pos
    [] s.pc = "tok"      -> IF Has(s, s.pos) /\ Cur(s) \in {LT, SLASH} THEN s.pos + 1 ELSE s.pos
    [] s.pc \in {"strscan", "name"} -> s.sc
    [] s.pc = "sp"       -> IF Has(s, s.pos) /\ Cur(s) = LT THEN (LET n == CmpNeed(s, s.pos + 1, CmtOpen, 1) IN IF n = -1 THEN s.pos ELSE n) ELSE s.pos
    [] s.pc = "cmt"      -> IF Has(s, s.pos) /\ Cur(s) = DASH THEN (LET n == CmpNeed(s, s.pos + 1, CmtClose, 1) IN IF n = -1 THEN s.pos ELSE n) ELSE s.pos
    [] OTHER             -> s.pos

Micro(s) ==
  CASE s.pc = "init" -> SkipSpace(s, "pi_check")
    [] s.pc = "pi_check" ->                                \* while(*pos.pos == '<' && pos.pos[1] == '?')
         IF Cur(s) = LT /\ At(s, s.pos + 1) = QM THEN [Adv(s, 2) EXCEPT !.pi = PosOf(s), !.pc = "pi"]
         ELSE ReadToken([s EXCEPT !.pi = <<>>], "top")
    [] s.pc = "pi" ->                                      \* findOneOf(pos.pos, "\r\n?")
         LET c == Cur(s) IN
         IF c = 0 THEN Reject(s, s.pi)
         ELSE IF c = 13 \/ c = 10 THEN (IF "pilf" \in Bugs THEN SkipSpace(Adv(s, 1), "pi") ELSE SkipSpace(s, "pi"))
         ELSE IF c = QM THEN (IF At(s, s.pos + 1) = GT THEN SkipSpace(Adv(s, 2), "pi_check") ELSE SkipSpace(Adv(s, 1), "pi"))
         ELSE Adv(s, 1)
    [] s.pc = "sp" ->                                      \* skipSpace
         LET c == Cur(s) IN
         IF c = 13 THEN [Adv(s, 1) EXCEPT !.pc = "sp_cr"]
         ELSE IF c = 10 THEN NewLine(Adv(s, 1))
         ELSE IF c = LT /\ Cmp(s, s.pos + 1, CmtOpen, 1) = "eq" THEN [Adv(s, 4) EXCEPT !.pc = "cmt"]
         ELSE IF IsSpace(c) THEN Adv(s, 1)
         ELSE [s EXCEPT !.pc = s.ret, !.ret = ""]
    [] s.pc = "sp_cr" -> [NewLine(IF Cur(s) = 10 THEN Adv(s, 1) ELSE s) EXCEPT !.pc = "sp"]
    [] s.pc = "cmt" ->                                     \* findOneOf(pos.pos, "-\n\r") inside a comment
         LET c == Cur(s) IN
         IF c = 0 THEN [s EXCEPT !.pc = s.ret, !.ret = ""]                \* unterminated comment: skipSpace returns at the end
         ELSE IF c = 13 THEN [Adv(s, 1) EXCEPT !.pc = "cmt_cr"]
         ELSE IF c = 10 THEN NewLine(Adv(s, 1))
         ELSE IF c = DASH /\ Cmp(s, s.pos + 1, CmtClose, 1) = "eq"
              THEN LET t == Adv(s, 3) IN [t EXCEPT !.pc = "sp", !.ce = IF s.saved # <<>> THEN PosOf(t) ELSE s.ce]
         ELSE Adv(s, 1)
    [] s.pc = "cmt_cr" -> [NewLine(IF Cur(s) = 10 THEN Adv(s, 1) ELSE s) EXCEPT !.pc = "cmt"]
    [] s.pc = "tok" ->                                     \* readToken after skipSpace: token.pos = pos; switch(*pos.pos)
         LET c == Cur(s) t == [s EXCEPT !.tp = PosOf(s)] IN
         IF c = LT THEN (IF At(s, s.pos + 1) = SLASH THEN TokOk(t, "etb", 2) ELSE TokOk(t, "stb", 1))
         ELSE IF c = GT THEN TokOk(t, "te", 1)
         ELSE IF c = 0 THEN TokFail(t, PosOf(s))
         ELSE IF c = EQ THEN TokOk(t, "eq", 1)
         ELSE IF c = DQ \/ c = SQ THEN [t EXCEPT !.pc = "strscan", !.q = c, !.sc = s.pos + 1]
         ELSE IF c = SLASH /\ At(s, s.pos + 1) = GT THEN TokOk(t, "ete", 2)
         ELSE [t EXCEPT !.pc = "name", !.sc = s.pos]
    [] s.pc = "strscan" ->                                 \* findOneOf(pos.pos + 1, {quote, '\r', '\n'})
         LET c == At(s, s.sc) IN
         IF c = 0 \/ c = 13 \/ c = 10 THEN TokFail([s EXCEPT !.q = 0, !.sc = 0], PosOf(s))
         ELSE IF c = s.q THEN [s EXCEPT !.pos = s.sc + 1, !.tokt = "str", !.pc = "disp", !.q = 0, !.sc = 0]
         ELSE [s EXCEPT !.sc = s.sc + 1]
    [] s.pc = "name" ->
         LET c == At(s, s.sc) IN
         IF c = 0 \/ c = SLASH \/ c = GT \/ c = EQ \/ IsSpace(c)
         THEN (IF s.sc = s.pos THEN TokFail([s EXCEPT !.sc = 0], PosOf(s))
               ELSE [s EXCEPT !.tokv = SubSeq(s.text, s.pos + 1, s.sc), !.pos = s.sc, !.tokt = "name", !.pc = "disp", !.sc = 0])
         ELSE [s EXCEPT !.sc = s.sc + 1]
    [] s.pc = "disp" -> Dispatch(s)
    [] s.pc = "cont_head" ->                               \* for(;;) { Position pos = this->pos; if(readToken()) ...
         IF s.pos = s.lh THEN [s EXCEPT !.pc = "stuck"]
         ELSE ReadToken([s EXCEPT !.saved = PosOf(s), !.lh = s.pos], "cont")
    [] s.pc = "ptext_start" -> [s EXCEPT !.ts = s.pos, !.pc = "ptext"]
    [] s.pc = "ptext" ->                                   \* findOneOf(pos.pos, "<\r\n")
         LET c == Cur(s) IN
         IF c = 0 THEN Reject(s, PosOf(s))
         ELSE IF c = 13 THEN [Adv(s, 1) EXCEPT !.pc = "ptext_cr"]
         ELSE IF c = 10 THEN NewLine(Adv(s, 1))
         ELSE IF c = LT THEN [s EXCEPT !.pc = "cont_head", !.ts = 0]
         ELSE Adv(s, 1)
    [] s.pc = "ptext_cr" -> [NewLine(IF Cur(s) = 10 THEN Adv(s, 1) ELSE s) EXCEPT !.pc = "ptext"]

RECURSIVE Run(_, _)
Run(s, fuel) ==
  IF Terminal(s) THEN s
  ELSE IF Need(s) >= Len(s.text) THEN (IF Ended(s) THEN [s EXCEPT !.pc = "overrun"] ELSE s)
  ELSE IF fuel = 0 THEN [s EXCEPT !.pc = "hang"]
  ELSE Run(Micro(s), fuel - 1)
RECURSIVE RunSome(_, _)
RunSome(s, fuel) ==
  IF Terminal(s) \/ fuel = 0 THEN s
  ELSE IF Need(s) >= Len(s.text) THEN [s EXCEPT !.pc = "overrun"]
  ELSE RunSome(Micro(s), fuel - 1)

\* bytes in front of the cursor and of a pending saved position can never be read again: forget them (keep line breaks)
Frontier(s) == IF s.saved = <<>> THEN s.pos ELSE IF s.saved[1] < s.pos THEN s.saved[1] ELSE s.pos
\* ... and so can the bytes a string / name scan has already passed when the token value is of no consequence (the value
\* of a name matters for start and end tags; inside element content the bytes are read again as text after the rewind)
ScanDone(s, i) == \/ s.pc = "strscan" /\ s.k # "cont" /\ i > s.pos + 1 /\ i <= s.sc
                  \/ s.pc = "name" /\ s.k \in {"top", "attr", "attr_eq", "attr_val", "end_te"} /\ i > s.pos /\ i <= s.sc
Blanked(s) == [s EXCEPT !.text = [i \in 1..Len(s.text) |-> IF (i <= Frontier(s) \/ ScanDone(s, i)) /\ s.text[i] \notin {0, 10, 13} THEN 95 ELSE s.text[i]]]

--------------------------------------------------------------------------------
VARIABLE m
Init == m = Start(<<>>)
Feed(b) == /\ ~Terminal(m) /\ ~Ended(m)
           /\ (b = 0 \/ Len(m.text) < MaxLen)
           /\ m' = Blanked(Run([m EXCEPT !.text = Append(m.text, b)], 12 * (MaxLen + 3)))
Next == \E b \in Alphabet \cup {0} : Feed(b)
Spec == Init /\ [][Next]_m

TextOf(s) == IF Ended(s) THEN SubSeq(s.text, 1, Len(s.text) - 1) ELSE s.text
CursorInside == m.pos <= Len(m.text) /\ (Ended(m) => m.pos <= Len(m.text) - 1) /\ m.ls <= m.pos
NoOverrun == m.pc # "overrun"
NoHang == m.pc # "hang"
NoStuck == m.pc # "stuck"                     \* progress measure of the content loop
Total == Ended(m) => m.pc \in {"accept", "reject"}
ErrInside == m.pc = "reject" => PosInside(TextOf(m), m.errLine, m.errCol)
\* line / lineStart are the true line number and line start of the cursor
LineTrue == m.pc \in {"sp_cr", "cmt_cr", "ptext_cr"} \/ Terminal(m)
            \/ (m.line = LineOfOffset(TextOf(m), m.pos) /\ m.pos - m.ls + 1 = ColOfOffset(TextOf(m), m.pos))
StackBound == Len(m.stack) <= m.pos
================================================================================
