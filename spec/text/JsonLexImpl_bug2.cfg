SPECIFICATION Spec
CONSTANTS MaxLen = 7
 Alphabet = {34, 92, 49, 10}
 Bugs = {"esclf"}
INVARIANTS TypeOK CursorInside NoOverrun NoHang Total ErrInside StackBound
