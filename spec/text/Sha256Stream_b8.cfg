SPECIFICATION Spec
CONSTANTS B = 8
 L = 2
 MaxLen = 18
 MaxChunk = 9
 Bytes = {1}
INVARIANT Prefix
INVARIANT PadShape
INVARIANT DigestOK
