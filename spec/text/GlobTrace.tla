-------------------------------- MODULE GlobTrace --------------------------------
(* Trace specification for the wildcard matcher szWildMatch7 (Win32 branch of Directory::read), run by harness/dirlist
   on the function text extracted from the tree under test: the result must be DirList!GlobR with letter case ignored
   (r = -1: the function could not be extracted; not judged).                                                    *)
EXTENDS DirList, Json, IOUtils
VARIABLES l, nbad
T == ndJsonDeserialize(IOEnv.TRACE)
TInit == l = 1 /\ nbad = 0 /\ st = Init0 /\ last = 0
TStep == /\ l <= Len(T) /\ l' = l + 1 /\ UNCHANGED vars
         /\ LET e == T[l] IN
            IF e.op = "reset" \/ e.r = -1 \/ e.r = (IF GlobR(e.pat, 1, e.str, 1, TRUE) THEN 1 ELSE 0) THEN UNCHANGED nbad
            ELSE PrintT(<<"MISMATCH", l, e.op>>) /\ nbad' = nbad + 1
TDone == l = Len(T) + 1 /\ PrintT(<<"TRACE-DONE", Len(T), nbad>>) /\ l' = l + 1 /\ UNCHANGED <<nbad, vars>>
TSpec == TInit /\ [][TStep \/ TDone]_<<l, nbad, vars>>
================================================================================
