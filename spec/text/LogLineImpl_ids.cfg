SPECIFICATION Spec
CONSTANTS MaxLen = 2
 Alphabet = {37, 80, 84, 108, 116, 109}
 Thresholds = {10, 50}
 Levels = {10, 20, 30, 40, 50, 51}
 Guarded = TRUE
INVARIANTS StateAgrees NoOverread OneLine
PROPERTY Refines
