------------------------------- MODULE Calendar -------------------------------
(* Extra X03, second part: the calendar decomposition of nstd::Time (utc only).

   LAYER 1 (the definition).  The proleptic Gregorian calendar is the successor structure on days that starts at
   Thursday 1970-01-01 (day number 0): after the last day of a month comes the first day of the next month, months have
   31/30/28 days, February has 29 in leap years (divisible by 4 and not by 100, or divisible by 400; astronomical year
   numbering, year 0 exists - what struct tm / gmtime use).  The state of the stand-alone model is one day
       [n |-> day number, y, m, d, wd |-> day of week (0 = Sunday), yd |-> day of year (0 = 1 January)]
   and its actions Do("next") / Do("prev") walk the calendar one day at a time.

   CLOSED FORMS (implementation shaped, "Layer 2" of this part): CivilFromDays / DaysFromCivil (the era / day-of-era
   arithmetic) compute the same thing directly.  TLC checks them against the definition on every day of the bounded
   model (invariant Closed; with DayRange >= 146097 that is a full 400-year cycle in both directions), and they are
   400-year periodic by construction, so the BIG variants below, which carry the day number as the pair
   <<q, r>> = q * 146097 + r (0 <= r < 146097), are exact for every q.  TLC's integers are 32 bit: a timestamp in
   milliseconds (int64) is therefore carried as q, r, sod (second of the day) and ms; |q| <= 730692 for an int64.

   What the statement leaves open and this module keeps nondeterministic:
     * Time(int64 ms) for a NEGATIVE timestamp that is not a whole second: the code divides by 1000 (C++ division
       truncates towards zero: -1 ms is 1970-01-01 00:00:00), the mathematically natural reading is the floor
       (1969-12-31 23:59:59).  Nothing documents either; Moments() allows both.
     * dst for a utc time (logged, not judged).                                                                      *)
EXTENDS Integers, Sequences, SequencesExt, TLC

IsLeap(y) == (y % 4 = 0 /\ y % 100 # 0) \/ y % 400 = 0
DaysInMonth(y, m) == IF m = 2 THEN (IF IsLeap(y) THEN 29 ELSE 28) ELSE IF m \in {4, 6, 9, 11} THEN 30 ELSE 31
DaysInYear(y) == IF IsLeap(y) THEN 366 ELSE 365
Cycle == 146097                       \* days in 400 years (a multiple of 7)

Epoch == [n |-> 0, y |-> 1970, m |-> 1, d |-> 1, wd |-> 4, yd |-> 0]
NextDay(c) ==
  IF c.d < DaysInMonth(c.y, c.m) THEN [c EXCEPT !.n = @ + 1, !.d = @ + 1, !.wd = (@ + 1) % 7, !.yd = @ + 1]
  ELSE IF c.m < 12 THEN [c EXCEPT !.n = @ + 1, !.m = @ + 1, !.d = 1, !.wd = (@ + 1) % 7, !.yd = @ + 1]
  ELSE [c EXCEPT !.n = @ + 1, !.y = @ + 1, !.m = 1, !.d = 1, !.wd = (@ + 1) % 7, !.yd = 0]
PrevDay(c) ==
  IF c.d > 1 THEN [c EXCEPT !.n = @ - 1, !.d = @ - 1, !.wd = (@ + 6) % 7, !.yd = @ - 1]
  ELSE IF c.m > 1 THEN [c EXCEPT !.n = @ - 1, !.m = @ - 1, !.d = DaysInMonth(c.y, c.m - 1), !.wd = (@ + 6) % 7, !.yd = @ - 1]
  ELSE [c EXCEPT !.n = @ - 1, !.y = @ - 1, !.m = 12, !.d = 31, !.wd = (@ + 6) % 7, !.yd = DaysInYear(c.y - 1) - 1]

\* --- closed forms (TLC's \div and % are floor division / non-negative remainder) ----------------------------------
DaysFromCivil(y, m, d) ==
  LET yy == IF m <= 2 THEN y - 1 ELSE y
      era == yy \div 400
      yoe == yy % 400
      doy == (153 * (IF m > 2 THEN m - 3 ELSE m + 9) + 2) \div 5 + d - 1
      doe == yoe * 365 + yoe \div 4 - yoe \div 100 + doy
  IN era * Cycle + doe - 719468
YearDay(y, m, d) == DaysFromCivil(y, m, d) - DaysFromCivil(y, 1, 1)
WeekDay(z) == (z + 4) % 7
CivilFromDays(z0) ==
  LET z == z0 + 719468
      era == z \div Cycle
      doe == z % Cycle
      yoe == (doe - doe \div 1460 + doe \div 36524 - doe \div 146096) \div 365
      doy == doe - (365 * yoe + yoe \div 4 - yoe \div 100)
      mp == (5 * doy + 2) \div 153
      d == doy - (153 * mp + 2) \div 5 + 1
      m == IF mp < 10 THEN mp + 3 ELSE mp - 9
      y == yoe + era * 400 + (IF m <= 2 THEN 1 ELSE 0)
  IN [n |-> z0, y |-> y, m |-> m, d |-> d, wd |-> WeekDay(z0), yd |-> YearDay(y, m, d)]

\* day number <<q, r>> = q * Cycle + r
CivilBig(q, r) == LET c == CivilFromDays(r) IN [y |-> c.y + 400 * q, m |-> c.m, d |-> c.d, wd |-> c.wd, yd |-> c.yd]
DaysBig(y, m, d) == LET n == DaysFromCivil(y % 400, m, d)            \* |n| < 2^31: y % 400 in 0..399
                        q0 == y \div 400
                    IN <<q0 + n \div Cycle, n % Cycle>>
ValidCivil(y, m, d) == m \in 1..12 /\ d >= 1 /\ d <= DaysInMonth(y, m)

\* a moment = [q, r, sod]; the calendar fields nstd::Time shows for it
Fields(mo) == LET c == CivilBig(mo.q, mo.r)
              IN [year |-> c.y, month |-> c.m, day |-> c.d, hour |-> mo.sod \div 3600, min |-> (mo.sod % 3600) \div 60,
                  sec |-> mo.sod % 60, wday |-> c.wd, yday |-> c.yd]
NextSecond(mo) == IF mo.sod < 86399 THEN [mo EXCEPT !.sod = @ + 1]
                  ELSE IF mo.r < Cycle - 1 THEN [q |-> mo.q, r |-> mo.r + 1, sod |-> 0]
                  ELSE [q |-> mo.q + 1, r |-> 0, sod |-> 0]
\* the second(s) a millisecond timestamp ((q * Cycle + r) * 86400 + sod) * 1000 + ms may be taken to lie in
Moments(q, r, sod, ms) == LET f == [q |-> q, r |-> r, sod |-> sod]
                          IN IF q < 0 /\ ms > 0 THEN {f, NextSecond(f)} ELSE {f}

\* --- the strftime subset used for time texts (the t placeholder of Log, Time::toString): directives Y m d H M S j w,
\* the doubled percent sign, and literal characters
Dig2(n) == <<48 + ((n \div 10) % 10), 48 + (n % 10)>>
Dig3(n) == <<48 + ((n \div 100) % 10)>> \o Dig2(n)
Dig4(n) == <<48 + ((n \div 1000) % 10)>> \o Dig3(n)
TimeDirectives == {89, 109, 100, 72, 77, 83, 106, 119, 37}       \* Y m d H M S j w and the percent sign
\* defined: only known directives, no percent sign at the end, year with four digits (the padding of other years is libc's business)
StrfDefined(fmt, mo) ==
  LET step(acc, c) == IF ~acc.ok THEN acc
                      ELSE IF acc.pend THEN [ok |-> c \in TimeDirectives, pend |-> FALSE]
                      ELSE IF c = 37 THEN [acc EXCEPT !.pend = TRUE] ELSE acc
      r == FoldLeft(step, [ok |-> TRUE, pend |-> FALSE], fmt)
  IN Fields(mo).year \in 1000..9999 /\ r.ok /\ ~r.pend
StrfTime(fmt, mo) ==
  LET f == Fields(mo)
      piece(c) == CASE c = 89 -> Dig4(f.year) [] c = 109 -> Dig2(f.month) [] c = 100 -> Dig2(f.day)
                    [] c = 72 -> Dig2(f.hour) [] c = 77 -> Dig2(f.min) [] c = 83 -> Dig2(f.sec)
                    [] c = 106 -> Dig3(f.yday + 1) [] c = 119 -> <<48 + f.wday>> [] OTHER -> <<37>>
      step(acc, c) == IF acc.pend THEN [txt |-> acc.txt \o piece(c), pend |-> FALSE]
                      ELSE IF c = 37 THEN [acc EXCEPT !.pend = TRUE]
                      ELSE [acc EXCEPT !.txt = Append(@, c)]
  IN FoldLeft(step, [txt |-> <<>>, pend |-> FALSE], fmt).txt

--------------------------------------------------------------------------------
\* Stand-alone model: walk the calendar day by day, DayRange days in both directions; the closed forms agree everywhere.
CONSTANT DayRange
VARIABLES st
vars == <<st>>
Init == st = Epoch
Do(op) == /\ op \in {"next", "prev"}
          /\ IF op = "next" THEN st.n < DayRange /\ st' = NextDay(st) ELSE st.n > -DayRange /\ st' = PrevDay(st)
Next == \E op \in {"next", "prev"} : Do(op)
Spec == Init /\ [][Next]_vars

Closed == /\ CivilFromDays(st.n) = st
          /\ DaysFromCivil(st.y, st.m, st.d) = st.n
          /\ LET q == st.n \div Cycle  r == st.n % Cycle
             IN /\ CivilBig(q, r) = [y |-> st.y, m |-> st.m, d |-> st.d, wd |-> st.wd, yd |-> st.yd]
                /\ DaysBig(st.y, st.m, st.d) = <<q, r>>
                /\ DaysBig(st.y + 400 * 700000, st.m, st.d) = <<q + 700000, r>>
                /\ DaysBig(st.y - 400 * 700000, st.m, st.d) = <<q - 700000, r>>
Shape == /\ ValidCivil(st.y, st.m, st.d) /\ st.wd \in 0..6 /\ st.yd \in 0..(DaysInYear(st.y) - 1)
         /\ (st.m = 1 /\ st.d = 1) <=> st.yd = 0
         /\ (st.m = 12 /\ st.d = 31) <=> st.yd = DaysInYear(st.y) - 1
\* walking back and forth is consistent
BackForth == PrevDay(NextDay(st)) = st /\ NextDay(PrevDay(st)) = st

ASSUME Cycle % 7 = 0
ASSUME CivilFromDays(0) = Epoch /\ DaysFromCivil(2000, 2, 29) = 11016 /\ CivilFromDays(11017).m = 3
ASSUME StrfTime(<<37, 89, 45, 37, 109, 45, 37, 100, 32, 37, 72, 58, 37, 77, 58, 37, 83, 32, 37, 106, 32, 37, 119, 37, 37>>,
                [q |-> 0, r |-> 11016, sod |-> 86399])
         = <<50, 48, 48, 48, 45, 48, 50, 45, 50, 57, 32, 50, 51, 58, 53, 57, 58, 53, 57, 32, 48, 54, 48, 32, 50, 37>>
================================================================================
