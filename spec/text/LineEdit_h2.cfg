SPECIFICATION Spec
CONSTANTS KeyNames = {"a", "e2", "bs", "left", "home", "up", "down", "enter"}
 MaxBuf = 1
 MaxHist = 2
INVARIANT Inv
