SPECIFICATION Spec
CONSTANTS NSlots = 2
 MaxSize = 3
INVARIANT TypeOK
PROPERTY Independent
CONSTRAINT Bound
