------------------------------ MODULE DirReadImpl ------------------------------
(* Layer 2 for extra X01: the POSIX branch of Directory::read (src/Directory.cpp) transcribed branch by branch, run
   over the stream of directory entries that readdir delivers for a flat directory, until it returns false.
   A directory entry is [n = name, ty = d_type ("DIR", "REG", "LNK" or "UNK" = DT_UNKNOWN), sd = stat() says it is a
   directory].  The stream consists of ".", ".." and the children of the listed directory of the Layer-1 tree;
   `unk` chooses whether the file system reports entry types.  fnmatch(pattern, name, 0) is DirList!Glob with exact
   case (true for patterns without '[' and '\').
   Refinement: the entries returned are pairwise different and lie between DirList!Req and Req + Opt.

   Variant = "fixed": the early skip `if(dirsOnly && !isDir) continue;` applies only to entries whose type is known
                      not to need stat() (the form proposed in build/fixes/X01-read-dirsonly-links.patch);
   Variant = "repo":  the form in the repository at the time of writing: the skip also drops symbolic links and
                      entries of unknown type before stat() is asked, which makes `else if(dirsOnly) continue;`
                      unreachable -- Refines is violated (dirsOnly loses links to directories, and every directory
                      when the file system does not report types).  tools/props/x01.py runs the variant whose
                      shape it finds in the source as must-pass = FALSE information only; the verdict about the real
                      code comes from the Layer-1 trace validation.                                              *)
EXTENDS DirList

CONSTANTS Names, PatsL2, Variant

VARIABLES tree, pattern, dirsOnly, unk,     \* the scenario (never changes)
          i, out, done                      \* position in the stream, entries returned so far, read() returned false
lvars == <<tree, pattern, dirsOnly, unk, i, out, done>>

KindsL2 == {"dir", "file", "linkF", "linkD", "linkX"}
TypeOf(k) == IF k = "dir" THEN "DIR" ELSE IF k = "file" THEN "REG" ELSE "LNK"
Dirent(n, k) == [n |-> n, ty |-> IF unk THEN "UNK" ELSE TypeOf(k), sd |-> k \in {"dir", "linkD"}]
\* a fixed order of the names (the loop treats every entry on its own)
RECURSIVE SeqOf(_)
SeqOf(S) == IF S = {} THEN <<>> ELSE LET x == CHOOSE x \in S : TRUE IN <<x>> \o SeqOf(S \ {x})
Stream == <<Dirent(<<DOT>>, "dir"), Dirent(DOTDOT, "dir")>> \o
          [j \in 1..Len(SeqOf(DOMAIN tree)) |-> LET x == SeqOf(DOMAIN tree)[j] IN Dirent(x[1], tree[x].t)]

LInit == /\ \E present \in SUBSET Names :
              tree \in [{ <<n>> : n \in present } -> { IF k = "file" THEN FileN(0, 1500) ELSE LinkN(k) : k \in KindsL2 }]
         /\ pattern \in PatsL2 /\ dirsOnly \in BOOLEAN /\ unk \in BOOLEAN
         /\ i = 1 /\ out = <<>> /\ done = FALSE
         /\ st = Init0 /\ last = 0
\* one iteration of   for(;;) { dent = readdir(dp); if(!dent) break; ... }   -- Ret: the call returns this entry
Iter ==
  /\ ~done /\ UNCHANGED <<tree, pattern, dirsOnly, unk, vars>>
  /\ IF i > Len(Stream) THEN done' = TRUE /\ UNCHANGED <<i, out>>                          \* if(!dent) break; return false
     ELSE LET de == Stream[i]
              str == de.n
              isDir0 == de.ty = "DIR"                                                     \* isDir = dent->d_type == DT_DIR;
              earlySkip == IF Variant = "repo" THEN dirsOnly /\ ~isDir0
                           ELSE dirsOnly /\ ~isDir0 /\ de.ty # "LNK" /\ de.ty # "UNK"
              needStat == ~isDir0 /\ de.ty \in {"LNK", "UNK"}
              isDir1 == IF needStat /\ de.sd THEN TRUE ELSE isDir0
              lateSkip == needStat /\ ~de.sd /\ dirsOnly                                  \* else if(dirsOnly) continue;
              dotSkip == isDir1 /\ str \in {<<DOT>>, DOTDOT}
              ret == [n |-> str, d |-> isDir1]
          IN /\ i' = i + 1 /\ UNCHANGED done
             /\ IF ~(pattern = <<>> \/ Glob(pattern, str, FALSE)) THEN UNCHANGED out       \* if(!*pattern || fnmatch(...) == 0)
                ELSE IF earlySkip \/ lateSkip \/ dotSkip THEN UNCHANGED out
                ELSE out' = Append(out, ret)                                               \* name = ...; return true;
LNext == Iter
LSpec == LInit /\ [][LNext]_<<lvars, vars>>

OutSet == { out[j] : j \in 1..Len(out) }
Refines == done => /\ \A a, b \in 1..Len(out) : a # b => out[a].n # out[b].n
                   /\ Req(tree, <<>>, pattern, dirsOnly) \subseteq OutSet
                   /\ OutSet \subseteq (Req(tree, <<>>, pattern, dirsOnly) \cup Opt(tree, <<>>, pattern, dirsOnly))
Names3 == {<<97>>, <<97, 98>>, <<46, 98>>}
PatsL2_small == {<<>>, <<STAR>>, <<97, STAR>>, <<QM>>, <<STAR, 98>>, <<DOT, STAR>>}
================================================================================
