SPECIFICATION LSpec
CONSTANTS Names <- Names3
 PatsL2 <- PatsL2_small
 Variant = "repo"
 U = {}
 Pats = {}
 Raws = {}
 Xs = {}
 Ms = {}
 OpsOn = {}
INVARIANT Refines
