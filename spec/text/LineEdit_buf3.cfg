SPECIFICATION Spec
CONSTANTS KeyNames = {"a", "e2", "bs", "del", "left", "right", "home", "end", "up", "down", "enter", "pgup", "alt"}
 MaxBuf = 3
 MaxHist = 1
INVARIANT Inv
