------------------------------- MODULE Utf8Check -------------------------------
(* Property C18 - the specification's own round trip, checked by TLC on all 1,114,112 code points (one initial
   state each): Decode(Encode(cp)) = cp, Encode is canonical, has the length its lead byte announces, is accepted
   by both validity predicates, the implementation-shaped decoder agrees with Decode on it, and encodings of
   different code points differ (Encode is injective because Decode is a left inverse).                          *)
EXTENDS Utf8
VARIABLE cp
Init == cp \in 0..MaxCp
Next == FALSE /\ UNCHANGED cp
Spec == Init /\ [][Next]_cp
RoundTrip == LET e == Encode(cp) IN
  /\ Len(e) \in 1..4 /\ \A i \in 1..Len(e) : e[i] \in 0..255
  /\ Decode(e) = cp
  /\ LengthOf(e[1]) = Len(e)
  /\ FirstCanonical(e) /\ Canonical(e) /\ Structural(e)
  /\ DecodeImpl(e) = cp
=============================================================================
