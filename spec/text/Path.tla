--------------------------------- MODULE Path ---------------------------------
(* Layer 1 (property level) for the path functions of nstd::File (property C19, first sentence).

   A path is a sequence of character codes over the alphabet { '/', '.', 'a', 'b' }.  Its lexical meaning is
        Norm(p) = [abs |-> starts at the root, ups |-> number of leading "..", names |-> remaining components]
   obtained by walking its components: "" and "." are skipped, ".." removes the last name or, if there is none,
   counts as one more step up.  Two variants are used so that the demands stay one-sided:
     NormC  collapses ".." at the root ("/.." = "/", true on POSIX)  -- used where two paths must be EQUIVALENT
     NormL  keeps them ("/.." is an unknown place)                   -- used where a relative path must EXIST
   The properties are evaluated on the outputs of the real functions logged by harness/fs (PathTrace.tla):
     simplifyPath keeps the meaning and is idempotent; getDirectoryName + '/' + getBaseName denotes the path;
     getStem + '.' + getExtension = getBaseName when an extension exists; from joined with
     getRelativePath(from, to) denotes to, and "" (no relative path) is returned only if none exists lexically. *)
EXTENDS Integers, Sequences, FiniteSets, TLC

SLASH == 47
DOT == 46
DOTDOT == <<DOT, DOT>>

RECURSIVE SplitR(_, _, _)
SplitR(p, i, cur) == IF i > Len(p) THEN <<cur>>
                     ELSE IF p[i] = SLASH THEN <<cur>> \o SplitR(p, i + 1, <<>>)
                     ELSE SplitR(p, i + 1, cur \o <<p[i]>>)
\* the meaningful components of p
Comps(p) == SelectSeq(SplitR(p, 1, <<>>), LAMBDA c : c # <<>> /\ c # <<DOT>>)
IsAbs(p) == Len(p) > 0 /\ p[1] = SLASH

StepC(n, c, collapse) ==
  IF c = DOTDOT
  THEN IF n.names # <<>> THEN [n EXCEPT !.names = SubSeq(@, 1, Len(@) - 1)]
       ELSE IF n.abs /\ collapse THEN n
       ELSE [n EXCEPT !.ups = @ + 1]
  ELSE [n EXCEPT !.names = @ \o <<c>>]
RECURSIVE WalkR(_, _, _, _)
WalkR(n, cs, i, collapse) == IF i > Len(cs) THEN n ELSE WalkR(StepC(n, cs[i], collapse), cs, i + 1, collapse)
Walk(n, cs, collapse) == WalkR(n, cs, 1, collapse)
Origin(abs) == [abs |-> abs, ups |-> 0, names |-> <<>>]
NormC(p) == Walk(Origin(IsAbs(p)), Comps(p), TRUE)
NormL(p) == Walk(Origin(IsAbs(p)), Comps(p), FALSE)
\* the place reached by following r from the place `from` (an absolute r starts again at the root)
Join(from, r) == IF IsAbs(r) THEN NormC(r) ELSE Walk(NormC(from), Comps(r), TRUE)

HasNo(c, s) == \A i \in 1..Len(s) : s[i] # c

\* --- properties of one logged evaluation --------------------------------------------------------------------
\* e = [p, simp, simp2, dir, base, stem, ext, abs]
SimplifyMeaning(e) == NormC(e.simp) = NormC(e.p)
SimplifyIdem(e) == e.simp2 = e.simp
DirBase(e) == HasNo(SLASH, e.base) /\ NormC(e.dir \o <<SLASH>> \o e.base) = NormC(e.p)
StemExt(e) == /\ e.ext # <<>> => e.stem \o <<DOT>> \o e.ext = e.base
              /\ HasNo(DOT, e.base) => e.stem = e.base /\ e.ext = <<>>
\* the two-argument forms: be / bde / se = getBaseName(p, ext) / getBaseName(p, "." \o ext) / getStem(p, ext) with ext the path's own
\* extension: removing the extension leaves the stem; bz = getBaseName(p, "zq"): an extension the name does not have removes nothing
EndsIn(s, t) == Len(s) >= Len(t) /\ SubSeq(s, Len(s) - Len(t) + 1, Len(s)) = t
ExtForms(e) == /\ e.ext # <<>> => e.be = e.stem /\ e.bde = e.stem /\ e.se = e.stem
               /\ e.ext = <<>> => e.be = e.base /\ e.se = e.stem
               /\ ~EndsIn(e.base, <<DOT, 122, 113>>) => e.bz = e.base
AbsOK(e) == e.abs = IsAbs(e.p)
PathWhy(e) == IF ~SimplifyMeaning(e) THEN "simplify-meaning"
              ELSE IF ~SimplifyIdem(e) THEN "simplify-idempotent"
              ELSE IF ~DirBase(e) THEN "dir-base"
              ELSE IF ~StemExt(e) THEN "stem-ext"
              ELSE IF ~ExtForms(e) THEN "ext-forms"
              ELSE IF ~AbsOK(e) THEN "is-absolute"
              ELSE "ok"

\* a relative path from `from` to `to` certainly exists (no unknown directory has to be entered)
ExistsL(from, to) == LET f == NormL(from)  t == NormL(to) IN f.abs = t.abs /\ f.ups <= t.ups
ExistsC(from, to) == LET f == NormC(from)  t == NormC(to) IN f.abs = t.abs /\ f.ups <= t.ups
\* e = [from, to, r]
RelWhy(e) == IF e.r = <<>> THEN (IF ExistsL(e.from, e.to) THEN "rel-missing" ELSE "ok")
             ELSE IF Join(e.from, e.r) = NormC(e.to) THEN "ok" ELSE "rel-wrong"

--------------------------------------------------------------------------------
\* Stand-alone model: sanity of the reference itself on all paths up to length N.
CONSTANTS N, Alphabet
Paths(n) == UNION { [1..k -> Alphabet] : k \in 0..n }
RECURSIVE JoinSeq(_, _)
JoinSeq(cs, i) == IF i > Len(cs) THEN <<>> ELSE (IF i > 1 THEN <<SLASH>> ELSE <<>>) \o cs[i] \o JoinSeq(cs, i + 1)
Ups(k) == [i \in 1..k |-> DOTDOT]
\* canonical spelling of a meaning
Render(n) == LET body == JoinSeq(Ups(n.ups) \o n.names, 1)
             IN IF n.abs THEN <<SLASH>> \o body ELSE IF body = <<>> THEN <<DOT>> ELSE body
RECURSIVE CommonR(_, _, _)
CommonR(a, b, k) == IF k < Len(a) /\ k < Len(b) /\ a[k + 1] = b[k + 1] THEN CommonR(a, b, k + 1) ELSE k
\* a reference relative path
RefRel(from, to) ==
  LET f == NormC(from)  t == NormC(to)
      k == IF f.ups = t.ups THEN CommonR(f.names, t.names, 0) ELSE 0
      up == (Len(f.names) - k) + (t.ups - f.ups)
      cs == Ups(up) \o SubSeq(t.names, k + 1, Len(t.names))
  IN IF cs = <<>> THEN <<DOT>> ELSE JoinSeq(cs, 1)

VARIABLES st, last
vars == <<st, last>>
Init == st \in Paths(N) \X Paths(N) /\ last = 0
Next == UNCHANGED vars
Spec == Init /\ [][Next]_vars
RenderOK == NormC(Render(NormC(st[1]))) = NormC(st[1])
RefRelOK == ExistsC(st[1], st[2]) => Join(st[1], RefRel(st[1], st[2])) = NormC(st[2])
LWeaker == ExistsL(st[1], st[2]) => ExistsC(st[1], st[2])
\* when no relative path exists, indeed no short string r leads from st[1] to st[2]
NoRelOK == ~ExistsC(st[1], st[2]) => \A r \in Paths(N) : IsAbs(r) \/ Join(st[1], r) # NormC(st[2])
================================================================================
