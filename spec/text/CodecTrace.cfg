SPECIFICATION TSpec
INVARIANT TInv
