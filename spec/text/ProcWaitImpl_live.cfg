SPECIFICATION IFairSpec
CONSTANTS N = 2
 Names <- NamesDef
 ExplicitEnv <- ExplicitEnvDef
 Vals = {}
 Codes = {}
 WaitSets <- WaitSetsDef
 MaxCalls = 4
 MaxIntr = 2
 Scan = TRUE
INVARIANT Refines
INVARIANT IntrInv
INVARIANT HelperInv
INVARIANT KernInv
INVARIANT NoStuck
PROPERTY WaitReturns
PROPERTY WaitReturnsChild
