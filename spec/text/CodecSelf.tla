------------------------------- MODULE CodecSelf -------------------------------
(* Property C18 - start-up self checks of Decimal.tla and Base64.tla (their ASSUMEs) plus the specification-level
   inverse laws on a bounded domain, one initial state per sample: Dec(Enc(b)) = b, IsEncoding(Enc(b)),
   DecImpl(Enc(b)) = b for all byte strings over a 6-value byte alphabet up to length 4, and
   FromDecimal(ToDecimal(v)) = v for limb vectors over boundary limbs.                                           *)
EXTENDS Decimal, Base64
VARIABLE x
BytesS == {0, 1, 127, 128, 254, 255}
Limbs == {0, 1, 9, 10, 32767, 32768, 65535}
Init == x \in [kind : {"b64"}, b : UNION {[1..n -> BytesS] : n \in 0..4}]
          \cup [kind : {"dec"}, b : [1..2 -> Limbs] \cup [1..4 -> Limbs]]
Next == FALSE /\ UNCHANGED x
Spec == Init /\ [][Next]_x
Laws == IF x.kind = "b64"
        THEN LET e == Enc(x.b) IN /\ Dec(e) = x.b /\ IsEncoding(e) /\ DecImpl(e) = x.b
                                  /\ Len(e) = 4 * ((Len(x.b) + 2) \div 3)
        ELSE /\ FromDecimal(ToDecimal(x.b, TRUE), Len(x.b)) = x.b
             /\ FromDecimal(ToDecimal(x.b, FALSE), Len(x.b)) = x.b
=============================================================================
