SPECIFICATION Spec
CONSTANTS Chars = {45, 97, 98, 61, 118}
 NW = 2
 WL = 3
INVARIANTS NonEmpty Bounded Deterministic
