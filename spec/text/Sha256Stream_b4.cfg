SPECIFICATION Spec
CONSTANTS B = 4
 L = 1
 MaxLen = 10
 MaxChunk = 3
 Bytes = {1, 2}
INVARIANT Prefix
INVARIANT PadShape
INVARIANT DigestOK
