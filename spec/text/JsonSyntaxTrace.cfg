SPECIFICATION TSpec
CONSTANTS MaxNodes = 1
 NRandom = 0
