SPECIFICATION Spec
CONSTANTS KeyNames = {"a", "e2", "bs", "del", "left", "right", "home", "end", "up", "down", "enter", "tab"}
 MaxBuf = 2
 MaxHist = 1
INVARIANT Inv
