SPECIFICATION TSpec
CONSTANTS NSlots = 0
 MaxSize = 0
INVARIANT TInv
