SPECIFICATION TSpec
