SPECIFICATION Spec
