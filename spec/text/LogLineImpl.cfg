SPECIFICATION Spec
CONSTANTS MaxLen = 3
 Alphabet = {37, 109, 76, 113, 116}
 Thresholds = {10, 30, 31}
 Levels = {9, 10, 29, 30, 31, 40, 50}
 Guarded = TRUE
INVARIANTS StateAgrees NoOverread OneLine
PROPERTY Refines
