SPECIFICATION Spec
CONSTANTS U <- U_tree
 Pats <- Pats_small
 Raws <- Raws_small
 Xs = {0, 7}
 Ms = {1500}
 OpsOn = {"fsmode", "mkdir", "mkfile", "mklink", "rm", "list", "purge", "time", "isexe", "abspath"}
INVARIANT TypeOK
PROPERTIES PurgeSafe QueriesPure ListSound
VIEW View
