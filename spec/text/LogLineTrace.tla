----------------------------- MODULE LogLineTrace -----------------------------
(* Trace specification for the logging part of X03: events logged by harness/logtime around the real nstd::Log.
     reset                                   Log is back at its defaults
     setformat fmt tfmt / setlevel level     Log::setFormat / Log::setLevel
     log  level api mfmt args                one call of logf (api 0; 2: on a second thread) or debugf/infof/warningf/errorf (api 1), with
                                             message format mfmt and the arguments args; out / err = the bytes that
                                             arrived on file descriptors 1 / 2 during the call; d0 s0 / d1 s1 = the
                                             clock (day number, second of the day) before / after the call; pid, tid
   Every log event must be one of LogLine!Outputs for the abstract state.  nlog counts the events that wrote a line. *)
EXTENDS LogLine, Json, IOUtils
VARIABLES st, l, nbad, nlog
T == ndJsonDeserialize(IOEnv.TRACE)

\* the seconds between the two clock readings (same day, or across one midnight)
Clock(e) == IF e.d0 = e.d1 THEN {[q |-> 0, r |-> e.d0, sod |-> s] : s \in e.s0..e.s1}
            ELSE {[q |-> 0, r |-> e.d0, sod |-> s] : s \in e.s0..86399} \cup {[q |-> 0, r |-> e.d1, sod |-> s] : s \in 0..e.s1}
\* judged only inside the modelled subsets of printf and strftime (the generators stay inside; nlog shows it)
Domain(e) == /\ PrintfDefined(e.mfmt, e.args)
             /\ st.tfmt = <<>> \/ \A mo \in Clock(e) : Cal!StrfDefined(st.tfmt, mo)
LogOK(e) ==
  Domain(e) =>
    LET texts == IF st.tfmt = <<>> THEN {<<>>} ELSE {Cal!StrfTime(st.tfmt, mo) : mo \in Clock(e)}
    IN \E o \in Outputs(st, e.level, Printf(e.mfmt, e.args), texts, e.pid, e.tid) : Match(o, e)

TInit == l = 1 /\ nbad = 0 /\ nlog = 0 /\ st = Init0
TStep ==
  /\ l <= Len(T)
  /\ l' = l + 1
  /\ LET e == T[l]
     IN /\ st' = CASE e.op = "reset" -> Init0
                   [] e.op = "setformat" -> CHOOSE s \in Step("setformat", st, [fmt |-> e.fmt, tfmt |-> e.tfmt]) : TRUE
                   [] e.op = "setlevel" -> CHOOSE s \in Step("setlevel", st, [level |-> e.level]) : TRUE
                   [] OTHER -> st
        /\ nlog' = IF e.op = "log" /\ Domain(e) /\ e.out \o e.err # <<>> THEN nlog + 1 ELSE nlog
        /\ IF e.op # "log" \/ LogOK(e) THEN UNCHANGED nbad ELSE PrintT(<<"MISMATCH", l, e.op>>) /\ nbad' = nbad + 1
TDone == l = Len(T) + 1 /\ PrintT(<<"TRACE-DONE", Len(T), nbad, nlog>>) /\ l' = l + 1 /\ UNCHANGED <<st, nbad, nlog>>
TNext == TStep \/ TDone
TSpec == TInit /\ [][TNext]_<<st, l, nbad, nlog>>
================================================================================
