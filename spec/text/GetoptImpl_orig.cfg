SPECIFICATION ISpec
CONSTANTS Chars = {45, 97, 98, 61, 118}
 NW = 2
 WL = 3
 Fixed = FALSE
INVARIANTS CursorOK Refines Terminates
