SPECIFICATION TSpec
CONSTANTS CN = 0
 CChars = {}
