SPECIFICATION GSpec
CONSTANTS PatAlpha = {97, 66, 63, 42}
 StrAlpha = {97, 98, 65}
 MaxLen = 4
 U = {}
 Pats = {}
 Raws = {}
 Xs = {}
 Ms = {}
 OpsOn = {}
INVARIANTS Refines InBounds
PROPERTY Terminates
