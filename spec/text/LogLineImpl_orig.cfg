SPECIFICATION Spec
CONSTANTS MaxLen = 2
 Alphabet = {37, 109, 97}
 Thresholds = {20}
 Levels = {20, 40}
 Guarded = FALSE
INVARIANTS StateAgrees NoOverread OneLine
PROPERTY Refines
