SPECIFICATION Spec
CONSTANTS MaxLen = 7
 Alphabet = {47, 42, 34, 92, 10, 97}
INVARIANTS TypeOK OnlyRemoves BreaksKept NoSlashIdentity
