SPECIFICATION TSpec
CONSTANTS MaxLen = 0
 Alphabet = {}
INVARIANT TInv
