----------------------------- MODULE CmdLineTrace -----------------------------
(* Trace specification: every command line started through the real Process (harness/proc, op "cmd") and the
   argument vector echoed by the helper child, judged against CmdLine.                                      *)
EXTENDS CmdLine, Json, IOUtils
VARIABLES l, nbad, ndom       \* ndom counts the command lines inside the documented form (vacuity check)
T == ndJsonDeserialize(IOEnv.TRACE)
TInit == l = 1 /\ nbad = 0 /\ ndom = 0 /\ st = <<>> /\ last = 0
TStep ==
  /\ l <= Len(T)
  /\ l' = l + 1
  /\ UNCHANGED <<st, last>>
  /\ ndom' = IF T[l].op = "cmd" /\ Split(T[l].cl).ok THEN ndom + 1 ELSE ndom
  /\ LET e == T[l]
         why == IF e.op = "cmd" THEN CmdWhy(e) ELSE "ok"
     IN IF why = "ok" THEN UNCHANGED nbad
        ELSE PrintT(<<"MISMATCH", l, why>>) /\ nbad' = nbad + 1
TDone == l = Len(T) + 1 /\ PrintT(<<"TRACE-DONE", Len(T), nbad, ndom>>) /\ l' = l + 1 /\ UNCHANGED <<st, last, nbad, ndom>>
TNext == TStep \/ TDone
TSpec == TInit /\ [][TNext]_<<vars, l, nbad, ndom>>
================================================================================
