SPECIFICATION Spec
CONSTANTS N = 3
 Alphabet = {47, 46, 97}
INVARIANTS RenderOK RefRelOK LWeaker NoRelOK
