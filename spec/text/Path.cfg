SPECIFICATION Spec
CONSTANTS N = 3
 Alphabet = {47, 46, 97, 98}
INVARIANTS RenderOK RefRelOK LWeaker NoRelOK
