SPECIFICATION Spec
CONSTANTS MaxLen = 8
 Alphabet = {60, 62, 47, 61, 34, 97, 32}
 Bugs = {}
INVARIANTS CursorInside NoOverrun NoHang NoStuck Total ErrInside LineTrue StackBound
