-------------------------------- MODULE Sha256 --------------------------------
(* Property C17 - executable specification of SHA-256 (FIPS 180-4) and HMAC-SHA-256 (RFC 2104 / RFC 4231).

   This module is the *reference*: it is written from the standards, not from src/Crypto/Sha256.cpp.
   TLC integers are 32-bit signed, so a 32-bit word is a pair <<hi, lo>> of 16-bit halves.  Bit operations on
   the halves come from the community module Bitwise (Java overrides for &, |, ^^); rotations and shifts are
   integer arithmetic on the halves.

   Messages never travel in traces: the content of a test message is Stream(seed, n), the first n bytes of a
   fixed linear congruential generator that the driver (harness/sha/drv_sha.cpp) implements identically.

   The module checks itself when TLC starts: the ASSUMEs at the end embed FIPS 180-4 / RFC 4231 vectors (the
   complete list is in Sha256Vectors.tla, which is model-"checked" once per check run).                          *)
EXTENDS Integers, Sequences, SequencesExt, Bitwise, TLC

-----------------------------------------------------------------------------
(* 32-bit words as pairs of 16-bit halves (FIPS 180-4 section 2.2.2, 3.2)                                       *)
H16 == 65536
P2(n) == 2 ^ n

WAdd(a, b) == LET lo == a[2] + b[2]
                  hi == a[1] + b[1] + (lo \div H16)
              IN <<hi % H16, lo % H16>>
WAdd4(a, b, c, d) == LET lo == a[2] + b[2] + c[2] + d[2]
                         hi == a[1] + b[1] + c[1] + d[1] + (lo \div H16)
                     IN <<hi % H16, lo % H16>>
WAdd5(a, b, c, d, e) == LET lo == a[2] + b[2] + c[2] + d[2] + e[2]
                            hi == a[1] + b[1] + c[1] + d[1] + e[1] + (lo \div H16)
                        IN <<hi % H16, lo % H16>>
WXor(a, b) == <<a[1] ^^ b[1], a[2] ^^ b[2]>>
WXor3(a, b, c) == <<(a[1] ^^ b[1]) ^^ c[1], (a[2] ^^ b[2]) ^^ c[2]>>
WAnd(a, b) == <<a[1] & b[1], a[2] & b[2]>>
WNot(a) == <<65535 - a[1], 65535 - a[2]>>

\* SHR^n(x) and ROTR^n(x), 0 < n < 32  (section 3.2)
Shr(x, n) == IF n < 16 THEN <<x[1] \div P2(n), (x[1] % P2(n)) * P2(16 - n) + (x[2] \div P2(n))>>
             ELSE <<0, x[1] \div P2(n - 16)>>
Rotr(x, n) == IF n = 16 THEN <<x[2], x[1]>>
              ELSE IF n < 16 THEN <<(x[2] % P2(n)) * P2(16 - n) + (x[1] \div P2(n)),
                                    (x[1] % P2(n)) * P2(16 - n) + (x[2] \div P2(n))>>
              ELSE LET m == n - 16 IN
                   <<(x[1] % P2(m)) * P2(16 - m) + (x[2] \div P2(m)),
                     (x[2] % P2(m)) * P2(16 - m) + (x[1] \div P2(m))>>

\* section 4.1.2 (4.2) - (4.7)
Ch(x, y, z) == WXor(WAnd(x, y), WAnd(WNot(x), z))
Maj(x, y, z) == WXor3(WAnd(x, y), WAnd(x, z), WAnd(y, z))
BigSigma0(x) == WXor3(Rotr(x, 2), Rotr(x, 13), Rotr(x, 22))
BigSigma1(x) == WXor3(Rotr(x, 6), Rotr(x, 11), Rotr(x, 25))
SmallSigma0(x) == WXor3(Rotr(x, 7), Rotr(x, 18), Shr(x, 3))
SmallSigma1(x) == WXor3(Rotr(x, 17), Rotr(x, 19), Shr(x, 10))

\* section 4.2.2: first 32 bits of the fractional parts of the cube roots of the first 64 primes
K == <<
  <<17034, 12184>>, <<28983, 17553>>, <<46528, 64463>>, <<59829, 56229>>,
  <<14678, 49755>>, <<23025, 4593>>, <<37439, 33444>>, <<43804, 24277>>,
  <<55303, 43672>>, <<4739, 23297>>, <<9265, 34238>>, <<21772, 32195>>,
  <<29374, 23924>>, <<32990, 45566>>, <<39900, 1703>>, <<49563, 61812>>,
  <<58523, 27073>>, <<61374, 18310>>, <<4033, 40390>>, <<9228, 41420>>,
  <<11753, 11375>>, <<19060, 33962>>, <<23728, 43484>>, <<30457, 35034>>,
  <<38974, 20818>>, <<43057, 50797>>, <<45059, 10184>>, <<48985, 32711>>,
  <<50912, 3059>>, <<54695, 37191>>, <<1738, 25425>>, <<5161, 10599>>,
  <<10167, 2693>>, <<11803, 8504>>, <<19756, 28156>>, <<21304, 3347>>,
  <<25866, 29524>>, <<30314, 2747>>, <<33218, 51502>>, <<37490, 11397>>,
  <<41663, 59553>>, <<43034, 26187>>, <<49739, 35696>>, <<51052, 20899>>,
  <<53650, 59417>>, <<54937, 1572>>, <<62478, 13701>>, <<4202, 41072>>,
  <<6564, 49430>>, <<7735, 27656>>, <<10056, 30540>>, <<13488, 48309>>,
  <<14620, 3251>>, <<20184, 43594>>, <<23452, 51791>>, <<26670, 28659>>,
  <<29839, 33518>>, <<30885, 25455>>, <<33992, 30740>>, <<36039, 520>>,
  <<37054, 65530>>, <<42064, 27883>>, <<48889, 41975>>, <<50801, 30962>> >>

\* section 5.3.3: initial hash value (square roots of the first 8 primes)
H0 == << <<27145, 58983>>, <<47975, 44677>>, <<15470, 62322>>, <<42319, 62778>>,
         <<20750, 21119>>, <<39685, 26764>>, <<8067, 55723>>, <<23520, 52505>> >>

-----------------------------------------------------------------------------
(* Padding (section 5.1.1), generic in the block size B and the width L (bytes) of the length field so that the
   streaming model Sha256Stream can be model-checked for small abstract blocks.  SHA-256: B = 64, L = 8.        *)
Zeros(k) == [i \in 1..k |-> 0]
\* number of zero bytes: the smallest k >= 0 with n + 1 + k + L = 0 (mod B)
PadZeros(n, B, L) == (B - ((n + 1 + L) % B)) % B
\* big-endian L-byte encoding of v (v < 2^31; bytes above the fourth are zero)
BigEndian(v, L) == [i \in 1..L |-> IF L - i >= 4 THEN 0 ELSE (v \div P2(8 * (L - i))) % 256]
PadTail(n, B, L) == <<128>> \o Zeros(PadZeros(n, B, L)) \o BigEndian(8 * n, L)
Pad(msg, B, L) == msg \o PadTail(Len(msg), B, L)
Blocks(bytes, B) == [j \in 1..(Len(bytes) \div B) |-> SubSeq(bytes, (j - 1) * B + 1, j * B)]

-----------------------------------------------------------------------------
(* The hash computation, section 6.2.2                                                                          *)
\* 1. message schedule
BlockWords(blk) == [t \in 1..16 |-> <<blk[4 * t - 3] * 256 + blk[4 * t - 2], blk[4 * t - 1] * 256 + blk[4 * t]>>]
\* W holds W_0 .. W_{t-2} at the 1-based positions 1..t-1; position t is appended.  (FoldLeft is evaluated
\* eagerly by TLC; a RECURSIVE operator would build a chain of 48 unevaluated arguments.)
SchedStep(W, t) == Append(W, WAdd4(SmallSigma1(W[t - 2]), W[t - 7], SmallSigma0(W[t - 15]), W[t - 16]))
Schedule(blk) == FoldLeft(SchedStep, BlockWords(blk), [i \in 1..48 |-> 16 + i])

\* 2./3. the 64 rounds on the working variables v = <<a,b,c,d,e,f,g,h>>
Round(v, kt, wt) ==
  LET T1 == WAdd5(v[8], BigSigma1(v[5]), Ch(v[5], v[6], v[7]), kt, wt)
      T2 == WAdd(BigSigma0(v[1]), Maj(v[1], v[2], v[3]))
  IN <<WAdd(T1, T2), v[1], v[2], v[3], WAdd(v[4], T1), v[5], v[6], v[7]>>
Rounds(H, W) == FoldLeft(LAMBDA v, t : Round(v, K[t], W[t]), H, [i \in 1..64 |-> i])

\* 4. the next intermediate hash value
Compress(H, blk) == LET v == Rounds(H, Schedule(blk)) IN [i \in 1..8 |-> WAdd(H[i], v[i])]

HashWords(msg) == FoldLeft(Compress, H0, Blocks(Pad(msg, 64, 8), 64))
\* digests are compared as sixteen 16-bit big-endian words (= 32 bytes)
DigestOf(H) == [i \in 1..16 |-> H[(i + 1) \div 2][2 - (i % 2)]]
Hash(msg) == DigestOf(HashWords(msg))
DigestBytes(d) == [i \in 1..32 |-> IF i % 2 = 1 THEN d[(i + 1) \div 2] \div 256 ELSE d[i \div 2] % 256]

-----------------------------------------------------------------------------
(* Long messages.  TLC cannot hash its way to 2^29 or 2^32 bytes, but the part of the algorithm that depends on the
   byte count - the padding and the 64-bit length field - can be evaluated from any intermediate hash value: for a
   message M = P \o tail with Len(P) = cnt a multiple of 64 and S the intermediate hash value after P,
   Hash(M) = HashFrom(S, cnt, tail).  Byte counts are four 16-bit limbs, most significant first (TLC integers are
   32 bits wide); the length field is 8 * (cnt + Len(tail)) modulo 2^64.                                          *)
LimbAdd(c, k) ==                                  \* c + k for 0 <= k < 2^16
  LET s4 == c[4] + k
      s3 == c[3] + (s4 \div 65536)
      s2 == c[2] + (s3 \div 65536)
      s1 == c[1] + (s2 \div 65536)
  IN <<s1 % 65536, s2 % 65536, s3 % 65536, s4 % 65536>>
LimbsTimes8(c) == [i \in 1..4 |-> ((c[i] * 8) % 65536) + (IF i < 4 THEN c[i + 1] \div 8192 ELSE 0)]
LimbBytes(c) == [i \in 1..8 |-> IF i % 2 = 1 THEN c[(i + 1) \div 2] \div 256 ELSE c[i \div 2] % 256]
PadTailFrom(cnt, n) == <<128>> \o Zeros(PadZeros(n, 64, 8)) \o LimbBytes(LimbsTimes8(LimbAdd(cnt, n)))
HashFrom(S, cnt, tail) == DigestOf(FoldLeft(Compress, S, Blocks(tail \o PadTailFrom(cnt, Len(tail)), 64)))

-----------------------------------------------------------------------------
(* HMAC, RFC 2104 section 2 with H = SHA-256, B = 64                                                            *)
HmacKey0(key) == LET k == IF Len(key) > 64 THEN DigestBytes(Hash(key)) ELSE key
                 IN k \o Zeros(64 - Len(k))
XorBytes(bytes, c) == [i \in 1..Len(bytes) |-> bytes[i] ^^ c]
Hmac(key, text) ==
  LET k0 == HmacKey0(key)
      inner == DigestBytes(Hash(XorBytes(k0, 54) \o text))          \* ipad = 0x36
  IN Hash(XorBytes(k0, 92) \o inner)                               \* opad = 0x5c

-----------------------------------------------------------------------------
(* Test content: a fixed linear congruential generator  x' = (75 x + 74) mod 65537 (the ZX81 generator), started
   at x0 = (seed mod 65537); byte i of the stream is x_{i+1} mod 256.                                            *)
LcgNext(x) == (75 * x + 74) % 65537
Stream(seed, n) ==
  FoldLeft(LAMBDA acc, i : LET x == LcgNext(acc[1]) IN <<x, Append(acc[2], x % 256)>>,
           <<seed % 65537, <<>>>>, [i \in 1..n |-> i])[2]

-----------------------------------------------------------------------------
(* Start-up self check of this specification (cheap subset; all vectors: Sha256Vectors.tla)                      *)
ASSUME Rotr(<<1, 2>>, 1) = <<0, 32769>> /\ Rotr(<<1, 2>>, 17) = <<32769, 0>> /\ Shr(<<32769, 3>>, 1) = <<16384, 32769>>
ASSUME Pad(<<97, 98, 99>>, 64, 8) = <<97, 98, 99, 128>> \o Zeros(52) \o <<0, 0, 0, 0, 0, 0, 0, 24>>
\* FIPS 180-4 / NIST example "abc"
ASSUME Hash(<<97, 98, 99>>) = <<\Hba78, \H16bf, \H8f01, \Hcfea, \H4141, \H40de, \H5dae, \H2223,
                                \Hb003, \H61a3, \H9617, \H7a9c, \Hb410, \Hff61, \Hf200, \H15ad>>
\* the long-message form agrees with the plain one where both apply
ASSUME HashFrom(H0, <<0, 0, 0, 0>>, <<97, 98, 99>>) = Hash(<<97, 98, 99>>)
ASSUME LimbBytes(LimbsTimes8(LimbAdd(<<0, 0, 8191, 65472>>, 64))) = <<0, 0, 0, 1, 0, 0, 0, 0>>      \* 2^29 bytes = 2^32 bits
=============================================================================
