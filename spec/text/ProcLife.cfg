SPECIFICATION Spec
CONSTANTS N = 3
 Names <- NamesDef
 ExplicitEnv <- ExplicitEnvDef
 Vals = {"", "1"}
 Codes = {7}
 WaitSets <- WaitSetsDef
INVARIANT TypeOK
PROPERTY NoLostChild
PROPERTY IntrConsumedByWait
PROPERTY WaitReturnsTerminated
PROPERTY PidStable
