SPECIFICATION TSpec
