SPECIFICATION TSpec
CONSTANTS N = 3
 Names <- NamesDef
 ExplicitEnv <- ExplicitEnvDef
 Vals = {}
 Codes = {}
 WaitSets = {}
INVARIANT TInv
