----------------------------- MODULE LogLineImpl -----------------------------
(* Extra X03, LAYER 2: the line-building loop of _Log::vlogf (src/Log.cpp) transcribed branch by branch, over an
   explicit memory image of the format string, with Layer 1 (LogLine) as ghost state.

      for(const char* p = lineFormat; *p; ++p)
        if( *p == '%' [&& p[1]])  { ++p; switch( *p ) { '%' 'm' 't' 'L' 'P' 'T' default: line += '%'; line += *p; } }
        else line += *p;
      line += '\n';  level >= Log::warning ? Console::error(line) : Console::print(line);

   The format is the NUL-terminated image Mem == fmt \o <<0>>; index Len(fmt) + 1 is the terminator, every read at a
   larger index is a read BEYOND THE TERMINATOR (flag oob; such a read yields the unknown byte Junk, and the loop is
   cut off there).  Guarded = TRUE is the loop as corrected (the bracketed condition), FALSE the loop as found:
   with FALSE the invariant NoOverread fails for every format that ends in an odd run of percent signs
   (LogLineImpl_orig.cfg documents that; the registered check runs Guarded = TRUE and relies on ASan + the Layer-1
   trace check for the real code).

   Also transcribed: the filter in Log::logf (level < _Log::level: return), Log::setLevel, Log::setFormat, the
   level-name switch and the routing test.  The message, time text and ids are symbolic constants here; the real
   ones are judged by LogLineTrace on the replayed edges.                                                        *)
EXTENDS LogLine

CONSTANTS MaxLen,        \* formats up to this length
          Alphabet,      \* over these character codes
          Thresholds,    \* arguments of setLevel
          Levels,        \* levels logged
          Guarded
VARIABLES st,            \* ghost: Layer-1 state
          lineFormat,    \* _Log::lineFormat
          lvl,           \* _Log::level
          last           \* what the last call wrote: [out, err, oob]
vars == <<st, lineFormat, lvl, last>>

Junk == 255
MsgOf(m) == IF m = 1 THEN <<120>> ELSE Printf(<<37, 115, 61, 37, 100>>, <<<<107>>, 42>>)     \* "x" / "k=42"
TimeText == <<72, 72, 58, 77, 77>>
Pid == 4711
Tid == 4712
Formats == UNION { [1..k -> Alphabet] : k \in 0..MaxLen }

LevelNameImpl(level) == CASE level = LvDebug -> NmDebug [] level = LvInfo -> NmInfo [] level = LvWarning -> NmWarning
                          [] level = LvError -> NmError [] level = LvCritical -> NmCritical [] OTHER -> NmUnknown

\* *p for the pointer value p (1-based index into the image)
Rd(fmt, p) == IF p <= Len(fmt) THEN fmt[p] ELSE IF p = Len(fmt) + 1 THEN 0 ELSE Junk
RECURSIVE Loop(_, _, _, _, _)
Loop(fmt, p, line, level, msg) ==
  IF p > Len(fmt) + 1 THEN [line |-> line, oob |-> TRUE]                      \* the loop condition reads *p beyond the terminator
  ELSE IF Rd(fmt, p) = 0 THEN [line |-> line, oob |-> FALSE]                  \* *p == 0: loop ends
  ELSE IF Rd(fmt, p) = PCT /\ (~Guarded \/ Rd(fmt, p + 1) # 0)
  THEN LET c == Rd(fmt, p + 1)                                                \* ++p; switch on *p
           add == CASE c = PCT -> <<PCT>>
                    [] c = 109 -> msg
                    [] c = 116 -> TimeText
                    [] c = 76 -> LevelNameImpl(level)
                    [] c = 80 -> DecInt(Pid)
                    [] c = 84 -> DecInt(Tid)
                    [] OTHER -> <<PCT, c>>                                    \* default: line += '%'; line += *p;
       IN Loop(fmt, p + 2, line \o add, level, msg)                           \* ++p of the for statement
  ELSE Loop(fmt, p + 1, Append(line, Rd(fmt, p)), level, msg)                 \* line += *p;

LogImpl(level, m) ==
  IF level < lvl THEN [out |-> <<>>, err |-> <<>>, oob |-> FALSE]             \* Log::logf: filtered
  ELSE LET r == Loop(lineFormat, 1, <<>>, level, MsgOf(m))
           ln == Append(r.line, 10)
       IN IF level >= LvWarning THEN [out |-> <<>>, err |-> ln, oob |-> r.oob]
          ELSE [out |-> ln, err |-> <<>>, oob |-> r.oob]

NoOutput == [out |-> <<>>, err |-> <<>>, oob |-> FALSE]      \* (last is forgotten by the set operations: smaller graph)
Init == st = Init0 /\ lineFormat = DefaultFmt /\ lvl = LvInfo /\ last = NoOutput
\* one named action, so that the dot dump carries Do("setformat", <<..>>, 0, 0) etc.
Do(op, f, n, m) ==
  /\ op \in {"setformat", "setlevel", "log"}
  /\ IF op = "setformat"
     THEN /\ f \in Formats /\ n = 0 /\ m = 0
          /\ lineFormat' = f
          /\ st' \in Step("setformat", st, [fmt |-> f, tfmt |-> st.tfmt])
          /\ last' = NoOutput /\ UNCHANGED lvl
     ELSE IF op = "setlevel"
     THEN /\ f = <<>> /\ n \in Thresholds /\ m = 0
          /\ lvl' = n
          /\ st' \in Step("setlevel", st, [level |-> n])
          /\ last' = NoOutput /\ UNCHANGED lineFormat
     ELSE /\ f = <<>> /\ n \in Levels /\ m \in {1, 2}
          /\ last' = LogImpl(n, m)
          /\ UNCHANGED <<st, lineFormat, lvl>>
Next == \/ \E f \in Formats : Do("setformat", f, 0, 0)
        \/ \E n \in Thresholds : Do("setlevel", <<>>, n, 0)
        \/ \E n \in Levels, m \in {1, 2} : Do("log", <<>>, n, m)
Spec == Init /\ [][Next]_vars

\* refinement, as an action property: whatever a log step writes is allowed by Layer 1 (unless it over-read)
Refines == [][\A n \in Levels, m \in {1, 2} : Do("log", <<>>, n, m) =>
                 (last'.oob \/ \E o \in Outputs(st, n, MsgOf(m), {TimeText}, Pid, Tid) : Match(o, last'))]_vars
StateAgrees == st.fmt = lineFormat /\ st.level = lvl
NoOverread == ~last.oob
\* exactly one line, on one stream, or nothing
OneLine == LET w == last.out \o last.err
           IN (last.out = <<>> \/ last.err = <<>>) /\ (w # <<>> => w[Len(w)] = 10 /\ \A i \in 1..(Len(w) - 1) : w[i] # 10)
================================================================================
