------------------------------ MODULE GetoptTrace ------------------------------
(* Trace specification: the (character, argument) sequences produced by the real Process::Arguments for every
   argument vector (harness/proc, op "args"), judged against Getopt.  n = -1 marks a parser that did not stop. *)
EXTENDS Getopt, Json, IOUtils
VARIABLES l, nbad
T == ndJsonDeserialize(IOEnv.TRACE)
TInit == l = 1 /\ nbad = 0 /\ st = <<>> /\ last = 0
TStep ==
  /\ l <= Len(T)
  /\ l' = l + 1
  /\ UNCHANGED <<st, last>>
  /\ LET e == T[l]
         why == IF e.op # "args" THEN "ok"
                ELSE IF e.n < 0 THEN "args-endless"
                ELSE IF GetoptOK(e.argv, e.out) THEN "ok" ELSE "args-sequence"
     IN IF why = "ok" THEN UNCHANGED nbad
        ELSE PrintT(<<"MISMATCH", l, why>>) /\ nbad' = nbad + 1
TDone == l = Len(T) + 1 /\ PrintT(<<"TRACE-DONE", Len(T), nbad>>) /\ l' = l + 1 /\ UNCHANGED <<st, last, nbad>>
TNext == TStep \/ TDone
TSpec == TInit /\ [][TNext]_<<vars, l, nbad>>
================================================================================
