---------------------------- MODULE ProcWaitImpl ----------------------------
(* Layer 2 for extra X02: the POSIX implementation of Process::wait / Process::interrupt / join / kill / start in
   src/Process.cpp, transcribed branch by branch, running concurrently with
     - a second thread that calls Process::interrupt()  (action Interrupt),
     - the environment that lets children terminate      (action Release(c)),
   with the ghost variable st advanced by Layer 1 (ProcLife!Step) at the point where a call decides its result.

   Implementation state (Process.cpp:1207-1229, 132-160)
     signaled   ProcessFramework::signaled : 0 no interrupt pending, -1 interrupt pending (flag only), > 0 interrupt
                pending and pid of the helper child that interrupt() forked to wake up waitid()
     waitState  ProcessFramework::waitState: 0 no wait in progress, 1 wait(.., 0) sleeping on the condition variable,
                2 a wait with processes is / was in waitid()  (NOT reset when wait returns a process: stale 2)
     ppid[c]    Process::pid of object c (0 = no child)
     kern[c]    what the kernel knows about the child with pid c: "none" / "running" / "zombie"  (the child behind handle c
                always gets process id c: process id reuse is part of the model)
     helpers    zombie helper children (pid 100) forked by interrupt()
   Everything wait()/interrupt() do while they hold ProcessFramework::mutex is one atomic step (interrupt() is one step
   altogether), so the interleavings explored are those between wait's critical sections, the blocking system calls, the
   interrupting thread and terminating children.

   Checked: refinement of ProcLife (bad = ""), signaled # 0 <=> an interrupt is pending in Layer 1 (none lost, none
   invented), exactly one helper child exists while signaled > 0 (no zombie leak), a waiting thread can always be woken up
   (NoStuck), and under fairness a wait() with a pending interrupt returns (WaitReturns).

   Scan = TRUE models wait() with build/fixes/X02-wait-hidden-terminated-child.patch (after waitid(P_ALL) reported a child
   that is not in the list, every given process is polled with waitid(P_PID, WNOHANG)); Scan = FALSE is the original code:
   ProcWaitImpl_orig.cfg shows at model level that it violates Refines (start 1; child 1 terminates; start 2; wait({1})
   while child 2 terminates: the kernel may report 2, wait returns 0 although 1 has terminated - and on Linux, which reports
   the oldest zombie first, it does so on every call).

   The state graph is dumped; tools/props/x02.py projects every walk onto the call level (Call .. Ret with the Interrupt /
   Release that happened in between as the asynchronous action of the driver) and replays it on the real Process.      *)
EXTENDS ProcLife

CONSTANTS MaxCalls, MaxIntr,
          Scan      \* TRUE: wait() with build/fixes/X02-wait-hidden-terminated-child.patch; FALSE: the original code
VARIABLES wpc, wa, wret, sigpid, signaled, waitState, ppid, kern, helpers, ncalls, nintr, during, bad
ivars == <<wpc, wa, wret, sigpid, signaled, waitState, ppid, kern, helpers, ncalls, nintr, during, bad>>
allvars == <<st, last, ivars>>

HelperPid == 100
NoArg == Arg("none", 0, 0, 0, <<>>, "", "")

IInit == /\ st = Init0 /\ last = 0
         /\ wpc = "idle" /\ wa = NoArg /\ wret = 0 /\ sigpid = 0
         /\ signaled = 0 /\ waitState = 0
         /\ ppid = [c \in H |-> 0] /\ kern = [c \in H |-> "none"] /\ helpers = {}
         /\ ncalls = 0 /\ nintr = 0 /\ during = 0 /\ bad = ""

\* ---- the ghost: the call that runs (wa) returns r; how = "intr" (consumes the pending interrupt) / "same" (no change
\*      of the abstract state) / "op" (start, join, kill)
GhostRet(r, how) ==
  LET cands == {o \in Step(wa, st) :
                  /\ (o.rk = "pid" \/ o.r = r)
                  /\ (how = "intr" => st.intr /\ ~o.s.intr)
                  /\ (how = "same" => o.s = st)}
  IN IF cands = {} THEN /\ bad' = "Layer 1 does not allow this result"
                        /\ st' = st
     ELSE LET o == CHOOSE o \in cands : TRUE IN
          /\ bad' = bad
          /\ st' = IF o.rk = "pid" THEN [o.s EXCEPT !.pid[wa.c] = r] ELSE o.s
Return(r, how) == wpc' = "ret" /\ wret' = r /\ GhostRet(r, how)

Zombies == {c \in H : kern[c] = "zombie"} \cup helpers
NoChildren == helpers = {} /\ \A c \in H : kern[c] = "none"

\* wait() found that the reported child z is none of the given processes (and, with the fix, that none of them has
\* terminated): if z is the helper child the interrupt will be consumed under the lock, otherwise wait() WILL return 0
\* without an interrupt - this is the point where that is decided, so this is where Layer 1 judges it
GiveUp(z) ==
  /\ sigpid' = z
  /\ IF z \in helpers THEN wpc' = "w_relock" /\ UNCHANGED <<st, wret, bad>>
     ELSE /\ wpc' = "w_relock_d" /\ wret' = 0
          /\ LET ok == \E o \in Step(wa, st) : o.r = 0 /\ o.s = st IN
             bad' = IF ok THEN bad ELSE "Layer 1 does not allow wait to return 0 here"
          /\ st' = st

\* ---- the calling thread W
Call(op, c, set) ==
  /\ wpc = "idle" /\ ncalls < MaxCalls
  /\ wpc' = CASE op = "wait" -> "w_lock" [] op = "join" -> "j" [] op = "kill" -> "k" [] OTHER -> "s"
  /\ wa' = Arg(op, c, IF op = "start" THEN 7 ELSE 0, 0, set, "", "")
  /\ ncalls' = ncalls + 1 /\ during' = 0
  /\ UNCHANGED <<st, last, wret, sigpid, signaled, waitState, ppid, kern, helpers, nintr, bad>>

\* Process.cpp:1261-1299  lock; switch(signaled); unlock
WLock ==
  /\ wpc = "w_lock"
  /\ IF signaled = 0
     THEN IF Len(wa.set) = 0
          THEN /\ waitState' = 1 /\ wpc' = "w_cond"                 \* pthread_cond_wait releases the mutex
               /\ UNCHANGED <<st, wret, signaled, helpers, bad>>
          ELSE /\ waitState' = 2 /\ wpc' = "w_waitid"
               /\ UNCHANGED <<st, wret, signaled, helpers, bad>>
     ELSE IF signaled = -1
     THEN /\ signaled' = 0 /\ Return(0, "intr") /\ UNCHANGED <<waitState, helpers>>
     ELSE \* default: the helper child of an earlier interrupt() is reaped, the interrupt is delivered now
          /\ IF signaled \in helpers THEN helpers' = helpers \ {signaled} /\ signaled' = 0
                                     ELSE UNCHANGED <<helpers, signaled>>
          /\ waitState' = 0 /\ Return(0, "intr")
  /\ UNCHANGED <<last, wa, sigpid, ppid, kern, ncalls, nintr, during>>

\* Process.cpp:1268-1279  woken up on the condition variable (spurious wake-ups just loop: not a step)
WCond ==
  /\ wpc = "w_cond" /\ signaled # 0
  /\ IF signaled < 0 THEN Return(0, "intr")
     ELSE bad' = "ASSERT(signaled < 0)" /\ st' = st /\ wpc' = "ret" /\ wret' = 0
  /\ signaled' = 0 /\ waitState' = 0
  /\ UNCHANGED <<last, wa, sigpid, ppid, kern, helpers, ncalls, nintr, during>>

\* Process.cpp:1300-1307  waitid(P_ALL, WEXITED | WNOWAIT): the kernel reports SOME terminated child z, or fails with
\* ECHILD (z = 0) when the program has no children at all
WWaitid(z) ==
  /\ wpc = "w_waitid"
  /\ IF z = 0
     THEN /\ NoChildren /\ Return(0, "same") /\ UNCHANGED sigpid
     ELSE /\ z \in Zombies
          /\ LET hit == {i \in 1..Len(wa.set) : ppid[wa.set[i]] = z} IN
             IF hit # {} THEN Return(wa.set[CHOOSE i \in hit : \A j \in hit : i <= j], "same") /\ UNCHANGED sigpid
             ELSE IF Scan THEN wpc' = "w_scan" /\ sigpid' = z /\ UNCHANGED <<st, wret, bad>>
             ELSE GiveUp(z)
  /\ UNCHANGED <<last, wa, signaled, waitState, ppid, kern, helpers, ncalls, nintr, during>>

\* (fix X02/2) the reported child is not in the list: waitid(P_PID, .., WNOHANG) for every given process, in list order
WScan ==
  /\ wpc = "w_scan"
  /\ LET hit == {i \in 1..Len(wa.set) : ppid[wa.set[i]] # 0 /\ kern[ppid[wa.set[i]]] = "zombie"} IN
     IF hit # {} THEN Return(wa.set[CHOOSE i \in hit : \A j \in hit : i <= j], "same") /\ UNCHANGED sigpid
     ELSE GiveUp(sigpid)
  /\ UNCHANGED <<last, wa, signaled, waitState, ppid, kern, helpers, ncalls, nintr, during>>

\* Process.cpp:1308-1319  the reported child is not in the list: lock; reap it if it is the helper; waitState = 0
\* (w_relock: the reported child is the helper, the interrupt is consumed;  w_relock_d: it is some other child, the
\*  decision to return 0 without an interrupt was taken - and judged by Layer 1 - in GiveUp)
WRelock ==
  /\ wpc \in {"w_relock", "w_relock_d"}
  /\ IF sigpid = signaled
     THEN /\ IF signaled \in helpers THEN helpers' = helpers \ {signaled} /\ signaled' = 0
                                     ELSE UNCHANGED <<helpers, signaled>>
          /\ Return(0, "intr")
     ELSE /\ wpc' = "ret" /\ wret' = 0 /\ st' = st
          /\ bad' = IF wpc = "w_relock_d" THEN bad ELSE "helper child not recognised"
          /\ UNCHANGED <<helpers, signaled>>
  /\ waitState' = 0
  /\ UNCHANGED <<last, wa, sigpid, ppid, kern, ncalls, nintr, during>>

\* Process.cpp:424-449 join (waitpid blocks until the child is a zombie), 356-381 kill, 269-311 start
JoinStep ==
  /\ wpc = "j"
  /\ IF ppid[wa.c] = 0 THEN Return(0, "op") /\ UNCHANGED <<ppid, kern>>
     ELSE /\ kern[ppid[wa.c]] = "zombie"
          /\ kern' = [kern EXCEPT ![ppid[wa.c]] = "none"] /\ ppid' = [ppid EXCEPT ![wa.c] = 0]
          /\ Return(1, "op")
  /\ UNCHANGED <<last, wa, sigpid, signaled, waitState, helpers, ncalls, nintr, during>>
KillStep ==
  /\ wpc = "k"
  /\ IF ppid[wa.c] = 0 THEN Return(0, "op") /\ UNCHANGED <<ppid, kern>>
     ELSE /\ kern' = [kern EXCEPT ![ppid[wa.c]] = "none"] /\ ppid' = [ppid EXCEPT ![wa.c] = 0]
          /\ Return(1, "op")
  /\ UNCHANGED <<last, wa, sigpid, signaled, waitState, helpers, ncalls, nintr, during>>
StartStep ==
  /\ wpc = "s"
  /\ IF ppid[wa.c] # 0 THEN Return(0, "op") /\ UNCHANGED <<ppid, kern>>
     ELSE /\ kern' = [kern EXCEPT ![wa.c] = "running"] /\ ppid' = [ppid EXCEPT ![wa.c] = wa.c]
          /\ Return(wa.c, "op")
  /\ UNCHANGED <<last, wa, sigpid, signaled, waitState, helpers, ncalls, nintr, during>>

Ret(r) ==
  /\ wpc = "ret" /\ r = wret
  /\ wpc' = "idle"
  /\ UNCHANGED <<st, last, wa, wret, sigpid, signaled, waitState, ppid, kern, helpers, ncalls, nintr, during, bad>>

\* ---- the interrupting thread: Process.cpp:1332-1357, one critical section
\* (at most one Interrupt / Release begins inside one call of W: that is what the driver can reproduce)
Outside == wpc = "idle" \/ during = 0
Interrupt ==
  /\ nintr < MaxIntr /\ Outside
  /\ nintr' = nintr + 1
  /\ during' = IF wpc = "idle" THEN during ELSE 1
  /\ st' = [st EXCEPT !.intr = TRUE]
  /\ IF signaled # 0 THEN UNCHANGED <<signaled, helpers, bad>>
     ELSE IF waitState = 2
     THEN /\ signaled' = HelperPid                                   \* vfork(); the child _exit(0)s at once
          /\ helpers' = helpers \cup {HelperPid}
          /\ bad' = IF HelperPid \in helpers THEN "second helper child" ELSE bad
     ELSE signaled' = -1 /\ UNCHANGED <<helpers, bad>>               \* waitState 1: plus pthread_cond_signal
  /\ UNCHANGED <<last, wpc, wa, wret, sigpid, waitState, ppid, kern, ncalls>>

\* ---- the environment: the child with pid c terminates
Release(c) ==
  /\ kern[c] = "running" /\ Outside
  /\ kern' = [kern EXCEPT ![c] = "zombie"]
  /\ st' = ReleaseSt(st, c)
  /\ during' = IF wpc = "idle" THEN during ELSE 1
  /\ UNCHANGED <<last, wpc, wa, wret, sigpid, signaled, waitState, ppid, helpers, ncalls, nintr, bad>>

WInternal == WLock \/ WCond \/ (\E z \in {0, HelperPid} \cup H : WWaitid(z)) \/ WScan \/ WRelock \/ JoinStep \/ KillStep \/ StartStep
             \/ (\E r \in 0..N : Ret(r))
INext ==
  \/ \E set \in WaitSets : Call("wait", 0, set)
  \/ \E c \in H : Call("join", c, <<>>) \/ Call("kill", c, <<>>) \/ Call("start", c, <<>>)
  \/ WLock \/ WCond \/ (\E z \in {0, HelperPid} \cup H : WWaitid(z)) \/ WScan \/ WRelock \/ JoinStep \/ KillStep \/ StartStep
  \/ \E r \in 0..N : Ret(r)
  \/ Interrupt
  \/ \E c \in H : Release(c)
ISpec == IInit /\ [][INext]_allvars
IFairSpec == ISpec /\ WF_allvars(WInternal)

\* ---- properties
Refines == bad = ""
IntrInv == (signaled # 0) = st.intr                     \* no interrupt lost, none invented
HelperInv == helpers = IF signaled > 0 THEN {signaled} ELSE {}
KernInv == \A c \in H : /\ (kern[c] = "none") = (st.ph[c] = "idle") /\ (kern[c] = "zombie") = (st.ph[c] = "exited")
                        /\ ppid[c] = (IF kern[c] = "none" THEN 0 ELSE c) /\ ppid[c] = st.pid[c]
\* a thread inside wait() can always be woken up by interrupt(): in waitid() the interrupt comes as a helper child
\* (needs waitState = 2 and never the bare flag), on the condition variable as the flag (needs waitState = 1)
NoStuck == /\ wpc = "w_waitid" => waitState = 2 /\ signaled # -1
           /\ wpc = "w_cond" => waitState = 1 /\ signaled <= 0
InWait == wpc \in {"w_lock", "w_cond", "w_waitid", "w_scan", "w_relock", "w_relock_d"}
WaitReturns == [](InWait /\ st.intr => <>(~InWait))
\* a wait() that has a terminated child in its list returns as well
WaitReturnsChild == []((InWait /\ \E i \in 1..Len(wa.set) : st.ph[wa.set[i]] = "exited") => <>(~InWait))
=============================================================================
