SPECIFICATION TSpec
CONSTANTS U <- U_all
 Datas <- Datas_2
 MaxLen = 0
 Depth = 0
 OpsOn = {}
INVARIANT TInv
