-------------------------------- MODULE XmlValue --------------------------------
(* Layer 1 (property level) for the last clause of property C16: "copies of element values are independent of their
   source".  Three variables hold Xml::Variant values; a value is
       [t |-> "z", v |-> <<>>]  (null)  |  [t |-> "t", v |-> bytes]  (text)  |
       [t |-> "e", n |-> name, a |-> <<>>, c |-> <<value, ...>>]  (element)
   Values are VALUES: every operation changes the variable it is applied to and nothing else, whatever sharing the
   implementation uses underneath (reference counted payloads, lazy cloning in the mutable toElement()).            *)
EXTENDS Integers, Sequences, FiniteSets, TLC

Z == [t |-> "z", v |-> <<>>]
TextV(s) == [t |-> "t", v |-> s]
ElemV(n, c) == [t |-> "e", n |-> n, a |-> <<>>, c |-> c]
AsElem(v) == IF v.t = "e" THEN v ELSE ElemV(<<>>, <<>>)        \* what toElement() yields for a value that is no element
Set3(f, i, v) == [f EXCEPT ![i] = v]

Step(op, val, i, j, s) ==
  LET me == val[i]  el == AsElem(val[i]) IN
  CASE op = "vnull"    -> Set3(val, i, Z)
    [] op = "vtext"    -> Set3(val, i, TextV(s))
    [] op = "velem"    -> Set3(val, i, ElemV(s, <<>>))
    [] op = "vcopy"    -> Set3(val, i, val[j])                    \* copy construction
    [] op = "vassign"  -> Set3(val, i, val[j])                    \* copy assignment
    [] op = "vecopy"   -> Set3(val, i, AsElem(val[j]))            \* copy of the Element inside
    [] op = "vsettype" -> Set3(val, i, [el EXCEPT !.n = s])
    [] op = "vaddtext" -> Set3(val, i, [el EXCEPT !.c = Append(el.c, TextV(s))])
    [] op = "vaddchild" -> Set3(val, i, [el EXCEPT !.c = Append(el.c, val[j])])
    [] op = "vchildtype" -> Set3(val, i, IF el.c = <<>> THEN el
                                         ELSE [el EXCEPT !.c = <<[AsElem(el.c[1]) EXCEPT !.n = s]>> \o Tail(el.c)])
Init0 == [k \in 1..3 |-> Z]

--------------------------------------------------------------------------------
CONSTANTS NSlots, MaxSize
VARIABLES val, last
vars == <<val, last>>
RECURSIVE VSize(_)
VSize(v) == IF v.t = "e" THEN 1 + (IF v.c = <<>> THEN 0 ELSE VSize(v.c[1]) + VSize(ElemV(<<>>, Tail(v.c))) - 1) ELSE 1
Do(op, i, j, s) == val' = Step(op, val, i, j, s) /\ last' = <<op, i, j>>
Init == val = Init0 /\ last = <<"init", 0, 0>>
Next == \E i \in 1..NSlots :
          \/ Do("vnull", i, 0, <<>>)
          \/ \E s \in { <<120>> } : Do("vtext", i, 0, s) \/ Do("vaddtext", i, 0, s)
          \/ \E s \in { <<97>>, <<98>> } : Do("velem", i, 0, s) \/ Do("vsettype", i, 0, s) \/ Do("vchildtype", i, 0, s)
          \/ \E j \in 1..NSlots : Do("vcopy", i, j, <<>>) \/ Do("vassign", i, j, <<>>) \/ Do("vecopy", i, j, <<>>) \/ Do("vaddchild", i, j, <<>>)
Spec == Init /\ [][Next]_vars
Bound == \A k \in 1..3 : VSize(val[k]) <= MaxSize
TypeOK == \A k \in 1..3 : val[k].t \in {"z", "t", "e"}
\* independence: a step applied to variable i leaves every other variable unchanged
Independent == [][\A k \in 1..3 : k # last'[2] => val'[k] = val[k]]_vars
================================================================================
