SPECIFICATION Spec
INVARIANT RoundTrip
