-------------------------------- MODULE PurgeImpl --------------------------------
(* Layer 2 for extra X01: Directory::unlink(dir, recursive) and Directory::purge (POSIX branches of src/Directory.cpp)
   transcribed call by call over the Layer-1 tree, and compared with DirList!PurgeF on every purge step of every
   reachable state of DirList's stand-alone model (st.u = 1: readdir reports DT_UNKNOWN for every entry).
   rmdir / unlink / opendir / readdir / lstat are modelled by what they do to the tree:
     rmdir(p)  succeeds iff p is a directory without children (ENOTEMPTY iff it is a directory with children)
     unlink(p) succeeds iff p is a file or a symbolic link (never follows it)
   The entries of a directory are visited in one fixed order, "." and ".." first (with the corrected code the result
   does not depend on the order).
   Variant = "fixed": an entry of unknown type is asked with lstat() (build/fixes/X01-unlink-dt-unknown.patch);
   Variant = "repo":  isDir = (d_type == DT_DIR) only: on a file system that does not report types "." is handed to
                      File::unlink, which fails -- Refines is violated for u = 1.                                    *)
EXTENDS DirList

CONSTANT Variant

RmdirOK(tr, p) == Kind(tr, p) = "dir" /\ ~HasChild(tr, p)
RECURSIVE SeqOfSet(_)
SeqOfSet(S) == IF S = {} THEN <<>> ELSE LET x == CHOOSE x \in S : TRUE IN <<x>> \o SeqOfSet(S \ {x})
\* what readdir delivers for directory d: [n, self (one of "." / ".."), ty, isdir (what lstat would say)]
DirStream(tr, d, unk) ==
  LET ch == SeqOfSet(Children(tr, d))
      ent(x) == [p |-> x, dots |-> FALSE, ty |-> IF unk THEN "UNK" ELSE IF tr[x].t = "dir" THEN "DIR" ELSE IF tr[x].t = "file" THEN "REG" ELSE "LNK",
                 isdir |-> tr[x].t = "dir"]
      dot == [p |-> d, dots |-> TRUE, ty |-> IF unk THEN "UNK" ELSE "DIR", isdir |-> TRUE]
  IN <<dot, dot>> \o [j \in 1..Len(ch) |-> ent(ch[j])]

RECURSIVE UnlinkImpl(_, _, _, _), LoopImpl(_, _, _, _, _)
\* bool Directory::unlink(dir, recursive)  ->  [ok, tree]
UnlinkImpl(tr, d, rec, unk) ==
  IF RmdirOK(tr, d) THEN [ok |-> TRUE, tree |-> Without(tr, {d})]                           \* if(::rmdir(dir) == 0) return true;
  ELSE IF ~rec \/ ~(Kind(tr, d) = "dir" /\ HasChild(tr, d)) THEN [ok |-> FALSE, tree |-> tr] \* if(!recursive || errno != ENOTEMPTY)
  ELSE LET r == LoopImpl(tr, d, DirStream(tr, d, unk), 1, unk) IN                            \* opendir; for(;;) readdir ...
       IF ~r.ok THEN r
       ELSE IF RmdirOK(r.tree, d) THEN [ok |-> TRUE, tree |-> Without(r.tree, {d})]          \* return ::rmdir(dir) == 0;
       ELSE [ok |-> FALSE, tree |-> r.tree]
LoopImpl(tr, d, ds, j, unk) ==
  IF j > Len(ds) THEN [ok |-> TRUE, tree |-> tr]
  ELSE LET de == ds[j]
           isDir == IF de.ty = "UNK" /\ Variant = "fixed" THEN de.isdir ELSE de.ty = "DIR"
       IN IF isDir /\ de.dots THEN LoopImpl(tr, d, ds, j + 1, unk)                           \* "." / "..": continue
          ELSE IF isDir
          THEN LET r == UnlinkImpl(tr, de.p, TRUE, unk) IN
               IF r.ok THEN LoopImpl(r.tree, d, ds, j + 1, unk) ELSE r                       \* if(!unlink(prefix + str, true)) return false
          ELSE IF ~de.dots /\ Kind(tr, de.p) \in {"file", "linkF", "linkD", "linkX"}          \* File::unlink(prefix + str)
          THEN LoopImpl(Without(tr, {de.p}), d, ds, j + 1, unk)
          ELSE [ok |-> FALSE, tree |-> tr]
RECURSIVE ParentsImpl(_, _)
\* for(String i = getDirectoryName(path); i != "."; i = getDirectoryName(i)) if(rmdir(i) != 0) break;
ParentsImpl(tr, i) == IF i = <<>> THEN tr ELSE IF RmdirOK(tr, i) THEN ParentsImpl(Without(tr, {i}), Parent(i)) ELSE tr
PurgeImplF(tr, p, rec, unk) ==
  LET r == UnlinkImpl(tr, p, rec, unk) IN
  IF ~r.ok THEN r ELSE [ok |-> TRUE, tree |-> ParentsImpl(r.tree, Parent(p))]

Refines == [][last'.op = "purge" =>
               PurgeImplF(st.tree, last'.p, last'.k = 1, st.u = 1) = [ok |-> last'.o.r = 1, tree |-> st'.tree]]_vars
================================================================================
