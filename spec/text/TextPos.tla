-------------------------------- MODULE TextPos --------------------------------
(* Layer 1 (property level), shared by C15 and C16: "reports failure with a line and column that lie inside the text".
   A text is a tuple of byte codes WITHOUT its NUL terminator.  Offsets p range over 0..Len(t) (p = Len(t) is the
   position of the terminator).  A line ends after LF, after CR LF, or after a CR that is not followed by LF.
   PosInside(t, line, col): some offset of the text has exactly this line number and column (both 1-based).       *)
EXTENDS Integers, Sequences, FiniteSets

IsBreakEnd(t, i) == t[i] = 10 \/ (t[i] = 13 /\ ~(i < Len(t) /\ t[i + 1] = 10))
BreakEnds(t) == { i \in 1..Len(t) : IsBreakEnd(t, i) }
\* offset at which line number `line` starts, given the set B of break ends (1 <= line <= |B| + 1)
LineStartOf(B, line) == IF line = 1 THEN 0 ELSE CHOOSE i \in B : Cardinality({ j \in B : j <= i }) = line - 1
PosInside(t, line, col) ==
  LET B == BreakEnds(t) IN
  /\ line >= 1 /\ line <= Cardinality(B) + 1 /\ col >= 1
  /\ LET s == LineStartOf(B, line)
         p == s + col - 1
     IN p <= Len(t) /\ \A i \in B : ~(s < i /\ i <= p)
\* line and column of offset p (used by the implementation-shaped models to state their own invariants)
LineOfOffset(t, p) == 1 + Cardinality({ i \in BreakEnds(t) : i <= p })
ColOfOffset(t, p) == LET S == { i \in BreakEnds(t) : i <= p } IN
                     p - (IF S = {} THEN 0 ELSE CHOOSE i \in S : \A j \in S : j <= i) + 1
================================================================================
