------------------------------ MODULE ProcLife ------------------------------
(* Layer 1 (property level) for extra X02: the life cycle of child processes behind nstd's Process objects,
   Process::wait over several children, Process::interrupt and the environment variable functions.

   Abstract state
     ph[c]    phase of the child behind Process object (handle) c:
                "idle"     no child: never started, or joined / killed (= reaped)
                "running"  started, child has not terminated
                "exited"   child has terminated but has not been joined yet
     pid[c]   process id reported for c (0 when idle)
     code[c]  exit code the child behind c terminates with (chosen by the test when it starts the child)
     intr     a Process::interrupt() is pending (has not been consumed by a wait() that returned 0)
     env      reference map of the test's environment variables (value "" = not set)

   WHEN a child terminates is decided by the environment, not by the library: the action "release" (the driver lets the
   child exit and waits until the kernel reports it as terminated) moves running -> exited.

   Step(a, s) is the set of allowed outcomes of operation a (a record with the fields op, c, x, m, set, name, val) in
   state s.  An EMPTY set means: the operation must not return in state s (it blocks).

   Where the statement in extras.jsonl and the library differ / the documentation is silent (decisions, see report):
   * kill() is documented as "kill AND join": after a successful kill() the Process is idle again, so "a following
     join()" returns FALSE immediately like join() on a process that was never started (the statement only says that it
     returns).
   * wait() does not reap: the returned Process still isRunning() and is returned again by the next wait() until it is
     joined (both implementations).  That is what "without losing a terminated child" means here.
   * When an interrupt is pending AND a given child has terminated, wait() may return either (Windows prefers the
     interrupt, POSIX depends on which zombie the kernel reports first); the other one stays pending.
   * wait() with a non-empty list may return 0 WITHOUT an interrupt ("spurious") when a child of this program that is
     NOT in the list has terminated and was not joined yet, or when none of the listed processes has a child: the POSIX
     implementation waits with waitid(P_ALL) and gives up when the reported child is not in the list.  The header does
     not document wait() at all, so Layer 1 permits this (reported as a weakness, not as a violation) - but ONLY while no
     listed child has terminated: "each terminated child is returned by some call as long as it is waited for" (statement,
     and what the Windows implementation does) would otherwise be void, because on Linux an older unlisted zombie is
     reported first by every call and a terminated listed child would never be returned (finding X02/2).
   * start() on a Process that already has a child fails (returns 0, errno EINVAL in the code) and changes nothing.
   * setEnvironmentVariable(name, "") deletes the variable (both implementations) and, like every successful call,
     returns true.  Invalid names (empty, containing '=') cannot be set: the result is unspecified, the map unchanged.  *)
EXTENDS Naturals, Integers, Sequences, FiniteSets, TLC

CONSTANTS N,            \* number of Process objects, handles 1..N
          Names,        \* the valid variable names used by the test, a sequence in strcmp order
          ExplicitEnv   \* the explicit environment map given to start() with m = 1: sorted sequence of <<name, value>>

H == 1..N
NameSet == {Names[i] : i \in 1..Len(Names)}
Phase == {"idle", "running", "exited"}

Init0 == [ph |-> [c \in H |-> "idle"], pid |-> [c \in H |-> 0], code |-> [c \in H |-> 0], intr |-> FALSE,
          env |-> [n \in NameSet |-> ""]]

\* the environment as a child / getEnvironmentVariables sees it: the set variables in name order
EnvSeq(env) == LET all == [i \in 1..Len(Names) |-> <<Names[i], env[Names[i]]>>]
               IN SelectSeq(all, LAMBDA p : p[2] # "")

SetOf(q) == {q[i] : i \in 1..Len(q)}

\* an outcome: rk says how the result r is to be read ("eq": exactly r, "pid": any new non-zero process id, "any":
\* unspecified); xc = -1 / out = "*": unspecified;  s the successor state (pid of a started child filled in by Concrete)
Out(rk, r, xc, cenv, out, envv, s) == [rk |-> rk, r |-> r, xc |-> xc, cenv |-> cenv, out |-> out, envv |-> envv, s |-> s]
Plain(r, s) == Out("eq", r, -1, <<>>, "*", <<>>, s)

Reaped(s, c) == [s EXCEPT !.ph[c] = "idle", !.pid[c] = 0]
ReleaseSt(s, c) == IF c \in H /\ s.ph[c] = "running" THEN [s EXCEPT !.ph[c] = "exited"] ELSE s

WaitOutcomes(a, s) ==
  LET S == SetOf(a.set)
      done == {c \in S : s.ph[c] = "exited"}
      foreign == \E c \in H \ S : s.ph[c] = "exited"
      nothing == \A c \in S : s.ph[c] = "idle"
  IN   {Plain(c, s) : c \in done}                                              \* a given child that has terminated
  \cup (IF s.intr THEN {Plain(0, [s EXCEPT !.intr = FALSE])} ELSE {})          \* the pending interrupt, consumed
  \cup (IF S # {} /\ done = {} /\ (foreign \/ nothing) THEN {Plain(0, s)} ELSE {})   \* spurious (see above)
  \* otherwise: blocks

Step(a, s) ==
  CASE a.op = "start" ->
         IF s.ph[a.c] = "idle"
         THEN {Out("pid", 0, -1, IF a.m = 0 THEN EnvSeq(s.env) ELSE ExplicitEnv, "*", <<>>,
                   [s EXCEPT !.ph[a.c] = "running", !.code[a.c] = a.x])}
         ELSE {Plain(0, s)}
    [] a.op = "release" -> {Out("any", 0, -1, <<>>, "*", <<>>, ReleaseSt(s, a.c))}
    [] a.op = "join" ->
         IF s.ph[a.c] = "idle" THEN {Plain(0, s)}
         ELSE IF s.ph[a.c] = "exited" THEN {Out("eq", 1, s.code[a.c], <<>>, "*", <<>>, Reaped(s, a.c))}
         ELSE {}                                                                \* blocks until the child terminates
    [] a.op = "kill" ->
         IF s.ph[a.c] = "idle" THEN {Plain(0, s)} ELSE {Plain(1, Reaped(s, a.c))}
    [] a.op = "interrupt" -> {Out("any", 0, -1, <<>>, "*", <<>>, [s EXCEPT !.intr = TRUE])}
    [] a.op = "wait" -> WaitOutcomes(a, s)
    [] a.op = "setenv" ->
         IF a.name \in NameSet THEN {Plain(1, [s EXCEPT !.env[a.name] = a.val])}
         ELSE {Out("any", 0, -1, <<>>, "*", <<>>, s)}
    [] a.op = "getenv" ->
         IF a.name \in NameSet
         THEN {Out("any", 0, -1, <<>>, IF s.env[a.name] # "" THEN s.env[a.name] ELSE a.val, <<>>, s)}
         ELSE {Out("any", 0, -1, <<>>, "*", <<>>, s)}
    [] a.op = "getenvs" -> {Out("any", 0, -1, <<>>, "*", EnvSeq(s.env), s)}
    [] OTHER -> {}

\* the abstract state after outcome o was observed as event e (only the new process id comes from the observation)
Concrete(o, e) == IF o.rk = "pid" THEN [o.s EXCEPT !.pid[e.c] = e.r] ELSE o.s

\* observation e (a record logged by the driver) is explained by outcome o
Match(o, e) ==
  LET s2 == Concrete(o, e) IN
  /\ CASE o.rk = "eq" -> e.r = o.r
       [] o.rk = "pid" -> e.r > 0 /\ \A c \in H \ {e.c} : o.s.ph[c] # "idle" => o.s.pid[c] # e.r
       [] OTHER -> TRUE
  /\ (o.xc = -1 \/ e.xc = o.xc)
  /\ e.cenv = o.cenv
  /\ (o.out = "*" \/ e.out = o.out)
  /\ e.envv = o.envv
  /\ (e.op = "getenvs" => e.envok)
  \* projected state: isRunning / getProcessId of every handle, and what the kernel says about the child
  /\ \A c \in H : /\ (e.run[c] = 1) = (s2.ph[c] # "idle")
                  /\ e.pids[c] = s2.pid[c]
                  /\ (e.alive[c] = 1) = (s2.ph[c] # "idle")

-----------------------------------------------------------------------------
(* bounded stand-alone model *)
CONSTANTS Vals, Codes, WaitSets
VARIABLES st, last
vars == <<st, last>>

Arg(op, c, x, m, set, name, val) == [op |-> op, c |-> c, x |-> x, m |-> m, set |-> set, name |-> name, val |-> val]

StateOK(s) == /\ s.ph \in [H -> Phase]
              /\ s.intr \in BOOLEAN
              /\ \A c \in H : (s.ph[c] = "idle") = (s.pid[c] = 0)
              /\ \A c, d \in H : c # d /\ s.pid[c] # 0 => s.pid[c] # s.pid[d]
TypeOK == StateOK(st)

Init == st = Init0 /\ last = <<Arg("init", 0, 0, 0, <<>>, "", ""), 0>>

\* the stand-alone model gives the child behind handle c the process id 100 + c
Do(op, c, x, m, set, name, val) ==
  LET a == Arg(op, c, x, m, set, name, val) IN
  \E o \in Step(a, st) :
     /\ st' = IF o.rk = "pid" THEN [o.s EXCEPT !.pid[c] = 100 + c] ELSE o.s
     /\ last' = <<a, IF o.rk = "pid" THEN 100 + c ELSE o.r>>

Next ==
  \/ \E c \in H, x \in Codes, m \in {0, 1} : Do("start", c, x, m, <<>>, "", "")
  \/ \E c \in H : Do("release", c, 0, 0, <<>>, "", "") \/ Do("join", c, 0, 0, <<>>, "", "") \/ Do("kill", c, 0, 0, <<>>, "", "")
  \/ Do("interrupt", 0, 0, 0, <<>>, "", "")
  \/ \E set \in WaitSets : Do("wait", 0, 0, 0, set, "", "")
  \/ \E n \in NameSet, v \in Vals : Do("setenv", 0, 0, 0, <<>>, n, v)
  \/ \E n \in NameSet : Do("getenv", 0, 0, 0, <<>>, n, "dflt")
  \/ Do("getenvs", 0, 0, 0, <<>>, "", "")
Spec == Init /\ [][Next]_vars

\* a terminated child stays terminated (is never lost) until it is joined or killed
NoLostChild == [][\A c \in H : st.ph[c] = "exited" /\ st'.ph[c] # "exited"
                                => last'[1].op \in {"join", "kill"} /\ last'[1].c = c /\ last'[2] = 1]_vars
\* a pending interrupt is only consumed by a wait that returns 0
IntrConsumedByWait == [][st.intr /\ ~st'.intr => last'[1].op = "wait" /\ last'[2] = 0]_vars
\* wait only returns given processes that have terminated, and does not change them
WaitReturnsTerminated == [][last'[1].op = "wait" /\ last'[2] # 0
                             => /\ last'[2] \in SetOf(last'[1].set) /\ st.ph[last'[2]] = "exited" /\ st' = st]_vars
\* a child keeps its process id from start to join / kill
PidStable == [][\A c \in H : st.ph[c] # "idle" /\ st'.ph[c] # "idle" => st'.pid[c] = st.pid[c]]_vars

\* the graph dumped for replay identifies states by the abstract state alone (cfg: VIEW StView)
StView == st
\* definitions for the cfg files (a cfg cannot contain tuples)
NamesDef == <<"VX_A", "VX_B", "VX_C">>
NamesDef1 == <<"VX_A">>
ExplicitEnvDef == << <<"VX_A", "explicit=1">>, <<"VX_E1", "one">> >>
Injective(q) == \A i, j \in DOMAIN q : i # j => q[i] # q[j]
WaitSetsDef == {q \in UNION {[1..k -> H] : k \in 0..N} : Injective(q)}
=============================================================================
