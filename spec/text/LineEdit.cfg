SPECIFICATION Spec
CONSTANTS KeyNames = {"a", "b", "e2", "bs", "del", "left", "right", "home", "end", "up", "down", "enter", "tab", "pgup", "alt"}
 MaxBuf = 3
 MaxHist = 1
INVARIANT Inv
