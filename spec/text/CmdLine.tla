-------------------------------- MODULE CmdLine --------------------------------
(* Layer 1 (property level) for the command-line form of Process::start / Process::open (property C20): the
   quoting rules as a splitter from a command line to its words.

   Characters: a (any plain character), space, '"' and '\'.  The rules the property names:
     * words are separated by single spaces,
     * a word may contain double-quoted segments, inside which spaces do not separate,
     * inside a double-quoted segment \" stands for a double quote; any other character, including a backslash
       that is not followed by a double quote, stands for itself.
   Split(t) = [ok, words]: ok says that t is inside this domain (no leading/trailing/adjacent separators, quotes
   closed, no backslash outside quotes); only then the property fixes the words.  A word that consists of empty
   quoted segments only ("") is the empty word - the only way the form offers to pass an empty argument.  Outside the
   domain the trace spec merely requires that the process is started and finishes (no hang, no crash).       *)
EXTENDS Integers, Sequences, FiniteSets, TLC

SP == 32
QT == 34
BS == 92
Bad == [ok |-> FALSE, words |-> <<>>]
RECURSIVE Scan(_, _, _, _, _, _)
\* i: position, cur: word so far, begun: a word has started, inq: inside quotes
Scan(t, i, cur, begun, inq, words) ==
  IF i > Len(t) THEN (IF inq \/ ~begun THEN Bad ELSE [ok |-> TRUE, words |-> Append(words, cur)])
  ELSE LET c == t[i] IN
  IF ~inq THEN
    IF c = SP THEN (IF ~begun THEN Bad ELSE Scan(t, i + 1, <<>>, FALSE, FALSE, Append(words, cur)))
    ELSE IF c = QT THEN Scan(t, i + 1, cur, TRUE, TRUE, words)
    ELSE IF c = BS THEN Bad
    ELSE Scan(t, i + 1, Append(cur, c), TRUE, FALSE, words)
  ELSE
    IF c = QT THEN Scan(t, i + 1, cur, TRUE, FALSE, words)
    ELSE IF c = BS /\ i < Len(t) /\ t[i + 1] = QT THEN Scan(t, i + 2, Append(cur, QT), TRUE, TRUE, words)
    ELSE Scan(t, i + 1, Append(cur, c), TRUE, TRUE, words)
Split(t) == IF t = <<>> THEN [ok |-> TRUE, words |-> <<>>] ELSE Scan(t, 1, <<>>, FALSE, FALSE, <<>>)

\* e = [cl, started, jr, xc, rep, cargs]: the child was started with the tail cl and reported the words cargs
CmdWhy(e) == IF ~(e.started /\ e.jr /\ e.rep /\ e.xc = 0) THEN "cmd-not-run"
             ELSE IF Split(e.cl).ok /\ e.cargs # Split(e.cl).words THEN "cmd-words"
             ELSE "ok"

--------------------------------------------------------------------------------
\* Stand-alone model: sanity of the splitter on all command lines up to length CN.
CONSTANTS CN, CChars
Lines == UNION { [1..k -> CChars] : k \in 0..CN }
VARIABLES st, last
vars == <<st, last>>
Init == st \in Lines /\ last = 0
Next == UNCHANGED vars
Spec == Init /\ [][Next]_vars
RECURSIVE SumLen(_, _)
SumLen(ws, i) == IF i > Len(ws) THEN 0 ELSE Len(ws[i]) + SumLen(ws, i + 1)
\* the words are together not longer than the line; a line of plain characters and single spaces splits at the spaces
WordsOK == LET r == Split(st) IN r.ok => /\ SumLen(r.words, 1) + Len(r.words) <= Len(st) + 1
PlainOK == (\A i \in 1..Len(st) : st[i] \notin {QT, BS}) /\ Split(st).ok /\ st # <<>>
             => Len(Split(st).words) = 1 + Cardinality({ i \in 1..Len(st) : st[i] = SP })
================================================================================
