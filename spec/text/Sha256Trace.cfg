SPECIFICATION TSpec
INVARIANT TInv
