SPECIFICATION TSpec
CONSTANTS U = {}
 Pats = {}
 Raws = {}
 Xs = {}
 Ms = {}
 OpsOn = {}
