SPECIFICATION Spec
CONSTANTS B = 8
 L = 2
 MaxLen = 14
 MaxChunk = 4
 Bytes = {1, 2}
INVARIANT Prefix
INVARIANT PadShape
INVARIANT DigestOK
