------------------------------- MODULE InterruptAbs -------------------------------
(* Layer 1 for the interrupt clause of C14 over the events of harness/conc/scn_interrupt.cpp: run() never returns
   unless interrupted - every return needs its own interrupt() call that began before it (requests may coalesce, so
   there may be fewer returns than calls, never more); every run() in these scenarios has a request issued after it
   started, so it must return (the scheduler's verdict deadlock / budget decides that liveness part).          *)
EXTENDS Integers, Sequences, TLC
Init0 == [ints |-> 0, inrun |-> FALSE, rets |-> 0, calls |-> 0]
Step(ev, s) ==
  CASE ev.op = "setup" -> { Init0 }
    [] ev.op = "int_call" -> { [s EXCEPT !.ints = s.ints + 1] }
    [] ev.op = "run_call" -> IF ~s.inrun THEN { [s EXCEPT !.inrun = TRUE, !.calls = s.calls + 1] } ELSE {}
    [] ev.op = "run_ret" -> IF s.inrun /\ s.rets + 1 <= s.ints THEN { [s EXCEPT !.inrun = FALSE, !.rets = s.rets + 1] } ELSE {}
    [] ev.op = "end" -> IF ev.verdict = "done" /\ s.inrun THEN {} ELSE { s }
    [] OTHER -> { s }
================================================================================
