---------------------------- MODULE PollAbsTrace ----------------------------
(* Trace specification of the extra X04: validates executions recorded from the real Socket::Poll, Socket::inetAddr /
   inetNtoA and Error (harness/poll) against PollAbs and NetMisc.  An event Layer 1 does not allow is reported as
   <<"MISMATCH", line, why>>; the abstract state is re-synchronised from the observation.                       *)
EXTENDS PollAbs, NetMisc, Json, IOUtils
VARIABLES l, nbad, es
T == ndJsonDeserialize(IOEnv.TRACE)

PollOps == {"set", "remove", "clear", "intr", "ready", "open", "close", "poll", "pollreal"}
ArgS(e) == IF e.op \in {"set", "remove", "ready", "open", "close"} THEN e.s ELSE 0
ArgM(e) == IF e.op = "set" THEN KindsOf(e.m) ELSE IF e.op = "ready" THEN OsOf(e.b) ELSE {}

\* pollreal = clear; then poll really blocking in the kernel while another thread calls interrupt(): the poll must
\* return early (before half of its time-out), whatever the order in which the two calls reach the kernel
PollRealOK(e) == e.r = TRUE /\ e.ir = TRUE /\ e.sock = 0 /\ e.f = 0 /\ e.early = TRUE
AfterPollReal(s) == (CHOOSE o \in Step("clear", s, 0, {}) : TRUE).st

Allowed(e) ==
  IF e.op = "pollreal" THEN (IF PollRealOK(e) THEN {[st |-> AfterPollReal(st), out |-> NoOut]} ELSE {})
  ELSE { o \in Step(e.op, st, ArgS(e), ArgM(e)) :
           /\ e.op = "poll" => MatchPoll(o.out, e)
           /\ e.op = "intr" => e.r = TRUE
           /\ e.op \in {"open", "close"} => e.isopen = o.st.open[e.s] }
\* resynchronisation after a mismatch: believe the observation
Resync(e) ==
  IF e.op = "poll" /\ e.sock \in Socks /\ st.isreg[e.sock] THEN [st EXCEPT !.cand[e.sock] = May(st.mask[e.sock], st.os[e.sock])]
  ELSE IF e.op = "poll" THEN [st EXCEPT !.imin = 0, !.imax = 0]
  ELSE st
Why(e) == IF e.op = "poll" THEN "poll:" \o ObsKind(e) ELSE e.op

TInit == l = 1 /\ nbad = 0 /\ st = Init0 /\ es = MInit /\ last = <<"init", 0, {}, NoOut>>
TStep ==
  /\ l <= Len(T)
  /\ l' = l + 1
  /\ LET e == T[l] IN
     IF e.op = "reset" THEN st' = Init0 /\ es' = MInit /\ UNCHANGED <<nbad, last>>
     ELSE IF e.op \in MiscOps
     THEN /\ UNCHANGED <<st, last>>
          /\ es' = MNext(e, es)
          /\ IF MOk(e, es) THEN UNCHANGED nbad ELSE PrintT(<<"MISMATCH", l, e.op>>) /\ nbad' = nbad + 1
     ELSE LET allowed == Allowed(e) IN
          /\ es' = Touch(es, e.th)
          /\ IF allowed # {}
             THEN LET o == CHOOSE o \in allowed : TRUE IN st' = o.st /\ last' = <<e.op, ArgS(e), ArgM(e), o.out>> /\ UNCHANGED nbad
             ELSE /\ PrintT(<<"MISMATCH", l, Why(e)>>)
                  /\ st' = Resync(e) /\ nbad' = nbad + 1 /\ UNCHANGED last
TDone == l = Len(T) + 1 /\ PrintT(<<"TRACE-DONE", Len(T), nbad>>) /\ l' = l + 1 /\ UNCHANGED <<st, last, nbad, es>>
TNext == TStep \/ TDone
TSpec == TInit /\ [][TNext]_<<vars, l, nbad, es>>
\* Layer 1's own invariants on every observed state
TInv == TypeOK /\ Purged /\ ReadyIsCand
================================================================================
