---------------------------- MODULE ByteStreamTrace ----------------------------
(* Trace specification for C13 (events logged by harness/server/drv_server.cpp validated against ByteStream). *)
EXTENDS ByteStream, Json, IOUtils
VARIABLES l, st, skip, nbad
T == ndJsonDeserialize(IOEnv.TRACE)
HasC(ev) == ev.op \in {"pair", "onAccepted", "onConnected", "send", "write", "onWrite", "onRead", "onClosed", "suspend", "resume", "remove", "psend", "pclose", "pread", "check"}
TInit == l = 1 /\ st = Init0 /\ skip = FALSE /\ nbad = 0
TStep ==
  /\ l <= Len(T) /\ l' = l + 1
  /\ LET ev == T[l] IN
     IF ev.op = "reset" THEN st' = Init0 /\ skip' = FALSE /\ UNCHANGED nbad
     ELSE IF skip \/ ~HasC(ev) THEN UNCHANGED <<st, skip, nbad>>
     ELSE LET succ == Step(ev, st) IN
          IF succ # {} THEN st' = (CHOOSE o \in succ : TRUE) /\ UNCHANGED <<skip, nbad>>
          ELSE PrintT(<<"MISMATCH", l, ev.op>>) /\ skip' = TRUE /\ nbad' = nbad + 1 /\ UNCHANGED st
TDone == l = Len(T) + 1 /\ PrintT(<<"TRACE-DONE", Len(T), nbad>>) /\ l' = l + 1 /\ UNCHANGED <<st, skip, nbad>>
TSpec == TInit /\ [][TStep \/ TDone]_<<l, st, skip, nbad>>
TInv == Inv(st)
================================================================================
