------------------------------- MODULE NetMisc -------------------------------
(* Layer 1 for the small helpers of the extra X04.
   (a) Socket::inetNtoA / inetAddr: IPv4 number <-> dotted decimal text as a pure function.  TLC integers are 32 bit:
       an address is the pair (hi, lo) of its 16-bit halves.  Texts are tuples of byte codes.
       Only CANONICAL texts (what inetNtoA produces: four decimal octets without leading zeros, optionally ":" and a
       decimal port 0..65535 without leading zeros) are constrained; inet_addr's other notations (octal, hex, fewer
       than four parts) are not documented for inetAddr: nothing is demanded for them.
   (b) Error::setLastError / getLastError (Socket::setLastError / getLastError are the same per-thread value on
       POSIX), Error::setErrorString / getErrorString: a reference map per thread.
         last[t]  the thread's last error code, Unknown (-1) when the statement promises nothing (after any other
                  library call on that thread; the main thread 0 does the driver's I/O: always unknown)
         str[t]   the thread's error string, UnknownStr when nothing is promised (a re-spawned thread)
       setErrorString also sets the last error to 0x10000 (that is how getErrorString() finds the string).      *)
EXTENDS Integers, Sequences, FiniteSets

Threads == 0..2
Unknown == -1
UnknownStr == <<-1>>
UserError == 65536

RECURSIVE DecText(_)
DecText(n) == IF n < 10 THEN <<48 + n>> ELSE DecText(n \div 10) \o <<48 + (n % 10)>>
Dotted(hi, lo) == DecText(hi \div 256) \o <<46>> \o DecText(hi % 256) \o <<46>> \o DecText(lo \div 256) \o <<46>> \o DecText(lo % 256)

RECURSIVE DecVal(_)
DecVal(q) == IF q = <<>> THEN 0 ELSE DecVal(SubSeq(q, 1, Len(q) - 1)) * 10 + (q[Len(q)] - 48)
CanonNum(q, max) == /\ Len(q) \in 1..5 /\ \A i \in 1..Len(q) : q[i] \in 48..57
                    /\ (Len(q) > 1 => q[1] # 48) /\ DecVal(q) <= max
FirstIdx(q, c) == IF \E i \in 1..Len(q) : q[i] = c THEN CHOOSE i \in 1..Len(q) : q[i] = c /\ \A j \in 1..(i - 1) : q[j] # c ELSE 0
RECURSIVE Fields(_, _)
Fields(q, c) == LET i == FirstIdx(q, c) IN IF i = 0 THEN <<q>> ELSE <<SubSeq(q, 1, i - 1)>> \o Fields(SubSeq(q, i + 1, Len(q)), c)

\* [ok, hi, lo, hasport, port] for a text; ok = the text is canonical
ParseAddr(t) ==
  LET i == FirstIdx(t, 58)
      a == IF i = 0 THEN t ELSE SubSeq(t, 1, i - 1)
      p == IF i = 0 THEN <<>> ELSE SubSeq(t, i + 1, Len(t))
      f == Fields(a, 46)
      ok == /\ Len(f) = 4 /\ \A k \in 1..4 : CanonNum(f[k], 255)
            /\ (i # 0 => CanonNum(p, 65535))
  IN IF ok THEN [ok |-> TRUE, hi |-> DecVal(f[1]) * 256 + DecVal(f[2]), lo |-> DecVal(f[3]) * 256 + DecVal(f[4]),
                 hasport |-> i # 0, port |-> IF i # 0 THEN DecVal(p) ELSE 0]
     ELSE [ok |-> FALSE, hi |-> 0, lo |-> 0, hasport |-> FALSE, port |-> 0]

MiscOps == {"ntoa", "rt", "addr", "seterr", "geterr", "setstr", "getstr", "respawn"}
MInit == [last |-> [t \in Threads |-> Unknown], str |-> [t \in Threads |-> <<>>]]

\* is the observed event e allowed in state es
MOk(e, es) ==
  CASE e.op = "ntoa"   -> e.t = Dotted(e.hi, e.lo)
    [] e.op = "rt"     -> e.t = Dotted(e.hi, e.lo) /\ e.rhi = e.hi /\ e.rlo = e.lo
    [] e.op = "addr"   -> LET r == ParseAddr(e.t) IN r.ok => (e.hi = r.hi /\ e.lo = r.lo /\ (r.hasport => e.port = r.port))
    [] e.op = "geterr" -> es.last[e.th] = Unknown \/ e.code = es.last[e.th]
    [] e.op = "getstr" -> IF e.mode = 1 \/ es.last[e.th] = UserError
                          THEN es.str[e.th] = UnknownStr \/ e.t = es.str[e.th]
                          ELSE TRUE          \* the system's text for an ordinary code (or the code is not known)
    [] OTHER -> TRUE
\* the state after the event (from the observation when the reference did not know)
Main(es) == [es EXCEPT !.last[0] = Unknown]
MNext(e, es) ==
  Main(CASE e.op = "seterr" -> [es EXCEPT !.last[e.th] = e.code]
         [] e.op = "geterr" -> [es EXCEPT !.last[e.th] = e.code]
         [] e.op = "setstr" -> [es EXCEPT !.str[e.th] = e.t, !.last[e.th] = UserError]
         [] e.op = "getstr" -> [es EXCEPT !.last[e.th] = Unknown,
                                          !.str[e.th] = IF e.mode = 1 THEN e.t ELSE @]
         [] e.op = "respawn" -> [es EXCEPT !.last[e.th] = Unknown, !.str[e.th] = UnknownStr]
         [] OTHER -> es)
\* any other library call executed by thread t
Touch(es, t) == [es EXCEPT !.last[t] = Unknown, !.last[0] = Unknown]

\* sanity of the pure functions (checked by TLC for sample values in PollAbs.cfg via ASSUME)
ASSUME Dotted(49320, 257) = <<49, 57, 50, 46, 49, 54, 56, 46, 49, 46, 49>>
ASSUME LET r == ParseAddr(<<49, 46, 50, 46, 51, 46, 52, 58, 56, 48>>) IN r.ok /\ r.hi = 258 /\ r.lo = 772 /\ r.port = 80
ASSUME ~ParseAddr(<<48, 49, 46, 50, 46, 51, 46, 52>>).ok /\ ~ParseAddr(<<49, 46, 50, 46, 51>>).ok /\ ~ParseAddr(<<50, 53, 54, 46, 50, 46, 51, 46, 52>>).ok
ASSUME \A hi \in {0, 1, 255, 256, 2560, 65535}, lo \in {0, 9, 10, 99, 100, 65535} :
          LET r == ParseAddr(Dotted(hi, lo)) IN r.ok /\ r.hi = hi /\ r.lo = lo
================================================================================
