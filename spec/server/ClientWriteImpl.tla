---------------------------- MODULE ClientWriteImpl ----------------------------
(* Layer 2 (implementation shaped) model of one Server client, transcribed from src/Socket/Server.cpp:
   ClientImpl::write / suspend / resume / read and the write-ready, read-ready and closing branches of
   Private::run, against an operating system whose send() may refuse (W), take part (P k), take everything (F),
   fail (E) or return 0 (Z).  State: the send buffer length sb (its content is determined: the accepted stream from
   position acc - sb), the suspended flag, the interest set registered with the poll object, the closing set.
   Each action emits the events the harness would observe and feeds them to Layer 1 (ByteStream!Step); refOK
   records whether Layer 1 allowed all of them.                                                             *)
EXTENDS ByteStream
CONSTANTS MaxN, MaxAcc, MaxPeer
VARIABLES st, sb, susp, rd, wr, closing, alive, pend, pclosed, refOK
vars == <<st, sb, susp, rd, wr, closing, alive, pend, pclosed, refOK>>
Outcomes == {<<"W", 0>>, <<"F", 0>>, <<"E", 0>>, <<"Z", 0>>} \cup { <<"P", k>> : k \in 1..(MaxN - 1) }
Min(a, b) == IF a < b THEN a ELSE b

\* what the OS takes of n offered bytes under outcome o; -1 = failure
Taken(o, n) == CASE o[1] = "W" -> 0 [] o[1] = "F" -> n [] o[1] = "P" -> Min(o[2], n) [] OTHER -> -1
Ret(o, n) == CASE o[1] = "W" -> -1 [] o[1] = "Z" -> 0 [] o[1] = "E" -> -1 [] OTHER -> Taken(o, n)

RECURSIVE Feed(_, _)
Feed(r, evs) == IF evs = <<>> \/ ~r.ok THEN r
                ELSE LET succ == Step(Head(evs), r.s) IN
                     IF succ = {} THEN [ok |-> FALSE, s |-> r.s] ELSE Feed([ok |-> TRUE, s |-> CHOOSE o \in succ : TRUE], Tail(evs))
Emit(evs) == LET r == Feed([ok |-> TRUE, s |-> st], evs) IN /\ refOK' = (refOK /\ r.ok) /\ st' = r.s

Acc == st[1].acc
Wire == st[1].wire
EvSend(req, o, inwrite) ==
  LET t == Taken(o, req) IN
  [op |-> "send", c |-> 1, req |-> req, o |-> o[1], ret |-> Ret(o, req), b |-> Stream(Wire, IF t > 0 THEN t ELSE 0), inwrite |-> inwrite,
   fail |-> o[1] \in {"E", "Z"}]
\* once the peer has closed its end the operating system refuses real sends (EPIPE): F and P behave like E
Eff(o) == IF pclosed /\ o[1] \in {"F", "P"} THEN <<"E", 0>> ELSE o

Pair == /\ ~alive /\ st[1] = InitC
        /\ alive' = TRUE /\ sb' = 0 /\ susp' = FALSE /\ rd' = TRUE /\ wr' = FALSE /\ closing' = FALSE /\ pend' = 0 /\ pclosed' = FALSE
        /\ Emit(<< [op |-> "pair", c |-> 1, ok |-> TRUE] >>)

\* ---- ClientImpl::write(data, n, &postponed)
Write(n, o0) ==
  /\ alive /\ Acc + n <= MaxAcc
  /\ LET o == Eff(o0) IN
     IF sb = 0
     THEN LET t == Taken(o, n) IN
          IF t < 0
          THEN /\ closing' = TRUE /\ UNCHANGED <<sb, rd, wr>>
               /\ Emit(<< EvSend(n, o, n), [op |-> "write", c |-> 1, n |-> n, r |-> FALSE, post |-> 0, sb |-> 0] >>)
          ELSE IF t >= n
          THEN /\ UNCHANGED <<sb, rd, wr, closing>>
               /\ Emit(<< EvSend(n, o, n), [op |-> "write", c |-> 1, n |-> n, r |-> TRUE, post |-> 0, sb |-> 0] >>)
          ELSE /\ sb' = n - t /\ rd' = ~susp /\ wr' = TRUE /\ UNCHANGED closing
               /\ Emit(<< EvSend(n, o, n), [op |-> "write", c |-> 1, n |-> n, r |-> TRUE, post |-> n - t, sb |-> n - t] >>)
     ELSE /\ sb' = sb + n /\ UNCHANGED <<rd, wr, closing>>
          /\ Emit(<< [op |-> "write", c |-> 1, n |-> n, r |-> TRUE, post |-> sb + n, sb |-> sb + n] >>)
  /\ UNCHANGED <<susp, alive, pend, pclosed>>

\* ---- run(): the poll object reports the client writable (only if write interest is registered)
\* the closing branch runs at the top of the next loop iteration; the harness removes a client in onClosed
CloseEvents == << [op |-> "onClosed", c |-> 1], [op |-> "remove", c |-> 1] >>
LoopWrite(o0) ==
  /\ alive /\ wr /\ ~closing
  /\ LET o == Eff(o0) IN
     IF sb > 0
     THEN LET t == Taken(o, sb) IN
          IF o[1] = "W" THEN /\ Emit(<< EvSend(sb, o, 0) >>) /\ UNCHANGED <<sb, rd, wr, closing, alive>>
          ELSE IF t < 0
          THEN \* failure: buffer freed, socket removed from the poll set, onClosed (the harness then removes the client)
               /\ sb' = 0 /\ rd' = FALSE /\ wr' = FALSE /\ alive' = FALSE /\ UNCHANGED closing
               /\ Emit(<< EvSend(sb, o, 0) >> \o CloseEvents)
          ELSE IF t = sb
          THEN /\ sb' = 0 /\ rd' = ~susp /\ wr' = FALSE /\ UNCHANGED <<closing, alive>>
               /\ Emit(<< EvSend(sb, o, 0), [op |-> "onWrite", c |-> 1, sb |-> 0] >>)
          ELSE /\ sb' = sb - t /\ UNCHANGED <<rd, wr, closing, alive>> /\ Emit(<< EvSend(sb, o, 0) >>)
     ELSE /\ rd' = ~susp /\ wr' = FALSE /\ UNCHANGED <<sb, closing, alive>> /\ Emit(<< [op |-> "onWrite", c |-> 1, sb |-> 0] >>)
  /\ UNCHANGED <<susp, pend, pclosed>>

\* pending closing clients are served before the loop polls again
ServeClosing ==
  /\ alive /\ closing
  /\ closing' = FALSE /\ alive' = FALSE /\ rd' = FALSE /\ wr' = FALSE /\ sb' = 0
  /\ Emit(CloseEvents) /\ UNCHANGED <<susp, pend, pclosed>>

Suspend == /\ alive /\ ~susp /\ susp' = TRUE /\ rd' = FALSE /\ wr' = (sb > 0)
           /\ Emit(<< [op |-> "suspend", c |-> 1, susp |-> TRUE, sb |-> sb] >>) /\ UNCHANGED <<sb, closing, alive, pend, pclosed>>
Resume == /\ alive /\ susp /\ susp' = FALSE /\ rd' = TRUE /\ wr' = (sb > 0)
          /\ Emit(<< [op |-> "resume", c |-> 1, susp |-> FALSE, sb |-> sb] >>) /\ UNCHANGED <<sb, closing, alive, pend, pclosed>>

PeerSend(n) == /\ alive /\ ~pclosed /\ st[1].pin + n <= MaxPeer /\ pend' = pend + n
               /\ Emit(<< [op |-> "psend", c |-> 1, ret |-> n] >>) /\ UNCHANGED <<sb, susp, rd, wr, closing, alive, pclosed>>
PeerClose == /\ alive /\ ~pclosed /\ pclosed' = TRUE /\ Emit(<< [op |-> "pclose", c |-> 1] >>)
             /\ UNCHANGED <<sb, susp, rd, wr, closing, alive, pend>>
\* run(): the client is reported readable (only with read interest); the harness' onRead reads once
LoopRead ==
  /\ alive /\ rd /\ ~closing /\ (pend > 0 \/ pclosed)
  /\ IF pend > 0
     THEN /\ pend' = 0 /\ UNCHANGED closing
          /\ Emit(<< [op |-> "onRead", c |-> 1, noread |-> FALSE, r |-> TRUE, b |-> PStream(st[1].pgot, pend), peek |-> 1] >>)
     ELSE /\ closing' = TRUE /\ UNCHANGED pend
          /\ Emit(<< [op |-> "onRead", c |-> 1, noread |-> FALSE, r |-> FALSE, b |-> <<>>, peek |-> 0] >>)
  /\ UNCHANGED <<sb, susp, rd, wr, alive, pclosed>>
PeerRead(k) == /\ alive /\ st[1].got + k <= Wire /\ k > 0
               /\ Emit(<< [op |-> "pread", c |-> 1, b |-> Stream(st[1].got, k)] >>)
               /\ UNCHANGED <<sb, susp, rd, wr, closing, alive, pend, pclosed>>

Init == /\ st = Init0 /\ sb = 0 /\ susp = FALSE /\ rd = FALSE /\ wr = FALSE /\ closing = FALSE /\ alive = FALSE
        /\ pend = 0 /\ pclosed = FALSE /\ refOK = TRUE
Next == \/ Pair
        \/ \E n \in 1..MaxN, o \in Outcomes : Write(n, o)
        \/ \E o \in Outcomes : LoopWrite(o)
        \/ ServeClosing
        \/ Suspend \/ Resume
        \/ \E n \in 1..2 : PeerSend(n)
        \/ PeerClose
        \/ LoopRead
        \/ \E k \in 1..MaxN : PeerRead(k)
Spec == Init /\ [][Next]_vars

\* ---- invariants
RefinementOK == refOK                                     \* every event sequence of the code is allowed by C13's Layer 1
BacklogOK == (alive /\ ~st[1].broken) => sb = Acc - Wire                     \* reported backlog = accepted bytes not yet handed to the OS
InterestOK == alive => /\ wr = (sb > 0)                   \* write interest exactly while there is a backlog
                       /\ rd = ~susp                      \* read interest exactly while not suspended
L1Inv == Inv(st)
================================================================================
