SPECIFICATION FairSpec
CONSTANTS NI = 1
 NRuns = 1
 Pre = FALSE
INVARIANTS NoFailure EfdBound
PROPERTY AllReturn
