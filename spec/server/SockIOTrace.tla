---------------------------- MODULE SockIOTrace ----------------------------
(* Trace specification of the extra X06: validates executions recorded from the real Socket on loopback TCP / UDP
   (harness/sockio) against SockIO.  An event Layer 1 does not allow is reported as <<"MISMATCH", line, why>>; the
   abstract state is re-synchronised from the observation so that the rest of the trace is still checked.        *)
EXTENDS SockIO, Json, IOUtils
VARIABLES l, nbad
T == ndJsonDeserialize(IOEnv.TRACE)

ResOf(e) == IF e.r >= 0 THEN e.r ELSE IF e.err = 0 THEN WB ELSE ERR
Huge(e) == e.op \in {"sendhuge", "recvhuge", "usendtohuge", "urecvhuge"}
\* canonical operation and arguments of an event
OpOf(e) == CASE e.op \in {"send", "sendhuge"} -> "send" [] e.op \in {"recv", "recvhuge"} -> "recv"
             [] e.op \in {"usendto", "usendtohuge"} -> "usendto" [] e.op \in {"urecv", "urecvhuge"} -> "urecv"
             [] OTHER -> e.op
ArgA(e) == CASE e.op = "conn" -> e.c
             [] e.op \in {"send", "sendhuge", "recv", "recvhuge", "close", "shutwr", "drained"} -> e.e
             [] e.op \in {"uopen", "usendto", "usendtohuge", "urecv", "urecvhuge", "uclose"} -> e.u
             [] OTHER -> 0
ArgB(e) == CASE e.op = "conn" -> e.nbA
             [] Huge(e) -> <<e.hi, e.lo>>
             [] e.op \in {"send", "usendto"} -> SzOf(e.n)
             [] e.op \in {"recv", "urecv"} -> SzOf(e.max)
             [] OTHER -> 0
ArgC(e) == CASE e.op = "conn" -> e.nbB
             [] e.op \in {"recv", "recvhuge"} -> e.min
             [] e.op = "uopen" -> e.nb
             [] e.op \in {"usendto", "usendtohuge"} -> e.v
             [] e.op \in {"urecv", "urecvhuge"} -> e.id
             [] OTHER -> 0
ArgR(e) == IF OpOf(e) \in {"send", "recv", "usendto", "urecv"} THEN ResOf(e) ELSE 0
ArgD(e) == IF OpOf(e) = "usendto" THEN e.port ELSE 0

\* the part of the observation that is not an argument of Allowed
ObsOK(e) ==
  CASE e.op = "conn" -> ConnObsOK(e)
    [] OpOf(e) = "send" -> e.off = st.ep[e.e].sent                          \* (the harness generated the right bytes)
    [] OpOf(e) = "recv" -> /\ e.off = st.ep[e.e].rcvd
                           /\ e.r > 0 => (e.mis = -1 /\ e.head = Stream(Peer(e.e), e.off, MinOf(e.r, HeadLen)))
    [] e.op = "close" -> e.isopen = FALSE
    [] e.op = "opt" -> OptObsOK(e)
    [] e.op = "uopen" -> e.ok /\ e.isopen /\ (e.bound => (e.ip = Loopback /\ e.port # 0))
    [] OpOf(e) = "usendto" -> e.id = Len(st.dgs) + 1 /\ (e.r >= 0 => e.port # 0)
    [] OpOf(e) = "urecv" -> RecvFromObsOK(st, e)
    [] e.op = "uclose" -> e.isopen = FALSE
    [] OTHER -> TRUE

NoState(e) == e.op \in {"skip", "opt"}
AfterOpt(s, e) ==
  IF e.which = 0 /\ e.r /\ e.isopen
  THEN (IF e.kind = 0 THEN [s EXCEPT !.ep[e.idx].nb = TRUE] ELSE [s EXCEPT !.ud[e.idx].nb = TRUE])
  ELSE s
Believe(e) ==       \* the state after the event, whatever Layer 1 thinks of it (kept inside the invariants)
  IF e.op = "skip" THEN st
  ELSE IF e.op = "opt" THEN AfterOpt(st, e)
  ELSE IF OpOf(e) = "recv" /\ ResOf(e) > Pend(st, e.e) THEN [st EXCEPT !.ep[e.e].rcvd = st.ep[Peer(e.e)].sent]
  ELSE IF OpOf(e) = "urecv" /\ e.id \notin st.flight[e.u] THEN st
  ELSE Apply(OpOf(e), st, ArgA(e), ArgB(e), ArgC(e), ArgR(e), ArgD(e))
EventOK(e) ==
  IF NoState(e) THEN ObsOK(e)
  ELSE Allowed(OpOf(e), st, ArgA(e), ArgB(e), ArgC(e), ArgR(e)) /\ ObsOK(e)

TInit == l = 1 /\ nbad = 0 /\ st = Init0 /\ last = <<"init", 0, 0, 0, 0>>
TStep ==
  /\ l <= Len(T)
  /\ l' = l + 1
  /\ UNCHANGED last
  /\ LET e == T[l] IN
     IF e.op = "reset" THEN st' = Init0 /\ UNCHANGED nbad
     ELSE /\ st' = Believe(e)
          /\ IF EventOK(e) THEN UNCHANGED nbad
             ELSE PrintT(<<"MISMATCH", l, e.op>>) /\ nbad' = nbad + 1
TDone == l = Len(T) + 1 /\ PrintT(<<"TRACE-DONE", Len(T), nbad>>) /\ l' = l + 1 /\ UNCHANGED <<st, last, nbad>>
TNext == TStep \/ TDone
TSpec == TInit /\ [][TNext]_<<vars, l, nbad>>
\* Layer 1's own invariants on every observed state
TInv == PrefixInv /\ EofInv /\ FlightInv
================================================================================
