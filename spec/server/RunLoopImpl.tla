------------------------------ MODULE RunLoopImpl ------------------------------
(* Layer 2 (implementation shaped) model of the timer part of Server::Private::run / time / remove(TimerImpl&),
   transcribed from src/Socket/Server.cpp:
     q      the _queuedTimers multimap as the sequence of <<due, timer>> in iteration order (equal keys in insertion
            order; timer 0 is the "default timeout" entry)
     rec    the TimerImpl records: executionTime and interval
     the run loop: "now" is read once per iteration; due entries are popped, re-queued BEFORE the callback runs and
     the callback may remove itself / another timer / add a timer; then the loop polls with timeout = front - now.
   remove() searches from the first entry with the timer's executionTime forward while the key is equal (this relies
   on MultiMap::find returning the first equal entry).
   Each action emits the events the harness would observe and feeds them to Layer 1 (LoopAbs!Step).            *)
EXTENDS LoopAbs
CONSTANTS Ivs, MaxNow, MaxSteps
VARIABLES st, q, rec, now, loopNow, pc, steps, refOK
vars == <<st, q, rec, now, loopNow, pc, steps, refOK>>

RECURSIVE Feed(_, _)
Feed(r, evs) == IF evs = <<>> \/ ~r.ok THEN r
                ELSE LET succ == Step(Head(evs), r.s) IN
                     IF succ = {} THEN [ok |-> FALSE, s |-> r.s] ELSE Feed([ok |-> TRUE, s |-> CHOOSE o \in succ : TRUE], Tail(evs))
Emit(evs) == LET r == Feed([ok |-> TRUE, s |-> st], evs) IN /\ refOK' = (refOK /\ r.ok) /\ st' = r.s

Alive(t) == rec[t].alive
\* MultiMap::insert(key, value): after all entries with key <= the new key
Ins(qq, due, t) == LET k == Cardinality({ i \in DOMAIN qq : qq[i][1] <= due }) IN
                   SubSeq(qq, 1, k) \o << <<due, t>> >> \o SubSeq(qq, k + 1, Len(qq))
RemoveAt(qq, i) == SubSeq(qq, 1, i - 1) \o SubSeq(qq, i + 1, Len(qq))
\* Server::remove(TimerImpl&): from the first entry with key = executionTime, forward while the key is equal
QRemove(qq, t) == LET c == { i \in DOMAIN qq : qq[i][1] = rec[t].due /\ qq[i][2] = t } IN
                  IF c = {} THEN qq ELSE RemoveAt(qq, CHOOSE i \in c : \A j \in c : i <= j)

EvTimer(t, iv) == [op |-> "timer", t |-> t, iv |-> iv, now |-> now]
EvRm(t) == [op |-> "rmtimer", t |-> t]

\* ---- top level
Time(t, iv) == /\ pc = "idle" /\ ~Alive(t)
               /\ rec' = [rec EXCEPT ![t] = [alive |-> TRUE, due |-> now + iv, iv |-> iv]]
               /\ q' = Ins(q, now + iv, t) /\ Emit(<< EvTimer(t, iv) >>) /\ UNCHANGED <<now, loopNow, pc, steps>>
Remove(t) == /\ pc = "idle" /\ Alive(t)
             /\ q' = QRemove(q, t) /\ rec' = [rec EXCEPT ![t].alive = FALSE]
             /\ Emit(<< EvRm(t) >>) /\ UNCHANGED <<now, loopNow, pc, steps>>
Advance(d) == /\ pc = "idle" /\ now + d <= MaxNow /\ now' = now + d /\ UNCHANGED <<st, q, rec, loopNow, pc, steps, refOK>>
BeginRun(k) == /\ pc = "idle" /\ pc' = "timers" /\ steps' = k /\ loopNow' = now
               /\ Emit(<< [op |-> "run"] >>) /\ UNCHANGED <<q, rec, now>>

\* ---- inside run(): the front entry is due: pop, re-queue, call back; the callback performs action a
Acts == {<<"nop", 0, 0>>, <<"rmself", 0, 0>>} \cup { <<"rm", t, 0>> : t \in Ts } \cup { <<"add", t, iv>> : t \in Ts, iv \in Ivs }
Fire(a) ==
  /\ pc = "timers" /\ q # <<>> /\ q[1][1] <= loopNow /\ q[1][2] # 0
  /\ LET t == q[1][2]
         rec1 == [rec EXCEPT ![t].due = @ + rec[t].iv]
         q1 == Ins(Tail(q), rec1[t].due, t)
         victim == IF a[1] = "rmself" THEN t ELSE IF a[1] = "rm" THEN a[2] ELSE 0
     IN /\ (a[1] = "rm" => (a[2] # t /\ rec1[a[2]].alive))
        /\ (a[1] = "add" => (~rec1[a[2]].alive /\ now + a[3] <= MaxNow + 2))
        /\ IF victim # 0
           THEN /\ q' = (LET c == { i \in DOMAIN q1 : q1[i][1] = rec1[victim].due /\ q1[i][2] = victim } IN
                         IF c = {} THEN q1 ELSE RemoveAt(q1, CHOOSE i \in c : \A j \in c : i <= j))
                /\ rec' = [rec1 EXCEPT ![victim].alive = FALSE]
                /\ Emit(<< [op |-> "fired", t |-> t, now |-> now], EvRm(victim) >>)
           ELSE IF a[1] = "add"
           THEN /\ q' = Ins(q1, now + a[3], a[2])
                /\ rec' = [rec1 EXCEPT ![a[2]] = [alive |-> TRUE, due |-> now + a[3], iv |-> a[3]]]
                /\ Emit(<< [op |-> "fired", t |-> t, now |-> now], EvTimer(a[2], a[3]) >>)
           ELSE /\ q' = q1 /\ rec' = rec1 /\ Emit(<< [op |-> "fired", t |-> t, now |-> now] >>)
  /\ UNCHANGED <<now, loopNow, pc, steps>>
\* the default timeout entry
FireDefault == /\ pc = "timers" /\ q # <<>> /\ q[1][1] <= loopNow /\ q[1][2] = 0
               /\ q' = Ins(Tail(q), loopNow + 300000, 0) /\ UNCHANGED <<st, rec, now, loopNow, pc, steps, refOK>>
\* nothing due: poll; with a T step the time-out elapses, without steps left the harness interrupts and run() returns
Poll == /\ pc = "timers" /\ q # <<>> /\ q[1][1] > loopNow
        /\ LET timeout == q[1][1] - loopNow IN
           IF steps > 0
           THEN /\ now' = now + timeout /\ loopNow' = now + timeout /\ steps' = steps - 1 /\ pc' = "timers"
                /\ Emit(<< [op |-> "poll", now |-> loopNow, timeout |-> timeout, irq |-> FALSE, ready |-> <<>>] >>)
           ELSE /\ pc' = "idle" /\ UNCHANGED <<now, loopNow, steps>>
                /\ Emit(<< [op |-> "interrupt"], [op |-> "poll", now |-> loopNow, timeout |-> timeout, irq |-> TRUE, ready |-> <<>>], [op |-> "runend"] >>)
        /\ UNCHANGED <<q, rec>>

Init == /\ st = Init0 /\ q = << <<0, 0>> >> /\ rec = [t \in Ts |-> [alive |-> FALSE, due |-> 0, iv |-> 0]]
        /\ now = 1000 /\ loopNow = 1000 /\ pc = "idle" /\ steps = 0 /\ refOK = TRUE
Next == \/ \E t \in Ts, iv \in Ivs : Time(t, iv)
        \/ \E t \in Ts : Remove(t)
        \/ \E d \in {1, 2} : Advance(d)
        \/ \E k \in 1..MaxSteps : BeginRun(k)
        \/ \E a \in Acts : Fire(a)
        \/ FireDefault \/ Poll
Spec == Init /\ [][Next]_vars
Bound == now <= MaxNow

\* ---- invariants
RefinementOK == refOK
\* the queue holds exactly one entry per live timer, at its executionTime, plus the default entry; sorted
QueueOK == /\ \A t \in Ts : Cardinality({ i \in DOMAIN q : q[i][2] = t }) = (IF Alive(t) THEN 1 ELSE 0)
           /\ \A i \in DOMAIN q : q[i][2] # 0 => q[i][1] = rec[q[i][2]].due
           /\ \A i \in 1..(Len(q) - 1) : q[i][1] <= q[i + 1][1]
           /\ Cardinality({ i \in DOMAIN q : q[i][2] = 0 }) = 1
\* Layer 1 and the records agree on what is due when
DueOK == \A t \in Ts : Alive(t) => (st.tm[t].alive /\ st.tm[t].due = rec[t].due)
================================================================================
