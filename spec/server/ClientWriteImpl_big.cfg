SPECIFICATION Spec
CONSTANTS NC = 1
 MaxN = 3
 MaxAcc = 7
 MaxPeer = 3
INVARIANTS RefinementOK BacklogOK InterestOK L1Inv
