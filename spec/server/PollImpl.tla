------------------------------- MODULE PollImpl -------------------------------
(* Layer 2 (implementation shaped) model of Socket::Poll::Private, the epoll implementation in src/Socket/Socket.cpp
   (#elif defined(__linux__) branch), transcribed operation by operation:
     tab     HashMap<Socket*, SocketInfo> sockets            (registration table: registered?, events)
     sel     HashMap<Socket*, uint> selectedSockets          (the cache of fetched events, in insertion order)
     cnt     the counter of the interrupt eventfd
   and the part of the kernel the code talks to (environment):
     kreg/kev  interest list of the current epoll instance (what epoll_ctl ADD/MOD/DEL left there), kefd: the eventfd
               is in the interest list
     rot     the kernel's ready list order: descriptors reported by one epoll_wait move to the tail (round robin);
             0 stands for the eventfd
     st.os   readiness of the sockets (the environment variable of Layer 1, changed only by Ready)
   One epoll_wait returns at most b events (b = 64 in the code; the model checker explores b = 1..B so that
   "more sockets ready than one fetch returns" happens with two or three sockets).
   The ghost st is the Layer-1 state advanced by PollAbs!Step with the outcome the implementation produced:
   RefinementOK says every outcome of the implementation is allowed by Layer 1.
   Liveness (under weak fairness of poll calls): a registered readiness that stays pending is eventually reported,
   an interrupt eventually makes a poll return early.                                                            *)
EXTENDS PollAbs
CONSTANTS B, CntMax, KeepLast, Rotate      \* Rotate = FALSE: a kernel that always reports in the same order (shows that the
                                 \* liveness result needs the kernel's round robin; only used by PollImpl_norot.cfg)
VARIABLES tab, sel, cnt, kreg, kev, kefd, rot, refOK
\* KeepLast = FALSE: the variable last (only needed to state the liveness properties) is frozen: fewer states
LastIs(v) == last' = IF KeepLast THEN v ELSE last
ivars == <<tab, sel, cnt, kreg, kev, kefd, rot, refOK, st, last>>

Min2(a, b) == IF a < b THEN a ELSE b
\* mapEvents / unmapEvents; native bits: 1 EPOLLIN, 2 EPOLLOUT, 4 EPOLLRDHUP, 8 EPOLLHUP
MapEv(m) == (IF m \cap InGroup # {} THEN {1, 4, 8} ELSE {}) \cup (IF m \cap OutGroup # {} THEN {2, 4, 8} ELSE {})
UnmapEv(nat, ev) ==
  LET r1 == IF nat \cap {1, 4, 8} # {} THEN ev \cap InGroup ELSE {}
  IN IF 2 \in nat \/ (r1 = {} /\ nat \cap {4, 8} # {}) THEN r1 \cup (ev \cap OutGroup) ELSE r1
\* what the kernel reports for socket s: the interest mask, EPOLLHUP always
Rev(s) == IF kreg[s] THEN st.os[s] \cap (kev[s] \cup {8}) ELSE {}
ItemReady(x) == IF x = 0 THEN kefd /\ cnt > 0 ELSE Rev(x) # {}
InSeq(q, x) == \E i \in 1..Len(q) : q[i] = x
SelHas(q, s) == \E i \in 1..Len(q) : q[i].s = s

\* ghost: advance Layer 1 with the (deterministic) non-poll operation
Ghost(op, s, m) == (CHOOSE o \in Step(op, st, s, m) : TRUE).st

\* ---- Private::set(socket, events)
ISet(s, m) ==
  /\ IF tab[s].reg
     THEN IF tab[s].ev = m
          THEN UNCHANGED <<tab, sel, kev, kreg>>                                   \* if(sockInfo.events == events) return;
          ELSE LET removed == tab[s].ev \ m IN
               /\ tab' = [tab EXCEPT ![s].ev = m]
               /\ kev' = [kev EXCEPT ![s] = MapEv(m)]                               \* EPOLL_CTL_MOD
               /\ UNCHANGED kreg
               /\ sel' = LET q == [i \in 1..Len(sel) |-> IF sel[i].s = s THEN [s |-> s, f |-> sel[i].f \ removed] ELSE sel[i]]
                         IN SelectSeq(q, LAMBDA e : e.s # s \/ e.f # {})           \* selectedEvents &= ~removed; drop if 0
     ELSE /\ tab' = [tab EXCEPT ![s] = [reg |-> TRUE, ev |-> m]]                    \* (the model's sockets are open)
          /\ kreg' = [kreg EXCEPT ![s] = TRUE] /\ kev' = [kev EXCEPT ![s] = MapEv(m)]   \* EPOLL_CTL_ADD
          /\ UNCHANGED sel
  /\ st' = Ghost("set", s, m) /\ LastIs(<<"set", s, m, NoOut>>)
  /\ UNCHANGED <<cnt, kefd, rot, refOK>>

\* ---- Private::remove(socket)
IRemove(s) ==
  /\ IF tab[s].reg
     THEN /\ kreg' = [kreg EXCEPT ![s] = FALSE] /\ kev' = [kev EXCEPT ![s] = {}]   \* EPOLL_CTL_DEL
          /\ tab' = [tab EXCEPT ![s] = [reg |-> FALSE, ev |-> {}]]
          /\ sel' = SelectSeq(sel, LAMBDA e : e.s # s)
     ELSE UNCHANGED <<kreg, kev, tab, sel>>
  /\ st' = Ghost("remove", s, {}) /\ LastIs(<<"remove", s, {}, NoOut>>)
  /\ UNCHANGED <<cnt, kefd, rot, refOK>>

\* ---- Private::clear(): a new epoll instance with only the eventfd in it
IClear ==
  /\ kreg' = [s \in Socks |-> FALSE] /\ kev' = [s \in Socks |-> {}] /\ kefd' = TRUE
  /\ tab' = [s \in Socks |-> [reg |-> FALSE, ev |-> {}]]
  /\ sel' = <<>>
  /\ st' = Ghost("clear", 0, {}) /\ LastIs(<<"clear", 0, {}, NoOut>>)
  /\ UNCHANGED <<cnt, rot, refOK>>

\* ---- Private::interrupt(): write(eventFd, 1)
IInterrupt ==
  /\ cnt < CntMax
  /\ cnt' = cnt + 1
  /\ st' = Ghost("intr", 0, {}) /\ LastIs(<<"intr", 0, {}, NoOut>>)
  /\ UNCHANGED <<tab, sel, kreg, kev, kefd, rot, refOK>>

\* ---- environment: the readiness of socket s changes
IReady(s, b) ==
  /\ st.os[s] # b
  /\ st' = Ghost("ready", s, b) /\ LastIs(<<"ready", s, b, NoOut>>)
  /\ UNCHANGED <<tab, sel, cnt, kreg, kev, kefd, rot, refOK>>

\* ---- Private::poll(event, timeout); b = the number of events this epoll_wait may return
Outcome(k, s, f) == [k |-> k, s |-> s, K |-> IF k # "event" THEN {} ELSE IF f = {} THEN {HupNote} ELSE f]
Conclude(o) ==
  /\ refOK' = (refOK /\ o \in PollOutcomes(st))
  /\ st' = IF o \in PollOutcomes(st) THEN AfterPoll(st, o) ELSE st
  /\ LastIs(<<"poll", 0, {}, o>>)
IPoll(b) ==
  IF sel = <<>>
  THEN LET ready == SelectSeq(rot, ItemReady)
           batch == SubSeq(ready, 1, Min2(b, Len(ready)))                          \* epoll_wait
           socks == SelectSeq(batch, LAMBDA x : x # 0)
           fetched == [i \in 1..Len(socks) |-> [s |-> socks[i], f |-> UnmapEv(Rev(socks[i]), tab[socks[i]].ev)]]
           interrupted == InSeq(batch, 0)
       IN /\ rot' = IF Rotate THEN SelectSeq(rot, LAMBDA x : ~InSeq(batch, x)) \o batch ELSE rot
          /\ IF fetched = <<>> \/ interrupted
             THEN /\ cnt' = IF interrupted THEN 0 ELSE cnt                          \* read(eventFd)
                  /\ sel' = fetched
                  /\ Conclude(Outcome(IF batch = <<>> THEN "timeout" ELSE "early", 0, {}))
             ELSE /\ sel' = Tail(fetched) /\ UNCHANGED cnt
                  /\ Conclude(Outcome("event", fetched[1].s, fetched[1].f))
          /\ UNCHANGED <<tab, kreg, kev, kefd>>
  ELSE /\ sel' = Tail(sel)
       /\ Conclude(Outcome("event", sel[1].s, sel[1].f))
       /\ UNCHANGED <<tab, cnt, kreg, kev, kefd, rot>>

\* the same call with its outcome as action parameters, so that the edge labels of the dumped state graph carry what the
\* model predicts for the real code (Layer-2 drift is counted by the orchestration, it is never a verdict)
ImplOutcome(b) ==
  IF sel = <<>>
  THEN LET ready == SelectSeq(rot, ItemReady)
           batch == SubSeq(ready, 1, Min2(b, Len(ready)))
           socks == SelectSeq(batch, LAMBDA x : x # 0)
       IN IF socks = <<>> \/ InSeq(batch, 0) THEN <<IF batch = <<>> THEN "timeout" ELSE "early", 0, {}>>
          ELSE <<"event", socks[1], UnmapEv(Rev(socks[1]), tab[socks[1]].ev)>>
  ELSE <<"event", sel[1].s, sel[1].f>>
IPollX(b, k, s, f) == ImplOutcome(b) = <<k, s, f>> /\ IPoll(b)

IInit == /\ tab = [s \in Socks |-> [reg |-> FALSE, ev |-> {}]] /\ sel = <<>> /\ cnt = 0
         /\ kreg = [s \in Socks |-> FALSE] /\ kev = [s \in Socks |-> {}] /\ kefd = TRUE
         /\ rot = [i \in 1..(NS + 1) |-> i - 1]
         /\ refOK = TRUE /\ st = Init0 /\ last = <<"init", 0, {}, NoOut>>
PollAny == \E b \in 1..B : IPoll(b)
INext == \/ \E s \in Socks : \/ \E m \in Masks : ISet(s, m)
                             \/ IRemove(s)
                             \/ \E b \in OsVals : IReady(s, b)
         \/ IClear \/ IInterrupt
         \/ \E b \in 1..B, k \in {"event", "early", "timeout"}, s \in 0..NS, f \in SUBSET Kinds : IPollX(b, k, s, f)
ISpec == IInit /\ [][INext]_ivars
IFairSpec == ISpec /\ WF_ivars(PollAny)

\* ---- invariants
RefinementOK == refOK
TabOK == /\ \A s \in Socks : /\ tab[s].reg = st.isreg[s] /\ tab[s].ev = st.mask[s]
                             /\ kreg[s] = tab[s].reg /\ kev[s] = MapEv(tab[s].ev)
         /\ kefd
\* the cache holds at most one entry per socket, only registered sockets and kinds, all of them Layer-1 candidates
CacheOK == /\ \A i \in 1..Len(sel) : /\ tab[sel[i].s].reg /\ sel[i].f \subseteq tab[sel[i].s].ev
                                     /\ IF sel[i].f = {} THEN HupNote \in st.cand[sel[i].s] ELSE sel[i].f \subseteq st.cand[sel[i].s]
           /\ \A i, j \in 1..Len(sel) : i # j => sel[i].s # sel[j].s
CntOK == /\ cnt > 0 => st.imin = 1
         /\ cnt <= st.imax \/ st.imax = IMaxCap
RotOK == Len(rot) = NS + 1 /\ \A x \in 0..NS : InSeq(rot, x)

\* ---- liveness
Reported(s) == last[1] = "poll" /\ last[4].k = "event" /\ last[4].s = s
ReadinessReported == \A s \in Socks : Pending(st, s) ~> (Reported(s) \/ ~Pending(st, s))
InterruptHonoured == (cnt > 0) ~> (last[1] = "poll" /\ last[4].k = "early")

MC_Cap == 3
MC_Masks2 == { {}, {1}, {2}, {1, 2} }
MC_Masks3 == { {1}, {2}, {1, 2} }
MC_MasksAC == { {}, {4}, {8}, {1, 8}, {2, 4} }
MC_Os2 == { {}, {1}, {2}, {1, 2}, {1, 4}, {1, 4, 8}, {8} }
MC_MasksN3 == { {1}, {1, 2} }
MC_OsN3 == { {}, {1} }
MC_OsTiny == { {}, {1}, {1, 2} }
MC_Os3 == { {}, {1}, {2}, {1, 4, 8} }
================================================================================
