SPECIFICATION TSpec
CONSTANTS NE = 4
 NU = 3
 SendSizes = {}
 RecvSizes = {}
 MinSizes = {}
 MaxSent = 0
 DgSizes = {}
 MaxDg = 0
 Partial = TRUE
INVARIANT TInv
