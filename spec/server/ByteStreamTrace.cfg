SPECIFICATION TSpec
CONSTANT NC = 3
INVARIANT TInv
