SPECIFICATION TSpec
CONSTANTS NS = 4
 IMax = 0
 Masks = {}
 OsVals = {}
INVARIANT TInv
