SPECIFICATION Spec
CONSTANTS NE = 2
 NU = 2
 SendSizes = {}
 RecvSizes = {1, 4}
 MinSizes = {0}
 MaxSent = 0
 DgSizes = {0, 3}
 MaxDg = 3
 Partial = TRUE
INVARIANTS TypeOK PrefixInv EofInv FlightInv NeverStuck
PROPERTIES ZeroMeansClosed SendProgress OnceOnly
