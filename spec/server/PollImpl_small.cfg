SPECIFICATION ISpec
CONSTANTS NS = 2
 B = 2
 CntMax = 1
 KeepLast = FALSE
 Rotate = TRUE
 IMax = 0
 Masks <- MC_Masks2
 OsVals <- MC_Os3
 IMaxCap <- MC_Cap
INVARIANTS RefinementOK TabOK CacheOK CntOK RotOK TypeOK Purged ReadyIsCand
