------------------------------- MODULE ByteStream -------------------------------
(* Layer 1 (property level) specification of Server::Client writing for property C13.

   For every client c the data passed to write() is the stream  S(p) = p % 251  at positions acc, acc+1, ...
   (the harness generates it that way), so a byte sequence is identified by its start position and length and any
   loss, duplication or reordering shows as a wrong byte value.
     acc[c]   number of bytes ACCEPTED: sum of the sizes of the write() calls that returned true
     wire[c]  number of bytes handed to the operating system (intercepted send results), in order
     got[c]   number of bytes the peer has read
     inw[c]   bytes handed to the OS by the write() call in progress
     owed[c]  the backlog has just drained in the event loop: onWrite is due now
     susp[c]  suspended;  pin/pgot: peer -> client direction;  closing: a read or write failed;  broken: the
              connection failed: later bytes need not arrive and the backlog may be discarded (its reported size is
              no longer constrained)
   The events are what the harness observes: calls with their results, every intercepted send with the bytes the
   OS took, callbacks.  Step(ev, s) = set of allowed successor states (empty = the event violates C13).       *)
EXTENDS Integers, Sequences, FiniteSets, TLC
CONSTANT NC
Cs == 1..NC
Byte(p) == p % 251
PByte(p) == p % 241
Stream(from, n) == [i \in 1..n |-> Byte(from + i - 1)]
PStream(from, n) == [i \in 1..n |-> PByte(from + i - 1)]

InitC == [alive |-> FALSE, acc |-> 0, wire |-> 0, got |-> 0, inw |-> 0, owed |-> FALSE, susp |-> FALSE,
          pin |-> 0, pgot |-> 0, closing |-> FALSE, broken |-> FALSE, pclosed |-> FALSE]
Init0 == [c \in Cs |-> InitC]

Upd(s, c, r) == { [s EXCEPT ![c] = r] }
NoOwed(s) == \A c \in Cs : ~s[c].owed           \* after the backlog drained, onWrite comes before anything else

Step(ev, s) ==
  LET c == ev.c  x == s[c] IN
  CASE ev.op = "pair" -> IF ev.ok THEN Upd(s, c, [InitC EXCEPT !.alive = TRUE]) ELSE { s }
    \* a client accepted from a listener / connected by an establisher (c = 0: the harness had no slot and rejected it)
    [] ev.op \in {"onAccepted", "onConnected"} -> IF ev.c > 0 THEN Upd(s, ev.c, [InitC EXCEPT !.alive = TRUE]) ELSE { s }
    \* an intercepted send: the OS took ev.ret bytes (ev.b) out of ev.req offered
    [] ev.op = "send" ->
         IF ~x.alive \/ ~NoOwed(s) THEN {}
         ELSE IF x.broken THEN { s }            \* after a connection failure the stream has a gap: nothing more is promised
         ELSE IF ev.ret > 0
         THEN IF /\ ev.b = Stream(x.wire, ev.ret)                           \* in order, nothing skipped or repeated
                 /\ x.wire + ev.ret <= x.acc + ev.inwrite                    \* only accepted (or being written) bytes
                 /\ (ev.inwrite = 0 => x.wire < x.acc)
              THEN Upd(s, c, [x EXCEPT !.wire = @ + ev.ret, !.inw = IF ev.inwrite > 0 THEN @ + ev.ret ELSE @,
                                       !.owed = (ev.inwrite = 0 /\ x.wire + ev.ret = x.acc)])
              ELSE {}
         ELSE IF ev.fail THEN Upd(s, c, [x EXCEPT !.closing = TRUE, !.broken = TRUE]) ELSE { s }
    [] ev.op = "write" ->
         IF ~x.alive \/ ~NoOwed(s) THEN {}
         ELSE IF ev.r
         THEN LET a == x.acc + ev.n IN
              IF x.broken \/ (ev.post = a - x.wire /\ ev.sb = a - x.wire) THEN Upd(s, c, [x EXCEPT !.acc = a, !.inw = 0]) ELSE {}
         ELSE IF x.inw = 0 /\ (x.broken \/ ev.sb = x.acc - x.wire) THEN Upd(s, c, [x EXCEPT !.closing = TRUE]) ELSE {}   \* refused: nothing of it may have been sent
    [] ev.op = "onWrite" -> IF x.alive /\ x.owed /\ ev.sb = 0 /\ x.acc = x.wire THEN Upd(s, c, [x EXCEPT !.owed = FALSE]) ELSE {}
    [] ev.op = "onRead" ->
         IF ~x.alive \/ x.susp \/ ~NoOwed(s) THEN {}                          \* a suspended client gets no read notification
         ELSE IF ev.noread THEN { s }
         ELSE IF ev.r THEN IF ev.b = PStream(x.pgot, Len(ev.b)) /\ x.pgot + Len(ev.b) <= x.pin /\ Len(ev.b) > 0
                           THEN Upd(s, c, [x EXCEPT !.pgot = @ + Len(ev.b)]) ELSE {}
         ELSE Upd(s, c, [x EXCEPT !.closing = x.closing \/ x.pclosed \/ ev.peek \in {0, -2}])
    [] ev.op = "onClosed" -> IF x.alive /\ x.closing /\ NoOwed(s) THEN { s } ELSE {}
    [] ev.op \in {"suspend", "resume"} ->
         IF x.alive /\ NoOwed(s) /\ ev.susp = (ev.op = "suspend") /\ (x.broken \/ ev.sb = x.acc - x.wire) THEN Upd(s, c, [x EXCEPT !.susp = ev.susp]) ELSE {}
    [] ev.op = "remove" -> IF NoOwed(s) THEN Upd(s, c, [x EXCEPT !.alive = FALSE]) ELSE {}
    [] ev.op = "psend" -> Upd(s, c, [x EXCEPT !.pin = @ + (IF ev.ret > 0 THEN ev.ret ELSE 0)])
    [] ev.op = "pclose" -> Upd(s, c, [x EXCEPT !.pclosed = TRUE])
    \* the peer reads: exactly the accepted stream, in order, never more than was handed to the OS
    [] ev.op = "pread" -> IF x.broken THEN { s }
                          ELSE IF ev.b = Stream(x.got, Len(ev.b)) /\ x.got + Len(ev.b) <= x.wire
                          THEN Upd(s, c, [x EXCEPT !.got = @ + Len(ev.b)]) ELSE {}
    \* end-of-history completeness: with an empty backlog on an intact connection the peer has received everything
    \* (the harness has just resumed the client and let the loop run with everything the kernel reports and sends
    \* that take all: a backlog that is still there was never flushed - its write readiness was not dispatched)
    [] ev.op = "check" -> IF x.broken \/ ~x.alive THEN { s }
                          ELSE IF ev.sb = x.acc - x.wire /\ (ev.drained => (ev.sb = 0 /\ x.got = x.acc)) THEN { s } ELSE {}
    [] OTHER -> { s }        \* run / poll / interrupt / runend / timers: not this property's business

Inv(s) == \A c \in Cs : /\ s[c].got <= s[c].wire /\ s[c].wire <= s[c].acc + s[c].inw /\ s[c].pgot <= s[c].pin
================================================================================
