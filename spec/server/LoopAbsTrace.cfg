SPECIFICATION TSpec
CONSTANTS NC = 3
 NT = 6
