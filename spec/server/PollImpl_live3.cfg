SPECIFICATION IFairSpec
CONSTANTS NS = 3
 B = 2
 CntMax = 1
 KeepLast = TRUE
 Rotate = TRUE
 IMax = 0
 Masks <- MC_MasksN3
 OsVals <- MC_OsN3
 IMaxCap <- MC_Cap
INVARIANTS RefinementOK TabOK CacheOK CntOK RotOK
PROPERTIES ReadinessReported InterruptHonoured
