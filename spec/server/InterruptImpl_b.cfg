SPECIFICATION FairSpec
CONSTANTS NI = 2
 NRuns = 2
 Pre = FALSE
INVARIANTS NoFailure EfdBound
PROPERTY AllReturn
