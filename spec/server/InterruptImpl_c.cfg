SPECIFICATION FairSpec
CONSTANTS NI = 2
 NRuns = 2
 Pre = TRUE
INVARIANTS NoFailure EfdBound
PROPERTY AllReturn
