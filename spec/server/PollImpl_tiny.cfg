SPECIFICATION ISpec
CONSTANTS NS = 2
 B = 2
 CntMax = 1
 KeepLast = FALSE
 Rotate = TRUE
 IMax = 0
 Masks <- MC_Masks3
 OsVals <- MC_OsTiny
 IMaxCap <- MC_Cap
INVARIANTS RefinementOK TabOK CacheOK CntOK RotOK TypeOK Purged ReadyIsCand
