SPECIFICATION Spec
CONSTANTS NE = 2
 NU = 2
 SendSizes = {}
 RecvSizes = {0, 1, 4}
 MinSizes = {0}
 MaxSent = 0
 DgSizes = {0, 3}
 MaxDg = 2
 Partial = FALSE
VIEW ViewSt
INVARIANTS TypeOK PrefixInv EofInv FlightInv NeverStuck
PROPERTIES ZeroMeansClosed SendProgress OnceOnly
