SPECIFICATION Spec
CONSTANTS NC = 1
 MaxN = 2
 MaxAcc = 5
 MaxPeer = 2
INVARIANTS RefinementOK BacklogOK InterestOK L1Inv
