SPECIFICATION Spec
CONSTANTS NE = 2
 NU = 1
 SendSizes = {2}
 RecvSizes = {1, 4}
 MinSizes = {0, 2}
 MaxSent = 2
 DgSizes = {}
 MaxDg = 0
 Partial = FALSE
VIEW ViewSt
INVARIANTS TypeOK PrefixInv EofInv FlightInv NeverStuck
PROPERTIES ZeroMeansClosed SendProgress OnceOnly
