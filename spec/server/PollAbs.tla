------------------------------- MODULE PollAbs -------------------------------
(* Layer 1 (property level) specification of Socket::Poll for the extra X04.  No implementation details: there is
   no cache and no epoll here - only what a user of Poll may rely on.

   Sockets 1..NS.  Event kinds (Socket::Poll::Flag): 1 read, 2 write, 4 accept, 8 connect.
   Operating-system readiness of one socket (the ENVIRONMENT, changed only by the op "ready"): a subset of
     1 readable (data / connection to accept)    2 writable (or connected)
     4 the peer has shut down its sending side    8 hang-up
   Abstract state
     open[s]  the socket has a descriptor
     isreg[s] / mask[s]   registration with set(); mask may be empty (Server registers suspended clients with 0)
     os[s]    current readiness according to the operating system
     cand[s]  the kinds of s that MAY be reported by the next poll(): kinds that have been ready while registered
              (continuously in the mask since) and have not been reported since.  Readiness that has gone away in
              the meantime may still be reported (level-triggered interface, stale but registered: the statement only
              forbids kinds that are no longer registered).
     imin, imax   knowledge about interrupts that are not yet honoured: at least imin (0 or 1), at most imax.
              The header documents nothing about several interrupt() calls before one poll(): the eventfd
              implementation coalesces them (one early return), the Windows implementation in the same file queues
              one completion per call.  Layer 1 allows both: an early return honours at least one of them.

   DIFFERENCES between the statement in extras.jsonl and the library's evident intent, followed here:
     * "every registered kind that is ready is reported": on a hang-up (4/8) the library reports the registered
       kinds of ONE group (read|accept if registered, else write|connect) - the event tells the user to look at the
       socket, a kind of the other group is not reported separately.  Layer 1: on a hang-up any registered kind may
       be reported, and SOMETHING must be (poll must not time out), see May / Pending.
     * a hang-up (8) on a socket registered with the EMPTY mask cannot be masked in epoll: the library then returns
       an event {socket, flags 0}.  Not fixed by documentation: Layer 1 allows that event (pseudo kind 16) as
       well as timing out.  (Known observation, DESIGN 9.2: a suspended Server client whose peer hung up.)
     * "each interrupt() makes at least one poll() return early": coalescing allowed (see imin/imax).
     * EPOLLERR without any other bit (also what the kernel leaves of EPOLLIN|EPOLLERR for a write-only mask) makes
       the library return {socket, flags 0} for a non-empty mask.  Stream sockets report errors together with a
       hang-up; the statement does not cover it: the generators never script it (observation, not judged).
   FINDING (genuine, see build/fixes/X04-poll-timeout-truncated.patch): poll(event, int64 timeout) hands the time-out to
     epoll_wait's int parameter unchanged; from 2^31 ms on the wait is cut short (2^32 ms: returns at once) or never
     ends (2^31 ms: negative = infinite).  TimeoutFaithful below demands the longest expressible wait instead.
   Obligations (checked as invariants / action properties of the bounded model below, and on every observed
   execution through PollAbsTrace):
     OnlyRegistered   a reported event names a registered socket and kinds of its current mask
     NoTimeoutWhilePending  poll does not time out (block) while a registered kind is ready or an interrupt is pending
     NoSpuriousEarly  poll returns "nothing" before the time-out only to honour an interrupt
     Purged           after set/remove/clear nothing outside the new registration is a candidate
     time-out value   the operating system is asked to wait exactly the requested time (Match)              *)
EXTENDS Integers, Sequences, FiniteSets, TLC

CONSTANT NS                     \* number of sockets
Socks == 1..NS
Kinds == {1, 2, 4, 8}
InGroup == {1, 4}
OutGroup == {2, 8}
HupNote == 16                   \* pseudo kind: "event with flags 0" for a hang-up on an empty mask
IMaxCap == 1000000

BitsOf(n, dom) == { k \in dom : (n \div k) % 2 = 1 }
KindsOf(f) == BitsOf(f, Kinds)
OsOf(b) == BitsOf(b, {1, 2, 4, 8})

\* kinds of mask m that are definitely ready when the operating system says b
Must(m, b) == (IF 1 \in b THEN m \cap InGroup ELSE {}) \cup (IF 2 \in b THEN m \cap OutGroup ELSE {})
\* kinds that may be reported
May(m, b) == Must(m, b) \cup (IF b \cap {4, 8} # {} /\ m # {} THEN m ELSE {})
                        \cup (IF 8 \in b /\ m = {} THEN {HupNote} ELSE {})
\* something of s has to be reported: poll must not time out
Pending(st, s) == st.isreg[s] /\ (Must(st.mask[s], st.os[s]) # {} \/ (st.mask[s] # {} /\ st.os[s] \cap {4, 8} # {}))

NoOut == [k |-> "-", s |-> 0, K |-> {}]
Ret(st) == { [st |-> st, out |-> NoOut] }

PollOutcomes(st) ==
  UNION { { [k |-> "event", s |-> s, K |-> K] :
              K \in { X \in SUBSET st.cand[s] : X # {} /\ (HupNote \in X => X = {HupNote}) /\ X \ {HupNote} \subseteq st.mask[s] } }
          : s \in {x \in Socks : st.isreg[x]} } \cup
  (IF st.imax > 0 THEN { [k |-> "early", s |-> 0, K |-> {}] } ELSE {}) \cup
  (IF st.imin = 0 /\ \A s \in Socks : ~Pending(st, s) THEN { [k |-> "timeout", s |-> 0, K |-> {}] } ELSE {})

AfterPoll(st, o) ==
  CASE o.k = "event"   -> [st EXCEPT !.cand[o.s] = (@ \ o.K) \cup May(st.mask[o.s], st.os[o.s])]
    [] o.k = "early"   -> [st EXCEPT !.imax = @ - 1, !.imin = 0]
    [] o.k = "timeout" -> [st EXCEPT !.imax = 0]

Step(op, st, s, m) ==
  CASE op = "set" ->
         IF st.isreg[s]
         THEN Ret([st EXCEPT !.mask[s] = m,            \* (the flags-0 hang-up note stays a candidate while the mask stays empty)
                            !.cand[s] = (@ \cap (m \cup (IF m = {} THEN {HupNote} ELSE {}))) \cup May(m, st.os[s])])
         ELSE IF ~st.open[s] THEN Ret(st)                   \* a socket without descriptor cannot be registered
         ELSE Ret([st EXCEPT !.isreg[s] = TRUE, !.mask[s] = m, !.cand[s] = May(m, st.os[s])])
    [] op = "remove" -> Ret([st EXCEPT !.isreg[s] = FALSE, !.mask[s] = {}, !.cand[s] = {}])
    [] op = "clear"  -> Ret([st EXCEPT !.isreg = [x \in Socks |-> FALSE], !.mask = [x \in Socks |-> {}],
                                       !.cand = [x \in Socks |-> {}]])
    [] op = "intr"   -> Ret([st EXCEPT !.imin = 1, !.imax = IF @ < IMaxCap THEN @ + 1 ELSE @])
    [] op = "ready"  -> Ret([st EXCEPT !.os[s] = m,
                                       !.cand[s] = IF st.isreg[s] THEN @ \cup May(st.mask[s], m) ELSE @])
    \* open / close of a socket that is NOT registered (closing a registered socket without remove() is outside
    \* the specification: the generators never do it)
    [] op = "open"   -> Ret([st EXCEPT !.open[s] = TRUE])
    [] op = "close"  -> IF st.isreg[s] THEN {} ELSE Ret([st EXCEPT !.open[s] = FALSE, !.os[s] = {}])
    [] op = "poll"   -> { [st |-> AfterPoll(st, o), out |-> o] : o \in PollOutcomes(st) }

\* ---- the observation of one poll() call (logged by the driver)
\*   r        return value of poll()            sock, f   event.socket as socket index (0 = null), event.flags
\*   blocked  the operating system wait was entered and returned nothing (= the time-out elapsed)
\*   thi,tlo  the requested time-out: thi = timeout >> 31 (arithmetic), tlo = timeout & 0x7fffffff
\*   waited   the time-out the operating system was asked to wait (meaningful when blocked)
TimeoutFaithful(e) ==
  IF e.thi = 0 THEN e.waited = e.tlo                  \* 0 .. 2^31-1 ms: exactly the requested time
  ELSE IF e.thi < 0 THEN TRUE                         \* negative time-outs: not documented, nothing demanded
  ELSE e.waited = 2147483647                          \* beyond what the system call can express: wait as long as
                                                      \* it can express - never shorter, never "forever"
ObsKind(e) == IF e.sock # 0 THEN "event" ELSE IF e.blocked THEN "timeout" ELSE "early"
MatchPoll(o, e) ==
  /\ e.r = TRUE
  /\ o.k = ObsKind(e)
  /\ o.k = "event" => /\ o.s = e.sock
                      /\ o.K = (IF e.f = 0 THEN {HupNote} ELSE KindsOf(e.f))
                      /\ e.f \in 0..15
  /\ o.k # "event" => e.f = 0
  /\ o.k = "timeout" => TimeoutFaithful(e)

Init0 == [open |-> [s \in Socks |-> TRUE], isreg |-> [s \in Socks |-> FALSE], mask |-> [s \in Socks |-> {}],
          os |-> [s \in Socks |-> {}], cand |-> [s \in Socks |-> {}], imin |-> 0, imax |-> 0]

--------------------------------------------------------------------------------
\* Stand-alone bounded model
CONSTANTS Masks, OsVals, IMax
VARIABLES st, last
vars == <<st, last>>
Do(op, s, m) == /\ \E o \in Step(op, st, s, m) : st' = o.st /\ last' = <<op, s, m, o.out>>
Init == st = Init0 /\ last = <<"init", 0, {}, NoOut>>
Next == \/ \E s \in Socks : \/ \E m \in Masks : Do("set", s, m)
                            \/ Do("remove", s, {})
                            \/ \E b \in OsVals : Do("ready", s, b)
                            \/ Do("open", s, {}) \/ Do("close", s, {})
        \/ Do("clear", 0, {}) \/ Do("poll", 0, {})
        \/ (st.imax < IMax /\ Do("intr", 0, {}))
Spec == Init /\ [][Next]_vars

TypeOK == /\ \A s \in Socks : st.cand[s] \subseteq Kinds \cup {HupNote}
          /\ st.imin \in {0, 1} /\ st.imin <= st.imax
\* Purged: nothing outside the current registration is a candidate
Purged == \A s \in Socks : /\ ~st.isreg[s] => st.cand[s] = {} /\ st.mask[s] = {}
                           /\ st.cand[s] \ {HupNote} \subseteq st.mask[s]
\* every registered kind that is ready now is a candidate
ReadyIsCand == \A s \in Socks : st.isreg[s] => May(st.mask[s], st.os[s]) \subseteq st.cand[s]
\* action properties over the step just taken (unprimed = state in which poll() was called)
IsPoll(k) == last'[1] = "poll" /\ last'[4].k = k
OnlyRegistered == [][IsPoll("event") => /\ st.isreg[last'[4].s]
                                        /\ last'[4].K \ {HupNote} \subseteq st.mask[last'[4].s]
                                        /\ last'[4].K # {}]_vars
NoTimeoutWhilePending == [][IsPoll("timeout") => /\ \A s \in Socks : ~Pending(st, s)
                                                 /\ st.imin = 0]_vars
NoSpuriousEarly == [][IsPoll("early") => st.imax > 0]_vars
\* poll() always has an allowed outcome
NeverStuck == PollOutcomes(st) # {}
\* constant definitions for the cfg files
MC_Masks == { {}, {1}, {2}, {1, 2}, {4}, {8, 1} }
MC_MasksS == { {}, {1}, {1, 2}, {8} }
MC_OsValsS == { {}, {1}, {2}, {1, 4, 8}, {8} }
MC_OsVals == { {}, {1}, {2}, {1, 2}, {1, 4}, {1, 4, 8}, {8}, {4} }
================================================================================
