--------------------------------- MODULE LoopAbs ---------------------------------
(* Layer 1 (property level) specification of Server::run for property C14, over the events the harness observes
   (harness/server/drv_server.cpp): timer creation/removal/activation with the virtual time, client callbacks, what
   every poll of the operating system reported (the shim only filters real readiness), interrupt requests and the
   return of run().
     tm[t]   = [alive, due, iv]      cl[c] = [alive, susp, closing, pclosed]
     oblig   = the (client, kinds) pairs the last poll reported ready and that have not been dispatched yet
     irq     = an interrupt was requested and run() has not returned since
     wake    = the last poll reported the interrupt: run() must return now
   Step(ev, s) = set of allowed successor states (empty = the event violates C14).                             *)
EXTENDS Integers, Sequences, FiniteSets, TLC
CONSTANTS NC, NT
Cs == 1..NC
Ts == 1..NT
Ls == 1..2          \* listeners (object ids 11, 12 in poll events)
Es == 1..2          \* establishers (object ids 21, 22)
InitT == [alive |-> FALSE, due |-> 0, iv |-> 0]
InitCl == [alive |-> FALSE, susp |-> FALSE, closing |-> FALSE, pclosed |-> FALSE, failed |-> FALSE]
Init0 == [tm |-> [t \in Ts |-> InitT], cl |-> [c \in Cs |-> InitCl], ls |-> [x \in Ls |-> FALSE], es |-> [x \in Es |-> FALSE], oblig |-> {}, irq |-> FALSE, wake |-> FALSE, inrun |-> FALSE]

\* the operating system reports hang-up even for event kinds a socket is not registered for: a reported kind is
\* an obligation only if the client is registered for it (kind bit 2 = writable is only reported when registered;
\* kind bit 1 = readable/hang-up counts only while the client is not suspended)
Registered(s, r) == \/ r[1] \in Cs /\ s.cl[r[1]].alive /\ (r[2] \in {2, 3} \/ ~s.cl[r[1]].susp)
                    \/ r[1] - 10 \in Ls /\ s.ls[r[1] - 10]           \* a registered listener with a connection to accept
                    \/ r[1] - 20 \in Es /\ s.es[r[1] - 20]           \* a registered establisher whose connect finished
Discharge(s, c) == [s EXCEPT !.oblig = { o \in @ : o[1] # c }]
MustReturn(s) == s.wake                 \* after the interrupt was polled nothing but the return of run() may happen

Step(ev, s) ==
  CASE ev.op = "timer" -> IF ~s.tm[ev.t].alive THEN { [s EXCEPT !.tm[ev.t] = [alive |-> TRUE, due |-> ev.now + ev.iv, iv |-> ev.iv]] } ELSE {}
    [] ev.op = "rmtimer" -> { [s EXCEPT !.tm[ev.t].alive = FALSE] }
    \* activation: only a live (never a removed) timer, never before it is due, in order of due time, once per interval
    [] ev.op = "fired" ->
         LET x == s.tm[ev.t] IN
         IF /\ x.alive /\ s.inrun /\ ~MustReturn(s)
            /\ x.due <= ev.now
            /\ \A u \in Ts : s.tm[u].alive => s.tm[u].due >= x.due
         THEN { [s EXCEPT !.tm[ev.t].due = x.due + x.iv] } ELSE {}
    \* listeners and establishers: callbacks only while registered (never after remove), acceptance creates a client
    [] ev.op = "listen" -> { IF ev.ok THEN [s EXCEPT !.ls[ev.l] = TRUE] ELSE s }
    [] ev.op = "rmlisten" -> { Discharge([s EXCEPT !.ls[ev.l] = FALSE], 10 + ev.l) }
    [] ev.op = "onAccepted" -> IF s.ls[ev.l] /\ s.inrun /\ ~MustReturn(s)
                               THEN { Discharge(IF ev.c \in Cs THEN [s EXCEPT !.cl[ev.c] = [InitCl EXCEPT !.alive = TRUE]] ELSE s, 10 + ev.l) } ELSE {}
    [] ev.op = "conn" -> { IF ev.ok THEN [s EXCEPT !.es[ev.e] = TRUE] ELSE s }
    [] ev.op = "rmconn" -> { Discharge([s EXCEPT !.es[ev.e] = FALSE], 20 + ev.e) }
    [] ev.op = "onConnected" -> IF s.es[ev.e] /\ s.inrun /\ ~MustReturn(s)
                                THEN { Discharge(IF ev.c \in Cs THEN [s EXCEPT !.cl[ev.c] = [InitCl EXCEPT !.alive = TRUE]] ELSE s, 20 + ev.e) } ELSE {}
    [] ev.op = "onAbolished" -> IF s.es[ev.e] /\ s.inrun /\ ~MustReturn(s) THEN { Discharge(s, 20 + ev.e) } ELSE {}
    \* Server::clear(): everything registered is gone (no callback for any of it afterwards); a pending interrupt request
    \* may or may not survive (the header is silent; the code drops it)
    [] ev.op = "clear" -> IF s.inrun THEN {} ELSE { [Init0 EXCEPT !.irq = i] : i \in {s.irq, FALSE} }
    [] ev.op = "pair" -> IF ev.ok THEN { [s EXCEPT !.cl[ev.c] = [InitCl EXCEPT !.alive = TRUE]] } ELSE { s }
    [] ev.op = "remove" -> { Discharge([s EXCEPT !.cl[ev.c].alive = FALSE, !.cl[ev.c].closing = FALSE], ev.c) }
    [] ev.op \in {"suspend", "resume"} -> { Discharge([s EXCEPT !.cl[ev.c].susp = ev.susp], ev.c) }
    [] ev.op = "pclose" -> { [s EXCEPT !.cl[ev.c].pclosed = TRUE] }
    \* a failed write (refused by the OS with an error) must be followed by onClosed
    [] ev.op = "write" -> IF s.cl[ev.c].alive THEN { IF ev.r THEN s ELSE [s EXCEPT !.cl[ev.c].closing = TRUE] } ELSE {}
    [] ev.op = "send" -> IF ~s.cl[ev.c].alive THEN {}
                         ELSE { Discharge(IF ev.fail /\ ev.inwrite = 0 THEN [s EXCEPT !.cl[ev.c].closing = TRUE, !.cl[ev.c].failed = TRUE]
                                          ELSE IF ev.fail THEN [s EXCEPT !.cl[ev.c].failed = TRUE] ELSE s, ev.c) }
    \* callbacks: never for a removed client; onRead only while registered for reading (not suspended)
    [] ev.op = "onRead" ->
         IF s.cl[ev.c].alive /\ ~s.cl[ev.c].susp /\ s.inrun /\ ~MustReturn(s)
         \* a read that fails because the stream has ended or failed (the kernel's view is logged as peek) must be
         \* followed by onClosed
         THEN { Discharge(IF ~ev.noread /\ ~ev.r /\ ev.peek \in {0, -2} THEN [s EXCEPT !.cl[ev.c].closing = TRUE] ELSE s, ev.c) }
         ELSE {}
    [] ev.op = "onWrite" -> IF s.cl[ev.c].alive /\ s.inrun /\ ~MustReturn(s) THEN { Discharge(s, ev.c) } ELSE {}
    [] ev.op = "onClosed" -> IF s.cl[ev.c].alive /\ s.cl[ev.c].closing /\ s.inrun /\ ~MustReturn(s)
                             THEN { Discharge([s EXCEPT !.cl[ev.c].closing = FALSE], ev.c) } ELSE {}
    \* end-of-history probe (the client was resumed and the loop ran with everything the kernel reports): a live
    \* client whose connection has not failed must not be left with a backlog - its write readiness was registered
    \* and has to be dispatched
    [] ev.op = "check" -> IF s.cl[ev.c].alive /\ ~s.cl[ev.c].closing /\ ~s.cl[ev.c].pclosed /\ ~s.cl[ev.c].failed /\ ev.sb > 0 THEN {} ELSE { s }
    [] ev.op = "interrupt" -> { [s EXCEPT !.irq = TRUE] }
    [] ev.op = "run" -> IF ~s.inrun THEN { [s EXCEPT !.inrun = TRUE] } ELSE {}
    \* the loop asks the operating system: every socket reported ready before has been dispatched, every failed
    \* read/write has had its onClosed, and what is reported now becomes an obligation (readiness reported together
    \* with the interrupt stays due: it must be dispatched by the next run() before it polls again)
    [] ev.op = "poll" ->
         IF /\ s.inrun /\ ~MustReturn(s)
            /\ s.oblig = {}
            /\ \A c \in Cs : ~(s.cl[c].alive /\ s.cl[c].closing)
            /\ ev.timeout >= 0
            \* the loop does not ask to sleep past the due time of a live timer (also one created by the callback that ran last)
            /\ \A t \in DOMAIN s.tm : s.tm[t].alive => ev.now + ev.timeout <= s.tm[t].due
            \* a pending interrupt request is effective at once: the operating system is asked with the wake-up channel
            \* registered, so the very next poll reports it (run() does not sit out an unrelated time-out first)
            /\ (s.irq => ev.irq)
         THEN { [s EXCEPT !.wake = (ev.irq /\ s.irq),      \* (a stale wake-up without a pending request is not a reason to return)
                          !.oblig = { <<ev.ready[i][1], ev.ready[i][2]>> : i \in { j \in DOMAIN ev.ready : Registered(s, ev.ready[j]) } }] }
         ELSE {}
    \* run() returns only if an interrupt was requested since it last returned (and at once when the interrupt was polled)
    [] ev.op = "runend" -> IF s.inrun /\ s.irq THEN { [s EXCEPT !.inrun = FALSE, !.irq = FALSE, !.wake = FALSE] } ELSE {}
    [] OTHER -> { s }
================================================================================
