SPECIFICATION FairSpec
CONSTANTS NI = 3
 NRuns = 2
 Pre = FALSE
INVARIANTS NoFailure EfdBound
PROPERTY AllReturn
