SPECIFICATION TSpec
