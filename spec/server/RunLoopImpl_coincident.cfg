SPECIFICATION Spec
CONSTANTS NC = 1
 NT = 5
 Ivs = {2}
 MaxNow = 1001
 MaxSteps = 1
INVARIANTS RefinementOK QueueOK DueOK
CONSTRAINT Bound
