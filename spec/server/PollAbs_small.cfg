SPECIFICATION Spec
CONSTANTS NS = 2
 IMax = 2
 Masks <- MC_MasksS
 OsVals <- MC_OsValsS
INVARIANTS TypeOK Purged ReadyIsCand NeverStuck
PROPERTIES OnlyRegistered NoTimeoutWhilePending NoSpuriousEarly
