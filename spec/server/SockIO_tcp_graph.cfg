SPECIFICATION Spec
CONSTANTS NE = 2
 NU = 1
 SendSizes = {0, 1, 3}
 RecvSizes = {0, 1, 4}
 MinSizes = {0, 2}
 MaxSent = 4
 DgSizes = {}
 MaxDg = 0
 Partial = FALSE
VIEW ViewSt
INVARIANTS TypeOK PrefixInv EofInv FlightInv NeverStuck
PROPERTIES ZeroMeansClosed SendProgress OnceOnly
