SPECIFICATION Spec
CONSTANTS NC = 1
 NT = 3
 Ivs = {1, 2}
 MaxNow = 1004
 MaxSteps = 2
INVARIANTS RefinementOK QueueOK DueOK
CONSTRAINT Bound
