SPECIFICATION Spec
CONSTANTS NE = 2
 NU = 1
 SendSizes = {1, 3}
 RecvSizes = {1, 4}
 MinSizes = {0, 2}
 MaxSent = 3
 DgSizes = {}
 MaxDg = 0
 Partial = TRUE
INVARIANTS TypeOK PrefixInv EofInv FlightInv NeverStuck
PROPERTIES ZeroMeansClosed SendProgress OnceOnly
