SPECIFICATION Spec
CONSTANTS NC = 1
 NT = 2
 Ivs = {1, 2}
 MaxNow = 1003
 MaxSteps = 1
INVARIANTS RefinementOK QueueOK DueOK
CONSTRAINT Bound
