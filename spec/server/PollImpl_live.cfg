SPECIFICATION IFairSpec
CONSTANTS NS = 2
 B = 1
 CntMax = 1
 KeepLast = TRUE
 Rotate = TRUE
 IMax = 0
 Masks <- MC_Masks3
 OsVals <- MC_Os3
 IMaxCap <- MC_Cap
INVARIANTS RefinementOK TabOK CacheOK CntOK RotOK
PROPERTIES ReadinessReported InterruptHonoured
