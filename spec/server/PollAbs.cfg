SPECIFICATION Spec
CONSTANTS NS = 2
 IMax = 2
 Masks <- MC_Masks
 OsVals <- MC_OsVals
INVARIANTS TypeOK Purged ReadyIsCand NeverStuck
PROPERTIES OnlyRegistered NoTimeoutWhilePending NoSpuriousEarly
