------------------------------- MODULE InterruptImpl -------------------------------
(* Layer 2 model of the interrupt protocol of Server (src/Socket/Server.cpp: Private::interrupt and the "timeout or
   interrupt" branch of Private::run; Socket.cpp: Poll::interrupt / the eventfd handling of Poll::poll) with the
   runner thread 1 and interrupter threads 2..NI+1, at the granularity of the scheduler's scheduling points (mutex
   calls and the idle polls of the interposed epoll_wait).
     flag      Server::_interrupted          mtx    owner of _interruptMutex (0 = free)
     efd       counter of the eventfd (epoll reports it readable while > 0; read() resets it)
   Interrupter k issues its i-th interrupt only after run() number i has been entered.                       *)
EXTENDS Integers, FiniteSets, TLC
CONSTANTS NI, NRuns, Pre
Runner == 1
Ints == 2..(NI + 1)
VARIABLES stage, flag, mtx, efd, calls, rets, done, pending, bad
vars == <<stage, flag, mtx, efd, calls, rets, done, pending, bad>>
\* runner stages: "p" polling, "l" before mutex_lock, "u" after unlock (returning), "end"
\* interrupter stages: "w" waiting for its run, "a" before mutex_lock, "b" after unlock (write eventfd), "b0" after unlock (no write), "end"

RunnerStep ==
  /\ stage[Runner] \notin {"end"}
  /\ CASE stage[Runner] = "p" ->
            IF efd > 0
            THEN \* poll reports the interrupt: read(eventfd); flags = 0: test the flag without the mutex
                 /\ efd' = 0
                 /\ stage' = [stage EXCEPT ![Runner] = IF flag THEN "l" ELSE "p"]
                 /\ UNCHANGED <<flag, mtx, calls, rets, pending, bad>>
            ELSE UNCHANGED vars            \* idle poll (time passes)
       [] stage[Runner] = "l" ->
            /\ mtx = 0
            /\ IF flag
               THEN /\ flag' = FALSE /\ stage' = [stage EXCEPT ![Runner] = "u"] /\ UNCHANGED <<efd, calls, rets, pending, bad>>
               ELSE /\ stage' = [stage EXCEPT ![Runner] = "p"] /\ UNCHANGED <<flag, efd, calls, rets, pending, bad>>
            /\ UNCHANGED mtx
       [] stage[Runner] = "u" ->
            \* run() returns; the next run() is entered at once if there is one
            /\ rets' = rets + 1
            /\ bad' = IF rets + 1 <= pending THEN bad ELSE "run() returned more often than interrupt() was called"
            /\ pending' = pending
            /\ IF rets + 1 < NRuns THEN calls' = calls + 1 /\ stage' = [stage EXCEPT ![Runner] = "p"]
               ELSE calls' = calls /\ stage' = [stage EXCEPT ![Runner] = "end"]
            /\ UNCHANGED <<flag, mtx, efd>>
  /\ UNCHANGED done

IntStep(k) ==
  /\ stage[k] # "end"
  /\ CASE stage[k] = "w" ->
            IF calls >= done[k] + 1
            THEN stage' = [stage EXCEPT ![k] = "a"] /\ pending' = pending + 1 /\ UNCHANGED <<flag, mtx, efd, calls, rets, done, bad>>
            ELSE UNCHANGED vars
       [] stage[k] = "a" ->
            /\ mtx = 0
            /\ IF flag THEN stage' = [stage EXCEPT ![k] = "b0"] /\ UNCHANGED flag
               ELSE flag' = TRUE /\ stage' = [stage EXCEPT ![k] = "b"]
            /\ UNCHANGED <<mtx, efd, calls, rets, done, pending, bad>>
       [] stage[k] \in {"b", "b0"} ->
            /\ efd' = IF stage[k] = "b" THEN efd + 1 ELSE efd
            /\ done' = [done EXCEPT ![k] = done[k] + 1]
            /\ stage' = [stage EXCEPT ![k] = IF done[k] + 1 >= NRuns THEN "end" ELSE "w"]
            /\ UNCHANGED <<flag, mtx, calls, rets, pending, bad>>

Step(t) == IF t = Runner THEN RunnerStep ELSE IntStep(t)
Init == /\ stage = [t \in {Runner} \cup Ints |-> IF t = Runner THEN "p" ELSE "w"]
        /\ flag = Pre /\ mtx = 0 /\ efd = (IF Pre THEN 1 ELSE 0) /\ calls = 1 /\ rets = 0
        /\ done = [k \in Ints |-> 0] /\ pending = (IF Pre THEN 1 ELSE 0) /\ bad = "none"     \* pending = interrupt() calls so far
Next == \E t \in {Runner} \cup Ints : Step(t)
Spec == Init /\ [][Next]_vars
FairSpec == Spec /\ \A t \in {Runner} \cup Ints : SF_vars(Step(t) /\ vars' # vars)

NoFailure == bad = "none"                      \* never more returns of run() than interrupt() calls
EfdBound == efd <= NI * NRuns + 1
AllReturn == <>(rets = NRuns)                  \* every run() returns: each has a request issued after it started
================================================================================
