------------------------------- MODULE SockIO -------------------------------
(* Layer 1 (property level) specification of Socket stream / datagram I/O for the extra X06
   (src/Socket/Socket.cpp: open, connect, bind, listen, accept, send, recv, sendTo, recvFrom, close, getSockName,
   getPeerName, set*, getSockOpt).  No implementation details: only what a user of two connected Sockets / of UDP
   Sockets may rely on, on top of what the operating system guarantees for loopback TCP / UDP.

   TCP endpoints 1..NE; connection c has the endpoints 2c-1 (connect side) and 2c (accept side); Peer(e) is the other end.
   The harness sends, at stream offset p of endpoint e, the byte Byte(e, p): a byte sequence is identified by its
   sender, start offset and length, so only OFFSETS are tracked; loss, duplication, reordering or bytes of another
   connection show as a wrong byte value.  Per endpoint:
     made / open   the endpoint exists / has a descriptor         nb   non-blocking
     wr            its sending direction is finished (close() or shutdown(SHUT_WR))
     sent          number of bytes ACCEPTED by send() on this endpoint (sum of the positive results)
     rcvd          number of bytes of the peer's stream DELIVERED by recv() on this endpoint
     eof           a recv() has reported the end of the peer's stream
     rst           the connection was aborted (an end closed with unread / undeliverable data: the kernel answers with
                   a reset): results are no longer constrained, but bytes that ARE delivered must still be right.
   Sizes are pairs <<hi, lo>> (size = hi * 65536 + lo) so that sizes of 2^31 .. 2^33 bytes stay inside TLC's ints.
   Results: a count >= 0, WB (-1 with getLastError() = 0: would block) or ERR (-1 with another error).

   Rules (the statement in extras.jsonl, with the differences listed below):
     send   healthy connection, size > 0: 1 <= r <= size, or WB only on a non-blocking socket - FOR EVERY SIZE.
            size = 0: 0 (or WB).  After the own shutdown / on a closed socket: ERR.
     recv   r >= 1: r <= maxSize, r <= sent(peer) - rcvd, the bytes are the peer's stream at offset rcvd;
            r = 0: only when the peer finished sending AND everything it sent was received (see minSize below), or
            maxSize = 0;  WB: only on a non-blocking socket (loopback delivery is asynchronous: legal at any moment);
            a blocking recv with minSize returns at least minSize bytes while the peer has not finished sending.
            ERR only on a closed socket or an aborted connection.
     drain  (harness: poll + recv until a deadline) everything sent is eventually delivered, then the end of stream.
     sendTo returns the size (the datagram is in flight to the destination) or fails (nothing in flight).
     recvFrom  delivers exactly one datagram in flight to this socket (dropping is allowed, inventing / merging /
            splitting is not), all of it when maxSize suffices, its first maxSize bytes otherwise (POSIX: the rest of
            the datagram is discarded), with the sender's address and port.
     names  getSockName / getPeerName of the two ends are each other's mirror image, accept reports the connector.
     options  the setter returns true on an open socket; SO_KEEPALIVE / SO_REUSEADDR / SO_BROADCAST / TCP_NODELAY read
            back non-zero, SO_SNDBUF / SO_RCVBUF read back >= the requested value (Linux doubles it), O_NONBLOCK is set.

   DIFFERENCES between the statement and the library's evident behaviour / the platform, followed here:
     * Socket has no shutdown(): "shutdown" is ::shutdown(SHUT_WR) on getFileDescriptor(), done by the harness.
     * recv(data, maxSize, minSize) with minSize > 0 loops until minSize bytes have arrived.  When the peer's stream
       ends before that, it returns 0 ("closed") and the bytes received so far are not reported (they are in the
       buffer, the count is lost).  Evident intent (a caller that needs minSize bytes cannot proceed): Layer 1 allows
       r = 0 when the peer finished sending and fewer than minSize bytes were outstanding; all of them count as consumed.
     * recvFrom with maxSize smaller than the datagram: truncation (platform semantics), not a violation.
     * recv with maxSize = 0 / send with size = 0 return 0 at once: allowed (degenerate).
     * sendTo may fail for any reason (EMSGSIZE above 65507 bytes, full buffers): never judged.
   FINDING (genuine, see build/fixes/X06-io-size-truncated-to-int.patch): send / recv / sendTo / recvFrom cast their
     usize size to int: 2^32 and 2^33 become 0 (send returns 0, recv returns 0 = "connection closed" with data pending,
     sendTo sends an EMPTY datagram, recvFrom discards the datagram), 2^32 + 7 becomes 7 (sendTo sends a 7 byte
     datagram, recvFrom truncates a datagram that fits into the buffer to 7 bytes).                                  *)
EXTENDS Integers, Sequences, FiniteSets, TLC

CONSTANTS NE, NU
Eps == 1..NE
Us == 1..NU
Peer(e) == IF e % 2 = 1 THEN e + 1 ELSE e - 1
WB == -1
ERR == -2
Loopback == 2130706433
HeadLen == 24

Bq(q) == ((q % 256) + 7 * (q \div 256)) % 256
Byte(e, p) == Bq((p + 1021 * e) % 4096)
Stream(e, from, n) == [i \in 1..n |-> Byte(e, from + i - 1)]
DByte(u, id, i) == (i * 13 + id * 29 + u * 101) % 251
DStream(u, id, n) == [i \in 1..n |-> DByte(u, id, i - 1)]

\* sizes <<hi, lo>>
SzOf(n) == <<n \div 65536, n % 65536>>
SzZero(sz) == sz[1] = 0 /\ sz[2] = 0
SzSmall(sz) == sz[1] < 32768                      \* fits TLC's ints
SzInt(sz) == sz[1] * 65536 + sz[2]                \* only when SzSmall
Leq(r, sz) == ~SzSmall(sz) \/ r <= SzInt(sz)      \* r (an int) <= size
SzIs(r, sz) == SzSmall(sz) /\ r = SzInt(sz)
MinOf(a, b) == IF a < b THEN a ELSE b

FreshEp == [made |-> FALSE, open |-> FALSE, nb |-> FALSE, wr |-> FALSE, sent |-> 0, rcvd |-> 0, eof |-> FALSE, rst |-> FALSE]
FreshUd == [open |-> FALSE, nb |-> FALSE]
Init0 == [ep |-> [e \in Eps |-> FreshEp], ud |-> [u \in Us |-> FreshUd], dgs |-> <<>>, flight |-> [u \in Us |-> {}]]

Pend(s, e) == s.ep[Peer(e)].sent - s.ep[e].rcvd
Healthy(s, e) == s.ep[e].open /\ ~s.ep[e].wr /\ ~s.ep[e].rst /\ s.ep[Peer(e)].open

\* ---------------------------------------------------------------------------------------------- TCP
SendOK(s, e, sz, res) ==
  LET x == s.ep[e] IN
  IF ~x.open \/ x.wr THEN res = ERR
  ELSE IF ~Healthy(s, e) THEN res = ERR \/ (res = WB /\ x.nb) \/ (res >= 0 /\ Leq(res, sz) /\ (res = 0 => SzZero(sz)))
  ELSE IF SzZero(sz) THEN res = 0 \/ (res = WB /\ x.nb)
  ELSE (res >= 1 /\ Leq(res, sz)) \/ (res = WB /\ x.nb)
AfterSend(s, e, res) ==
  LET p == Peer(e)
      s1 == IF res > 0 THEN [s EXCEPT !.ep[e].sent = @ + res] ELSE s IN
  IF s.ep[e].open /\ ~s.ep[e].wr /\ ~s.ep[p].open          \* data for an end that no longer exists: the kernel resets
  THEN [s1 EXCEPT !.ep[e].rst = TRUE, !.ep[p].rst = TRUE] ELSE s1

RecvEof(s, e, min) == s.ep[Peer(e)].wr /\ (Pend(s, e) = 0 \/ Pend(s, e) < min)
RecvOK(s, e, sz, min, res) ==
  LET x == s.ep[e] IN
  IF ~x.open THEN res = ERR
  ELSE \/ res >= 1 /\ res <= Pend(s, e) /\ Leq(res, sz) /\ (x.nb \/ x.rst \/ res >= min \/ s.ep[Peer(e)].wr)
       \/ res = 0 /\ (SzZero(sz) \/ RecvEof(s, e, min) \/ x.rst)
       \/ res = WB /\ x.nb
       \/ res = ERR /\ x.rst
AfterRecv(s, e, sz, min, res) ==
  IF res > 0 THEN [s EXCEPT !.ep[e].rcvd = @ + res]
  ELSE IF res = 0 /\ s.ep[e].open /\ ~SzZero(sz) /\ (RecvEof(s, e, min) \/ (s.ep[e].rst /\ s.ep[Peer(e)].wr))
       \* the end of the stream (after a reset: what was outstanding is lost)
       THEN [s EXCEPT !.ep[e].rcvd = s.ep[Peer(e)].sent, !.ep[e].eof = TRUE]
  ELSE s

AfterClose(s, e) ==
  LET p == Peer(e)
      s1 == [s EXCEPT !.ep[e].open = FALSE, !.ep[e].wr = TRUE] IN
  IF s.ep[e].open /\ Pend(s, e) > 0 THEN [s1 EXCEPT !.ep[e].rst = TRUE, !.ep[p].rst = TRUE] ELSE s1
AfterShutwr(s, e) == IF s.ep[e].open THEN [s EXCEPT !.ep[e].wr = TRUE] ELSE s
\* what an explicit drain (poll + recv with a deadline) must have achieved: eventual delivery, then the end of stream
DrainedOK(s, e) ==
  LET x == s.ep[e]  p == s.ep[Peer(e)] IN
  (x.open /\ ~x.rst) => (x.rcvd = p.sent /\ (p.wr => x.eof))
AfterConn(s, c, nbA, nbB) ==
  [s EXCEPT !.ep[2 * c - 1] = [FreshEp EXCEPT !.made = TRUE, !.open = TRUE, !.nb = nbA],
            !.ep[2 * c] = [FreshEp EXCEPT !.made = TRUE, !.open = TRUE, !.nb = nbB]]
\* the observation of one conn op: names of both ends, the address accept reported
ConnObsOK(o) ==
  /\ o.ok /\ o.aopen /\ o.bopen
  /\ o.lip = Loopback /\ o.aip = Loopback /\ o.asip = Loopback /\ o.apip = Loopback /\ o.bsip = Loopback /\ o.bpip = Loopback
  /\ o.lport # 0 /\ o.asport # 0
  /\ o.bsport = o.lport /\ o.apport = o.lport            \* the accepted end lives on the listening port; A's peer is that
  /\ o.aport = o.asport /\ o.bpport = o.asport           \* accept and B's getPeerName report A's own name

\* ---------------------------------------------------------------------------------------------- options
OptObsOK(o) ==
  o.isopen =>
    /\ o.r
    /\ o.which = 0 => o.nbfl
    /\ (o.which \in {2, 3, 6} \/ (o.which = 1 /\ o.kind = 0)) => (o.gok /\ o.got # 0 /\ o.len = 4)
    /\ (o.which \in {4, 5} /\ o.val >= 0 /\ o.val <= 65536) => (o.gok /\ o.got >= o.val /\ o.len = 4)

\* ---------------------------------------------------------------------------------------------- UDP
\* sendTo of datagram number Len(dgs) + 1
SendToOK(s, u, sz, res) ==
  IF ~s.ud[u].open THEN res = ERR
  ELSE SzIs(res, sz) \/ res = ERR \/ (res = WB /\ s.ud[u].nb)
AfterSendTo(s, u, v, sz, res, port) ==
  LET id == Len(s.dgs) + 1
      s1 == [s EXCEPT !.dgs = @ \o << [from |-> u, to |-> v, n |-> IF SzSmall(sz) THEN SzInt(sz) ELSE -1, port |-> port] >>] IN
  IF res >= 0 /\ SzIs(res, sz) THEN [s1 EXCEPT !.flight[v] = @ \cup {id}] ELSE s1
\* recvFrom: id = the datagram delivered (0: none)
RecvFromOK(s, u, sz, id, res) ==
  IF ~s.ud[u].open THEN res = ERR
  ELSE \/ res = WB /\ s.ud[u].nb
       \/ /\ res >= 0 /\ id \in s.flight[u]
          /\ LET n == s.dgs[id].n IN IF Leq(n, sz) THEN res = n ELSE SzIs(res, sz)
AfterRecvFrom(s, u, id, res) == IF res >= 0 THEN [s EXCEPT !.flight[u] = @ \ {id}] ELSE s
\* the rest of the observation: address, port, bytes
RecvFromObsOK(s, o) ==
  o.r >= 0 => /\ o.id \in DOMAIN s.dgs
              /\ o.ip = Loopback /\ o.port = s.dgs[o.id].port /\ o.fromu = s.dgs[o.id].from
              /\ o.head = DStream(s.dgs[o.id].from, o.id, MinOf(o.r, HeadLen))
AfterUOpen(s, u, nbf) == [s EXCEPT !.ud[u] = [open |-> TRUE, nb |-> nbf], !.flight[u] = {}]
AfterUClose(s, u) == [s EXCEPT !.ud[u].open = FALSE, !.flight[u] = {}]

--------------------------------------------------------------------------------
\* One operator for both the bounded model and the trace specification.
\*   op        a        b            c         res
\*   conn      c        nbA          nbB       -
\*   send      e        size         -         result
\*   recv      e        maxSize      minSize   result
\*   close / shutwr / drain / drained   e
\*   uopen     u        -            nb        -
\*   usendto   u        size         v         result        (d = the sender's port)
\*   urecv     u        maxSize      id        result
\*   uclose    u
Allowed(op, s, a, b, c, res) ==
  CASE op = "conn"    -> TRUE
    [] op = "send"    -> s.ep[a].made /\ SendOK(s, a, b, res)
    [] op = "recv"    -> s.ep[a].made /\ RecvOK(s, a, b, c, res)
    [] op = "close"   -> s.ep[a].made
    [] op = "shutwr"  -> s.ep[a].made
    [] op = "drain"   -> s.ep[a].open /\ ~s.ep[a].rst
    [] op = "drained" -> DrainedOK(s, a)
    [] op = "uopen"   -> TRUE
    [] op = "usendto" -> SendToOK(s, a, b, res)
    [] op = "urecv"   -> RecvFromOK(s, a, b, c, res)
    [] op = "uclose"  -> TRUE
Apply(op, s, a, b, c, res, d) ==
  CASE op = "conn"    -> AfterConn(s, a, b, c)
    [] op = "send"    -> AfterSend(s, a, res)
    [] op = "recv"    -> AfterRecv(s, a, b, c, res)
    [] op = "close"   -> AfterClose(s, a)
    [] op = "shutwr"  -> AfterShutwr(s, a)
    [] op = "drain"   -> [s EXCEPT !.ep[a].rcvd = s.ep[Peer(a)].sent, !.ep[a].eof = s.ep[Peer(a)].wr]
    [] op = "drained" -> s
    [] op = "uopen"   -> AfterUOpen(s, a, c)
    [] op = "usendto" -> AfterSendTo(s, a, c, b, res, d)
    [] op = "urecv"   -> AfterRecvFrom(s, a, c, res)
    [] op = "uclose"  -> AfterUClose(s, a)

--------------------------------------------------------------------------------
\* Stand-alone bounded model: one connection (2 sockets), a few sizes, close / shutdown; 2 UDP sockets.
\* Partial = FALSE restricts the MODEL (never the rules) to the outcomes loopback sockets produce for tiny sizes (everything
\* accepted / everything pending delivered): the configuration whose state graph is replayed on real sockets.
CONSTANTS SendSizes, RecvSizes, MinSizes, MaxSent, DgSizes, MaxDg, Partial
VARIABLES st, last
vars == <<st, last>>
ViewSt == st
\* bounds of the model (guards live inside the named action so that TLC labels every edge with Do(...))
MGuard(op, a, b, c, res) ==
  CASE op = "conn"    -> MaxSent > 0 /\ ~st.ep[1].made
    [] op = "send"    -> MaxSent > 0 /\ st.ep[a].sent + SzInt(b) <= MaxSent /\ res <= SzInt(b)
                         /\ (Partial \/ res < 0 \/ res = SzInt(b))
    [] op = "recv"    -> MaxSent > 0 /\ c <= SzInt(b) /\ res <= SzInt(b)
                         /\ (Partial \/ res <= 0 \/ res = MinOf(SzInt(b), Pend(st, a)))
    [] op = "close"   -> MaxSent > 0 /\ st.ep[a].open
    [] op = "shutwr"  -> MaxSent > 0 /\ st.ep[a].open /\ ~st.ep[a].wr
    [] op = "drain"   -> MaxSent > 0 /\ Pend(st, a) > 0
    [] op = "uopen"   -> MaxDg > 0 /\ ~st.ud[a].open /\ Len(st.dgs) < MaxDg
    [] op = "usendto" -> MaxDg > 0 /\ Len(st.dgs) < MaxDg /\ st.ud[a].open /\ st.ud[c].open /\ res \in {SzInt(b), ERR}
    [] op = "urecv"   -> MaxDg > 0 /\ (c = 0 <=> res < 0)
    [] op = "uclose"  -> MaxDg > 0 /\ st.ud[a].open
Do(op, a, b, c, res) == /\ MGuard(op, a, b, c, res)
                        /\ Allowed(op, st, a, b, c, res)
                        /\ st' = Apply(op, st, a, b, c, res, 1000 + a)
                        /\ last' = <<op, a, b, c, res>>
Init == st = Init0 /\ last = <<"init", 0, 0, 0, 0>>
Next ==
  \/ \E nbA, nbB \in BOOLEAN : Do("conn", 1, nbA, nbB, 0)
  \/ \E e \in Eps, n \in SendSizes, res \in -2..3 : Do("send", e, SzOf(n), 0, res)
  \/ \E e \in Eps, m \in RecvSizes, k \in MinSizes, res \in -2..4 : Do("recv", e, SzOf(m), k, res)
  \/ \E e \in Eps : Do("close", e, 0, 0, 0) \/ Do("shutwr", e, 0, 0, 0) \/ Do("drain", e, 0, 0, 0)
  \/ \E u \in Us, nbf \in BOOLEAN : Do("uopen", u, 0, nbf, 0)
  \/ \E u \in Us, v \in Us, n \in DgSizes, res \in -2..4 : Do("usendto", u, SzOf(n), v, res)
  \/ \E u \in Us, m \in RecvSizes, id \in 0..MaxDg, res \in -1..4 : Do("urecv", u, SzOf(m), id, res)
  \/ \E u \in Us : Do("uclose", u, 0, 0, 0)
Spec == Init /\ [][Next]_vars

TypeOK == /\ \A e \in Eps : st.ep[e].sent \in 0..MaxSent /\ st.ep[e].rcvd \in 0..MaxSent
          /\ \A u \in Us : st.flight[u] \subseteq 1..Len(st.dgs)
\* the bytes obtained by recv are a prefix of the bytes accepted by send
PrefixInv == \A e \in Eps : st.ep[e].rcvd <= st.ep[Peer(e)].sent
\* the end of stream is reported only after the peer finished and everything was received
EofInv == \A e \in Eps : st.ep[e].eof => (st.ep[Peer(e)].wr /\ st.ep[e].rcvd = st.ep[Peer(e)].sent)
\* a datagram in flight is addressed to the socket that may receive it
FlightInv == \A u \in Us : \A id \in st.flight[u] : st.dgs[id].to = u /\ st.dgs[id].n >= 0
IsOp(o) == last'[1] = o
\* recv = 0 on a working connection with maxSize > 0 means: the peer finished sending
ZeroMeansClosed == [][(IsOp("recv") /\ last'[5] = 0 /\ ~SzZero(last'[3]) /\ ~st.ep[last'[2]].rst) => st.ep[Peer(last'[2])].wr]_vars
\* a send of size > 0 on a healthy connection never returns 0 and never fails
SendProgress == [][(IsOp("send") /\ Healthy(st, last'[2]) /\ ~SzZero(last'[3])) => (last'[5] >= 1 \/ (last'[5] = WB /\ st.ep[last'[2]].nb))]_vars
\* datagrams are delivered at most once
OnceOnly == [][(IsOp("urecv") /\ last'[5] >= 0) => (last'[4] \in st.flight[last'[2]] /\ last'[4] \notin st'.flight[last'[2]])]_vars
\* every call has an allowed outcome (the specification never demands the impossible): blocking calls that would wait
\* forever excepted (blocking recv without data / end of stream)
NeverStuck ==
  /\ \A e \in Eps : st.ep[e].made =>
       /\ \E res \in -2..1 : SendOK(st, e, SzOf(1), res)
       /\ (st.ep[e].nb \/ ~st.ep[e].open \/ Pend(st, e) > 0 \/ st.ep[Peer(e)].wr \/ st.ep[e].rst) => \E res \in -2..1 : RecvOK(st, e, SzOf(1), 0, res)
================================================================================
