------------------------------ MODULE RefCountImpl ------------------------------
(* Layer 2 model for property C09: the reference-count protocol of String / Variant ("cow" kinds: copy shares the
   payload, a write clones it unless the writer is the sole owner) and RefCount::Ptr, as written in String.hpp,
   Variant.hpp and RefCount.hpp, at the granularity of the scheduling points that the NSTD_VERIF hook in Atomic.hpp
   creates (one before every atomic increment / decrement).  Threads own DISTINCT handles a, b; payloads 1 and 2
   are shared by all threads' handles initially.
     tgt[t] = <<a, b>>  target of each handle: 1, 2 shared payloads; 0 none (empty / null); 3 a payload private to
                        the thread; -1 handle deleted
     ref[p], freed[p]   reference count and number of times payload p was released
   One action = what a thread executes between two scheduling points; a behaviour read as the sequence of thread
   numbers is a schedule for harness/conc/scn_rc.cpp.                                                          *)
EXTENDS Integers, Sequences, FiniteSets, TLC
CONSTANTS Prog, Kind          \* Kind \in {"string", "variant", "ptr"}
Ts == DOMAIN Prog
Shared == {1, 2}
VARIABLES pc, stage, tgt, ref, freed, bad, newt
\* stage: "x" start, "i" parked before the increment, "d" parked before the decrement, "e1"/"e2" destroying a / b at the end
vars == <<pc, stage, tgt, ref, freed, bad, newt>>
S == [pc |-> pc, stage |-> stage, tgt |-> tgt, ref |-> ref, freed |-> freed, bad |-> bad, newt |-> newt]

OpAt(s, t) == IF s.pc[t] = 0 THEN "start" ELSE IF s.pc[t] <= Len(Prog[t]) THEN Prog[t][s.pc[t]] ELSE "end"
\* which handle an op changes (1 = a, 2 = b) and which it reads
Dst(f) == IF f \in {"aeqb", "aeqa", "wa", "ca", "da"} THEN 1 ELSE 2
Src(f) == IF f = "aeqa" THEN 1 ELSE 3 - Dst(f)          \* aeqa: self-assignment a = a
SetBad(s, b) == IF s.bad = "none" THEN [s EXCEPT !.bad = b] ELSE s
Touch(s, p, what) == IF p \in Shared /\ s.freed[p] > 0 THEN SetBad(s, what) ELSE s
Inc(s, p) == IF p \in Shared THEN [Touch(s, p, "increment of a released payload") EXCEPT !.ref[p] = s.ref[p] + 1] ELSE s
Dec(s, p) == IF p \in Shared
             THEN LET s1 == Touch(s, p, "decrement of a released payload") IN
                  IF s1.ref[p] = 1 THEN [s1 EXCEPT !.ref[p] = 0, !.freed[p] = s1.freed[p] + 1] ELSE [s1 EXCEPT !.ref[p] = s1.ref[p] - 1]
             ELSE s
SetT(s, t, h, v) == [s EXCEPT !.tgt[t][h] = v]
Park(s, t, st) == [s EXCEPT !.stage[t] = st]
OthersTarget(s, t, h, p) == \E u \in Ts, k \in {1, 2} : <<u, k>> # <<t, h>> /\ s.tgt[u][k] = p

\* the thread has finished an operation: run the next one up to its first scheduling point
RECURSIVE Enter(_, _)
Enter(s0, t) ==
  LET s == [s0 EXCEPT !.pc[t] = s0.pc[t] + 1]
      f == OpAt(s, t)  d == Dst(f)  x == s.tgt[t][d]  y == s.tgt[t][Src(f)] IN
  CASE f = "end" -> IF s.tgt[t][1] \in {-1, 0} THEN (IF s.tgt[t][2] \in {-1, 0} THEN Park(SetT(SetT(s, t, 1, -1), t, 2, -1), t, "done") ELSE Park(SetT(s, t, 1, -1), t, "e2"))
                 ELSE Park(s, t, "e1")
    [] f \in {"aeqb", "beqa", "aeqa"} ->
         IF x = -1 \/ y = -1 THEN Enter(s, t)
         ELSE IF y # 0 THEN Park([s EXCEPT !.newt[t] = y], t, "i")                         \* shares the source's payload
         ELSE IF x # 0 THEN Park([s EXCEPT !.newt[t] = IF Kind = "string" THEN 3 ELSE 0], t, "d")
         ELSE Enter(SetT(s, t, d, IF Kind = "string" THEN 3 ELSE 0), t)
    [] f \in {"wa", "wb"} ->
         IF x = -1 \/ Kind = "ptr" THEN Enter(s, t)
         ELSE IF x \in Shared
         THEN IF s.ref[x] = 1                                                                \* sole owner: in place
              THEN Enter(IF OthersTarget(s, t, d, x) THEN SetBad(s, "in-place write to a payload another handle refers to") ELSE s, t)
              ELSE Park([Touch(s, x, "read of a released payload") EXCEPT !.newt[t] = 3], t, "d")   \* clone, then release
         ELSE Enter(SetT(s, t, d, 3), t)
    [] f \in {"ca", "cb"} ->
         IF x \in {-1, 0} THEN Enter(s, t)
         ELSE IF Kind = "string" /\ ((x \in Shared /\ s.ref[x] = 1) \/ x = 3)
         THEN Enter(IF x \in Shared /\ OthersTarget(s, t, d, x) THEN SetBad(s, "in-place clear of a payload another handle refers to") ELSE s, t)
         ELSE Park([s EXCEPT !.newt[t] = 0], t, "d")
    [] f = "sw" -> IF Kind = "ptr" /\ s.tgt[t][1] # -1 /\ s.tgt[t][2] # -1 THEN Enter([s EXCEPT !.tgt[t] = <<s.tgt[t][2], s.tgt[t][1]>>], t) ELSE Enter(s, t)
    [] f \in {"da", "db"} -> IF x \in {-1, 0} THEN Enter(SetT(s, t, d, -1), t) ELSE Park([s EXCEPT !.newt[t] = -1], t, "d")
    [] OTHER -> Enter(s, t)

Move(s, t) ==
  LET f == OpAt(s, t)  d == Dst(f)  x == s.tgt[t][d]  st == s.stage[t] IN
  CASE st = "x" -> Enter(s, t)
    [] st = "i" -> LET s1 == Inc(s, s.newt[t]) IN                                           \* increment done; now release the old target
                   IF x \in {1, 2, 3} THEN Park(s1, t, "d") ELSE Enter(SetT(s1, t, d, s.newt[t]), t)
    [] st = "d" -> Enter(SetT(Dec(s, x), t, d, s.newt[t]), t)                                \* decrement-and-test, then the handle is overwritten
    [] st = "e1" -> LET s1 == SetT(Dec(s, s.tgt[t][1]), t, 1, -1) IN
                    IF s1.tgt[t][2] \in {-1, 0} THEN Park(SetT(s1, t, 2, -1), t, "done") ELSE Park(s1, t, "e2")
    [] st = "e2" -> Park(SetT(Dec(s, s.tgt[t][2]), t, 2, -1), t, "done")
    [] OTHER -> s

Step(t) == /\ stage[t] # "done" /\ bad = "none"
           /\ LET s == Move(S, t) IN
              /\ pc' = s.pc /\ stage' = s.stage /\ tgt' = s.tgt /\ ref' = s.ref /\ freed' = s.freed /\ bad' = s.bad /\ newt' = s.newt
Init == /\ pc = [t \in Ts |-> 0] /\ stage = [t \in Ts |-> "x"] /\ tgt = [t \in Ts |-> <<1, 2>>]
        /\ ref = [p \in Shared |-> Cardinality(Ts)] /\ freed = [p \in Shared |-> 0] /\ bad = "none" /\ newt = [t \in Ts |-> 0]
Next == \E t \in Ts : Step(t)
Spec == Init /\ [][Next]_vars
FairSpec == Spec /\ \A t \in Ts : WF_vars(Step(t))

\* ---- properties
NoFailure == bad = "none"                                        \* nothing touches a released payload; no in-place write while shared
ReleasedOnce == \A p \in Shared : freed[p] <= 1
\* never released while a handle (whose assignment has completed) still refers to it
NotReleasedWhileReferenced == \A p \in Shared : freed[p] > 0 => ~\E t \in Ts, h \in {1, 2} : tgt[t][h] = p
AllDone == \A t \in Ts : stage[t] = "done"
\* when every handle has gone every shared payload has been released exactly once
AllReleasedAtEnd == AllDone => \A p \in Shared : freed[p] = 1 /\ ref[p] = 0
Termination == <>AllDone
================================================================================
