SPECIFICATION Spec
CONSTANTS
 B = 2
 NL = 3
 InitK = 3
 Progs <- P_mix
INVARIANTS TypeOK OneCasWinner NoLostUpdate TicketsDistinct Exclusion

