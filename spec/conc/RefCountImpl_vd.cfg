SPECIFICATION FairSpec
CONSTANTS
 Prog <- P_d
 Kind = "variant"
INVARIANTS NoFailure ReleasedOnce NotReleasedWhileReferenced AllReleasedAtEnd
PROPERTY Termination
