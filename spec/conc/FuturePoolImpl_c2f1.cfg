SPECIFICATION Spec
CONSTANTS NClients = 2
FuturesPerClient = 1
MaxThreads = 2
Cap = 1
AllowRetire = TRUE
FixRetire = TRUE
FixReset = TRUE
FixRetireSet = TRUE
INVARIANTS AtMostOnce JoinAfterDone QueueOK
PROPERTY Live
CONSTANT defaultInitValue = defaultInitValue
