SPECIFICATION FairSpec
CONSTANTS
 Prog <- P_e
 Kind = "ptr"
INVARIANTS NoFailure ReleasedOnce NotReleasedWhileReferenced AllReleasedAtEnd
PROPERTY Termination
