------------------------------- MODULE RefHandles -------------------------------
(* Layer 1 (property level) specification for property C09 over the events of harness/conc/scn_rc.cpp.
   Every thread t owns two handles a, b; the value of a handle is a byte string (String, Variant) or a payload id
   (RefCount::Ptr).  Handles are values: an operation on one handle changes that handle only, whatever other
   threads do to their handles of the same payload at the same time.  For Ptr the pointee's destructor is observed:
   a payload is destroyed exactly once, and only when no handle refers to it any more (an operation that has been
   called counts as having released its old target already - the earliest moment it could).
     val[t] = <<a, b>>    <<-1>> = handle deleted
     dcount[p]            how often payload p was destroyed                                                  *)
EXTENDS Integers, Sequences, FiniteSets, TLC
CONSTANT NT
Ts == 1..NT
Gone == <<-1>>
Wr(t) == 64 + t
\* Ptr payloads: 1 and 2 are the common payloads, each holding a handle (member next) to a successor: 3 and 4
Init0 == [kind |-> "none", val |-> [t \in Ts |-> <<Gone, Gone>>], dcount |-> <<0, 0, 0, 0>>, pend |-> [t \in Ts |-> "none"]]
Succ(p) == CASE p = <<1>> -> <<3>> [] p = <<2>> -> <<4>> [] OTHER -> <<0>>
Pred(p) == CASE p = 3 -> 1 [] p = 4 -> 2 [] OTHER -> 0
\* container kinds (Variants sharing an Array / List / HashMap payload): marker followed by the elements' bytes
\* xtext / xelem: Xml::Variant handles sharing a text / an element payload (element: marker -6, then the bytes of its type)
Marker(kind) == CASE kind = "varr" -> -3 [] kind = "vlist" -> -4 [] kind = "vmap" -> -5 [] kind = "xelem" -> -6 [] OTHER -> 0
IsCont(kind) == kind \in {"varr", "vlist", "vmap", "xelem"}
IsText(kind) == kind \in {"string", "variant"}
InitVal(kind) == IF kind = "ptr" THEN << <<1>>, <<2>> >>
                 ELSE IF IsCont(kind) THEN << <<Marker(kind), 112>>, <<Marker(kind), 113>> >>
                 ELSE << <<112, 49, 32>>, <<113, 50, 32>> >>        \* string, variant, xtext
\* the string a text handle holds when it is written through (a Variant holding a list becomes the empty string first)
Base(x) == IF x # <<>> /\ x[1] = -2 THEN <<>> ELSE x
RECURSIVE TrimL(_), TrimR(_)
TrimL(x) == IF x # <<>> /\ x[1] = 32 THEN TrimL(Tail(x)) ELSE x
TrimR(x) == IF x # <<>> /\ x[Len(x)] = 32 THEN TrimR(SubSeq(x, 1, Len(x) - 1)) ELSE x
DropLast(x) == IF x = <<>> THEN x ELSE SubSeq(x, 1, Len(x) - 1)
Upper(x) == [i \in 1..Len(x) |-> IF x[i] >= 97 /\ x[i] <= 122 THEN x[i] - 32 ELSE x[i]]
\* wa / wb on the three kinds of values
Write(kind, x, t) ==
  IF IsCont(kind) THEN LET c == IF x = <<>> THEN <<Marker(kind)>> ELSE x IN      \* a cleared Variant becomes an empty container
                       IF kind = "vmap" /\ \E i \in 2..Len(c) : c[i] = Wr(t) THEN c ELSE Append(c, Wr(t))
  ELSE Append(Base(x), Wr(t))
Access(kind, x) == IF IsCont(kind) THEN (IF x = <<>> THEN <<Marker(kind)>> ELSE x) ELSE Base(x)

\* the effect of operation f of thread t on its own two handles
Apply(kind, v, t, f) ==
  LET a == v[1]  b == v[2] IN
  CASE f = "aeqb" -> IF a # Gone /\ b # Gone THEN <<b, b>> ELSE v
    [] f = "beqa" -> IF a # Gone /\ b # Gone THEN <<a, a>> ELSE v
    [] f = "aeqa" -> v                                     \* self-assignment changes nothing
    [] f = "wa" -> IF a # Gone /\ kind # "ptr" THEN <<Write(kind, a, t), b>> ELSE v
    [] f = "wb" -> IF b # Gone /\ kind # "ptr" THEN <<a, Write(kind, b, t)>> ELSE v
    \* the mutable accessor alone, and in-place modifications of a text value: trim, drop the last byte, upper case
    [] f = "ga" -> IF a # Gone /\ kind \notin {"ptr", "string", "xtext"} THEN <<Access(kind, a), b>> ELSE v
    [] f = "gb" -> IF b # Gone /\ kind \notin {"ptr", "string", "xtext"} THEN <<a, Access(kind, b)>> ELSE v
    [] f = "ta" -> IF a # Gone /\ IsText(kind) THEN <<TrimR(TrimL(Base(a))), b>> ELSE v
    [] f = "tb" -> IF b # Gone /\ IsText(kind) THEN <<a, TrimR(TrimL(Base(b)))>> ELSE v
    [] f = "za" -> IF a # Gone /\ IsText(kind) THEN <<DropLast(Base(a)), b>> ELSE v
    [] f = "zb" -> IF b # Gone /\ IsText(kind) THEN <<a, DropLast(Base(b))>> ELSE v
    [] f = "ua" -> IF a # Gone /\ IsText(kind) THEN <<Upper(Base(a)), b>> ELSE v
    [] f = "ub" -> IF b # Gone /\ IsText(kind) THEN <<a, Upper(Base(b))>> ELSE v
    [] f = "ca" -> IF a # Gone THEN <<IF kind = "ptr" THEN <<0>> ELSE <<>>, b>> ELSE v
    [] f = "cb" -> IF b # Gone THEN <<a, IF kind = "ptr" THEN <<0>> ELSE <<>>>> ELSE v
    \* Variant only: la/lb wrap the value into a one-element list (<<-2>> \o bytes); oa/ob assign the handle the first
    \* element of its own list; writing to a list value converts it to the (empty) string first
    [] f = "la" -> IF a # Gone /\ kind = "variant" THEN << <<-2>> \o a, b >> ELSE v
    [] f = "lb" -> IF b # Gone /\ kind = "variant" THEN << a, <<-2>> \o b >> ELSE v
    [] f = "oa" -> IF a # Gone /\ kind = "variant" /\ a # <<>> /\ a[1] = -2 THEN << Tail(a), b >> ELSE v
    [] f = "ob" -> IF b # Gone /\ kind = "variant" /\ b # <<>> /\ b[1] = -2 THEN << a, Tail(b) >> ELSE v
    [] f = "sw" -> IF a # Gone /\ b # Gone /\ kind = "ptr" THEN <<b, a>> ELSE v
    \* Ptr only: p = p->next (a null handle stays null)
    [] f = "na" -> IF a # Gone /\ kind = "ptr" /\ a # <<0>> THEN <<Succ(a), b>> ELSE v
    [] f = "nb" -> IF b # Gone /\ kind = "ptr" /\ b # <<0>> THEN <<a, Succ(b)>> ELSE v
    [] f = "da" -> <<Gone, b>>
    [] f = "db" -> <<a, Gone>>
    [] f = "end" -> <<Gone, Gone>>
    [] OTHER -> v
\* who keeps payload p alive: the handles referring to it, and the member next of its predecessor while that one lives
Holders(s, p) == Cardinality({ <<t, h>> \in Ts \X {1, 2} : s.val[t][h] = <<p>> }) + (IF Pred(p) # 0 /\ s.dcount[Pred(p)] = 0 THEN 1 ELSE 0)

Step(ev, s) ==
  CASE ev.op = "setup" -> { [Init0 EXCEPT !.kind = ev.kind, !.val = [t \in Ts |-> IF t <= ev.n THEN InitVal(ev.kind) ELSE <<Gone, Gone>>]] }
    \* call: the operation's effect on the caller's own handles is known at once (handles are thread-private values)
    [] ev.op = "c" -> { [s EXCEPT !.val[ev.t] = Apply(s.kind, s.val[ev.t], ev.t, ev.f), !.pend[ev.t] = ev.f] }
    \* return: the real handles hold exactly these values
    [] ev.op = "h" -> IF s.pend[ev.t] = ev.f /\ <<ev.a, ev.b>> = s.val[ev.t] THEN { [s EXCEPT !.pend[ev.t] = "none"] } ELSE {}
    \* a payload is released exactly once, after the last handle referring to it has gone
    [] ev.op = "destroyed" -> IF s.kind = "ptr" /\ ev.p \in 1..4 /\ s.dcount[ev.p] = 0 /\ Holders(s, ev.p) = 0
                              THEN { [s EXCEPT !.dcount[ev.p] = 1] } ELSE {}
    \* the end of the execution: everything without a handle has been released
    [] ev.op = "end" -> IF ev.verdict = "done" /\ s.kind = "ptr" /\ \E p \in 1..4 : Holders(s, p) = 0 /\ s.dcount[p] # 1 THEN {} ELSE { s }
    \* native stress (harness/conc/stress_rc.cpp): really parallel threads copied and dropped handles of one object through every
    \* copy path; it was destroyed exactly once, after its last handle (destroyed = 1, never early), and every access saw it intact
    [] ev.op = "stress" -> IF ev.destroyed = 1 /\ ev.early = 0 /\ ev.bad = 0 THEN { s } ELSE {}
    [] OTHER -> { s }
================================================================================
