SPECIFICATION FairSpec
CONSTANTS
 Prog <- P_d
 Kind = "string"
INVARIANTS NoFailure ReleasedOnce NotReleasedWhileReferenced AllReleasedAtEnd
PROPERTY Termination
