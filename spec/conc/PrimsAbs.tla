-------------------------------- MODULE PrimsAbs --------------------------------
(* Layer 1 (property level) specification of Mutex, Semaphore, Signal, Monitor and Thread for property C11, over the
   call / return events that the threads of harness/conc/scn_prims.cpp log while they hold the scheduler's baton.
   An operation takes effect at some moment between its call and its return event; every rule below is written so
   that it holds for EVERY such moment (no false alarm) - e.g. a release counts from its call event, an acquisition
   from its return event.
     owner, depth       who holds the Mutex / the Monitor's mutex, how often (re-entrant for its owner)
     busy[t]            during t's pending tryLock some other thread held or was acquiring the mutex
     count              semaphore: initial value + signals called - successful waits
     ct, seen[t]        Signal: the flag could be true now / could have been true at some moment of t's pending wait
     dirty[t]           t's pending reset overlaps a set (so it need not leave the flag false)
     sets, okWaits      Monitor: set() calls begun / successful waits
     ds, sdirty[t]      Signal: definitely set (a set() that no reset() overlapped has returned and no reset() has been
                        called since) / t's pending set overlaps a reset
     dm, lateTO         Monitor: a set() has returned and no wait has consumed it since / a timed wait gave up while dm
     sigRet, succ       Semaphore: signals returned / successful waits returned
     cw[t], must[u]     Signal: the waiters that were blocked inside wait when t's pending set() was called and have not given
                        up since / u was one of them when that set() returned: u's wait has to return true ("set releases
                        all current waiters"), whatever reset() follows
     ends               values returned by finished thread functions
   The event "timeout" (logged by the scheduler) is the instant a timed wait gives up while its thread is still
   blocked: no waiter may stay blocked - and give up - while the signal is definitely set, while a semaphore token is
   definitely available to it, or (Monitor) while a set() stays unconsumed to the end.
   Step(ev, s) = set of allowed successor states (empty = the event violates C11).                            *)
EXTENDS Integers, Sequences, FiniteSets, TLC
CONSTANT NT
Ts == 1..NT
Init0 == [owner |-> 0, depth |-> 0, busy |-> [t \in Ts |-> FALSE], count |-> 0, ct |-> FALSE,
          seen |-> [t \in Ts |-> FALSE], dirty |-> [t \in Ts |-> FALSE], sets |-> 0, okWaits |-> 0, ends |-> {},
          prim |-> "none", sdirty |-> [t \in Ts |-> FALSE], mdirty |-> [t \in Ts |-> FALSE], clk |-> 0,
          callAt |-> [t \in Ts |-> 0], lockAt |-> [t \in Ts |-> 0], dmAt |-> 0, ds |-> FALSE, dm |-> FALSE, lateTO |-> FALSE, sigRet |-> 0, succ |-> 0, init |-> 0,
          f |-> [t \in Ts |-> "none"], t0 |-> [t \in Ts |-> 0], ms |-> [t \in Ts |-> 0], saved |-> [t \in Ts |-> 0],
          exp |-> [t \in Ts |-> -1], cw |-> [t \in Ts |-> {}], must |-> [t \in Ts |-> FALSE]]      \* exp[t]: the result of the function t's Thread object was (successfully) started with

Pending(s, fs) == { u \in Ts : s.f[u] \in fs }
Begin(s, t, f, ev) == [s EXCEPT !.f[t] = f, !.t0[t] = ev.now, !.ms[t] = ev.ms, !.clk = s.clk + 1, !.callAt[t] = s.clk + 1]
End(s, t) == [s EXCEPT !.f[t] = "none"]
\* a timed wait may report failure only after its time-out has expired
Expired(s, t, ev) == ev.now >= s.t0[t] + s.ms[t]

Call(ev, s) ==
  LET t == ev.t  f == ev.f  b == Begin(s, t, f, ev) IN
  CASE f \in {"lock", "mlock"} -> { [b EXCEPT !.busy = [u \in Ts |-> IF s.f[u] \in {"trylock", "mtrylock"} /\ u # t THEN TRUE ELSE s.busy[u]]] }
    [] f \in {"trylock", "mtrylock"} -> { [b EXCEPT !.busy[t] = (s.owner \notin {0, t}) \/ (Pending(s, {"lock", "mlock", "trylock", "mtrylock", "mwait", "mtwait"}) \ {t} # {})] }
    \* a release counts from its call; only the owner may unlock
    [] f \in {"unlock", "munlock"} -> IF s.owner = t /\ s.depth >= 1
                                       THEN { [b EXCEPT !.depth = s.depth - 1, !.owner = IF s.depth = 1 THEN 0 ELSE t] } ELSE {}
    [] f = "signal" -> { [b EXCEPT !.count = s.count + 1] }
    [] f \in {"wait", "twait", "trywait"} -> { [b EXCEPT !.seen[t] = s.ct] }
    [] f = "set" -> { [b EXCEPT !.sdirty[t] = (Pending(s, {"reset"}) # {}), !.ct = TRUE, !.seen = [u \in Ts |-> s.seen[u] \/ s.f[u] \in {"wait", "twait"}],
                                !.dirty = [u \in Ts |-> s.dirty[u] \/ s.f[u] = "reset"],
                                !.cw[t] = IF "cw" \in DOMAIN ev THEN { ev.cw[i] : i \in DOMAIN ev.cw } \cap Pending(s, {"wait", "twait"}) ELSE {}] }
    [] f = "reset" -> { [b EXCEPT !.dirty[t] = (Pending(s, {"set"}) # {}), !.ds = FALSE,
                                  !.sdirty = [u \in Ts |-> s.sdirty[u] \/ s.f[u] = "set"]] }
    \* Monitor::wait releases the monitor (the caller must hold it) and re-acquires it before returning
    [] f \in {"mwait", "mtwait"} -> IF s.owner = t /\ s.depth >= 1
                                     THEN { [b EXCEPT !.owner = 0, !.depth = 0, !.saved[t] = s.depth,
                                                      !.busy = [u \in Ts |-> IF s.f[u] \in {"trylock", "mtrylock"} /\ u # t THEN TRUE ELSE s.busy[u]]] } ELSE {}
    [] f = "mset" -> { [b EXCEPT !.sets = s.sets + 1, !.mdirty[t] = FALSE] }
    [] OTHER -> { b }

Ret(ev, s) ==
  LET t == ev.t  f == ev.f  e == End(s, t) IN
  IF s.f[t] # f THEN {}
  ELSE CASE f \in {"lock", "mlock"} ->                       \* mutual exclusion, re-entrant for the owner
              IF s.owner \in {0, t} THEN { [e EXCEPT !.owner = t, !.depth = s.depth + 1, !.lockAt[t] = s.clk] } ELSE {}
         [] f \in {"trylock", "mtrylock"} ->                 \* succeeds only when free or own; may fail only if it was busy
              IF ev.r = 1 THEN (IF s.owner \in {0, t} THEN { [e EXCEPT !.owner = t, !.depth = s.depth + 1] } ELSE {})
              ELSE IF s.busy[t] THEN { e } ELSE {}
         [] f \in {"wait", "twait", "trywait"} /\ s.count # -1 /\ ev.prim = "sem" ->
              IF ev.r = 1 THEN (IF s.count > 0 THEN { [e EXCEPT !.count = s.count - 1, !.succ = s.succ + 1] } ELSE {})   \* conservation
              ELSE IF f = "twait" THEN (IF Expired(s, t, ev) THEN { e } ELSE {})
              ELSE IF f = "trywait" THEN { e } ELSE {}                                             \* untimed wait never fails
         [] f \in {"wait", "twait"} /\ ev.prim = "signal" ->
              IF ev.r = 1 THEN (IF s.seen[t] THEN { [e EXCEPT !.must[t] = FALSE, !.cw = [u \in Ts |-> s.cw[u] \ {t}]] } ELSE {})          \* true only if set since the last reset
              ELSE IF f = "twait" /\ Expired(s, t, ev) /\ ~s.must[t] THEN { [e EXCEPT !.cw = [u \in Ts |-> s.cw[u] \ {t}]] } ELSE {}   \* a set() that found it blocked releases it
         [] f = "reset" -> { IF s.dirty[t] THEN e ELSE [e EXCEPT !.ct = FALSE] }
         [] f = "set" -> { [e EXCEPT !.ds = s.ds \/ ~s.sdirty[t],      \* definitely set unless a reset overlapped this set
                                     !.must = [u \in Ts |-> s.must[u] \/ u \in s.cw[t]], !.cw[t] = {}] }
         [] f = "signal" -> { [e EXCEPT !.sigRet = s.sigRet + 1] }
         \* the flag is definitely pending unless a successful wait overlapped this set (it may have consumed it)
         [] f = "mset" -> { IF s.mdirty[t] THEN e ELSE [e EXCEPT !.dm = TRUE, !.dmAt = s.callAt[t]] }
         [] f \in {"mwait", "mtwait"} ->
              IF s.owner # 0 THEN {}                                       \* returns holding the monitor again
              ELSE IF ev.r = 1 THEN (IF s.okWaits + 1 <= s.sets THEN { [e EXCEPT !.owner = t, !.depth = s.saved[t], !.okWaits = s.okWaits + 1, !.dm = FALSE, !.lateTO = FALSE,
                                                                                       !.mdirty = [u \in Ts |-> s.mdirty[u] \/ s.f[u] = "mset"]] } ELSE {})
              ELSE IF f = "mtwait" /\ Expired(s, t, ev) THEN { [e EXCEPT !.owner = t, !.depth = s.saved[t]] } ELSE {}
         \* join: the result of the function the thread was started with, after it has finished; a second start() on a
         \* Thread that has not been joined fails (and leaves the running thread alone)
         [] f = "join" -> IF ev.r \in s.ends /\ (s.exp[t] = -1 \/ ev.r = s.exp[t]) THEN { e } ELSE {}
         [] f = "restart" -> IF ev.r = 0 THEN { e } ELSE {}
         \* a start() whose thread could not be created reports failure and leaves the Thread startable
         [] f = "startf" -> IF ev.r = 0 THEN { e } ELSE {}
         [] f = "startagain" -> IF ev.r = 1 THEN { e } ELSE {}
         [] OTHER -> { e }

\* the instant a timed wait of thread t gives up although the thread could have been released
Timeout(ev, s) ==
  LET t == ev.t  f == s.f[t] IN
  IF t \notin Ts THEN { s }
  ELSE CASE f = "twait" /\ s.prim = "signal" -> IF s.ds \/ s.must[t] THEN {}          \* blocked while the signal remains set / after a set() that found it waiting
                                                 ELSE { [s EXCEPT !.cw = [u \in Ts |-> s.cw[u] \ {t}]] }   \* gave up before that set() took effect
         [] f = "twait" /\ s.prim = "sem" ->                                        \* blocked while a token is certainly free for it
              IF s.init + s.sigRet - s.succ - Cardinality(Pending(s, {"wait", "twait", "trywait"}) \ {t}) > 0 THEN {} ELSE { s }
         \* Monitor: a set() that was issued after this waiter had taken the monitor is still unconsumed
         [] f = "mtwait" -> { [s EXCEPT !.lateTO = s.lateTO \/ (s.dm /\ s.dmAt > s.lockAt[t])] }
         [] OTHER -> { s }

Step(ev, s) ==
  CASE ev.op = "setup" -> { [Init0 EXCEPT !.count = ev.init, !.ct = (ev.init # 0), !.ds = (ev.init # 0 /\ ev.prim = "signal"), !.init = ev.init, !.prim = ev.prim] }
    [] ev.op = "timeout" -> Timeout(ev, s)
    \* the end: a Monitor set() that stayed unconsumed although a waiter gave up after it had returned released nobody
    [] ev.op = "end" -> IF ev.verdict = "done" /\ s.dm /\ s.lateTO THEN {} ELSE { s }
    [] ev.op \in {"call", "ret"} /\ ev.f \in {"msetloop", "mdone", "start", "mstart"} -> { s }     \* harness-level steps
    [] ev.op = "call" -> Call(ev, s)
    [] ev.op = "ret" -> Ret(ev, s)
    [] ev.op = "proc_end" -> { [s EXCEPT !.ends = @ \cup {ev.v}] }
    [] ev.op = "started" -> { [s EXCEPT !.exp[ev.t] = ev.v] }
    [] OTHER -> { s }
================================================================================
