-------------------------------- MODULE PrimsAbs --------------------------------
(* Layer 1 (property level) specification of Mutex, Semaphore, Signal, Monitor and Thread for property C11, over the
   call / return events that the threads of harness/conc/scn_prims.cpp log while they hold the scheduler's baton.
   An operation takes effect at some moment between its call and its return event; every rule below is written so
   that it holds for EVERY such moment (no false alarm) - e.g. a release counts from its call event, an acquisition
   from its return event.
     owner, depth       who holds the Mutex / the Monitor's mutex, how often (re-entrant for its owner)
     busy[t]            during t's pending tryLock some other thread held or was acquiring the mutex
     count              semaphore: initial value + signals called - successful waits
     ct, seen[t]        Signal: the flag could be true now / could have been true at some moment of t's pending wait
     dirty[t]           t's pending reset overlaps a set (so it need not leave the flag false)
     sets, okWaits      Monitor: set() calls begun / successful waits
     ends               values returned by finished thread functions
   Step(ev, s) = set of allowed successor states (empty = the event violates C11).                            *)
EXTENDS Integers, Sequences, FiniteSets, TLC
CONSTANT NT
Ts == 1..NT
Init0 == [owner |-> 0, depth |-> 0, busy |-> [t \in Ts |-> FALSE], count |-> 0, ct |-> FALSE,
          seen |-> [t \in Ts |-> FALSE], dirty |-> [t \in Ts |-> FALSE], sets |-> 0, okWaits |-> 0, ends |-> {},
          f |-> [t \in Ts |-> "none"], t0 |-> [t \in Ts |-> 0], ms |-> [t \in Ts |-> 0], saved |-> [t \in Ts |-> 0]]

Pending(s, fs) == { u \in Ts : s.f[u] \in fs }
Begin(s, t, f, ev) == [s EXCEPT !.f[t] = f, !.t0[t] = ev.now, !.ms[t] = ev.ms]
End(s, t) == [s EXCEPT !.f[t] = "none"]
\* a timed wait may report failure only after its time-out has expired
Expired(s, t, ev) == ev.now >= s.t0[t] + s.ms[t]

Call(ev, s) ==
  LET t == ev.t  f == ev.f  b == Begin(s, t, f, ev) IN
  CASE f \in {"lock", "mlock"} -> { [b EXCEPT !.busy = [u \in Ts |-> IF s.f[u] \in {"trylock", "mtrylock"} /\ u # t THEN TRUE ELSE s.busy[u]]] }
    [] f \in {"trylock", "mtrylock"} -> { [b EXCEPT !.busy[t] = (s.owner \notin {0, t}) \/ (Pending(s, {"lock", "mlock", "trylock", "mtrylock", "mwait", "mtwait"}) \ {t} # {})] }
    \* a release counts from its call; only the owner may unlock
    [] f \in {"unlock", "munlock"} -> IF s.owner = t /\ s.depth >= 1
                                       THEN { [b EXCEPT !.depth = s.depth - 1, !.owner = IF s.depth = 1 THEN 0 ELSE t] } ELSE {}
    [] f = "signal" -> { [b EXCEPT !.count = s.count + 1] }
    [] f \in {"wait", "twait", "trywait"} -> { [b EXCEPT !.seen[t] = s.ct] }
    [] f = "set" -> { [b EXCEPT !.ct = TRUE, !.seen = [u \in Ts |-> s.seen[u] \/ s.f[u] \in {"wait", "twait"}],
                                !.dirty = [u \in Ts |-> s.dirty[u] \/ s.f[u] = "reset"]] }
    [] f = "reset" -> { [b EXCEPT !.dirty[t] = (Pending(s, {"set"}) # {})] }
    \* Monitor::wait releases the monitor (the caller must hold it) and re-acquires it before returning
    [] f \in {"mwait", "mtwait"} -> IF s.owner = t /\ s.depth >= 1
                                     THEN { [b EXCEPT !.owner = 0, !.depth = 0, !.saved[t] = s.depth,
                                                      !.busy = [u \in Ts |-> IF s.f[u] \in {"trylock", "mtrylock"} /\ u # t THEN TRUE ELSE s.busy[u]]] } ELSE {}
    [] f = "mset" -> { [b EXCEPT !.sets = s.sets + 1] }
    [] OTHER -> { b }

Ret(ev, s) ==
  LET t == ev.t  f == ev.f  e == End(s, t) IN
  IF s.f[t] # f THEN {}
  ELSE CASE f \in {"lock", "mlock"} ->                       \* mutual exclusion, re-entrant for the owner
              IF s.owner \in {0, t} THEN { [e EXCEPT !.owner = t, !.depth = s.depth + 1] } ELSE {}
         [] f \in {"trylock", "mtrylock"} ->                 \* succeeds only when free or own; may fail only if it was busy
              IF ev.r = 1 THEN (IF s.owner \in {0, t} THEN { [e EXCEPT !.owner = t, !.depth = s.depth + 1] } ELSE {})
              ELSE IF s.busy[t] THEN { e } ELSE {}
         [] f \in {"wait", "twait", "trywait"} /\ s.count # -1 /\ ev.prim = "sem" ->
              IF ev.r = 1 THEN (IF s.count > 0 THEN { [e EXCEPT !.count = s.count - 1] } ELSE {})   \* conservation
              ELSE IF f = "twait" THEN (IF Expired(s, t, ev) THEN { e } ELSE {})
              ELSE IF f = "trywait" THEN { e } ELSE {}                                             \* untimed wait never fails
         [] f \in {"wait", "twait"} /\ ev.prim = "signal" ->
              IF ev.r = 1 THEN (IF s.seen[t] THEN { e } ELSE {})          \* true only if set since the last reset
              ELSE IF f = "twait" /\ Expired(s, t, ev) THEN { e } ELSE {}
         [] f = "reset" -> { IF s.dirty[t] THEN e ELSE [e EXCEPT !.ct = FALSE] }
         [] f \in {"mwait", "mtwait"} ->
              IF s.owner # 0 THEN {}                                       \* returns holding the monitor again
              ELSE IF ev.r = 1 THEN (IF s.okWaits + 1 <= s.sets THEN { [e EXCEPT !.owner = t, !.depth = s.saved[t], !.okWaits = s.okWaits + 1] } ELSE {})
              ELSE IF f = "mtwait" /\ Expired(s, t, ev) THEN { [e EXCEPT !.owner = t, !.depth = s.saved[t]] } ELSE {}
         [] f = "join" -> IF ev.r \in s.ends THEN { e } ELSE {}           \* the function's result, after it has finished
         [] OTHER -> { e }

Step(ev, s) ==
  CASE ev.op = "setup" -> { [Init0 EXCEPT !.count = ev.init, !.ct = (ev.init # 0)] }
    [] ev.op \in {"call", "ret"} /\ ev.f \in {"msetloop", "mdone", "start"} -> { s }     \* harness-level steps
    [] ev.op = "call" -> Call(ev, s)
    [] ev.op = "ret" -> Ret(ev, s)
    [] ev.op = "proc_end" -> { [s EXCEPT !.ends = @ \cup {ev.v}] }
    [] OTHER -> { s }
================================================================================
