--------------------------- MODULE RefCountScenarios ---------------------------
(* Programs RefCountImpl is checked with (cfg files select with Prog <- ...). *)
EXTENDS RefCountImpl
P_a == << <<"wa", "aeqb", "ca">>, <<"beqa", "wb", "da">> >>
P_b == << <<"aeqb", "wb">>, <<"wa", "beqa">>, <<"ca", "db">> >>
P_c == << <<"sw", "ca", "aeqb">>, <<"aeqb", "sw", "cb">>, <<"da", "sw">> >>
P_e == << <<"cb", "aeqa", "wa">>, <<"da", "beqa", "cb">> >>
P_d == << <<"wa", "wb", "aeqb">>, <<"ca", "cb">>, <<"aeqb", "beqa", "wa">> >>
================================================================================
