SPECIFICATION TSpec
