SPECIFICATION TSpec
CONSTANT NT = 6
