SPECIFICATION Spec
CONSTANTS NClients = 1
FuturesPerClient = 2
MaxThreads = 2
Cap = 1
AllowRetire = TRUE
FixRetire = TRUE
FixReset = TRUE
FixRetireSet = TRUE
INVARIANTS AtMostOnce JoinAfterDone QueueOK
PROPERTY Live
CONSTANT defaultInitValue = defaultInitValue
