SPECIFICATION FairSpec
CONSTANTS
 B = 2
 NL = 3
 InitK = 0
 Progs <- P_lock
INVARIANTS TypeOK Exclusion LockWord CounterExact
PROPERTY Termination
