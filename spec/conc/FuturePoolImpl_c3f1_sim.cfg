SPECIFICATION Spec
CONSTANTS NClients = 3
FuturesPerClient = 1
MaxThreads = 3
Cap = 2
AllowRetire = TRUE
FixRetire = TRUE
FixReset = TRUE
FixRetireSet = TRUE
INVARIANTS AtMostOnce JoinAfterDone QueueOK
CONSTANT defaultInitValue = defaultInitValue
