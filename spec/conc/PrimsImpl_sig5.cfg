SPECIFICATION FairSpec
CONSTANTS
 Prog <- P_sig5
 SemInit = 0
 SigInit = FALSE
 AllowSpurious = TRUE
 FixSignalGen = TRUE
INVARIANTS SetReleasesAll MutexOK SemOK MonitorOK UntimedWaitsSucceed
PROPERTY Termination
