SPECIFICATION FairSpec
CONSTANTS
 Prog <- P_b
 Kind = "ptr"
INVARIANTS NoFailure ReleasedOnce NotReleasedWhileReferenced AllReleasedAtEnd
PROPERTY Termination
