SPECIFICATION Spec
CONSTANTS
 B = 2
 NL = 3
 InitK = 4
 Progs <- P_inc
INVARIANTS TypeOK NoLostUpdate TicketsDistinct OneCasWinner

