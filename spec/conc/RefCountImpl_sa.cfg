SPECIFICATION FairSpec
CONSTANTS
 Prog <- P_a
 Kind = "string"
INVARIANTS NoFailure ReleasedOnce NotReleasedWhileReferenced AllReleasedAtEnd
PROPERTY Termination
