SPECIFICATION Spec
CONSTANTS NClients = 2
FuturesPerClient = 2
MaxThreads = 1
Cap = 1
AllowRetire = FALSE
FixRetire = TRUE
FixReset = FALSE
FixRetireSet = TRUE
INVARIANTS AtMostOnce JoinAfterDone QueueOK
PROPERTY Live
CONSTANT defaultInitValue = defaultInitValue
