SPECIFICATION FairSpec
CONSTANTS
 Prog <- P_b
 Kind = "variant"
INVARIANTS NoFailure ReleasedOnce NotReleasedWhileReferenced AllReleasedAtEnd
PROPERTY Termination
