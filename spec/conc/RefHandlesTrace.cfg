SPECIFICATION TSpec
CONSTANT NT = 4
