----------------------------- MODULE PrimsAbsTrace -----------------------------
(* Trace specification for C11 (events of harness/conc/scn_prims.cpp validated against PrimsAbs).  The "setup" event
   of every execution names the primitive; it is attached to the return events as field prim by this module. *)
EXTENDS PrimsAbs, Json, IOUtils
VARIABLES l, st, prim, skip, nbad
T == ndJsonDeserialize(IOEnv.TRACE)
TInit == l = 1 /\ st = Init0 /\ prim = "none" /\ skip = FALSE /\ nbad = 0
TStep ==
  /\ l <= Len(T) /\ l' = l + 1
  /\ LET ev0 == T[l] IN
     IF ev0.op = "reset" THEN st' = Init0 /\ skip' = FALSE /\ prim' = "none" /\ UNCHANGED nbad
     ELSE IF ev0.op = "setup" THEN st' = (CHOOSE o \in Step(ev0, st) : TRUE) /\ prim' = ev0.prim /\ UNCHANGED <<skip, nbad>>
     ELSE IF skip \/ ev0.op \notin {"call", "ret", "proc_end", "started", "timeout", "end"} THEN UNCHANGED <<st, skip, nbad, prim>>
     ELSE LET ev == IF ev0.op = "ret" THEN [op |-> "ret", t |-> ev0.t, f |-> ev0.f, r |-> ev0.r, now |-> ev0.now, prim |-> prim] ELSE ev0
              succ == Step(ev, st) IN
          IF succ # {} THEN st' = (CHOOSE o \in succ : TRUE) /\ UNCHANGED <<skip, nbad, prim>>
          ELSE PrintT(<<"MISMATCH", l, ev0.op>>) /\ skip' = TRUE /\ nbad' = nbad + 1 /\ UNCHANGED <<st, prim>>
TDone == l = Len(T) + 1 /\ PrintT(<<"TRACE-DONE", Len(T), nbad>>) /\ l' = l + 1 /\ UNCHANGED <<st, prim, skip, nbad>>
TSpec == TInit /\ [][TStep \/ TDone]_<<l, st, prim, skip, nbad>>
================================================================================
