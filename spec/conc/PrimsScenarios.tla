----------------------------- MODULE PrimsScenarios -----------------------------
(* The scenario programs that PrimsImpl is checked with (cfg files select one with Prog <- ...). *)
EXTENDS PrimsImpl
P_sig1 == <<  <<"wait">>, <<"wait">>, <<"set">> >>
P_sig2 == <<  <<"wait", "reset">>, <<"twait">>, <<"set">> >>
P_sig3 == <<  <<"twait", "wait">>, <<"set", "reset", "set">>, <<"wait">> >>
P_mon1 == <<  <<"mlock", "mwait", "munlock", "mdone">>, <<"mlock", "mwait", "munlock", "mdone">>, <<"msetloop">> >>
P_mon2 == <<  <<"mlock", "mtwait", "munlock", "mdone">>, <<"mlock", "mwait", "munlock", "mdone">>, <<"msetloop">>, <<"mset">> >>
P_mon3 == <<  <<"mlock", "mtwait", "munlock">>, <<"mlock", "mtwait", "munlock">>, <<"mset">> >>
P_sig4 == <<  <<"twait">>, <<"twait">>, <<"reset", "set">> >>
P_sig5 == <<  <<"twait">>, <<"twait">>, <<"set", "reset">> >>
P_mtx1 == <<  <<"lock", "lock", "unlock", "tlu", "unlock">>, <<"tlu", "lock", "unlock">>, <<"lock", "unlock">> >>
P_sem1 == <<  <<"swait", "ssignal">>, <<"swait", "ssignal">>, <<"stwait", "ssignal">> >>
P_sem2 == <<  <<"swait">>, <<"strywait", "ssignal">>, <<"stwait", "ssignal">> >>
================================================================================
