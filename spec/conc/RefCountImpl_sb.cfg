SPECIFICATION FairSpec
CONSTANTS
 Prog <- P_b
 Kind = "string"
INVARIANTS NoFailure ReleasedOnce NotReleasedWhileReferenced AllReleasedAtEnd
PROPERTY Termination
