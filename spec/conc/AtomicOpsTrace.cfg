SPECIFICATION TSpec
CONSTANTS
 B = 65536
 NL = 2
 InitK = 0
 Progs <- P_lock
