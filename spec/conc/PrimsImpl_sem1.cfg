SPECIFICATION FairSpec
CONSTANTS
 Prog <- P_sem1
 SemInit = 1
 SigInit = FALSE
 AllowSpurious = TRUE
 FixSignalGen = TRUE
INVARIANTS SetReleasesAll MutexOK SemOK MonitorOK UntimedWaitsSucceed
PROPERTY Termination
