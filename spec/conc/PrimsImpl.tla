-------------------------------- MODULE PrimsImpl --------------------------------
(* Layer 2 model for property C11: the code of src/Mutex.cpp, Semaphore.cpp, Signal.cpp and Monitor.cpp over the
   pthread environment that harness/sched/sched.cpp implements (mutex with owner/recursion count, condition variable
   with signalled flags and spurious wake-ups, counting semaphore, time-outs).  Granularity: one action = what a
   thread executes between two scheduling points of the shim, so that a behaviour of this model, read as the sequence
   of thread numbers (Step(t) -> "t", Spur(t) -> "ts", Timeout(t) -> "tt"), is a schedule the real threads can follow.

   Every thread runs a constant program  Prog[t]  (a sequence of operation names of ONE primitive); stage[t] says at
   which scheduling point of its current operation the thread is parked.                                       *)
EXTENDS Integers, Sequences, FiniteSets, TLC
CONSTANTS Prog,          \* function thread -> sequence of op names
          SemInit, SigInit,
          AllowSpurious, \* BOOLEAN
          FixSignalGen   \* BOOLEAN: Signal::wait also returns when set() has been called since it began waiting (the
                         \* generation counter of the repair); FALSE = the code as it was (a set() directly followed by
                         \* a reset() released nobody: PrimsImpl_sig5_unfixed.cfg)
Ts == DOMAIN Prog
VARIABLES pc, stage, owner, depth, cw, sigd, flag, count, done, res, mflag, credit, monBad, gen, wgen, must, sigBad
\* pc[t] index into Prog[t]; stage[t] name of the scheduling point; owner/depth the mutex (of the Mutex, of the Signal or
\* of the Monitor); cw condition waiters; sigd those of them already signalled; flag Signal::signaled; mflag
\* Monitor::signaled; credit = set() calls minus successful waits (capped at 4); count semaphore; done = number of executed "mdone"; res[t] = results of finished operations
\* gen Signal::generation (modulo 8), wgen[t] its value when t's wait took the mutex first; must = the waiters that were blocked
\* in the condition wait when a set() took effect; sigBad = one of them returned false (ghost)
vars == <<pc, stage, owner, depth, cw, sigd, flag, count, done, res, mflag, credit, monBad, gen, wgen, must, sigBad>>

Op(t) == IF pc[t] = 0 THEN "start" ELSE IF pc[t] <= Len(Prog[t]) THEN Prog[t][pc[t]] ELSE "end"
Timed(op) == op \in {"twait", "stwait", "mtwait"}
NWaiters == Cardinality({ t \in Ts : \E i \in DOMAIN Prog[t] : Prog[t][i] = "mdone" })

\* the state record manipulated by the operators below
S == [pc |-> pc, stage |-> stage, owner |-> owner, depth |-> depth, cw |-> cw, sigd |-> sigd, flag |-> flag, count |-> count,
      done |-> done, res |-> res, mflag |-> mflag, credit |-> credit, monBad |-> monBad, gen |-> gen, wgen |-> wgen, must |-> must, sigBad |-> sigBad]

Free(s, t) == s.owner = 0
FreeOrOwn(s, t) == s.owner \in {0, t}
Acquire(s, t) == [s EXCEPT !.owner = t, !.depth = s.depth + 1]
Release(s, t) == IF s.depth <= 1 THEN [s EXCEPT !.owner = 0, !.depth = 0] ELSE [s EXCEPT !.depth = s.depth - 1]
Result(s, t, r) == [s EXCEPT !.res[t] = Append(@, r)]
Park(s, t, st) == [s EXCEPT !.stage[t] = st]

\* Enter(s, t): the thread has finished an operation: run the prologue of the next one up to its first scheduling point
RECURSIVE Enter(_, _)
Enter(s0, t) ==
  LET s == [s0 EXCEPT !.pc[t] = s0.pc[t] + 1]
      op == IF s.pc[t] <= Len(Prog[t]) THEN Prog[t][s.pc[t]] ELSE "end" IN
  CASE op = "end" -> Park(s, t, "end")
    \* most calls reach a scheduling point before touching anything
    [] op \in {"lock", "trylock", "tlu", "swait", "stwait", "strywait", "set", "reset", "wait", "twait", "mlock", "mset", "msetloop"} -> Park(s, t, "a")
    \* unlock / post take effect first and then yield
    [] op \in {"unlock", "munlock"} -> Park(Release(s, t), t, "b")
    [] op = "ssignal" -> Park([s EXCEPT !.count = s.count + 1], t, "b")
    \* Monitor::wait: pthread_cond_wait releases the mutex and enqueues atomically, then parks
    [] op \in {"mwait", "mtwait"} -> Park([Release(s, t) EXCEPT !.cw = s.cw \cup {t}], t, "c")
    [] op = "mdone" -> Enter([s EXCEPT !.done = s.done + 1], t)
    [] OTHER -> Park(s, t, "a")
Finish(s, t, r) == Enter(Result(s, t, r), t)

\* Signal::wait body once the mutex is held: test the flag, else wait on the condition
SigTest(s, t) == IF s.flag \/ (FixSignalGen /\ s.gen # s.wgen[t]) THEN Park(Release(s, t), t, "u") ELSE Park([Release(s, t) EXCEPT !.cw = s.cw \cup {t}], t, "c")
\* Monitor::wait after waking up with the mutex held: consume the flag or wait again
MonTest(s, t) == IF s.mflag THEN Finish([s EXCEPT !.mflag = FALSE, !.credit = IF s.credit > 0 THEN s.credit - 1 ELSE 0, !.monBad = s.monBad \/ s.credit = 0], t, 1)
                 ELSE Park([Release(s, t) EXCEPT !.cw = s.cw \cup {t}], t, "c")
Unwait(s, t) == [s EXCEPT !.cw = s.cw \ {t}, !.sigd = s.sigd \ {t}]

\* is thread t able to move (normal step)?
Eligible(s, t) ==
  LET op == Op(t)  st == s.stage[t] IN
  CASE st = "end" -> FALSE
    [] st = "c" -> t \in s.sigd                                  \* blocked in a condition wait until signalled
    [] st = "m" -> Free(s, t)                                    \* re-acquiring the mutex after a condition wait
    [] st = "mt" -> Free(s, t)
    [] st = "s" -> s.count > 0                                   \* blocked on the semaphore
    [] st = "a" /\ op \in {"lock"} -> FreeOrOwn(s, t)           \* Mutex is recursive
    [] st = "a" /\ op \in {"set", "reset", "wait", "twait", "mlock", "mset"} -> Free(s, t)
    [] OTHER -> TRUE

\* what the thread executes when it is resumed normally at its current scheduling point
Move(s, t) ==
  LET op == Op(t)  st == s.stage[t] IN
  CASE st = "x" -> Enter(s, t)                                                         \* thread start
    [] op = "lock" /\ st = "a" -> Finish(Acquire(s, t), t, 1)
    \* try-lock and, if acquired, unlock again (keeps programs balanced)
    [] op = "tlu" /\ st = "a" -> IF FreeOrOwn(s, t) THEN Park(Release(Acquire(s, t), t), t, "b") ELSE Finish(s, t, 0)
    [] op = "tlu" /\ st = "b" -> Finish(s, t, 1)
    [] op = "trylock" /\ st = "a" -> IF FreeOrOwn(s, t) THEN Finish(Acquire(s, t), t, 1) ELSE Finish(s, t, 0)
    [] op \in {"unlock", "munlock", "ssignal"} /\ st = "b" -> Finish(s, t, 1)
    [] op \in {"swait", "stwait"} /\ st = "a" -> IF s.count > 0 THEN Finish([s EXCEPT !.count = s.count - 1], t, 1) ELSE Park(s, t, "s")
    [] op \in {"swait", "stwait"} /\ st = "s" -> Finish([s EXCEPT !.count = s.count - 1], t, 1)
    [] op = "strywait" /\ st = "a" -> IF s.count > 0 THEN Finish([s EXCEPT !.count = s.count - 1], t, 1) ELSE Finish(s, t, 0)
    \* Signal::set: lock; signaled = true; broadcast (still holding the mutex) | unlock
    [] op = "set" /\ st = "a" -> Park([Acquire(s, t) EXCEPT !.flag = TRUE, !.sigd = s.cw, !.gen = (s.gen + 1) % 8, !.must = s.must \cup { u \in s.cw : Op(u) \in {"wait", "twait"} }], t, "b")
    [] op = "set" /\ st = "b" -> Park(Release(s, t), t, "d")
    [] op = "set" /\ st = "d" -> Finish(s, t, 1)
    [] op = "reset" /\ st = "a" -> Park([s EXCEPT !.flag = FALSE], t, "b")
    [] op = "reset" /\ st = "b" -> Finish(s, t, 1)
    \* Signal::wait
    [] op \in {"wait", "twait"} /\ st = "a" -> SigTest([Acquire(s, t) EXCEPT !.wgen[t] = s.gen], t)
    [] op \in {"wait", "twait"} /\ st = "c" -> IF Free(s, t) THEN SigTest(Acquire(Unwait(s, t), t), t) ELSE Park(Unwait(s, t), t, "m")
    [] op \in {"wait", "twait"} /\ st = "m" -> SigTest(Acquire(s, t), t)
    [] op \in {"wait", "twait"} /\ st = "u" -> Finish([s EXCEPT !.must = s.must \ {t}], t, 1)
    [] op = "twait" /\ st = "mt" -> Park(Release(Acquire(s, t), t), t, "ut")          \* timed out: re-acquire, unlock
    [] op = "twait" /\ st = "ut" -> Finish([s EXCEPT !.sigBad = s.sigBad \/ t \in s.must, !.must = s.must \ {t}], t, 0)
    \* Monitor
    [] op = "mlock" /\ st = "a" -> Finish(Acquire(s, t), t, 1)
    [] op \in {"mwait", "mtwait"} /\ st = "c" -> IF Free(s, t) THEN MonTest(Acquire(Unwait(s, t), t), t) ELSE Park(Unwait(s, t), t, "m")
    [] op \in {"mwait", "mtwait"} /\ st = "m" -> MonTest(Acquire(s, t), t)
    [] op = "mtwait" /\ st = "mt" -> Finish(Acquire(s, t), t, 0)                        \* timed out: returns false holding the monitor
    \* Monitor::set: lock; signaled = true; unlock | signal one waiter
    [] op \in {"mset", "msetloop"} /\ st = "a" ->
         Park([s EXCEPT !.mflag = TRUE, !.credit = IF s.credit < 4 THEN s.credit + 1 ELSE 4], t, "b")
    [] op = "mset" /\ st = "d" -> Finish(s, t, 1)
    [] op = "msetloop" /\ st = "d" -> Park(s, t, "l")
    [] op = "msetloop" /\ st = "l" -> IF s.done >= NWaiters THEN Finish(s, t, 1) ELSE Park(s, t, "a")
    [] OTHER -> s

\* cond_signal of Monitor::set wakes ONE of the waiters that are not yet signalled (any of them)
SignalOne(s, t, w) == Park([s EXCEPT !.sigd = s.sigd \cup (IF w = 0 THEN {} ELSE {w})], t, "d")

Apply(s) == /\ pc' = s.pc /\ stage' = s.stage /\ owner' = s.owner /\ depth' = s.depth /\ cw' = s.cw /\ sigd' = s.sigd /\ flag' = s.flag
            /\ count' = s.count /\ done' = s.done /\ res' = s.res /\ mflag' = s.mflag /\ credit' = s.credit /\ monBad' = s.monBad
            /\ gen' = s.gen /\ wgen' = s.wgen /\ must' = s.must /\ sigBad' = s.sigBad

Step(t) ==
  /\ Eligible(S, t)
  /\ IF Op(t) \in {"mset", "msetloop"} /\ stage[t] = "b"
     THEN LET cands == cw \ sigd IN
          IF cands = {} THEN Apply(SignalOne(S, t, 0)) ELSE \E w \in cands : Apply(SignalOne(S, t, w))
     ELSE Apply(Move(S, t))
\* a spurious wake-up of a condition waiter
Spur(t) == /\ AllowSpurious /\ stage[t] = "c" /\ t \notin sigd /\ Apply([S EXCEPT !.sigd = sigd \cup {t}])
\* the time-out of a timed wait fires (condition wait or semaphore wait)
Timeout(t) ==
  \/ /\ stage[t] = "c" /\ Timed(Op(t)) /\ t \notin sigd   \* a waiter that has been woken (signal, broadcast, spuriously) does not time out in this wait
     /\ Apply(IF Free(S, t)
              THEN (IF Op(t) = "twait" THEN Park(Release(Acquire(Unwait(S, t), t), t), t, "ut") ELSE Finish(Acquire(Unwait(S, t), t), t, 0))
              ELSE Park(Unwait(S, t), t, "mt"))
  \/ /\ stage[t] = "s" /\ Op(t) = "stwait" /\ count <= 0 /\ Apply(Finish(S, t, 0))

Init == /\ pc = [t \in Ts |-> 0] /\ stage = [t \in Ts |-> "x"] /\ owner = 0 /\ depth = 0 /\ cw = {} /\ sigd = {}
        /\ flag = SigInit /\ count = SemInit /\ done = 0 /\ res = [t \in Ts |-> <<>>] /\ mflag = FALSE /\ credit = 0 /\ monBad = FALSE
        /\ gen = 0 /\ wgen = [t \in Ts |-> 0] /\ must = {} /\ sigBad = FALSE
Next == \E t \in Ts : Step(t) \/ Spur(t) \/ Timeout(t)
Spec == Init /\ [][Next]_vars
\* threads are scheduled (strongly) fairly - a thread that can take the mutex infinitely often eventually gets it -
\* and pending time-outs eventually fire; spurious wake-ups are not fair
FairSpec == Spec /\ \A t \in Ts : SF_vars(Step(t)) /\ SF_vars(Timeout(t))

\* ---- properties
MutexOK == /\ depth >= 0 /\ (owner = 0) = (depth = 0)
SemOK == count >= 0                                              \* successful waits never exceed initial value + signals
SetReleasesAll == ~sigBad                               \* no waiter that a set() found blocked gives up afterwards
MonitorOK == ~monBad                                     \* successful Monitor waits never outnumber set() calls
UntimedWaitsSucceed == \A t \in Ts : \A i \in DOMAIN res[t] : Prog[t][i] \in {"wait", "swait", "mwait", "lock"} => res[t][i] = 1
AllEnded == \A t \in Ts : stage[t] = "end"
Termination == <>AllEnded                                        \* no waiter stays blocked: every program ends
================================================================================
