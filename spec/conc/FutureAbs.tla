-------------------------------- MODULE FutureAbs --------------------------------
(* Layer 1 (property level) specification of Future for property C10, over the events of harness/conc/scn_future.cpp.
   Call f (an id) goes through  none -> started -> running -> done -> joined:
     start     the client is about to call Future::start(work, f)
     exec      the function began executing with argument f (logged by the function itself, on a pool thread)
     done      the function is about to return f * 10 + 1
     joinret   join() / the result conversion returned: only after done, with the function's return value, and
               isAborted() true only if abort() was requested since the start, isFinished() true otherwise
     start with field "after" = g: the same Future object is started again: start() returns (event started) only
               after call g has completed
     deleted   the Future's destructor returned / resdead: the result object embedded in the Future was destroyed:
               only after done (the destructor waits for the call)
   Each call is executed exactly once.                                                                        *)
EXTENDS Integers, Sequences, FiniteSets, TLC
Ids == 0..63
Init0 == [st |-> [f \in Ids |-> "none"], abortReq |-> [f \in Ids |-> FALSE], prev |-> [f \in Ids |-> -1]]

Step(ev, s) ==
  CASE ev.op = "start" -> IF s.st[ev.f] = "none" THEN { [s EXCEPT !.st[ev.f] = "started", !.prev[ev.f] = IF "after" \in DOMAIN ev THEN ev.after ELSE -1] } ELSE {}
    \* start() of a future that was already started returns only after the earlier call has completed
    [] ev.op = "started" -> IF s.prev[ev.f] = -1 \/ s.st[s.prev[ev.f]] \in {"done", "joined"} THEN { s } ELSE {}
    [] ev.op = "abort" -> { [s EXCEPT !.abortReq[ev.f] = TRUE] }
    [] ev.op = "exec" -> IF s.st[ev.f] = "started" THEN { [s EXCEPT !.st[ev.f] = "running"] } ELSE {}       \* exactly once, only after start
    [] ev.op = "done" -> IF s.st[ev.f] = "running" THEN { [s EXCEPT !.st[ev.f] = "done"] } ELSE {}
    [] ev.op = "joinret" ->
         IF /\ s.st[ev.f] = "done"                                   \* join waits for the execution to complete
            /\ ev.r = ev.f * 10 + 1                                  \* the converted result is the function's return value
            /\ ev.execs = 1
            /\ (ev.ab => s.abortReq[ev.f]) /\ ev.fin = ~ev.ab
         THEN { [s EXCEPT !.st[ev.f] = "joined"] } ELSE {}
    \* the destructor is a join: it returns only after the call has completed; the Future's result object lives until then
    [] ev.op \in {"deleted", "resdead"} -> IF s.st[ev.f] \in {"none", "done", "joined"} THEN { s } ELSE {}
    \* at the end every started call has been executed and joined (or superseded by a restart that waited for it)
    [] ev.op = "end" -> IF ev.verdict = "done" /\ \E f \in Ids : s.st[f] \in {"started", "running"} THEN {} ELSE { s }
    [] OTHER -> { s }
================================================================================
