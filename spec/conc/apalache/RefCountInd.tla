------------------------------ MODULE RefCountInd ------------------------------
(* Unbounded-length safety of the reference-count protocol behind property C09 (String / Variant / RefCount::Ptr
   assignment and destruction at the granularity of the atomic increment / decrement), as an INDUCTIVE invariant
   discharged by Apalache:   Init => IndInv   and   IndInv /\ Next => IndInv'.
   Every thread owns two handles a, b; a handle targets a payload or "none".  Assignment h := other handle is
   "increment the new target; decrement-and-test the old target; overwrite the handle", destruction is
   "decrement-and-test; clear the handle".  TLC explores the implementation-shaped RefCountImpl for concrete
   programs; this module proves, for 3 threads x 2 payloads and behaviours of ANY length, that a payload is never
   released while a handle (or an assignment in flight) refers to it and never touched after its release.     *)
EXTENDS Integers, FiniteSets

CONSTANTS
  \* @type: Set(Str);
  Threads,
  \* @type: Set(Str);
  Payloads

VARIABLES
  \* @type: Str -> Str;
  ta,
  \* @type: Str -> Str;
  tb,
  \* @type: Str -> Int;
  ref,
  \* @type: Str -> Bool;
  freed,
  \* @type: Str -> Str;
  pc,
  \* @type: Str -> Str;
  pnew,
  \* @type: Str -> Str;
  ph,
  \* @type: Bool;
  bad

CInit == Threads = {"t1", "t2", "t3"} /\ Payloads = {"p1", "p2"}
Targets == Payloads \union {"none"}

\* @type: (Str, Str) => Str;
Tgt(t, h) == IF h = "a" THEN ta[t] ELSE tb[t]
Other(h) == IF h = "a" THEN "b" ELSE "a"

\* number of handles that target p, plus assignments in flight that have already counted themselves on p
\* @type: (Str) => Int;
Holders(p) == Cardinality({ t \in Threads : ta[t] = p }) + Cardinality({ t \in Threads : tb[t] = p })
              + Cardinality({ t \in Threads : pc[t] = "dec" /\ pnew[t] = p })

Init ==
  /\ ta = [t \in Threads |-> "p1"] /\ tb = [t \in Threads |-> "p2"]
  /\ ref = [p \in Payloads |-> Cardinality(Threads)] /\ freed = [p \in Payloads |-> FALSE]
  /\ pc = [t \in Threads |-> "idle"] /\ pnew = [t \in Threads |-> "none"] /\ ph = [t \in Threads |-> "a"]
  /\ bad = FALSE

\* h := the thread's other handle (its target y is alive because the thread itself holds it)
BeginAssign(t, h) ==
  /\ pc[t] = "idle" /\ Tgt(t, h) # "gone" /\ Tgt(t, Other(h)) \in Payloads
  /\ pnew' = [pnew EXCEPT ![t] = Tgt(t, Other(h))] /\ ph' = [ph EXCEPT ![t] = h] /\ pc' = [pc EXCEPT ![t] = "inc"]
  /\ UNCHANGED <<ta, tb, ref, freed, bad>>
DoInc(t) ==
  /\ pc[t] = "inc"
  /\ LET y == pnew[t] IN
     /\ bad' = (bad \/ freed[y])                                    \* increment of a released payload
     /\ ref' = [ref EXCEPT ![y] = ref[y] + 1]
     /\ IF Tgt(t, ph[t]) \in Payloads
        THEN pc' = [pc EXCEPT ![t] = "dec"] /\ UNCHANGED <<ta, tb>>
        ELSE /\ pc' = [pc EXCEPT ![t] = "idle"]
             /\ IF ph[t] = "a" THEN ta' = [ta EXCEPT ![t] = y] /\ UNCHANGED tb ELSE tb' = [tb EXCEPT ![t] = y] /\ UNCHANGED ta
  /\ UNCHANGED <<freed, pnew, ph>>
BeginDestroy(t, h) ==
  /\ pc[t] = "idle" /\ Tgt(t, h) \in Payloads
  /\ pnew' = [pnew EXCEPT ![t] = "none"] /\ ph' = [ph EXCEPT ![t] = h] /\ pc' = [pc EXCEPT ![t] = "dec"]
  /\ UNCHANGED <<ta, tb, ref, freed, bad>>
DoDec(t) ==
  /\ pc[t] = "dec"
  /\ LET x == Tgt(t, ph[t]) IN
     /\ bad' = (bad \/ freed[x])                                    \* decrement of a released payload
     /\ ref' = [ref EXCEPT ![x] = ref[x] - 1]
     /\ freed' = [freed EXCEPT ![x] = (ref[x] = 1)]
     /\ IF ph[t] = "a" THEN ta' = [ta EXCEPT ![t] = pnew[t]] /\ UNCHANGED tb ELSE tb' = [tb EXCEPT ![t] = pnew[t]] /\ UNCHANGED ta
  /\ pc' = [pc EXCEPT ![t] = "idle"] /\ UNCHANGED <<pnew, ph>>

Next == \E t \in Threads :
          \/ \E h \in {"a", "b"} : BeginAssign(t, h) \/ BeginDestroy(t, h)
          \/ DoInc(t) \/ DoDec(t)

TypeOK ==
  /\ ta \in [Threads -> Targets] /\ tb \in [Threads -> Targets]
  /\ ref \in [Payloads -> 0..9] /\ freed \in [Payloads -> BOOLEAN]
  /\ pc \in [Threads -> {"idle", "inc", "dec"}] /\ pnew \in [Threads -> Targets] /\ ph \in [Threads -> {"a", "b"}]
  /\ bad \in BOOLEAN

\* the inductive invariant
IndInv ==
  /\ TypeOK
  /\ ~bad
  /\ \A p \in Payloads : ref[p] = Holders(p)                        \* the counter counts exactly the references
  /\ \A p \in Payloads : freed[p] <=> (ref[p] = 0)
  /\ \A t \in Threads :
       /\ pc[t] = "inc" => (pnew[t] \in Payloads /\ Tgt(t, Other(ph[t])) = pnew[t])     \* the source handle keeps the new target alive
       /\ pc[t] = "dec" => Tgt(t, ph[t]) \in Payloads

\* what C09 asks for (implied by IndInv): never released while a handle refers to it
NotReleasedWhileReferenced == \A p \in Payloads : freed[p] => \A t \in Threads : ta[t] # p /\ tb[t] # p
Safety == ~bad /\ NotReleasedWhileReferenced
================================================================================
