SPECIFICATION Spec
CONSTANTS
 B = 2
 NL = 3
 InitK = 5
 Progs <- P_tick
INVARIANTS TypeOK NoLostUpdate TicketsDistinct OneCasWinner

