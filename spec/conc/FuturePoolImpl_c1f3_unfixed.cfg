SPECIFICATION Spec
CONSTANTS NClients = 1
FuturesPerClient = 3
MaxThreads = 2
Cap = 2
AllowRetire = TRUE
FixRetire = FALSE
FixReset = TRUE
FixRetireSet = FALSE
INVARIANTS AtMostOnce JoinAfterDone QueueOK
PROPERTY Live
CONSTANT defaultInitValue = defaultInitValue
