SPECIFICATION FairSpec
CONSTANTS
 Prog <- P_c
 Kind = "ptr"
INVARIANTS NoFailure ReleasedOnce NotReleasedWhileReferenced AllReleasedAtEnd
PROPERTY Termination
