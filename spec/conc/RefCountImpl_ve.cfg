SPECIFICATION FairSpec
CONSTANTS
 Prog <- P_e
 Kind = "variant"
INVARIANTS NoFailure ReleasedOnce NotReleasedWhileReferenced AllReleasedAtEnd
PROPERTY Termination
