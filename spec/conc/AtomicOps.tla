------------------------------ MODULE AtomicOps ------------------------------
(* Layer 1 for extra X07: the functions of nstd's Atomic (include/nstd/Atomic.hpp).

   Every call is ONE atomic step on its operand with the result that Atomic.hpp documents / evidently intends:
     increment / decrement         add / subtract one modulo 2^w,   return the NEW value
     fetchAndAdd(x, a)             add a modulo 2^w,                return the OLD value
     swap(x, a)                    store a,                         return the OLD value
     compareAndSwap(x, e, n)       store n iff the old value = e,   return the OLD value
     testAndSet(x)                 store 1,                         return the OLD value
     load(x)                       no change,                       return the value
     store(x, a)                   store a                          (void)
     memoryBarrier()               no change                        (void)
   The header has no prose documentation; the intent is taken from the function names, from the _Interlocked* and
   __sync_* primitives both branches map to, and from the users in the library (reference counts test
   `decrement(ref) == 0`).  Arithmetic wraps modulo 2^w for signed operands as well (the builtins are defined that way;
   there is no undefined overflow): the statement's "wrap-around at the type limits" is taken literally.

   Values are bit patterns of the operand width: little-endian tuples of limbs 0..B-1 (the real widths use B = 65536
   with 2 or 4 limbs because TLC integers are 32-bit; the stand-alone model uses B = 2 with 3 limbs = values 0..7, so
   that carries are exercised).  Whether a returned value is negative in the declared return type is part of the
   observation (`ng`).  Pointers are 64-bit patterns with the operations the header declares for them.

   What Layer 1 does NOT fix: memory ordering between DIFFERENT variables (memoryBarrier has no observable result
   here), and the results of void functions.                                                                         *)
EXTENDS Integers, Sequences, FiniteSets, TLC

\* ----------------------------------------------------------------------------------------- values
ZeroV(n) == [i \in 1..n |-> 0]
OneV(n) == [i \in 1..n |-> IF i = 1 THEN 1 ELSE 0]
OnesV(n, b) == [i \in 1..n |-> b - 1]
AddV(x, y, b) ==
  LET n == Len(x)
      c[i \in 0..n] == IF i = 0 THEN 0 ELSE (x[i] + y[i] + c[i - 1]) \div b
  IN [i \in 1..n |-> (x[i] + y[i] + c[i - 1]) % b]
IsNegV(x, signed, b) == signed /\ x[Len(x)] >= b \div 2

Funs == {"inc", "dec", "faa", "swap", "cas", "tas", "load", "store", "fence"}
VoidFuns == {"store", "fence"}

NextV(f, v, a, b2, b) ==
  CASE f = "inc" -> AddV(v, OneV(Len(v)), b)
    [] f = "dec" -> AddV(v, OnesV(Len(v), b), b)
    [] f = "faa" -> AddV(v, a, b)
    [] f = "swap" -> a
    [] f = "cas" -> IF v = a THEN b2 ELSE v
    [] f = "tas" -> OneV(Len(v))
    [] f = "load" -> v
    [] f = "store" -> a
    [] f = "fence" -> v
RetV(f, v, a, b2, b) ==
  CASE f \in {"inc", "dec"} -> NextV(f, v, a, b2, b)               \* the NEW value
    [] f \in {"faa", "swap", "cas", "tas", "load"} -> v            \* the OLD value
    [] OTHER -> ZeroV(Len(v))                                      \* void
\* the set of allowed outcomes of one call (deterministic: a singleton)
Step(f, v, a, b2, b) == { [v |-> NextV(f, v, a, b2, b), r |-> RetV(f, v, a, b2, b)] }
\* an observed call e = [f, a, b, r, ng] is explained by outcome o (void functions: nothing to compare)
Match(o, e, signed, b) == e.f \in VoidFuns \/ (o.r = e.r /\ e.ng = IsNegV(o.r, signed, b))

\* ----------------------------------------------------------------------------------------- stand-alone model
CONSTANTS B, NL, InitK, Progs
(* Progs: per thread a sequence of [f, a, b] with integer arguments.  Besides Funs a program may use the spin-lock
   idiom built from testAndSet / store:  "acq" = one testAndSet call, repeated until it returns 0;  "rel" = store 0;
   "csr" / "csw" = a non-atomic read / write-back-plus-one of a plain counter inside the critical section.          *)
VARIABLES v, pc, res, cs, cnt, tmp
vars == <<v, pc, res, cs, cnt, tmp>>
Threads == 1..Len(Progs)
M == B ^ NL
V(k) == [i \in 1..NL |-> (k \div (B ^ (i - 1))) % B]
ToInt(x) == LET s[i \in 0..NL] == IF i = 0 THEN 0 ELSE s[i - 1] + x[i] * (B ^ (i - 1)) IN s[NL]
Ops == { <<t, i>> \in Threads \X (1..8) : i <= Len(Progs[t]) }
OpAt(p) == Progs[p[1]][p[2]]
Executed(p) == pc[p[1]] > p[2]

Init == /\ v = V(InitK) /\ pc = [t \in Threads |-> 0] /\ res = [t \in Threads |-> [i \in 1..Len(Progs[t]) |-> <<>>]]
        /\ cs = {} /\ cnt = 0 /\ tmp = [t \in Threads |-> 0]
\* one scheduling step of thread t (pc = 0: the thread starts and runs up to its first atomic access)
Do(t) ==
  /\ pc[t] <= Len(Progs[t])
  /\ IF pc[t] = 0 THEN pc' = [pc EXCEPT ![t] = 1] /\ UNCHANGED <<v, res, cs, cnt, tmp>>
     ELSE LET op == Progs[t][pc[t]] IN
       CASE op.f = "acq" ->
              LET o == CHOOSE o \in Step("tas", v, ZeroV(NL), ZeroV(NL), B) : TRUE IN
              /\ v' = o.v
              /\ IF o.r = ZeroV(NL) THEN pc' = [pc EXCEPT ![t] = @ + 1] /\ cs' = cs \cup {t} /\ res' = [res EXCEPT ![t][pc[t]] = o.r]
                                    ELSE UNCHANGED <<pc, cs, res>>
              /\ UNCHANGED <<cnt, tmp>>
         [] op.f = "rel" ->
              /\ v' = NextV("store", v, ZeroV(NL), ZeroV(NL), B) /\ cs' = cs \ {t} /\ pc' = [pc EXCEPT ![t] = @ + 1]
              /\ UNCHANGED <<res, cnt, tmp>>
         [] op.f = "csr" -> tmp' = [tmp EXCEPT ![t] = cnt] /\ pc' = [pc EXCEPT ![t] = @ + 1] /\ UNCHANGED <<v, res, cs, cnt>>
         [] op.f = "csw" -> cnt' = tmp[t] + 1 /\ pc' = [pc EXCEPT ![t] = @ + 1] /\ UNCHANGED <<v, res, cs, tmp>>
         [] OTHER ->
              \E o \in Step(op.f, v, V(op.a), V(op.b), B) :
                 /\ v' = o.v /\ res' = [res EXCEPT ![t][pc[t]] = o.r] /\ pc' = [pc EXCEPT ![t] = @ + 1]
                 /\ UNCHANGED <<cs, cnt, tmp>>
Next == \E t \in Threads : Do(t)
Spec == Init /\ [][Next]_vars

\* ----------------------------------------------------------------------------------------- theorems of the model
TypeOK == /\ v \in [1..NL -> 0..(B - 1)] /\ pc \in [Threads -> 0..9] /\ cs \subseteq Threads /\ cnt \in 0..64
AllDone == \A t \in Threads : pc[t] = Len(Progs[t]) + 1
Delta(op) == CASE op.f = "inc" -> 1 [] op.f = "dec" -> M - 1 [] op.f = "faa" -> op.a [] OTHER -> 0
RECURSIVE SumOver(_)
SumOver(S) == IF S = {} THEN 0 ELSE LET p == CHOOSE p \in S : TRUE IN Delta(OpAt(p)) + SumOver(S \ {p})
Additive == \A p \in Ops : OpAt(p).f \in {"inc", "dec", "faa", "load", "fence"}
\* counters lose no update
NoLostUpdate == Additive => ToInt(v) = (InitK + SumOver({ p \in Ops : Executed(p) })) % M
\* tickets: the values returned by fetchAndAdd(x, 1) (resp. by increment) are pairwise different
OnlyF(F) == /\ \A p \in Ops : OpAt(p).f \in F \cup {"load", "fence"}
            /\ \A p \in Ops : OpAt(p).f = "faa" => OpAt(p).a = 1
            /\ Cardinality(Ops) < M
ResOf(p) == res[p[1]][p[2]]
DistinctResults(f) == \A p, q \in { x \in Ops : OpAt(x).f = f /\ Executed(x) } : p # q => ResOf(p) # ResOf(q)
TicketsDistinct == (OnlyF({"faa"}) => DistinctResults("faa")) /\ (OnlyF({"inc"}) => DistinctResults("inc"))
\* at most one of the compareAndSwap calls with the same expected value e succeeds, provided nothing re-creates e
NoRestore(e) == \A p \in Ops : \/ OpAt(p).f \in {"load", "fence"}
                               \/ (OpAt(p).f = "cas" /\ OpAt(p).b # e)
CasWinners(e) == { p \in Ops : OpAt(p).f = "cas" /\ OpAt(p).a = e /\ Executed(p) /\ ResOf(p) = V(e) }
OneCasWinner == \A e \in 0..(M - 1) : NoRestore(e) => Cardinality(CasWinners(e)) <= 1
\* once some compareAndSwap(x, InitK, n) has been executed, exactly one has won (the first one)
SomeCasWins == (NoRestore(InitK) /\ \E p \in Ops : OpAt(p).f = "cas" /\ OpAt(p).a = InitK /\ Executed(p))
                  => Cardinality(CasWinners(InitK)) = 1
\* the spin lock built from testAndSet / store excludes, and the plain counter it protects loses nothing
LockOnly == \A p \in Ops : OpAt(p).f \in {"acq", "rel", "csr", "csw"}
Exclusion == Cardinality(cs) <= 1
LockWord == LockOnly => (ToInt(v) = (IF cs = {} THEN 0 ELSE 1))
CounterExact == (LockOnly /\ AllDone) => cnt = Cardinality({ p \in Ops : OpAt(p).f = "csw" })
Termination == <>AllDone
FairSpec == Spec /\ \A t \in Threads : WF_vars(Do(t))

\* ----------------------------------------------------------------------------------------- programs of the cfgs
Op(f, a, b2) == [f |-> f, a |-> a, b |-> b2]
P_cnt == << <<Op("inc", 0, 0), Op("faa", 3, 0), Op("dec", 0, 0)>>, <<Op("dec", 0, 0), Op("inc", 0, 0), Op("load", 0, 0)>>,
            <<Op("faa", 6, 0), Op("inc", 0, 0)>> >>
P_tick == << <<Op("faa", 1, 0), Op("faa", 1, 0)>>, <<Op("faa", 1, 0), Op("load", 0, 0), Op("faa", 1, 0)>>, <<Op("faa", 1, 0), Op("faa", 1, 0)>> >>
P_inc == << <<Op("inc", 0, 0), Op("inc", 0, 0)>>, <<Op("inc", 0, 0), Op("inc", 0, 0)>>, <<Op("inc", 0, 0), Op("load", 0, 0), Op("inc", 0, 0)>> >>
P_cas == << <<Op("cas", 5, 1), Op("load", 0, 0), Op("cas", 1, 2)>>, <<Op("cas", 5, 2), Op("cas", 1, 3), Op("load", 0, 0)>>,
            <<Op("cas", 5, 3), Op("fence", 0, 0), Op("cas", 2, 4)>> >>
P_mix == << <<Op("swap", 6, 0), Op("cas", 6, 2), Op("inc", 0, 0)>>, <<Op("store", 7, 0), Op("faa", 5, 0), Op("load", 0, 0)>>,
            <<Op("tas", 0, 0), Op("dec", 0, 0), Op("swap", 0, 0)>> >>
P_mix4 == << <<Op("swap", 6, 0), Op("cas", 6, 2), Op("inc", 0, 0), Op("tas", 0, 0)>>, <<Op("store", 7, 0), Op("faa", 5, 0), Op("load", 0, 0), Op("cas", 1, 0)>>,
             <<Op("tas", 0, 0), Op("dec", 0, 0), Op("swap", 0, 0)>> >>
P_lock == << <<Op("acq", 0, 0), Op("csr", 0, 0), Op("csw", 0, 0), Op("rel", 0, 0)>>,
             <<Op("acq", 0, 0), Op("csr", 0, 0), Op("csw", 0, 0), Op("rel", 0, 0)>>,
             <<Op("acq", 0, 0), Op("csr", 0, 0), Op("csw", 0, 0), Op("rel", 0, 0)>> >>
P_lock2 == << <<Op("acq", 0, 0), Op("csr", 0, 0), Op("csw", 0, 0), Op("rel", 0, 0), Op("acq", 0, 0), Op("csr", 0, 0), Op("csw", 0, 0), Op("rel", 0, 0)>>,
              <<Op("acq", 0, 0), Op("csr", 0, 0), Op("csw", 0, 0), Op("rel", 0, 0), Op("acq", 0, 0), Op("csr", 0, 0), Op("csw", 0, 0), Op("rel", 0, 0)>> >>
================================================================================
