SPECIFICATION FairSpec
CONSTANTS
 Prog <- P_mon1
 SemInit = 0
 SigInit = FALSE
 AllowSpurious = TRUE
 FixSignalGen = TRUE
INVARIANTS SetReleasesAll MutexOK SemOK MonitorOK UntimedWaitsSucceed
PROPERTY Termination
