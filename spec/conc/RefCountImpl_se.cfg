SPECIFICATION FairSpec
CONSTANTS
 Prog <- P_e
 Kind = "string"
INVARIANTS NoFailure ReleasedOnce NotReleasedWhileReferenced AllReleasedAtEnd
PROPERTY Termination
