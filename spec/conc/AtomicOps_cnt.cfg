SPECIFICATION Spec
CONSTANTS
 B = 2
 NL = 3
 InitK = 6
 Progs <- P_cnt
INVARIANTS TypeOK NoLostUpdate TicketsDistinct OneCasWinner Exclusion

