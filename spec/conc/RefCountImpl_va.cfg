SPECIFICATION FairSpec
CONSTANTS
 Prog <- P_a
 Kind = "variant"
INVARIANTS NoFailure ReleasedOnce NotReleasedWhileReferenced AllReleasedAtEnd
PROPERTY Termination
