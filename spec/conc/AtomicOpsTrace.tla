--------------------------- MODULE AtomicOpsTrace ---------------------------
(* Trace specification for extra X07: validates logs of the REAL Atomic functions against AtomicOps.

   Three kinds of evidence, one event per line:
   1. executions under the cooperative scheduler (harness/atomic/scn_atomic.cpp): "setup", then "call" events in the
      order in which the atomic steps really happened (the scheduler serialises them), then "final".  Every call must
      be explained by Step applied to the tracked value: result, sign, and the variable's value right after the call.
      "enter" / "leave" bracket the critical sections of the testAndSet spin lock: an "enter" while another thread is
      inside is a mismatch, and the plain counter of "final" must equal the number of critical sections.
   2. native real-thread executions (harness/atomic/drv_atomic.cpp): one "exec" event = the per-thread call sequences
      (arguments + results, in per-thread order) of threads that ran truly concurrently, plus initial and final value.
      The real order of the atomic steps is not observable, so TLC SEARCHES for a linearization: the set of
      configurations (per-thread position, value) reachable by always taking some thread's next call whose logged
      result Step explains; accepted iff after all calls a configuration with the logged final value remains.
   3. native aggregate stress runs ("agg"): long runs judged by conservation (final = init + total, limb arithmetic
      modulo 2^w) and by the driver's explicit oracles (duplicate tickets, several compareAndSwap winners for one
      expected value, lost swap tokens, two threads inside the spin lock), reported as the count `bad`.
   A mismatch is printed as <<"MISMATCH", line, why>>; the rest of a scheduler execution is then resynchronised from
   the observed value.                                                                                               *)
EXTENDS AtomicOps, Json, IOUtils
VARIABLES l, cur, nbad
T == ndJsonDeserialize(IOEnv.TRACE)
BB == 65536

None == [v |-> <<>>, sg |-> FALSE, ins |-> {}, leaves |-> 0, lock |-> FALSE]

\* ---- linearization search for one native execution
LinSucc(ex, S) ==
  UNION { UNION { LET e == ex.progs[t][c.pc[t] + 1] IN
                  { [pc |-> [c.pc EXCEPT ![t] = @ + 1], v |-> o.v] :
                      o \in { o \in Step(e.f, c.v, e.a, e.b, BB) : Match(o, e, ex.sg, BB) } }
                : t \in { t \in DOMAIN ex.progs : c.pc[t] < Len(ex.progs[t]) } } : c \in S }
RECURSIVE LinIter(_, _, _)
LinIter(ex, S, k) == IF k = 0 \/ S = {} THEN S ELSE LinIter(ex, LinSucc(ex, S), k - 1)
RECURSIVE TotalLen(_, _)
TotalLen(ps, i) == IF i > Len(ps) THEN 0 ELSE Len(ps[i]) + TotalLen(ps, i + 1)
LinOK(ex) ==
  LET F == LinIter(ex, { [pc |-> [t \in DOMAIN ex.progs |-> 0], v |-> ex.init] }, TotalLen(ex.progs, 1))
  IN \E c \in F : c.v = ex.final

AggOK(ev) == ev.bad = 0 /\ (ev.sum => ev.final = AddV(ev.init, ev.total, BB))

TInit == l = 1 /\ cur = None /\ nbad = 0 /\ v = <<>> /\ pc = <<>> /\ res = <<>> /\ cs = {} /\ cnt = 0 /\ tmp = <<>>
TStep ==
  /\ l <= Len(T)
  /\ l' = l + 1
  /\ LET ev == T[l] IN
     CASE ev.op = "reset" -> cur' = None /\ UNCHANGED nbad
       [] ev.op = "setup" -> cur' = [v |-> ev.init, sg |-> ev.sg, ins |-> {}, leaves |-> 0, lock |-> FALSE] /\ UNCHANGED nbad
       [] ev.op = "call" ->
            IF ev.f = "enter" THEN
              IF cur.ins = {} THEN cur' = [cur EXCEPT !.ins = {ev.t}, !.lock = TRUE] /\ UNCHANGED nbad
              ELSE PrintT(<<"MISMATCH", l, "exclusion">>) /\ cur' = [cur EXCEPT !.ins = @ \cup {ev.t}, !.lock = TRUE] /\ nbad' = nbad + 1
            ELSE IF ev.f = "leave" THEN cur' = [cur EXCEPT !.ins = @ \ {ev.t}, !.leaves = @ + 1] /\ UNCHANGED nbad
            ELSE IF \E o \in Step(ev.f, cur.v, ev.a, ev.b, BB) : Match(o, ev, cur.sg, BB) /\ o.v = ev.v
                 THEN cur' = [cur EXCEPT !.v = ev.v] /\ UNCHANGED nbad
                 ELSE PrintT(<<"MISMATCH", l, ev.f>>) /\ cur' = [cur EXCEPT !.v = ev.v] /\ nbad' = nbad + 1
       [] ev.op = "final" ->
            IF ev.v = cur.v /\ cur.ins = {} /\ ev.leaves = cur.leaves /\ (cur.lock => ev.cnt = cur.leaves)
            THEN UNCHANGED <<cur, nbad>>
            ELSE PrintT(<<"MISMATCH", l, "final">>) /\ nbad' = nbad + 1 /\ UNCHANGED cur
       [] ev.op = "exec" ->
            IF LinOK(ev) THEN UNCHANGED <<cur, nbad>>
            ELSE PrintT(<<"MISMATCH", l, "linearization">>) /\ nbad' = nbad + 1 /\ UNCHANGED cur
       [] ev.op = "agg" ->
            IF AggOK(ev) THEN UNCHANGED <<cur, nbad>>
            ELSE PrintT(<<"MISMATCH", l, ev.mode>>) /\ nbad' = nbad + 1 /\ UNCHANGED cur
       [] OTHER -> UNCHANGED <<cur, nbad>>
  /\ UNCHANGED vars
TDone == l = Len(T) + 1 /\ PrintT(<<"TRACE-DONE", Len(T), nbad>>) /\ l' = l + 1 /\ UNCHANGED <<cur, nbad>> /\ UNCHANGED vars
TNext == TStep \/ TDone
TSpec == TInit /\ [][TNext]_<<l, cur, nbad, vars>>
================================================================================
