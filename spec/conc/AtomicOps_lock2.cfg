SPECIFICATION Spec
CONSTANTS
 B = 2
 NL = 3
 InitK = 0
 Progs <- P_lock2
INVARIANTS TypeOK Exclusion LockWord CounterExact

