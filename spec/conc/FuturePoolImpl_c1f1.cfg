SPECIFICATION Spec
CONSTANTS NClients = 1
FuturesPerClient = 1
MaxThreads = 1
Cap = 1
AllowRetire = FALSE
FixRetire = TRUE
FixReset = TRUE
FixRetireSet = TRUE
INVARIANTS AtMostOnce JoinAfterDone QueueOK
PROPERTY Live
CONSTANT defaultInitValue = defaultInitValue
