SPECIFICATION ISpec
CONSTANTS NE = 2
 NG = 1
 NL = 2
 NK = 1
 MaxOps = 5
 MaxDepth = 2
 Fixed = TRUE
INVARIANTS NoFailure SlotsAgree ListenerSideAgrees QuiescentClean TypeOK
CONSTRAINT StopAtBad
