SPECIFICATION ISpec
CONSTANTS NE = 1
 NG = 2
 NL = 2
 NK = 1
 MaxOps = 5
 MaxDepth = 2
 Fixed = TRUE
INVARIANTS NoFailure SlotsAgree ListenerSideAgrees QuiescentClean TypeOK
CONSTRAINT StopAtBad
