SPECIFICATION Spec
CONSTANTS NE = 1
 NG = 1
 NL = 2
 NK = 1
 MaxOps = 5
 MaxDepth = 2
INVARIANT TypeOK
