------------------------------ MODULE Connections ------------------------------
(* Layer 1 (property level) specification of nstd Callback for property C12.

   conn[<<e, g>>]  the live connections of signal g of emitter e, in connection order: records [l, k, cid]
                   (a bag: the same listener/slot pair may be connected more than once; cid is a ghost serial)
   aliveE, aliveL  which emitters / listeners exist
   stack           what is executing: frames [t |-> "emit", e, g, snap, last] (an emission in progress; snap = the cids
                   that were connected when the OUTERMOST emission of that signal still in progress began; last = cid
                   of the slot it invoked last) and [t |-> "slot", l, k] (a slot function is running).
   Operations may be issued at top level or from inside a running slot (arbitrarily nested).

   The rule of C12: an emission invokes, in connection order, exactly the connections in its snapshot that are
   still connected when their turn comes; nothing is invoked for a destroyed listener or emitter.              *)
EXTENDS Integers, Sequences, FiniteSets, TLC
CONSTANTS NE, NG, NL, NK            \* emitters, signals per emitter, listeners, slots per listener
Es == 1..NE   Gs == 1..NG   Ls == 1..NL   Ks == 1..NK
Sigs == Es \X Gs

MinOf(S) == CHOOSE x \in S : \A y \in S : x <= y
RemoveAt(q, i) == SubSeq(q, 1, i - 1) \o SubSeq(q, i + 1, Len(q))
Cids(q) == { q[i].cid : i \in DOMAIN q }
Filter(q, P(_)) == SelectSeq(q, P)

Init0 == [conn |-> [p \in Sigs |-> <<>>], aliveE |-> [e \in Es |-> TRUE], aliveL |-> [l \in Ls |-> TRUE],
          stack |-> <<>>, next |-> 1]

Top(s) == s.stack[Len(s.stack)]
Pop(s) == [s EXCEPT !.stack = SubSeq(s.stack, 1, Len(s.stack) - 1)]
CanOp(s) == IF s.stack = <<>> THEN TRUE ELSE Top(s).t = "slot"    \* (IF, not \/: TLC splits a disjunction inside an action)

\* the snapshot a new emission of (e, g) gets: that of the outermost emission of (e, g) in progress, if any
SnapFor(s, e, g) ==
  LET idx == { i \in DOMAIN s.stack : s.stack[i].t = "emit" /\ s.stack[i].e = e /\ s.stack[i].g = g } IN
  IF idx = {} THEN Cids(s.conn[<<e, g>>]) ELSE s.stack[MinOf(idx)].snap

\* index (into conn) of the connection an emission frame has to invoke next; 0 = none (the emission is over)
NextIdx(s, f) ==
  LET q == s.conn[<<f.e, f.g>>]
      c == { i \in DOMAIN q : q[i].cid > f.last /\ q[i].cid \in f.snap } IN
  IF ~s.aliveE[f.e] \/ c = {} THEN 0 ELSE MinOf(c)

\* ---- operations: each returns the SET of allowed successor states (empty = not allowed in this state)
Connect(s, e, g, l, k) ==
  IF CanOp(s) /\ s.aliveE[e] /\ s.aliveL[l]
  THEN { [s EXCEPT !.conn[<<e, g>>] = Append(@, [l |-> l, k |-> k, cid |-> s.next]), !.next = s.next + 1] }
  ELSE {}
\* disconnecting removes ONE live connection of that pair (which one, if there are several, is not prescribed);
\* disconnecting a pair that is not connected changes nothing
Disconnect(s, e, g, l, k) ==
  IF CanOp(s) /\ s.aliveE[e] /\ s.aliveL[l]
  THEN LET q == s.conn[<<e, g>>]  ix == { i \in DOMAIN q : q[i].l = l /\ q[i].k = k } IN
       IF ix = {} THEN { s } ELSE { [s EXCEPT !.conn[<<e, g>>] = RemoveAt(q, i)] : i \in ix }
  ELSE {}
BeginEmit(s, e, g) ==
  IF CanOp(s) /\ s.aliveE[e]
  THEN { [s EXCEPT !.stack = Append(@, [t |-> "emit", e |-> e, g |-> g, snap |-> SnapFor(s, e, g), last |-> 0, l |-> 0, k |-> 0])] }
  ELSE {}
\* the library invokes slot k of listener l on behalf of the innermost emission
Invoke(s, l, k) ==
  IF s.stack # <<>> /\ Top(s).t = "emit"
  THEN LET f == Top(s)  j == NextIdx(s, f) IN
       IF j # 0 /\ s.conn[<<f.e, f.g>>][j].l = l /\ s.conn[<<f.e, f.g>>][j].k = k /\ s.aliveL[l]
       THEN { [s EXCEPT !.stack = SubSeq(s.stack, 1, Len(s.stack) - 1)
                                   \o << [f EXCEPT !.last = s.conn[<<f.e, f.g>>][j].cid],
                                         [t |-> "slot", e |-> 0, g |-> 0, snap |-> {}, last |-> 0, l |-> l, k |-> k] >>] }
       ELSE {}
  ELSE {}
Return(s) == IF s.stack # <<>> /\ Top(s).t = "slot" THEN { Pop(s) } ELSE {}
\* emit() returns to its caller: only when nothing is left to invoke
EndEmit(s) == IF s.stack # <<>> /\ Top(s).t = "emit" /\ NextIdx(s, Top(s)) = 0 THEN { Pop(s) } ELSE {}
DestroyL(s, l) ==
  IF CanOp(s) /\ s.aliveL[l]
  THEN { [s EXCEPT !.aliveL[l] = FALSE, !.conn = [p \in Sigs |-> Filter(s.conn[p], LAMBDA c : c.l # l)]] }
  ELSE {}
DestroyE(s, e) ==
  IF CanOp(s) /\ s.aliveE[e]
  THEN { [s EXCEPT !.aliveE[e] = FALSE, !.conn = [p \in Sigs |-> IF p[1] = e THEN <<>> ELSE s.conn[p]]] }
  ELSE {}

Step(op, s, e, g, l, k) ==
  CASE op = "connect" -> Connect(s, e, g, l, k)
    [] op = "disconnect" -> Disconnect(s, e, g, l, k)
    [] op = "emit" -> BeginEmit(s, e, g)
    [] op = "invoke" -> Invoke(s, l, k)
    [] op = "ret" -> Return(s)
    [] op = "endemit" -> EndEmit(s)
    [] op = "destroyL" -> DestroyL(s, l)
    [] op = "destroyE" -> DestroyE(s, e)
    [] OTHER -> {}

\* ---- bookkeeping of both sides at a quiescent point, as projections of conn
EmitterSide(s, e, g) == [i \in DOMAIN s.conn[<<e, g>>] |-> <<s.conn[<<e, g>>][i].l, s.conn[<<e, g>>][i].k>>]
\* number of connections listener l holds towards signal g of emitter e with slot k
ListenerCount(s, l, e, g, k) == Cardinality({ i \in DOMAIN s.conn[<<e, g>>] : s.conn[<<e, g>>][i].l = l /\ s.conn[<<e, g>>][i].k = k })

--------------------------------------------------------------------------------
\* Stand-alone bounded model of Layer 1 (sanity of the reference itself)
CONSTANTS MaxOps, MaxDepth
VARIABLES st, nops
vars == <<st, nops>>
Do(op, e, g, l, k) == /\ nops < MaxOps /\ \E o \in Step(op, st, e, g, l, k) : st' = o /\ nops' = nops + 1
Forced(op) == \E o \in Step(op, st, 0, 0, 0, 0) : st' = o /\ UNCHANGED nops
Init == st = Init0 /\ nops = 0
Next == \/ \E e \in Es, g \in Gs, l \in Ls, k \in Ks : Do("connect", e, g, l, k) \/ Do("disconnect", e, g, l, k)
        \/ \E e \in Es, g \in Gs : Len(st.stack) < 2 * MaxDepth /\ Do("emit", e, g, 0, 0)
        \/ \E l \in Ls, k \in Ks : (\E o \in Step("invoke", st, 0, 0, l, k) : st' = o /\ UNCHANGED nops)
        \/ Forced("ret") \/ Forced("endemit")
        \/ \E l \in Ls : Do("destroyL", 0, 0, l, 0)
        \/ \E e \in Es : Do("destroyE", e, 0, 0, 0)
Spec == Init /\ [][Next]_vars
\* sanity: a running slot always belongs to a live-at-invocation connection; frames' snapshots only shrink in effect
TypeOK == /\ \A p \in Sigs : \A i \in DOMAIN st.conn[p] : st.aliveE[p[1]] /\ st.aliveL[st.conn[p][i].l]
          /\ \A p \in Sigs : \A i, j \in DOMAIN st.conn[p] : i < j => st.conn[p][i].cid < st.conn[p][j].cid
================================================================================
