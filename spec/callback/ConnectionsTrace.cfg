SPECIFICATION TSpec
CONSTANTS NE = 3
 NG = 2
 NL = 4
 NK = 2
 MaxOps = 0
 MaxDepth = 0
