SPECIFICATION ISpec
CONSTANTS NE = 1
 NG = 1
 NL = 2
 NK = 2
 MaxOps = 6
 MaxDepth = 2
 Fixed = TRUE
INVARIANTS NoFailure SlotsAgree ListenerSideAgrees QuiescentClean TypeOK
CONSTRAINT StopAtBad
