------------------------------ MODULE CallbackImpl ------------------------------
(* Layer 2 (implementation shaped) model of nstd Callback, transcribed from include/nstd/Callback.hpp and
   src/Callback.cpp.  Emitter side: per signal a slot list with states connected/connecting/disconnected, a dirty
   flag and the chain of active SignalActivation objects; listener side: per emitter a list of (signal, slot).
   The first-match searches of connect/disconnect/~Listener/~Emitter are modelled as written.  Fixed = TRUE is the
   code after the repair of finding F12 (the searches skip entries already marked disconnected, and disconnect
   tolerates a listener that has no record for the emitter); Fixed = FALSE is the code as it was: TLC then finds
   the slot-of-a-destroyed-listener invocation at design level (see CallbackImpl_unfixed.cfg).

   The ghost variable st is the Layer-1 state (Connections) advanced in lock step; bad records the first
   refinement failure: a slot invoked that Layer 1 does not expect, an emission that ends although Layer 1 still
   expects an invocation, an access through a destroyed object.                                                *)
EXTENDS Connections
CONSTANT Fixed
VARIABLES im, fr, bad
ivars == <<st, nops, im, fr, bad>>

PairsLE == Ls \X Es
ImInit == [slots |-> [p \in Sigs |-> <<>>], dirty |-> [p \in Sigs |-> FALSE], hasSD |-> [p \in Sigs |-> FALSE],
           lside |-> [q \in PairsLE |-> <<>>], hasLD |-> [q \in PairsLE |-> FALSE]]

FirstIdx(q, P(_)) == LET c == { i \in DOMAIN q : P(q[i]) } IN IF c = {} THEN 0 ELSE MinOf(c)
\* number of active activations (with signal data) of signal p
ActN(p) == Cardinality({ i \in DOMAIN st.stack : st.stack[i].t = "emit" /\ <<st.stack[i].e, st.stack[i].g>> = p /\ ~fr[i].nodata })
MaxOf(S) == CHOOSE x \in S : \A y \in S : x >= y
\* index in the stack of the innermost activation of p other than frame "except" (0 if none)
InnerFrame(p, except) ==
  LET c == { i \in DOMAIN st.stack : i # except /\ i < (IF except = 0 THEN Len(st.stack) + 1 ELSE except)
                                     /\ st.stack[i].t = "emit" /\ <<st.stack[i].e, st.stack[i].g>> = p /\ ~fr[i].nodata } IN
  IF c = {} THEN 0 ELSE MaxOf(c)
SlotMatch(x, l, k) == x.l = l /\ x.k = k /\ (Fixed => x.state # "dis")
Cleanup(sl) == LET keep == SelectSeq(sl, LAMBDA x : x.state # "dis") IN [i \in DOMAIN keep |-> [keep[i] EXCEPT !.state = "con"]]

\* mark or remove slot i of signal p (what disconnect and ~Listener do)
DropSlot(m, p, i) ==
  IF i = 0 THEN m
  ELSE IF ActN(p) > 0 THEN [m EXCEPT !.slots[p][i].state = "dis", !.dirty[p] = TRUE]
  ELSE [m EXCEPT !.slots[p] = RemoveAt(@, i)]
\* remove the first (g, k) record from listener l's list for emitter e
DropLRec(m, l, e, g, k) ==
  LET q == m.lside[<<l, e>>]  j == FirstIdx(q, LAMBDA x : x = <<g, k>>) IN
  IF j = 0 THEN m ELSE [m EXCEPT !.lside[<<l, e>>] = RemoveAt(q, j)]

SetBad(b) == bad' = IF bad # "none" THEN bad ELSE b
Ghost(S) == IF S = {} THEN st ELSE CHOOSE o \in S : TRUE

IConnect(e, g, l, k) ==
  /\ CanOp(st) /\ st.aliveE[e] /\ st.aliveL[l] /\ nops < MaxOps
  /\ LET p == <<e, g>>  a == ActN(p) > 0 IN
     im' = [im EXCEPT !.slots[p] = Append(@, [l |-> l, k |-> k, state |-> IF a THEN "cing" ELSE "con", cid |-> st.next]),
                      !.dirty[p] = @ \/ a, !.hasSD[p] = TRUE,
                      !.lside[<<l, e>>] = Append(@, <<g, k>>), !.hasLD[<<l, e>>] = TRUE]
  /\ st' = Ghost(Connect(st, e, g, l, k)) /\ nops' = nops + 1 /\ UNCHANGED <<fr, bad>>

IDisconnect(e, g, l, k) ==
  /\ CanOp(st) /\ st.aliveE[e] /\ st.aliveL[l] /\ nops < MaxOps
  /\ LET p == <<e, g>>
         i == IF im.hasSD[p] THEN FirstIdx(im.slots[p], LAMBDA x : SlotMatch(x, l, k)) ELSE 0
         m1 == DropSlot(im, p, i)
         crash == im.hasSD[p] /\ ~im.hasLD[<<l, e>>] /\ ~Fixed
         m2 == IF im.hasSD[p] /\ im.hasLD[<<l, e>>] THEN DropLRec(m1, l, e, g, k) ELSE m1
         q == st.conn[p]
         ci == IF i = 0 THEN 0 ELSE FirstIdx(q, LAMBDA c : c.cid = im.slots[p][i].cid)
         l1 == { o \in Disconnect(st, e, g, l, k) : IF ci = 0 THEN o = st ELSE o.conn[p] = RemoveAt(q, ci) }
     IN /\ im' = m2
        /\ st' = Ghost(l1)
        /\ SetBad(IF crash THEN "disconnect-dereferences-end-iterator"
                  ELSE IF l1 = {} THEN "disconnect-not-a-layer1-outcome" ELSE "none")
  /\ nops' = nops + 1 /\ UNCHANGED fr

IEmit(e, g) ==
  /\ CanOp(st) /\ st.aliveE[e] /\ nops < MaxOps /\ Len(st.stack) < 2 * MaxDepth
  /\ fr' = Append(fr, [i |-> 0, inv |-> FALSE, nodata |-> ~im.hasSD[<<e, g>>]])
  /\ st' = Ghost(BeginEmit(st, e, g)) /\ nops' = nops + 1 /\ UNCHANGED <<im, bad>>

\* internal: the emit loop of the innermost emission moves on: returns (invalidated), invokes the next connected
\* slot, or ends (the SignalActivation destructor)
IAdvance ==
  /\ st.stack # <<>> /\ Top(st).t = "emit"
  /\ LET n == Len(fr)  f == fr[n]  p == <<Top(st).e, Top(st).g>> IN
     IF f.inv
     THEN \* "if(activation.invalidated) return;" then ~SignalActivation: propagate to the next activation of the chain
          LET o == InnerFrame(p, n)  l1 == EndEmit(st) IN
          /\ fr' = SubSeq(IF o = 0 THEN fr ELSE [fr EXCEPT ![o].inv = TRUE], 1, n - 1)
          /\ st' = IF l1 = {} THEN Pop(st) ELSE Ghost(l1)
          /\ SetBad(IF l1 = {} THEN "emission-ended-but-layer1-expects-a-slot" ELSE "none")
          /\ UNCHANGED im
     ELSE LET sl == IF f.nodata THEN <<>> ELSE im.slots[p]
              c == { j \in DOMAIN sl : j > f.i /\ sl[j].state = "con" }
              j == IF c = {} THEN 0 ELSE MinOf(c) IN
          IF j # 0
          THEN LET l1 == { o \in Invoke(st, sl[j].l, sl[j].k) : o.stack[Len(st.stack)].last = sl[j].cid } IN
               /\ fr' = Append([fr EXCEPT ![n].i = j], [i |-> 0, inv |-> FALSE, nodata |-> FALSE])
               /\ st' = IF l1 = {} THEN [st EXCEPT !.stack = Append(@, [t |-> "slot", e |-> 0, g |-> 0, snap |-> {}, last |-> 0, l |-> sl[j].l, k |-> sl[j].k])]
                        ELSE Ghost(l1)
               /\ SetBad(IF ~st.aliveL[sl[j].l] THEN "slot-of-destroyed-listener-invoked"
                         ELSE IF l1 = {} THEN "slot-invoked-that-layer1-does-not-expect" ELSE "none")
               /\ UNCHANGED im
          ELSE LET l1 == EndEmit(st)
                   last == ~f.nodata /\ ActN(p) = 1 IN
               /\ fr' = SubSeq(fr, 1, n - 1)
               /\ im' = IF last /\ im.dirty[p] THEN [im EXCEPT !.slots[p] = Cleanup(@), !.dirty[p] = FALSE] ELSE im
               /\ st' = IF l1 = {} THEN Pop(st) ELSE Ghost(l1)
               /\ SetBad(IF l1 = {} THEN "emission-ended-but-layer1-expects-a-slot" ELSE "none")
  /\ UNCHANGED nops

IReturn ==
  /\ st.stack # <<>> /\ Top(st).t = "slot"
  /\ st' = Ghost(Return(st)) /\ fr' = SubSeq(fr, 1, Len(fr) - 1) /\ UNCHANGED <<im, bad, nops>>

\* ~Listener: for every emitter record, for every (signal, slot) record: first matching slot is marked or removed
RECURSIVE KillRecs(_, _, _, _)
KillRecs(m, l, e, recs) ==
  IF recs = <<>> THEN m
  ELSE LET g == Head(recs)[1]  k == Head(recs)[2]  p == <<e, g>>
           i == IF m.hasSD[p] THEN FirstIdx(m.slots[p], LAMBDA x : SlotMatch(x, l, k)) ELSE 0
       IN KillRecs(DropSlot(m, p, i), l, e, Tail(recs))
RECURSIVE KillEmitters(_, _, _)
KillEmitters(m, l, es) ==
  IF es = {} THEN m
  ELSE LET e == MinOf(es) IN KillEmitters([KillRecs(m, l, e, m.lside[<<l, e>>]) EXCEPT !.lside[<<l, e>>] = <<>>], l, es \ {e})
IDestroyL(l) ==
  /\ CanOp(st) /\ st.aliveL[l] /\ nops < MaxOps
  /\ LET dangling == \E e \in Es : ~st.aliveE[e] /\ im.lside[<<l, e>>] # <<>> IN
     /\ im' = KillEmitters(im, l, { e \in Es : st.aliveE[e] })
     /\ SetBad(IF dangling THEN "listener-destructor-dereferences-destroyed-emitter" ELSE "none")
  /\ st' = Ghost(DestroyL(st, l)) /\ nops' = nops + 1 /\ UNCHANGED fr

\* ~Emitter: invalidate the head activation of every signal; remove the listener-side record of every slot that
\* is not marked disconnected
RECURSIVE UnlinkSlots(_, _, _, _)
UnlinkSlots(m, e, g, sl) ==
  IF sl = <<>> THEN m
  ELSE LET x == Head(sl) IN
       UnlinkSlots(IF x.state = "dis" \/ ~m.hasLD[<<x.l, e>>] THEN m ELSE DropLRec(m, x.l, e, g, x.k), e, g, Tail(sl))
RECURSIVE UnlinkSignals(_, _, _)
UnlinkSignals(m, e, gs) ==
  IF gs = {} THEN m
  ELSE LET g == MinOf(gs)  m1 == UnlinkSlots(m, e, g, m.slots[<<e, g>>]) IN
       UnlinkSignals([m1 EXCEPT !.slots[<<e, g>>] = <<>>, !.dirty[<<e, g>>] = FALSE, !.hasSD[<<e, g>>] = FALSE], e, gs \ {g})
IDestroyE(e) ==
  /\ CanOp(st) /\ st.aliveE[e] /\ nops < MaxOps
  /\ LET heads == { InnerFrame(<<e, g>>, 0) : g \in Gs } \ {0}
         dangling == \E g \in Gs : \E i \in DOMAIN im.slots[<<e, g>>] :
                        im.slots[<<e, g>>][i].state # "dis" /\ ~st.aliveL[im.slots[<<e, g>>][i].l] IN
     /\ fr' = [i \in DOMAIN fr |-> IF i \in heads THEN [fr[i] EXCEPT !.inv = TRUE] ELSE fr[i]]
     /\ im' = UnlinkSignals(im, e, Gs)
     /\ SetBad(IF dangling THEN "emitter-destructor-dereferences-destroyed-listener" ELSE "none")
  /\ st' = Ghost(DestroyE(st, e)) /\ nops' = nops + 1

IInit == st = Init0 /\ nops = 0 /\ im = ImInit /\ fr = <<>> /\ bad = "none"
INext == \/ \E e \in Es, g \in Gs, l \in Ls, k \in Ks : IConnect(e, g, l, k) \/ IDisconnect(e, g, l, k)
         \/ \E e \in Es, g \in Gs : IEmit(e, g)
         \/ IAdvance \/ IReturn
         \/ \E l \in Ls : IDestroyL(l)
         \/ \E e \in Es : IDestroyE(e)
ISpec == IInit /\ [][INext]_ivars
StopAtBad == bad = "none"             \* CONSTRAINT: do not explore beyond a failure

\* ---- invariants
NoFailure == bad = "none"
\* refinement mapping, valid in every state: the non-disconnected slots of a live emitter are Layer 1's connections
SlotsAgree == \A p \in Sigs : st.aliveE[p[1]] =>
   LET live == SelectSeq(im.slots[p], LAMBDA x : x.state # "dis") IN
   [i \in DOMAIN live |-> live[i].cid] = [i \in DOMAIN st.conn[p] |-> st.conn[p][i].cid]
\* both sides' bookkeeping describes exactly the live connections
ListenerSideAgrees == \A l \in Ls, e \in Es : (st.aliveL[l] /\ st.aliveE[e]) =>
   \A g \in Gs, k \in Ks : Cardinality({ j \in DOMAIN im.lside[<<l, e>>] : im.lside[<<l, e>>][j] = <<g, k>> }) = ListenerCount(st, l, e, g, k)
QuiescentClean == st.stack = <<>> => \A p \in Sigs : ~im.dirty[p] /\ \A i \in DOMAIN im.slots[p] : im.slots[p][i].state = "con"
================================================================================
