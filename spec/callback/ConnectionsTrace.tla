--------------------------- MODULE ConnectionsTrace ---------------------------
(* Trace specification for C12: validates event logs of the real Callback classes (harness/callback) against
   Connections.  Because Layer 1 is nondeterministic (which of several equal connections a disconnect removes), the
   trace spec tracks the SET of Layer-1 states consistent with everything observed so far.  An event no state
   explains is reported as <<"MISMATCH", line, op>>; the rest of that execution is skipped (until "reset").     *)
EXTENDS Connections, Json, IOUtils
VARIABLES l, sts, skip, nbad
T == ndJsonDeserialize(IOEnv.TRACE)

\* bookkeeping logged at a quiescent point: eb[e][g] = list of <<listener, slot, state>> (state 0 = connected),
\* lb[l][e] = list of <<signal, slot>>
BookOK(o, ev) ==
  /\ o.stack = <<>>
  /\ \A e \in Es : o.aliveE[e] => \A g \in Gs :
        /\ [i \in DOMAIN ev.eb[e][g] |-> <<ev.eb[e][g][i][1], ev.eb[e][g][i][2]>>] = EmitterSide(o, e, g)
        /\ \A i \in DOMAIN ev.eb[e][g] : ev.eb[e][g][i][3] = 0
  /\ \A x \in Ls, e \in Es : (o.aliveL[x] /\ o.aliveE[e]) =>
        /\ \A g \in Gs, k \in Ks : Cardinality({ j \in DOMAIN ev.lb[x][e] : ev.lb[x][e][j] = <<g, k>> }) = ListenerCount(o, x, e, g, k)
        /\ \A j \in DOMAIN ev.lb[x][e] : ev.lb[x][e][j][1] \in Gs /\ ev.lb[x][e][j][2] \in Ks
ObsOK(o, ev) ==
  /\ \A e \in Es : o.aliveE[e] = ev.ae[e]
  /\ \A x \in Ls : o.aliveL[x] = ev.al[x]
  /\ ev.q = (o.stack = <<>>)
  /\ ev.q => BookOK(o, ev)

TInit == l = 1 /\ sts = {Init0} /\ skip = FALSE /\ nbad = 0 /\ st = Init0 /\ nops = 0
TStep ==
  /\ l <= Len(T)
  /\ l' = l + 1
  /\ LET ev == T[l] IN
     IF ev.op = "reset" THEN sts' = {Init0} /\ skip' = FALSE /\ UNCHANGED nbad
     ELSE IF skip \/ ev.op = "nop" THEN UNCHANGED <<sts, skip, nbad>>
     ELSE LET succ == { o \in UNION { Step(ev.op, s, ev.e, ev.g, ev.l, ev.k) : s \in sts } : ObsOK(o, ev) } IN
          IF succ # {} THEN sts' = succ /\ UNCHANGED <<skip, nbad>>
          ELSE /\ PrintT(<<"MISMATCH", l, ev.op>>)
               /\ skip' = TRUE /\ nbad' = nbad + 1 /\ UNCHANGED sts
  /\ UNCHANGED <<st, nops>>
TDone == l = Len(T) + 1 /\ PrintT(<<"TRACE-DONE", Len(T), nbad>>) /\ l' = l + 1 /\ UNCHANGED <<sts, skip, nbad, st, nops>>
TNext == TStep \/ TDone
TSpec == TInit /\ [][TNext]_<<l, sts, skip, nbad, st, nops>>
================================================================================
