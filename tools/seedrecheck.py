#!/usr/bin/env python3
"""Re-evaluate a stored seeded change (/verif/seeded/<name>/patch.diff) against the current checks, without repeating
the confirmation steps (build, ctest, demonstration) that seedcheck.py already recorded.
usage: seedrecheck.py <name> <ID>[,<ID>...] [--tier quick] [--note "what was strengthened"]"""
import json
import os
import shutil
import sys
import tempfile
import time

sys.path.insert(0, os.path.dirname(os.path.abspath(__file__)))
from seedcheck import sh, VERIF  # noqa: E402


def main():
    name, checks = sys.argv[1], sys.argv[2].split(",")
    tier, note = "quick", ""
    a = sys.argv[3:]
    while a:
        if a[0] == "--tier":
            tier = a[1]; a = a[2:]
        elif a[0] == "--note":
            note = a[1]; a = a[2:]
        else:
            a = a[1:]
    d = os.path.join(VERIF, "seeded", name)
    meta = json.load(open(os.path.join(d, "meta.json")))
    tmp = tempfile.mkdtemp(prefix="verif-reseed-")
    wt = os.path.join(tmp, "wt")
    try:
        rc, out = sh(["git", "-C", "/repo", "worktree", "add", "--detach", wt, "HEAD"])
        rc, out = sh(["git", "-C", wt, "apply", os.path.join(d, "patch.diff")])
        if rc != 0:
            print("patch does not apply to the current HEAD:", out[-400:]); return 1
        env = dict(os.environ, VERIF_REPO=wt, VERIF_BUILD=os.path.join(tmp, "vbuild"), VERIF_EVIDENCE=os.path.join(tmp, "ev"))
        for c in checks:
            t0 = time.time()
            rc, out = sh([os.path.join(VERIF, "check"), c, tier], env=env, timeout=7200)
            viol = [l for l in out.splitlines() if l.startswith("VIOLATION property=")]
            keys = [l for l in out.splitlines() if l.startswith("--- violation key=")]
            res = "CAUGHT" if rc == 1 and viol else ("MISSED" if rc == 0 else "BROKEN rc=%d" % rc)
            meta.setdefault("rechecks", []).append({"check": "%s %s" % (c, tier), "date": time.strftime("%Y-%m-%d %H:%M"), "result": res,
                                                    "keys": keys[:6], "note": note, "wall_s": round(time.time() - t0)})
            print(name, c, tier, res, keys[:3])
        with open(os.path.join(d, "meta.json"), "w") as f:
            json.dump(meta, f, indent=1)
        return 0
    finally:
        sh(["git", "-C", "/repo", "worktree", "remove", "--force", wt])
        shutil.rmtree(tmp, ignore_errors=True)


if __name__ == "__main__":
    sys.exit(main())
