"""Shared machinery for the libnstd TLA+ verification checks.

Python 3 standard library only.  Everything that a registered check needs lives
under /verif (build output in /verif/build, never /tmp).
"""
import fcntl
import hashlib
import json
import os
import random
import re
import shutil
import subprocess
import sys
import time
from concurrent.futures import ThreadPoolExecutor

VERIF = os.path.dirname(os.path.dirname(os.path.abspath(__file__)))
REPO = os.environ.get("VERIF_REPO", "/repo")
BUILD = os.environ.get("VERIF_BUILD", os.path.join(VERIF, "build"))
SPEC = os.path.join(VERIF, "spec")
HARNESS = os.path.join(VERIF, "harness")
EVIDENCE = os.environ.get("VERIF_EVIDENCE", os.path.join(VERIF, "evidence"))
FINDINGS_FILE = os.path.join(VERIF, "KNOWN_FINDINGS.jsonl")
GUARD = "NSTD_VERIF"
CXX = os.environ.get("VERIF_CXX", "g++")
NCPU = os.cpu_count() or 4

os.makedirs(BUILD, exist_ok=True)


def log(*a):
    print(*a, flush=True)


# ---------------------------------------------------------------------------------------------
# processes

def sh(cmd, timeout=600, env=None, cwd=None, stdin=None):
    """Run a command, return (rc, stdout+stderr text). rc 124 on timeout."""
    e = dict(os.environ)
    if env:
        e.update(env)
    try:
        p = subprocess.run(cmd, stdout=subprocess.PIPE, stderr=subprocess.STDOUT, timeout=timeout,
                           env=e, cwd=cwd, input=stdin)
        return p.returncode, p.stdout.decode("utf-8", "replace")
    except subprocess.TimeoutExpired as ex:
        out = ex.stdout.decode("utf-8", "replace") if ex.stdout else ""
        return 124, out + "\n[timeout after %ss]\n" % timeout


# ---------------------------------------------------------------------------------------------
# TLC

class TlcResult:
    def __init__(self):
        self.rc = None
        self.out = ""
        self.generated = 0
        self.distinct = 0
        self.depth = 0
        self.ok = False            # finished without any error
        self.violation = None      # text of the first "Error:" block if an invariant/property failed
        self.broken = None         # text if the spec itself is broken (parse error, eval error)
        self.wall = 0.0
        self.coverage = {}
        self.printed = []          # values printed with PrintT, raw strings

    def summary(self):
        return {"generated": self.generated, "distinct": self.distinct, "depth": self.depth,
                "ok": self.ok, "wall_s": round(self.wall, 1)}


_tlc_seq = [0]


def tlc(spec_dir, module, cfg, workers=4, simulate=None, depth=None, seed=None, env=None, timeout=900,
        dump=None, xmx="3g", coverage=False, extra=None, deadlock=False, dfs=False, tool=False):
    """Run TLC on spec_dir/module.tla with spec_dir/cfg.  Returns TlcResult."""
    _tlc_seq[0] += 1
    meta = os.path.join(BUILD, "tlc", "%s.%d.%d" % (module, os.getpid(), _tlc_seq[0]))
    os.makedirs(meta, exist_ok=True)
    jopts = "-Xmx%s -XX:+UseParallelGC" % xmx
    if dfs:
        jopts += " -Dtlc2.tool.queue.IStateQueue=StateDeque"
    cmd = ["timeout", str(int(timeout)), "java"] + jopts.split() + [
        "-cp", "/opt/veriftools/tla/tla2tools.jar:/opt/veriftools/tla/CommunityModules-deps.jar",
        "tlc2.TLC", "-noGenerateSpecTE", "-metadir", meta, "-workers", str(workers), "-config", cfg]
    if not deadlock:
        cmd.append("-deadlock")   # -deadlock = do NOT check for deadlock
    if simulate is not None:
        cmd += ["-simulate", "num=%d" % simulate]
        if depth:
            cmd += ["-depth", str(depth)]
    if seed is not None:
        cmd += ["-seed", str(seed)]
    if dump:
        cmd += ["-dump", "dot,actionlabels", dump]
    if coverage:
        cmd += ["-coverage", "1"]
    if extra:
        cmd += extra
    cmd.append(module + ".tla")
    t0 = time.time()
    rc, out = sh(cmd, timeout=timeout + 30, env=env, cwd=spec_dir)
    r = TlcResult()
    r.wall = time.time() - t0
    r.rc, r.out = rc, out
    shutil.rmtree(meta, ignore_errors=True)
    m = None
    for m in re.finditer(r"(\d+) states generated, (\d+) distinct states found", out):
        pass
    if m:
        r.generated, r.distinct = int(m.group(1)), int(m.group(2))
    m = re.search(r"depth of the complete state graph search is (\d+)", out)
    if m:
        r.depth = int(m.group(1))
    if simulate is not None:
        m = None
        for m in re.finditer(r"Progress: (\d+) states checked, (\d+) traces generated", out):
            pass
        if m:
            r.generated = int(m.group(1))
            r.distinct = max(r.distinct, int(m.group(2)))
    r.printed = re.findall(r"^<<(.*)>>$", out, flags=re.M)
    if coverage:
        for m in re.finditer(r"^<(\w+) line \d+, col \d+ to line \d+, col \d+ of module (\w+)>: (\d+):(\d+)", out, flags=re.M):
            r.coverage[m.group(1)] = r.coverage.get(m.group(1), 0) + int(m.group(3))
    err = re.search(r"^Error: (.*)$", out, flags=re.M)
    if rc == 0 and not err:
        r.ok = True
    elif rc == 124 or "[timeout after" in out:
        if simulate is not None and not err:
            r.ok = True      # simulation is open ended: the outer timeout ends it
        else:
            r.broken = "TLC timed out"
    else:
        txt = out[err.start():err.start() + 6000] if err else out[-3000:]
        if err and re.search(r"Invariant .* is violated|Temporal properties were violated|Action property .* is violated|"
                             r"is violated|Deadlock reached|Postcondition|POSTCONDITION", txt):
            r.violation = txt
        else:
            r.broken = txt
    return r


def sany(spec_dir, module):
    rc, out = sh(["java", "-cp", "/opt/veriftools/tla/tla2tools.jar:/opt/veriftools/tla/CommunityModules-deps.jar",
                  "tla2sany.SANY", module + ".tla"], cwd=spec_dir, timeout=120)
    ok = rc == 0 and "Semantic errors" not in out and "***Parse Error***" not in out and "Fatal errors" not in out
    return ok, out


# ---------------------------------------------------------------------------------------------
# TLA+ value parsing (action labels of the dot dump):  Do("insert", <<3, 5>>)

def parse_tla_value(s):
    pos = [0]

    def ws():
        while pos[0] < len(s) and s[pos[0]] in " \t\n":
            pos[0] += 1

    def val():
        ws()
        c = s[pos[0]]
        if s.startswith("<<", pos[0]):
            pos[0] += 2
            items = []
            ws()
            if s.startswith(">>", pos[0]):
                pos[0] += 2
                return items
            while True:
                items.append(val())
                ws()
                if s.startswith(">>", pos[0]):
                    pos[0] += 2
                    return items
                assert s[pos[0]] == ",", s
                pos[0] += 1
        if c == '"':
            j = s.index('"', pos[0] + 1)
            v = s[pos[0] + 1:j]
            pos[0] = j + 1
            return v
        if c == "{":
            pos[0] += 1
            items = []
            ws()
            if s[pos[0]] == "}":
                pos[0] += 1
                return items
            while True:
                items.append(val())
                ws()
                if s[pos[0]] == "}":
                    pos[0] += 1
                    return items
                pos[0] += 1
        m = re.match(r"-?\d+", s[pos[0]:])
        if m:
            pos[0] += m.end()
            return int(m.group(0))
        m = re.match(r"[A-Za-z_][A-Za-z0-9_]*", s[pos[0]:])
        if m:
            pos[0] += m.end()
            w = m.group(0)
            return {"TRUE": True, "FALSE": False}.get(w, w)
        raise ValueError("cannot parse TLA value at %d: %r" % (pos[0], s))

    v = val()
    return v


def parse_action_label(label):
    """'Insert(3, <<1,2>>)' -> ('Insert', [3, [1,2]]);  'Pop' -> ('Pop', [])"""
    label = label.replace('\\"', '"')
    m = re.match(r"^(\w+)(?:\((.*)\))?$", label, flags=re.S)
    if not m:
        raise ValueError("bad action label %r" % label)
    name, args = m.group(1), m.group(2)
    if args is None or args.strip() == "":
        return name, []
    return name, parse_tla_value("<<" + args + ">>")


_edge_re = re.compile(r'^(-?\d+) -> (-?\d+) \[label="((?:[^"\\]|\\.)*)"')
_node_re = re.compile(r'^(-?\d+) \[label="((?:[^"\\]|\\.)*)"(,style = filled)?')


def read_dot(path, want_state_text=False):
    """Returns (init_ids, edges{src: [(label, dst)]}, statetext{id: text})"""
    inits, edges, text = [], {}, {}
    with open(path) as f:
        for line in f:
            m = _edge_re.match(line)
            if m:
                edges.setdefault(m.group(1), []).append((m.group(3), m.group(2)))
                continue
            m = _node_re.match(line)
            if m:
                if m.group(3):
                    inits.append(m.group(1))
                if want_state_text:
                    text[m.group(1)] = m.group(2)
                edges.setdefault(m.group(1), [])
    return inits, edges, text


def edge_cover_walks(inits, edges, max_len=200, skip_label=None, rng=None, max_bfs=3000):
    """Op sequences (lists of labels) that together traverse every edge of the graph reachable from the
    initial state.  Greedy: follow an untraversed edge of the current state if there is one, otherwise go by a
    shortest path (BFS over at most max_bfs states) to the nearest state that still has one; a walk ends when it
    reaches max_len or nothing is in reach, and the next walk starts again from the initial state (= reset)."""
    from collections import deque
    init = inits[0]
    todo = {}
    total = 0
    for u, es in edges.items():
        lst = [e for e in es if not (skip_label and skip_label(e[0]))]
        if lst:
            if rng:
                rng.shuffle(lst)
            todo[u] = lst
            total += len(lst)
    # drop unreachable states
    seen = {init}
    dq = deque([init])
    while dq:
        u = dq.popleft()
        for lab, v in edges.get(u, []):
            if v not in seen:
                seen.add(v)
                dq.append(v)
    for u in list(todo):
        if u not in seen:
            total -= len(todo[u])
            del todo[u]

    def nearest(cur, limit):
        if cur in todo:
            return []
        par = {cur: None}
        dq = deque([cur])
        while dq and len(par) < limit:
            x = dq.popleft()
            for lab, v in edges.get(x, []):
                if v in par:
                    continue
                par[v] = (x, lab)
                if v in todo:
                    path = []
                    while par[v] is not None:
                        x2, l2 = par[v]
                        path.append((l2, v))
                        v = x2
                    path.reverse()
                    return path
                dq.append(v)
        return None

    walks = []
    while todo:
        cur = init
        walk = []
        first = True
        while len(walk) < max_len:
            path = nearest(cur, 10 ** 9 if first else max_bfs)
            first = False
            if path is None:
                break
            if path and len(walk) + len(path) >= max_len and walk:
                break
            for lab, v in path:
                walk.append(lab)
                cur = v
            lst = todo[cur]
            lab, v = lst.pop()
            if not lst:
                del todo[cur]
            walk.append(lab)
            cur = v
        if not walk:
            break
        walks.append(walk)
    return walks, total


def graphwalk_bin():
    b = os.path.join(BUILD, "bin", "graphwalk")
    src = os.path.join(VERIF, "tools", "native", "graphwalk.cpp")
    os.makedirs(os.path.dirname(b), exist_ok=True)
    if not os.path.exists(b) or os.path.getmtime(b) < os.path.getmtime(src):
        tmp = b + ".tmp%d" % os.getpid()
        rc, out = sh(["g++", "-O2", "-std=c++11", "-o", tmp, src], timeout=300)
        if rc != 0:
            raise BuildError("graphwalk: " + out)
        os.replace(tmp, b)
    return b


def graph_walks(dot_path, max_len=200, seed=1):
    """Edge-covering walks of a TLC dot dump as lists of (action name, [args]).  Returns (walks, n_edges)."""
    out = dot_path + ".walks"
    rc, txt = sh([graphwalk_bin(), dot_path, out, str(max_len), str(seed)], timeout=5400)
    if rc not in (0, 1):
        raise RuntimeError("graphwalk failed: " + txt)
    memo = {}
    walks = []
    nedges = 0
    with open(out) as f:
        for line in f:
            line = line.rstrip("\n")
            if line == "reset":
                walks.append([])
            elif line.startswith("#edges"):
                nedges = int(line.split()[1])
            elif line:
                v = memo.get(line)
                if v is None:
                    v = memo[line] = parse_action_label(line)
                walks[-1].append(v)
    os.remove(out)
    return walks, nedges


# ---------------------------------------------------------------------------------------------
# building harness binaries from /repo's current working tree

def _sha(*parts):
    h = hashlib.sha256()
    for p in parts:
        if isinstance(p, str):
            p = p.encode()
        h.update(p)
        h.update(b"\0")
    return h.hexdigest()[:16]


def _file_bytes(path):
    with open(path, "rb") as f:
        return f.read()


_tree_hash_cache = {}


def tree_hash(root, exts=(".hpp", ".h", ".cpp")):
    if root in _tree_hash_cache:
        return _tree_hash_cache[root]
    h = hashlib.sha256()
    for d, _, files in sorted(os.walk(root)):
        for fn in sorted(files):
            if fn.endswith(exts):
                p = os.path.join(d, fn)
                h.update(p.encode())
                h.update(_file_bytes(p))
    _tree_hash_cache[root] = h.hexdigest()[:16]
    return _tree_hash_cache[root]


SAN_FLAGS = ["-fsanitize=address,undefined", "-fno-sanitize-recover=undefined", "-fno-omit-frame-pointer"]
BASE_FLAGS = ["-std=c++11", "-O1", "-g", "-DNDEBUG", "-D" + GUARD, "-pthread", "-w"]


class BuildError(Exception):
    pass


def build(name, harness_srcs, repo_srcs=(), flags=(), san=True, libs=(), cxx=None, no_guard=False):
    """Compile harness_srcs (paths under /verif/harness) + repo_srcs (paths relative to REPO) into one binary.

    Objects and binaries are cached by content hash of everything they can include, so a change to /repo's
    working tree always leads to a rebuild.  Returns the binary path.  Raises BuildError with compiler output.
    """
    cxx = cxx or CXX
    base = [f for f in BASE_FLAGS if not (no_guard and f == "-D" + GUARD)]
    allflags = base + (SAN_FLAGS if san else []) + list(flags) + [
        "-I" + os.path.join(REPO, "include"), "-I" + os.path.join(REPO, "src"), "-I" + os.path.join(HARNESS, "common")]
    inc_hash = _sha(tree_hash(os.path.join(REPO, "include")), tree_hash(os.path.join(HARNESS, "common")),
                    tree_hash(os.path.join(REPO, "src"), exts=(".h", ".hpp")))
    objdir = os.path.join(BUILD, "obj")
    bindir = os.path.join(BUILD, "bin")
    os.makedirs(objdir, exist_ok=True)
    os.makedirs(bindir, exist_ok=True)
    units = [(os.path.join(HARNESS, s) if not os.path.isabs(s) else s) for s in harness_srcs] + \
            [os.path.join(REPO, s) for s in repo_srcs]
    objs = []
    jobs = []
    for u in units:
        extra = b""
        d = os.path.dirname(u)
        if u.startswith(HARNESS):
            extra = tree_hash(d, exts=(".h", ".hpp", ".inc")).encode()
        key = _sha(_file_bytes(u), inc_hash, " ".join(allflags), cxx, extra)
        o = os.path.join(objdir, "%s.%s.o" % (os.path.basename(u).replace(".cpp", ""), key))
        objs.append(o)
        if not os.path.exists(o):
            jobs.append((u, o))
    binkey = _sha(" ".join(objs), " ".join(libs), cxx, " ".join(allflags))
    binary = os.path.join(bindir, "%s.%s" % (name, binkey))
    if os.path.exists(binary) and not jobs:
        return binary
    lockf = open(os.path.join(BUILD, "build.%s.lock" % name), "w")
    fcntl.flock(lockf, fcntl.LOCK_EX)
    try:
        jobs = [(u, o) for (u, o) in jobs if not os.path.exists(o)]

        def comp(job):
            u, o = job
            tmp = o + ".tmp%d" % os.getpid()
            rc, out = sh([cxx] + allflags + ["-c", u, "-o", tmp], timeout=900)
            if rc != 0:
                return "compile %s failed:\n%s" % (u, out[-4000:])
            os.replace(tmp, o)
            return None
        with ThreadPoolExecutor(max_workers=min(NCPU, 12)) as ex:
            errs = [e for e in ex.map(comp, jobs) if e]
        if errs:
            raise BuildError("\n".join(errs))
        if not os.path.exists(binary):
            tmp = binary + ".tmp%d" % os.getpid()
            rc, out = sh([cxx] + allflags + objs + list(libs) + ["-o", tmp], timeout=600)
            if rc != 0:
                raise BuildError("link %s failed:\n%s" % (name, out[-4000:]))
            os.replace(tmp, binary)
    finally:
        fcntl.flock(lockf, fcntl.LOCK_UN)
        lockf.close()
    _gc_cache(bindir, name + ".", keep=3)
    return binary


def _gc_cache(d, prefix, keep=3):
    try:
        fs = sorted([os.path.join(d, f) for f in os.listdir(d) if f.startswith(prefix) and ".tmp" not in f],
                    key=os.path.getmtime)
        for f in fs[:-keep]:
            os.remove(f)
        # objects: drop those older than 2 days when the dir is large
        od = os.path.join(BUILD, "obj")
        objs = [os.path.join(od, f) for f in os.listdir(od)]
        if len(objs) > 600:
            objs.sort(key=os.path.getmtime)
            for f in objs[:-400]:
                os.remove(f)
    except OSError:
        pass


# ---------------------------------------------------------------------------------------------
# op files / traces
#
# An op file is text: one op per line, "reset" starts a new execution.  Tokens: integers, or byte strings
# written as x<hex> (x alone = empty).  The driver writes one JSON object per executed line.

def hexs(bs):
    return "x" + "".join("%02x" % b for b in bs)


def write_ops(path, executions):
    """executions: list of lists of op lines (str).  Writes 'reset' before each."""
    with open(path, "w") as f:
        for ex in executions:
            f.write("reset\n")
            for op in ex:
                f.write(op + "\n")


class DriverRun:
    def __init__(self):
        self.crashes = []      # (execution index, stderr excerpt, kind)
        self.lines = 0
        self.exec_of_line = [] # execution index for each trace line (1-based line -> index)
        self.step_of_line = []


def run_driver(binary, executions, trace_path, timeout=600, env=None, args=(), per_exec_timeout=None):
    """Run the driver over all executions; survive crashes (ASan aborts, hangs) by restarting after the
    crashed execution.  Returns DriverRun; the trace file holds all lines produced."""
    res = DriverRun()
    e = {"ASAN_OPTIONS": "detect_leaks=1:abort_on_error=0:exitcode=99:malloc_fill_byte=190:max_malloc_fill_size=4096:"
                         "allocator_may_return_null=1:detect_stack_use_after_return=0",
         "UBSAN_OPTIONS": "print_stacktrace=1:halt_on_error=1:exitcode=98"}
    if env:
        e.update(env)
    start = 0
    opsf = trace_path + ".ops"
    open(trace_path, "w").close()
    t_end = time.time() + timeout
    while start < len(executions):
        write_ops(opsf, executions[start:])
        part = trace_path + ".part"
        rc, out = sh([binary, opsf, part] + list(args), timeout=max(5, t_end - time.time()), env=e)
        nres = 0
        with open(part, "rb") as pf, open(trace_path, "ab") as tf:
            data = pf.read()
            # keep only complete lines
            if data and not data.endswith(b"\n"):
                data = data[:data.rfind(b"\n") + 1]
            tf.write(data)
            nres = data.count(b'"op":"reset"')
        os.remove(part)
        if rc == 0:
            break
        # crashed inside execution index start + nres - 1
        idx = start + max(nres, 1) - 1
        kind = "timeout" if rc == 124 else ("asan" if rc == 99 or "AddressSanitizer" in out else
                                            ("ubsan" if rc == 98 or "runtime error" in out else "crash rc=%d" % rc))
        if "DRIVER-HANG" in out:
            kind = "hang"
        if "DRIVER-ERROR" in out:
            kind = "driver-error"       # the harness refused (a limit of the harness, a malformed op): a broken check, never a verdict
        res.crashes.append((idx, out[-3000:], kind))
        if len(res.crashes) > 40 or time.time() > t_end:
            break
        start = idx + 1
    if os.path.exists(opsf):
        os.remove(opsf)
    return res


_ln_re = re.compile(r'"ln":(\d+)')


def index_trace(trace_path):
    """Returns list of (execution index, step) for each trace line (0-based list).  step = 1-based index of the op
    (line of the op file within its execution) that produced the event: taken from the event's "ln" field when the
    driver logs one (drivers whose ops produce several events), else the event's position in its execution."""
    idx = []
    ex = -1
    step = 0
    with open(trace_path) as f:
        for line in f:
            if '"op":"reset"' in line:
                ex += 1
                step = 0
            else:
                m = _ln_re.search(line)
                step = int(m.group(1)) if m else step + 1
            idx.append((ex, step))
    return idx


def _validate_one(spec_dir, module, cfg, trace_path, timeout, xmx, env):
    e = {"TRACE": trace_path}
    if env:
        e.update(env)
    r = tlc(spec_dir, module, cfg, workers=1, env=e, timeout=timeout, xmx=xmx)
    mism = []
    done = False
    for p in r.printed:
        if p.startswith('"MISMATCH"'):
            parts = parse_tla_value("<<" + p + ">>")
            mism.append((parts[1], parts[2] if len(parts) > 2 else ""))
        elif p.startswith('"TRACE-DONE"'):
            done = True
    return r, mism, done


def validate_trace(spec_dir, module, cfg, trace_path, timeout=900, xmx="4g", env=None, chunk_lines=150000, parallel=6):
    """Run the trace specification over trace_path.  The trace spec prints <<"MISMATCH", line, why>> for every
    event the property-level spec does not allow and resynchronises, and <<"TRACE-DONE", n>> at the end.
    Long traces are cut at execution boundaries ("reset" events) into chunks validated by parallel TLC runs.
    Returns (TlcResult (summed), [ (line(1-based), why) ], complete?)"""
    with open(trace_path) as f:
        lines = f.readlines()
    if len(lines) <= chunk_lines:
        return _validate_one(spec_dir, module, cfg, trace_path, timeout, xmx, env)
    chunks = []          # (first line index (0-based), path)
    start = 0
    i = 0
    n = len(lines)
    while start < n:
        end = min(n, start + chunk_lines)
        while end < n and '"op":"reset"' not in lines[end]:
            end += 1
        p = "%s.chunk%d" % (trace_path, len(chunks))
        with open(p, "w") as f:
            f.writelines(lines[start:end])
        chunks.append((start, p))
        start = end
    del lines

    def one(c):
        return c[0], _validate_one(spec_dir, module, cfg, c[1], timeout, xmx, env)
    total = TlcResult()
    total.ok = True
    allm = []
    alldone = True
    with ThreadPoolExecutor(max_workers=parallel) as ex:
        for off, (r, mism, done) in ex.map(one, chunks):
            total.generated += r.generated
            total.distinct += r.distinct
            total.wall += r.wall
            total.ok = total.ok and r.ok
            total.broken = total.broken or r.broken
            total.violation = total.violation or r.violation
            allm += [(ln + off, why) for ln, why in mism]
            alldone = alldone and done
    for _, p in chunks:
        os.remove(p)
    return total, sorted(allm), alldone


# ---------------------------------------------------------------------------------------------
# executions under the cooperative scheduler (harness/sched): one process per execution

def preemption_bounded_schedules(binary, base_args, bound=2, cap=3000, timeout=30):
    """Systematic schedule exploration for a small scenario under the cooperative scheduler (harness/sched): all
    schedules with at most `bound` preemptions (a switch away from a thread that could have continued; switches at
    points where the running thread blocks or ends are free), breadth first by number of preemptions, at most `cap`
    schedules.  Uses the scheduler's non-preemptive mode (--np), which continues a given schedule prefix without
    preemption and reports the threads eligible at every step.  Returns a list of argument lists (base_args + the
    schedule) to be executed and judged like any other run."""
    env = dict(os.environ, ASAN_OPTIONS="detect_leaks=0:abort_on_error=0:exitcode=99:allocator_may_return_null=1")

    def probe(prefix):
        try:
            p = subprocess.run([binary] + [str(a) for a in base_args] + ["--np", "--sched", " ".join(prefix), "--out", "/dev/null"],
                               stdout=subprocess.PIPE, stderr=subprocess.DEVNULL, timeout=timeout, env=env)
            for line in p.stdout.decode("utf-8", "replace").splitlines():
                if line.startswith('{"verdict"'):
                    d = json.loads(line)
                    return d.get("choices", "").split(), d.get("elig", "").split(" ")
        except (subprocess.TimeoutExpired, ValueError):
            pass
        return None, None
    seen, out = set(), []
    level = [((), 0)]
    while level and len(out) < cap:
        with ThreadPoolExecutor(max_workers=max(2, NCPU - 2)) as ex:
            probed = list(ex.map(lambda x: probe(list(x[0])), level))
        nxt = []
        for (prefix, used), (choices, elig) in zip(level, probed):
            if choices is None:
                continue
            key = tuple(choices)
            if key in seen:
                continue
            seen.add(key)
            out.append(list(base_args) + ["--np", "--sched", " ".join(prefix)])
            if len(out) >= cap:
                break
            for i in range(len(prefix), min(len(choices), len(elig))):
                alts = [a for a in elig[i].split(".") if a]
                if len(alts) < 2:
                    continue
                prev = choices[i - 1] if i > 0 else None
                cost = 1 if (prev is not None and choices[i] == prev and prev in alts) else 0
                if used + cost > bound:
                    continue
                for a in alts:
                    if a != choices[i]:
                        nxt.append((tuple(choices[:i]) + (a,), used + cost))
        nxt.sort(key=lambda x: x[1])
        level = nxt[:max(0, cap * 2)]
    return out


def run_sched_executions(binary, runs, work, tag, timeout=60, parallel=None):
    """runs: list of argument lists (scenario parameters, --seed, --sched ...).  Every execution runs in its own
    process and writes its own trace; the traces are concatenated (each starts with a reset event).
    Returns (combined trace path, [result dict per run]) where result has verdict/failure/steps/diverged/choices,
    'rc', 'stderr' (sanitizer output etc.) and 'lines' = (first, last) 1-based line numbers in the combined trace."""
    os.makedirs(work, exist_ok=True)
    # leaks are checked by the scenarios themselves (__lsan_do_recoverable_leak_check), never at exit (parked threads)
    env = dict(os.environ, ASAN_OPTIONS="detect_leaks=1:leak_check_at_exit=0:abort_on_error=0:exitcode=99:allocator_may_return_null=1",
               UBSAN_OPTIONS="print_stacktrace=1:halt_on_error=1:exitcode=98")

    def one(i):
        outp = os.path.join(work, "%s_%d.ndjson" % (tag, i))
        try:
            p = subprocess.run([binary] + [str(a) for a in runs[i]] + ["--out", outp], stdout=subprocess.PIPE, stderr=subprocess.PIPE,
                               timeout=timeout, env=env)
            rc, so, se = p.returncode, p.stdout.decode("utf-8", "replace"), p.stderr.decode("utf-8", "replace")
        except subprocess.TimeoutExpired as ex:
            rc, so, se = 124, (ex.stdout or b"").decode("utf-8", "replace"), "[timeout]"
        res = {"rc": rc, "stderr": se[-3000:], "verdict": "crash" if rc not in (0,) else "?", "failure": "", "steps": 0, "diverged": 0, "choices": ""}
        for line in so.splitlines():
            if line.startswith('{"verdict"'):
                try:
                    res.update(json.loads(line))
                except ValueError:
                    pass
        if rc == 124:
            res["verdict"] = "timeout"
        elif rc != 0:
            res["verdict"] = "crash"
        return outp, res
    results = []
    combined = os.path.join(work, tag + "_all.ndjson")
    with ThreadPoolExecutor(max_workers=parallel or max(2, NCPU - 2)) as ex:
        outs = list(ex.map(one, range(len(runs))))
    ln = 0
    with open(combined, "w") as cf:
        for outp, res in outs:
            first = ln + 1
            if os.path.exists(outp):
                with open(outp) as f:
                    data = f.read()
                if data and not data.endswith("\n"):
                    data = data[:data.rfind("\n") + 1]
                if not data.startswith('{"op":"reset"}'):
                    data = '{"op":"reset"}\n' + data
                cf.write(data)
                ln += data.count("\n")
                os.remove(outp)
            else:
                cf.write('{"op":"reset"}\n')
                ln += 1
            res["lines"] = (first, ln)
            results.append(res)
    return combined, results


# ---------------------------------------------------------------------------------------------
# known findings

def load_findings():
    fs = []
    if os.path.exists(FINDINGS_FILE):
        with open(FINDINGS_FILE) as f:
            for line in f:
                line = line.strip()
                if line and not line.startswith("#"):
                    fs.append(json.loads(line))
    return fs


def known_keys(prop):
    return {f["key"]: f for f in load_findings() if f.get("property") == prop and not f.get("fixed")}


# ---------------------------------------------------------------------------------------------
# check context / result

class Ctx:
    def __init__(self, prop, tier, seed, replay=None):
        self.prop = prop
        self.tier = tier
        self.seed = seed
        self.replay = replay
        self.t0 = time.time()
        self.rng = random.Random(seed)
        self.work = os.path.join(BUILD, "work", "%s.%d" % (prop, os.getpid()))
        os.makedirs(self.work, exist_ok=True)
        self.replay_dir = os.path.join(BUILD, "replay", prop)
        os.makedirs(self.replay_dir, exist_ok=True)
        self.states = 0
        self.transitions = 0
        self.traces = 0
        self.evaluations = 0
        self.distinct = set()
        self.samples = []
        self.violations = []       # (key, replay path, text)
        self.known_hits = {}
        self.drift = 0
        self.cov = {}
        self.assumptions = []
        self.notes = {}
        self.broken = []
        self.tlc_runs = []
        self.known = known_keys(prop)

    @property
    def quick(self):
        return self.tier == "quick"

    def add_tlc(self, name, r, must_pass=True):
        self.states += r.distinct
        self.transitions += r.generated
        self.tlc_runs.append(dict(r.summary(), name=name))
        if r.broken:
            self.broken.append("%s: %s" % (name, r.broken[:1500]))
        for k, v in r.coverage.items():
            self.cov[name + "." + k] = v
        if must_pass and r.violation:
            # a violation of the specification's own properties inside TLC (design level)
            self.broken.append("%s: TLC reports a property violation in the model itself:\n%s" % (name, r.violation[:2500]))

    def save_replay(self, name, lines):
        p = os.path.join(self.replay_dir, name)
        with open(p, "w") as f:
            f.write("\n".join(lines) + "\n")
        return p

    def report(self, key, replay_path, text):
        """Record a property-level failure on the real code; known findings are matched by key."""
        if key.endswith(":driver-error"):
            self.broken.append("the harness refused an operation (%s): %s" % (key, text[-600:]))
            return
        if key in self.known:
            if key not in self.known_hits:
                self.known_hits[key] = replay_path
            return
        self.violations.append((key, replay_path, text))

    def sample(self, s):
        if len(self.samples) < 6:
            self.samples.append(s)

    def cleanup(self):
        shutil.rmtree(self.work, ignore_errors=True)


def check_executions(ctx, binary, executions, tag, spec_dir, trace_module, trace_cfg, key_of,
                     driver_args=(), driver_env=None, driver_timeout=900, tlc_timeout=900, count_traces=True):
    """The standard binding step shared by the sequential components:
       executions (lists of op lines) -> real code via the driver -> ndjson trace -> TLC trace specification.
    Every crash (sanitizer report, hang, abort) and every event the Layer-1 trace spec rejects is reported through
    ctx.report(key_of(ops, step), replay file, text).  key_of(ops, step) -> canonical signature of the failing step
    (step is 1-based; step == len(ops) for crashes where the exact step is unknown)."""
    trace = os.path.join(ctx.work, "trace_%s.ndjson" % tag)
    dr = run_driver(binary, executions, trace, timeout=driver_timeout, env=driver_env, args=driver_args)
    ctx.evaluations += sum(len(e) for e in executions)
    index = index_trace(trace)
    logged_steps = {}
    for ex, step in index:
        logged_steps[ex] = max(logged_steps.get(ex, 0), step)
    crashed = set()
    for idx, out, kind in dr.crashes:
        ops = executions[idx]
        crashed.add(idx)
        step = min(len(ops), logged_steps.get(idx, 0) + 1)      # the op after the last logged one
        p = ctx.save_replay("%s_crash_%d.ops" % (tag, idx), ["reset"] + ops[:step])
        ctx.report("%s:%s" % (key_of(ops, step), kind), p,
                   "driver %s at step %d of execution %d: ops=%s\n%s" % (kind, step, idx, ops[:step][-12:], out[-1800:]))
    r, mism, done = validate_trace(spec_dir, trace_module, trace_cfg, trace, timeout=tlc_timeout)
    ctx.add_tlc("trace:" + tag, r, must_pass=False)
    # an invariant of the reference violated on a state the trace spec re-synchronised to AFTER a mismatch is a consequence
    # of that mismatch (the implementation was observed in a state the reference cannot be in): the mismatch is reported,
    # the rest of that trace chunk stays unexamined.  Without a preceding mismatch it is an error of the specification.
    if r.violation and not mism:
        ctx.broken.append("trace spec %s: invariant violated / TLC error: %s" % (trace_module, r.violation[:1200]))
    if not done and not r.broken and not r.violation:
        ctx.broken.append("trace validation of %s did not reach the end of the trace" % tag)
    badexec = set()
    for line, why in mism:
        ex, step = index[line - 1]
        if ex in badexec:
            continue          # later mismatches of one execution may be consequences of the first
        badexec.add(ex)
        ops = executions[ex]
        p = ctx.save_replay("%s_mismatch_%d.ops" % (tag, ex), ["reset"] + ops[:step])
        ctx.report(key_of(ops, step), p, "Layer-1 mismatch at step %d (%s) of execution %d: ops=%s" % (step, why, ex, ops[:step][-12:]))
    if count_traces:
        ctx.traces += len(executions) - len(badexec | crashed)
    for e in executions:
        if len(e) >= 2:
            ctx.distinct.add(hash(tuple(e)))
    if executions:
        ctx.sample({"source": tag, "ops": executions[len(executions) // 2][:12]})
    return badexec | crashed


def read_ops_file(path):
    """Replay file -> list of executions (lists of op lines)."""
    execs = []
    with open(path) as f:
        for line in f:
            line = line.strip()
            if not line or line.startswith("#"):
                continue
            if line == "reset":
                execs.append([])
            else:
                if not execs:
                    execs.append([])
                execs[-1].append(line)
    return [e for e in execs if e]


def write_evidence(ctx, level, rule, explanation=None, exhaustive=None, extra=None):
    cov = {
        "states": int(ctx.states), "transitions": int(ctx.transitions),
        "traces_validated_against_impl": int(ctx.traces),
        "evaluations": int(ctx.evaluations), "distinct_nontrivial": len(ctx.distinct) if isinstance(ctx.distinct, set) else int(ctx.distinct),
        "rule": rule, "samples": ctx.samples[:6] or ["(none)"],
        "tlc_runs": ctx.tlc_runs, "action_coverage": ctx.cov, "layer2_drift": ctx.drift,
        "known_findings_hit": sorted(ctx.known_hits.keys()),
        "trusted_base": ["TLC/SANY 1.8.0 + CommunityModules", "python glue in /verif/tools", "driver projection functions",
                         "g++ 12 ASan/UBSan for memory clauses"],
        "checker_cmd": "./check %s %s" % (ctx.prop, ctx.tier),
    }
    if explanation:
        cov["explanation"] = explanation
    if exhaustive is not None:
        cov["exhaustive"] = exhaustive
    cov.update(ctx.notes)
    if extra:
        cov.update(extra)
    ev = {"property_id": ctx.prop, "tier": ctx.tier, "seed": int(ctx.seed), "level": level, "coverage": cov,
          "assumptions": ctx.assumptions, "wall_s": round(time.time() - ctx.t0, 1),
          "violations": len(ctx.violations)}
    evdir = EVIDENCE if not ctx.prop.startswith("X") else os.path.join(EVIDENCE, "extra")   # X..: coverage beyond the listed properties
    os.makedirs(evdir, exist_ok=True)
    tmp = os.path.join(evdir, ctx.prop + ".json.tmp%d" % os.getpid())
    with open(tmp, "w") as f:
        json.dump(ev, f, indent=1, sort_keys=True, default=str)
        f.write("\n")
    os.replace(tmp, os.path.join(evdir, ctx.prop + ".json"))


def finish(ctx, level, rule, **kw):
    """Print verdict lines, write evidence, return exit code."""
    if not ctx.replay:
        write_evidence(ctx, level, rule, **kw)
    for key, path in sorted(ctx.known_hits.items()):
        f = ctx.known[key]
        log("KNOWN-FINDING: property=%s %s [key=%s replay=%s]" % (ctx.prop, f.get("what", ""), key, path))
    if ctx.broken:
        for b in ctx.broken:
            log("BROKEN-CHECK property=%s: %s" % (ctx.prop, b))
        ctx.cleanup()
        return 2
    if ctx.violations:
        seen = set()
        for key, path, text in ctx.violations:
            if key in seen:
                continue
            seen.add(key)
            log("--- violation key=%s\n%s" % (key, text[:3000]))
            log("VIOLATION property=%s replay=%s" % (ctx.prop, path))
        ctx.cleanup()
        return 1
    log("OK property=%s tier=%s states=%d transitions=%d traces=%d evaluations=%d wall=%.0fs" % (
        ctx.prop, ctx.tier, ctx.states, ctx.transitions, ctx.traces, ctx.evaluations, time.time() - ctx.t0))
    ctx.cleanup()
    return 0
