#!/usr/bin/env python3
"""Binding self-test: run a check against a mutated scratch copy of /repo (never /repo itself).

usage: muttest.py <ID> [tier]   reads tools/mutants/<ID>.txt, one mutant per line:
         <file relative to repo> ||| <python regex> ||| <replacement> [||| comment]
       or
       muttest.py <ID> --one '<file>|||<regex>|||<replacement>'
Prints for every mutant whether the check reported a VIOLATION (caught), stayed quiet (MISSED) or broke.
The scratch copy lives under /tmp and is removed afterwards."""
import os
import re
import shutil
import subprocess
import sys
import tempfile

VERIF = os.path.dirname(os.path.dirname(os.path.abspath(__file__)))


def run_mutant(pid, tier, spec, keep_build):
    parts = [x.strip() for x in spec.split("|||")]
    rel, rx, rep = parts[0], parts[1], parts[2]
    tmp = tempfile.mkdtemp(prefix="verif-mut-")
    try:
        repo = os.path.join(tmp, "repo")
        os.makedirs(repo)
        for d in ("include", "src"):
            shutil.copytree(os.path.join("/repo", d), os.path.join(repo, d))
        p = os.path.join(repo, rel)
        s = open(p).read()
        s2, n = re.subn(rx, rep.replace("\\n", "\n"), s, count=1, flags=re.S)
        if n == 0:
            return "NOMATCH"
        open(p, "w").write(s2)
        env = dict(os.environ, VERIF_REPO=repo, VERIF_BUILD=keep_build, VERIF_EVIDENCE=os.path.join(tmp, "ev"))
        pr = subprocess.run([os.path.join(VERIF, "check"), pid, tier], env=env, stdout=subprocess.PIPE, stderr=subprocess.STDOUT)
        out = pr.stdout.decode("utf-8", "replace")
        if pr.returncode == 1 and "VIOLATION property=%s" % pid in out:
            return "CAUGHT"
        if pr.returncode == 0:
            return "MISSED"
        return "BROKEN rc=%d: %s" % (pr.returncode, out[-600:])
    finally:
        shutil.rmtree(tmp, ignore_errors=True)


def main():
    pid = sys.argv[1].upper()
    tier = "quick"
    specs = []
    if "--one" in sys.argv:
        specs = [sys.argv[sys.argv.index("--one") + 1]]
    else:
        if len(sys.argv) > 2:
            tier = sys.argv[2]
        with open(os.path.join(VERIF, "tools", "mutants", pid + ".txt")) as f:
            specs = [l.strip() for l in f if l.strip() and not l.startswith("#")]
    build = tempfile.mkdtemp(prefix="verif-mutbuild-")
    res = []
    try:
        for sp in specs:
            r = run_mutant(pid, tier, sp, build)
            print("%-8s %s" % (r.split()[0], sp[:160]), flush=True)
            if r.startswith("BROKEN"):
                print(r)
            res.append(r)
    finally:
        shutil.rmtree(build, ignore_errors=True)
    caught = sum(1 for r in res if r == "CAUGHT")
    print("mutants: %d caught: %d missed: %d other: %d" % (len(res), caught, sum(1 for r in res if r == "MISSED"),
                                                         len(res) - caught - sum(1 for r in res if r == "MISSED")))


if __name__ == "__main__":
    main()
