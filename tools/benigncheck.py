#!/usr/bin/env python3
"""Evaluate the checks against a property-PRESERVING change (false-alarm test; the counterpart of seedcheck.py).

usage: benigncheck.py <ID> <dir with patch.diff README.md> [--name <name>] [--checks C12,C05] [--tier quick] [--no-ctest]
 1. scratch git worktree of /repo HEAD under /tmp, patch applied there (never in /repo)
 2. the library builds and the repository's 34 tests pass with the change
 3. ./check <ID> <tier> with VERIF_REPO=<patched tree>: QUIET (exit 0, no VIOLATION) / ALARM / BROKEN
 4. everything is kept in /verif/benign/<name>/ (patch.diff, README.md, meta.json); scratch removed
An ALARM is looked at by hand: either the change does break the property after all (then it is re-filed as a seeded
change) or the check demands more than the property states (a false alarm: the check is corrected)."""
import json
import os
import shutil
import sys
import tempfile
import time

sys.path.insert(0, os.path.dirname(os.path.abspath(__file__)))
from seedcheck import sh, VERIF  # noqa: E402


def main():
    pid = sys.argv[1].upper()
    src = os.path.abspath(sys.argv[2])
    name, checks, tier, ctest = None, [pid], "quick", True
    a = sys.argv[3:]
    while a:
        if a[0] == "--name":
            name = a[1]; a = a[2:]
        elif a[0] == "--checks":
            checks = a[1].split(","); a = a[2:]
        elif a[0] == "--tier":
            tier = a[1]; a = a[2:]
        elif a[0] == "--no-ctest":
            ctest = False; a = a[1:]
        else:
            a = a[1:]
    name = name or "%s-%s" % (pid, os.path.basename(src.rstrip("/")))
    meta = {"property": pid, "name": name, "date": time.strftime("%Y-%m-%d %H:%M"), "steps": {}, "checks": {}}
    tmp = tempfile.mkdtemp(prefix="verif-benign-")
    wt = os.path.join(tmp, "wt")
    try:
        rc, out = sh(["git", "-C", "/repo", "worktree", "add", "--detach", wt, "HEAD"])
        if rc != 0:
            print("cannot create worktree", out); return 2
        rc, out = sh(["git", "-C", wt, "apply", os.path.join(src, "patch.diff")])
        if rc != 0:      # the tree has moved on (later fix: commits): try once more with fuzz before giving up
            rc, out2 = sh("cd %s && patch -p1 --fuzz=3 --no-backup-if-mismatch < %s" % (wt, os.path.join(src, "patch.diff")))
            if rc == 0:
                out = "applied with fuzz"
                sh("cd %s && find . -name '*.orig' -o -name '*.rej' | xargs rm -f" % wt)
            else:
                sh(["git", "-C", wt, "checkout", "--", "."])
        meta["steps"]["apply"] = ("ok" if "fuzz" not in out else "ok (with fuzz)") if rc == 0 else "FAILED: " + out[-500:]
        if rc != 0:
            print(json.dumps(meta, indent=1)); return 1
        if ctest:
            rc, out = sh("cmake -G Ninja -S %s -B %s/_build >/dev/null && cmake --build %s/_build 2>&1 | tail -3" % (wt, wt, wt))
            meta["steps"]["build"] = "ok" if rc == 0 and "FAILED" not in out and "error" not in out.lower() else "FAILED: " + out[-800:]
            rc, out = sh("ctest --test-dir %s/_build -j8 --timeout 900 2>&1 | tail -5" % wt)
            meta["steps"]["ctest"] = "34/34 pass" if "100% tests passed" in out and "out of 34" in out else "FAILED: " + out[-800:]
            shutil.rmtree(os.path.join(wt, "_build"), ignore_errors=True)
        env = dict(os.environ, VERIF_REPO=wt, VERIF_BUILD=os.path.join(tmp, "vbuild"), VERIF_EVIDENCE=os.path.join(tmp, "ev"))
        for c in checks:
            t0 = time.time()
            rc, out = sh([os.path.join(VERIF, "check"), c, tier], env=env, timeout=7200)
            viol = [l for l in out.splitlines() if l.startswith("VIOLATION property=")]
            keys = [l for l in out.splitlines() if l.startswith("--- violation key=")]
            res = "QUIET" if rc == 0 and not viol else ("ALARM" if rc == 1 and viol else "BROKEN rc=%d" % rc)
            meta["checks"]["%s %s" % (c, tier)] = {"result": res, "violations": len(viol), "keys": keys[:8], "wall_s": round(time.time() - t0),
                                                   "tail": out[-1500:] if res != "QUIET" else ""}
            if res != "QUIET":   # keep the replays for the post-mortem
                keep = os.path.join(VERIF, "build", "benign_alarm_" + name + "_" + c)
                shutil.rmtree(keep, ignore_errors=True)
                if os.path.isdir(os.path.join(tmp, "ev")):
                    shutil.copytree(os.path.join(tmp, "ev"), keep)
                rp = os.path.join(tmp, "vbuild", "replay", c)
                if os.path.isdir(rp):
                    shutil.copytree(rp, os.path.join(keep, "replay"), dirs_exist_ok=True)
        dst = os.path.join(VERIF, "benign", name)
        os.makedirs(dst, exist_ok=True)
        for f in ("patch.diff", "README.md"):
            if os.path.exists(os.path.join(src, f)):
                shutil.copy(os.path.join(src, f), os.path.join(dst, f))
        with open(os.path.join(dst, "meta.json"), "w") as f:
            json.dump(meta, f, indent=1)
        print(name, meta["steps"], {k: v["result"] for k, v in meta["checks"].items()})
        for k, v in meta["checks"].items():
            if v["result"] != "QUIET":
                print("   ", k, v["keys"], v["tail"][-800:])
        return 0
    finally:
        sh(["git", "-C", "/repo", "worktree", "remove", "--force", wt])
        shutil.rmtree(tmp, ignore_errors=True)


if __name__ == "__main__":
    sys.exit(main())
