#!/usr/bin/env python3
"""Writes benign/REPORT.md: verdicts of the checks on property-preserving changes (from benign/*/meta.json)."""
import glob
import json
import os

VERIF = os.path.dirname(os.path.dirname(os.path.abspath(__file__)))
rows = []
for m in sorted(glob.glob(os.path.join(VERIF, "benign", "*", "meta.json"))):
    d = json.load(open(m))
    readme = os.path.join(os.path.dirname(m), "README.md")
    first = ""
    if os.path.exists(readme):
        for line in open(readme):
            line = line.strip()
            if line and not line.startswith("#"):
                first = line[:200]
                break
    checks = "; ".join("%s: %s" % (k, v["result"]) for k, v in sorted(d.get("checks", {}).items()))
    rows.append("| %s | %s | %s | %s | %s |" % (d["name"], d["property"], checks, d.get("disposition", ""), first.replace("|", "/")))
with open(os.path.join(VERIF, "benign", "REPORT.md"), "w") as f:
    f.write("# Property-preserving changes (written by independent sub-agents) and the checks' verdicts\n\n")
    f.write("QUIET = the check exits 0 without a VIOLATION line on the changed tree (expected). disposition: what was done about an ALARM.\n\n")
    f.write("| change | property | checks | disposition | what it is |\n|---|---|---|---|---|\n")
    f.write("\n".join(rows) + "\n")
print(len(rows), "changes;", sum(1 for r in rows if "ALARM" in r or "BROKEN" in r), "not quiet")
