#!/usr/bin/env python3
"""Regenerates /verif/MANIFEST.json from the table below (kept in one place so that it always validates)."""
import json
import os
import subprocess

VERIF = os.path.dirname(os.path.dirname(os.path.abspath(__file__)))

CLAIMED = {
    "C08": dict(
        text="TLC model-checks the byte-queue reference (ByteQueue.tla) and the implementation-shaped BufferImpl.tla "
             "(every branch of every Buffer operation, refinement + terminator + touch-inside-range invariants); every "
             "edge of that state graph and seeded random histories are executed on the real Buffer under ASan with guard "
             "bytes, and every recorded step is validated by TLC against ByteQueue.",
        ref="5/C08", technique="TLA+ refinement model checking (TLC) + state-graph replay + TLC trace validation",
        note="Trusts TLC, the driver's projection (bytes/size/owns/terminator/guards), ASan for out-of-range access; sizes <= 9."),
    "C12": dict(
        text="TLC model-checks Connections.tla (the connection/emission rule with arbitrarily nested operations) and "
             "CallbackImpl.tla (slot states, dirty flag, activation chain, invalidation, first-match searches as written) "
             "for refinement, bookkeeping agreement and absence of access through destroyed objects; every edge of that "
             "state graph and seeded random nested programs are executed by a re-entrant interpreter on the real Callback "
             "classes under ASan and every event (invocation, return, both sides' bookkeeping at quiescent points) is "
             "validated by TLC against Connections (set-of-states trace validation because Layer 1 is nondeterministic).",
        ref="5/C12", technique="TLA+ refinement model checking (TLC) + state-graph replay through re-entrant interpreter + TLC trace validation",
        note="Trusts TLC, the interpreter, the bookkeeping projection read through the access override, ASan; bounds: <=3 emitters x 2 signals, <=4 listeners x 2 slots, nesting <= 6."),
    "C13": dict(
        text="TLC model-checks ClientWriteImpl.tla (write / write-ready / read-ready / suspend / resume / closing branches of "
             "Server.cpp against an OS whose send may refuse, take part, take all or fail) for refinement of ByteStream.tla "
             "(accepted = wire + backlog, order, onWrite after drain, no onRead while suspended); every edge of that state "
             "graph and seeded random histories (1-2 clients, nested writes in callbacks) run on the real Server over a "
             "scripted OS shim (send/epoll_wait/clock interposed; the shim filters real readiness, never invents it) and every "
             "call, intercepted send, peer read and callback is validated by TLC against ByteStream.",
        ref="5/C13", technique="TLA+ refinement model checking (TLC) + state-graph replay over scripted OS shim + TLC trace validation",
        note="Trusts TLC, the OS shim (send outcomes W/F/P k/E/Z; real socketpair), the stream numbering of the harness; write sizes <= 40, <= 2 clients."),
    "C14": dict(
        text="TLC model-checks RunLoopImpl.tla (timer multimap with re-queue-before-callback, removal search, creation/removal "
             "inside callbacks, coincident due times of 5 timers) for refinement of LoopAbs.tla (activation only when due, in due "
             "order, once per interval, never after remove; callbacks only for live, registered clients; onClosed after a failed "
             "read/write; run returns only on interrupt); every edge of those graphs, the client behaviours of ClientWriteImpl and "
             "seeded random histories (timers, clients, interrupts, nested operations in callbacks) run on the real Server over the "
             "OS shim with a virtual clock; listeners (connections from harness sockets) and establishers (connects to harness "
             "listeners) are created, made ready and removed - also from inside callbacks; every activation, callback, poll and return "
             "of run() is validated by TLC against LoopAbs. interrupt() from 1-3 other threads racing with run(): TLC model "
             "InterruptImpl (never more returns than requests; every run returns) whose schedules, plus random and PCT schedules, "
             "drive the real Server under the cooperative scheduler, validated against InterruptAbs.",
        ref="5/C14", technique="TLA+ refinement model checking (TLC) + state-graph replay over OS shim with virtual clock + TLC trace validation",
        note="Trusts TLC, the OS shim (filters real epoll readiness, virtual CLOCK_MONOTONIC), the callback action queue of the harness, the scheduler shim; <= 6 timers, <= 3 clients, 2 listeners, 2 establishers; host-name resolution (Future based) not driven."),
    "C11": dict(
        text="TLC model-checks PrimsImpl.tla - the code of Mutex/Semaphore/Signal/Monitor over a pthread model with recursive "
             "mutexes, spurious condition wake-ups and time-outs firing at any moment - for 11 scenario programs of 3-4 threads (Signal with the generation counter of its repair, FixSignalGen; SetReleasesAll): "
             "safety invariants and termination (= no waiter stays blocked) under strong fairness with unfair spurious wake-ups. "
             "The state graphs yield schedules that the REAL threads follow through a cooperative scheduler whose pthread shim "
             "implements the same model; seeded random terminating programs run under random schedules; every call/return event "
             "is validated by TLC against PrimsAbs (windowed linearisation rules for mutual exclusion, tryLock, semaphore "
             "conservation, manual-reset semantics incl. 'set releases all current waiters' (the scheduler reports who is blocked when set() is called), Monitor waits <= sets, time-outs, join result, failed / repeated Thread::start with an injected thread-creation failure, semaphore waits interrupted by a signal); every schedule with <= 2-3 preemptions of the scenario and directed programs is enumerated; deadlock / no termination "
             "under the fair tail / use of destroyed primitives are violations.",
        ref="5/C11", technique="TLA+ model checking incl. liveness (TLC) + schedule replay through cooperative scheduler + TLC trace validation",
        note="Trusts TLC, the scheduler/pthread shim (harness/sched), sequential consistency at yield-point granularity; 2-5 threads, programs <= 6 calls."),
    "C07": dict(
        text="TLC model-checks VariantValues.tla (3 Variant variables over abstract value trees: last-assigned, copy-equal, "
             "independence, conversions on a small numeric domain) and CowVariantImpl.tla (inline scalar / shared null / "
             "ref-counted heap blocks, clone-on-mutable-access, release by type; invariants ref = holders, no use after release, "
             "refinement); every edge of that state graph and seeded random histories run on three real Variants under ASan and "
             "every step (value trees, getType, 7 conversions, 3x3 equality matrix) is validated by TLC against VariantValues. One recorded finding (KNOWN_FINDINGS.jsonl, key Variant.heldapp: a mutable accessor's result kept across a copy) is exercised and reported as KNOWN-FINDING.",
        ref="5/C07", technique="TLA+ refinement model checking (TLC) + state-graph replay + TLC trace validation",
        note="Numbers limited to |n| <= 2^31-1 and halves; 64-bit extremes / double->text only smoke-tested (not claimed); cross-type equality and non-canonical numerals left open in Layer 1."),
    "C17": dict(
        category="other",
        text="Executable specification: FIPS 180-4 SHA-256 and RFC 2104 HMAC written out in TLA+ (16-bit limb arithmetic), validated "
             "at start-up against the FIPS and RFC 4231 vectors; Sha256Stream.tla models update/finalize/reset as transcribed from "
             "Sha256.cpp with abstract block sizes and TLC checks the prefix/padding invariants and 'every finalize = "
             "Blocks(Pad(message))' (chunking independence, reuse). The driver hashes every message length 0..130 (thorough 0..320) "
             "under all two-way and sampled three-way chunkings with one reused hasher and HMACs over key lengths across the block "
             "size (also in place, the result array inside the message buffer); TLC recomputes each reference digest and compares every logged digest. Messages of 2^29..2^61 bytes (padding and 64-bit "
             "length field) are covered by HashFrom(S, count, tail): the byte counter is injected into a fresh hasher (quick) or reached by "
             "really hashing 512 MiB / 4 GiB (thorough) and TLC continues from the logged chaining value.",
        ref="5/C17", technique="executable TLA+ specification evaluated by TLC + trace validation of real digests; TLC model of the streaming state machine",
        note="Message content from a spec-defined LCG; lengths beyond ~20,000 bytes and the 2^29-byte length-field boundary not reached."),
    "C18": dict(
        category="other",
        text="Executable specification: UTF-8 encode/decode (TLC checks Decode(Encode(cp)) = cp on all 1,114,112 code points), RFC 4648 "
             "Base64, decimal conversion on 16-bit limb vectors and hex in TLA+; the driver runs Unicode::toString/fromString/length/"
             "isValid on every code point and all byte strings of length <= 3 on exact-size heap buffers under ASan/UBSan, the "
             "integer conversions on all boundary values of all four types, fromHex, and fromBase64 on all encodings of <= 3 bytes "
             "plus hostile length-4 strings; TLC validates every batch against the spec functions (Layer 1 = what the property "
             "promises; implementation-shaped expectations only count as drift).",
        ref="5/C18", technique="executable TLA+ specification evaluated by TLC + exhaustive/sampled trace validation; ASan/UBSan for the bounds clause",
        note="isValid is a structural check per Unicode.hpp (overlongs / > U+10FFFF left open); toX on non-canonical text and double conversions not decided."),
    "C19": dict(
        text="TLC checks Path.tla (lexical meaning of paths; reference relative path exists iff lexically possible) and FsModel.tla "
             "(directories, files, symlinks to an outside tree, one File handle; action properties FailUnchanged, CreateIff, "
             "UnlinkExact, ReadBack, NoNewFileOnFail for copies under a file-size limit; copy of a file onto itself; create of the root and of three threads at once) exhaustively; every path string of length <= 6 and every pair of length <= 3 goes through the "
             "real path functions and every edge of the FS state graphs plus random histories is replayed in a scratch directory "
             "under /verif/build with a sentinel outside tree; every step logs result + snapshots of both trees and is validated by "
             "TLC against the Layer-1 trace specs.",
        ref="5/C19", technique="TLA+ model checking (TLC) + state-graph replay on a real scratch file system + TLC trace validation",
        note="The kernel's file system is trusted; operations through directory symlinks, copy/rename onto itself and rename of directories with failIfExists are left open."),
    "C20": dict(
        text="TLC checks GetoptImpl.tla (the read/nextChar cursor machine of Process::Arguments: cursor never beyond the terminator, "
             "refinement of Getopt.tla = POSIX getopt_long conventions, termination) on all vectors of <= 2 words of <= 3-4 characters "
             "and 3 words of <= 2; the same vectors run on the real Process::Arguments with every string on an exact-size heap block "
             "under ASan; all command lines of length <= 5 (thorough <= 8) over {a, space, quote, backslash} and a matrix of spawn "
             "requests (forms x stream masks x 4 environments incl. empty and '='-containing values x exit codes x payload sizes around the pipe capacity) pairs of children alive at the same time, a join before the child's output, a multiplexed read after a select time-out go through the real "
             "Process into an echo child; option sequences, echoed argv/env, exit codes and stream contents are validated by TLC "
             "against Getopt / CmdLine / Spawn.",
        ref="5/C20", technique="TLA+ refinement model checking (TLC) + exhaustive replay of argument vectors / command lines + TLC trace validation",
        note="Quoting rules undocumented in Process.hpp: only lines of the documented form are judged beyond termination; long-option abbreviations not tested."),
    "C15": dict(
        text="TLC checks JsonStrip.tla (comment stripper as a byte-at-a-time machine on ALL inputs of length <= 6/7 over {/,*,quote,"
             "backslash,LF,a}), JsonSyntax.tla (value trees, round-trip property) and JsonLexImpl.tla (micro-step acceptor mirroring "
             "the tokenizer/parser of Json.cpp: cursor inside the text, no overrun, termination, error position inside the text); "
             "every strip input, every enumerated tree (real toString then real parse), one shortest input per acceptor transition, "
             "depth-1000 nestings and seeded random/truncated/mutated texts run on the real code from exact-size heap copies under "
             "ASan with a watchdog (one parser object and one result Variant per execution, every third round trip with the text owned by the result); TLC validates every logged outcome against the Layer-1 trace specs.",
        ref="5/C15", technique="TLA+ model checking (TLC) + transition-covering input generation + TLC trace validation; ASan for the bounds clause",
        note="Which texts are accepted is Layer 2 only (drift); doubles/unsigned not in the round trip; alphabets of 8-13 symbols exhaustively, arbitrary bytes only sampled."),
    "C16": dict(
        text="TLC checks XmlSyntax.tla (element trees, round-trip), XmlValue.tla (value semantics / copy independence of three "
             "Xml::Variant slots) and XmlLexImpl.tla (micro-step acceptor of Xml.cpp incl. comment skipping, PI loop, content loop "
             "with its rewind, entity unescape; invariants cursor inside, progress per content-loop pass, termination, error "
             "position inside the text); every enumerated tree (real toString then parse, also re-rendered with comments/PIs/"
             "entities), one shortest input per acceptor transition, depth-1000 nestings, random texts and every edge of the "
             "XmlValue graph run on the real code under ASan/UBSan with a watchdog (one parser and one target element per execution, texts that do not start with a token, text owned by the target); TLC validates every logged outcome.",
        ref="5/C16", technique="TLA+ model checking (TLC) + transition-covering input generation + state-graph replay + TLC trace validation",
        note="Accepted language is Layer 2 only; a comment directly after a name without white space is not demanded; 7-12 symbol alphabets exhaustively."),
    "C09": dict(
        text="TLC model-checks RefCountImpl.tla - the reference-count protocol of String / Variant (copy shares, write clones unless "
             "sole owner) and RefCount::Ptr (assignment, self-assignment, swap, reset, destruction) at the granularity of the atomic "
             "operations - for multi-thread programs over distinct handles to common payloads: never touched after release, released "
             "exactly once and only after the last handle, in-place write only by the sole owner, termination. The state graphs give "
             "schedules which the REAL classes follow under the cooperative scheduler (the NSTD_VERIF hook in Atomic.hpp makes every "
             "atomic access a scheduling point); random programs of 2-4 threads (assignment, self-assignment, append, in-place trim / shrink / "
             "upper case, mutable accessors, clear, swap, destruction; payload kinds: String, Variant holding a string, Variants sharing an "
             "Array / List / HashMap, Xml::Variant text / element, RefCount::Ptr) run under random schedules. Handle values after every "
             "operation and pointee destructions are validated by TLC against RefHandles; ASan / LeakSanitizer observe use-after-"
             "release, double release and leaks. In addition Apalache discharges an inductive invariant of the abstract protocol "
             "(spec/conc/apalache/RefCountInd.tla: Init => IndInv, IndInv /\\ Next => IndInv', IndInv => Safety) for behaviours of "
             "any length with 3 threads x 2 payloads.",
        ref="5/C09", technique="TLA+ model checking (TLC) + Apalache inductive invariant + schedule replay through cooperative scheduler with atomic-access hooks + TLC trace validation",
        note="Sequential consistency at the granularity of atomic accesses; plain reads of the counter are not scheduling points; the Layer-2 model is that of String / Variant / Ptr - the container and Xml::Variant kinds reuse its schedules."),
    "C10": dict(
        text="TLC model-checks FuturePoolImpl.tla (PlusCal transcription of src/Future.cpp: lock-free ring with per-slot sequence "
             "numbers and CAS retry, FastSignal, worker loop, ThreadPool::run with back-pressure, racy counters, spawn/retire under "
             "the mutex, start/join) over all interleavings for 1-2 clients with queue capacity 1-2 (thorough: 2 clients x 2 futures on one slot with one worker, the smallest configuration with two clients blocked on a full queue): every call executed exactly "
             "once, join only after completion, ring never overflows, every join eventually returns under fairness. Its state graphs "
             "give schedules that the REAL Future/pool follows under the cooperative scheduler (NSTD_VERIF hooks: every atomic access, "
             "protocol read and pthread call is a scheduling point; pool size and queue capacity overridden to 1-4); random and PCT "
             "schedules cover 1-3 clients x 1-3 futures with restart / abort / idle-retirement variants, heap futures destroyed "
             "right after join, futures with a heap-owning result destroyed without join (the destructor is the join) and a failed thread creation before two calls; every start() overload (22) is called once with checked arguments and results; the pool's FastSignal is also run on its own (judged as a manual-reset event by PrimsAbs); every schedule with at most 1-3 preemptions of small FastSignal programs and small pool configurations is enumerated (preemption-bounded exploration). start/exec/done/join events are validated by TLC against FutureAbs; deadlock, non-termination, "
             "any pthread call on a destroyed primitive and sanitizer reports are violations.",
        ref="5/C10", technique="TLA+ model checking incl. liveness (TLC, PlusCal) + schedule replay through cooperative scheduler with hooks + TLC trace validation",
        note="Sequential consistency at scheduling-point granularity; configurations beyond 2 clients x 2 futures only by random / PCT / preemption-bounded schedules; the pool constants are reduced through the NSTD_VERIF hook (capacity 1-4, 1-3 workers)."),
    "C01": dict(
        text="TLC model-checks OrderedMap.tla (reference sorted (multi)map incl. hinted inserts, returned iterators and the "
             "comparison bound 2*floor(1.4405*log2(n+2)) from an exact integer table) and AvlImpl.tla (branch-by-branch "
             "transcription of Map.hpp / MultiMap.hpp: descent, threaded list, all five removal cases, both rebalance loops, the "
             "four rotations, hinted-insert branches, find/count, copy loops; invariants BST order, balance, stored heights, parent "
             "and thread links, lookup bound, refinement); every edge of the state graphs (Map keys 1..6/8 quick, 1..9/11 thorough; "
             "MultiMap <= 6/9 entries over 3 keys) and seeded random histories with up to 2000 keys run on the real classes; every "
             "step (projection, returned iterator, count/contains, find of every present key with its comparison count) is "
             "validated by TLC against OrderedMap; node-for-node shape is compared with AvlImpl as drift only.",
        ref="5/C01", technique="TLA+ refinement model checking (TLC) + state-graph replay + TLC trace validation",
        note="Trusts TLC, the driver projection (diff-encoded for large trees), comparison counting in the key type; bound evaluated for n <= 2048."),
    "C02": dict(
        text="TLC model-checks OrderedTable.tla (insertion-ordered unique-key table, per-class insert variants) and "
             "HashChainsImpl.tla (bucket chains with cell back-pointers, order list with end sentinel, free list / blocks, swap "
             "statement by statement; invariants chain membership on hash % capacity, back-pointer consistency, acyclicity, "
             "refinement) for capacities 1, 2, 3 and 500; every edge of the state graphs is replayed on the real HashMap, HashSet "
             "and PoolMap with an identity hash (controlled collisions) plus random histories over two variables with bucket "
             "counts {1,2,3,7,500}; every event validated by TLC against OrderedTable.",
        ref="5/C02", technique="TLA+ refinement model checking (TLC) + state-graph replay + TLC trace validation",
        note="Identity hash only (String hash not exercised); Layer 2 covers <= 4 live items (one block), more only by random histories."),
    "C03": dict(
        text="TLC model-checks RefSeq.tla (reference sequence with designated ids for returned iterators; sort = ascending "
             "permutation), ArrayImpl.tla (block, capacity rule, shifting removal, copy/assign) and ListSortImpl.tla (the in-place "
             "quicksort statement by statement: postcondition, scan pointer bounds, progress, recursion depth <= log2 n + 1) for ALL value sequences of length <= "
             "6/7 over 3-4 values; every Array graph edge, the real List::sort on all sequences of length <= 6/8 over {1,2,3,4}, on monotone and saw-tooth lists of 12000-100000 items in a thread with a 256 KiB stack, and "
             "random histories over List, Array and PoolList (incl. the container itself, its own elements and ranges of them as arguments; pools of 1-, 4- and 5-byte elements) are validated by TLC against RefSeq.",
        ref="5/C03", technique="TLA+ refinement model checking (TLC) + state-graph replay + exhaustive sort inputs + TLC trace validation",
        note="Array::capacity() not judged (statement silent); PoolList::front/back do not compile when instantiated and are not called; List::sort's quadratic time on monotone input is not judged (no complexity clause)."),
    "C06": dict(
        text="TLC model-checks ByteStrings.tla (String variables as byte-sequence values over literal / attached source buffers that "
             "must never change; 44 operation kinds incl. self-arguments and the length-limited / case-insensitive comparisons; independence and algebraic sanity) and CowStringImpl.tla "
             "(representation kinds empty / literal / attached / owned block with capacity and reference count; detach with its "
             "in-place condition, copy / assignment, C-string view, append / prepend as written; invariants ref = holders, no "
             "dangling block, temporaries dead, capacity, terminator, external memory untouched, refinement); every edge of the "
             "state graphs and seeded random histories over 3 variables and 2 exact-size external blocks run on real Strings "
             "under ASan; every step (all variables' bytes, lengths, results, external buffers) validated by TLC against ByteStrings.",
        ref="5/C06", technique="TLA+ refinement model checking (TLC) + state-graph replay + TLC trace validation",
        note="Strings <= 48 bytes; Layer 2 for 2-3 variables with <= 2 bytes; raw-pointer aliasing into the String itself, empty needle for find(str,start), NUL separators excluded."),
    "C04": dict(
        text="Lifetime.tla states the ghost property over the element registry (every instance constructed once and destroyed "
             "once, never touched afterwards; live instances = exactly those the containers hold; nothing live after all "
             "containers are destroyed; copies get fresh instances with equal values; self-forms behave as if the argument had been "
             "copied first; only Array may relocate). TLC checks a constructive reference model (LifetimeModel, 10 seeded-bug "
             "configurations must each be rejected) and every edge of the Layer-1 graphs (which contain every self-argument form) "
             "and of the Layer-2 graphs of C01-C03 (AvlImpl, HashChainsImpl, ArrayImpl) plus random histories with self-arguments, "
             "copy/assign followed by mutation, clear and destruction are executed on all eight container types with Tracked "
             "elements under ASan/LSan/UBSan; every step is validated by TLC against the functional spec with strict identities and "
             "against Lifetime (registry balance, freshness, quiescence).",
        ref="5/C04", technique="TLA+ model checking (TLC) + state-graph replay + TLC trace validation of registry observations; ASan/LSan",
        note="Per-step created/destroyed sets are judged arithmetically plus serial freshness (driver temporaries enter the counters); leaks are attributed to the last execution of a batch."),
    "C05": dict(
        text="Stability.tla states address and iterator stability over the same observations: while an instance lives its address id "
             "never changes, iterators kept since insertion still designate the same instance, swap exchanges holders without "
             "changing an address, PoolList / PoolMap never copy (copy counter unchanged). The Layer-1 and Layer-2 graphs of C01-C03 "
             "(rotations, chain unlinks, list relinking) and random histories are executed on List, Map, MultiMap, HashMap, HashSet, "
             "PoolList and PoolMap; every step is validated by TLC (Array excluded: it may relocate).",
        ref="5/C05", technique="TLA+ model checking (TLC) + state-graph replay + TLC trace validation of address / iterator observations",
        note="Addresses abstracted to first-seen ids per execution; List::sort is judged by instance (values move between nodes, nodes stay)."),
}

PENDING_REASON = "check being built (builder still working on the lifetime / address-stability trace specifications over the C01-C03 drivers);  of /verif (planned: see DESIGN.md section 5); not claimed until its machinery runs"


def main():
    props = [json.loads(l)["id"] for l in open(os.path.join(VERIF, "properties.jsonl")) if l.strip()]
    try:
        commits = subprocess.check_output(["git", "-C", "/repo", "log", "--format=%h %s"], text=True).splitlines()
    except Exception:
        commits = []
    hook_commits = [c.split()[0] for c in commits if c.split(" ", 1)[1].startswith("verif-hook:")]
    checks = []
    for pid in props:
        if pid not in CLAIMED:
            continue
        c = CLAIMED[pid]
        checks.append({
            "property_id": pid,
            "quick_cmd": "./check %s quick" % pid,
            "thorough_cmd": "./check %s thorough" % pid,
            "evidence_file": "evidence/%s.json" % pid,
            "replay_cmd_template": "./check %s --replay {path}" % pid,
            "engine": "tlc",
            "level_claimed": {"category": c.get("category", "model_checking"), "text": c["text"], "design_ref": c["ref"]},
            "level_note": c["note"],
            "technique": c["technique"],
        })
    m = {
        "version": 1,
        "setup_cmd": "python3 tools/setup.py",
        "hooks": {
            "guard": "NSTD_VERIF",
            "enable": "harness binaries compile /repo/src/*.cpp and the headers directly with -DNSTD_VERIF (tools/vlib.py build())",
            "baseline_off_cmd": "cmake -G Ninja -B /repo/_build -S /repo && cmake --build /repo/_build && ctest --test-dir /repo/_build -j8 --timeout 900",
            "source_commits": hook_commits,
            "add_only": True,
        },
        "engines": [{"name": "tlc", "path": "/opt/veriftools/tla/tla2tools.jar", "serves_properties": sorted(CLAIMED.keys()),
                     "kind_free_text": "TLC 1.8.0 explicit-state model checker: model checking of the TLA+ specs in spec/ and validation of implementation traces"}],
        "checks": checks,
        "not_applicable": [{"property_id": p, "reason": PENDING_REASON} for p in props if p not in CLAIMED],
        "notes": "All checks: ./check <ID> quick|thorough; VERIF_SEED seeds generators; known findings in KNOWN_FINDINGS.jsonl.",
    }
    with open(os.path.join(VERIF, "MANIFEST.json"), "w") as f:
        json.dump(m, f, indent=1)
        f.write("\n")


if __name__ == "__main__":
    main()
