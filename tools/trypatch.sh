#!/bin/sh
# usage: trypatch.sh <patch.diff> <ID> [tier]   - run one check against a scratch worktree with the patch applied (no ctest, nothing recorded)
P=$1; ID=$2; TIER=${3:-quick}
D=$(mktemp -d /tmp/verif-try-XXXXXX)
git -C /repo worktree add --detach $D/wt HEAD >/dev/null 2>&1 || exit 2
git -C $D/wt apply $P || { git -C /repo worktree remove --force $D/wt; rm -rf $D; exit 2; }
VERIF_REPO=$D/wt VERIF_BUILD=$D/vbuild VERIF_EVIDENCE=$D/ev /verif/check $ID $TIER 2>&1 | grep -E "^(OK|VIOLATION|--- violation|BROKEN|KNOWN)" | cut -c1-220 | head -12
git -C /repo worktree remove --force $D/wt; rm -rf $D
