"""C07 - Variant keeps the last assigned value with independent lazy copies."""
import os
import vlib

SPECDIR = os.path.join(vlib.SPEC, "values")


def build():
    return vlib.build("drv_variant", ["variant/drv_variant.cpp"], ["src/Variant.cpp", "src/String.cpp", "src/Memory.cpp"])


# ---------------------------------------------------------------------------------------------
# value literals: python tuples (tag, payload) <-> driver tokens

def hx(bs):
    return "".join("%02x" % b for b in bs)


def lit_text(v):
    """value tree (as parsed from a TLA+ tuple or generated here) -> literal tokens of the driver"""
    t = v[0]
    if t == "null":
        return "n"
    if t == "bool":
        return "b1" if v[1] else "b0"
    if t in ("int", "uint", "i64", "u64", "dbl"):
        return {"int": "i", "uint": "u", "i64": "l", "u64": "m", "dbl": "d"}[t] + str(v[1])
    if t == "str":
        return "s" + hx(v[1])
    if t in ("list", "arr"):
        return " ".join([("L" if t == "list" else "A") + str(len(v[1]))] + [lit_text(e) for e in v[1]])
    if t == "map":
        return " ".join(["M" + str(len(v[1]))] + ["x" + hx(k) + " " + lit_text(e) for k, e in v[1]])
    raise ValueError("bad value %r" % (v,))


def nodes(v):
    if v[0] in ("list", "arr"):
        return 1 + sum(nodes(e) for e in v[1])
    if v[0] == "map":
        return 1 + sum(nodes(e) for _, e in v[1])
    return 1


INTS = [0, 1, -1, 2, 7, 10, -10, 2147483647, -2147483647, 1073741823, 1073741824, -1073741824, 123456789, 999999999, 1000000000]
NATS = [n for n in INTS if n >= 0]
DBLS = [0, 1, -1, 2, 3, -3, 4, -4, 5, 2147483647, -2147483647, -2, 21, 200]
STRS = [b"", b"0", b"1", b"12", b"-3", b"true", b"false", b"abc", b"1.5", b"-0.5", b"2.0", b"00", b" 1", b"1e3", b"999999999",
        b"1234567890", b"0.0", b"-0", b"+1", b"True", b"7", b"10", b"-10", b"2147483647", b"0.5", b"x", b"-", b".5", b"1.50", b"01"]
KEYS = [b"a", b"b", b"k1", b"", b"zz"]


def rand_scalar(rng):
    k = rng.random()
    if k < 0.06:
        return ("null",)
    if k < 0.14:
        return ("bool", rng.random() < 0.5)
    if k < 0.30:
        return ("int", rng.choice(INTS))
    if k < 0.38:
        return ("uint", rng.choice(NATS))
    if k < 0.46:
        return ("i64", rng.choice(INTS))
    if k < 0.54:
        return ("u64", rng.choice(NATS))
    if k < 0.68:
        return ("dbl", rng.choice(DBLS))
    return ("str", list(rng.choice(STRS)))


def rand_value(rng, depth):
    """value tree of container depth <= depth"""
    if depth == 0 or rng.random() < 0.45:
        return rand_scalar(rng)
    n = rng.choice([0, 1, 1, 2, 2, 3])
    kind = rng.choice(["list", "arr", "map"])
    if kind == "map":
        keys = rng.sample(KEYS, min(n, len(KEYS)))
        return ("map", [(list(k), rand_value(rng, depth - 1)) for k in keys])
    return (kind, [rand_value(rng, depth - 1) for _ in range(n)])


def rand_exec(rng, nops, maxnodes=40):
    ops = []
    size = {1: 1, 2: 1, 3: 1}          # upper bound of the number of tree nodes of each variable
    for _ in range(nops):
        i = rng.randint(1, 3)
        j = rng.randint(1, 3)
        k = rng.random()
        if k < 0.10:
            v = rand_value(rng, 2)
            ops.append("ctor %d %s" % (i, lit_text(v)))
            size[i] = nodes(v)
        elif k < 0.20:
            v = rand_value(rng, 2)
            ops.append("assign %d %s" % (i, lit_text(v)))
            size[i] = nodes(v)
        elif k < 0.28:
            ops.append("copy %d %d" % (i, j))
            size[i] = size[j]
        elif k < 0.36:
            ops.append("asg %d %d" % (i, j))
            size[i] = size[j]
        elif k < 0.38:
            ops.append("clear %d" % i)
            size[i] = 1
        elif k < 0.42:
            ops.append("swap %d %d" % (i, j))
            size[i], size[j] = size[j], size[i]
        elif k < 0.52:
            ops.append("%s %d" % (rng.choice(["mlist", "marr", "mmap", "mstr"]), i))
        elif k < 0.64:
            v = rand_value(rng, 1)
            op = rng.choice(["applist", "apparr", "mapset"])
            if size[i] + nodes(v) > maxnodes:
                continue
            ops.append("%s %d %s%s" % (op, i, ("x" + hx(rng.choice(KEYS)) + " ") if op == "mapset" else "", lit_text(v)))
            size[i] += nodes(v)
        elif k < 0.68:
            ops.append("appstr %d x%s" % (i, hx(rng.choice([b"1", b"0", b".5", b"a", b"-", b"5"]))))
        elif k < 0.76:
            if i == j or size[i] + size[j] > maxnodes:
                continue
            if rng.random() < 0.08:       # a mutable accessor's result kept across a copy (a recorded finding, see KNOWN_FINDINGS.jsonl)
                ops.append("heldapp %d %d i1" % (i, j))
                size[j] = size[i]; size[i] += 1
                continue
            op = rng.choice(["applistv", "apparrv", "mapsetv"])
            ops.append("%s %d %d%s" % (op, i, j, (" x" + hx(rng.choice(KEYS))) if op == "mapsetv" else ""))
            size[i] += size[j]
        elif k < 0.82:
            ops.append("%s %d" % (rng.choice(["in_mlist", "in_marr", "in_mmap", "in_mstr"]), i))
        elif k < 0.90:
            v = rand_value(rng, 1)
            op = rng.choice(["in_applist", "in_apparr", "in_mapset"])
            if size[i] + nodes(v) > maxnodes:
                continue
            ops.append("%s %d %s%s" % (op, i, ("x" + hx(rng.choice(KEYS)) + " ") if op == "in_mapset" else "", lit_text(v)))
            size[i] += nodes(v)
        elif k < 0.92:
            ops.append("in_appstr %d x%s" % (i, hx(rng.choice([b"1", b"0", b".5", b"a"]))))
        elif k < 0.99:
            ops.append("%s %d %d" % (rng.choice(["get", "getc"]), i, j))
            size[i] = max(size[i], size[j])
        else:
            ops.append("smoke %d" % rng.randint(0, 11))
    return ops


def key_of(ops, step):
    """Signature of a failing step: the operation, whether it is an assignment of a variable from its own element, and
    whether an Array value has been involved so far (literal, toArray() access or append)."""
    if not (0 < step <= len(ops)):
        return "Variant.?"
    t = ops[step - 1].split()
    op = t[0]
    key = "Variant." + op
    if op == "heldapp":
        return key
    if op == "get" and len(t) > 2 and t[1] == t[2]:
        return key + ":self"
    arr = any(o.startswith(("marr", "apparr", "in_marr", "in_apparr")) or any(x.startswith("A") for x in o.split()[1:])
              for o in ops[:step])
    if arr:
        key += ":arr"
    return key


def check_executions(ctx, binary, executions, tag, batch=None, keep_trace=False):
    """driver -> ndjson trace -> TLC trace specification; large sets go in batches (trace files are ~1 KB per op)"""
    if batch is None or len(executions) <= batch:
        r = vlib.check_executions(ctx, binary, executions, tag, SPECDIR, "VariantValuesTrace", "VariantValuesTrace.cfg", key_of)
        if not keep_trace:
            _rm(os.path.join(ctx.work, "trace_%s.ndjson" % tag))
        return r
    for n, k in enumerate(range(0, len(executions), batch)):
        t = "%s_%d" % (tag, n)
        vlib.check_executions(ctx, binary, executions[k:k + batch], t, SPECDIR, "VariantValuesTrace", "VariantValuesTrace.cfg", key_of)
        _rm(os.path.join(ctx.work, "trace_%s.ndjson" % t))


def _rm(p):
    try:
        os.remove(p)
    except OSError:
        pass


def label_to_op(name, args):
    """IDo("applist", 1, 0, <<"int", 1>>, <<>>) -> 'applist 1 i1'"""
    op, i, j, x, key = args
    if op in ("ctor", "assign"):
        return "%s %d %s" % (op, i, lit_text(tree(x)))
    if op == "get":
        global _getflip
        _getflip = not globals().get("_getflip", False)      # every other get goes through the container-valued assignment (getc)
        return "%s %d %d" % ("getc" if _getflip else "get", i, j)
    if op in ("copy", "asg", "swap", "applistv", "apparrv"):
        return "%s %d %d" % (op, i, j)
    if op == "mapsetv":
        return "%s %d %d x%s" % (op, i, j, hx(key))
    if op in ("applist", "apparr", "in_applist", "in_apparr"):
        return "%s %d %s" % (op, i, lit_text(tree(x)))
    if op in ("mapset", "in_mapset"):
        return "%s %d x%s %s" % (op, i, hx(key), lit_text(tree(x)))
    if op in ("appstr", "in_appstr"):
        return "%s %d x%s" % (op, i, hx(key))
    return "%s %d" % (op, i)


def tree(x):
    """parsed TLA+ tuple -> value tree used by lit_text"""
    t = x[0]
    if t in ("list", "arr"):
        return (t, [tree(e) for e in x[1]])
    if t == "map":
        return (t, [(kv[0], tree(kv[1])) for kv in x[1]])
    if t == "null":
        return ("null",)
    return (t, x[1])


ALL_OPS = ["ctor", "assign", "copy", "asg", "clear", "swap", "get", "mlist", "marr", "mmap", "mstr", "applist", "apparr", "mapset",
           "appstr", "applistv", "apparrv", "mapsetv", "in_mlist", "in_marr", "in_mmap", "in_mstr", "in_applist", "in_apparr",
           "in_mapset", "in_appstr", "heldapp"]


def op_counts(execs):
    c = {}
    for e in execs:
        for o in e:
            k = o.split(" ", 1)[0]
            c[k] = c.get(k, 0) + 1
    return c


def replay_graph(ctx, binary, cfg, tag, timeout, sample=None):
    """TLC explores the Layer-2 model, dumps its state graph; every edge (or a seeded sample of the edge-covering walks)
    is replayed on the real Variants and validated against Layer 1."""
    dot = os.path.join(ctx.work, "cowvariant_%s.dot" % tag)
    r = vlib.tlc(SPECDIR, "CowVariantImpl", cfg, workers=8, timeout=timeout, dump=dot, xmx="6g")
    ctx.add_tlc("CowVariantImpl:" + tag, r)
    if not r.ok:
        return
    walks, nedges = vlib.graph_walks(dot, max_len=120, seed=ctx.seed)
    os.remove(dot)
    total = len(walks)
    if sample is not None and len(walks) > sample:
        walks = ctx.rng.sample(walks, sample)
    execs = [[label_to_op(*st) for st in w] for w in walks]
    ctx.notes["graph_%s" % tag] = {"edges": nedges, "walks": total, "walks_replayed": len(walks),
                                   "ops_replayed": sum(len(e) for e in execs)}
    cnt = op_counts(execs)
    for o in [x for x in ALL_OPS if x != "heldapp"]:          # heldapp exists at Layer 1 only (random histories)
        ctx.cov["graph_%s.%s" % (tag, o)] = cnt.get(o, 0)
        if cnt.get(o, 0) == 0:
            ctx.broken.append("vacuity: the Layer-2 graph %s has no transition for operation %s" % (tag, o))
    check_executions(ctx, binary, execs, "graph_" + tag, batch=3000)


def sensitivity(ctx):
    """The Layer-2 model with the pre-fix behaviour switched on must violate its invariants (else it checks nothing)."""
    for cfg, inv in (("CowVariantImpl_orig_uaf.cfg", "NoUseAfterRelease"), ("CowVariantImpl_orig_arreq.cfg", "EqRefines")):
        r = vlib.tlc(SPECDIR, "CowVariantImpl", cfg, workers=2, timeout=300, xmx="2g")
        ctx.tlc_runs.append(dict(r.summary(), name="sensitivity:" + cfg))
        if not (r.violation and ("Invariant %s is violated" % inv) in r.violation):
            ctx.broken.append("sensitivity: %s does not violate %s: %s" % (cfg, inv, (r.broken or "no violation")[:600]))


def trace_stats(ctx, tag, every=1):
    """vacuity of the random histories: how many observed states are non-trivial"""
    import json
    path = os.path.join(ctx.work, "trace_%s.ndjson" % tag)
    st = {"events": 0, "depth2": 0, "equal_pairs_nonnull": 0, "containers": 0, "strings": 0, "inner_effective": 0}
    if not os.path.exists(path):
        return st

    def depth(v):
        if v[0] in ("list", "arr"):
            return 1 + max([depth(e) for e in v[1]] + [0])
        if v[0] == "map":
            return 1 + max([depth(e[1]) for e in v[1]] + [0])
        return 0
    prev = None
    with open(path) as f:
        for n, line in enumerate(f):
            if n % every:
                continue
            e = json.loads(line)
            if e["op"] == "reset":
                prev = None
                continue
            st["events"] += 1
            vs = e["v"]
            if any(depth(v) >= 2 for v in vs):
                st["depth2"] += 1
            if any(v[0] in ("list", "arr", "map") for v in vs):
                st["containers"] += 1
            if any(v[0] == "str" for v in vs):
                st["strings"] += 1
            if any(vs[a] == vs[b] and vs[a][0] != "null" for a in range(3) for b in range(a + 1, 3)):
                st["equal_pairs_nonnull"] += 1
            if e["op"].startswith("in_") and every == 1 and prev is not None and prev != vs:
                st["inner_effective"] += 1
            prev = vs
    return st


def run(ctx):
    binary = build()
    # 1. the Layer-1 reference itself (bounded): last-assigned value, copy equality, independence
    r = vlib.tlc(SPECDIR, "VariantValues", "VariantValues.cfg" if ctx.quick else "VariantValues_big.cfg", workers=8,
                 timeout=300 if ctx.quick else 1500, xmx="4g")
    ctx.add_tlc("VariantValues", r)
    # 2. Layer 2: the copy-on-write representation refines Layer 1, reference counts are exact, nothing is used after
    #    release; its state graph is dumped and every edge becomes an implementation test (direction A)
    sensitivity(ctx)
    if ctx.quick:
        replay_graph(ctx, binary, "CowVariantImpl_small.cfg", "small", 300)
    else:
        replay_graph(ctx, binary, "CowVariantImpl.cfg", "full", 900)
        # larger bound (non-empty nested containers shared between variables): refinement and structural invariants
        # only -- 6.4 million transitions are not replayed
        r = vlib.tlc(SPECDIR, "CowVariantImpl", "CowVariantImpl_big.cfg", workers=8, timeout=2400, xmx="6g")
        ctx.add_tlc("CowVariantImpl:big", r)
    # integers beyond TLC's 32 bits: type, decimal text, 64-bit conversions, toDouble and copy-equality of boundary and random values
    def wide_line(kind, v):
        v &= (1 << 64) - 1
        return "wide %s %d %d %d %d" % (kind, v & 0xffff, (v >> 16) & 0xffff, (v >> 32) & 0xffff, (v >> 48) & 0xffff)
    wl = []
    edges = [0, 1, 9, 10, 2 ** 31 - 1, 2 ** 31, 2 ** 32 - 1, 2 ** 32, 2 ** 53, 2 ** 53 + 1, 10 ** 18, 2 ** 63 - 1, 2 ** 63, 2 ** 63 + 1, 10 ** 19, 2 ** 64 - 1,
             2 ** 54 + 2, 2 ** 54 + 6, 2 ** 54 + 3, 2 ** 63 + 1024, 2 ** 63 + 3072, 2 ** 63 + 1025, 2 ** 64 - 1024, 2 ** 64 - 1025, 2 ** 62 + 256, 2 ** 62 + 257]   # ties of the integer -> double rounding
    for v in edges:
        wl += [wide_line("u64", v), wide_line("i64", v), wide_line("i64", -v), wide_line("u32", v & 0xffffffff), wide_line("i32", v & 0xffffffff)]
    for _ in range(60 if ctx.quick else 3000):
        v = ctx.rng.getrandbits(ctx.rng.choice([8, 31, 32, 33, 40, 62, 63, 64]))
        wl.append(wide_line(ctx.rng.choice(["u64", "i64", "u64", "i64", "u32", "i32"]), v))
    vlib.check_executions(ctx, binary, [wl[k:k + 50] for k in range(0, len(wl), 50)], "wide", SPECDIR, "VariantWideTrace", "VariantWideTrace.cfg",
                          lambda ops, step: "Variant.wide:" + (ops[step - 1].split()[1] if 0 < step <= len(ops) else "?"))
    # 3. direction B: random histories over three real Variant variables, validated by TLC against VariantValues
    nexec, nops = (500, 40) if ctx.quick else (6000, 60)
    execs = [rand_exec(ctx.rng, nops) for _ in range(nexec)]
    cnt = op_counts(execs)
    for o in ALL_OPS + ["smoke"]:
        ctx.cov["random." + o] = cnt.get(o, 0)
    check_executions(ctx, binary, execs, "random", keep_trace=True)
    ts = trace_stats(ctx, "random", every=1 if ctx.quick else 7)
    ctx.notes["random_state_stats"] = ts
    if ts["events"] >= 2000 and not ctx.violations and (ts["depth2"] == 0 or ts["equal_pairs_nonnull"] == 0 or ts["containers"] == 0):
        ctx.broken.append("vacuity: random histories reach no nested / shared / container states: %s" % ts)
    ctx.assumptions += ["numbers restricted to |n| <= 2^31-1 and doubles to halves; 64-bit extremes and double->text are "
                        "exercised (smoke op, sanitizers, equal-to-own-copy); for 64-bit integers the wide op decides type, text, "
                        "toInt64 / toUInt64 and toDouble (nearest double, ties to even) - other coerced values are not decided",
                        "coercions taken from Variant.hpp/String.cpp: cross-type equality, string->number for "
                        "non-canonical numerals and negative->unsigned of doubles are not decided",
                        "a mutable reference obtained from an accessor is used immediately (not held across a copy); a "
                        "Variant is never appended to the container it holds itself"]
    return vlib.finish(ctx, "model_checking",
                       "every edge of the CowVariantImpl state graph (TLC) replayed on three real Variant objects + seeded "
                       "random assignment/copy/mutable-access histories; every step (value trees, getType, to* conversions, "
                       "equality matrix) validated by TLC against VariantValues; distinct = distinct op sequences of length >= 2")


def replay(ctx, path):
    binary = build()
    execs = vlib.read_ops_file(path)
    if execs and execs[0] and all(o.startswith("wide") for o in execs[0]):
        vlib.check_executions(ctx, binary, execs, "replay", SPECDIR, "VariantWideTrace", "VariantWideTrace.cfg", lambda ops, step: "Variant.wide")
    else:
        check_executions(ctx, binary, execs, "replay")
    return vlib.finish(ctx, "model_checking", "replay of one op sequence")
