"""C06 - String is an independent byte-string value matching a reference model."""
import os
import re
import vlib
from vlib import hexs

SPECDIR = os.path.join(vlib.SPEC, "values")
NV, NX = 3, 2
GEN_FINDLAST_EMPTY = True      # findLast("") is generated (reference answer: length())

# argument shape of every op:  i k m d n n2  (the op line always carries all six)
VAR_K = {"copy", "assign", "append", "prepend", "compare", "cmpx", "rel", "eq", "starts", "ends", "printf"}
ALPHA = [97, 66, 32, 44, 233, 0]
ALL_OPS = ["lit", "assignlit", "attach", "ctorbuf", "ctorfill", "ctorcap", "copy", "assign", "append", "prepend",
           "appendb", "prependb", "appendc", "clear", "resize", "reserve", "detach", "replacec", "replace", "lower",
           "upper", "trim", "printf", "printfw", "join", "split", "lpush", "cstr", "cstrm", "compare", "cmpx", "rel", "eq",
           "starts", "ends", "findc", "findlastc", "findcs", "find", "finds", "findlast", "findof", "substr", "token", "tokens"]


def build():
    return vlib.build("drv_string", ["string/drv_string.cpp"], ["src/String.cpp", "src/Memory.cpp"])


def line(op, i=1, k=0, m=0, d=(), n=0, n2=0):
    return "%s %d %d %d %s %d %d" % (op, i, k, m, hexs(d), n, n2)


def rbytes(rng, maxlen=4, nul=0.06):
    n = rng.choice([0, 1, 1, 2, 2, 3, maxlen])
    return [0 if rng.random() < nul else rng.choice(ALPHA[:5]) for _ in range(n)]


def rand_exec(rng, nops):
    ops = []
    # external blocks: 1 is usually a literal (pad 0), 2 attachable memory whose following byte is 0 or not
    extlen = {}
    for j in (1, 2):
        d = rbytes(rng, 6, nul=0.03)
        pad = 0 if (j == 1 and rng.random() < 0.8) or (j == 2 and rng.random() < 0.4) else 35
        extlen[j] = len(d)
        ops.append(line("ext", j, d=d, n=pad))
    W = [("lit", 5), ("assignlit", 3), ("attach", 9), ("ctorbuf", 4), ("ctorfill", 1), ("ctorcap", 1), ("copy", 6),
         ("assign", 6), ("append", 7), ("prepend", 7), ("appendb", 5), ("prependb", 4), ("appendc", 3), ("clear", 2),
         ("resize", 4), ("reserve", 3), ("detach", 1), ("replacec", 3), ("replace", 8), ("lower", 2), ("upper", 2),
         ("trim", 4), ("printf", 3), ("printfw", 1), ("join", 3), ("split", 4), ("lpush", 2), ("cstr", 4), ("cstrm", 2),
         ("compare", 3), ("cmpx", 4), ("rel", 2), ("eq", 3), ("starts", 3), ("ends", 3), ("findc", 2), ("findlastc", 2),
         ("findcs", 2), ("find", 3), ("finds", 2), ("findlast", 3), ("findof", 3), ("substr", 4), ("token", 3), ("tokens", 3)]
    names = [w[0] for w in W]
    weights = [w[1] for w in W]
    for _ in range(nops):
        op = rng.choices(names, weights)[0]
        i = rng.randint(1, NV)
        k = m = n = n2 = 0
        d = []
        c = rng.choice(ALPHA[:5])
        if op in ("lit", "assignlit"):
            k = rng.randint(1, NX)
        elif op == "attach":
            k = rng.randint(1, NX)
            n = rng.randint(0, extlen[k])
        elif op in VAR_K:
            k = i if rng.random() < 0.3 else rng.randint(1, NV)
            if op == "printf":
                n = rng.choice([0, 7, 42, -3, 1000])
            if op == "cmpx":         # at most n bytes: below, at and beyond the lengths (beyond: the terminator must stop it)
                n = rng.choice([0, 1, 2, 3, 4, 5, 8, 12, 40])
        elif op == "replace":
            k = i if rng.random() < 0.15 else rng.randint(1, NV)
            m = i if rng.random() < 0.2 else rng.randint(1, NV)
        elif op in ("ctorbuf", "appendb", "prependb"):
            d = rbytes(rng)
        elif op in ("trim", "split", "tokens", "find", "finds", "findlast", "findof"):
            d = rbytes(rng, 2, nul=0.0)
            if op == "findlast" and not d and not GEN_FINDLAST_EMPTY:
                d = [c]
            if op == "split":
                n = rng.randint(0, 1)
            if op in ("finds", "findof"):
                n = rng.randint(0, 5)
            if op == "tokens":
                n2 = rng.randint(0, 4)
        elif op == "ctorfill":
            n, n2 = rng.randint(0, 5), c
        elif op in ("ctorcap", "resize", "reserve"):
            n = rng.choice([0, 1, 2, 3, 4, 5, 7, 8, 12])
        elif op in ("appendc", "findc", "findlastc", "join"):
            n = c if rng.random() < 0.9 else 0
        elif op == "replacec":
            n, n2 = c, rng.choice(ALPHA)
        elif op == "findcs":
            n, n2 = c, rng.randint(0, 5)
        elif op == "token":
            n, n2 = c, rng.randint(0, 4)
        elif op == "substr":
            n, n2 = rng.randint(-6, 6), rng.randint(-1, 6)
        elif op == "printfw":
            n, n2 = rng.choice([5, -17]), rng.choice([1, 3, 199, 200, 201, 202, 203, 204, 260])
            if rng.random() < 0.5:
                op = "fprintfw"        # the static String::fromPrintf (same abstract effect; the driver logs it as printfw)
        ops.append(line(op, i, k, m, d, n, n2))
        if op in ("printfw", "fprintfw"):      # the long text (second printf path) is cut down again at once: the reference functions
            ops.append(line("resize", i, n=rng.randint(0, 4)))     # of the trace spec are recursive (depth = length)
    return ops


DEFINES = {"lit", "assignlit", "ctorbuf", "ctorfill", "ctorcap", "copy", "assign", "append", "prepend", "appendb",
           "prependb", "appendc", "clear", "resize", "reserve", "detach", "cstrm", "replacec", "lower", "upper", "printf",
           "printfw", "join"}         # operations after which variable i certainly no longer views attached memory


def key_of(ops, step):
    """Signature of a failing step: operation + self-argument + empty needle + whether one of its String operands
    views attached memory at that point (the last operation that gave it a value was attach)."""
    if not (0 < step <= len(ops)):
        return "String.?"
    att = set()
    for o in ops[:step - 1]:
        t = o.split()
        if t[0] == "attach":
            att.add(t[1])
        elif t[0] in DEFINES:
            att.discard(t[1])
    t = ops[step - 1].split()
    op, i, k, m, d = t[0], t[1], t[2], t[3], t[4]
    key = "String." + op
    operands = {i}
    if op in VAR_K or op == "replace":
        operands.add(k)
    if op == "replace":
        operands.add(m)
    if (op in VAR_K and k == i) or (op == "replace" and (k == i or m == i)):
        key += ":self"
    if op in ("findlast", "find") and d == "x":
        key += ":emptyNeedle"
    if operands & att:
        key += ":attached"
    return key


def check_executions(ctx, binary, executions, tag):
    return vlib.check_executions(ctx, binary, executions, tag, SPECDIR, "ByteStringsTrace", "ByteStringsTrace.cfg", key_of)


def ext_init():
    """The external blocks of the bounded models (ExtInit in ByteStrings.tla) as 'ext' op lines."""
    src = open(os.path.join(SPECDIR, "ByteStrings.tla")).read()
    mm = re.search(r"^ExtInit == <<(.*?)>>\s*(\\\*.*)?$", src, flags=re.M)
    blocks = vlib.parse_tla_value("<<" + mm.group(1) + ">>")
    return [line("ext", j + 1, d=b[:-1], n=b[-1]) for j, b in enumerate(blocks)]


_label_memo = {}


def label_to_op(name, args):
    # vlib.graph_walks shares one parsed object per distinct label: share the op line too (millions of steps)
    key = id(args)
    v = _label_memo.get(key)
    if v is None or v[0] is not args:
        op, i, k, m, d, n, n2 = args
        v = _label_memo[key] = (args, line(op, i, k, m, d, n, n2))
    return v[1]


def count_nops(ctx, tag):
    """vacuity: how many generated operations the driver refused (outside the domain)."""
    p = os.path.join(ctx.work, "trace_%s.ndjson" % tag)
    tot = nop = 0
    per = {}
    try:
        with open(p) as f:
            for ln in f:
                if ln.startswith('{"op":"reset"'):
                    continue
                tot += 1
                op = ln[7:ln.index('"', 7)]
                per[op] = per.get(op, 0) + 1
                if op == "nop":
                    nop += 1
    except OSError:
        pass
    ctx.notes["ops_executed_" + tag] = tot - nop
    ctx.notes["ops_refused_" + tag] = nop
    ctx.notes["op_histogram_" + tag] = per


def run(ctx):
    binary = build()
    # 1. the Layer-1 reference itself (algebra of the reference functions, external memory stable, independence)
    r = vlib.tlc(SPECDIR, "ByteStrings", "ByteStrings_small.cfg" if ctx.quick else "ByteStrings.cfg", workers=4, timeout=900)
    ctx.add_tlc("ByteStrings", r)
    # 2. Layer 2: the copy-on-write representation refines Layer 1; its state graph is dumped and every edge
    #    becomes an implementation test (direction A).  quick: 2 variables, source states with strings <= 1 byte, all
    #    operations; thorough: the same + 2 variables / <= 2 bytes + 3 variables / <= 1 byte (reduced operation sets,
    #    see the Skip constant of the cfg files)
    cfgs = ["CowStringImpl_small.cfg"] if ctx.quick else ["CowStringImpl_small.cfg", "CowStringImpl.cfg", "CowStringImpl_nv3.cfg"]
    pre = ext_init()
    labels = {}
    ctx.notes["graph_edges_replayed"] = 0
    for n, cfg in enumerate(cfgs):
        dot = os.path.join(ctx.work, "cow%d.dot" % n)
        r = vlib.tlc(SPECDIR, "CowStringImpl", cfg, workers=6, timeout=2400, dump=dot, coverage=False, xmx="8g")
        ctx.add_tlc("CowStringImpl/" + cfg, r)
        if not r.ok:
            continue
        walks, nedges = vlib.graph_walks(dot, max_len=120, seed=ctx.seed)
        os.remove(dot)
        execs = [pre + [label_to_op(*st) for st in w] for w in walks]
        ctx.notes["graph_edges_replayed"] += nedges
        for w in walks:
            for st in w:
                labels[st[1][0]] = labels.get(st[1][0], 0) + 1
        del walks
        check_executions(ctx, binary, execs, "graph%d" % n)
        count_nops(ctx, "graph%d" % n)
        # (when the implementation misbehaves its real state leaves the model's, and refusals are a consequence)
        if ctx.notes.get("ops_refused_graph%d" % n) and not ctx.violations and not ctx.known_hits:
            ctx.broken.append("driver refused %d operations generated from the %s state graph (domain of driver and "
                              "specification differ)" % (ctx.notes["ops_refused_graph%d" % n], cfg))
        del execs
    ctx.notes["graph_ops"] = labels
    # 3. direction B: random histories on three real String variables, validated by TLC against ByteStrings
    nexec, nops = (500, 40) if ctx.quick else (20000, 60)
    execs = [rand_exec(ctx.rng, nops) for _ in range(nexec)]
    # directed (round 7): formatted texts around the size of printf's first buffer (200 bytes), through the member printf and
    # through the static fromPrintf (driver op fprintfw, logged as printfw: the abstract effect is the same)
    for opn in ("printfw", "fprintfw"):
        for v in (5, -17):
            e = []
            for w in range(190, 212):
                e += [line(opn, 1 + w % 3, n=v, n2=w), line("copy", 1 + (w + 1) % 3, k=1 + w % 3), line("resize", 1 + w % 3, n=w % 4)]
            execs.append(e)
    check_executions(ctx, binary, execs, "random")
    count_nops(ctx, "random")
    hist = ctx.notes.get("op_histogram_random", {})
    missing = sorted(o for o in ALL_OPS if hist.get(o, 0) == 0)
    if missing and not ctx.violations and not ctx.known_hits:
        ctx.broken.append("vacuous: operations never executed inside the domain by the random histories: %s" % missing)
    return vlib.finish(ctx, "model_checking",
                       "every edge of the CowStringImpl state graph (TLC) replayed on real String objects + seeded random "
                       "op histories over three String variables, two external blocks and a token list; every step "
                       "validated by TLC against ByteStrings; distinct = distinct op sequences of length >= 2")


def selftest(ctx):
    """The Layer-2 model with prepend / replace transcribed as they were before the fixes of findings F7 / F8:
    TLC must report both (RefinementOK for prepend(self), NoErr = strstr past the text for replace)."""
    ok = True
    for cfg, inv in (("CowStringImpl_orig.cfg", "RefinementOK"), ("CowStringImpl_orig_f8.cfg", "NoErr")):
        r = vlib.tlc(SPECDIR, "CowStringImpl", cfg, workers=2, timeout=600)
        hit = bool(r.violation) and ("Invariant %s is violated" % inv) in r.violation
        vlib.log("selftest %s: %s" % (cfg, "TLC reports %s as expected" % inv if hit else "NOT reported"))
        ok = ok and hit
    return 0 if ok else 2


def replay(ctx, path):
    binary = build()
    check_executions(ctx, binary, vlib.read_ops_file(path), "replay")
    return vlib.finish(ctx, "model_checking", "replay of one op sequence")
