"""C11 - Mutex, Semaphore, Signal, Monitor and Thread keep their contracts."""
import os
import vlib

SPECDIR = os.path.join(vlib.SPEC, "conc")
SRCS = ["src/Mutex.cpp", "src/Semaphore.cpp", "src/Signal.cpp", "src/Monitor.cpp", "src/Thread.cpp"]

# the scenario programs of spec/conc/PrimsScenarios.tla (kept in sync by name; the model is the source of the schedules)
SCENARIOS = {
    "sig1": ("signal", 0, [["wait"], ["wait"], ["set"]]),
    "sig2": ("signal", 0, [["wait", "reset"], ["twait"], ["set"]]),
    "sig3": ("signal", 0, [["twait", "wait"], ["set", "reset", "set"], ["wait"]]),
    "mon1": ("monitor", 0, [["mlock", "mwait", "munlock", "mdone"], ["mlock", "mwait", "munlock", "mdone"], ["msetloop"]]),
    "mon2": ("monitor", 0, [["mlock", "mtwait", "munlock", "mdone"], ["mlock", "mwait", "munlock", "mdone"], ["msetloop"], ["mset"]]),
    "mon3": ("monitor", 0, [["mlock", "mtwait", "munlock"], ["mlock", "mtwait", "munlock"], ["mset"]]),
    "sig4": ("signal", 0, [["twait"], ["twait"], ["reset", "set"]]),
    "sig5": ("signal", 0, [["twait"], ["twait"], ["set", "reset"]]),
    "mtx1": ("mutex", 0, [["lock", "lock", "unlock", "tlu", "unlock"], ["tlu", "lock", "unlock"], ["lock", "unlock"]]),
    "sem1": ("sem", 1, [["swait", "ssignal"], ["swait", "ssignal"], ["stwait", "ssignal"]]),
    "sem2": ("sem", 0, [["swait"], ["strywait", "ssignal"], ["stwait", "ssignal"]]),
}
OPMAP = {"swaiti": "waiti", "setafter1": "setafter1", "setafter2": "setafter2", "msetafter1": "msetafter1", "msetafter2": "msetafter2", "msetafter3": "msetafter3", "twait": "twait30", "mtwait": "mtwait20", "swait": "wait", "stwait": "twait40", "strywait": "trywait", "ssignal": "signal"}


def build():
    return vlib.build("scn_prims", ["sched/sched.cpp", "conc/scn_prims.cpp"], SRCS, libs=["-ldl"])


def scenario_args(prim, init, progs, gmtx=0):
    a = ["prim=" + prim, "n=%d" % len(progs), "init=%d" % init] + (["gmtx=1"] if gmtx and prim == "mutex" else [])
    for i, p in enumerate(progs):
        a.append("p%d=%s" % (i + 1, ",".join(OPMAP.get(o, o) for o in p)))
    return a


def token(name, args):
    t = args[0]
    return "%d%s" % (t, {"Step": "", "Spur": "s", "Timeout": "t"}[name])


def rand_programs(rng):
    """Random programs whose termination C11 itself guarantees (see DESIGN 5/C11)."""
    k = rng.random()
    if k < 0.2:
        n = rng.randint(2, 4)
        progs = []
        for _ in range(n):
            p, depth = [], 0
            for _ in range(rng.randint(2, 6)):
                r = rng.random()
                if depth > 0 and r < 0.45:
                    p.append("unlock"); depth -= 1
                elif r < 0.75:
                    p.append("lock"); depth += 1
                else:
                    p.append("tlu")
            p += ["unlock"] * depth
            progs.append(p)
        return "mutex", 0, progs
    if k < 0.4:
        n = rng.randint(2, 4)
        progs = []
        nsig = nwait = 0
        for _ in range(n):
            # every thread posts all its signals first (it can never be blocked before posting), then waits: with
            # init + all signals >= all waits nobody can be starved for good
            sig = rng.randint(0, 2)
            waits = [rng.choice(["swait", "swait", "stwait", "strywait"]) for _ in range(rng.randint(0, 3))]
            nsig += sig
            nwait += len(waits)
            p = ["ssignal"] * sig + waits
            if "swait" not in waits and rng.random() < 0.5:
                rng.shuffle(p)            # a thread that never blocks for good may wait before it signals: timed waits that
                                          # really time out, followed by waits of the same thread that succeed
            progs.append(p)
        init = max(0, nwait - nsig) + rng.randint(0, 1)
        progs = [p for p in progs if p] or [["ssignal"]]
        return "sem", init, progs
    if k < 0.7:
        w = rng.randint(1, 3)
        progs = [[rng.choice(["wait", "twait"])] + (["wait"] if rng.random() < 0.3 else []) for _ in range(w)]
        # the setters end with set and nobody resets after the last set: every waiter returns
        progs.append(rng.choice([["set"], ["reset", "set"], ["set", "reset", "set"]]))
        if rng.random() < 0.3:
            progs.append(["set"])
        if rng.random() < 0.35:
            # all waits timed: any sequence of set / reset terminates - a set() that finds a waiter blocked has to release
            # it even when a reset() follows immediately (manual-reset event: "set releases all current waiters")
            progs = [["twait"] * rng.randint(1, 2) for _ in range(w)]
            progs += [[rng.choice(["set", "reset"]) for _ in range(rng.randint(1, 4))] for _ in range(rng.randint(1, 2))]
        return "signal", rng.randint(0, 1), progs
    if k < 0.9:
        w = rng.randint(1, 3)
        if rng.random() < 0.5:
            # all waiters timed: a fixed number of set() calls suffices for termination
            progs = [["mlock", "mtwait", "munlock"] for _ in range(w)]
            progs += [["mset"] * rng.randint(1, 2) for _ in range(rng.randint(1, 2))]
            return "monitor", 0, progs
        progs = [["mlock", rng.choice(["mwait", "mwait", "mtwait"]), "munlock", "mdone"] for _ in range(w)]
        progs.append(["msetloop"])
        if rng.random() < 0.4:
            progs.append(["mset"])
        return "monitor", 0, progs
    return "thread", 0, [rng.choice([["start", "join"], ["mstart", "join"], ["mstart", "restart", "join"], ["start", "restart", "join"],
                                     ["mstart", "restart", "restart", "join"]]) for _ in range(rng.randint(1, 3))]


def key_of(args, res):
    prim = [a for a in args if a.startswith("prim=")][0][5:]
    return "Prims.%s:%s" % (prim, res)


def check_runs(ctx, binary, runs, tag):
    """runs: list of argument lists.  Executes, judges verdicts, validates the traces with TLC."""
    combined, results = vlib.run_sched_executions(binary, runs, ctx.work, tag)
    ctx.evaluations += sum(r.get("steps", 0) for r in results)
    bad = set()
    for i, r in enumerate(results):
        ctx.drift += r.get("diverged", 0)
        if r["verdict"] != "done":
            bad.add(i)
            rp = ctx.save_replay("%s_%d.args" % (tag, i), [" ".join(runs[i]) + " --sched " + '"%s"' % r.get("choices", "")])
            ctx.report(key_of(runs[i], r["verdict"]), rp, "scheduler verdict %s (%s) for %s\nschedule: %s\n%s" % (
                r["verdict"], r.get("failure", ""), " ".join(runs[i]), r.get("choices", ""), r.get("stderr", "")[-1500:]))
    r, mism, done = vlib.validate_trace(SPECDIR, "PrimsAbsTrace", "PrimsAbsTrace.cfg", combined)
    ctx.add_tlc("trace:" + tag, r, must_pass=False)
    if r.violation or (not done and not r.broken):
        ctx.broken.append("trace validation of %s failed: %s" % (tag, (r.violation or "incomplete")[:800]))
    for line, why in mism:
        for i, res in enumerate(results):
            if res["lines"][0] <= line <= res["lines"][1] and i not in bad:
                bad.add(i)
                rp = ctx.save_replay("%s_%d.args" % (tag, i), [" ".join(runs[i]) + " --sched " + '"%s"' % res.get("choices", "")])
                ctx.report(key_of(runs[i], "layer1"), rp, "Layer-1 mismatch at trace line %d (%s) of %s\nschedule: %s" % (
                    line - res["lines"][0] + 1, why, " ".join(runs[i]), res.get("choices", "")))
    ctx.traces += len(runs) - len(bad)
    for a in runs:
        ctx.distinct.add(hash(tuple(a)))
    if runs:
        ctx.sample({"source": tag, "args": runs[len(runs) // 2]})


def run(ctx):
    binary = build()
    names = sorted(SCENARIOS)
    # Layer 2: every scenario program over the pthread model: safety, and termination under fair scheduling with unfair
    # spurious wake-ups (= no waiter stays blocked); its state graph yields the schedules the real threads are driven through
    for n in names:
        prim, init, progs = SCENARIOS[n]
        dot = os.path.join(ctx.work, n + ".dot")
        r = vlib.tlc(SPECDIR, "PrimsScenarios", "PrimsImpl_%s.cfg" % n, workers=4, timeout=900, dump=dot)
        ctx.add_tlc("PrimsImpl_" + n, r)
        if not r.ok:
            continue
        walks, nedges = vlib.graph_walks(dot, max_len=200, seed=ctx.seed)
        os.remove(dot)
        if ctx.quick and len(walks) > 150:
            rng = ctx.rng
            walks = rng.sample(walks, 150)
        runs = [scenario_args(prim, init, progs) + ["--seed", str(ctx.seed + i), "--spur", "0", "--sched", " ".join(token(*st) for st in w)] for i, w in enumerate(walks)]
        ctx.notes["graph_edges:" + n] = nedges
        check_runs(ctx, binary, runs, "graph_" + n)
    # direction B: random programs x random schedules (spurious wake-ups and time-outs at any moment)
    nrand = 300 if ctx.quick else 6000
    runs = []
    for i in range(nrand):
        prim, init, progs = rand_programs(ctx.rng)
        runs.append(scenario_args(prim, init, progs, gmtx=i % 2) + ["--seed", str(ctx.seed * 100003 + i), "--spur", ctx.rng.choice(["0", "0", "0.05", "0.3"]),
                     "--tout", ctx.rng.choice(["0", "0", "0.1", "0.3"])])      # time-outs may fire although other threads could still run
    check_runs(ctx, binary, runs, "random")
    # histories of ONE thread across several calls: a timed wait that really times out, then waits of the same thread that
    # must succeed (state a call leaves behind - a flag, a thread-local error code - must not leak into the next call)
    DIRECTED = [("sem", 0, [["stwait", "stwait", "stwait"], ["ssignal", "ssignal"]]),
                ("sem", 0, [["stwait", "strywait", "stwait"], ["ssignal"], ["ssignal", "ssignal", "stwait"]]),
                ("sem", 1, [["stwait", "stwait", "ssignal", "stwait"], ["stwait", "ssignal", "stwait"]]),
                # untimed semaphore waits interrupted by a signal (the pthread model returns EINTR once): still one wait, one token
                # (every thread posts before it waits and init + signals = waits: nobody can starve)
                ("sem", 0, [["ssignal", "swaiti"], ["ssignal", "swaiti"]]),
                ("sem", 2, [["swaiti", "swaiti"], ["ssignal", "swaiti"]]),
                # ... and it takes exactly one token: the try-wait after it finds none left
                ("sem", 1, [["swaiti", "strywait"]]),
                ("signal", 0, [["twait", "twait", "wait"], ["twait", "wait"], ["set"]]),
                ("signal", 0, [["twait", "twait"], ["reset", "set"], ["twait", "wait"]]),
                # set immediately followed by reset: the waiters that were blocked when set() was called are released all the same
                ("signal", 0, [["twait"], ["set", "reset"]]),
                ("signal", 0, [["twait", "twait"], ["twait"], ["set", "reset", "set", "reset"]]),
                ("signal", 0, [["twait"], ["twait"], ["set"], ["reset"]]),
                # untimed waiters that are blocked for certain when set() is called (setafter<k> waits for k blocked threads)
                ("signal", 0, [["wait"], ["setafter1", "reset"]]),
                ("signal", 0, [["wait"], ["wait", "reset"], ["setafter2", "reset"]]),
                ("monitor", 0, [["mlock", "mtwait", "mtwait", "mtwait", "munlock"], ["mset", "mset"]]),
                ("monitor", 0, [["mlock", "mtwait", "munlock", "mlock", "mtwait", "munlock"], ["mlock", "mtwait", "munlock"], ["mset", "mset"]]),
                # two untimed waiters and a setter that keeps setting until both are through (the scheduler's fairness
                # quantum lets the loop and the waiters alternate under the non-preemptive exploration)
                ("monitor", 0, [["mlock", "mwait", "munlock", "mdone"], ["mlock", "mwait", "munlock", "mdone"], ["msetloop"]]),
                ("monitor", 0, [["mlock", "mwait", "munlock", "mdone"], ["mlock", "mwait", "munlock", "mdone"], ["mlock", "mwait", "munlock", "mdone"], ["msetloop"]]),
                # exactly as many sets as waiters; set k is issued only after k waiters have taken the monitor and the sets before it
                # have each released one (sets do not accumulate, so they must not coalesce): each set has to release a waiter
                # (a set lost to a later waiter's arrival leaves the setter waiting for a release that never comes)
                ("monitor", 0, [["mlock", "mwaite", "munlock"], ["mlock", "mwaite", "munlock"], ["msetafter1", "msetafter2"]]),
                ("monitor", 0, [["mlock", "mwaite", "munlock"], ["mlock", "mwaite", "munlock"], ["mlock", "mwaite", "munlock"], ["msetafter1", "msetafter2", "msetafter3"]]),
                ("monitor", 0, [["mlock", "mwaite", "munlock"], ["mlock", "mwaite", "munlock"], ["msetafter1"], ["msetafter2"]]),
                ("thread", 0, [["mstart", "restart", "join"], ["start", "restart", "join"]]),
                ("thread", 0, [["mstart", "restart", "restart", "join"]]),
                # a start() whose thread creation fails (the scheduler's pthread model refuses it once), then a successful one
                ("thread", 0, [["startf", "startagain", "join"], ["start", "join"]]),
                ("thread", 0, [["startf", "startagain", "restart", "join"]])]
    runs = []
    for j, (prim, init, progs) in enumerate(DIRECTED):
        for i in range(12 if ctx.quick else 150):
            runs.append(scenario_args(prim, init, progs) + ["--seed", str(ctx.seed * 7907 + 100 * j + i), "--spur", "0" if i % 3 else "0.1",
                                                            "--tout", ["0.2", "0.4", "0.6"][i % 3]])
    check_runs(ctx, binary, runs, "directed")
    # systematically: every schedule with at most 2 (thorough: 3) preemptions of the scenario and directed programs
    runs = []
    for prim, init, progs in [SCENARIOS[n] for n in names] + DIRECTED:
        base = scenario_args(prim, init, progs) + ["--seed", "1", "--spur", "0"]
        runs += vlib.preemption_bounded_schedules(binary, base, bound=2 if ctx.quick else 3, cap=250 if ctx.quick else 4000)
    ctx.notes["preemption_bounded_schedules"] = len(runs)
    check_runs(ctx, binary, runs, "pb")
    ctx.assumptions.append("sequential consistency at the granularity of the shim's scheduling points")
    return vlib.finish(ctx, "model_checking",
                       "TLC state graphs of 8 scenario programs over the pthread model -> schedules replayed on the real primitives "
                       "through the cooperative scheduler + every schedule with <= 2-3 preemptions of the scenario programs + random terminating programs under random schedules with spurious wake-ups "
                       "and time-outs; call/return events validated by TLC against PrimsAbs; scheduler verdicts deadlock/budget/oracle "
                       "are violations; distinct = distinct (program, schedule) pairs")


def replay(ctx, path):
    binary = build()
    import shlex
    with open(path) as f:
        args = shlex.split(f.read().strip())
    check_runs(ctx, binary, [args], "replay")
    return vlib.finish(ctx, "model_checking", "replay")
