"""C15 - JSON parsing is total and safe; serialising then parsing is identity; stripComments.

Layer 1: spec/text/JsonStrip.tla (comment stripper), JsonSyntax.tla (value trees, round trip), TextPos.tla (error position
inside the text).  Layer 2: JsonLexImpl.tla (acceptor mirroring Json.cpp).  Trace specs: JsonStripTrace, JsonSyntaxTrace,
JsonLexTrace.  Driver: harness/json/drv_json.cpp.  The helpers below are also used by c16.py.
"""
import itertools
import json
import os
import re
from collections import deque

import vlib
from vlib import hexs

SPECDIR = os.path.join(vlib.SPEC, "text")
STRIP_ALPHABET = [47, 42, 34, 92, 10, 97]        # / * " \ LF a
DRIVER_ENV = {"ASAN_OPTIONS": "detect_leaks=1:abort_on_error=0:exitcode=99:malloc_fill_byte=190:max_malloc_fill_size=4096:"
                              "allocator_may_return_null=1:detect_stack_use_after_return=0:hard_rss_limit_mb=4000"}


def build():
    return vlib.build("drv_json", ["json/drv_json.cpp"],
                      ["src/Document/Json.cpp", "src/String.cpp", "src/Variant.cpp", "src/Memory.cpp", "src/Error.cpp"])


# ---------------------------------------------------------------------------------------------------------------
# shared machinery for stateless operations (every op line is an independent test)

def chunked(ops, n):
    return [ops[i:i + n] for i in range(0, len(ops), n)]


def check_stateless(ctx, binary, ops, tag, module, cfg, key_of, per_exec=1000, max_lines=100000, tlc_timeout=1500,
                    driver_timeout=900):
    """ops -> real code (driver) -> ndjson -> TLC trace spec `module`.  Every crash (sanitizer, hang) and every event the
    Layer-1 part of the trace spec rejects is reported with a replay file holding just the failing op.  Events for
    which only the Layer-2 acceptor disagrees are counted as drift.  Returns the number of failing ops."""
    nfail = 0
    for part_no, part in enumerate(chunked(ops, max_lines)):
        executions = chunked(part, per_exec)
        trace = os.path.join(ctx.work, "trace_%s_%d.ndjson" % (tag, part_no))
        dr = vlib.run_driver(binary, executions, trace, timeout=driver_timeout, env=DRIVER_ENV)
        ctx.evaluations += len(part)
        index = vlib.index_trace(trace)
        with open(trace) as tf:
            data = tf.read()
        ctx.notes["outcomes_" + tag] = {"ok": ctx.notes.get("outcomes_" + tag, {}).get("ok", 0) + data.count('"ok":true'),
                                        "rejected": ctx.notes.get("outcomes_" + tag, {}).get("rejected", 0) + data.count('"ok":false')}
        del data
        logged = {}
        for ex, step in index:
            logged[ex] = max(logged.get(ex, 0), step)
        ncrash = 0
        for idx, out, kind in dr.crashes:
            e = executions[idx]
            step = min(len(e), logged.get(idx, 0) + 1)
            op = e[step - 1]
            ncrash += 1
            p = ctx.save_replay("%s_%s_%d_%d.ops" % (tag, kind.split()[0], part_no, idx), ["reset", op])
            ctx.report(key_of(op, kind), p, "driver %s on op: %s\n%s" % (kind, op[:400], out[-1800:]))
        if len(dr.crashes) > 40:
            ctx.notes["abandoned_" + tag] = "more than 40 driver crashes in one batch: the rest of the batch was not executed"
        r, mism, done = vlib.validate_trace(SPECDIR, module, cfg, trace, timeout=tlc_timeout, chunk_lines=10 ** 9)
        ctx.add_tlc("trace:%s.%d" % (tag, part_no), r, must_pass=False)
        if r.violation:
            ctx.broken.append("trace spec %s: invariant violated / TLC error: %s" % (module, r.violation[:1200]))
        if not done and not r.broken and not r.violation:
            ctx.broken.append("trace validation of %s did not reach the end of the trace" % tag)
        seen = set()
        for line, why in mism:
            ex, step = index[line - 1]
            op = executions[ex][step - 1]
            if op in seen:
                continue
            seen.add(op)
            nfail += 1
            if nfail <= 60:
                p = ctx.save_replay("%s_mismatch_%d_%d.ops" % (tag, part_no, line), ["reset", op])
                ctx.report(key_of(op, why), p, "Layer-1 mismatch (%s) on op: %s" % (why, op[:400]))
        ndrift = 0
        for pr in r.printed:
            if pr.startswith('"DRIFT"'):
                ndrift += 1
                if ctx.drift + ndrift <= 5:
                    parts = vlib.parse_tla_value("<<" + pr + ">>")
                    ex, step = index[parts[1] - 1]
                    vlib.log("DRIFT property=%s %s: acceptor predicts %s for op %s" % (ctx.prop, tag, parts[2:], executions[ex][step - 1][:200]))
        ctx.drift += ndrift
        ctx.traces += len(part) - len(seen) - ncrash
        nfail += ncrash
    if ops:
        ctx.sample({"source": tag, "ops": ops[len(ops) // 2][:200]})
        for o in ops:
            ctx.distinct.add(hash(o))
    return nfail


def edge_inputs(dot, label_re=r"Feed\((\d+)\)"):
    """One shortest input per transition of an acceptor's state graph (TLC dot dump): BFS from the initial state; the
    input for edge u -b-> v is (shortest path to u) + b.  The terminator 0 ends an input.  Returns (inputs, #edges)."""
    inits, edges, _ = vlib.read_dot(dot)
    lab = re.compile(label_re)
    path = {inits[0]: ()}
    dq = deque([inits[0]])
    inputs = set()
    nedges = 0
    while dq:
        u = dq.popleft()
        pu = path[u]
        for l, v in edges.get(u, ()):
            m = lab.match(l)
            if not m:
                continue
            b = int(m.group(1))
            nedges += 1
            inputs.add(pu if b == 0 else pu + (b,))
            if v not in path:
                path[v] = pu + (b,)
                dq.append(v)
    return sorted(inputs, key=lambda t: (len(t), t)), nedges


# ---------------------------------------------------------------------------------------------------------------
# keys

def op_bytes(op):
    out = []
    for w in op.split()[1:]:
        if w.startswith("x") and len(w) % 2 == 1 and re.match(r"^x[0-9a-f]*$", w):
            out += list(bytes.fromhex(w[1:]))
    return out


def key_of(op, why):
    """operation + failure kind + the input feature that matters (never a blanket key)"""
    w = op.split()
    kind = w[0] if w else "?"
    b = op_bytes(op)
    feat = []
    if kind == "strip":
        if 92 in b:
            feat.append("backslash")
        if any(b[i] == 47 and b[i + 1] == 42 for i in range(len(b) - 1)):
            feat.append("blockcomment")
    elif kind in ("rt", "rtdeep"):
        if 10 in b or 13 in b:
            feat.append("linebreak")
    elif kind == "parse":
        if b and b[-1] == 92:
            feat.append("backslash-eof")
        if any(b[i] == 92 and b[i + 1] in (10, 13) for i in range(len(b) - 1)):
            feat.append("escaped-linebreak")
    return "Json.%s:%s%s" % (kind, str(why).split()[0], "".join(":" + f for f in feat))


# ---------------------------------------------------------------------------------------------------------------
# part 1: comment stripper

def strip_part(ctx, binary):
    maxlen = 6 if ctx.quick else 7
    cfg = "JsonStrip_small.cfg" if ctx.quick else "JsonStrip.cfg"
    r = vlib.tlc(SPECDIR, "JsonStrip", cfg, workers=8, timeout=900, coverage=ctx.quick)
    ctx.add_tlc("JsonStrip", r)
    ops = []
    for n in range(0, maxlen + 1):
        for t in itertools.product(STRIP_ALPHABET, repeat=n):
            ops.append("strip " + hexs(t))
    ctx.notes["strip_inputs_exhaustive"] = len(ops)
    rng = ctx.rng
    alpha2 = [47, 47, 42, 42, 34, 92, 10, 13, 97, 32, 110]
    for _ in range(2000 if ctx.quick else 60000):
        ops.append("strip " + hexs([rng.choice(alpha2) for _ in range(rng.randint(8, 40))]))
    check_stateless(ctx, binary, ops, "strip", "JsonStripTrace", "JsonStripTrace.cfg", key_of, per_exec=2000, max_lines=140000)


# ---------------------------------------------------------------------------------------------------------------
# part 2: round trip of value trees enumerated by TLC

def tree_op(t):
    k, v = t["t"], t["v"]
    if k == "null":
        return "N"
    if k == "bool":
        return "T" if v else "F"
    if k == "int":
        return "I %d" % v
    if k == "i64":
        return "L %s" % v
    if k == "str":
        return "S " + hexs(v)
    if k == "list":
        return " ".join(["A %d" % len(v)] + [tree_op(x) for x in v])
    if k == "map":
        return " ".join(["M %d" % len(v)] + [hexs(x["k"]) + " " + tree_op(x["n"]) for x in v])
    raise ValueError(k)


def deep_tree(kind, depth):
    s = []
    for i in range(depth):
        if kind == "A" or (kind == "X" and i % 2 == 0):
            s.append("A 1")
        else:
            s.append("M 1 x6b")
    s.append("I 7")
    return " ".join(s)


def roundtrip_part(ctx, binary):
    cfg = "JsonSyntax_small.cfg" if ctx.quick else "JsonSyntax.cfg"
    trees = os.path.join(ctx.work, "json_trees.ndjson")
    r = vlib.tlc(SPECDIR, "JsonSyntax", cfg, workers=1, timeout=900, env={"TREES": trees}, seed=ctx.seed, xmx="4g")
    ctx.add_tlc("JsonSyntax", r)
    if not r.ok or not os.path.exists(trees):
        return
    ops = []
    with open(trees) as f:
        for line in f:
            if line.strip():
                ops.append("rt " + tree_op(json.loads(line)))
    ctx.notes["trees_enumerated_by_tlc"] = len(ops)
    # every NUL-free byte value inside a string value, embedded, doubled and as a map key (the enumerated alphabet
    # has 8 symbols; this family covers all control characters and all non-ASCII bytes)
    for b in range(1, 256):
        ops.append("rt S " + hexs([b]))
        ops.append("rt S " + hexs([0x61, b, 0x62, b]))
        ops.append("rt M 1 " + hexs([0x6b, b]) + " S " + hexs([b, 0x7a]))
    for kind in "AMX":                       # the parameterised family: chains of depth 60 (nested projection) and 1000 (flat)
        ops.append("rt " + deep_tree(kind, 60))
        ops.append("rtdeep " + "".join(kind if kind != "X" else "AM"[i % 2] for i in range(1000)))
    check_stateless(ctx, binary, ops, "roundtrip", "JsonSyntaxTrace", "JsonSyntaxTrace.cfg", key_of, per_exec=500)


# ---------------------------------------------------------------------------------------------------------------
# part 3: parser totality / safety

def rand_json(rng, depth):
    """(bytes) of a random syntactically valid JSON document (python's own writer, random white space and escapes)."""
    def ws():
        return bytes(rng.choice([b"", b"", b" ", b"\n", b"\r\n", b"\t", b"\r", b"  "]))

    def string():
        out = bytearray(b'"')
        for _ in range(rng.randint(0, 6)):
            k = rng.random()
            if k < 0.5:
                out += bytes([rng.choice(b"abcxyz 0189-_")])
            elif k < 0.7:
                out += rng.choice([b'\\"', b"\\\\", b"\\/", b"\\b", b"\\f", b"\\n", b"\\r", b"\\t", b"\\q", b"\\\n", b"\\\r\n"])
            elif k < 0.8:
                out += b"\\u%04x" % rng.choice([0x41, 0xe9, 0x20ac, 0x7ff, 0x800, 0xffff, 1])
            elif k < 0.87:
                out += b"\\ud83d\\ude00"
            elif k < 0.94:
                out += rng.choice(["é", "€", "\U0001F600"]).encode()
            else:
                out += bytes([rng.choice([1, 9, 10, 13, 127, 200, 255])])
        return bytes(out + b'"')

    def value(d):
        k = rng.random()
        if d <= 0 or k < 0.35:
            return rng.choice([b"null", b"true", b"false", b"0", b"-1", b"12345678901234", b"1.5e3", b"-0.25", b"1E+2", b"-",
                               string(), string()])
        if k < 0.68:
            n = rng.randint(0, 3)
            return b"[" + ws() + b",".join(ws() + value(d - 1) + ws() for _ in range(n)) + b"]"
        n = rng.randint(0, 3)
        return b"{" + ws() + b",".join(ws() + string() + ws() + b":" + ws() + value(d - 1) + ws() for _ in range(n)) + b"}"
    return ws() + value(depth) + ws()


STRUCT = b'[]{},:"\\ntfu0123456789-+.eE \n\r\t/*alse\xc3\xa9\x01'


def mutate(rng, doc):
    b = bytearray(doc)
    for _ in range(rng.randint(1, 3)):
        k = rng.random()
        pos = rng.randint(0, len(b)) if b else 0
        if k < 0.35 and b:
            b[min(pos, len(b) - 1)] = rng.choice(STRUCT)
        elif k < 0.65:
            b.insert(pos, rng.choice(STRUCT))
        elif b:
            del b[min(pos, len(b) - 1)]
    return bytes(x for x in b if x != 0)


def random_texts(rng, n):
    out = []
    for i in range(n):
        k = i % 4
        doc = rand_json(rng, rng.randint(0, 4))
        if k == 1:
            doc = doc[:rng.randint(0, len(doc))]
        elif k == 2:
            doc = mutate(rng, doc)
        elif k == 3:
            doc = bytes(rng.choice(STRUCT) for _ in range(rng.randint(0, 24)))
        out.append(doc)
    return out


def nesting_texts(depth):
    d = depth
    return [b"[" * d + b"]" * d, b"[" * d, b"[" * d + b"1" + b"]" * (d - 1), b'{"a":' * d + b"1" + b"}" * d, b'{"a":' * d,
            b'[{"k":' * (d // 2) + b"null" + b"}]" * (d // 2), b"[" * d + b"]" * d + b"]", b"[\n" * d + b"x",
            b"[" * d + b'"\\', b'{"a":' * d + b"}" * d]


def corner_texts():
    """branches the 13-symbol exploration alphabet cannot reach: surrogate pairs, keywords, number characters, CR"""
    out = []
    for full in (b'"\\ud83d\\ude00"', b'"\\uD83D\\u0041"', b'"\\udbff\\udfff" ', b'[true,false,null]', b'-1.5e+3 ', b'"a\r\nb\rc"\r\n\r',
                 b'"\\\r\nx', b'"\\\rx', b'{"a"\r:\r\n1}x'):
        for i in range(len(full) + 1):
            out.append(full[:i])
    out += [b'"\\ud83dx"', b'"\\ud83d\\', b'"\\ud83d\\n"', b'"\\udc00"', b'"\\u12"', b'"\\uzzzz"', b"truex", b"nulL", b"falsE", b"--1", b"1.5.5", b"1e", b"+1",
            b"\xc3\xa9", b'"\xc3\xa9"', b"\x01", b"[1 2]", b"1 2", b'1 "a', b"[1,]", b'{"a":1,}', b'{,}', b"[,]", b"{1:2}", b'{"a" 1}']
    return out


def lex_part(ctx, binary):
    # two alphabets: 13 symbols [ ] { } , : " \ 1 n u l LF (all token kinds), and the 8 structural symbols to a greater depth
    cfgs = ("JsonLexImpl_small.cfg", "JsonLexImpl_deep_small.cfg") if ctx.quick else ("JsonLexImpl.cfg", "JsonLexImpl_deep.cfg")
    inputs = set()
    nedges = 0
    for cfg in cfgs:
        dot = os.path.join(ctx.work, "jsonlex.dot")
        r = vlib.tlc(SPECDIR, "JsonLexImpl", cfg, workers=8, timeout=1500, dump=dot, xmx="6g")
        ctx.add_tlc(cfg[:-4], r)
        if r.ok:
            ins, ne = edge_inputs(dot)
            inputs.update(ins)
            nedges += ne
        if os.path.exists(dot):
            os.remove(dot)
    ctx.notes["acceptor_transitions"] = nedges
    ctx.notes["acceptor_inputs_replayed"] = len(inputs)
    ordered = sorted(inputs, key=lambda t: (len(t), t))
    ops = ["parse " + hexs(t) for t in ordered]
    # transition coverage reaches every acceptor state by ONE path; to observe what the state does next (an error
    # report in particular) every input (the 150000 shortest in the thorough tier) is also continued by probe suffixes
    probes = [(1,), (34, 1), (49, 49, 49, 49, 1)]      # junk / close a string + junk / a long last line + junk
    ops += ["parse " + hexs(t + sfx) for t in ordered[:150000] for sfx in probes]
    ops += ["parse " + hexs(t) for t in corner_texts() + nesting_texts(1000) + nesting_texts(37)]
    ops += ["parse " + hexs(t) for t in random_texts(ctx.rng, 3000 if ctx.quick else 100000)]
    check_stateless(ctx, binary, ops, "parse", "JsonLexTrace", "JsonLexTrace.cfg", key_of, per_exec=1000, max_lines=60000)


RULE = ("stripComments: every input of length <= 6 (quick) / 7 (thorough) over {/,*,\",\\,LF,a} plus seeded longer inputs run "
        "through the real function, every output validated by TLC against JsonStrip; round trip: all value trees enumerated "
        "by TLC (JsonSyntax: <= 3/4 nodes, all strings up to 3 symbols, seeded random trees, depth-1000 chains) through the "
        "real toString + parse, re-parsed tree compared by TLC; parser: one shortest input per transition of the "
        "JsonLexImpl acceptor graph + depth-1000 nesting + seeded random valid/truncated/mutated texts on exact-size heap "
        "copies under ASan with a watchdog, outcome validated by TLC (error position inside the text; acceptor drift)")


def run(ctx):
    binary = build()
    strip_part(ctx, binary)
    roundtrip_part(ctx, binary)
    lex_part(ctx, binary)
    return vlib.finish(ctx, "model_checking", RULE)


def module_for(op):
    k = op.split()[0]
    return {"strip": ("JsonStripTrace", "JsonStripTrace.cfg"), "rt": ("JsonSyntaxTrace", "JsonSyntaxTrace.cfg"),
            "parse": ("JsonLexTrace", "JsonLexTrace.cfg")}[k]


def replay(ctx, path):
    binary = build()
    ops = [o for e in vlib.read_ops_file(path) for o in e]
    for kind in ("strip", "rt", "parse"):
        sel = [o for o in ops if o.split()[0] == kind or (kind == "rt" and o.split()[0] == "rtdeep")]
        if sel:
            mod, cfg = module_for(sel[0])
            check_stateless(ctx, binary, sel, "replay_" + kind, mod, cfg, key_of)
    return vlib.finish(ctx, "model_checking", "replay of recorded ops")


def selftest(ctx):
    """Binding self-test of the Layer-2 model: with a defect of the original code re-introduced (Bugs) TLC must report
    the corresponding invariant violated."""
    ok = True
    for cfg, inv in (("JsonLexImpl_bug.cfg", "CursorInside"), ("JsonLexImpl_bug2.cfg", "ErrInside")):
        r = vlib.tlc(SPECDIR, "JsonLexImpl", cfg, workers=4, timeout=600)
        hit = bool(r.violation and inv in r.violation)
        vlib.log("selftest %s: %s" % (cfg, "violation of %s found" % inv if hit else "NOT FOUND"))
        ok = ok and hit
    return 0 if ok else 2
