"""C16 - XML parsing is total and safe; serialising then parsing is identity; comments/PIs; copies of values independent.

Layer 1: spec/text/XmlSyntax.tla (element trees, round trip), XmlValue.tla (value semantics of Xml::Variant),
TextPos.tla (error position inside the text).  Layer 2: XmlLexImpl.tla (acceptor mirroring Xml.cpp).
Trace specs: XmlSyntaxTrace, XmlValueTrace, XmlLexTrace.  Driver: harness/xml/drv_xml.cpp.
Shared helpers (stateless batches, per-transition inputs) come from props/c15.py.
"""
import json
import os
import re

import vlib
from vlib import hexs
from props import c15 as base

SPECDIR = base.SPECDIR


def build():
    return vlib.build("drv_xml", ["xml/drv_xml.cpp"],
                      ["src/Document/Xml.cpp", "src/String.cpp", "src/Memory.cpp", "src/Error.cpp", "src/File.cpp",
                       "src/Directory.cpp"])


def key_of(op, why):
    """operation + failure kind + the input feature that matters"""
    w = op.split()
    kind = w[0] if w else "?"
    b = bytes(base.op_bytes(op))
    feat = []
    if kind in ("parse", "ptree"):
        if b"<!--" in b:
            feat.append("comment")
        if b"<?" in b:
            feat.append("pi")
    elif kind == "rt":
        if b"\n" in b or b"\r" in b:
            feat.append("linebreak")
    return "Xml.%s:%s%s" % (kind, str(why).split()[0], "".join(":" + f for f in feat))


def vkey_of(ops, step):
    op = ops[step - 1].split()[0] if 0 < step <= len(ops) else "?"
    shared = any(o.split()[0] in ("vcopy", "vassign", "vaddchild", "vecopy") for o in ops[:step])
    return "Xml.Variant.%s%s" % (op, ":afterCopy" if shared else "")


# ---------------------------------------------------------------------------------------------------------------
# round trip

def tree_op(t):
    if t["t"] == "t":
        return "T " + hexs(t["v"])
    parts = ["E", hexs(t["n"]), str(len(t["a"]))]
    for a in t["a"]:
        parts += [hexs(a["k"]), hexs(a["v"])]
    parts.append(str(len(t["c"])))
    for c in t["c"]:
        parts.append(tree_op(c))
    return " ".join(parts)


ESC = {ord("'"): b"&apos;", ord('"'): b"&quot;", ord("&"): b"&amp;", ord("<"): b"&lt;", ord(">"): b"&gt;"}
COMMENTS = [b"<!---->", b"<!-- c -->", b"<!--\n-->", b"<!-- a--b - -->", b"<!--<a>-->", b"<!--\r\n x -->", b"<!-- -- -->"]


def render(rng, t, top=True):
    """The generator's own writer: an XML text for element tree t with comments / white space at places where white
    space is allowed (prolog, inside tags, between child elements, directly next to text) and PIs in the prolog."""
    def sp(must=False, after_name=False):
        # after a name a comment needs white space in front of it (the name scanner only stops at white space / > = )
        out = b""
        n = rng.choice([0, 0, 0, 1, 1, 2])
        if must or (after_name and n):
            out += rng.choice([b" ", b"\n", b"\t", b"\r\n", b"  "])
        for _ in range(n):
            out += rng.choice(COMMENTS + [b" ", b"\n", b"\r\n"])
        return out

    def esc(v, attr):
        out = b""
        for c in v:
            if c in ESC:
                out += ESC[c] if rng.random() < 0.8 else b"&#%d;" % c
            elif attr and c in (10, 13):
                out += b"&#%d;" % c
            elif rng.random() < 0.05 and c < 128:
                out += b"&#%d;" % c
            else:
                out += bytes([c])
        return out
    out = b""
    if top:
        out += sp()
        for _ in range(rng.choice([0, 1, 1, 2])):
            out += rng.choice([b'<?xml version="1.0"?>', b"<?pi a?b\n?>", b"<??>", b"<?x\r\ny ? > ?>"]) + sp()
    out += b"<" + sp() + bytes(t["n"])
    for a in t["a"]:
        q = b"'" if rng.random() < 0.3 else b'"'
        out += sp(True) + bytes(a["k"]) + sp(after_name=True) + b"=" + sp() + q + esc(a["v"], True) + q
    out += sp(after_name=not t["a"])
    if not t["c"] and rng.random() < 0.7:
        return out + b"/>"
    out += b">"
    prev_text = False
    for i, c in enumerate(t["c"]):
        if c["t"] == "t":
            out += rng.choice([b"", b"", b"<!-- c -->", b"<!---->"]) + esc(c["v"], False) + rng.choice([b"", b"", b"<!-- d -->"])
            prev_text = True
        else:
            if not prev_text:
                out += sp()            # white space / comments between elements (not next to text: it would belong to it)
            out += render(rng, c, False)
            prev_text = False
            if i + 1 == len(t["c"]) or t["c"][i + 1]["t"] != "t":
                out += sp()
    out += b"</" + sp() + bytes(t["n"]) + sp(after_name=True) + b">"
    return out


def roundtrip_part(ctx, binary):
    cfg = "XmlSyntax_small.cfg" if ctx.quick else "XmlSyntax.cfg"
    trees = os.path.join(ctx.work, "xml_trees.ndjson")
    r = vlib.tlc(SPECDIR, "XmlSyntax", cfg, workers=1, timeout=900, env={"TREES": trees}, seed=ctx.seed, xmx="4g")
    ctx.add_tlc("XmlSyntax", r)
    if not r.ok or not os.path.exists(trees):
        return
    ops = []
    n = 0
    with open(trees) as f:
        for line in f:
            if not line.strip():
                continue
            t = json.loads(line)
            n += 1
            ops.append("rt %d %s" % (n % 2, tree_op(t)))
            if n % 3 == 0:             # the same tree written by the generator with comments / PIs / entities
                ops.append("ptree %s %s" % (hexs(render(ctx.rng, t)), tree_op(t)))
    ctx.notes["trees_enumerated_by_tlc"] = n
    # depth 60 chain (TLC's JSON reader limits nesting)
    chain = {"t": "e", "n": [97], "a": [], "c": []}
    for i in range(60):
        chain = {"t": "e", "n": [97 + i % 2], "a": [], "c": [chain]}
    ops.append("rt 0 " + tree_op(chain))
    # long values: escaping one value adds hundreds of bytes (growth / reallocation paths of the writer's buffers)
    for ch in (34, 39, 38, 60, 62, 10, 0xc3):
        for ln in (41, 60, 120, 250):
            val = ([0xc3, 0xa9] * (ln // 2)) if ch == 0xc3 else [ch] * ln
            mixed = [(34, 38, 60, 120)[i % 4] for i in range(ln)]
            ops.append("rt %d %s" % (ln % 2, tree_op({"t": "e", "n": [97], "a": [{"k": [120], "v": val}, {"k": [121], "v": mixed}], "c": []})))
            if ch != 10:
                ops.append("rt %d %s" % (ln % 2, tree_op({"t": "e", "n": [97], "a": [], "c": [{"t": "t", "v": [120] + val}]})))
    # text nodes whose first non-blank character is not the start of a token of the tag syntax ('/', quotes, '=', '>'), with
    # leading white space (the parser looks ahead for a tag with white space skipped, and has to come back)
    for lead in ([], [32], [10, 9], [32, 32]):
        for first in ([47, 117, 115, 114], [47], [47, 62], [34, 120], [39, 116, 105, 115], [61, 49], [62, 62]):
            for tail in ([], [32]):
                txt = lead + first + tail
                for ctxt in ([{"t": "t", "v": txt}], [{"t": "e", "n": [98], "a": [], "c": []}, {"t": "t", "v": txt}],
                             [{"t": "t", "v": txt}, {"t": "e", "n": [98], "a": [], "c": []}]):
                    ops.append("rt %d %s" % (len(ops) % 2, tree_op({"t": "e", "n": [97], "a": [], "c": ctxt})))
    # the same texts written raw behind / in front of a comment (round 7: the parser's look-ahead for a tag fails on them and has
    # to come back to the end of the comment, not in front of it); '<' and '&' are the only characters a text must escape
    for lead in ([], [32], [10, 9]):
        for first in ([47, 117, 115, 114], [47], [47, 62], [34, 120], [39, 116, 105, 115], [61, 49], [62, 62], [47, 47, 34]):
            txt = lead + first
            raw = b"".join(ESC[c] if c in (60, 38) else bytes([c]) for c in txt)
            for com in COMMENTS[:4]:
                for before, after in ((com, b""), (com, com), (b"", com), (com + com, b"")):
                    tree = {"t": "e", "n": [97], "a": [], "c": [{"t": "t", "v": txt}]}
                    ops.append("ptree %s %s" % (hexs(b"<a>" + before + raw + after + b"</a>"), tree_op(tree)))
                    tree2 = {"t": "e", "n": [97], "a": [], "c": [{"t": "e", "n": [98], "a": [], "c": []}, {"t": "t", "v": txt}]}
                    ops.append("ptree %s %s" % (hexs(b"<a><b/>" + before + raw + after + b"</a>"), tree_op(tree2)))
    base.check_stateless(ctx, binary, ops, "roundtrip", "XmlSyntaxTrace", "XmlSyntaxTrace.cfg", key_of, per_exec=500)


# ---------------------------------------------------------------------------------------------------------------
# parser totality / safety

STRUCT = b'<>/="\'!-?ab \n\r\t&;#x10'


def rand_doc(rng, depth):
    def name():
        return rng.choice([b"a", b"b", b"ab", b"a-b", b"x:y"])

    def sp():
        return rng.choice([b"", b"", b" ", b"\n", b"\r\n", b"<!-- c -->", b"\t", b"<!--\n-->"])

    def elem(d):
        out = b"<" + name()
        nm = out[1:]
        for _ in range(rng.choice([0, 0, 1, 2])):
            out += b" " + name() + sp() + b"=" + sp() + rng.choice([b'"x"', b"'y&amp;'", b'"&#65;&lt;"', b'""', b'"a\'b"'])
        out += sp()
        if d <= 0 or rng.random() < 0.3:
            return out + b"/>"
        out += b">"
        for _ in range(rng.randint(0, 3)):
            out += rng.choice([elem(d - 1), b"text", b" t &amp; u ", sp(), b"<!-- c -->x", b"a\r\nb", b"&#x41;"])
        return out + b"</" + nm + sp() + b">"
    pro = b"".join(rng.choice([b'<?xml version="1.0" encoding="UTF-8"?>\n', b"<?p\n?>", sp()]) for _ in range(rng.randint(0, 2)))
    return pro + elem(depth) + sp()


def random_texts(rng, n):
    out = []
    for i in range(n):
        k = i % 4
        doc = rand_doc(rng, rng.randint(0, 3))
        if k == 1:
            doc = doc[:rng.randint(0, len(doc))]
        elif k == 2:
            b = bytearray(doc)
            for _ in range(rng.randint(1, 3)):
                pos = rng.randint(0, len(b))
                r = rng.random()
                if r < 0.35 and b:
                    b[min(pos, len(b) - 1)] = rng.choice(STRUCT)
                elif r < 0.65:
                    b.insert(pos, rng.choice(STRUCT))
                elif b:
                    del b[min(pos, len(b) - 1)]
            doc = bytes(b)
        elif k == 3:
            doc = bytes(rng.choice(STRUCT) for _ in range(rng.randint(0, 24)))
        out.append(bytes(x for x in doc if x != 0))
    return out


def nesting_texts(d):
    return [b"<a>" * d + b"</a>" * d, b"<a>" * d, b"<a>" * d + b"x" + b"</a>" * (d - 1), b"<a><b>" * (d // 2) + b"</b></a>" * (d // 2),
            b"<a\n>" * d + b"</a>" * d + b"</a>", b"<a><!-- c -->" * d + b"t" + b"</a>" * d, b"<a b='1'>" * d + b"<c/>" + b"</a>" * d,
            b"<a>" * d + b"</b>", b"<!-- c -->" * d + b"<a/>", b"<?p?>" * d + b"<a/>"]


def corner_texts():
    """branches the exploration alphabets cannot reach: CR / CRLF, single quotes, entities, junk tokens in tags"""
    out = []
    for full in (b'<?xml version="1.0"?>\r\n<a b=\'x\' c="y&amp;">t&#65;<b/>\r<!-- c\r-\r\n-->\r\n</a>', b"<a><!-- c -->text</a>",
                 b"<a>x<!-- c -->y</a>", b"<a> <!-- c --> t</a>", b"<?p\r?>\r<a\r/>", b"<a\tb\t=\t'1'\t/>"):
        for i in range(len(full) + 1):
            out.append(full[:i])
    out += [b'<a = "x" <>', b"<a/b>", b"<a b>", b"<a b=>", b"<a b=c>", b'<a>"x</a>', b"<a>'x\n</a>", b"<a></b>", b"<a></a", b"<a>/</a>",
            b"<a>=</a>", b"<!-- unterminated", b"<?pi", b"<?pi ?", b"<a><?pi?></a>", b"<a b='x\ny'/>", b'<a b="x\ry"/>', b"<a>&bogus;&#;&#x;&</a>",
            b"\xc3\xa9", b"<\xc3\xa9/>", b"<a>\x01</a>", b"< a/>", b"<a/ >", b"<a>t</ a >", b"<a>t</a b>"]
    return out


def lex_part(ctx, binary):
    # three alphabets: A = tags/attributes {< > / = " a SP}, B = comments/PIs/lines {< > ! - ? a LF}, F = all 12 symbols
    cfgs = (("XmlLexImpl_A8.cfg", True), ("XmlLexImpl_B7.cfg", True), ("XmlLexImpl_F5.cfg", True)) if ctx.quick else \
           (("XmlLexImpl_A10.cfg", True), ("XmlLexImpl_B7.cfg", True), ("XmlLexImpl_F6.cfg", True), ("XmlLexImpl_B8.cfg", False))
    inputs = set()
    nedges = 0
    for cfg, dump in cfgs:
        dot = os.path.join(ctx.work, "xmllex.dot")
        r = vlib.tlc(SPECDIR, "XmlLexImpl", cfg, workers=8, timeout=1800, dump=dot if dump else None, xmx="8g")
        ctx.add_tlc(cfg[:-4], r)
        if r.ok and dump:
            ins, ne = base.edge_inputs(dot)
            inputs.update(ins)
            nedges += ne
        if os.path.exists(dot):
            os.remove(dot)
    ctx.notes["acceptor_transitions"] = nedges
    ctx.notes["acceptor_inputs_replayed"] = len(inputs)
    ordered = sorted(inputs, key=lambda t: (len(t), t))
    ops = ["parse " + hexs(t) for t in ordered]
    # probe suffixes: see c15.lex_part
    probes = [(62, 60), (34, 62, 1, 60, 47), (63, 62, 97, 97, 97, 97, 61)]      # >< / close a string, tag + junk / close a PI + a long last line
    ops += ["parse " + hexs(t + sfx) for t in ordered[:(25000 if ctx.quick else 150000)] for sfx in probes]
    ops += ["parse " + hexs(t) for t in corner_texts() + nesting_texts(1000) + nesting_texts(30)]
    ops += ["parse " + hexs(t) for t in random_texts(ctx.rng, 3000 if ctx.quick else 40000)]
    base.check_stateless(ctx, binary, ops, "parse", "XmlLexTrace", "XmlLexTrace.cfg", key_of, per_exec=1000, max_lines=60000)


# ---------------------------------------------------------------------------------------------------------------
# copy independence of element values

def label_to_vop(name, args):
    op, i, j, s = args
    if op in ("vtext", "velem", "vsettype", "vaddtext", "vchildtype"):
        return "%s %d %s" % (op, i, hexs(s))
    if op in ("vcopy", "vassign", "vecopy", "vaddchild"):
        return "%s %d %d" % (op, i, j)
    return "%s %d" % (op, i)


def rand_vexec(rng, nops):
    ops = []
    for _ in range(nops):
        i, j = rng.randint(1, 3), rng.randint(1, 3)
        s = hexs(rng.choice([b"a", b"b", b"x y", b"", b"<&>"]))
        k = rng.random()
        if k < 0.06:
            ops.append("vnull %d" % i)
        elif k < 0.14:
            ops.append("vtext %d %s" % (i, s))
        elif k < 0.26:
            ops.append("velem %d %s" % (i, s))
        elif k < 0.40:
            ops.append("vcopy %d %d" % (i, j))
        elif k < 0.54:
            ops.append("vassign %d %d" % (i, j))
        elif k < 0.60:
            ops.append("vecopy %d %d" % (i, j))
        elif k < 0.70:
            ops.append("vsettype %d %s" % (i, s))
        elif k < 0.80:
            ops.append("vaddtext %d %s" % (i, s))
        elif k < 0.92:
            ops.append("vaddchild %d %d" % (i, j))
        else:
            ops.append("vchildtype %d %s" % (i, s))
    return ops


def value_part(ctx, binary):
    if not ctx.quick:
        r = vlib.tlc(SPECDIR, "XmlValue", "XmlValue.cfg", workers=8, timeout=900)
        ctx.add_tlc("XmlValue", r)
    dot = os.path.join(ctx.work, "xmlvalue.dot")
    r = vlib.tlc(SPECDIR, "XmlValue", "XmlValue_small.cfg", workers=8, timeout=900, dump=dot)
    ctx.add_tlc("XmlValue_small", r)
    if r.ok:
        walks, nedges = vlib.graph_walks(dot, max_len=60, seed=ctx.seed)
        os.remove(dot)
        ctx.notes["value_graph_edges_replayed"] = nedges
        execs = [[label_to_vop(*st) for st in w] for w in walks]
        vlib.check_executions(ctx, binary, execs, "valuegraph", SPECDIR, "XmlValueTrace", "XmlValueTrace.cfg", vkey_of,
                              driver_env=base.DRIVER_ENV)
    nexec, nops = (300, 30) if ctx.quick else (6000, 40)
    execs = [rand_vexec(ctx.rng, nops) for _ in range(nexec)]
    vlib.check_executions(ctx, binary, execs, "valuerandom", SPECDIR, "XmlValueTrace", "XmlValueTrace.cfg", vkey_of,
                          driver_env=base.DRIVER_ENV)


RULE = ("round trip: all element trees enumerated by TLC (XmlSyntax: <= 3/4 nodes, all attribute values up to 3 symbols, all "
        "non-blank texts up to 2 symbols, seeded random trees) through the real toString + parse, and rendered by the generator "
        "with comments / PIs / entities, re-parsed tree compared by TLC; parser: one shortest input per transition of the "
        "XmlLexImpl acceptor graphs (three alphabets) + depth-1000 nesting + seeded random valid/truncated/mutated texts on "
        "exact-size heap copies under ASan with a watchdog, outcome validated by TLC (error position inside the text; "
        "acceptor drift); values: every edge of the XmlValue state graph + seeded random histories on three real Xml::Variant "
        "objects, every step validated by TLC against XmlValue")


def run(ctx):
    binary = build()
    value_part(ctx, binary)
    roundtrip_part(ctx, binary)
    lex_part(ctx, binary)
    return vlib.finish(ctx, "model_checking", RULE)


def replay(ctx, path):
    binary = build()
    execs = vlib.read_ops_file(path)
    ops = [o for e in execs for o in e]
    if ops and ops[0].startswith("v"):
        vlib.check_executions(ctx, binary, execs, "replay", SPECDIR, "XmlValueTrace", "XmlValueTrace.cfg", vkey_of,
                              driver_env=base.DRIVER_ENV)
    else:
        for kinds, mod in ((("rt", "ptree"), "XmlSyntaxTrace"), (("parse",), "XmlLexTrace")):
            sel = [o for o in ops if o.split()[0] in kinds]
            if sel:
                base.check_stateless(ctx, binary, sel, "replay_" + kinds[0], mod, mod + ".cfg", key_of)
    return vlib.finish(ctx, "model_checking", "replay of recorded ops")


def selftest(ctx):
    """With a defect of the original code re-introduced in the Layer-2 model (Bugs) TLC must report the invariant."""
    ok = True
    for cfg, inv in (("XmlLexImpl_bug.cfg", "NoStuck"), ("XmlLexImpl_bug2.cfg", "ErrInside")):
        r = vlib.tlc(SPECDIR, "XmlLexImpl", cfg, workers=4, timeout=900)
        hit = bool(r.violation and inv in r.violation)
        vlib.log("selftest %s: %s" % (cfg, "violation of %s found" % inv if hit else "NOT FOUND"))
        ok = ok and hit
    return 0 if ok else 2
