"""X07 (extra) - Atomic: every function is one indivisible read-modify-write step with the documented result
(include/nstd/Atomic.hpp, GCC branch).  Layer 1 = spec/conc/AtomicOps.tla, trace spec = AtomicOpsTrace.tla.

Direction A: every edge of the TLC state graphs of multi-thread programs (model values 0..7) -> schedules replayed on
the real functions of all widths under the cooperative scheduler (the NSTD_VERIF hook makes each atomic access a
scheduling point, so the event order is the order of the atomic steps) -> each call validated by TLC against Step.
Direction B: random programs under random / PCT schedules; native real threads (no hook, no sanitizer): per-thread call
logs judged by TLC's linearization search, long stress runs judged by conservation + the driver's oracles."""
import os
import re
import shlex
import vlib

SPECDIR = os.path.join(vlib.SPEC, "conc")
TRACE = ("AtomicOpsTrace", "AtomicOpsTrace.cfg")
KINDS = ["i32", "u32", "i64", "u64", "ptr"]
WIDTH = {"i32": 32, "u32": 32, "i64": 64, "u64": 64, "ptr": 64}
PTR_FUNS = ["swap", "cas", "load", "store", "fence"]
ALL_FUNS = ["inc", "dec", "faa", "swap", "cas", "tas", "load", "store", "fence"]
NARGS = {"inc": 0, "dec": 0, "faa": 1, "swap": 1, "cas": 2, "tas": 0, "load": 0, "store": 1, "fence": 0}
MODEL_CFGS = {"cnt": ("P_cnt", 6), "tick": ("P_tick", 5), "inc": ("P_inc", 4), "cas": ("P_cas", 5), "mix": ("P_mix", 3), "mix4": ("P_mix4", 3),
              "lock": ("P_lock", 0), "lock2": ("P_lock2", 0)}
PAR = 3          # processes / TLC workers at a time (the machine is shared)


def build_sched():
    return vlib.build("scn_atomic", ["sched/sched.cpp", "atomic/scn_atomic.cpp"], [], libs=["-ldl"])


def build_native():
    # real threads: the plain library code, without the verification hook and without sanitizers
    return vlib.build("drv_atomic", ["atomic/drv_atomic.cpp"], [], san=False, no_guard=True)


def build():
    return build_sched(), build_native()


def limits(kind):
    w = WIDTH[kind]
    m = (1 << w) - 1
    s = 1 << (w - 1)
    return [0, 1, 2, 5, s - 2, s - 1, s, s + 1, m - 1, m]


def model_programs():
    """The programs of the model's cfgs, read from AtomicOps.tla itself (P_xxx == << <<Op("f", a, b), ...>>, ... >>)."""
    with open(os.path.join(SPECDIR, "AtomicOps.tla")) as f:
        text = f.read()
    progs = {}
    for m in re.finditer(r"^(P_\w+) == (.*?)(?=^P_\w+ == |^====)", text, flags=re.M | re.S):
        threads = []
        for t in re.finditer(r"<<((?:\s*Op\(\"\w+\", \d+, \d+\),?)+)>>", m.group(2)):
            threads.append([(o.group(1), int(o.group(2)), int(o.group(3))) for o in re.finditer(r"Op\(\"(\w+)\", (\d+), (\d+)\)", t.group(1))])
        progs[m.group(1)] = threads
    return progs


def op_text(f, a, b, base, mask):
    """Model op -> scenario op text; value arguments are shifted by `base`, the addend of fetchAndAdd is not."""
    if f in ("swap", "store"):
        return "%s:%x" % (f, (base + a) & mask)
    if f == "cas":
        return "cas:%x:%x" % ((base + a) & mask, (base + b) & mask)
    if f == "faa":
        return "faa:%x" % (a & mask)
    return f


def sched_args(kind, init, progs):
    return ["kind=" + kind, "init=%x" % init, "n=%d" % len(progs)] + ["p%d=%s" % (i + 1, ",".join(p)) for i, p in enumerate(progs)]


def funs_of(args):
    fs = set()
    for a in args:
        if re.match(r"p\d+=", a):
            fs.update(x.split(":")[0] for x in a.split("=", 1)[1].split(","))
    return fs


def key_sched(args, why):
    kind = [a for a in args if a.startswith("kind=")][0][5:]
    return "Atomic.%s:%s" % (why, kind)


def key_native(ops, step):
    if not (0 < step <= len(ops)):
        return "X07.?"
    t = ops[step - 1].split()
    if t[0] == "exec":
        return "Atomic.exec:%s:%s" % (t[1], "concurrent" if len(t) > 4 else "sequential")
    return "Atomic.agg:%s:%s" % (t[1], t[2])


def replay_line(run, choices):
    """The arguments of a run with its schedule replaced by the schedule that was actually executed."""
    args = []
    skip = False
    for a in run:
        if skip:
            skip = False
        elif a == "--sched":
            skip = True
        elif a in ("--np",):
            pass
        else:
            args.append(a)
    return " ".join(args) + " --sched " + '"%s"' % choices


def check_runs(ctx, binary, runs, tag, expect_no_divergence=False):
    combined, results = vlib.run_sched_executions(binary, runs, ctx.work, tag, parallel=PAR)
    ctx.evaluations += sum(r.get("steps", 0) for r in results)
    bad = set()
    div = 0
    for i, r in enumerate(results):
        div += 1 if r.get("diverged", 0) else 0
        if r["verdict"] != "done":
            bad.add(i)
            rp = ctx.save_replay("%s_%d.args" % (tag, i), [replay_line(runs[i], r.get("choices", ""))])
            if "DRIVER-ERROR" in r.get("stderr", ""):
                ctx.broken.append("scenario refused its arguments: %s: %s" % (" ".join(runs[i]), r["stderr"][-300:]))
                continue
            ctx.report(key_sched(runs[i], r["verdict"]), rp, "verdict %s (%s) for %s\nschedule: %s\n%s" % (
                r["verdict"], r.get("failure", ""), " ".join(runs[i]), r.get("choices", ""), r.get("stderr", "")[-600:]))
    r, mism, done = vlib.validate_trace(SPECDIR, TRACE[0], TRACE[1], combined)
    ctx.add_tlc("trace:" + tag, r, must_pass=False)
    if r.violation or (not done and not r.broken):
        ctx.broken.append("trace validation of %s failed: %s" % (tag, (r.violation or "incomplete")[:800]))
    for line, why in mism:
        for i, res in enumerate(results):
            if res["lines"][0] <= line <= res["lines"][1] and i not in bad:
                bad.add(i)
                rp = ctx.save_replay("%s_%d.args" % (tag, i), [replay_line(runs[i], res.get("choices", ""))])
                ctx.report(key_sched(runs[i], why), rp, "Layer-1 mismatch at trace line %d (%s) of %s\nschedule: %s" % (
                    line - res["lines"][0] + 1, why, " ".join(runs[i]), res.get("choices", "")))
    ctx.drift += div
    if expect_no_divergence and div and not bad:
        # the schedules come from the model of the same programs: every token must name a thread that can move
        ctx.broken.append("%d schedules of %s could not be followed although every result conforms (model and scenario disagree on the number of atomic accesses per call)" % (div, tag))
    ctx.traces += len(runs) - len(bad)
    for a in runs:
        ctx.distinct.add(hash(tuple(a)))
    if runs:
        ctx.sample({"source": tag, "args": runs[len(runs) // 2]})
    return bad


# ---------------------------------------------------------------------------------------------
# generators (they choose inputs; verdicts come from TLC's trace validation and the harness oracles)

def rand_val(rng, kind, around):
    mask = (1 << WIDTH[kind]) - 1
    r = rng.random()
    if r < 0.55:
        return (around + rng.randint(-2, 3)) & mask
    if r < 0.9:
        return rng.choice(limits(kind))
    return rng.getrandbits(WIDTH[kind])


def rand_op(rng, kind, around):
    f = rng.choice(PTR_FUNS if kind == "ptr" else ALL_FUNS + ["inc", "dec", "faa", "cas", "cas"])
    if f == "faa":
        a = rng.choice([1, 1, 2, 3, (1 << WIDTH[kind]) - 1, rng.choice(limits(kind))])
        return "faa:%x" % a
    if NARGS[f] == 1:
        return "%s:%x" % (f, rand_val(rng, kind, around))
    if NARGS[f] == 2:
        mask = (1 << WIDTH[kind]) - 1
        exp = (around + rng.randint(-1, 1)) & mask if rng.random() < 0.7 else rand_val(rng, kind, around)     # expected values that are often hit
        return "cas:%x:%x" % (exp, rand_val(rng, kind, around))
    return f


def rand_sched_run(rng, i, seed):
    kind = rng.choice(KINDS)
    if kind != "ptr" and rng.random() < 0.15:
        n = rng.randint(2, 4)
        progs = [["acq", "csr", "csw", "rel"] * rng.randint(1, 2) for _ in range(n)]
        init = 0
    else:
        init = rng.choice(limits(kind))
        n = rng.randint(2, 4)
        progs = [[rand_op(rng, kind, init) for _ in range(rng.randint(1, 5))] for _ in range(n)]
    extra = ["--seed", str(seed * 100003 + i), "--spur", "0"]
    if rng.random() < 0.25:
        extra += ["--pct", str(rng.randint(1, 3)), "--pct-len", "24"]
    return sched_args(kind, init, progs) + extra


def sequential_table(rng, quick):
    """Every declared overload, alone on a variable, at and around the type limits: exec lines with one thread."""
    ex = []
    for kind in KINDS:
        L = limits(kind)
        mask = (1 << WIDTH[kind]) - 1
        for f in (PTR_FUNS if kind == "ptr" else ALL_FUNS):
            for init in L:
                if NARGS[f] == 0:
                    ex.append("exec %s %x %s,load,%s,load" % (kind, init, f, f))
                elif NARGS[f] == 1:
                    for a in ([init] + L if not quick else [init, 1, L[5], L[6], L[9]]):
                        ex.append("exec %s %x %s:%x,load" % (kind, init, f, a))
                else:
                    for a, b in [(init, L[9]), (init, init), ((init + 1) & mask, 0), (init ^ (1 << (WIDTH[kind] - 1)), 1), (init ^ (1 << 32 if WIDTH[kind] == 64 else 1 << 16), 2), (init, L[6])]:
                        ex.append("exec %s %x cas:%x:%x,load" % (kind, init, a, b))
    for _ in range(200 if quick else 2000):
        kind = rng.choice(KINDS)
        init = rng.choice(limits(kind))
        ex.append("exec %s %x %s" % (kind, init, ",".join(rand_op(rng, kind, init) for _ in range(8))))
    return ex


def concurrent_execs(rng, count):
    ex = []
    for _ in range(count):
        kind = rng.choice(KINDS)
        init = rng.choice(limits(kind))
        n = rng.randint(2, 4)
        maxops = 4 if n < 4 else 3
        ex.append("exec %s %x %s" % (kind, init, " ".join(",".join(rand_op(rng, kind, init) for _ in range(rng.randint(1, maxops))) for _ in range(n))))
    return ex


def agg_lines(rng, quick):
    ex = []
    iters = 50000 if quick else 500000
    for kind in KINDS:
        L = limits(kind)
        wrap_u, wrap_s = L[9] - 1000, L[5] - 1000          # the run crosses UINT_MAX -> 0 / INT_MAX -> INT_MIN
        inits = [wrap_u, wrap_s] if quick else [wrap_u, wrap_s, 0, L[9] - iters]
        for init in inits:
            for n in ([4] if quick else [2, 3, 4]):
                if kind != "ptr":
                    ex.append("agg count %s %x %d %d" % (kind, init, n, iters))
                    ex.append("agg ticket %s %x %d %d" % (kind, init, n, iters))
                    ex.append("agg incticket %s %x %d %d" % (kind, init, n, iters))
                ex.append("agg caswin %s %x %d %d" % (kind, init, n, iters // 4))
                ex.append("agg swapring %s %x %d %d" % (kind, init, n, iters))
        if kind != "ptr":
            for n in ([4] if quick else [2, 3, 4]):
                ex.append("agg spin %s 0 %d %d" % (kind, n, iters // 4))
    return ex


# ---------------------------------------------------------------------------------------------

def run(ctx):
    sched, native = build()
    progs = model_programs()
    # (1) the model: TLC checks the theorems (no lost update, distinct tickets, one compareAndSwap winner, exclusion)
    # (2) direction A: every edge of its state graphs -> schedules on the real functions, all widths, three value bases
    cfgs = ["cnt", "tick", "cas", "mix", "lock"] if ctx.quick else ["cnt", "tick", "inc", "cas", "mix", "mix4", "lock", "lock2"]
    for n in cfgs:
        pname, initk = MODEL_CFGS[n]
        if pname not in progs or not progs[pname]:
            ctx.broken.append("program %s not found in AtomicOps.tla" % pname)
            continue
        dot = os.path.join(ctx.work, n + ".dot")
        r = vlib.tlc(SPECDIR, "AtomicOps", "AtomicOps_%s.cfg" % n, workers=PAR, timeout=900, dump=dot, coverage=(n in ("mix", "lock")))
        ctx.add_tlc("AtomicOps_" + n, r)
        if not r.ok:
            continue
        walks, nedges = vlib.graph_walks(dot, max_len=100, seed=ctx.seed)
        os.remove(dot)
        ctx.notes["graph_edges:" + n] = nedges
        fs = set(o[0] for t in progs[pname] for o in t)
        lock = bool(fs & {"acq", "rel", "csr", "csw"})
        kinds = [k for k in KINDS if k != "ptr" or fs <= set(PTR_FUNS)]
        runs = []
        for i, w in enumerate(walks):
            kind = kinds[i % len(kinds)]
            wd = WIDTH[kind]
            mask = (1 << wd) - 1
            base = 0 if lock else [0, (1 << wd) - 8, (1 << (wd - 1)) - 4][(i // len(kinds)) % 3]
            ptxt = [[op_text(f, a, b, base, mask) for (f, a, b) in t] for t in progs[pname]]
            runs.append(sched_args(kind, (base + initk) & mask, ptxt) + ["--seed", str(ctx.seed + i), "--spur", "0", "--sched", " ".join(str(st[1][0]) for st in w)])
        check_runs(ctx, sched, runs, "graph_" + n, expect_no_divergence=True)
    # (3) direction B under the scheduler: random programs, random and PCT schedules
    nrand = 1000 if ctx.quick else 12000
    runs = [rand_sched_run(ctx.rng, i, ctx.seed) for i in range(nrand)]
    check_runs(ctx, sched, runs, "random")
    # (4) native: sequential semantics of every declared overload at the type limits; concurrent executions judged by the
    #     linearization search; long stress runs judged by conservation and the driver's oracles
    seq = sequential_table(ctx.rng, ctx.quick)
    conc = concurrent_execs(ctx.rng, 1000 if ctx.quick else 8000)
    agg = agg_lines(ctx.rng, ctx.quick)
    ctx.notes["native_sequential_execs"] = len(seq)
    ctx.notes["native_concurrent_execs"] = len(conc)
    ctx.notes["native_stress_runs"] = len(agg)

    def chunks(lst, k):
        return [lst[i:i + k] for i in range(0, len(lst), k)]
    vlib.check_executions(ctx, native, chunks(seq, 50), "seq", SPECDIR, TRACE[0], TRACE[1], key_native, tlc_timeout=1800)
    vlib.check_executions(ctx, native, chunks(conc, 50), "conc", SPECDIR, TRACE[0], TRACE[1], key_native, tlc_timeout=1800)
    vlib.check_executions(ctx, native, chunks(agg, 4), "stress", SPECDIR, TRACE[0], TRACE[1], key_native, driver_timeout=1500)
    ctx.assumptions.append("under the cooperative scheduler: sequential consistency at the granularity of the hooked atomic accesses; "
                           "weak-memory effects are only sampled by the native runs on this x86-64 machine (<= 4 threads at a time)")
    ctx.assumptions.append("only the GCC (__sync builtin) branch of Atomic.hpp is compiled and exercised; the _MSC_VER branch is not")
    return vlib.finish(ctx, "model_checking",
                       "TLC state graphs of 3-thread programs of Atomic calls (counters, tickets, compareAndSwap races, mixed calls, testAndSet spin lock) -> every edge "
                       "replayed as a schedule on the real functions (int32 / uint32 / int64 / uint64 / pointer operands, values at 0, at the unsigned and at the signed "
                       "limit) under the cooperative scheduler, each call's result, sign and the variable's value validated by TLC against AtomicOps!Step; random programs under "
                       "random / PCT schedules; native real-thread executions validated by TLC's search for a linearization; sequential table of every declared overload at the "
                       "type limits; native stress runs (lost updates, duplicate tickets, compareAndSwap winners, swap tokens, spin-lock exclusion) judged by conservation in "
                       "limb arithmetic + driver oracles; distinct = distinct (program, schedule) pairs / op lists")


def replay(ctx, path):
    sched, native = build()
    if path.endswith(".args"):
        with open(path) as f:
            args = shlex.split(f.read().strip())
        check_runs(ctx, sched, [args], "replay")
    else:
        vlib.check_executions(ctx, native, vlib.read_ops_file(path), "replay", SPECDIR, TRACE[0], TRACE[1], key_native)
    return vlib.finish(ctx, "model_checking", "replay")
