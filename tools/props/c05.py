"""C05 - elements of node and pool containers never move while they live.

Layer 1  spec/containers/Stability.tla (ghost specification: address stability of every living instance, iterators kept
         since insertion, in-place construction of the pool classes), laid over the functional specifications RefSeq /
         OrderedTable / OrderedMap run with STRICT identities (which instance each container holds after every operation:
         unchanged, swap hands the elements over) by the trace specifications LifetimeSeqTrace / LifetimeTableTrace /
         LifetimeMapTrace with Prop = "C05"; stand-alone model LifetimeModel.tla (StableProp, InPlaceProp, IdentityProp;
         the seeded bugs rotateCopies, swapCopies, swapMoves, poolTemp must be reported by TLC)
Layer 2  reused: AvlImpl (rotations, removals) and HashChainsImpl (chain unlinks, swap) state graphs
Drivers  harness/seq, harness/hashtab, harness/ordmap: every event carries (serial, address id) of every element and the
         iterators kept since insertion, re-dereferenced; NoCopy elements for PoolList / PoolMap (copying does not compile)
         and the copy / assignment counters of the key type.  Array is excluded by the property (it may relocate).

The machinery is shared with C04 (props/c04.py).
"""
from props import c04

RULE = ("every edge of the Layer-1 reference graphs (RefSeq, OrderedTable, OrderedMap) and of the Layer-2 graphs (AvlImpl: "
        "rotations / removals, HashChainsImpl: chain unlinks / swap) replayed on List, PoolList, HashMap, HashSet, PoolMap, Map, "
        "MultiMap + seeded random histories; after every step TLC validates identities (strict functional match), the address "
        "of every living instance, the iterators kept since insertion and the copy counters of the pool classes against "
        "Stability; distinct = distinct op sequences")


def build():
    return c04.build()


def run(ctx):
    return c04.run_prop(ctx, "C05", RULE)


def replay(ctx, path):
    return c04.replay_prop(ctx, "C05", path)


def selftest(ctx):
    return c04.selftest_prop(ctx, "C05")
