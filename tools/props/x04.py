"""X04 (extra) - Socket::Poll reports exactly the registered readiness, once per poll, and honours set / remove /
interrupt; inetAddr / inetNtoA; Error's per-thread state."""
import json
import os
import vlib
from vlib import hexs

SPECDIR = os.path.join(vlib.SPEC, "server")
SRCS = ["src/Socket/Socket.cpp", "src/String.cpp", "src/Memory.cpp", "src/Error.cpp", "src/Debug.cpp"]
NS = 4
EPOLLIN, EPOLLOUT, EPOLLERR, EPOLLHUP, EPOLLRDHUP = 0x001, 0x004, 0x008, 0x010, 0x2000
INT_MAX = 2 ** 31 - 1


def build():
    return vlib.build("drv_poll", ["poll/drv_poll.cpp"], SRCS, libs=["-ldl"])


def key_of(ops, step):
    """Signature of a failing step: the operation and the precondition that matters."""
    if not (0 < step <= len(ops)):
        return "X04.?"
    t = ops[step - 1].split()
    op = t[0]
    if op == "poll":
        tmo = int(t[1])
        if tmo > INT_MAX:
            return "Poll.poll:timeoutBeyondInt32"
        return "Poll.poll"
    if op in ("set", "remove", "clear", "intr", "ready", "open", "close", "pollreal"):
        return "Poll." + op
    if op in ("ntoa", "rt", "addr"):
        return "Socket.inet:" + op
    return "Error." + op


# ---------------------------------------------------------------------------------------------
# generators (they choose inputs; verdicts come from TLC's trace validation)

# readiness as the kernel reports it for stream sockets: hang-ups come with EPOLLIN|EPOLLRDHUP, errors with a hang-up.
# EPOLLERR is only generated together with EPOLLHUP: EPOLLERR alone (also what is left of EPOLLIN|EPOLLERR for a
# write-only mask) is not covered by the statement, see PollAbs.tla.
RAW = [0, 0, EPOLLIN, EPOLLIN, EPOLLOUT, EPOLLOUT, EPOLLIN | EPOLLOUT, EPOLLIN | EPOLLRDHUP, EPOLLIN | EPOLLRDHUP | EPOLLOUT,
       EPOLLIN | EPOLLRDHUP | EPOLLHUP, EPOLLIN | EPOLLRDHUP | EPOLLHUP | EPOLLERR, EPOLLIN | EPOLLRDHUP | EPOLLHUP | EPOLLOUT,
       EPOLLHUP, EPOLLHUP | EPOLLERR, EPOLLOUT | EPOLLHUP, EPOLLRDHUP, EPOLLOUT | EPOLLERR | EPOLLHUP]
MASKS = [0, 1, 1, 2, 2, 3, 3, 4, 8, 5, 10, 12, 9, 6, 15, 7]
TIMEOUTS = [0, 0, 1, 10, 250, 1000, 60000, INT_MAX, -1]
BIG_TIMEOUTS = [2 ** 31, 2 ** 31 + 5, 2 ** 32, 2 ** 32 + 7, 2592000000, 2 ** 40, 2 ** 62]


def class_to_raw(cls, rng=None):
    raw = (EPOLLIN if 1 in cls else 0) | (EPOLLOUT if 2 in cls else 0) | (EPOLLRDHUP if 4 in cls else 0) | (EPOLLHUP if 8 in cls else 0)
    if rng is not None and 8 in cls and rng.random() < 0.3:
        raw |= EPOLLERR
    return raw


def rand_poll_exec(rng, nops, big=False):
    ops = []
    reg = set()
    closed = set()
    nsock = rng.choice([2, 3, 4, 4])
    for _ in range(nops):
        k = rng.random()
        s = rng.randint(1, nsock)
        th = rng.choice([0, 0, 0, 1, 2])
        if k < 0.27:
            ops.append("set %d %d %d" % (s, rng.choice(MASKS), th))
            if s not in closed:
                reg.add(s)
        elif k < 0.35:
            ops.append("remove %d %d" % (s, th))
            reg.discard(s)
        elif k < 0.37:
            ops.append("clear %d" % th)
            reg.clear()
        elif k < 0.46:
            ops.append("intr %d" % th)
        elif k < 0.68:
            if s not in closed:
                ops.append("ready %d %d" % (s, rng.choice(RAW)))
        elif k < 0.70:
            if s in closed:
                ops.append("open %d" % s)
                closed.discard(s)
            elif s not in reg:                      # a registered socket is never closed (outside the specification)
                ops.append("close %d" % s)
                closed.add(s)
        else:
            tmo = rng.choice(BIG_TIMEOUTS) if (big and rng.random() < 0.5) else rng.choice(TIMEOUTS)
            ops.append("poll %d %d %d" % (tmo, rng.choice([1, 1, 2, 2, 3, 64]), th))
    return ops


def rand_text(rng):
    k = rng.random()
    o = [rng.choice([0, 1, 9, 10, 99, 100, 127, 128, 199, 200, 249, 250, 255, rng.randint(0, 255)]) for _ in range(4)]
    t = "%d.%d.%d.%d" % tuple(o)
    if k < 0.45:
        t += ":%d" % rng.choice([0, 1, 80, 443, 8080, 65535, 9999, 10000, rng.randint(0, 65535)])
    elif k < 0.55:      # not canonical: nothing demanded, must not crash
        t = rng.choice(["", ":", ":80", "1.2.3", "1.2.3.4:", "1.2.3.4:99999", "01.2.3.4", "256.1.1.1", "a.b.c.d", "1.2.3.4.5", "1..2.3",
                        "0x7f.0.0.1", "1.2.3.4:80:90", " 1.2.3.4", "1.2.3.4 ", "127.1", "1.2.3.4:-1", "9" * 40, "1.2.3.4:" + "7" * 30])
    return t


def rand_misc_exec(rng, nops):
    ops = []
    for _ in range(nops):
        k = rng.random()
        th = rng.choice([1, 2])
        if k < 0.16:
            ops.append("seterr %d %d %d" % (th, rng.choice([0, 1, 2, 4, 11, 13, 32, 104, 110, 111, 65535, 65536, 65537, 2 ** 31 - 1]), rng.randint(0, 1)))
        elif k < 0.34:
            ops.append("geterr %d %d" % (th, rng.randint(0, 1)))
        elif k < 0.48:
            n = rng.choice([0, 1, 2, 5, 17, 300])
            ops.append("setstr %d %s" % (rng.choice([0, 1, 2]), hexs([rng.choice([65, 66, 97, 32, 37, 200, 255, 10]) for _ in range(n)])))
        elif k < 0.64:
            ops.append("getstr %d %d" % (rng.choice([0, 1, 2]), rng.choice([0, 1, 1])))
        elif k < 0.67:
            ops.append("respawn %d" % th)
        elif k < 0.72:
            ops.append("intr %d" % th)               # other library calls on the same threads in between
        elif k < 0.76:
            ops.append("poll 0 64 %d" % th)
        elif k < 0.84:
            ops.append("ntoa %d %d" % (rng.choice([0, 1, 255, 256, 32512, 49320, 65535, rng.randint(0, 65535)]),
                                       rng.choice([0, 1, 255, 256, 257, 65535, rng.randint(0, 65535)])))
        elif k < 0.92:
            ops.append("rt %d %d" % (rng.randint(0, 65535), rng.randint(0, 65535)))
        else:
            ops.append("addr %s" % hexs(list(rand_text(rng).encode())))
    return ops


def octet_sweep():
    """inetNtoA / inetAddr round trip with every octet value in every position."""
    ops = []
    for pos in range(4):
        for v in range(256):
            o = [7, 77, 177, 250]
            o[pos] = v
            ops.append("rt %d %d" % (o[0] * 256 + o[1], o[2] * 256 + o[3]))
    return [ops[i:i + 128] for i in range(0, len(ops), 128)]


DIRECTED = [
    # more sockets ready than one fetch returns, registration changed between the fetch and the report
    ["set 1 1", "set 2 1", "set 3 3", "ready 1 1", "ready 2 1", "ready 3 5", "poll 10 1", "poll 10 1", "poll 10 1", "poll 10 1"],
    ["set 1 3", "set 2 3", "ready 1 5", "ready 2 5", "poll 10 64", "set 2 1", "poll 10 64", "poll 10 64"],
    ["set 1 3", "set 2 3", "ready 1 5", "ready 2 5", "poll 10 64", "set 2 2", "ready 2 1", "poll 10 64", "poll 10 64"],
    ["set 1 1", "set 2 1", "ready 1 1", "ready 2 1", "poll 10 64", "remove 2", "poll 10 64", "poll 10 64"],
    ["set 1 1", "set 2 1", "ready 1 1", "ready 2 1", "poll 10 64", "clear", "poll 10 64", "set 2 1", "poll 10 64"],
    ["set 1 1", "set 2 1", "ready 1 1", "ready 2 1", "poll 10 64", "remove 2", "set 2 2", "poll 10 64", "poll 10 64"],
    # interrupts: before the poll, several, from other threads, together with readiness, across clear()
    ["intr 1", "poll 1000 64", "poll 0 64"],
    ["intr 1", "intr 2", "intr 0", "poll 1000 64", "poll 5 64", "poll 5 64"],
    ["set 1 1", "ready 1 1", "intr 1", "poll 1000 64", "poll 1000 64", "poll 1000 64"],
    ["set 1 1", "ready 1 1", "intr 1", "poll 1000 1", "poll 1000 1", "poll 1000 1"],
    ["intr 2", "clear", "poll 1000 64", "poll 10 64"],
    ["set 1 1", "ready 1 1", "poll 10 64", "intr 1", "clear", "poll 1000 64", "poll 10 64"],
    # hang-ups
    ["set 1 0", "ready 1 16", "poll 10 64", "set 1 1", "poll 10 64", "set 1 0", "poll 10 64"],
    ["set 1 2", "ready 1 8208", "poll 10 64", "set 1 3", "poll 10 64"],
    ["set 1 0", "ready 1 8193", "poll 10 64"],
    # a socket without descriptor is not registered
    ["close 1", "set 1 1", "ready 2 1", "poll 10 64", "open 1", "set 1 1", "ready 1 1", "poll 10 64"],
]

REAL = [
    ["pollreal 1 3000 30", "poll 0 64"],
    ["pollreal 2 3000 0", "poll 0 64"],
    ["intr 1", "pollreal 2 3000 20", "poll 0 64", "poll 0 64"],
    ["set 1 1", "ready 1 1", "poll 0 64", "pollreal 1 3000 25", "poll 0 64"],
    ["pollreal 1 3000 15", "pollreal 2 3000 15", "poll 0 64"],
]


def label_to_op(rng, name, args):
    if name == "ISet":
        return "set %d %d %d" % (args[0], sum(args[1]), rng.choice([0, 0, 1, 2]))
    if name == "IRemove":
        return "remove %d" % args[0]
    if name == "IClear":
        return "clear"
    if name == "IInterrupt":
        return "intr %d" % rng.choice([0, 1, 2])
    if name == "IReady":
        return "ready %d %d" % (args[0], class_to_raw(set(args[1]), rng))
    if name == "IPollX":                                # (b, predicted kind, socket, flags): the prediction is compared by count_drift
        return "poll %d %d" % (rng.choice([0, 5, 1000]), args[0])
    raise ValueError("unexpected action label %s" % name)


def tally_trace(ctx, path):
    """Vacuity counters over what the real code did (notes only, never a verdict)."""
    c = ctx.notes.setdefault("poll_events", {"polls": 0, "event": 0, "early": 0, "timeout": 0, "from_cache": 0,
                                             "fetch_truncated_by_batch": 0, "flags0_event": 0, "multi_kind_event": 0,
                                             "pollreal": 0, "epoll_ctl_failures": 0})
    try:
        with open(path) as f:
            for line in f:
                if '"op":"poll"' in line:
                    e = json.loads(line)
                    c["polls"] += 1
                    if e["sock"] != 0:
                        c["event"] += 1
                        if e["f"] == 0:
                            c["flags0_event"] += 1
                        if bin(e["f"]).count("1") > 1:
                            c["multi_kind_event"] += 1
                    elif e["blocked"]:
                        c["timeout"] += 1
                    else:
                        c["early"] += 1
                    if e["oscalls"] == 0:
                        c["from_cache"] += 1
                    if len(e["batch"]) == e["b"]:
                        c["fetch_truncated_by_batch"] += 1
                elif '"op":"pollreal"' in line:
                    c["pollreal"] += 1
                elif '"ctlfail":' in line and '"ctlfail":0' not in line:
                    c["epoll_ctl_failures"] = max(c["epoll_ctl_failures"], json.loads(line)["ctlfail"])
    except (OSError, ValueError, KeyError):
        pass


def count_drift(ctx, path, walks):
    """Layer-2 drift: poll outcomes of the real code that differ from what PollImpl predicted on the replayed edge
    (information about the fidelity of the transcription, never a verdict)."""
    pred = {}
    for x, w in enumerate(walks):
        for i, (name, args) in enumerate(w):
            if name == "IPollX":
                pred[(x, i + 1)] = (args[1], args[2], sum(args[3]))
    x = -1
    n = bad = 0
    try:
        with open(path) as f:
            for line in f:
                if '"op":"reset"' in line:
                    x += 1
                elif '"op":"poll"' in line:
                    e = json.loads(line)
                    p = pred.get((x, e["ln"]))
                    if p is None:
                        continue
                    n += 1
                    kind = "event" if e["sock"] != 0 else ("timeout" if e["blocked"] else "early")
                    if (kind, e["sock"], e["f"]) != p:
                        bad += 1
                        if bad <= 3:
                            ctx.notes.setdefault("l2_drift_samples", []).append({"execution": x, "step": e["ln"], "predicted": list(p),
                                                                               "observed": [kind, e["sock"], e["f"]]})
    except (OSError, ValueError, KeyError):
        return
    ctx.drift += bad
    ctx.notes["l2_poll_outcomes_compared"] = ctx.notes.get("l2_poll_outcomes_compared", 0) + n


def check_executions(ctx, binary, executions, tag):
    bad = vlib.check_executions(ctx, binary, executions, tag, SPECDIR, "PollAbsTrace", "PollAbsTrace.cfg", key_of)
    tally_trace(ctx, os.path.join(ctx.work, "trace_%s.ndjson" % tag))
    return bad


def run(ctx):
    binary = build()
    # 1. Layer 1 itself: its obligations hold in the bounded reference model
    r = vlib.tlc(SPECDIR, "PollAbs", "PollAbs_small.cfg" if ctx.quick else "PollAbs.cfg", workers=4, timeout=900)
    ctx.add_tlc("PollAbs", r)
    # 2. Layer 2: the epoll implementation refines Layer 1 (safety, exhaustive), its state graph is replayed on the real
    #    Socket::Poll edge by edge (direction A)
    graphs = [("PollImpl_tiny.cfg", "tiny")] if ctx.quick else [("PollImpl_small.cfg", "small"), ("PollImpl_n3.cfg", "n3")]
    for cfg, tag in graphs:
        dot = os.path.join(ctx.work, "pollimpl_%s.dot" % tag)
        r = vlib.tlc(SPECDIR, "PollImpl", cfg, workers=4, timeout=1500, dump=dot, xmx="4g")
        ctx.add_tlc("PollImpl:" + tag, r)
        if r.ok:
            walks, nedges = vlib.graph_walks(dot, max_len=120, seed=ctx.seed)
            os.remove(dot)
            cnt = ctx.notes.setdefault("l2_action_edges_replayed", {})
            for w in walks:
                for name, _ in w:
                    cnt[name] = cnt.get(name, 0) + 1
            execs = [[label_to_op(ctx.rng, *st) for st in w] for w in walks]
            ctx.notes["graph_edges_replayed_" + tag] = nedges
            bad = check_executions(ctx, binary, execs, "graph_" + tag)
            if not bad:
                count_drift(ctx, os.path.join(ctx.work, "trace_graph_%s.ndjson" % tag), walks)
    # 3. Layer 2 liveness under weak fairness of poll calls and the kernel's round robin: pending registered readiness is
    #    eventually reported, an interrupt eventually makes a poll return early
    for cfg, tag in ([("PollImpl_live.cfg", "live2")] if ctx.quick else [("PollImpl_live.cfg", "live2"), ("PollImpl_live3.cfg", "live3")]):
        r = vlib.tlc(SPECDIR, "PollImpl", cfg, workers=4, timeout=1500, xmx="4g")
        ctx.add_tlc("PollImpl:" + tag, r)
    # 4. direction B: directed + seeded random histories, every step validated by TLC against PollAbs / NetMisc
    check_executions(ctx, binary, DIRECTED, "directed")
    check_executions(ctx, binary, REAL if ctx.quick else REAL * 4, "realblock")
    nexec, nops = (300, 50) if ctx.quick else (4000, 70)
    check_executions(ctx, binary, [rand_poll_exec(ctx.rng, nops) for _ in range(nexec)], "random")
    check_executions(ctx, binary, [rand_poll_exec(ctx.rng, 12, big=True) for _ in range(20 if ctx.quick else 200)], "bigtimeout")
    check_executions(ctx, binary, [rand_misc_exec(ctx.rng, nops) for _ in range(nexec // 3)] + octet_sweep(), "misc")
    ctx.assumptions += [
        "the operating system under Socket::Poll is scripted by the driver's epoll_create1/epoll_ctl/epoll_wait shim (interest "
        "list mirrored from successful epoll_ctl calls, kernel filtering rule re-implemented, eventfd readiness real)",
        "EPOLLERR without any other bit, EINTR and closing a registered socket without remove() are not generated",
        "liveness assumes the kernel's round-robin ready list (PollImpl_norot.cfg shows it is needed) and weak fairness of poll calls",
        "interrupt() concurrent with a blocked poll() is exercised with real threads and the real kernel (pollreal, wall-clock "
        "oracle: returns before half of a 3 s time-out); all other thread interleavings are at call level",
    ]
    return vlib.finish(ctx, "model_checking",
                       "every edge of the PollImpl state graphs (TLC, refinement of PollAbs checked exhaustively, liveness "
                       "under fairness) replayed on the real Socket::Poll over a scripted epoll + directed and seeded random "
                       "histories (4 sockets, 3 threads at call level, real blocking interrupt tests, address / error helper "
                       "ops); every step validated by TLC against PollAbs / NetMisc; distinct = distinct op sequences")


def replay(ctx, path):
    binary = build()
    check_executions(ctx, binary, vlib.read_ops_file(path), "replay")
    return vlib.finish(ctx, "model_checking", "replay of one op sequence")
