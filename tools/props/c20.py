"""C20 - Child processes get exact arguments; option parsing follows getopt rules."""
import glob
import itertools
import os
import shutil
from concurrent.futures import ThreadPoolExecutor
import vlib
from vlib import hexs

SPECDIR = os.path.join(vlib.SPEC, "text")
OPT_ALPHA = b"-ab=v"
CMD_ALPHA = b'a "\\'


def build():
    return vlib.build("drv_proc", ["proc/drv_proc.cpp"],
                      ["src/Process.cpp", "src/File.cpp", "src/Directory.cpp", "src/Memory.cpp", "src/String.cpp"])


def strings(maxlen, alpha):
    for n in range(maxlen + 1):
        for t in itertools.product(alpha, repeat=n):
            yield bytes(t)


# ------------------------------------------------------------------------------------------------ keys
def _bs_in_quotes(b):
    inq = False
    i = 0
    while i < len(b):
        c = b[i:i + 1]
        if inq and c == b"\\":
            if b[i + 1:i + 2] == b'"':
                i += 2
                continue
            return True
        if c == b'"':
            inq = not inq
        i += 1
    return False


def key_of(ops, step, why=""):
    """Signature of a failing step: the entry point and the shape of its input that matters."""
    t = ops[step - 1].split() if 0 < step <= len(ops) else ["?"]
    if t[0] == "args":
        ws = [bytes.fromhex(x[1:]) for x in t[1:]]
        shape = set()
        for w in ws:
            if w.startswith(b"--") and len(w) > 2:
                shape.add("long=" if b"=" in w else "long")
            elif w.startswith(b"-") and len(w) > 2:
                shape.add("cluster")
            elif w.startswith(b"-") and len(w) == 2:
                shape.add("short")
        return "Arguments.read:" + ("+".join(sorted(shape)) or "plain")
    if t[0] == "spawn2":
        return "Process.twoChildren"
    if t[0] == "spawnlate":
        return "Process.joinBeforeOutput"
    if t[0] == "cmd":
        b = bytes.fromhex(t[2][1:])
        return "Process.commandLine:" + ("backslashInQuotes" if _bs_in_quotes(b) else "quoted" if b'"' in b else "plain")
    if t[0] == "spawn":
        return "Process.spawn:form%s:env%s%s" % (t[1], t[3], ":streams" + t[2] if str(why).startswith("spawn-std") else "")
    return "Process." + t[0]


# ------------------------------------------------------------------------------------------------ binding step
def _sweep_scratch():
    for d in glob.glob(os.path.join(vlib.BUILD, "proc.*")):
        try:
            pid = int(d.rsplit(".", 1)[1])
            os.kill(pid, 0)
        except ProcessLookupError:
            shutil.rmtree(d, ignore_errors=True)
        except (ValueError, PermissionError):
            pass


def _stats(ctx, trace):
    """Vacuity counters: kinds of parser events, command lines inside the documented form, spawn shapes."""
    import json
    c = ctx.cov

    def inc(k):
        c[k] = c.get(k, 0) + 1
    names = {0: "nonoption", 63: "unknown", 58: "missing"}
    with open(trace) as f:
        for line in f:
            if '"op":"reset"' in line:
                continue
            e = json.loads(line)
            if e["op"] == "args":
                for ev in e["out"]:
                    inc("args.event." + names.get(ev["c"], "option" + ("+value" if ev["a"] else "")))
            elif e["op"] == "cmd":
                inc("cmd.words=%d" % min(len(e["cargs"]), 4))
                if 34 in e["cl"]:
                    inc("cmd.quoted")
            elif e["op"] == "spawn":
                inc("spawn.form%d" % e["form"])
                inc("spawn.streams%d" % e["streams"])


def check_executions(ctx, binary, executions, tag, module, cfg, nproc=1, timeout=1500):
    """Like vlib.check_executions (executions -> real code -> ndjson trace -> TLC trace spec), but the executions
    (all independent, one op each) are spread over nproc driver processes, and only the first replay file per
    key is kept."""
    n = len(executions)
    nproc = max(1, min(nproc, n // 50 or 1))
    bounds = [n * i // nproc for i in range(nproc + 1)]
    parts = [(bounds[i], executions[bounds[i]:bounds[i + 1]]) for i in range(nproc)]

    def one(part):
        off, ex = part
        tp = os.path.join(ctx.work, "trace_%s_%d.ndjson" % (tag, off))
        dr = vlib.run_driver(binary, ex, tp, timeout=timeout, args=[vlib.BUILD])
        return off, tp, dr
    with ThreadPoolExecutor(max_workers=nproc) as pool:
        results = list(pool.map(one, parts))
    trace = os.path.join(ctx.work, "trace_%s.ndjson" % tag)
    crashes = []
    # merge: executions that produced no "reset" line (lost by a crash restart) cannot occur: run_driver restarts
    # after the crashed execution, so every execution contributes its reset line in order
    with open(trace, "wb") as out:
        for off, tp, dr in results:
            with open(tp, "rb") as f:
                shutil.copyfileobj(f, out)
            os.remove(tp)
            crashes += [(off + idx, txt, kind) for idx, txt, kind in dr.crashes]
    ctx.evaluations += n
    _stats(ctx, trace)
    index = vlib.index_trace(trace)
    # map trace execution numbers to real execution indices: a crashed execution may have logged only its reset
    seen_keys = set(k for k, _, _ in ctx.violations)

    def report(key, name, lines, text):
        if key in seen_keys and key not in ctx.known:
            return
        seen_keys.add(key)
        ctx.report(key, ctx.save_replay(name, lines), text)
    crashed = set()
    for idx, txt, kind in crashes:
        crashed.add(idx)
        ops = executions[idx]
        report("%s:%s" % (key_of(ops, len(ops)), kind), "%s_crash_%d.ops" % (tag, idx), ["reset"] + ops,
               "driver %s in execution %d: ops=%s\n%s" % (kind, idx, ops, txt[-1800:]))
    r, mism, done = vlib.validate_trace(SPECDIR, module, cfg, trace, timeout=timeout)
    ctx.add_tlc("trace:" + tag, r, must_pass=False)
    for pr in getattr(r, "printed", []):
        if pr.startswith('"TRACE-DONE"') and module == "CmdLineTrace":
            ctx.cov["cmd.inside_documented_form"] = ctx.cov.get("cmd.inside_documented_form", 0) + int(pr.split(",")[-1])
    if r.violation:
        ctx.broken.append("trace spec %s: TLC error: %s" % (module, r.violation[:1200]))
    if not done and not r.broken and not r.violation:
        ctx.broken.append("trace validation of %s did not reach the end of the trace" % tag)
    bad = set()
    for line, why in mism:
        ex, step = index[line - 1]
        if ex in bad or ex >= n:
            continue
        bad.add(ex)
        ops = executions[ex]
        report(key_of(ops, step, why) + ":" + str(why), "%s_mismatch_%d.ops" % (tag, ex), ["reset"] + ops[:step],
               "Layer-1 mismatch (%s) in execution %d: ops=%s" % (why, ex, ops[:step]))
    ctx.traces += n - len(bad | crashed)
    for e in executions[:20000]:
        ctx.distinct.add(hash(tuple(e)))
    if executions:
        ctx.sample({"source": tag, "ops": executions[len(executions) // 2][:3]})
    _sweep_scratch()
    return bad | crashed


# ------------------------------------------------------------------------------------------------ generators
def args_execs(ctx):
    """Argument vectors over {-, a, b, =, v}: exhaustive for short words, sampled for the rest of the
    <= 3 words x <= 4 characters space (781^3 vectors cannot be enumerated)."""
    if ctx.quick:
        one, two, three, nrand = 5, 2, 1, 6000
    else:
        one, two, three, nrand = 6, 4, 2, 150000
    ex = [["args " + hexs(w)] for w in strings(one, OPT_ALPHA)]
    w2 = list(strings(two, OPT_ALPHA))
    ex += [["args %s %s" % (hexs(a), hexs(b))] for a in w2 for b in w2]
    w3 = list(strings(three, OPT_ALPHA))
    ex += [["args %s %s %s" % (hexs(a), hexs(b), hexs(c))] for a in w3 for b in w3 for c in w3]
    rng = ctx.rng
    for _ in range(nrand):
        ws = []
        for _ in range(rng.randint(1, 3)):
            n = rng.randint(0, 4)
            w = bytes(rng.choice(OPT_ALPHA) for _ in range(n))
            if rng.random() < 0.5 and n:
                w = (b"-" if rng.random() < 0.5 else b"--") + w[:rng.randint(0, 3)]
                if rng.random() < 0.3:
                    w += b"=" + bytes(rng.choice(b"abv") for _ in range(rng.randint(0, 2)))
            ws.append(w)
        ex.append(["args " + " ".join(hexs(w) for w in ws)])
    return ex


def cmd_execs(ctx):
    maxlen, nrand = (5, 500) if ctx.quick else (8, 6000)
    ex = []
    k = 0
    for t in strings(maxlen, CMD_ALPHA):
        ex.append(["cmd %d %s" % (k % 2, hexs(t))])
        k += 1
    rng = ctx.rng
    for _ in range(nrand):
        # longer lines, biased towards the documented form: words, quoted segments, escaped quotes
        words = []
        for _ in range(rng.randint(1, 3)):
            w = b""
            for _ in range(rng.randint(1, 2)):
                if rng.random() < 0.5:
                    w += b"a" * rng.randint(1, 2)
                else:
                    w += b'"' + b"".join(rng.choice([b"a", b" ", b'\\"', b"\\", b"a"]) for _ in range(rng.randint(0, 3))) + b'"'
            words.append(w)
        t = b" ".join(words)
        if rng.random() < 0.15:
            t = bytes(rng.choice(CMD_ALPHA) for _ in range(rng.randint(6, 9)))
        ex.append(["cmd %d %s" % (rng.randint(0, 1), hexs(t))])
    return ex


ARGSETS = [[], [b"a"], [b"ab", b""], [b"a b", b'"q"', b"\\"], [b"-x", b"--y=z"]]
PLAINSETS = [[], [b"a"], [b"ab", b"c"], [b"-x", b"--y=z"]]


def spawn_execs(ctx):
    forms, codes = range(5), [0, 1, 2, 127, 255]
    sizes = [0, 1, 4095, 4096, 65535, 65536, 200000]
    ex = []
    i = 0
    for form in forms:
        for streams in range(8):
            if form in (0, 3) and streams:
                continue
            for env in (0, 1, 2, 3):
                for size in sizes:
                    if env >= 2 and size != sizes[(i + env) % len(sizes)]:
                        continue            # the unusual environments once per form x streams
                    if not streams and size != sizes[i % len(sizes)]:
                        continue            # without redirection the payload size plays no role
                    code = codes[i % len(codes)]
                    sets = PLAINSETS if form >= 3 else ARGSETS
                    args = sets[i % len(sets)]
                    i += 1
                    ex.append(["spawn %d %d %d %d %d %d %d %s" % (form, streams, env, code, size, size, size,
                                                                  " ".join(hexs(a) for a in args))])
    # all exit codes and argument sets on every form
    for form in forms:
        for code in codes:
            for args in (PLAINSETS if form >= 3 else ARGSETS):
                ex.append(["spawn %d %d %d %d 1 1 1 %s" % (form, 0 if form in (0, 3) else 1, code % 4, code,
                                                          " ".join(hexs(a) for a in args))])
    if ctx.quick:
        big = [e for e in ex if " 200000 " in e[0] or " 65536 " in e[0] or " 65535 " in e[0]]
        rest = [e for e in ex if e not in big]
        ctx.rng.shuffle(big)
        ex = rest + big[:40]
    # two Process objects alive at the same time (descriptor numbers freed by one are taken by the other)
    for code1, nin1, nout1, code2, nout2, nerr2 in [(0, 5, 5, 3, 7, 9), (2, 0, 100, 0, 4096, 1), (1, 4096, 1, 255, 1, 4096), (0, 1, 1, 0, 0, 0)]:
        ex.append(["spawn2 %d %d %d %d %d %d" % (code1, nin1, nout1, code2, nout2, nerr2)])
        # ... the second child started while the first child's stdin is still open (it must not inherit that descriptor)
        ex.append(["spawn2 %d %d %d %d %d %d 1" % (code1, nin1, nout1, code2, nout2, nerr2)])
    # join() while the child has yet to write to a redirected stream nobody reads
    ex.append(["spawnlate 7 5"]); ex.append(["spawnlate 0 100"])
    # the multiplexed read after a select() that timed out once (simulated by the driver's interposed select)
    for form in (1, 2):
        ex.append(["selto", "spawn %d 3 1 7 0 5000 300 %s" % (form, hexs(b"x"))])
    return ex


def run(ctx):
    binary = build()
    _sweep_scratch()
    # 1. option parsing: Layer 1 sanity, Layer 2 cursor machine (memory safety + refinement), all vectors on the real code
    r = vlib.tlc(SPECDIR, "Getopt", "Getopt.cfg", workers=4, timeout=600)
    ctx.add_tlc("Getopt", r)
    r = vlib.tlc(SPECDIR, "GetoptImpl", "GetoptImpl.cfg" if ctx.quick else "GetoptImpl_big.cfg", workers=8, timeout=1500, xmx="6g")
    ctx.add_tlc("GetoptImpl", r)
    r = vlib.tlc(SPECDIR, "GetoptImpl", "GetoptImpl_3.cfg", workers=8, timeout=900, xmx="4g")
    ctx.add_tlc("GetoptImpl_3words", r)
    ex = args_execs(ctx)
    ctx.notes["argument_vectors"] = len(ex)
    check_executions(ctx, binary, ex, "args", "GetoptTrace", "GetoptTrace.cfg", nproc=4)
    # 2. command-line quoting
    r = vlib.tlc(SPECDIR, "CmdLine", "CmdLine.cfg", workers=4, timeout=600)
    ctx.add_tlc("CmdLine", r)
    ex = cmd_execs(ctx)
    ctx.notes["command_lines"] = len(ex)
    check_executions(ctx, binary, ex, "cmd", "CmdLineTrace", "CmdLineTrace.cfg", nproc=6)
    # 3. what the child observes: argv, environment, exit code, streams
    r = vlib.tlc(SPECDIR, "Spawn", "Spawn.cfg", workers=2, timeout=300)
    ctx.add_tlc("Spawn", r)
    ex = spawn_execs(ctx)
    ctx.notes["spawn_requests"] = len(ex)
    check_executions(ctx, binary, ex, "spawn", "SpawnTrace", "SpawnTrace.cfg", nproc=4)
    return vlib.finish(ctx, "model_checking",
                       "argument vectors over {-,a,b,=,v} (exhaustive for short words, sampled up to 3 words x 4 chars) on "
                       "the real Process::Arguments under ASan, sequences judged by TLC against Getopt; GetoptImpl (cursor "
                       "machine) model-checked for memory safety and refinement; all command lines up to the tier's length "
                       "over {a,space,\",\\} started through the real Process into an echo child, argv judged against CmdLine; "
                       "the request space forms x streams x env x exit codes x payload sizes judged against Spawn")


def replay(ctx, path):
    binary = build()
    execs = vlib.read_ops_file(path)
    for op, mod in (("args", "GetoptTrace"), ("cmd", "CmdLineTrace"), ("spawn", "SpawnTrace")):
        sel = [e for e in execs if e and e[0].split()[0] == op]
        if sel:
            check_executions(ctx, binary, sel, "replay" + op, mod, mod + ".cfg")
    return vlib.finish(ctx, "model_checking", "replay of one op sequence")


def selftest(ctx):
    """Binding self-test of the trace specifications: an unmodified trace is accepted, a trace with one corrupted
    observation (option character, echoed argument, exit code) is rejected."""
    binary = build()
    cases = [("args x2d61 x66", "GetoptTrace", '"c":97', '"c":98'),
             ("cmd 1 x612061", "CmdLineTrace", '"cargs":[[97],[97]]', '"cargs":[[97,32,97]]'),
             ("spawn 1 1 1 2 0 5 0 x61", "SpawnTrace", '"xc":2', '"xc":0')]
    ok = True
    for op, module, old, new in cases:
        tp = os.path.join(ctx.work, "selftest.ndjson")
        vlib.run_driver(binary, [[op]], tp, args=[vlib.BUILD])
        text = open(tp).read()
        r, mism, done = vlib.validate_trace(SPECDIR, module, module + ".cfg", tp)
        good = done and not mism and old in text
        with open(tp, "w") as f:
            f.write(text.replace(old, new, 1))
        r, mism2, done2 = vlib.validate_trace(SPECDIR, module, module + ".cfg", tp)
        bad = done2 and len(mism2) == 1
        vlib.log("selftest %-12s original accepted=%s corrupted rejected=%s" % (module, good, bad))
        ok = ok and good and bad
    _sweep_scratch()
    return 0 if ok else 2
