"""C04 - containers construct and destroy each element exactly once; copies are deep; self-arguments as if copied first.

Layer 1  spec/containers/Lifetime.tla (ghost specification: registry view, exactly-once step rule, quiescence), laid over
         the functional specifications RefSeq / OrderedTable / OrderedMap run with STRICT identities by the trace
         specifications LifetimeSeqTrace / LifetimeTableTrace / LifetimeMapTrace (Prop = "C04");
         stand-alone model LifetimeModel.tla (the reference machine satisfies the predicates; seeded bugs violate them)
Layer 2  reused: AvlImpl (rotations), HashChainsImpl (chain unlinks), ArrayImpl (reallocations) state graphs
Drivers  harness/seq, harness/hashtab, harness/ordmap (Tracked / NoCopy elements with an instance registry, ASan + LSan)

The module is shared with C05 (props/c05.py): everything takes the property id and selects the cfg (Prop constant).
"""
import os
from concurrent.futures import ThreadPoolExecutor
import vlib
from props import c01, c02, c03

SPECDIR = os.path.join(vlib.SPEC, "containers")
TITLE = {"C04": "Lifetime", "C05": "Stability"}
CLASS = {"list": "List", "array": "Array", "poollist": "PoolList", "hashmap": "HashMap", "hashset": "HashSet",
         "poolmap": "PoolMap"}


# ---------------------------------------------------------------------------------------------
# families = (driver, trace specification)

def _kinds_before(ops, step, default):
    kinds = {1: default, 2: default}
    for line in ops[:max(0, step - 1)]:
        t = line.split()
        if t[0] == "new":
            kinds[int(t[1])] = t[2]
        elif t[0] == "fini":
            kinds = {1: default, 2: default}
    return kinds


def make_key_of(prop, fam):
    """Signature of a failing step: <Lifetime|Stability>.<class>.<operation>"""
    title = TITLE[prop]

    def key_of(ops, step):
        if not (0 < step <= len(ops)):
            return "%s.?.?" % title
        t = ops[step - 1].split()
        try:
            if fam == "map":
                cls = c01.KINDS.get(int(t[1]), "?")
            else:
                default = "list" if fam == "seq" else "hashmap"
                kinds = _kinds_before(ops, step, default)
                cls = CLASS.get(t[2] if t[0] == "new" else kinds.get(int(t[1]), "?"), "?")
        except (IndexError, ValueError):
            cls = "?"
        return "%s.%s.%s" % (title, cls, t[0])
    return key_of


FAMILIES = {
    "seq": dict(build=c03.build, module="LifetimeSeqTrace", args=()),
    "table": dict(build=c02.build, module="LifetimeTableTrace", args=()),
    "map": dict(build=c01.build, module="LifetimeMapTrace", args=("noshape",)),
}


def build():
    return [FAMILIES[f]["build"]() for f in ("seq", "table", "map")]


def with_fini(executions):
    """every execution ends with the destruction of all containers (lifetime balance at quiescence)"""
    return [e if (e and e[-1].startswith("fini")) else e + ["fini 1"] for e in executions]


def op_histogram(executions):
    h = {}
    for e in executions:
        for line in e:
            op = line.split()[0]
            h[op] = h.get(op, 0) + 1
    return dict(sorted(h.items()))


def check(ctx, prop, fam, binary, executions, tag, fini=True):
    f = FAMILIES[fam]
    if fini:
        executions = with_fini(executions)
    ctx.notes["ops_" + tag] = op_histogram(executions)
    # replay files are named after the tag: the family prefix tells replay() which driver / trace specification to use
    return vlib.check_executions(ctx, binary, executions, "%s_%s" % (fam, tag), SPECDIR, f["module"], "%s_%s.cfg" % (f["module"], prop),
                                 make_key_of(prop, fam), driver_args=f["args"], driver_timeout=1200, tlc_timeout=1500)


# ---------------------------------------------------------------------------------------------
# direction B: seeded random histories that DO contain the self-argument operations, copy / assign followed by
# mutation of either side, clear, and fini.  The generators keep their own idea of the contents only to choose
# arguments that are usually valid (an invalid request is logged as "nop" by the drivers).

SEQ_VALUES = (1, 2, 3, 4)


def rand_seq(rng, nops, kinds=("list", "array", "poollist"), selfw=1.0):
    ops = []
    kind = rng.choice(kinds)
    K = {1: kind, 2: kind if rng.random() < 0.85 else rng.choice(kinds)}
    C = {1: [], 2: []}
    for i in (1, 2):
        ops.append("new %d %s %d" % (i, K[i], rng.choice([0, 0, 1, 4, 5, 8]) if K[i] == "array" else 0))
    big = rng.random() < 0.35
    limit = 13 if big else 6
    for _ in range(nops):
        i = rng.randint(1, 2)
        o = 3 - i
        k = K[i]
        q = C[i]
        n = len(q)
        v = rng.choice(SEQ_VALUES)
        x = rng.random()
        if x < 0.02:
            K[i] = rng.choice(kinds) if rng.random() < 0.3 else K[o]
            ops.append("new %d %s %d" % (i, K[i], rng.choice([0, 1, 4, 8]) if K[i] == "array" else 0))
            C[i] = []
            continue
        if x < 0.027:
            ops.append("fini %d" % i)
            K = {1: "list", 2: "list"}
            C = {1: [], 2: []}
            continue
        grow = n < limit
        room = n + len(C[o]) <= limit + 2
        cands = []
        selfc = []
        if k == "list":
            cands += (["append"] * 4 + ["prepend"] * 3 + ["insert"] * 4) if grow else []
            cands += ["rmat"] * 3 + ["rmval"] * 2 + ["rmfront", "rmback", "find", "front", "back", "eq", "sort", "sort", "clear",
                                                     "swap", "swap", "copy", "copy", "assign", "assign"]
            if room:
                cands += ["appendall", "prependall", "insertall"]
            selfc += ["swapself", "assignself", "assignself"]
            if n and 2 * n <= limit + 2:
                selfc += ["appendself", "prependself", "insertself", "insertself"]
            if n and grow:
                selfc += ["appendown"] * 2 + ["insertown"] * 3
        elif k == "array":
            cands += (["append"] * 6 + ["appendn"]) if grow else []
            cands += ["rmat"] * 3 + ["rmidx"] * 3 + ["rmfront", "rmback", "find", "front", "back", "clear", "swap", "swap", "copy",
                                                     "copy", "assign", "assign", "resize", "resize", "resized", "reserve", "reserve"]
            if room:
                cands += ["appendall"]
            selfc += ["swapself", "assignself", "assignself"]
            if n and 2 * n <= limit + 2:
                selfc += ["appendself"] * 2
            if n and grow:
                selfc += ["appendown"] * 4 + ["resizeown"] * 3 + ["appendrange"] * 3
        else:
            cands += ["append"] * 7 if grow else []
            cands += ["rmat"] * 3 + ["rmref"] * 3 + ["rmfront", "rmback", "clear", "swap", "swap"]
            selfc += ["swapself"]
        if selfc and rng.random() < 0.22 * selfw:
            op = rng.choice(selfc)
        else:
            op = rng.choice(cands)
        same = K[1] == K[2]
        pos = rng.randint(0, n)
        idx = rng.randint(0, n - 1) if n else 0
        if op == "append":
            ops.append("append %d %d 0" % (i, v)); q.append(v)
        elif op == "prepend":
            ops.append("prepend %d %d 0" % (i, v)); q.insert(0, v)
        elif op == "insert":
            ops.append("insert %d %d %d" % (i, v, pos)); q.insert(pos, v)
        elif op == "appendn":
            m = rng.choice([0, 1, 2, 3, 5])
            ops.append("appendn %d %d %d" % (i, v, m)); q.extend([v] * m)
        elif op in ("rmat", "rmref"):
            if n == 0:
                continue
            ops.append("%s %d 0 %d" % (op, i, idx)); del q[idx]
        elif op == "rmidx":
            m = rng.randint(0, n + 1)
            ops.append("rmidx %d 0 %d" % (i, m))
            if m < n:
                del q[m]
        elif op == "rmval":
            ops.append("rmval %d %d 0" % (i, v))
            if v in q:
                q.remove(v)
        elif op in ("rmfront", "rmback"):
            if n == 0:
                continue
            ops.append("%s %d 0 0" % (op, i)); del q[0 if op == "rmfront" else -1]
        elif op in ("front", "back"):
            if n == 0:
                continue
            ops.append("%s %d 0 0" % (op, i))
        elif op == "find":
            ops.append("find %d %d 0" % (i, rng.choice(SEQ_VALUES + (5,))))
        elif op == "eq":
            ops.append("eq %d 0 0" % i)
        elif op == "sort":
            ops.append("sort %d 0 0" % i); q.sort()
        elif op == "clear":
            ops.append("clear %d 0 0" % i); del q[:]
        elif op == "resize":
            m = rng.choice([0, 1, 2, 3, 4, 5, 7, 8, 9]) if not big else rng.randint(0, 14)
            ops.append("resize %d %d %d" % (i, v, m)); C[i] = (q + [v] * m)[:m] if m > n else q[:m]
        elif op == "resized":
            m = rng.choice([0, 1, 3, 4, 8])
            ops.append("resized %d 0 %d" % (i, m)); C[i] = (q + [0] * m)[:m] if m > n else q[:m]
        elif op == "reserve":
            ops.append("reserve %d 0 %d" % (i, rng.choice([0, 1, 3, 4, 5, 7, 8, 12])))
        elif op == "swapself":
            ops.append("swapself %d 0 0" % i)
        elif op == "assignself":
            ops.append("assignself %d 0 0" % i)
        elif op == "appendself":
            ops.append("appendself %d 0 0" % i); C[i] = q + q
        elif op == "prependself":
            ops.append("prependself %d 0 0" % i); C[i] = q + q
        elif op == "insertself":
            ops.append("insertself %d 0 %d" % (i, pos)); C[i] = q[:pos] + q + q[pos:]
        elif op == "appendown":
            ops.append("appendown %d 0 %d" % (i, idx)); q.append(q[idx])
        elif op == "insertown":
            ops.append("insertown %d %d %d" % (i, idx, pos)); q.insert(pos, q[idx])
        elif op == "appendrange":
            a0 = rng.randint(0, n); cnt = rng.randint(0, n - a0)
            ops.append("appendrange %d %d %d" % (i, a0, cnt)); C[i] = q + q[a0:a0 + cnt]
        elif op == "resizeown":
            m = rng.choice([n, n + 1, n + 2, 4, 8, 9, max(0, n - 1)])
            ops.append("resizeown %d %d %d" % (i, idx, m)); C[i] = (q + [q[idx]] * m)[:m] if m > n else q[:m]
        elif not same:
            continue
        elif op == "swap":
            ops.append("swap %d 0 0" % i); C[1], C[2] = C[2], C[1]
        elif op in ("copy", "assign"):
            ops.append("%s %d 0 0" % (op, i)); C[i] = list(C[o])
            # ... followed by a mutation of one side (independence of copy and source)
            j = rng.choice([i, o])
            if K[j] != "poollist":
                w = rng.choice(SEQ_VALUES)
                if C[j] and rng.random() < 0.5:
                    z = rng.randint(0, len(C[j]) - 1)
                    ops.append("rmat %d 0 %d" % (j, z)); del C[j][z]
                else:
                    ops.append("append %d %d 0" % (j, w)); C[j].append(w)
        elif op == "appendall":
            ops.append("appendall %d 0 0" % i); C[i] = q + C[o]
        elif op == "prependall":
            ops.append("prependall %d 0 0" % i); C[i] = C[o] + q
        elif op == "insertall":
            ops.append("insertall %d 0 %d" % (i, pos)); C[i] = q[:pos] + C[o] + q[pos:]
    ops.append("fini 1")
    return ops


def rand_table(rng, nops, kinds=c02.KINDS, selfw=1.0):
    ops = []
    kind = rng.choice(kinds)
    K = {1: kind, 2: kind if rng.random() < 0.9 else rng.choice(kinds)}
    nkeys = rng.choice([3, 5, 8, 12, 16])
    target = min(nkeys, rng.choice([2, 4, 6, 9, 12]))
    C = {1: [], 2: []}
    for i in (1, 2):
        ops.append("new %d %s %d" % (i, K[i], rng.choice([0, 1, 1, 2, 2, 3, 3, 7, -1])))
    for _ in range(nops):
        i = rng.randint(1, 2)
        o = 3 - i
        k_ = K[i]
        ks = C[i]
        n = len(ks)
        same = K[1] == K[2]
        k = rng.randint(1, nkeys)
        if ks and rng.random() < (0.2 if n < target else 0.4):
            k = rng.choice(ks)
        v = rng.randint(1, 3)
        x = rng.random()
        if x < 0.02:
            K[i] = K[o] if rng.random() < 0.7 else rng.choice(kinds)
            ops.append("new %d %s %d" % (i, K[i], rng.choice([0, 1, 2, 3, 7, -1])))
            C[i] = []
            continue
        if x < 0.027:
            ops.append("fini %d" % i)
            K = {1: "hashmap", 2: "hashmap"}
            C = {1: [], 2: []}
            continue
        cands = ["append"] * 5 + ["insert"] * 4 + ["rmkey"] * 3 + ["rmat"] * 3 + ["find", "contains", "rmfront", "rmback", "front", "back"]
        if n < target:
            cands += ["append"] * 8 + ["insert"] * 8 + (["prepend"] * 5 if k_ != "poolmap" else [])
        elif rng.random() < 0.3:
            cands += ["clear"]
        selfc = ["swapself"]
        if k_ != "poolmap":
            cands += ["prepend"] * 3 + ["copy", "copy", "assign", "assign", "eq"]
            selfc += ["assignself"] * 2
            if n:
                selfc += ["appendown"] * 3
        else:
            cands += ["rmref"] * 3
        if n:
            selfc += ["rmkeyown"] * 2
        if k_ == "hashset":
            cands += ["appendall", "appendall", "rmall", "rmall"]
            selfc += ["appendself", "appendself", "rmself"]
        cands += ["swap", "swap", "clear"]
        op = rng.choice(selfc) if rng.random() < 0.2 * selfw else rng.choice(cands)
        if op in ("append", "prepend"):
            ops.append("%s %d %d %d 0" % (op, i, k, v))
            if k not in ks:
                ks.append(k) if op == "append" else ks.insert(0, k)
        elif op == "insert":
            p = rng.randint(0, n)
            ops.append("insert %d %d %d %d" % (i, k, v, p))
            if k not in ks:
                ks.insert(p, k)
        elif op == "rmkey":
            ops.append("rmkey %d %d 0 0" % (i, k))
            if k in ks:
                ks.remove(k)
        elif op in ("rmat", "rmref", "rmkeyown"):
            if n == 0:
                continue
            p = rng.randint(0, n - 1)
            ops.append("%s %d 0 0 %d" % (op, i, p))
            del ks[p]
        elif op in ("rmfront", "rmback"):
            if n == 0:
                continue
            ops.append("%s %d 0 0 0" % (op, i))
            del ks[0 if op == "rmfront" else -1]
        elif op in ("front", "back"):
            if n == 0:
                continue
            ops.append("%s %d 0 0 0" % (op, i))
        elif op in ("find", "contains"):
            ops.append("%s %d %d 0 0" % (op, i, k))
        elif op == "clear":
            ops.append("clear %d 0 0 0" % i)
            C[i] = []
        elif op in ("swapself", "assignself", "appendself"):
            ops.append("%s %d 0 0 0" % (op, i))
        elif op == "rmself":
            ops.append("rmself %d 0 0 0" % i)
            C[i] = []
        elif op == "appendown":              # append(key of own entry p, value of own entry k): the key is present
            ops.append("appendown %d %d 0 %d" % (i, rng.randint(0, n - 1), rng.randint(0, n - 1)))
        elif not same:
            continue
        elif op == "swap":
            ops.append("swap %d 0 0 0" % i)
            C[1], C[2] = C[2], C[1]
        elif op in ("copy", "assign"):
            ops.append("%s %d 0 0 0" % (op, i))
            C[i] = list(C[o])
            j = rng.choice([i, o])          # ... followed by a mutation of one side
            if C[j] and rng.random() < 0.5:
                z = rng.randint(0, len(C[j]) - 1)
                ops.append("rmat %d 0 0 %d" % (j, z)); del C[j][z]
            else:
                w = rng.randint(1, nkeys)
                ops.append("append %d %d %d 0" % (j, w, v))
                if w not in C[j]:
                    C[j].append(w)
        elif op == "eq":
            ops.append("eq %d 0 0 0" % i)
        elif op == "appendall":
            ops.append("appendall %d 0 0 0" % i)
            C[i] = ks + [z for z in C[o] if z not in ks]
        elif op == "rmall":
            ops.append("rmall %d 0 0 0" % i)
            C[i] = [z for z in ks if z not in C[o]]
    ops.append("fini 1")
    return ops


def rand_map(rng, nops, multi, nkeys, selfw=1.0):
    """the C01 generator (grow / shrink phases, hinted inserts around the lower bound) + self-argument operations,
    more copies / assignments each followed by a mutation of one side, + fini"""
    base = c01.rand_exec(rng, nops, multi, nkeys)
    a, b = (3, 4) if multi else (1, 2)
    ops = []
    for line in base:
        ops.append(line)
        x = rng.random()
        c = a if rng.random() < 0.7 else b
        if x < 0.10 * selfw:
            op = rng.choice(["assignself", "insertref", "insertref", "insertrefh", "insertrefh"] + ([] if multi else ["bulkself"] * 2))
            if op in ("assignself", "bulkself"):
                ops.append("%s %d" % (op, c))
            elif op == "insertref":
                ops.append("insertref %d %d" % (c, rng.randint(1, nkeys + 2)))
            else:
                ops.append("insertrefh %d %d %d" % (c, rng.randint(1, nkeys + 2), rng.randint(1, nkeys + 3)))
        elif x < 0.16:
            ops.append("%s %d" % (rng.choice(["copy", "assign"]), c))
            j = rng.choice([a, b])
            if rng.random() < 0.5:
                ops.append("removeAt %d %d" % (j, rng.randint(1, nkeys)))
            else:
                ops.append("insert %d %d %d" % (j, rng.randint(1, nkeys), rng.randint(0, 9)))
        elif x < 0.165:
            ops.append("fini %d" % c)
    ops.append("fini 1")
    return ops


def array_self_execs():
    """systematic: every self-argument operation of Array at every size 0..9 and initial capacity argument, so that the
    argument lies in storage that is / is not reallocated by the operation (sizes 3, 7 = capacity boundaries)"""
    execs = []
    for cap in (0, 4, 8):
        for n in range(0, 10):
            digits = "".join(str(1 + (d % 4)) for d in range(n)) or "0"
            pre = ["new 1 array %d" % cap, "load 1 %s %d" % (digits, n)]
            cur = []
            for p in range(n):
                cur.append(pre + ["appendown 1 0 %d" % p, "appendown 1 0 %d" % p, "rmat 1 0 0"])
                for m in (n + 1, n + 2, 4, 8, 9, 12):
                    cur.append(pre + ["resizeown 1 %d %d" % (p, m), "append 1 3 0"])
            cur.append(pre + ["appendself 1 0 0", "append 1 2 0", "appendself 1 0 0"])
            cur.append(pre + ["assignself 1 0 0", "append 1 2 0", "swapself 1 0 0", "rmback 1 0 0"])
            # several short histories per execution (separated by fini) keep the number of executions small
            ex = []
            for h in cur:
                ex += h + ["fini 1"]
            execs.append(ex)
    return execs


# ---------------------------------------------------------------------------------------------
# direction A: TLC state graphs -> op sequences on the real classes

def map_label_to_op(args):
    op, c, k, v, p = args
    if op == "insert":
        return "insert %d %d %d" % (c, k, v)
    if op == "insertHint":
        return "insertHint %d %d %d %d" % (c, p, k, v)
    if op in ("removeKey", "find", "contains", "count"):
        return "%s %d %d" % (op, c, k)
    if op in ("removeAt", "insertref"):
        return "%s %d %d" % (op, c, p)
    if op == "insertrefh":
        return "insertrefh %d %d %d" % (c, p, k)
    return "%s %d" % (op, c)


def seq_label_to_op(name, args):
    if name == "DoSort":                 # RefSeq specifies List::sort by its postcondition in an action of its own
        return "sort %d 0 0" % args[0]
    return c03.label_to_op(name, args)


def layer1_graph(ctx, prop, module, cfg, fam, binary, tag, workers=2, max_len=120, first=None, want=()):
    """every edge of a Layer-1 reference model (they contain every self-argument form) replayed on the real classes"""
    dot = os.path.join(ctx.work, tag + ".dot")
    r = vlib.tlc(SPECDIR, module, cfg, workers=workers, timeout=1500, dump=dot, xmx="4g")
    ctx.add_tlc("%s(%s)" % (module, cfg), r)
    if not r.ok:
        return
    walks, nedges = vlib.graph_walks(dot, max_len=max_len, seed=ctx.seed)
    os.remove(dot)
    if fam == "seq":
        execs = [(first or []) + [seq_label_to_op(*st) for st in w] for w in walks]
    elif fam == "table":
        execs = [(first or []) + [c02.label_to_op(st[0], st[1]) for st in w] for w in walks]
    else:
        execs = [[map_label_to_op(st[1]) for st in w] for w in walks]
    ctx.notes["graph_edges_replayed_" + tag] = nedges
    taken = set(st[1][0] for w in walks for st in w if st[0] != "DoSort")
    if not set(want) <= taken:
        ctx.broken.append("%s(%s): actions never taken: %s" % (module, cfg, sorted(set(want) - taken)))
    check(ctx, prop, fam, binary, execs, tag)


def layer2_avl(ctx, prop, binary, cfg, name, c, workers=2, xmx="3g"):
    dot = os.path.join(ctx.work, name + ".dot")
    r = vlib.tlc(SPECDIR, "AvlImpl", cfg, workers=workers, timeout=3000, dump=dot, xmx=xmx)
    ctx.add_tlc("AvlImpl(%s)" % cfg, r)
    if not r.ok:
        return
    walks, nedges = vlib.graph_walks(dot, max_len=120, seed=ctx.seed)
    os.remove(dot)
    ctx.notes["graph_edges_replayed_" + name] = nedges
    check(ctx, prop, "map", binary, c01.walks_to_execs(walks, c), "graph_" + name)


def layer2_hash(ctx, prop, binary, cfg, tag, kinds, workers=4):
    dot = os.path.join(ctx.work, tag + ".dot")
    r = vlib.tlc(SPECDIR, "HashChainsImpl", cfg, workers=workers, timeout=1800, dump=dot, xmx="6g")
    ctx.add_tlc("HashChainsImpl(%s)" % cfg, r)
    if not r.ok:
        return
    walks, nedges = vlib.graph_walks(dot, max_len=150, seed=ctx.seed)
    os.remove(dot)
    ctx.notes["graph_edges_replayed_" + tag] = nedges
    for kind in kinds:
        first = ["new 1 %s -1" % kind, "new 2 %s -1" % kind]
        execs = [first + [c02.label_to_op(st[0], st[1], kind) for st in w] for w in walks]
        check(ctx, prop, "table", binary, execs, "graph_%s_%s" % (tag, kind))


def layer2_array(ctx, prop, binary, cfg, tag, workers=4):
    dot = os.path.join(ctx.work, tag + ".dot")
    r = vlib.tlc(SPECDIR, "ArrayImpl", cfg, workers=workers, timeout=1500, dump=dot, xmx="6g")
    ctx.add_tlc("ArrayImpl(%s)" % cfg, r)
    if not r.ok:
        return
    walks, nedges = vlib.graph_walks(dot, max_len=150, seed=ctx.seed)
    os.remove(dot)
    ctx.notes["graph_edges_replayed_" + tag] = nedges
    arr0 = ["new 1 array 0", "new 2 array 0"]
    check(ctx, prop, "seq", binary, [arr0 + [c03.label_to_op(*st) for st in w] for w in walks], "graph_" + tag)


def model_runs(ctx, quick, bugs):
    """the stand-alone model of the ghost specifications: the constructive reference machine satisfies the Lifetime and
    Stability predicates in every reachable state / step (thorough: with action coverage); every seeded bug of the
    machine violates them (TLC must report a violation)"""
    import re
    r = vlib.tlc(SPECDIR, "LifetimeModel", "LifetimeModel_small.cfg" if quick else "LifetimeModel.cfg", workers=4,
                 timeout=1500, xmx="4g", coverage=not quick)
    ctx.add_tlc("LifetimeModel", r)
    if r.ok and not quick:
        cov = {}
        for m in re.finditer(r"^<(\w+) line [^>]*of module LifetimeModel[^>]*>: (\d+):(\d+)", r.out, flags=re.M):
            cov[m.group(1)] = max(cov.get(m.group(1), 0), int(m.group(2)))
        ctx.notes["model_action_coverage"] = {a: cov.get(a, 0) for a in MODEL_ACTIONS}
        never = [a for a in MODEL_ACTIONS if cov.get(a, 0) == 0]
        if never:
            ctx.broken.append("LifetimeModel: actions never taken: %s" % never)
    with ThreadPoolExecutor(max_workers=4) as ex:
        res = list(ex.map(lambda b: vlib.tlc(SPECDIR, "LifetimeModel", "LifetimeModel_bug_%s.cfg" % b, workers=1, timeout=600,
                                             xmx="2g"), bugs))
    for b, rb in zip(bugs, res):
        ctx.tlc_runs.append(dict(rb.summary(), name="LifetimeModel bug=%s (violation expected)" % b, violation=bool(rb.violation)))
        if not rb.violation:
            ctx.broken.append("LifetimeModel with the seeded bug %s: TLC did not report a violation of the ghost "
                              "specification (%s)" % (b, (rb.broken or "no error")[:300]))


MODEL_ACTIONS = ["Insert", "InsertOwn", "Overwrite", "Remove", "Clear", "CopyCtor", "Assign", "AssignSelf", "AppendAll",
                 "AppendSelf", "Swap", "Reserve", "Fini", "NewVar"]
MODEL_BUGS = {"C04": ["shallowCopy", "noSelfCheck", "leakTemp", "clearNoKill", "doubleKill", "valueAfterReserve", "rotateCopies",
                      "swapCopies"],
              "C05": ["rotateCopies", "swapCopies", "poolTemp", "swapMoves"]}


# ---------------------------------------------------------------------------------------------

def stages(ctx, prop, bins):
    q = ctx.quick
    bseq, btab, bmap = bins
    st = []
    # direction A, Layer 1: the reference models contain every self-argument form
    st.append(lambda: layer1_graph(ctx, prop, "RefSeq", "RefSeq_c04q.cfg" if q else "RefSeq_c04.cfg", "seq", bseq, "l1seq",
                                   want={"swapself", "assignself", "appendself", "prependself", "insertself", "appendown",
                                         "insertown", "resizeown", "appendrange", "copy", "assign", "swap", "clear"}))
    st.append(lambda: layer1_graph(ctx, prop, "OrderedTable", "OrderedTable_c04q.cfg" if q else "OrderedTable_small.cfg", "table",
                                   btab, "l1table", want={"swapself", "assignself", "appendself", "rmself", "appendown", "rmkeyown",
                                                          "copy", "assign", "swap", "clear"}))
    st.append(lambda: layer1_graph(ctx, prop, "OrderedMap", "OrderedMap_c04q_map.cfg" if q else "OrderedMap_c04_map.cfg", "map", bmap, "l1map",
                                   want={"assignself", "bulkself", "insertref", "insertrefh", "copy", "assign", "bulk", "clear"}))
    st.append(lambda: layer1_graph(ctx, prop, "OrderedMap", "OrderedMap_c04q_multi.cfg" if q else "OrderedMap_c04_multi.cfg", "map", bmap, "l1multi",
                                   want={"assignself", "insertref", "insertrefh", "copy", "assign", "clear"}))
    # direction A, Layer 2: rotations, chain unlinks, reallocations
    if q:
        st.append(lambda: layer2_avl(ctx, prop, bmap, "AvlImpl_map_small.cfg", "map", 1))
        st.append(lambda: layer2_avl(ctx, prop, bmap, "AvlImpl_multi_small.cfg", "multi", 3))
        st.append(lambda: layer2_hash(ctx, prop, btab, "HashChainsImpl_set2v.cfg", "set2v", ["hashset", "poolmap"]))
        st.append(lambda: layer2_hash(ctx, prop, btab, "HashChainsImpl_map2v.cfg", "map2v", ["hashmap"]))
        if prop == "C04":
            st.append(lambda: layer2_array(ctx, prop, bseq, "ArrayImpl_two_small.cfg", "array2"))
    else:
        st.append(lambda: layer2_avl(ctx, prop, bmap, "AvlImpl_map.cfg", "map", 1, workers=3, xmx="8g"))
        st.append(lambda: layer2_avl(ctx, prop, bmap, "AvlImpl_multi_small.cfg", "multi", 3))
        st.append(lambda: layer2_hash(ctx, prop, btab, "HashChainsImpl_map3.cfg", "map3", ["hashmap", "hashset", "poolmap"]))
        st.append(lambda: layer2_hash(ctx, prop, btab, "HashChainsImpl_set2v.cfg", "set2v", ["hashset"]))
        st.append(lambda: layer2_hash(ctx, prop, btab, "HashChainsImpl_map2v.cfg", "map2v", ["hashmap"]))
        st.append(lambda: layer2_hash(ctx, prop, btab, "HashChainsImpl_pool2v.cfg", "pool2v", ["poolmap"]))
        if prop == "C04":
            st.append(lambda: layer2_array(ctx, prop, bseq, "ArrayImpl.cfg", "array1"))
            st.append(lambda: layer2_array(ctx, prop, bseq, "ArrayImpl_two.cfg", "array2"))
    # direction B: seeded random histories with the self-argument operations, copies followed by mutations, clear, fini
    nseq, ntab, nmap, nops = (400, 400, 120, 45) if q else (5000, 5000, 1500, 70)
    seqkinds = ("list", "array", "poollist") if prop == "C04" else ("list", "list", "poollist", "poollist", "array")
    rs = [rand_seq(ctx.rng, nops, seqkinds) for _ in range(nseq)]
    # pools of element types whose size is not a multiple of the pointer size (item stride / alignment)
    rs.append(["new 1 poollist 0", "new 2 poollist 0"] + ["poolsmall 1 0 %d" % n for n in (1, 3, 4, 5, 9, 13, 40)])
    rt = [rand_table(ctx.rng, nops) for _ in range(ntab)]
    rm = [rand_map(ctx.rng, nops + 15, multi, nk) for multi in (False, True) for nk in (4, 9, 16) for _ in range(nmap // 6)]
    st.append(lambda: check(ctx, prop, "seq", bseq, rs, "random_seq"))
    st.append(lambda: check(ctx, prop, "table", btab, rt, "random_table"))
    st.append(lambda: check(ctx, prop, "map", bmap, rm, "random_map"))
    if prop == "C04":
        st.append(lambda: check(ctx, prop, "seq", bseq, array_self_execs(), "arrayself"))
    return st


def vacuity(ctx, prop):
    """the random histories must really contain every self-argument operation / every class"""
    need = {"random_seq": {"swapself", "assignself", "appendself", "prependself", "insertself", "appendown", "insertown",
                           "copy", "assign", "clear", "fini", "swap", "sort"} | ({"resizeown", "appendrange"} if prop == "C04" else set()),
            "random_table": {"swapself", "assignself", "appendself", "rmself", "appendown", "rmkeyown", "copy", "assign", "clear",
                             "fini", "swap", "rmref"},
            "random_map": {"assignself", "bulkself", "insertref", "insertrefh", "copy", "assign", "clear", "fini", "bulk"}}
    for tag, ops in need.items():
        h = ctx.notes.get("ops_" + tag, {})
        miss = sorted(o for o in ops if not h.get(o))
        if miss:
            ctx.broken.append("%s: operations never generated: %s" % (tag, miss))


def run_prop(ctx, prop, rule):
    bins = build()
    vlib.graphwalk_bin()
    model_runs(ctx, ctx.quick, MODEL_BUGS[prop])
    sts = stages(ctx, prop, bins)
    with ThreadPoolExecutor(max_workers=4 if ctx.quick else 3) as ex:
        list(ex.map(lambda f: f(), sts))
    vacuity(ctx, prop)
    return vlib.finish(ctx, "model_checking", rule)


def family_of(path, ops):
    """family of a replay file: from its name (files written by this check start with the family), else from its operations"""
    base = os.path.basename(path)
    for fam in FAMILIES:
        if base.startswith(fam + "_"):
            return fam
    toks = [l.split() for l in ops if l.split()[0] != "fini"]
    kinds = set(t[2] for t in toks if t[0] == "new" and len(t) > 2)
    names = set(t[0] for t in toks)
    if kinds & set(c02.KINDS):
        return "table"
    if kinds & set(c03.KINDS):
        return "seq"
    if names & {"insertHint", "removeKey", "removeAt", "removeFront", "removeBack", "bulk", "bulkself", "insertref", "insertrefh", "count"}:
        return "map"
    if any(len(t) == 5 for t in toks):
        return "table"
    if any(len(t) in (2, 3) for t in toks):
        return "map"
    return "seq"


def replay_prop(ctx, prop, path):
    execs = vlib.read_ops_file(path)
    bins = dict(zip(("seq", "table", "map"), build()))
    for e in execs:
        fam = family_of(path, e)
        check(ctx, prop, fam, bins[fam], [e], "replay", fini=False)
    return vlib.finish(ctx, "model_checking", "replay of one op sequence")


RULE = ("every edge of the Layer-1 reference graphs (RefSeq, OrderedTable, OrderedMap: all self-argument forms) and of the "
        "Layer-2 graphs (AvlImpl, HashChainsImpl, ArrayImpl) replayed on the real classes with registry-tracked elements under "
        "ASan/LSan + seeded random histories with self-arguments, copies followed by mutations, clear and fini; every step "
        "validated by TLC against the functional specification with strict identities and the Lifetime ghost specification "
        "(registry = holdings, exactly-once step rule, quiescence); distinct = distinct op sequences")


def run(ctx):
    return run_prop(ctx, "C04", RULE)


def replay(ctx, path):
    return replay_prop(ctx, "C04", path)


# ---------------------------------------------------------------------------------------------
# binding self-test of the trace specifications (./check C04 --selftest, ./check C05 --selftest): traces recorded from
# the real classes are accepted; the same traces with ONE corrupted observation are rejected for the expected reason

def selftest_prop(ctx, prop):
    import json
    bins = dict(zip(("seq", "table", "map"), build()))
    rng = ctx.rng
    execs = {"seq": [rand_seq(rng, 60, ("list",)), rand_seq(rng, 60, ("poollist",)), rand_seq(rng, 60, ("array",))],
             "table": [rand_table(rng, 60, ("hashmap",)), rand_table(rng, 60, ("poolmap",))],
             "map": [rand_map(rng, 60, False, 6), rand_map(rng, 60, True, 4)]}
    evs = {}
    for fam, ex in execs.items():
        trace = os.path.join(ctx.work, "selftest_%s.ndjson" % fam)
        vlib.run_driver(bins[fam], ex, trace, args=FAMILIES[fam]["args"])
        evs[fam] = [json.loads(x) for x in open(trace).read().splitlines()]

    def validate(fam, es, name):
        p = os.path.join(ctx.work, "selftest_%s_%s.ndjson" % (fam, name))
        with open(p, "w") as f:
            for e in es:
                f.write(json.dumps(e, separators=(",", ":")) + "\n")
        mod = FAMILIES[fam]["module"]
        r, mism, done = vlib.validate_trace(SPECDIR, mod, "%s_%s.cfg" % (mod, prop), p)
        return mism, done, r

    def pick(es, pred):
        for i, e in enumerate(es):
            if e["op"] != "reset" and pred(e):
                return i
        return None

    def bump(field, idx, by=1):
        def f(es):
            i = pick(es, lambda e: e["op"] not in ("fini", "new") and sum(len(c) for c in e.get("c", [[1]])) > 0)
            if i is None:
                return False
            es[i][field] = list(es[i][field]); es[i][field][idx] += by
            return True
        return f

    def setfield(field, value, pred=lambda e: True):
        def f(es):
            i = pick(es, pred)
            if i is None:
                return False
            es[i][field] = value
            return True
        return f

    def seq_identity(es):            # a surviving list element shows up with another serial
        i = pick(es, lambda e: e["op"] == "append" and e["kind"][e["i"] - 1] == "list" and len(e["c"][e["i"] - 1]) >= 2)
        if i is None:
            return False
        j = es[i]["i"] - 1
        old = es[i]["c"][j][0][1]
        es[i]["c"][j][0][1] = 9999
        es[i]["bk"][j] = [9999 if s == old else s for s in es[i]["bk"][j]]
        es[i]["its"] = [t for t in es[i]["its"] if t[0] != old]
        es[i]["lt"][0] = max(es[i]["lt"][0], 9999)
        return True

    def seq_adopted(es):             # the element an append created carries a serial that existed before the step
        i = pick(es, lambda e: e["op"] == "append" and e["kind"][e["i"] - 1] == "list" and len(e["c"][e["i"] - 1]) >= 2)
        if i is None:
            return False
        j = es[i]["i"] - 1
        new = es[i]["c"][j][-1][1]
        es[i]["c"][j][-1][1] = 1
        es[i]["bk"][j] = [1 if s == new else s for s in es[i]["bk"][j]]
        es[i]["its"] = [t for t in es[i]["its"] if t[0] != new]
        es[i]["r"] = 1
        return True

    def seq_address(es):             # a surviving list / pool element shows up at another address
        i = pick(es, lambda e: e["op"] == "append" and e["kind"][e["i"] - 1] != "array" and len(e["c"][e["i"] - 1]) >= 2)
        if i is None:
            return False
        es[i]["c"][es[i]["i"] - 1][0][2] = 4242
        return True

    def seq_iterator(es):
        i = pick(es, lambda e: len(e["its"]) >= 1)
        if i is None:
            return False
        es[i]["its"][0][2] = 0
        return True

    def table_key(es):               # a surviving HashMap entry shows up with another key instance
        i = pick(es, lambda e: e["op"] in ("append", "insert") and e["kind"][e["i"] - 1] == "hashmap" and len(e["c"][e["i"] - 1]) >= 2
                 and e["c"][e["i"] - 1][0][4] != e["c"][e["i"] - 1][-1][4])
        if i is None:
            return False
        j = es[i]["i"] - 1
        es[i]["c"][j][0][4] = es[i]["c"][j][-1][4]
        return True

    cases = [("unchanged", "seq", lambda es: True, None), ("unchanged", "table", lambda es: True, None),
             ("unchanged", "map", lambda es: True, None),
             ("identity", "seq", seq_identity, ":identity")]
    if prop == "C04":
        cases += [("destroyed+1", "seq", bump("lt", 1), ":balance"), ("error", "seq", bump("lt", 4), ":lifetime-error"),
                  ("deadheld", "seq", setfield("ld", 1, lambda e: e["op"] == "append"), ":destroyed-but-held"),
                  ("quiescent", "seq", setfield("q", 1, lambda e: e["op"] == "fini"), ":not-quiescent"),
                  ("adopted", "seq", seq_adopted, ":adopted-instance"),
                  ("sharedkey", "table", table_key, ":shared-instance"),
                  ("destroyed+1", "table", bump("lt", 1), ":balance"),
                  ("destroyed+1", "map", setfield("ld", 1, lambda e: e["op"] == "insert"), ":destroyed-but-held"),
                  ("quiescent", "map", setfield("q", 2, lambda e: e["op"] == "fini"), ":not-quiescent")]
    else:
        cases += [("address", "seq", seq_address, ":address"), ("iterator", "seq", seq_iterator, ":iterator"),
                  ("inplace", "seq", lambda es: bump("lt", 2)([e for e in es if e["op"] == "reset" or e["kind"][e["i"] - 1] == "poollist"]), ":inplace"),
                  ("iterator", "table", seq_iterator, ":iterator"),
                  ("inplace", "table", lambda es: bump("lt", 3)([e for e in es if e["op"] == "reset" or (e["kind"][e["i"] - 1] == "poolmap" and e["op"] == "append")]), ":inplace"),
                  ("iterator", "map", setfield("kept", [5, 1], lambda e: e["op"] == "insert"), ":iterator")]
    ok = True
    for name, fam, fn, expect in cases:
        es = json.loads(json.dumps(evs[fam]))
        if not fn(es):
            vlib.log("selftest %-12s %-6s could not be applied" % (name, fam))
            ok = False
            continue
        mism, done, r = validate(fam, es, name.replace("+", "p"))
        if expect is None:
            good = done and not mism and not r.broken
        else:
            good = bool(mism) and mism[0][1].endswith(expect)
        vlib.log("selftest %-12s %-6s expect=%-22s first mismatches=%s %s" % (name, fam, expect, mism[:2], "" if good else "  <-- UNEXPECTED " + (r.broken or "")[:300]))
        ok = ok and good
    vlib.log("SELFTEST %s property=%s" % ("OK" if ok else "FAILED", prop))
    return 0 if ok else 2


def selftest(ctx):
    return selftest_prop(ctx, "C04")
