"""C02 - HashMap, HashSet and PoolMap behave as insertion-ordered unique-key tables."""
import os
import vlib

SPECDIR = os.path.join(vlib.SPEC, "containers")
KINDS = ("hashmap", "hashset", "poolmap")


def build():
    return vlib.build("drv_hashtab", ["hashtab/drv_hashtab.cpp"], ["src/Memory.cpp"])


# ---------------------------------------------------------------------------------------------
# op lines:  new <i> <kind> <capacity>   |   <op> <i> <k> <v> <p>

def label_to_op(name, args, kind=None):
    op, i, k, v, p, kd = args
    if op == "new":
        return "new %d %s %d" % (i, kind or kd, p)
    return "%s %d %d %d %d" % (op, i, k, v, p)


def key_of(ops, step):
    """Signature of a failing step: class of the variable operated on + operation."""
    if not (0 < step <= len(ops)):
        return "Table.?"
    kinds = {1: "hashmap", 2: "hashmap"}
    for line in ops[:step - 1]:
        t = line.split()
        if t[0] == "new":
            kinds[int(t[1])] = t[2]
    t = ops[step - 1].split()
    kind = t[2] if t[0] == "new" else kinds.get(int(t[1]), "?")
    return "%s.%s" % (kind, t[0])


def rand_exec(rng, nops):
    """One random history: both variables mostly of one class, bucket counts drawn from {1,2,3,7,default 500}
    (1 = every key collides), keys from a small range so that present-key insertions and chains are frequent."""
    ops = []
    kind = rng.choice(KINDS)
    kinds = {1: kind, 2: kind if rng.random() < 0.9 else rng.choice(KINDS)}
    nkeys = rng.choice([3, 5, 8, 12, 16])
    sg = -1 if rng.random() < 0.3 else 1         # negative keys: hash values beyond 32 bits (hash(Tracked) = (usize)value)
    target = min(nkeys, rng.choice([2, 4, 6, 9, 12]))
    keys = {1: [], 2: []}                      # the generator's own idea of the contents (only to pick useful arguments)
    for i in (1, 2):
        ops.append("new %d %s %d" % (i, kinds[i], rng.choice([0, 1, 1, 2, 2, 3, 3, 7, -1])))
    for _ in range(nops):
        i = rng.randint(1, 2)
        o = 3 - i
        K = kinds[i]
        ks = keys[i]
        n = len(ks)
        same = kinds[1] == kinds[2]
        n = len(keys[i])
        k = sg * rng.randint(1, nkeys)
        if ks and rng.random() < (0.2 if n < target else 0.4):
            k = rng.choice(ks)                 # a key that is present
        v = rng.randint(1, 3)
        x = rng.random()
        if x < 0.02:
            kinds[i] = kinds[o] if rng.random() < 0.7 else rng.choice(KINDS)
            ops.append("new %d %s %d" % (i, kinds[i], rng.choice([0, 1, 2, 3, 7, -1])))
            keys[i] = []
            continue
        cands = ["append"] * 5 + ["insert"] * 4 + ["rmkey"] * 3 + ["rmat"] * 3 + ["find", "find", "contains"]
        cands += ["rmfront", "rmback", "front", "back"]
        if n < target:                         # keep the tables populated: chains longer than one, several item blocks
            cands += ["append"] * 8 + ["insert"] * 8 + (["prepend"] * 5 if K != "poolmap" else [])
        elif rng.random() < 0.3:
            cands += ["clear"]
        if K != "poolmap":
            cands += ["prepend"] * 3 + ["copy", "assign", "eq", "eq"]
        else:
            cands += ["rmref"] * 3
        if K == "hashset":
            cands += ["appendall", "appendall", "rmall", "rmall"]
        cands += ["swap", "swap"]
        if rng.random() < 0.15:                # the container itself as the argument (an assignment / swap / bulk op like any other)
            cands = ["swapself"] + (["assignself"] if K != "poolmap" else []) + (["appendself", "rmself"] if K == "hashset" else [])
        op = rng.choice(cands)
        if op in ("append", "prepend"):
            ops.append("%s %d %d %d 0" % (op, i, k, v))
            if k not in ks:
                if op == "append":
                    ks.append(k)
                else:
                    ks.insert(0, k)
        elif op == "insert":
            p = rng.randint(0, n)
            ops.append("insert %d %d %d %d" % (i, k, v, p))
            if k not in ks:
                ks.insert(p, k)
        elif op == "rmkey":
            ops.append("rmkey %d %d 0 0" % (i, k))
            if k in ks:
                ks.remove(k)
        elif op in ("rmat", "rmref"):
            if n == 0:
                continue
            p = rng.randint(0, n - 1)
            ops.append("%s %d 0 0 %d" % (op, i, p))
            del ks[p]
        elif op in ("rmfront", "rmback"):
            if n == 0:
                continue
            ops.append("%s %d 0 0 0" % (op, i))
            del ks[0 if op == "rmfront" else -1]
        elif op in ("front", "back"):
            if n == 0:
                continue
            ops.append("%s %d 0 0 0" % (op, i))
        elif op in ("find", "contains"):
            ops.append("%s %d %d 0 0" % (op, i, k))
        elif op == "clear":
            ops.append("clear %d 0 0 0" % i)
            keys[i] = []
        elif op in ("swapself", "assignself", "appendself", "rmself"):
            ops.append("%s %d 0 0 0" % (op, i))
            if op == "rmself":
                keys[i] = []
        elif not same:
            continue
        elif op == "swap":
            ops.append("swap %d 0 0 0" % i)
            keys[1], keys[2] = keys[2], keys[1]
        elif op in ("copy", "assign"):
            ops.append("%s %d 0 0 0" % (op, i))
            keys[i] = list(keys[o])
        elif op == "eq":
            if rng.random() < 0.5 and keys[o]:
                ops.append("assign %d 0 0 0" % i)       # make equality non-trivially true sometimes
                keys[i] = list(keys[o])
            ops.append("eq %d 0 0 0" % i)
        elif op == "appendall":
            ops.append("appendall %d 0 0 0" % i)
            keys[i] = ks + [z for z in keys[o] if z not in ks]
        elif op == "rmall":
            ops.append("rmall %d 0 0 0" % i)
            keys[i] = [z for z in ks if z not in keys[o]]
    return ops


def op_histogram(executions):
    h = {}
    for e in executions:
        for line in e:
            op = line.split()[0]
            h[op] = h.get(op, 0) + 1
    return dict(sorted(h.items()))


def check_executions(ctx, binary, executions, tag):
    ctx.notes["ops_" + tag] = op_histogram(executions)          # vacuity: which operations this source really exercises
    return vlib.check_executions(ctx, binary, executions, tag, SPECDIR, "OrderedTableTrace", "OrderedTableTrace.cfg", key_of)


def graph_replay(ctx, binary, cfg, tag, kinds, timeout=1800, xmx="6g"):
    """TLC explores HashChainsImpl under cfg (refinement + structural invariants), dumps the state graph, and every edge
    is replayed on the real class(es): kinds = the classes the op sequences are run on (the model's own class first)."""
    dot = os.path.join(ctx.work, tag + ".dot")
    r = vlib.tlc(SPECDIR, "HashChainsImpl", cfg, workers=8, timeout=timeout, dump=dot, xmx=xmx)
    ctx.add_tlc("HashChainsImpl(%s)" % cfg, r)
    if not r.ok:
        return
    walks, nedges = vlib.graph_walks(dot, max_len=150, seed=ctx.seed)
    os.remove(dot)
    ctx.notes["graph_edges_replayed_" + tag] = nedges
    taken = set(st[1][0] for w in walks for st in w)
    want = {"new", "append", "insert", "rmkey", "rmat", "rmfront", "rmback", "clear", "find", "contains", "front", "back",
            "swapself"} if "2v" not in tag else {"new", "append", "rmback", "rmkey", "clear", "swap", "swapself"}
    if not want <= taken:
        ctx.broken.append("HashChainsImpl(%s): actions never taken: %s" % (cfg, sorted(want - taken)))
    for kind in kinds:
        first = ["new 1 %s -1" % kind, "new 2 %s -1" % kind]
        execs = [first + [label_to_op(st[0], st[1], kind) for st in w] for w in walks]
        check_executions(ctx, binary, execs, "%s_%s" % (tag, kind))


def run(ctx):
    binary = build()
    q = ctx.quick
    # 1. the Layer-1 reference itself (two variables, three classes, every operation)
    r = vlib.tlc(SPECDIR, "OrderedTable", "OrderedTable_small.cfg" if q else "OrderedTable.cfg", workers=8, timeout=900)
    ctx.add_tlc("OrderedTable", r)
    # 2. Layer 2: bucket chains with back-pointers, order list with end sentinel, free list, lazily allocated data,
    #    capacities 1 (everything collides), 2, 3; invariants + refinement checked by TLC; every edge of the state graphs
    #    is replayed on the real classes (direction A)
    if q:
        graph_replay(ctx, binary, "HashChainsImpl_map3.cfg", "map3", ["hashmap"])
        graph_replay(ctx, binary, "HashChainsImpl_set2v.cfg", "set2v", ["hashset", "poolmap"])
        graph_replay(ctx, binary, "HashChainsImpl_map2v.cfg", "map2v", ["hashmap"])
    else:
        graph_replay(ctx, binary, "HashChainsImpl_map3.cfg", "map3", ["hashmap", "hashset", "poolmap"])
        graph_replay(ctx, binary, "HashChainsImpl_set3.cfg", "set3", ["hashset"])
        graph_replay(ctx, binary, "HashChainsImpl_pool3.cfg", "pool3", ["poolmap"])
        graph_replay(ctx, binary, "HashChainsImpl_map4.cfg", "map4", ["hashmap"])
        graph_replay(ctx, binary, "HashChainsImpl_map2v.cfg", "map2v", ["hashmap"])
        graph_replay(ctx, binary, "HashChainsImpl_set2v.cfg", "set2v", ["hashset"])
        graph_replay(ctx, binary, "HashChainsImpl_pool2v.cfg", "pool2v", ["poolmap"])
    # 3. direction B: random histories over two variables, bucket counts {0->1,1,2,3,7,500}, validated by TLC against OrderedTable
    nexec, nops = (500, 40) if q else (6000, 70)
    execs = [rand_exec(ctx.rng, nops) for _ in range(nexec)]
    check_executions(ctx, binary, execs, "random")
    return vlib.finish(ctx, "model_checking",
                       "every edge of the HashChainsImpl state graphs (TLC; capacities 1,2,3) replayed on the real HashMap/"
                       "HashSet/PoolMap with an identity hash; seeded random op histories over two variables with bucket counts "
                       "{1,2,3,7,500}; every step validated by TLC against OrderedTable; distinct = distinct op sequences")


def replay(ctx, path):
    binary = build()
    check_executions(ctx, binary, vlib.read_ops_file(path), "replay")
    return vlib.finish(ctx, "model_checking", "replay of one op sequence")
