"""C17 - SHA-256 and HMAC-SHA-256 equal the standard for every input and chunking.

Executable-specification check: spec/text/Sha256.tla is FIPS 180-4 + RFC 2104 written out in TLA+ (validated by TLC
against the FIPS / RFC 4231 vectors in Sha256Vectors.tla), spec/text/Sha256Stream.tla is the streaming state machine
(model-checked for small abstract block sizes), and Sha256Trace.tla makes TLC recompute the digest of every message
the real code hashed (harness/sha/drv_sha.cpp) and compare."""
import os
import vlib

SPECDIR = os.path.join(vlib.SPEC, "text")


def build():
    return vlib.build("drv_sha", ["sha/drv_sha.cpp"], ["src/Crypto/Sha256.cpp", "src/Memory.cpp"])


# ---------------------------------------------------------------------------------------------------------
# shared by c17/c18: executions -> driver -> trace -> TLC trace spec in parallel chunks (cut at "reset" events)

def check_execs(ctx, binary, executions, tag, module, cfg, key_of, nchunks=6, driver_timeout=4000, tlc_timeout=1200,
                env=None, xmx="3g"):
    trace = os.path.join(ctx.work, "trace_%s.ndjson" % tag)
    dr = vlib.run_driver(binary, executions, trace, timeout=driver_timeout)
    ctx.evaluations += sum(len(e) for e in executions)
    index = vlib.index_trace(trace)
    logged = {}
    for ex, step in index:
        logged[ex] = max(logged.get(ex, 0), step)
    crashed = set()
    for idx, out, kind in dr.crashes:
        ops = executions[idx]
        crashed.add(idx)
        step = min(len(ops), logged.get(idx, 0) + 1)
        p = ctx.save_replay("%s_crash_%d.ops" % (tag, idx), ["reset"] + ops[:step])
        ctx.report("%s:%s" % (key_of(ops, step), kind), p,
                   "driver %s at step %d of execution %d: ops=%s\n%s" % (kind, step, idx, ops[max(0, step - 4):step], out[-2500:]))
    r, mism, done, drift = validate_chunks(module, cfg, trace, nchunks, tlc_timeout, xmx, env)
    for line, why in drift[:3]:
        ex, step = index[line - 1]
        ctx.notes.setdefault("layer2_drift_examples", []).append({"op": executions[ex][step - 1][:200], "why": why})
    ctx.drift += len(drift)
    ctx.add_tlc("trace:" + tag, r, must_pass=False)
    if r.violation:
        ctx.broken.append("trace spec %s: invariant violated / TLC error: %s" % (module, r.violation[:1500]))
    if not done and not r.broken and not r.violation:
        ctx.broken.append("trace validation of %s did not reach the end of the trace" % tag)
    badexec = set()
    seen_keys = set()
    for line, why in mism:
        ex, step = index[line - 1]
        ops = executions[ex]
        k = key_of(ops, step)
        badexec.add(ex)
        if k in seen_keys:
            continue
        seen_keys.add(k)
        # minimal replay: the failing op preceded by the ops of its own message (since the last fin/rst)
        p = ctx.save_replay("%s_mismatch_%d_%d.ops" % (tag, ex, step), ["reset"] + replay_slice(ops, step))
        ctx.report(k, p, "specification mismatch at step %d (%s) of execution %d: ops=%s" % (
            step, why, ex, ops[max(0, step - 4):step]))
    ctx.traces += len(executions) - len(badexec | crashed)
    for e in executions:
        for o in e:
            ctx.distinct.add(o)
    if executions:
        e = executions[len(executions) // 2]
        ctx.sample({"source": tag, "ops": e[len(e) // 2:len(e) // 2 + 8]})
    return r


def validate_chunks(module, cfg, trace, nchunks, timeout=1200, xmx="3g", env=None):
    """Cut the trace at "reset" events into ~nchunks pieces of similar line count and validate them with parallel TLC
    runs (vlib._validate_one each).  Returns (summed TlcResult, [(line, why)] mismatches, complete?, [(line, why)] drift)
    with 1-based line numbers of the whole trace."""
    from concurrent.futures import ThreadPoolExecutor
    with open(trace) as f:
        lines = f.readlines()
    n = len(lines)
    per = max(50, n // max(1, nchunks) + 1)
    chunks = []
    start = 0
    while start < n:
        end = min(n, start + per)
        while end < n and '"op":"reset"' not in lines[end]:
            end += 1
        p = "%s.c%d" % (trace, len(chunks))
        with open(p, "w") as f:
            f.writelines(lines[start:end])
        chunks.append((start, p))
        start = end
    del lines

    def one(c):
        return c[0], vlib._validate_one(SPECDIR, module, cfg, c[1], timeout, xmx, env)
    total = vlib.TlcResult()
    total.ok = True
    mism, drift = [], []
    alldone = bool(chunks)
    with ThreadPoolExecutor(max_workers=min(8, max(1, len(chunks)))) as ex:
        for off, (r, mm, done) in ex.map(one, chunks):
            total.generated += r.generated
            total.distinct += r.distinct
            total.wall = max(total.wall, r.wall)
            total.ok = total.ok and r.ok
            total.broken = total.broken or r.broken
            total.violation = total.violation or r.violation
            mism += [(ln + off, why) for ln, why in mm]
            alldone = alldone and done
            for p in r.printed:
                if p.startswith('"DRIFT"'):
                    parts = vlib.parse_tla_value("<<" + p + ">>")
                    drift.append((parts[1] + off, parts[2]))
    for _, p in chunks:
        os.remove(p)
    return total, sorted(mism, key=lambda x: x[0]), alldone, sorted(drift, key=lambda x: x[0])


def replay_slice(ops, step):
    i = step - 1
    while i > 0 and ops[i - 1].split()[0] in ("upd", "poke", "zeros"):
        i -= 1
    return ops[i:step]


# ---------------------------------------------------------------------------------------------------------

def key_of(ops, step):
    op = ops[step - 1].split() if 0 < step <= len(ops) else ["?"]
    if op[0] == "hmac":
        kl = int(op[2])
        return "Sha256.hmac:key%s64" % ("<" if kl < 64 else ("=" if kl == 64 else ">"))
    return "Sha256.%s" % op[0]


def msg_ops(seed, n, cuts):
    """update() calls for message Stream(seed, n) split at the given sorted cut positions, then finalize"""
    ops = []
    prev = 0
    for c in list(cuts) + [n]:
        ops.append("upd %d %d %d" % (seed, prev, c - prev))
        prev = c
    ops.append("fin")
    return ops


def gen(ctx):
    rng = ctx.rng
    quick = ctx.quick
    N = 130 if quick else 320
    nexec = 12 if quick else 24
    execs = [[] for _ in range(nexec)]
    cost = [0] * nexec                     # compression blocks the reference has to evaluate per execution

    def blocks(n):
        return (n + 9 + 63) // 64

    def place(ops, c):
        i = min(range(nexec), key=lambda k: cost[k])
        execs[i] += ops
        cost[i] += c

    stats = {"messages": 0, "two_way": 0, "three_way": 0, "hmac": 0, "reset_reuse": 0, "long": 0}
    for n in range(N + 1):
        seed = 1000 + 7 * n + (ctx.seed % 1000)
        ops = msg_ops(seed, n, [])                                   # one update
        for k in range(0, n + 1):                                    # every two-way split (incl. empty pieces)
            ops += msg_ops(seed, n, [k])
            stats["two_way"] += 1
        three = set()
        for a in (1, 55, 56, 63, 64, 65):                            # three-way: around the block boundary ...
            for b in (a + 1, a + 63, a + 64, 119, 120, 128):
                if 0 < a < b < n:
                    three.add((a, b))
        for _ in range(6 if quick else 24):                          # ... and sampled
            if n >= 2:
                a = rng.randint(0, n)
                b = rng.randint(a, n)
                three.add((a, b))
        if n <= (12 if quick else 80):                               # ... and ALL three-way splits of short messages
            three |= {(a, b) for a in range(n + 1) for b in range(a, n + 1)}
        for a, b in sorted(three):
            ops += msg_ops(seed, n, [a, b])
            stats["three_way"] += 1
        if n % 5 == 0 and n > 0:                                     # byte by byte
            ops += msg_ops(seed, n, list(range(1, n)))
        if n % 3 == 0:                                               # abandon a prefix with reset(), then the message
            k = rng.randint(0, n)
            ops += ["upd %d 0 %d" % (seed + 1, k), "rst"] + msg_ops(seed, n, [n // 2])
            stats["reset_reuse"] += 1
        if n % 4 == 0:
            ops += ["fin"] + msg_ops(seed, n, [])                    # finalize() right after finalize(): empty message
            ops.append("hash %d %d" % (seed, n))
        stats["messages"] += 1
        place(ops, blocks(n) + (1 if n % 4 == 0 else 0))
        if not quick:                                                # other content: every two-way split again
            seed2 = 40000 + 11 * n
            ops = msg_ops(seed2, n, [])
            for k in range(0, n + 1):
                ops += msg_ops(seed2, n, [k])
                stats["two_way"] += 1
            stats["messages"] += 1
            place(ops, blocks(n))
    # sampled longer messages
    longs = [183, 184, 191, 192, 193, 247, 248, 255, 256, 257, 500, 1000] if quick else \
            [n for n in range(321, 400, 3)] + [447, 448, 449, 511, 512, 513, 1000, 1023, 1024, 1025, 2000, 4096, 5000, 8191, 8192, 12345, 20000]
    longs += [rng.randint(N + 1, 1500 if quick else 6000) for _ in range(4 if quick else 40)]
    for n in longs:
        seed = 5000 + n
        ops = msg_ops(seed, n, [])
        cuts = set()
        for _ in range(10 if quick else 30):
            a = rng.randint(0, n)
            cuts.add((a,))
            b = rng.randint(a, n)
            cuts.add((a, b))
        for c in (63, 64, 65, n - 64, n - 1):
            if 0 < c < n:
                cuts.add((c,))
        for c in sorted(cuts):
            ops += msg_ops(seed, n, c)
        ops += msg_ops(seed, n, list(range(64, n, 64)))              # block-sized updates
        ops += msg_ops(seed, n, sorted(set(rng.randint(0, n) for _ in range(12))))
        stats["long"] += 1
        place(ops, blocks(n))
    # long messages (byte counts 2^29 .. 2^61): padding and 64-bit length field from an injected byte count (poke) or
    # after really hashing <mib> MiB of zeros (zeros); see Sha256.tla HashFrom
    def limbs(v):
        return "%d %d %d %d" % ((v >> 48) & 0xffff, (v >> 32) & 0xffff, (v >> 16) & 0xffff, v & 0xffff)
    counts = [64, 2 ** 16, 2 ** 29 - 64, 2 ** 29, 2 ** 29 + 64, 2 ** 32 - 64, 2 ** 32, 2 ** 35, 2 ** 45 - 64, 2 ** 48, 2 ** 56, 2 ** 61 - 128]
    counts += [rng.getrandbits(rng.choice([30, 33, 40, 50, 60])) // 64 * 64 for _ in range(4 if quick else 40)]
    ops = []
    for c in counts:
        for tl in ([0, 55, 64] if quick else [0, 1, 55, 56, 63, 64, 65, 119, 120, 200]):
            ops += ["rst", "poke " + limbs(c)] + msg_ops(9000 + tl, tl, [tl // 2] if tl > 1 else [])
            stats["long"] += 1
    ops += ["rst", "zeros 3"] + msg_ops(9100, 70, [])
    place(ops, 3 * len(counts) * (3 if quick else 10))
    if not quick:
        place(["rst", "zeros 512", "fin", "zeros 512"] + msg_ops(9101, 64, []), 4)
        execs.append(["zeros 4096", "fin", "zeros 4097"] + msg_ops(9102, 1, []))       # crosses 2^32 bytes; own execution
        stats["long"] += 4
    # two hashers at the same time (objects must not share state): 4 KiB messages hashed 300 times by each thread
    for k in range(2 if quick else 12):
        place(["par %d %d %d %d %d" % (9200 + k, 4096 + 64 * k + 7, 9300 + k, 4000 + 13 * k, 300)], 2 * blocks(4200))
    # HMAC
    klens = list(range(0, 81)) + list(range(120, 141)) if quick else list(range(0, 201))
    mcycle = [0, 1, 31, 55, 56, 63, 64, 65, 119, 120, 128, 200]
    for i, kl in enumerate(klens):
        mls = [mcycle[i % len(mcycle)], rng.randint(0, 150)]
        if not quick:
            mls += [mcycle[(i + 5) % len(mcycle)], mcycle[(i + 7) % len(mcycle)], rng.randint(0, 700), rng.randint(0, 64)]
        if kl in (0, 63, 64, 65, 200):
            mls += [0, 64]
        for ml in mls:
            place(["hmac %d %d %d %d" % (300 + kl, kl, 700 + ml + i, ml)],
                  1 + blocks(ml) + 2 + (blocks(kl) if kl > 64 else 0))
            stats["hmac"] += 1
    # the result array inside the message buffer (in-place MAC, x = HMAC(k, x)): every key-length class
    for kl, ml, mode in ((10, 32, 1), (64, 40, 2), (65, 32, 1), (100, 64, 1), (150, 100, 2), (200, 33, 2)):
        place(["hmac %d %d %d %d %d" % (300 + kl, kl, 900 + ml, ml, mode)], 3 + blocks(ml) + (blocks(kl) if kl > 64 else 0))
        stats["hmac"] += 1
    if not quick:
        for kl, ml in ((300, 1000), (1000, 10), (64, 2000), (129, 129)):
            place(["hmac %d %d %d %d" % (300 + kl, kl, 700 + ml, ml)], 3 + blocks(ml) + blocks(kl))
            stats["hmac"] += 1
    return execs, stats, sum(cost)


EXPLANATION = (
    "Executable-specification comparison. Sha256.tla is FIPS 180-4 (32-bit words as pairs of 16-bit halves) and RFC 2104 "
    "written out in TLA+; TLC validates it against the FIPS 180-4 'abc'/empty/448-bit vectors and RFC 4231 cases "
    "1-4,6,7 (Sha256Vectors). Sha256Stream.tla (count/buffer/chaining value, update/finalize/reset transcribed from the "
    "code, free compression function) is model-checked for block sizes 4 and 8 (thorough tier: more content and block size 16): buffered prefix invariant, digest = "
    "Blocks(Pad(message)) independent of chunking, reuse after finalize/reset. The driver runs the real Sha256 on "
    "generator-defined messages (one hasher object per execution, reused across messages; byte counts of 2^29..2^61 by "
    "injecting the counter, and by really hashing 512 MiB / 4 GiB in the thorough tier, continued from the logged chaining value) and logs only lengths, "
    "chunkings and digests; the trace specification makes TLC evaluate the reference digest once per distinct message "
    "and compare every logged digest. states = trace positions + model states; ASan/UBSan watch every call "
    "(inputs on exact-size heap blocks).")


def run(ctx):
    binary = build()
    # 1. the specification checks itself against the published vectors
    r = vlib.tlc(SPECDIR, "Sha256Vectors", "Sha256Vectors.cfg", workers=1, timeout=600)
    ctx.add_tlc("Sha256Vectors", r)
    if not any(p.startswith('"VECTORS-OK"') for p in r.printed) and not r.broken:
        ctx.broken.append("Sha256Vectors did not finish")
    # 2. the streaming state machine for small abstract block sizes
    cfgs = ["Sha256Stream_b4.cfg", "Sha256Stream_b8.cfg"] + ([] if ctx.quick else ["Sha256Stream_b8x.cfg", "Sha256Stream_b16.cfg"])
    for cfg in cfgs:
        r = vlib.tlc(SPECDIR, "Sha256Stream", cfg, workers=4 if ctx.quick else 6, timeout=900, coverage=True)
        ctx.add_tlc(cfg[:-4], r)
        for a in ("Update", "Finalize", "Reset"):
            if r.ok and not r.coverage.get(a):
                ctx.broken.append("%s: action %s never taken" % (cfg, a))
    if ctx.broken:
        return vlib.finish(ctx, "other", "specification self-check failed", explanation=EXPLANATION)
    # 3. the real code against the executable specification
    execs, stats, cost = gen(ctx)
    ctx.notes["generated"] = stats
    ctx.notes["reference_blocks"] = cost
    check_execs(ctx, binary, execs, "sha", "Sha256Trace", "Sha256Trace.cfg", key_of, nchunks=len(execs) if ctx.quick else 8)
    rule = ("messages of every length 0..%d (+ sampled longer) under every two-way and sampled three-way chunking, "
            "byte-wise and block-wise feeds, reset()/finalize() reuse of one object, hash(), hmac() for key lengths %s; "
            "every digest compared by TLC with Sha256.tla; distinct = distinct driver operations" %
            (130 if ctx.quick else 320, "0..80,120..140" if ctx.quick else "0..200 (+300, 1000)"))
    return vlib.finish(ctx, "other", rule, explanation=EXPLANATION)


def replay(ctx, path):
    binary = build()
    check_execs(ctx, binary, vlib.read_ops_file(path), "replay", "Sha256Trace", "Sha256Trace.cfg", key_of, nchunks=1)
    return vlib.finish(ctx, "other", "replay of one op sequence", explanation=EXPLANATION)
